---------------------------- MODULE WorkDigest_Gen ----------------------------
(* G-step for C32: work items x refinement outcomes for C, (bundle length, export   *)
(* segments) for A.  Hash terms are attached for the driver's generic evaluator:     *)
(* `segs` are the export segments as terms (the driver evaluates them to obtain the  *)
(* input bytes), `want_y` / `want_root` are evaluated only to be logged; the          *)
(* comparison happens in WorkDigest_Trace.                                           *)
EXTENDS WorkDigestDefs, Json, TLC
CONSTANTS OutFile, Tier, Seed
VARIABLE x

Thorough == Tier = "thorough"
Byte32(k) == [i \in 1..32 |-> (Seed * 17 + k * 29 + i * 7) % 256]
LenPool == <<0, 1, 255, 256, 65535, 65536, 65537, 16777219, 4104, 2>>
\* extrinsic specs of an item: hash ids and lengths; every third k repeats each (hash, length) spec twice
Hids(nx, k) == [i \in 1..nx |-> IF k % 3 = 0 THEN (i - 1) \div 2 ELSE i - 1]
Lens(nx, k) == [i \in 1..nx |-> LenPool[((Hids(nx, k)[i] + 1 + k) % Len(LenPool)) + 1]]
Payload(k) == [i \in 1..((k * 7) % 41) |-> (k + i * 3) % 256]
Results == << [t |-> "ok", data |-> <<>>], [t |-> "ok", data |-> <<1, 2, 3>>], [t |-> "ok", data |-> Rep(170, 300)],
              [t |-> "out-of-gas", data |-> <<>>], [t |-> "panic", data |-> <<>>], [t |-> "bad-exports", data |-> <<>>],
              [t |-> "output-oversize", data |-> <<>>], [t |-> "bad-code", data |-> <<>>], [t |-> "code-oversize", data |-> <<>>] >>
Gases == << Zeros(8), <<1, 0, 0, 0, 0, 0, 0, 0>>, Rep(255, 8), <<0, 0, 0, 0, 1, 0, 0, 0>>, <<0, 0, 0, 128, 0, 0, 0, 0>>, <<0, 202, 154, 59, 0, 0, 0, 0>> >>
Services == << <<0, 0, 0, 0>>, <<1, 0, 0, 0>>, Rep(255, 4), <<0, 0, 0, 128>>, <<57, 48, 0, 0>> >>
ECounts == <<0, 1, 2, 3, 255, 256, 65535, 7, 19, 3072>>

Item(ni, nx, k) ==
  [s |-> Services[(k % Len(Services)) + 1], c |-> Byte32(k), a |-> Gases[((k + 2) % Len(Gases)) + 1], g |-> Gases[((k + 4) % Len(Gases)) + 1],
   e |-> ECounts[((k + ni) % Len(ECounts)) + 1], payload |-> Payload(k), ni |-> ni, ext |-> Lens(nx, k), exth |-> Hids(nx, k)]
CCase(ni, nx, k) ==
  LET w == Item(ni, nx, k) IN
  [kind |-> "C", item |-> w, result |-> Results[((k + nx) % Len(Results)) + 1], u |-> Gases[((k + ni + nx) % Len(Gases)) + 1],
   want_y |-> B2b(Lit(w.payload))]
Top == 16
CCases == {CCase(ni, nx, k) : ni \in 0..3, nx \in 0..3, k \in 0..(IF Thorough THEN 17 ELSE 2)}
          \cup {CCase(ni, nx, ni + 2 * nx + 90 * j) : ni \in 0..Top, nx \in (IF Thorough THEN 0..Top ELSE {0, 1, 2, 5, 15, 16}), j \in 0..(IF Thorough THEN 5 ELSE 0)}
          \cup {CCase(ni, (ni * 5 + 3) % 17, k) : ni \in 0..Top, k \in 20..(IF Thorough THEN 109 ELSE 22)}

ExportCounts == IF Thorough THEN (0..9) \cup {31, 32, 33, 63, 64, 65, 127, 128, 129, 130}
                ELSE {0, 1, 2, 3, 4, 5, 8, 9, 64, 65}
BundleLens == <<1, 2, 683, 684, 685, 4104, 65537, 300001>>
ACase(n, k) ==
  LET segs == [i \in 1..n |-> IF (i + k) % 4 = 0 THEN ZeroSegment ELSE Segment(<<i % 256, k, 77>>)] IN
  [kind |-> "A", h |-> Byte32(100 + n + k), blen |-> BundleLens[((n + k) % Len(BundleLens)) + 1], bfill |-> (n * 3 + k) % 256,
   segs |-> segs, want_root |-> M(segs, "b2b")]
ACases == {ACase(n, k) : n \in ExportCounts, k \in 0..(IF Thorough THEN 7 ELSE 1)}

\* ---- Xi: whole report computation with a scripted refinement (the driver's executor replays `outs`).
\* outcome kinds: ok = success with the declared number of exports; err_none / err_exact / err_more / err_fewer =
\* failed refinement handing back 0 / exactly / more / fewer segments than declared; ok_more / ok_fewer = success with a
\* wrong number of segments; big = success, declared exports, 30000-byte output (two of them exceed W_R together);
\* huge = success, declared exports, 50000-byte output (exceeds W_R alone)
SmallE == <<0, 1, 2, 3, 5>>
\* ok_more0 / err_more0: the item DECLARES NO exports (w_e = 0) and the refinement hands back one / two segments all the same
ErrKinds == {"err_none", "err_exact", "err_more", "err_fewer", "err_more0"}
XKinds == <<"ok", "err_none", "ok_more", "err_exact", "ok", "ok_fewer", "err_more", "big", "err_fewer", "huge", "ok_more0", "err_more0">>
NeedsExports(kd) == kd \in {"err_exact", "err_fewer", "ok_fewer", "big", "huge"}
XItem(ni, nx, k, kd) == LET e0 == SmallE[((k + ni) % Len(SmallE)) + 1]
                        IN [Item(ni, nx, k) EXCEPT !.e = IF kd \in {"ok_more0", "err_more0"} THEN 0 ELSE IF NeedsExports(kd) /\ e0 = 0 THEN 2 ELSE e0]
NRet(kd, e) == CASE kd \in {"ok", "err_exact", "big", "huge"} -> e
                 [] kd = "err_none" -> 0
                 [] kd \in {"ok_more", "err_more", "ok_more0"} -> e + 1
                 [] kd = "err_more0" -> e + 2
                 [] OTHER -> e - 1
\* authout: the authorizer output; reps[jj] > 0 overrides the length of item jj's output blob (3 + reps[jj] bytes)
XiOfR(kinds, k, authout, reps) ==
  LET n == Len(kinds)
      ws == [jj \in 1..n |-> XItem((jj + k) % 4, (jj * 2 + k) % 5, jj + 3 * k, kinds[jj])]
      owns == [jj \in 1..n |-> [q \in 1..NRet(kinds[jj], ws[jj].e) |-> Segment(<<jj, q, k + 1>>)]]
      outs == [jj \in 1..n |->
                 [t |-> IF kinds[jj] \in ErrKinds THEN (IF (jj + k) % 2 = 0 THEN "panic" ELSE "out-of-gas") ELSE "ok",
                  data |-> IF kinds[jj] \in ErrKinds THEN <<>> ELSE <<jj, k, 5>>,
                  datarep |-> IF reps[jj] > 0 THEN reps[jj] ELSE IF kinds[jj] = "big" THEN 30000 ELSE IF kinds[jj] = "huge" THEN 50000 ELSE 0,
                  segs |-> owns[jj], u |-> Gases[((jj + k) % Len(Gases)) + 1]]]
      script == [jj \in 1..n |-> [t |-> outs[jj].t, dlen |-> Len(outs[jj].data) + outs[jj].datarep, nret |-> Len(owns[jj])]]
      failed == FailedItems(ws, script, Len(authout))
      all == AllSegments(ws, failed, owns, 1)
  IN [kind |-> "Xi", kinds |-> kinds, items |-> ws, outs |-> outs, h |-> Byte32(200 + n + k), blen |-> BundleLens[((n + k) % Len(BundleLens)) + 1],
      bfill |-> k, core |-> k % 2, authgas |-> Gases[(k % Len(Gases)) + 1], authout |-> authout,
      want_ys |-> [jj \in 1..n |-> B2b(Lit(ws[jj].payload))], want_root |-> M(all, "b2b"), nsegs |-> Len(all), offsets |-> ExportOffsets(ws)]
XiOf(kinds, k) == XiOfR(kinds, k, <<k, 1>>, [jj \in 1..Len(kinds) |-> 0])
\* the W_R budget is shared by the authorizer output and all successful outputs: sizes on both sides of
\* |o| + sum = W_R, for one item and for the second of two items, with the declared exports handed back
Boundary(L, k) ==
  LET o == [i \in 1..L |-> (i + k) % 256]
      One(d) == XiOfR(<<"big">>, k, o, <<d - 3>>)
      Two(d) == XiOfR(<<"big", "big">>, k + 1, o, <<29997, d - 3>>)
  IN {One(WR - L), One(WR - L + 1), One(WR), Two(WR - L - 30000), Two(WR - L - 30000 + 1)}
BoundaryCases == UNION {Boundary(L, L % 7) : L \in (IF Thorough THEN {1, 2, 200, 4000} ELSE {200})} \cup {XiOfR(<<"big">>, 3, <<9>>, <<WR - 1 + 1 - 3>>)}
Rotated(n, k) == [jj \in 1..n |-> XKinds[((jj + k) % Len(XKinds)) + 1]]
FixedKinds == {<<"ok_more0", "ok">>, <<"ok", "err_more0", "ok">>, <<"ok", "ok_more0", "ok">>, <<"ok_more0">>, <<"big", "big">>, <<"huge", "ok">>, <<"err_exact", "ok">>, <<"ok", "err_exact", "err_more", "ok_fewer">>, <<"big", "ok", "big", "ok">>,
               <<"ok", "err_fewer", "err_none", "ok">>}
XiCases == {XiOf(Rotated(n, k), k) : n \in 1..(IF Thorough THEN 8 ELSE 4), k \in 0..(IF Thorough THEN 39 ELSE 4)}
           \cup {XiOf(ks, k) : ks \in FixedKinds, k \in 0..(IF Thorough THEN 5 ELSE 0)}
           \cup BoundaryCases

Cases == SetToSeq(CCases) \o SetToSeq(ACases) \o SetToSeq(XiCases)
ASSUME ndJsonSerialize(OutFile, Cases)
GenInit == x = 0
GenNext == FALSE /\ x' = x
=============================================================================

--------------------------- MODULE AccQueue_Trace ---------------------------
(* V-step for C21.  Events recorded by harness/accqueue (one history per Reset):     *)
(*   Reset E tau xi th            prior state loaded into the chain state            *)
(*   Block api slot W n wbang wq wstar xi th                                         *)
(*        W available reports; wbang = W! (ids), wq = W_Q (records), wstar = W*     *)
(*        (ids) as left in the intermediate state by UpdateImmediatelyAccumulate-    *)
(*        WorkReports / UpdateQueuedWorkReports / UpdateAccumulatableWorkReports;    *)
(*        xi, th = posterior state after updateXi(n) and updateVartheta              *)
(*        (api "stf": ProcessAccumulation + DeferredTransfers, n decided by the      *)
(*        code and required to be |W*| for the result-free reports the driver uses)  *)
(*   Edit r x out r_after         QueueEditingFunction                               *)
(*   PQ r out r_after             AccumulationPriorityQueue                          *)
(*   GoPanic                      never accepted                                     *)
(* Reports are [id, h, pre, look]; hashes are names; dependency lists and xi         *)
(* entries are compared as sets (see AccQueueFn header).                             *)
EXTENDS AccQueueFn, Json, TLC
CONSTANTS TraceFile, ResultFile, KnownDeviations
VARIABLES xi, th, tau, clean, chk, l

Trace == ndJsonDeserialize(TraceFile)
e == Trace[l]
Is(name) == l <= Len(Trace) /\ e.ev = name /\ l' = l + 1

Rep(j) == [id |-> j.id, h |-> j.h, pre |-> RangeOf(j.pre), look |-> RangeOf(j.look)]
Rec(j) == [r |-> Rep(j), d |-> RangeOf(j.d)]
Reps(js) == [i \in 1..Len(js) |-> Rep(js[i])]
Recs(js) == [i \in 1..Len(js) |-> Rec(js[i])]
Ids(ws) == [i \in 1..Len(ws) |-> ws[i].id]
XiOf(js) == [i \in 1..Len(js) |-> RangeOf(js[i])]
ThOf(js) == [i \in 1..Len(js) |-> Recs(js[i])]

TReset == /\ Is("Reset")
          /\ Len(e.xi) = e.E /\ Len(e.th) = e.E
          /\ xi' = XiOf(e.xi) /\ th' = ThOf(e.th) /\ tau' = e.tau
          /\ clean' = QueueClean(XiOf(e.xi), ThOf(e.th))
          /\ chk' = TRUE

TBlock ==
  /\ Is("Block")
  /\ e.slot > tau
  /\ LET EE  == Len(xi)
         m   == e.slot % EE
         gap == e.slot - tau
         W   == Reps(e.W)
         wq  == WQ(W, xi)
         ws  == WStar(xi, th, m, W)
         x2  == XiNext(xi, ws, e.n)
     IN /\ e.wbang = Ids(Imm(W))                         \* 12.4
        /\ Recs(e.wq) = wq                               \* 12.5
        /\ e.wstar = Ids(ws)                             \* 12.11
        /\ e.n \in 0..Len(ws)
        /\ (e.api = "stf" => e.n = Len(ws))
        /\ Len(e.xi) = EE /\ XiOf(e.xi) = x2             \* 12.31, 12.32
        /\ Len(e.th) = EE
        /\ ThOf(e.th) = ThNext(th, m, gap, wq, x2[EE])   \* 12.33
        /\ xi' = x2
        /\ th' = ThOf(e.th)
        /\ tau' = e.slot
        /\ clean' = clean
        \* the statement's properties, evaluated on what the code chose (these are theorems of
        \* the definitions above for clean prior states; MC_AccQueue checks them in the model)
        /\ chk' = (clean => /\ OrderOK(xi, th, m, W)
                            /\ NoRechoose(xi, th, m, W)
                            /\ Maximal(xi, th, m, W))

TEdit == /\ Is("Edit")
         /\ Recs(e.out) = Edit(Recs(e.r), RangeOf(e.x))
         /\ e.r_after = e.r
         /\ UNCHANGED <<xi, th, tau, clean, chk>>

TPQ == /\ Is("PQ")
       /\ e.out = Ids(Q(Recs(e.r)))
       /\ e.r_after = e.r
       /\ UNCHANGED <<xi, th, tau, clean, chk>>

TraceInit == l = 1 /\ xi = <<>> /\ th = <<>> /\ tau = 0 /\ clean = TRUE /\ chk = TRUE
TraceNext == TReset \/ TBlock \/ TEdit \/ TPQ
TraceSpec == TraceInit /\ [][TraceNext]_<<xi, th, tau, clean, chk, l>>

\* invariants over the states the real code went through
KeptQueueClean == clean => QueueClean(xi, th)
ChoiceOK == chk

Report == (l = Len(Trace) + 1) => JsonSerialize(ResultFile, [n |-> l - 1, devs |-> <<>>, bad |-> <<>>])
=============================================================================

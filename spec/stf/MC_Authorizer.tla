---------------------------- MODULE MC_Authorizer ----------------------------
(* Model-checking instance of Authorizer; constants come from checks/c24.py.       *)
EXTENDS Authorizer
=============================================================================

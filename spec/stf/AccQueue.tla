------------------------------ MODULE AccQueue ------------------------------
(* C21: state machine over the functions of AccQueueFn.  Work reports become         *)
(* available one by one (Arrive); a block (Block) at slot tau + gap accumulates      *)
(* the first n reports of W* and updates xi and theta.  n is arbitrary in 0..|W*|     *)
(* (it is decided by gas in 12.16-12.21, which this module does not model).          *)
(* tau is kept modulo E (only the phase m = tau' mod E and the gap matter).          *)
EXTENDS AccQueueFn, TLC

CONSTANTS E,          \* epoch length
          Reports,    \* universe of reports that may become available
          Gaps,       \* slot gaps tau' - tau
          MaxAvail,   \* reports per block
          MaxBlocks,
          Inits       \* set of initial states [xi, th, tau]

VARIABLES xi, th, tau, avail, nblk
vars == <<xi, th, tau, avail, nblk>>

Init == /\ \E s \in Inits : xi = s.xi /\ th = s.th /\ tau = s.tau
        /\ avail = <<>> /\ nblk = 0

Arrive(w) == /\ nblk < MaxBlocks /\ Len(avail) < MaxAvail
             /\ avail' = Append(avail, w)
             /\ UNCHANGED <<xi, th, tau, nblk>>

Block(gap) ==
  LET t2 == (tau + gap) % E
      ws == WStar(xi, th, t2, avail)
      wq == WQ(avail, xi)
  IN /\ nblk < MaxBlocks
     /\ \E n \in 0..Len(ws) :
          LET x2 == XiNext(xi, ws, n)
          IN /\ xi' = x2
             /\ th' = ThNext(th, t2, gap, wq, x2[E])
     /\ tau' = t2
     /\ avail' = <<>>
     /\ nblk' = nblk + 1

Next == \/ \E w \in Reports : Arrive(w)
        \/ \E gap \in Gaps : Block(gap)

Spec == Init /\ [][Next]_vars

\* ---- properties (statement of C21) ----
TypeOK == Len(xi) = E /\ Len(th) = E /\ tau \in 0..(E - 1)

InvQueueClean == QueueClean(xi, th)

\* what a block chooses, judged on the state it starts from (m = tau' as stored)
BlockChoice ==
  [][nblk' = nblk + 1 =>
       /\ OrderOK(xi, th, tau', avail)
       /\ NoRechoose(xi, th, tau', avail)
       /\ RoundsAgree(xi, th, tau', avail)
       /\ Maximal(xi, th, tau', avail)
       \* W* = W! followed by queued reports only
       /\ LET ws == WStar(xi, th, tau', avail) wb == Imm(avail)
          IN SubSeq(ws, 1, Len(wb)) = wb
  ]_vars
=============================================================================

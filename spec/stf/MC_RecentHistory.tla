-------------------------- MODULE MC_RecentHistory --------------------------
(* Model-checking instance of RecentHistory (constants chosen by checks/c25.py).   *)
EXTENDS RecentHistory
R2 == {<<1>>, <<2>>}
PA == [hash |-> <<7>>, exports |-> <<70>>]
PB == [hash |-> <<5>>, exports |-> <<50>>]
PC == [hash |-> <<5, 0>>, exports |-> <<51>>]
Pk3 == {<<>>, <<PA>>, <<PA, PB>>}
Pk4 == {<<>>, <<PA>>, <<PA, PB>>, <<PC, PA, PB>>}
O1 == [s |-> <<1, 0, 0, 0>>, h |-> <<11>>]
O2 == [s |-> <<2, 0, 0, 0>>, h |-> <<12>>]
Ou3 == {<<>>, <<O1>>, <<O1, O2>>}
=============================================================================

----------------------------- MODULE Statistics -----------------------------
(* C34: the activity statistics as a machine over block histories (definitions:     *)
(* StatisticsDefs).  One step = one block.  The validator sets rotate through a      *)
(* fixed cycle of overlapping key sets at every epoch change (a key may sit at       *)
(* different positions in kappa' and lambda').  History variables (hidden by the     *)
(* VIEW) keep what the statement sums over: the blocks of the current epoch.         *)
EXTENDS StatisticsDefs, SequencesExt, TLC

CONSTANTS V, C, E, R,       \* validators, cores, epoch length, rotation period
          MaxBlocks,
          Jumps,            \* slot increments
          Tickets,          \* ticket counts
          MaxG, MaxA,       \* guarantees / assurances per block
          Authors,          \* author indices
          PreOpts,          \* preimage extrinsics
          AvAc              \* pairs <<newly available reports, accumulation statistics>>

VARIABLES tau, piV, piL, piC, piS, kidx, nblk,
          ep                \* history: the blocks imported in the current epoch
state == <<tau, piV, piL, piC, piS, kidx, nblk>>
vars == <<tau, piV, piL, piC, piS, kidx, nblk, ep>>

\* key sets: position i of set k holds key ((i + k) % (V + 2)) + 1  (overlapping, shifted)
KeySet(k) == [i \in 1..V |-> ((i + k) % (V + 2)) + 1]
Gas(n) == U(n)
Digest(s, k) == [s |-> s, i |-> k, x |-> 1, z |-> 2 * k, e |-> k + 1, u |-> Gas(10 * k + s)]
SigSets == {q \in {<<a, b>> : a \in 0..(V - 1), b \in 0..(V - 1)} : q[1] < q[2]}
Guarantee(slot, core, sigs) == [slot |-> slot, core |-> core, sigs |-> sigs, len |-> 100 + core, nexp |-> core,
                                res |-> IF core = 0 THEN <<Digest(1, 1)>> ELSE <<Digest(1, 2), Digest(2, 3)>>]
GOpts(slot) == {<<>>}
   \cup {<<Guarantee(t, c, q)>> : t \in {slot, slot - R}, c \in 0..(C - 1), q \in SigSets}
   \cup (IF MaxG < 2 THEN {} ELSE {<<Guarantee(t1, 0, q1), Guarantee(t2, 1, q2)>> : t1 \in {slot, slot - R}, t2 \in {slot}, q1 \in SigSets, q2 \in SigSets})
Assurance(v) == [v |-> v, bits |-> [c \in 1..C |-> (v + c) % 2]]
AOpts == {<<>>} \cup {<<Assurance(v)>> : v \in 0..(V - 1)}
         \cup (IF MaxA < 2 THEN {} ELSE {q \in {<<Assurance(v), Assurance(w)>> : v \in 0..(V - 1), w \in 0..(V - 1)} : q[1].v < q[2].v})

Init == /\ tau = E /\ kidx = 1 /\ nblk = 0
        /\ piV = [v \in 1..V |-> ZeroVal] /\ piL = [v \in 1..V |-> ZeroVal]
        /\ piC = <<>> /\ piS = <<>>
        /\ ep = <<>>

Block(blk) ==
  LET newep == blk.slot \div E # tau \div E IN
  /\ nblk < MaxBlocks
  /\ nblk' = nblk + 1
  /\ tau' = blk.slot
  /\ kidx' = IF newep THEN kidx + 1 ELSE kidx
  /\ piV' = ValsNext(piV, tau, blk, V, E, R)
  /\ piL' = LastNext(piV, piL, tau, blk, E)
  /\ piC' = [c \in 1..C |-> CoreRec(blk, c - 1)]
  /\ piS' = (LET ss == SetToSortSeq(Services(blk), <) IN [k \in 1..Len(ss) |-> ServiceRec(blk, ss[k])])
  /\ ep' = IF newep THEN <<blk>> ELSE Append(ep, blk)

Next == nblk < MaxBlocks /\ \E dt \in Jumps :
          LET slot == tau + dt
              k2 == IF slot \div E # tau \div E THEN kidx + 1 ELSE kidx
              kap == KeySet(k2)
              lam == KeySet(k2 - 1) IN
          \E gs \in GOpts(slot), as \in AOpts, pre \in PreOpts, aa \in AvAc, author \in Authors, nt \in Tickets :
             Block([slot |-> slot, author |-> author, nt |-> nt, pre |-> pre, gs |-> gs, as |-> as, avail |-> aa[1], acc |-> aa[2],
                    kappa |-> kap, lambda |-> lam])
Spec == Init /\ [][Next]_vars
View == <<tau, piV, piL, kidx, nblk>>     \* core and service records do not influence the future

\* ---------------------------------------------------------------- properties (statement of C34)
Total(f) == SumSeq([v \in 1..V |-> piV[v][f]])
\* the current records are the sums over the blocks of the current epoch
EpochSums == /\ Total("b") = Len(ep)
             /\ Total("t") = SumSeq([k \in 1..Len(ep) |-> ep[k].nt])
             /\ Total("p") = SumSeq([k \in 1..Len(ep) |-> Len(ep[k].pre)])
             /\ Total("d") = SumSeq([k \in 1..Len(ep) |-> PreOctets(ep[k])])
             /\ Total("a") = SumSeq([k \in 1..Len(ep) |-> Len(ep[k].as)])
             /\ \A v \in 1..V : /\ piV[v].b = Cardinality({k \in 1..Len(ep) : ep[k].author = v - 1})
                                /\ piV[v].g <= Len(ep) /\ piV[v].a <= Len(ep)
\* exact per-block deltas; others untouched
Delta == [][\A v \in 1..V :
            LET blk == ep'[Len(ep')]
                a == IF Len(ep') = 1 THEN ZeroVal ELSE piV[v]
                au == IF blk.author = v - 1 THEN 1 ELSE 0 IN
            /\ piV'[v].b - a.b = au /\ piV'[v].t - a.t = au * blk.nt
            /\ piV'[v].p - a.p = au * Len(blk.pre) /\ piV'[v].d - a.d = au * PreOctets(blk)
            /\ piV'[v].g - a.g \in {0, 1} /\ piV'[v].a - a.a = Cardinality({k \in 1..Len(blk.as) : blk.as[k].v = v - 1})]_vars
\* a signer of a guarantee of the current rotation is credited; at most one validator is credited per (guarantee, signer)
Credit == [][LET blk == ep'[Len(ep')]
                 a == IF Len(ep') = 1 THEN [v \in 1..V |-> ZeroVal] ELSE piV
                 credited == {v \in 1..V : piV'[v].g = a[v].g + 1} IN
             /\ \A k \in 1..Len(blk.gs) : blk.gs[k].slot \div R = blk.slot \div R => \A q \in SetOfSeq(blk.gs[k].sigs) : (q + 1) \in credited
             /\ Cardinality(credited) <= SumSeq([k \in 1..Len(blk.gs) |-> Len(blk.gs[k].sigs)])      \* one key per (guarantee, signer)
             /\ (blk.gs = <<>> => credited = {})]_vars
\* epoch change: current becomes previous and is reset
Rollover == [][IF tau' \div E # tau \div E THEN piL' = piV ELSE piL' = piL]_vars
\* core and service records are functions of the block alone
CoreSvc == [][LET blk == ep'[Len(ep')] IN
              /\ \A c \in 1..C : piC'[c].p = Cardinality({k \in 1..Len(blk.as) : blk.as[k].bits[c] = 1})
              /\ {piS'[k].s : k \in 1..Len(piS')} = Services(blk) /\ Len(piS') = Cardinality(Services(blk))
              /\ SumSeq([c \in 1..C |-> piC'[c].i]) = SumSeq([k \in 1..Len(AllDigests(blk)) |-> AllDigests(blk)[k].i])
              /\ SumSeq([k \in 1..Len(piS') |-> piS'[k].rn]) = Len(AllDigests(blk))]_vars
=============================================================================

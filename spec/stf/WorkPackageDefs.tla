--------------------------- MODULE WorkPackageDefs ---------------------------
(* X04 — the guarantor's work-package pipeline around C32 (Gray Paper 14.x), pure  *)
(* definitions shared by WorkPackage (MC), WorkPackage_Gen and WorkPackage_Trace.   *)
(*                                                                                  *)
(*  14.2-14.7  validity of a package: 1..I items; sum of exports <= W_X, imports     *)
(*             <= W_M, extrinsics <= T; |auth| + |config| + sum over items of         *)
(*             (|payload| + |imports| W_F + declared extrinsic lengths) <= W_B;       *)
(*             sums of accumulate / refine gas limits below G_A / G_R                 *)
(*  14.14 X    extrinsic data: the blob fetched for (h, l) has hash h and length l;   *)
(*             order of the specs preserved                                           *)
(*  14.12-14   import resolution: a tree root that names a work-package (H-boxplus)   *)
(*             is replaced by the segment root from the lookup dictionary            *)
(*  14.14      auditable bundle: package encoding, extrinsic data, imported segments, *)
(*             justifications, in this order                                          *)
(*  14.10 P    paged proofs: page i = E(len J6, J6(s,i), len L6, L6(s,i)) zero-padded *)
(*             to W_G (J_x / L_x from MerkleTree)                                     *)
(*  14.11      report: specification, context, core, authorizer hash H(p_u ++ p_f),   *)
(*             authorizer output / gas, segment-root lookup dictionary, digests       *)
(*                                                                                  *)
(* Permissive clauses (reconstructed from memory / not settled by a statement):      *)
(*  - W_B: sizes in (13 791 360, 13 794 305] are not judged (two editions differ);    *)
(*  - a gas sum exactly EQUAL to its limit is not judged (< or <=);                   *)
(*  - bundle framing: three readings accepted (BundleFramed = length-prefixed lists   *)
(*    as in the ASN.1 test vectors, BundleRaw = plain concatenation, BundleRawJ =     *)
(*    plain with a length-prefixed justification per import);                        *)
(*  - E(p) itself is the codec's business (C11): the package encoding is taken from   *)
(*    the trace, and its hash from a one-level oracle table;                          *)
(*  - an import whose segment root has no known erasure root is not generated.        *)
EXTENDS WorkDigestDefs, NatCodec, TLC

\* ---------------------------------------------------------------- little-endian arithmetic (gas sums exceed 2^31)
Widen(a, n) == a \o Zeros(n - Len(a))
RECURSIVE AddFrom(_, _, _, _)
AddFrom(a, b, i, c) == IF i > Len(a) THEN <<>>
                       ELSE LET t == a[i] + b[i] + c IN <<t % 256>> \o AddFrom(a, b, i + 1, t \div 256)
\* a + b on equal widths (the final carry is dropped: callers use a width with headroom)
AddLE(a, b) == AddFrom(a, b, 1, 0)
RECURSIVE SumLEFrom(_, _, _, _)
SumLEFrom(q, i, n, acc) == IF i > Len(q) THEN acc ELSE SumLEFrom(q, i + 1, n, AddLE(acc, Widen(q[i], n)))
SumLE(q, n) == SumLEFrom(q, 1, n, Zeros(n))
RECURSIVE CmpFrom(_, _, _)
CmpFrom(a, b, i) == IF i = 0 THEN 0 ELSE IF a[i] < b[i] THEN -1 ELSE IF a[i] > b[i] THEN 1 ELSE CmpFrom(a, b, i - 1)
\* -1 / 0 / 1 on equal widths
CmpLE(a, b) == CmpFrom(a, b, Len(a))

\* ---------------------------------------------------------------- 14.2-14.7 validity
MaxItems == 16
WM == 3072
WX == 3072
MaxExtrinsics == 128
WF == 4488
WBlo == 13791360
WBhi == 13794305
GA == <<128, 150, 152>>                       \* 10 000 000
GRof(mode) == IF mode = "tiny" THEN <<0, 202, 154, 59>> ELSE <<0, 242, 5, 42, 1>>   \* 10^9 / 5 * 10^9
\* a package is [auth, cfg, items]; an item [plen, ni, ext (lengths), e, g, a (8-byte LE)]
ItemSize(w) == w.plen + w.ni * WF + SumSeq(w.ext)
SumOver(items, f(_), i) == SumSeq([k \in 1..Len(items) |-> f(items[k])])
Verdict(p, mode) ==
  LET n == Len(p.items)
      imports == SumOver(p.items, LAMBDA w : w.ni, 1)
      exports == SumOver(p.items, LAMBDA w : w.e, 1)
      extr    == SumOver(p.items, LAMBDA w : Len(w.ext), 1)
      size    == p.auth + p.cfg + SumOver(p.items, ItemSize, 1)
      ga      == CmpLE(SumLE([i \in 1..n |-> p.items[i].a], 10), Widen(GA, 10))
      gr      == CmpLE(SumLE([i \in 1..n |-> p.items[i].g], 10), Widen(GRof(mode), 10))
      bad     == n < 1 \/ n > MaxItems \/ imports > WM \/ exports > WX \/ extr > MaxExtrinsics \/ size > WBhi \/ ga = 1 \/ gr = 1
      unsure  == size > WBlo \/ ga = 0 \/ gr = 0
  IN IF bad THEN "invalid" ELSE IF unsure THEN "either" ELSE "valid"

\* ---------------------------------------------------------------- X: extrinsic data against the specs
\* specs: sequence of [x (the blob whose hash the spec carries), l (declared length)]; data: the concatenated blobs
RECURSIVE PiecesFrom(_, _, _, _)
PiecesFrom(data, specs, i, off) ==
  IF i > Len(specs) THEN <<>>
  ELSE <<Sub(data, off + 1, Min2(off + specs[i].l, Len(data)))>> \o PiecesFrom(data, specs, i + 1, off + specs[i].l)
Pieces(data, specs) == PiecesFrom(data, specs, 1, 0)
ExtractOK(data, specs) ==
  /\ SumOver(specs, LAMBDA sp : sp.l, 1) = Len(data)
  /\ \A i \in 1..Len(specs) : Pieces(data, specs)[i] = specs[i].x

\* ---------------------------------------------------------------- import resolution (roots are abstract ids)
\* dict: set of <<package id, segment root id>>; erasure: set of <<segment root id, erasure root id>>
InDict(dict, r) == \E d \in dict : d[1] = r
DictVal(dict, r) == (CHOOSE d \in dict : d[1] = r)[2]
Resolve(dict, r) == IF InDict(dict, r) THEN DictVal(dict, r) ELSE r
\* the fetches of one item, in order: <<erasure root id, index>>
ItemFetches(imports, dict, erasure) == [k \in 1..Len(imports) |-> <<DictVal(erasure, Resolve(dict, imports[k].r)), imports[k].n>>]
\* report lookup dictionary: exactly the referenced package ids with their segment roots
Referenced(items, dict) == {im.r : im \in UNION {{w.imports[k] : k \in 1..Len(w.imports)} : w \in {items[i] : i \in 1..Len(items)}}} \cap {d[1] : d \in dict}
LookupOf(items, dict) == {<<r, DictVal(dict, r)>> : r \in Referenced(items, dict)}

\* ---------------------------------------------------------------- 14.14 bundle (byte sequences)
RECURSIVE Flat(_)
Flat(q) == IF q = <<>> THEN <<>> ELSE Head(q) \o Flat(Tail(q))
EncLen(n) == EncNat(LE(n, 8))
Prefixed(q) == EncLen(Len(q)) \o Flat(q)                                   \* a length-prefixed list of fixed-size things
\* xs: extrinsic blobs in item / spec order; segs[i], proofs[i][k]: the segments of item i, the proof of its k-th import
BundleFramed(ep, xs, segs, proofs) ==
  ep \o EncLen(Len(xs)) \o Flat([i \in 1..Len(xs) |-> EncLen(Len(xs[i])) \o xs[i]])
     \o EncLen(Len(segs)) \o Flat([i \in 1..Len(segs) |-> Prefixed(segs[i])])
     \o EncLen(Len(proofs)) \o Flat([i \in 1..Len(proofs) |-> Prefixed(Flat(proofs[i]))])
BundleRaw(ep, xs, segs, proofs) ==
  ep \o Flat(xs) \o Flat([i \in 1..Len(segs) |-> Flat(segs[i])]) \o Flat([i \in 1..Len(proofs) |-> Flat(Flat(proofs[i]))])
BundleRawJ(ep, xs, segs, proofs) ==
  ep \o Flat(xs) \o Flat([i \in 1..Len(segs) |-> Flat(segs[i])])
     \o Flat([i \in 1..Len(proofs) |-> Flat([k \in 1..Len(proofs[i]) |-> Prefixed(proofs[i][k])])])
BundleOK(b, ep, xs, segs, proofs) ==
  b \in {BundleFramed(ep, xs, segs, proofs), BundleRaw(ep, xs, segs, proofs), BundleRawJ(ep, xs, segs, proofs)}

\* ---------------------------------------------------------------- 14.10 paged proofs (hash terms)
PageTerm(segs, i) ==
  LET j == Jx(6, segs, i, "b2b")
      l == Lx(6, segs, i, "b2b")
      used == Len(EncLen(Len(j))) + 32 * Len(j) + Len(EncLen(Len(l))) + 32 * Len(l)
  IN Cat(<<Lit(EncLen(Len(j)))>> \o j \o <<Lit(EncLen(Len(l)))>> \o l \o <<RepLit(0, SegLen - used)>>)
PagedProofs(segs) == [i \in 1..((Len(segs) + 63) \div 64) |-> PageTerm(segs, i - 1)]

\* ---------------------------------------------------------------- one-level oracle table (package hash)
TabLookup(tab, q) ==
  LET hits == {i \in 1..Len(tab) : tab[i][1] = q}
  IN IF hits = {} THEN Assert(FALSE, <<"oracle table miss", Len(q)>>) ELSE tab[CHOOSE i \in hits : TRUE][2]
=============================================================================

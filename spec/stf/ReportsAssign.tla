---------------------------- MODULE ReportsAssign ----------------------------
(* X02: the two guarantor assignments of a block (GP 11.19-11.22) computed from the  *)
(* state with the definitions of ShuffleDefs (C20): the Fisher-Yates shuffle, the     *)
(* numeric sequence Q and the rotation are recomputed here; BLAKE2b comes from the     *)
(* oracle table st.tab (one entry per entropy for V <= 8) filled by the driver with    *)
(* the real primitive.  st.eta2 / st.eta3 are the 32-byte entropies eta'_2, eta'_3.    *)
EXTENDS Reports, ShuffleDefs

ShBase(P, eta, tab) == ShuffleH(Base(P.V, P.C), eta, tab)
\* (11.21) M = (P(eta'_2, tau'), Phi(kappa'))
MCur(P, st) == [c |-> Assign(ShBase(P, st.eta2, st.tab), st.tau % P.E, P.C, P.R),
                k |-> Phi(st.kappa, SetOf(st.off))]
\* (11.22) M* = (P(e, tau' - R), Phi(k)),  (e, k) = (eta'_2, kappa') if tau' - R lies in the same epoch, else (eta'_3, lambda')
MPrev(P, st) == LET same == PrevInSameEpoch(P, st.tau) IN
                [c |-> Assign(ShBase(P, IF same THEN st.eta2 ELSE st.eta3, st.tab), (st.tau - P.R) % P.E, P.C, P.R),
                 k |-> Phi(IF same THEN st.kappa ELSE st.lambda, SetOf(st.off))]
\* the hash inputs the two assignments need
AssignQueries(P, st) == HashQueries(st.eta2, P.V) \o HashQueries(st.eta3, P.V)
=============================================================================

---------------------------- MODULE SealingDefs ----------------------------
(* X03 - header / sealing / entropy part of the block transition (Gray Paper 5.x,    *)
(* 6.15-6.24, 6.27, 6.28), on top of SafroleDefs (C23).  Pure definitions shared by   *)
(* Sealing (MC), Sealing_Gen and Sealing_Trace.                                       *)
(*                                                                                  *)
(* Safrole state  st = [tau, ga, gs, eta, kappa, gammak, lambda, iota]  (eta[1] is    *)
(* eta_0).  A block is judged on FACTS about its header (what the VRF stand-in makes   *)
(* checkable: a signature verifies iff it was made by that key for that context,      *)
(* message and output):                                                              *)
(*   author        H_i                                                                *)
(*   seal          [key, str, eta, att, msg, so]: signed by `key` under the context    *)
(*                 "jam_ticket_seal" ++ eta ++ att (str = "t") or                      *)
(*                 "jam_fallback_seal" ++ eta (str = "f", att = -1); msg = 1 iff the   *)
(*                 message is E_U(H) of the header as imported; so = Y(H_s)            *)
(*   vs            [key, ys, msg, yv]: H_v signed by `key` under "jam_entropy" ++ ys,  *)
(*                 msg = 1 iff the message is empty; yv = Y(H_v)                       *)
(*   emh, tmh      epoch mark [has, e0, e1, v], tickets mark [has, t] as carried       *)
(*   om, xh, sr    offenders mark entries; extrinsic hash / parent state root right    *)
(*                                                                                  *)
(* CLAUSES (a block is valid iff all hold; kappa', eta', gamma'_s as in SafroleDefs):  *)
(*   slot    H_t > tau                                              (5.7, 6.1)        *)
(*   author  H_i < V                                                (5.9)             *)
(*   seal    gamma'_s tickets: H_s in F^{E_U(H)}_{kappa'[H_i]}<X_T ++ eta'_3 ++ i_r>   *)
(*           and Y(H_s) = i_y for i = gamma'_s[H_t mod E]           (6.15)            *)
(*           gamma'_s keys: kappa'[H_i]_b = gamma'_s[H_t mod E] and                    *)
(*           H_s in F^{E_U(H)}_{kappa'[H_i]}<X_F ++ eta'_3>         (6.16)            *)
(*   vrf     H_v in F^{[]}_{kappa'[H_i]}<X_E ++ Y(H_s)>             (6.17)            *)
(*   emark   H_e = (eta_0, eta_1, [(k_b, k_e) | k <- gamma'_k]) iff e' > e  (6.27)    *)
(*   tmark   H_w = Z(gamma_a) iff e' = e /\ m < Y <= m' /\ |gamma_a| = E    (6.28)    *)
(*   omark   H_o = keys of the culprits and faults (none generated: empty)  (10.20)   *)
(*   xhash   H_x = the extrinsic's Merkle commitment                        (5.4)     *)
(*   sroot   H_r = M_sigma(prior state)                                     (5.8)     *)
(*   tickets the ticket extrinsic is acceptable (SafroleDefs!MustReject)              *)
(* Posterior of an accepted block: eta'_0 = H(eta_0 ++ Y(H_v)) (6.22), eta'_1..3       *)
(* rotated at an epoch change (6.23), gamma'_s (6.24), gamma'_a (6.34), key rotation   *)
(* (6.13).  A refused block changes nothing.                                           *)
(* NOT in scope: the parent hash H_p (stf.RunSTF is not given the parent header; the   *)
(* import service matches it, C26), the wall-clock bound on H_t, blocks whose H_p is   *)
(* the zero hash (RunSTF treats them as genesis and skips the non-VRF checks), BLS /   *)
(* gamma_z, real Bandersnatch.  No permissive clause is needed: every clause above is  *)
(* stated by the paper without ambiguity; the ticket extrinsic keeps C23's P1-P3.      *)
EXTENDS SafroleDefs

Holds(c) == \A f \in DOMAIN c : c[f]
Failing(c) == {f \in DOMAIN c : ~c[f]}

Eta3Next(st, e, e2) == IF e2 > e THEN st.eta[3] ELSE st.eta[4]
KappaNext(st, e, e2) == IF e2 > e THEN st.gammak ELSE st.kappa
GammaKNext(st, e, e2) == IF e2 > e THEN st.iota ELSE st.gammak      \* no offenders are generated

SealOK(seal, key, eta3, gs2, m2) ==
  IF gs2.t # <<>>
  THEN LET tk == gs2.t[m2 + 1] IN
       seal.key = key /\ seal.str = "t" /\ seal.eta = eta3 /\ seal.att = tk.att /\ seal.msg = 1 /\ seal.so = tk.id
  ELSE seal.key = key /\ key = gs2.k[m2 + 1] /\ seal.str = "f" /\ seal.eta = eta3 /\ seal.att = -1 /\ seal.msg = 1
VrfOK(vs, key, seal) == vs.key = key /\ vs.ys = seal.so /\ vs.msg = 1

\* f: facts of the header; gs2: the specified gamma'_s; n: tickets with pf
Clauses(st, P, slot, n, f, gs2) ==
  LET e == EpochOf(st.tau, P.E)  m == PhaseOf(st.tau, P.E)
      e2 == EpochOf(slot, P.E)   m2 == PhaseOf(slot, P.E)
      inRange == f.author >= 0 /\ f.author < P.V
      key == IF inRange THEN KappaNext(st, e, e2)[f.author + 1] ELSE -2
  IN [slot |-> slot > st.tau,
      author |-> inRange,
      seal |-> inRange /\ SealOK(f.seal, key, Eta3Next(st, e, e2), gs2, m2),
      vrf |-> inRange /\ VrfOK(f.vs, key, f.seal),
      emark |-> (f.emh.has = 1) = (e2 > e)
                /\ (f.emh.has = 1 => f.emh.e0 = st.eta[1] /\ f.emh.e1 = st.eta[2] /\ f.emh.v = GammaKNext(st, e, e2)),
      tmark |-> (f.tmh.has = 1) = HasTicketsMark(st.ga, e, e2, m, m2, P.E, P.Y)
                /\ (f.tmh.has = 1 => f.tmh.t = Z(st.ga)),
      omark |-> f.om = 0,
      xhash |-> f.xh = 1,
      sroot |-> f.sr = 1,
      tickets |-> ~MustReject(n, st.ga, e, e2, m2, P.Y, P.N)]

\* posterior of an accepted block; eta0p = eta'_0
StateNext(st, P, slot, n, gs2, eta0p) ==
  LET e == EpochOf(st.tau, P.E) e2 == EpochOf(slot, P.E) IN
  [tau |-> slot, ga |-> AccNext(n, st.ga, e, e2, P.E), gs |-> gs2, eta |-> EtaNext(st.eta, eta0p, e, e2),
   kappa |-> KappaNext(st, e, e2), gammak |-> GammaKNext(st, e, e2),
   lambda |-> IF e2 > e THEN st.kappa ELSE st.lambda, iota |-> st.iota]

\* gamma'_s given the fallback index function for eta'_2 (6.24)
GsNext(st, P, slot, idx) ==
  LET e == EpochOf(st.tau, P.E) m == PhaseOf(st.tau, P.E) e2 == EpochOf(slot, P.E) IN
  IF UseTickets(st.ga, e, e2, m, P.E, P.Y) THEN Tks(Z(st.ga))
  ELSE IF e2 = e THEN st.gs
  ELSE Kys(Fallback(idx, KappaNext(st, e, e2), P.E))

\* ---------------------------------------------------------------- block descriptors (generator side)
\* what the driver is told to build; see harness/sealing.  author -1: the rightful fallback author
Descr(author, se, smode, satt, so, yv, emhas, tmhas) ==
  [author |-> author, se |-> se,
   seal |-> [mode |-> smode, att |-> satt, so |-> so, key |-> "a", msg |-> "ok", zero |-> 0],
   vs |-> [ys |-> "s", key |-> "a", msg |-> "ok", zero |-> 0, yv |-> yv],
   em |-> [has |-> emhas, var |-> "ok"], tm |-> [has |-> tmhas, var |-> "ok"], om |-> 0, xh |-> 0, sr |-> 0]

\* the valid header for a block in `slot` on st, when gamma'_s is known to be gs2kind ("t" with its
\* tickets known, or "k"); author: any index in ticket mode, -1 in fallback mode
ValidDescr(st, P, slot, gs2t, authorT, yv) ==
  LET e == EpochOf(st.tau, P.E) m == PhaseOf(st.tau, P.E) e2 == EpochOf(slot, P.E) m2 == PhaseOf(slot, P.E)
      se == IF e2 > e THEN 2 ELSE 3
      emhas == IF e2 > e THEN 1 ELSE 0
      tmhas == IF HasTicketsMark(st.ga, e, e2, m, m2, P.E, P.Y) THEN 1 ELSE 0
  IN IF gs2t # <<>> THEN Descr(authorT, se, "t", gs2t[m2 + 1].att, gs2t[m2 + 1].id, yv, emhas, tmhas)
     ELSE Descr(-1, se, "f", 0, 0 - (10 + yv), yv, emhas, tmhas)

\* (an epoch mark with fewer than V validators or a tickets mark with fewer than E entries cannot be
\* encoded at all: the codec refuses it, C13)
Defects == {"s_out", "s_eta", "s_att", "s_key", "s_msg", "s_mode", "s_zero", "f_author",
            "v_ctx", "v_key", "v_msg", "v_zero", "a_V", "a_big",
            "em_flip", "em_e0", "em_e1", "em_swap", "tm_flip", "tm_sorted", "om", "xh", "sr"}
\* defects that need a particular situation: ticket mode / fallback mode / a mark present
Applicable(d, desc) ==
  CASE d \in {"s_out", "s_att"} -> desc.seal.mode = "t"
    [] d = "f_author" -> desc.seal.mode = "f"
    [] d \in {"em_e0", "em_e1", "em_swap"} -> desc.em.has = 1
    [] d = "tm_sorted" -> desc.tm.has = 1
    [] OTHER -> TRUE
Apply(desc, d, P) ==
  CASE d = "s_out" -> [desc EXCEPT !.seal.so = 0 - 5]
    [] d = "s_eta" -> [desc EXCEPT !.se = 5 - desc.se]
    [] d = "s_att" -> [desc EXCEPT !.seal.att = desc.seal.att + 1]
    [] d = "s_key" -> [desc EXCEPT !.seal.key = "o"]
    [] d = "s_msg" -> [desc EXCEPT !.seal.msg = "alt"]
    [] d = "s_mode" -> [desc EXCEPT !.seal.mode = IF desc.seal.mode = "t" THEN "f" ELSE "t"]
    [] d = "s_zero" -> [desc EXCEPT !.seal.zero = 1]
    [] d = "f_author" -> [desc EXCEPT !.author = 0 - 2]
    [] d = "v_ctx" -> [desc EXCEPT !.vs.ys = "o"]
    [] d = "v_key" -> [desc EXCEPT !.vs.key = "o"]
    [] d = "v_msg" -> [desc EXCEPT !.vs.msg = "x"]
    [] d = "v_zero" -> [desc EXCEPT !.vs.zero = 1]
    [] d = "a_V" -> [desc EXCEPT !.author = P.V]
    [] d = "a_big" -> [desc EXCEPT !.author = 65535]
    [] d = "em_flip" -> [desc EXCEPT !.em.has = 1 - desc.em.has]
    [] d = "em_e0" -> [desc EXCEPT !.em.var = "e0"]
    [] d = "em_e1" -> [desc EXCEPT !.em.var = "e1"]
    [] d = "em_swap" -> [desc EXCEPT !.em.var = "swap"]
    [] d = "tm_flip" -> [desc EXCEPT !.tm.has = 1 - desc.tm.has]
    [] d = "tm_sorted" -> [desc EXCEPT !.tm.var = "sorted"]
    [] d = "om" -> [desc EXCEPT !.om = 1]
    [] d = "xh" -> [desc EXCEPT !.xh = 1]
    [] d = "sr" -> [desc EXCEPT !.sr = 1]
    [] OTHER -> desc

\* ---------------------------------------------------------------- facts from a descriptor (what the driver builds)
\* used by the model checker only; the trace carries the facts recorded by the driver
FactsOf(st, P, slot, desc, gs2) ==
  LET e == EpochOf(st.tau, P.E) e2 == EpochOf(slot, P.E) m2 == PhaseOf(slot, P.E)
      kap2 == KappaNext(st, e, e2)
      want == IF Len(gs2.k) = P.E THEN gs2.k[m2 + 1] ELSE -9
      rightful == IF \E i \in 1..P.V : kap2[i] = want THEN (CHOOSE i \in 1..P.V : kap2[i] = want) - 1 ELSE 0
      other == IF \E i \in 1..P.V : kap2[i] # want THEN (CHOOSE i \in 1..P.V : kap2[i] # want) - 1 ELSE 0
      author == IF desc.author = 0 - 1 THEN rightful ELSE IF desc.author = 0 - 2 THEN other ELSE desc.author
      base == IF author >= P.V THEN 0 ELSE author
      signer(w) == kap2[(IF w = "o" THEN (base + 1) % P.V ELSE base) + 1]
      so == IF desc.seal.zero = 1 THEN 1 ELSE desc.seal.so
      swapv(v) == [i \in 1..Len(v) |-> IF i = 1 THEN v[2] ELSE IF i = 2 THEN v[1] ELSE v[i]]
      emv == IF desc.em.var = "swap" THEN swapv(st.iota) ELSE IF desc.em.var = "short" THEN SubSeq(st.iota, 1, Len(st.iota) - 1) ELSE st.iota
  IN [author |-> author,
      seal |-> [key |-> IF desc.seal.zero = 1 THEN 0 - 1 ELSE signer(desc.seal.key), str |-> desc.seal.mode, eta |-> st.eta[desc.se + 1],
                att |-> IF desc.seal.mode = "t" THEN desc.seal.att ELSE 0 - 1, msg |-> IF desc.seal.msg = "ok" THEN 1 ELSE 0, so |-> so],
      vs |-> [key |-> IF desc.vs.zero = 1 THEN 0 - 1 ELSE signer(desc.vs.key), ys |-> IF desc.vs.ys = "o" THEN 0 - 7 ELSE so,
              msg |-> IF desc.vs.msg = "ok" THEN 1 ELSE 0, yv |-> IF desc.vs.zero = 1 THEN 0 ELSE desc.vs.yv],
      emh |-> IF desc.em.has = 1
              THEN [has |-> 1, e0 |-> IF desc.em.var = "e0" THEN st.eta[2] ELSE st.eta[1], e1 |-> IF desc.em.var = "e1" THEN st.eta[3] ELSE st.eta[2], v |-> emv]
              ELSE [has |-> 0, e0 |-> <<>>, e1 |-> <<>>, v |-> <<>>],
      tmh |-> IF desc.tm.has = 1 THEN [has |-> 1, t |-> IF desc.tm.var = "sorted" THEN st.ga ELSE Z(st.ga)] ELSE [has |-> 0, t |-> <<>>],
      om |-> desc.om, xh |-> 1 - desc.xh, sr |-> 1 - desc.sr]
=============================================================================

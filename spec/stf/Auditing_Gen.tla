----------------------------- MODULE Auditing_Gen -----------------------------
(* G-step for X08: inputs, oracle-table queries and message terms (with Ref nodes   *)
(* for values only known at run time: report / header encodings, VRF outputs).       *)
(*  q         rho, avail                          CollectAuditReportCandidates        *)
(*  a0        C, Q, v, author, yhv, seedctx, hq    ComputeInitialAuditAssignment       *)
(*  an        n, Q, v, prior, pos, queries         ComputeAnForValidator               *)
(*  announce  n, an, msgs                          BuildAnnouncement                   *)
(*  judge     items, msgs                          BuildJudgements                     *)
(*  audited   reports, judgments, assigned         IsWorkReportAudited / IsBlockAudited *)
(*  bus       announcements, judgments             SyncAssignmentMapFromBus / ...      *)
(*  equal     a, tweak                             workReportsEqual                    *)
(*  judgement mode                                 GetJudgement failure paths          *)
(*  thr       V F m                                isAssignedByThreshold for every byte *)
EXTENDS AuditingDefs, Json
CONSTANTS OutFile, Tier, Seed, KnownDeviations
VARIABLE x

Thorough == Tier = "thorough"
Y32(k) == [i \in 1..32 |-> (Seed * 7 + k * 13 + i * 5) % 256]

\* ---- q
QCases == {[kind |-> "q", rho |-> rho, avail |-> av] :
             rho \in {<<0, 0>>, <<1, 0>>, <<1, 2>>, <<0, 2>>, <<3, 0, 4, 0, 5, 6>>},
             av \in {<<>>, <<1>>, <<2>>, <<1, 2>>, <<2, 1, 9>>, <<3, 5, 6>>, <<4>>, <<9>>}}

\* ---- a0
QPat(C, pat) == CASE pat = "full"   -> [c \in 1..C |-> c]
                  [] pat = "third"  -> [c \in 1..C |-> IF c % 3 = 1 THEN c ELSE 0]
                  [] pat = "single" -> [c \in 1..C |-> IF c = (C + 1) \div 2 THEN c ELSE 0]
                  [] pat = "tail"   -> [c \in 1..C |-> IF c > C - 3 THEN c ELSE 0]
                  [] OTHER          -> [c \in 1..C |-> 0]
HQ(C) == [k \in 1..NBlocks(C) |-> Cat(<<Ref("r"), Lit(E4(k - 1))>>)]
A0Case(C, pat, v, author, k) ==
  [kind |-> "a0", C |-> C, Q |-> QPat(C, pat), pat |-> pat, v |-> v, author |-> author, yhv |-> Y32(k), seedctx |-> AuditSeedCtx(Y32(k)), hq |-> HQ(C)]
\* the two readings of 17.5 can only differ when there are more than ten cores and some are empty
Agreeing == {A0Case(C, pat, (C + k) % 6, k % 6, k) : C \in {1, 2, 6, 10}, pat \in {"full", "third", "single", "tail", "empty"}, k \in 0..(IF Thorough THEN 5 ELSE 1)}
            \cup {A0Case(C, pat, k % 6, (k + 2) % 6, 20 + k) : C \in {11, 14, 341}, pat \in {"full", "empty"}, k \in 0..(IF Thorough THEN 5 ELSE 1)}
Differing == {A0Case(C, pat, k % 6, (k + 1) % 6, 40 + k) : C \in {11, 14, 341}, pat \in {"third", "single", "tail"}, k \in 0..(IF Thorough THEN 7 ELSE 1)}
\* while the finding is open only a small group re-confirms it
A0Cases == Agreeing \cup (IF "a0_skips_empty_cores" \in KnownDeviations THEN {c \in Differing : c.C # 341 \/ c.pat = "third"} ELSE Differing)

\* ---- an
Pairs(f) == SetToSeq({<<w, SetToSeq(f[w])>> : w \in DOMAIN f})
AnCase(n, V, v, author, k, qq, prior, pos) ==
  [kind |-> "an", n |-> n, V |-> V, C |-> Len(qq), Q |-> qq, v |-> v, author |-> author, yhv |-> Y32(k), prior |-> Pairs(prior), pos |-> Pairs(pos),
   queries |-> SetToSeq({[id |-> qq[c], ctxs |-> [i \in 1..Len(Widths) |-> TrancheCtx(Y32(k), qq[c], n, Widths[i])]] : c \in {c \in 1..Len(qq) : qq[c] # 0}})]
Q6 == <<1, 0, 3, 4, 0, 6>>
Prior(k) == (1 :> {0, 1, 2}) @@ (3 :> {k % 6}) @@ (4 :> {0, 1, 2, 3, 4, 5}) @@ (6 :> {})
Pos(k) == (1 :> {0, 1, 2, 5}) @@ (3 :> {}) @@ (4 :> {(k + 1) % 6}) @@ (6 :> {3})
Pos2(k) == (1 :> {0}) @@ (4 :> {0, 1, 2})
AnCases == {AnCase(n, V, v, (v + k) % 6, 60 + k + n, Q6, Prior(k), IF k % 2 = 0 THEN Pos(k) ELSE Pos2(k))
            : n \in {1, 2, 7, 200}, V \in {6, 1023}, v \in (IF Thorough THEN 0..5 ELSE {0, 2, 4}), k \in 0..(IF Thorough THEN 7 ELSE 2)}

\* ---- announce / judge
AnnCase(n, an, k) == [kind |-> "announce", n |-> n, an |-> an, key |-> k, author |-> k % 6, msgs |-> AnnounceVariants(n, an)]
AnnCases == {AnnCase(n, an, n + Len(an)) : n \in {0, 1, 9, 255},
             an \in {<<>>, << <<0, 1>> >>, << <<1, 2>>, <<0, 1>> >>, << <<300, 7>>, <<2, 3>>, <<340, 5>> >>, << <<0, 1>>, <<1, 2>>, <<2, 3>>, <<3, 4>> >>}}
JudgeCase(items, k) == [kind |-> "judge", items |-> items, key |-> k, msgs |-> [i \in 1..Len(items) |-> JudgeMsg(items[i][3], items[i][2])]]
JudgeCases == {JudgeCase(items, Len(items)) : items \in {<<>>, << <<0, 1, 1>> >>, << <<0, 1, 0>> >>, << <<1, 2, 1>>, <<0, 1, 0>>, <<5, 6, 1>> >>}}

\* ---- audited: judgments <<report, validator, valid>>; assigned <<report, validators>>
AudCase(V, sm, reports, judgments, assigned) == [kind |-> "audited", V |-> V, sm |-> sm, reports |-> reports, judgments |-> judgments, assigned |-> assigned]
Js(w, ps, ns) == [i \in 1..Len(ps) |-> <<w, ps[i], 1>>] \o [i \in 1..Len(ns) |-> <<w, ns[i], 0>>]
Upto(k) == [i \in 1..k |-> i - 1]
AudCases ==
  {AudCase(6, 5, <<1>>, Js(1, ps, ns), << <<1, asg>> >>) :
     ps \in {<<>>, <<0>>, <<0, 1>>, <<0, 1, 2, 3>>, <<0, 1, 2, 3, 4>>, <<0, 1, 2, 3, 4, 5>>}, ns \in {<<>>, <<5>>},
     asg \in {<<>>, <<0>>, <<0, 1>>, <<1, 4>>, <<0, 1, 2, 3, 4>>}}
  \cup {AudCase(6, 5, <<1, 2>>, Js(1, <<0, 1>>, <<>>) \o Js(2, ps2, ns2), << <<1, <<0, 1>> >>, <<2, <<3>> >> >>) : ps2 \in {<<>>, <<3>>, <<4>>}, ns2 \in {<<>>, <<2>>}}
  \cup {AudCase(6, 5, <<1, 2>>, Js(1, <<0>>, <<>>), << <<1, <<0>> >> >>), AudCase(6, 5, <<>>, <<>>, <<>>)}
  \cup {AudCase(1023, 683, <<1>>, Js(1, Upto(k), <<>>), << <<1, <<1000, 1001>> >> >>) : k \in {682, 683}}

\* ---- bus: announcements <<validator, tranche, reports>>, judgments <<report, validator, valid>>
BusCases ==
  {[kind |-> "bus", asg0 |-> a0, pos0 |-> p0, ann |-> ann, jud |-> jud] :
     a0 \in {<<>>, << <<1, <<0>> >> >>}, p0 \in {<<>>, << <<1, <<0>> >> >>},
     ann \in {<<>>, << <<2, 0, <<1, 2>> >> >>, << <<0, 0, <<1>> >>, <<2, 1, <<1>> >>, <<2, 1, <<1, 3>> >> >>},
     jud \in {<<>>, << <<1, 3, 1>> >>, << <<1, 3, 0>>, <<2, 4, 1>>, <<1, 0, 1>>, <<2, 4, 1>> >>}}

\* ---- equal / judgement
EqualCases == {[kind |-> "equal", a |-> 3, tweak |-> t] :
               t \in {"none", "hash", "length", "exports_root", "exports_count", "core", "authorizer", "auth_output", "auth_gas", "result_data", "result_type",
                      "gas_used", "lookup", "context", "results_count", "erasure_root"}}
ThrCases == {[kind |-> "thr", V |-> vv, F |-> 2, m |-> m] : vv \in {6, 1023, 341, 1}, m \in 0..6}
JudgementCases == {[kind |-> "judgement", mode |-> m] : m \in {"fetcherr", "garbage", "empty"}}

Cases == SetToSeq(QCases) \o SetToSeq(A0Cases) \o SetToSeq(AnCases) \o SetToSeq(AnnCases) \o SetToSeq(JudgeCases)
         \o SetToSeq(AudCases) \o SetToSeq(BusCases) \o SetToSeq(EqualCases) \o SetToSeq(JudgementCases) \o SetToSeq(ThrCases)
ASSUME ndJsonSerialize(OutFile, Cases)
GenInit == x = 0
GenNext == FALSE /\ x' = x
=============================================================================

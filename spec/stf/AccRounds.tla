------------------------------ MODULE AccRounds ------------------------------
(* Implementation-shaped layer of the accumulation rounds over the Gray-Paper layer *)
(* of AccRoundsFn.tla (see the header there).  Property C22.                        *)
EXTENDS AccRoundsFn

\* ---- implementation-shaped layer ----
CONSTANTS Mode,            \* "asis" | "repaired"
          StableUpTo,      \* the sort is stable for at most this many elements (12 in Go's sort.Slice)
          Scenarios        \* the family explored by the model check
VARIABLES sc, phase, e, t, r, f, res, torun, tomerge, eacc, tacc, uacc, uall, tsall, ball, round
vars == <<sc, phase, e, t, r, f, res, torun, tomerge, eacc, tacc, uacc, uall, tsall, ball, round>>

\* every arrangement of m that is sorted by sender (equal senders in any order)
SortedArrangements(m) ==
  LET snd == Asc({m[i].from : i \in 1..Len(m)})
      grp(k) == {i \in 1..Len(m) : m[i].from = snd[k]}
      RECURSIVE Build(_)
      Build(k) == IF k > Len(snd) THEN {<<>>}
                  ELSE {[j \in 1..Len(p) |-> m[p[j]]] \o rest : p \in SetToSeqs(grp(k)), rest \in Build(k + 1)}
  IN Build(1)
ImplIn(tt, s) == LET m == Mine(tt, s)
                 IN IF Mode = "repaired" \/ Len(m) <= StableUpTo THEN {StableBySender(m)} ELSE SortedArrangements(m)

StartRound(ee, tt, rr, ff) ==
  LET S == RoundSet(tt, rr, ff)
  IN /\ e' = ee /\ t' = tt /\ r' = rr /\ f' = ff
     /\ res' = <<>> /\ torun' = S /\ tomerge' = S
     /\ eacc' = ee /\ tacc' = <<>> /\ uacc' = <<>>

Init == /\ sc \in Scenarios
        /\ phase = "run" /\ round = 1 /\ uall = <<>> /\ tsall = <<>> /\ ball = {}
        /\ e = E0(sc) /\ t = <<>> /\ r = sc.reports /\ f = sc.free
        /\ res = <<>> /\ torun = RoundSet(<<>>, sc.reports, sc.free) /\ tomerge = RoundSet(<<>>, sc.reports, sc.free)
        /\ eacc = E0(sc) /\ tacc = <<>> /\ uacc = <<>>

\* a worker finishes service s (every worker starts from the round's initial state e)
RunSvc == \E s \in torun : \E iT \in ImplIn(t, s) :
            /\ phase = "run"
            /\ res' = res @@ (s :> Single(sc, e, s, iT, Operands(r, s)))
            /\ torun' = torun \ {s}
            /\ UNCHANGED <<sc, phase, e, t, r, f, tomerge, eacc, tacc, uacc, uall, tsall, ball, round>>

\* the merge loop takes the next service from the map
Merge == \E s \in tomerge :
           /\ phase = "run" /\ torun = {}
           /\ (Mode = "repaired" => \A x \in tomerge : s <= x)
           /\ tacc' = tacc \o res[s].out
           /\ uacc' = Append(uacc, s)
           /\ eacc' = IF s \in Ids(sc) THEN [spent |-> [eacc.spent EXCEPT ![s] = res[s].spent], store |-> [eacc.store EXCEPT ![s] = res[s].store]]
                      ELSE eacc
           /\ tomerge' = tomerge \ {s}
           /\ ball' = IF res[s].y # NoY THEN ball \cup {[id |-> s, y |-> res[s].y]} ELSE ball   \* b is a Go map used as a set
           /\ UNCHANGED <<sc, phase, e, t, r, f, res, torun, uall, tsall, round>>

EndRound == /\ phase = "run" /\ torun = {} /\ tomerge = {}
            /\ uall' = uall \o uacc /\ tsall' = Append(tsall, tacc) /\ sc' = sc /\ ball' = ball
            /\ IF Len(tacc) = 0 \/ round >= MaxRounds
               THEN /\ phase' = "done" /\ round' = round
                    /\ e' = eacc /\ UNCHANGED <<t, r, f, res, torun, tomerge, eacc, tacc, uacc>>
               ELSE /\ phase' = "run" /\ round' = round + 1
                    /\ StartRound(eacc, tacc, <<>>, <<>>)

Next == RunSvc \/ Merge \/ EndRound
Spec == Init /\ [][Next]_vars

\* ---- AllOutcomesEqual, component by component ----
Done == phase = "done"
InvStore == Done => e.store = GP(sc).e.store          \* what every service recorded
InvSpent == Done => e.spent = GP(sc).e.spent          \* balances
InvU     == Done => uall = GP(sc).u                   \* gas list (order of services)
InvUSet  == Done => Ran(uall) = Ran(GP(sc).u)         \* ... as a set (what the statistics use)
InvT     == Done => tsall = GP(sc).ts                 \* transfer sequence of every round
InvRounds == Done => Len(tsall) = Len(GP(sc).ts)
InvB     == Done => ball = GP(sc).b                   \* accumulation outputs (a set of pairs; the same service may occur twice)
\* witness (expected to be VIOLATED): some behaviour has the same service twice in b
NeverTwiceInB == Done => \A p, q \in ball : p.id = q.id => p = q
AllOutcomesEqual == InvStore /\ InvSpent /\ InvU /\ InvT /\ InvB
=============================================================================

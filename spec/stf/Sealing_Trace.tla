--------------------------- MODULE Sealing_Trace ---------------------------
(* V-step for X03.  Records written by harness/sealing (one history per Reset):       *)
(*   Reset  P U base tau ga gs eta kappa gammak lambda iota    prior Safrole state      *)
(*   Block  slot adv ce rk n  author seal vs emh tmh om xh sr  h0 tab -> ok err post    *)
(*          the FACTS about the block the driver built and sealed with the VRF          *)
(*          stand-in (SealingDefs header), the ticket extrinsic as in Safrole_Trace,    *)
(*          h0 = <<eta_0 ++ Y(H_v), its BLAKE2b>> and tab = oracle tables for the        *)
(*          fallback keys (real primitive, DESIGN 3.3); ok / err: verdict of            *)
(*          stf.RunSTF() on the singleton; post: posterior ga, gs, eta, kappa, gammak,  *)
(*          lambda (re-read from the serialised posterior state).                       *)
(*   GoPanic                never accepted                                              *)
(* Every line is judged against the state built from the preceding lines; after an      *)
(* accepted block with adv = 1 the recorded posterior becomes the prior.                *)
(* Judgement: accepted <=> every clause of SealingDefs!Clauses holds (refusal is also   *)
(* allowed where C23's permissive ticket clauses P1-P3 allow it); accepted => eta'      *)
(* (eta'_0 through the oracle entry, rotation), gamma'_s, gamma'_a, kappa', gamma'_k,   *)
(* lambda' exactly as specified.  A refused block leaves the driver's state untouched   *)
(* (the rollback of the node is C26's business).                                        *)
EXTENDS SealingDefs, Json, TLC, SequencesExt
CONSTANTS TraceFile, ResultFile, KnownDeviations
VARIABLES l, devs, bad, par, st

Trace == ndJsonDeserialize(TraceFile)
Why(c, s) == IF c THEN {s} ELSE {}
Pairs(s) == [i \in 1..Len(s) |-> [id |-> s[i][1], att |-> s[i][2]]]
GsOf(j) == [t |-> Pairs(j.t), k |-> j.k]
NoTable == "oracle_table_missing"     \* infrastructure, not a verdict (checks/x03.py)

TabFor(tabs, r) == LET hits == {k \in 1..Len(tabs) : Len(tabs[k]) > 0 /\ tabs[k][1][1] = r \o LEs(0, 4)}
                   IN IF hits = {} THEN <<>> ELSE tabs[CHOOSE k \in hits : TRUE]
TabOK(tab, r, E) == Len(tab) >= E /\ \A i \in 1..E : tab[i][1] = r \o LEs(i - 1, 4) /\ Len(tab[i][2]) = 32
IdxFromTab(tab, E, V) == [i \in 1..E |-> ModLES(SubSeq(tab[i][2], 1, 4), V)]

JudgeBlock(e) ==
  LET E == par.E
      ev == EpochOf(st.tau, E)   m == PhaseOf(st.tau, E)
      e2 == EpochOf(e.slot, E)
      etaWanted == st.eta[Eta2Index(ev, e2) + 1]
      ringOK == (e.rk = "i") = (e2 > ev)
      n == [i \in 1..Len(e.n) |-> [id |-> e.n[i].id, att |-> e.n[i].att,
                                   pf |-> e.n[i].sig = "ok" /\ st.eta[e.ce + 1] = etaWanted /\ ringOK]]
      tab == TabFor(e.tab, etaWanted)
      needTab == ~UseTickets(st.ga, ev, e2, m, E, par.Y) /\ e2 # ev
      haveTab == ~needTab \/ TabOK(tab, etaWanted, E)
      gs2 == GsNext(st, par, e.slot, IF needTab /\ haveTab THEN IdxFromTab(tab, E, par.V) ELSE <<>>)
      f == [author |-> e.author, seal |-> e.seal, vs |-> e.vs, emh |-> e.emh,
            tmh |-> [has |-> e.tmh.has, t |-> Pairs(e.tmh.t)], om |-> e.om, xh |-> e.xh, sr |-> e.sr]
      c == Clauses(st, par, e.slot, n, f, gs2)
      may == MayReject(n, st.ga, ev, e2, E, par.K)
      h0ok == e.h0[1] = st.eta[1] \o e.vs.yvb /\ Len(e.h0[2]) = 32
      want == StateNext(st, par, e.slot, n, gs2, e.h0[2])
      got == e.post
  IN IF ~haveTab \/ ~h0ok THEN {NoTable}
     ELSE IF ~e.ok THEN Why(Holds(c) /\ ~may, "valid_block_refused")
     ELSE IF ~Holds(c) THEN {"accepted_although_clause_fails_" \o x : x \in Failing(c)}
     ELSE Why(Len(got.eta) # 4, "entropy_buffer_wrong_length")
          \cup Why(Len(got.eta) = 4 /\ got.eta[1] # want.eta[1], "eta0_not_hash_of_eta0_and_entropy_source_output")
          \cup Why(Len(got.eta) = 4 /\ SubSeq(got.eta, 2, 4) # SubSeq(want.eta, 2, 4), "entropy_rotation_differs")
          \cup Why(GsOf(got.gs) # want.gs, "sealer_sequence_differs")
          \cup Why(Pairs(got.ga) # want.ga, "accumulator_differs")
          \cup Why(got.kappa # want.kappa \/ got.gammak # want.gammak \/ got.lambda # want.lambda, "key_rotation_differs")

Judge(e) == CASE e.ev = "Block" -> JudgeBlock(e)
              [] e.ev = "Reset" -> Why(ModLES(e.base, e.P.E) # 0, "generator_error_base_not_multiple_of_E")
              [] e.ev = "GoPanic" -> {"panic:RunSTF"}
              [] OTHER -> {"unknown_event"}

StateOfReset(e) == [tau |-> e.tau, ga |-> Pairs(e.ga), gs |-> GsOf(e.gs), eta |-> e.eta,
                    kappa |-> e.kappa, gammak |-> e.gammak, lambda |-> e.lambda, iota |-> e.iota]
StateAfter(e) == [tau |-> e.slot, ga |-> Pairs(e.post.ga), gs |-> GsOf(e.post.gs), eta |-> e.post.eta,
                  kappa |-> e.post.kappa, gammak |-> e.post.gammak, lambda |-> e.post.lambda, iota |-> st.iota]
NoState == [tau |-> 0, ga |-> <<>>, gs |-> [t |-> <<>>, k |-> <<>>], eta |-> <<>>, kappa |-> <<>>, gammak |-> <<>>, lambda |-> <<>>, iota |-> <<>>]

TInit == l = 1 /\ devs = {} /\ bad = {} /\ par = [E |-> 1, Y |-> 1, N |-> 1, V |-> 1, K |-> 1] /\ st = NoState
TNext == /\ l <= Len(Trace)
         /\ LET e == Trace[l] IN
            /\ par' = IF e.ev = "Reset" THEN e.P ELSE par
            /\ st' = IF e.ev = "Reset" THEN StateOfReset(e)
                     ELSE IF e.ev = "Block" /\ e.ok /\ e.adv = 1 THEN StateAfter(e) ELSE st
            /\ bad' = bad \cup {[l |-> l, why |-> y] : y \in Judge(e)}
         /\ devs' = devs
         /\ l' = l + 1
TraceSpec == TInit /\ [][TNext]_<<l, devs, bad, par, st>>

Report == (l = Len(Trace) + 1) =>
  JsonSerialize(ResultFile, [n |-> l - 1, devs |-> SetToSeq(devs), bad |-> SetToSeq(bad)])
=============================================================================

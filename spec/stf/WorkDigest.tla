------------------------------ MODULE WorkDigest ------------------------------
(* MC model for C32: a guarantor refines the items of a package one by one          *)
(* (GP 14.11): every item yields a digest C(w, l, u) and exactly w_e export          *)
(* segments (its own when refinement succeeded with the declared count, zero         *)
(* segments otherwise); at the end the specification A is formed over all segments.  *)
(* Invariants: digests copy the item's identity fields, load fields are the counts   *)
(* and the length sum, and the specification's export count is the sum of the        *)
(* declared counts, independently of the outcomes.                                   *)
EXTENDS WorkDigestDefs
CONSTANTS MaxItems, Lens, MaxE, MaxExt
VARIABLES items, j, digests, segs, spec

Outcomes == {"ok", "panic", "out_of_gas", "bad_exports", "oversize", "bad_code"}
ItemU == [s : {<<255, 255, 255, 255>>}, c : {Rep(7, 32)}, a : {<<0, 0, 0, 0, 0, 0, 0, 128>>},
          e : 0..MaxE, payload : {<<>>, <<1, 2>>}, imports : {<<>>, <<1, 1>>},
          ext : UNION {[1..n -> Lens] : n \in 0..MaxExt}]
vars == <<items, j, digests, segs, spec>>
NoSpec == [h |-> <<>>, l |-> 0, n |-> 0, e |-> ZeroHash]
Init == /\ items \in UNION {[1..n -> ItemU] : n \in 1..MaxItems}
        /\ j = 0 /\ digests = <<>> /\ segs = <<>> /\ spec = NoSpec
Refine == /\ j < Len(items)
          /\ \E o \in Outcomes, g \in {<<5, 0, 0, 0, 0, 0, 0, 0>>} :
               LET w == items[j + 1]
                   out == IF o = "ok" THEN [k \in 1..w.e |-> Segment(<<j + 1, k>>)] ELSE [k \in 1..w.e |-> ZeroSegment]
               IN /\ digests' = Append(digests, Digest(w, o, g))
                  /\ segs' = segs \o out
          /\ j' = j + 1 /\ UNCHANGED <<items, spec>>
Finish == /\ j = Len(items) /\ spec = NoSpec
          /\ spec' = PackageSpec(Rep(9, 32), 100 + j, segs)
          /\ UNCHANGED <<items, j, digests, segs>>
Next == Refine \/ Finish
Spec == Init /\ [][Next]_vars

InvDigests == /\ Len(digests) = j
              /\ \A k \in 1..j : LET d == digests[k]
                                     w == items[k]
                                 IN /\ d.s = w.s /\ d.c = w.c /\ d.a = w.a /\ d.e = w.e
                                    /\ d.y = B2b(Lit(w.payload))
                                    /\ d.i = Len(w.imports) /\ d.x = Len(w.ext)
                                    /\ d.z = SumSeq(w.ext) /\ d.z >= 0
                                    /\ d.result \in Outcomes
RECURSIVE DeclaredUpTo(_)
DeclaredUpTo(k) == IF k = 0 THEN 0 ELSE items[k].e + DeclaredUpTo(k - 1)
InvSegments == Len(segs) = DeclaredUpTo(j)
InvSpec == spec # NoSpec => /\ spec.n = DeclaredUpTo(Len(items))
                            /\ spec.l = 100 + Len(items)
                            /\ spec.e = M(segs, "b2b")
\* the exports root distinguishes a successful item's segments from zero segments
InvRootSensitive == (spec # NoSpec /\ Len(segs) > 0 /\ \E k \in 1..Len(segs) : segs[k] # ZeroSegment)
                      => spec.e # M([k \in 1..Len(segs) |-> ZeroSegment], "b2b")
=============================================================================

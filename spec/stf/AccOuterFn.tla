----------------------------- MODULE AccOuterFn -----------------------------
(* Functional specification of the accumulation pipeline (Gray Paper 0.7.x            *)
(* 12.16-12.27: Delta+, Delta*, Delta1, B.8-B.13 collapse, privileged-state merge R,  *)
(* provided preimages, theta', statistics, last-accumulation slot) over ABSTRACT      *)
(* service programs.  Check X06.  (AccRoundsFn.tla is the order-only core used by     *)
(* C22; this module computes the whole expected posterior.)                           *)
(*                                                                                   *)
(* Scenario sc:                                                                      *)
(*   svcs     sequence of [id, code, prog, bal, sol (solicited blob tags, lookup =     *)
(*            []), ejby (service entitled to eject it, 0 = nobody)]                   *)
(*   reports  sequence of reports, each a sequence of digests [id, gas]               *)
(*   free     sequence of [id, gas]   (always-accumulate, chi_z)                      *)
(*   priv     [m, a (one per core), v, r]                                             *)
(*   g        gas limit handed to Delta+                                              *)
(* Program ops (each is a host call the driver assembles into real PVM code):         *)
(*   xfer(to, amt, tag, gas)  transfer; refused (no cost) if `to` does not exist      *)
(*   rec        store the items shown (transfers and operands) under keys 0,1,..      *)
(*   yield(tag) accumulation output (item count of the last rec, tag)                 *)
(*   ckpt / panic / spin   checkpoint; trap; endless loop (out of gas)                *)
(*   bless(m, a, v, r, z)  set the privileged services in the own context             *)
(*   assign(c, to, tag)    only the assigner of core c: queue of c := tag, a[c] := to *)
(*   designate(tag)        only the designator: pending validator keys := tag         *)
(*   new(ctag, l, rid)     create a service (code hash ctag, code length l); the      *)
(*                         registrar may ask for the index rid < 2^16 (FULL if taken) *)
(*                         otherwise the index is derived from a hash (opaque: -1)    *)
(*   provide(to, tag)      offer blob `tag` to `to`; accepted iff `to` solicited it    *)
(*   eject(v)              only the service whose index is v's code hash: v removed,   *)
(*                         its balance moves to the caller                            *)
(* Gas: the gas a program uses is NOT modelled (property C04); the observed gas list   *)
(* `ug` is an input, constrained by: a service that is absent or has no code uses 0,   *)
(* one that spins uses exactly its budget, any other 1..budget.  The budget of a       *)
(* service in a round is  sum of its digests' gas + its always-accumulate gas + sum    *)
(* of the gas limits of the transfers it receives (12.20).                            *)
(*                                                                                   *)
(* Permissive clauses: (1) a recorder may be shown transfers-then-operands or          *)
(* operands-then-transfers (the trace module accepts both; this module produces the    *)
(* first); (2) bless by a service that is not the manager may set the privileges in    *)
(* its context or answer HUH - the merge R ignores it either way.                      *)
EXTENDS Integers, Sequences, FiniteSets, SequencesExt, FiniteSetsExt, TLC

Ran(s) == {s[i] : i \in 1..Len(s)}
Asc(S) == SetToSortSeq(S, <)
Cores == 2
GT == 20000000                \* G_T (tiny chain spec)
GA == 10000000                \* G_A
TauP == 41                    \* tau' of the block
MinPublic == 65536            \* S: indices below it can be requested by the registrar
NoY == [n |-> 0 - 1, tag |-> 0 - 1]

Ids0(sc) == {sc.svcs[i].id : i \in 1..Len(sc.svcs)}
SvcOf(sc, s) == sc.svcs[CHOOSE i \in 1..Len(sc.svcs) : sc.svcs[i].id = s]
RECURSIVE SumGas(_, _), SumAmt(_, _)
SumGas(q, k) == IF k > Len(q) THEN 0 ELSE q[k].gas + SumGas(q, k + 1)       \* sum of the gas fields of a sequence of records
SumAmt(q, k) == IF k > Len(q) THEN 0 ELSE q[k].amt + SumAmt(q, k + 1)

\* the block's gas limit for Delta+ (12.20 / 12.21): max(G_T, G_A * C + sum of always-accumulate gas)
BlockGas(sc) == LET s == GA * Cores + SumGas(sc.free, 1) IN IF GT > s THEN GT ELSE s

E0(sc) == [d |-> Ids0(sc),
           spent |-> [s \in Ids0(sc) |-> 0], store |-> [s \in Ids0(sc) |-> <<>>], prov |-> [s \in Ids0(sc) |-> {}],
           news |-> {}, priv |-> [m |-> sc.priv.m, a |-> sc.priv.a, v |-> sc.priv.v, r |-> sc.priv.r, z |-> sc.free],
           q |-> [c \in 1..Cores |-> 0], iota |-> 0]

\* ---- what a service is shown ----
Mine(t, s) == SelectSeq(t, LAMBDA x : x.to = s)
StableBySender(m) == LET snd == Asc({m[i].from : i \in 1..Len(m)})
                     IN FlattenSeq([k \in 1..Len(snd) |-> SelectSeq(m, LAMBDA x : x.from = snd[k])])
InT(t, s) == StableBySender(Mine(t, s))
Operands(r, s) == FlattenSeq([i \in 1..Len(r) |-> SelectSeq([j \in 1..Len(r[i]) |-> [kind |-> "operand", id |-> r[i][j].id]], LAMBDA x : x.id = s)])
Item(x) == IF "kind" \in DOMAIN x THEN [kind |-> "operand", from |-> 0, tag |-> 0] ELSE [kind |-> "xfer", from |-> x.from, tag |-> x.tag]

\* ---- the accumulation invocation on abstract programs (B.8-B.13) ----
Exists(e, x, id) == id \in (e.d \ x.removed) \/ \E w \in x.news : w.id = id
NewCost(l) == 100 + 10 * 2 + (81 + l)          \* a_t of an account with one lookup item of length l, no gratis offset

RECURSIVE Run(_, _, _, _, _, _, _, _)
Run(sc, e, s, ops, i, x, y, items) ==
  IF i > Len(ops) THEN [c |-> x, end |-> "halt"]
  ELSE LET o == ops[i]
           next(x2) == Run(sc, e, s, ops, i + 1, x2, y, items)
       IN CASE o.op = "panic" -> [c |-> y, end |-> "panic"]
            [] o.op = "spin"  -> [c |-> y, end |-> "oog"]
            [] o.op = "ckpt"  -> Run(sc, e, s, ops, i + 1, x, x, items)
            [] o.op = "xfer"  -> next(IF Exists(e, x, o.to)
                                      THEN [x EXCEPT !.spent = @ + o.amt,
                                                     !.out = Append(@, [from |-> s, to |-> o.to, amt |-> o.amt, tag |-> o.tag, gas |-> o.gas])]
                                      ELSE x)
            [] o.op = "rec"   -> next([x EXCEPT !.store = items \o SubSeq(@, Len(items) + 1, Len(@)), !.cnt = Len(items)])
            [] o.op = "yield" -> next([x EXCEPT !.y = [n |-> x.cnt, tag |-> o.tag]])
            [] o.op = "bless" -> next([x EXCEPT !.priv = [m |-> o.m, a |-> o.a, v |-> o.v, r |-> o.r, z |-> o.z]])
            [] o.op = "assign" -> next(IF o.c \in 1..Cores /\ x.priv.a[o.c] = s
                                       THEN [x EXCEPT !.priv.a[o.c] = o.to, !.q[o.c] = o.tag] ELSE x)
            [] o.op = "designate" -> next(IF x.priv.v = s THEN [x EXCEPT !.iota = o.tag] ELSE x)
            [] o.op = "new" ->
                 next(IF s = x.priv.r /\ o.rid >= 0 /\ o.rid < MinPublic
                      THEN IF Exists(e, x, o.rid) THEN x        \* FULL
                           ELSE [x EXCEPT !.spent = @ + NewCost(o.l),
                                          !.news = @ \cup {[id |-> o.rid, parent |-> s, ctag |-> o.ctag, l |-> o.l]}]
                      ELSE [x EXCEPT !.spent = @ + NewCost(o.l),
                                     !.news = @ \cup {[id |-> 0 - 1, parent |-> s, ctag |-> o.ctag, l |-> o.l]}])
            [] o.op = "provide" ->
                 next(IF o.to \in (e.d \ x.removed) /\ o.tag \in Ran(SvcOf(sc, o.to).sol) /\ o.tag \notin e.prov[o.to]
                         /\ [to |-> o.to, tag |-> o.tag] \notin x.prov
                      THEN [x EXCEPT !.prov = @ \cup {[to |-> o.to, tag |-> o.tag]}] ELSE x)
            [] o.op = "eject" ->
                 next(IF o.v # s /\ o.v \in (e.d \ x.removed) /\ SvcOf(sc, o.v).ejby = s
                      THEN [x EXCEPT !.spent = @ - (SvcOf(sc, o.v).bal - e.spent[o.v]), !.removed = @ \cup {o.v}] ELSE x)

Ctx0(e, s, iT) == [spent |-> e.spent[s] - SumAmt(iT, 1), store |-> e.store[s], out |-> <<>>, y |-> NoY, cnt |-> 0,
                   priv |-> e.priv, q |-> e.q, iota |-> e.iota, news |-> {}, prov |-> {}, removed |-> {}]
Untouched(e) == [spent |-> 0, store |-> <<>>, out |-> <<>>, y |-> NoY, cnt |-> 0,
                 priv |-> e.priv, q |-> e.q, iota |-> e.iota, news |-> {}, prov |-> {}, removed |-> {}]

\* Delta1: the result context and how the run ended
Single(sc, e, s, iT, iU) ==
  IF s \notin e.d THEN [c |-> Untouched(e), end |-> "absent"]
  ELSE IF ~SvcOf(sc, s).code THEN [c |-> Ctx0(e, s, iT), end |-> "nocode"]
  ELSE Run(sc, e, s, SvcOf(sc, s).prog, 1, Ctx0(e, s, iT), Ctx0(e, s, iT), [k \in 1..(Len(iT) + Len(iU)) |-> Item((iT \o iU)[k])])

\* ---- Delta*: one round ----
RECURSIVE PrefixFit(_, _, _)
DigestGas(rep) == SumGas(rep, 1)
\* number of leading reports whose cumulative digest gas stays within g (12.16)
PrefixFit(r, g, k) == IF k > Len(r) \/ DigestGas(r[k]) > g THEN k - 1 ELSE PrefixFit(r, g - DigestGas(r[k]), k + 1)

RoundSet(t, r, f) == UNION {{r[i][j].id : j \in 1..Len(r[i])} : i \in 1..Len(r)} \cup {f[i].id : i \in 1..Len(f)} \cup {t[i].to : i \in 1..Len(t)}
Budget(t, r, f, s) == SumGas(FlattenSeq([i \in 1..Len(r) |-> SelectSeq(r[i], LAMBDA x : x.id = s)]), 1)
                      + SumGas(SelectSeq(f, LAMBDA x : x.id = s), 1) + SumGas(Mine(t, s), 1)
RR(o, a, b) == IF a = o THEN b ELSE a          \* R of 12.17: the manager's change wins, else the holder's own

Parallel(sc, e, t, r, f) ==
  LET S == RoundSet(t, r, f)
      res == [s \in S |-> Single(sc, e, s, InT(t, s), Operands(r, s))]
      ord == Asc(S)
      ran(s) == s \in S /\ s \in e.d
      H(p) == IF ran(p) THEN res[p].c ELSE Untouched(e)         \* Delta(p)e for a holder p (budget 0 outside S: nothing changes)
      es == H(e.priv.m)
      removed == UNION {res[s].c.removed : s \in S}
      d2 == e.d \ removed
      provided == UNION {res[s].c.prov : s \in S}
  IN [e |-> [d |-> d2,
             spent |-> [s \in Ids0(sc) |-> IF ran(s) THEN res[s].c.spent ELSE e.spent[s]],
             store |-> [s \in Ids0(sc) |-> IF ran(s) THEN res[s].c.store ELSE e.store[s]],
             prov  |-> [s \in Ids0(sc) |-> e.prov[s] \cup {p.tag : p \in {x \in provided : x.to = s /\ s \in d2 /\ x.tag \in Ran(SvcOf(sc, s).sol)
                                                                                   /\ x.tag \notin e.prov[s]}}],
             news  |-> e.news \cup UNION {res[s].c.news : s \in S},
             priv  |-> [m |-> es.priv.m, z |-> es.priv.z,
                        a |-> [c \in 1..Cores |-> RR(e.priv.a[c], es.priv.a[c], H(e.priv.a[c]).priv.a[c])],
                        v |-> RR(e.priv.v, es.priv.v, H(e.priv.v).priv.v),
                        r |-> RR(e.priv.r, es.priv.r, H(e.priv.r).priv.r)],
             q     |-> [c \in 1..Cores |-> H(e.priv.a[c]).q[c]],
             iota  |-> H(e.priv.v).iota],
      t |-> SelectSeq(FlattenSeq([k \in 1..Len(ord) |-> res[ord[k]].c.out]),
                      LAMBDA x : x.from \in d2 /\ (x.to \in d2 \/ \E w \in UNION {res[s].c.news : s \in S} : w.id = x.to)),
      u |-> ord,
      ends |-> [k \in 1..Len(ord) |-> res[ord[k]].end],
      budgets |-> [k \in 1..Len(ord) |-> Budget(t, r, f, ord[k])],
      b |-> {[id |-> s, y |-> res[s].c.y] : s \in {q \in S : res[q].c.y # NoY}}]

\* ---- Delta+: rounds.  ug says where the gas a service used comes from (see the header):   ----
\*   [mode |-> "obs", seq |-> observed gas per entry of u]   (trace validation)
\*   [mode |-> "model", c |-> k]   a program that ends normally uses min(budget, k)   (model check)
UsedAt(ug, end, budget, idx) ==
  IF ug.mode = "obs" THEN (IF idx <= Len(ug.seq) THEN ug.seq[idx] ELSE 0)
  ELSE IF end \in {"absent", "nocode"} THEN 0
  ELSE IF end = "oog" THEN budget
  ELSE IF budget < ug.c THEN budget ELSE ug.c
RECURSIVE SumInts(_, _)
SumInts(q, k) == IF k > Len(q) THEN 0 ELSE q[k] + SumInts(q, k + 1)

RECURSIVE Outer(_, _, _, _, _, _, _, _, _)
Outer(sc, e, t, r, f, g, ug, pos, fuel) ==
  LET i == PrefixFit(r, g, 1)
  IN IF Len(t) + i + Len(f) = 0 \/ fuel = 0
     THEN [n |-> 0, e |-> e, u |-> <<>>, gas |-> <<>>, b |-> {}, ends |-> <<>>, budgets |-> <<>>, rounds |-> 0, is |-> <<>>, left |-> Len(t)]
     ELSE LET p == Parallel(sc, e, t, SubSeq(r, 1, i), f)
              gas == [k \in 1..Len(p.u) |-> UsedAt(ug, p.ends[k], p.budgets[k], pos + k)]
              rest == Outer(sc, p.e, p.t, SubSeq(r, i + 1, Len(r)), <<>>, g + SumGas(t, 1) - SumInts(gas, 1), ug, pos + Len(p.u), fuel - 1)
          IN [n |-> i + rest.n, e |-> rest.e, u |-> p.u \o rest.u, gas |-> gas \o rest.gas, b |-> p.b \cup rest.b, ends |-> p.ends \o rest.ends,
              budgets |-> p.budgets \o rest.budgets, rounds |-> 1 + rest.rounds, is |-> <<i>> \o rest.is, left |-> rest.left]

MaxRounds == 8
GPx(sc, ug) == Outer(sc, E0(sc), <<>>, sc.reports, sc.free, sc.g, ug, 0, MaxRounds)
GP(sc, seq) == GPx(sc, [mode |-> "obs", seq |-> seq])

\* the observed gas list is admissible for the run the specification computes
GasOk(gp, seq) ==
  /\ Len(seq) = Len(gp.u)
  /\ \A k \in 1..Len(gp.u) :
       CASE gp.ends[k] \in {"absent", "nocode"} -> seq[k] = 0
         [] gp.ends[k] = "oog" -> seq[k] = gp.budgets[k]
         [] OTHER -> seq[k] >= 1 /\ seq[k] <= gp.budgets[k]

\* ---- 12.23-12.27: statistics, last-accumulation slot ----
GasSum(gp, s) == SumGas(SelectSeq([k \in 1..Len(gp.u) |-> [id |-> gp.u[k], gas |-> gp.gas[k]]], LAMBDA x : x.id = s), 1)
Count(sc, n, s) == Len(Operands(SubSeq(sc.reports, 1, n), s))
StatIds(sc, gp) == {s \in Ran(gp.u) : GasSum(gp, s) + Count(sc, gp.n, s) # 0}
=============================================================================

--------------------------- MODULE Safrole_Trace ---------------------------
(* V-step for C23.  Records written by harness/safrole (one history per Reset):     *)
(*   Reset  P[E,Y,N,V,K] U base tau ga gs eta kappa gammak lambda iota              *)
(*          the prior state the driver loaded (ga, gs.t: [id, att] pairs; gs.k and   *)
(*          validator sets: key ids, 0 = null key, -1 = unrecognised; eta: four      *)
(*          32-byte values)                                                          *)
(*   Block  slot ent ce rk off adv n[id, att, sig] tab  ->  ok err post tm em        *)
(*          the block the driver built: tickets signed with the VRF stand-in under   *)
(*          prior entropy eta[ce] for ring rk ("g" prior gamma_k, "i" iota with the  *)
(*          offenders `off` nulled); sig = ok | eta | att | ring | zero says how.    *)
(*          ok/err: verdict of OuterUsedSafrole on the singleton; post: posterior    *)
(*          ga, gs, eta, kappa, gammak, lambda; tm: tickets mark; em: epoch mark.    *)
(*          After an accepted block with adv = 1 the posterior becomes the prior.    *)
(*          tab = list of oracle tables <<BLAKE2b input, output>> for eta ++ E_4(i), *)
(*          i < E, filled by the driver with the real primitive (DESIGN 3.3) for     *)
(*          eta[ce] when the generator asked for it, for eta[1] and eta[2] when the  *)
(*          code replaced the key sequence unasked; which input, which four octets,  *)
(*          little-endian, mod V and the key lookup stay here.                       *)
(*   Z      P s -> got      OutsideInSequencer                                      *)
(*   F      P r kappa tab -> got      FallbackKeySequence                            *)
(*   GoPanic                never accepted                                           *)
(* Every line is judged on its own against the state built from the preceding        *)
(* lines; after an accepted block the recorded posterior is taken as the next prior  *)
(* (so one wrong block yields one report).  A missing oracle table is reported as    *)
(* "oracle_table_missing", which the check treats as an infrastructure error.        *)
(*                                                                                  *)
(* Judgement of a block (SafroleDefs header): MustReject => refused; refused =>      *)
(* MustReject or MayReject (permissive clauses P1-P3); accepted => posterior          *)
(* accumulator = AccNext (and strictly increasing, <= E, the lowest of new +         *)
(* carried), posterior sealer sequence per (6.24).  Beyond the statement (reasons     *)
(* prefixed ext_): entropy rotation (6.23), key rotation (6.13), tickets mark        *)
(* (6.28), epoch mark (6.27).                                                        *)
EXTENDS SafroleDefs, Json, TLC, SequencesExt
CONSTANTS TraceFile, ResultFile, KnownDeviations
VARIABLES l, devs, bad, par, st

Trace == ndJsonDeserialize(TraceFile)
Why(c, s) == IF c THEN {s} ELSE {}
ToSetS(s) == {s[i] : i \in 1..Len(s)}
Pairs(s) == [i \in 1..Len(s) |-> [id |-> s[i][1], att |-> s[i][2]]]
GsOf(j) == [t |-> Pairs(j.t), k |-> j.k]

\* ---- oracle tables: e.tab is a list of tables; entry i (1-based) of the table for r must be
\* for  r ++ E_4(i - 1)
TabFor(tabs, r) == LET hits == {k \in 1..Len(tabs) : Len(tabs[k]) > 0 /\ tabs[k][1][1] = r \o LEs(0, 4)}
                   IN IF hits = {} THEN <<>> ELSE tabs[CHOOSE k \in hits : TRUE]
TabOK(tab, r, E) == Len(tab) >= E /\ \A i \in 1..E : tab[i][1] = r \o LEs(i - 1, 4) /\ Len(tab[i][2]) = 32
IdxFromTab(tab, E, V) == [i \in 1..E |-> ModLES(SubSeq(tab[i][2], 1, 4), V)]
NoTable == "oracle_table_missing"     \* infrastructure, not a verdict (checks/c23.py)

JudgeZ(e) == IF e.panic = 1 THEN {"panic:OutsideInSequencer"}
             ELSE Why(Pairs(e.got) # Z(Pairs(e.s)), "outside_in_differs_from_Z")
JudgeF(e) == LET tab == TabFor(e.tab, e.r) IN
             IF e.panic = 1 THEN {"panic:FallbackKeySequence"}
             ELSE IF ~TabOK(tab, e.r, e.P.E) THEN {NoTable}
             ELSE Why(e.got # Fallback(IdxFromTab(tab, e.P.E, e.P.V), e.kappa, e.P.E), "fallback_keys_differ_from_F")

\* ---- a block against the tracked prior state
JudgeBlock(e) ==
  LET E == par.E  Y == par.Y  N == par.N  V == par.V  K == par.K
      ev == EpochOf(st.tau, E)   m == PhaseOf(st.tau, E)
      e2 == EpochOf(e.slot, E)   m2 == PhaseOf(e.slot, E)
      off == ToSetS(e.off)
      etaWanted == st.eta[Eta2Index(ev, e2) + 1]
      ringWanted == IF e2 > ev THEN Phi(st.iota, off) ELSE st.gammak
      ringUsed(sig) == IF sig = "ring" THEN st.lambda ELSE IF e.rk = "i" THEN Phi(st.iota, off) ELSE st.gammak
      etaUsed(sig) == IF sig = "eta" THEN st.eta[(3 - e.ce) + 1] ELSE st.eta[e.ce + 1]
      proves(t) == t.sig \in {"ok", "eta", "ring"} /\ etaUsed(t.sig) = etaWanted /\ ringUsed(t.sig) = ringWanted
      n == [i \in 1..Len(e.n) |-> [id |-> e.n[i].id, att |-> e.n[i].att, pf |-> proves(e.n[i])]]
      must == MustReject(n, st.ga, ev, e2, m2, Y, N)
      may == MayReject(n, st.ga, ev, e2, E, K)
      wantGa == AccNext(n, st.ga, ev, e2, E)
      kap2 == IF e2 > ev THEN st.gammak ELSE st.kappa
      tab == TabFor(e.tab, etaWanted)
      needTab == ~UseTickets(st.ga, ev, e2, m, E, Y) /\ e2 # ev
      wantGs == IF UseTickets(st.ga, ev, e2, m, E, Y) THEN Tks(Z(st.ga))
                ELSE IF e2 = ev THEN st.gs
                ELSE Kys(Fallback(IdxFromTab(tab, E, V), kap2, E))
      gotGa == Pairs(e.post.ga)
      gotGs == GsOf(e.post.gs)
      U == ToSetS(Bodies(n)) \cup (IF e2 > ev THEN {} ELSE ToSetS(st.ga))
  IN IF e.slot <= st.tau THEN {}                       \* not generated; the statement is silent
     ELSE IF ~e.ok THEN Why(~must /\ ~may, "valid_block_refused")
     ELSE IF must THEN
          Why(m2 >= Y /\ n # <<>>, "accepted_tickets_after_submission_window")
          \cup Why(OverAttempt(n, N), "accepted_over_attempted_ticket")
          \cup Why(Unsorted(n), "accepted_unsorted_tickets")
          \cup Why(HasDup(n), "accepted_duplicated_tickets")
          \cup Why(BadProof(n), "accepted_unverifiable_ticket")
          \cup Why(IdsOf(n) \cap IdsOf(Carried(st.ga, ev, e2)) # {}, "accepted_ticket_already_in_accumulator")
     ELSE Why(~StrictlyInc(gotGa), "accumulator_not_strictly_increasing")
          \cup Why(Len(gotGa) > E, "accumulator_longer_than_an_epoch")
          \cup Why(gotGa # wantGa, "accumulator_differs_from_lowest_of_new_and_carried")
          \cup Why(E <= 12 /\ gotGa = wantGa /\ ~IsLowest(gotGa, U, E), "model_error_AccNext_not_lowest")
          \cup (IF needTab /\ ~TabOK(tab, etaWanted, E) THEN {NoTable} ELSE Why(gotGs # wantGs, "sealer_sequence_differs"))
          \cup Why(Len(e.post.eta) # 4 \/ SubSeq(e.post.eta, 2, 4) # SubSeq(EtaNext(st.eta, <<>>, ev, e2), 2, 4), "ext_entropy_rotation_differs")
          \cup Why(e.post.kappa # kap2 \/ e.post.lambda # (IF e2 > ev THEN st.kappa ELSE st.lambda)
                   \/ e.post.gammak # (IF e2 > ev THEN Phi(st.iota, off) ELSE st.gammak), "ext_key_rotation_differs")
          \cup Why((e.tm.has = 1) # HasTicketsMark(st.ga, ev, e2, m, m2, E, Y)
                   \/ (e.tm.has = 1 /\ Pairs(e.tm.t) # Z(st.ga)), "ext_tickets_mark_differs")
          \cup Why((e.em.has = 1) # (e2 > ev)
                   \/ (e.em.has = 1 /\ (e.em.e0 # st.eta[1] \/ e.em.e1 # st.eta[2] \/ e.em.v # Phi(st.iota, off))), "ext_epoch_mark_differs")

Judge(e) == CASE e.ev = "Block" -> JudgeBlock(e)
              [] e.ev = "Z" -> JudgeZ(e)
              [] e.ev = "F" -> JudgeF(e)
              [] e.ev = "Reset" -> Why(ModLES(e.base, e.P.E) # 0, "generator_error_base_not_multiple_of_E")
              [] e.ev = "GoPanic" -> {"panic:OuterUsedSafrole"}
              [] OTHER -> {"unknown_event"}

StateOfReset(e) == [tau |-> e.tau, ga |-> Pairs(e.ga), gs |-> GsOf(e.gs), eta |-> e.eta,
                    kappa |-> e.kappa, gammak |-> e.gammak, lambda |-> e.lambda, iota |-> e.iota]
StateAfter(e) == [tau |-> e.slot, ga |-> Pairs(e.post.ga), gs |-> GsOf(e.post.gs), eta |-> e.post.eta,
                  kappa |-> e.post.kappa, gammak |-> e.post.gammak, lambda |-> e.post.lambda, iota |-> st.iota]
NoState == [tau |-> 0, ga |-> <<>>, gs |-> [t |-> <<>>, k |-> <<>>], eta |-> <<>>, kappa |-> <<>>, gammak |-> <<>>, lambda |-> <<>>, iota |-> <<>>]

TInit == l = 1 /\ devs = {} /\ bad = {} /\ par = [E |-> 1, Y |-> 1, N |-> 1, V |-> 1, K |-> 1] /\ st = NoState
TNext == /\ l <= Len(Trace)
         /\ LET e == Trace[l] IN
            /\ par' = IF e.ev = "Reset" THEN e.P ELSE par
            /\ st' = IF e.ev = "Reset" THEN StateOfReset(e)
                     ELSE IF e.ev = "Block" /\ e.ok /\ e.adv = 1 /\ e.slot > st.tau THEN StateAfter(e) ELSE st
            /\ bad' = bad \cup {[l |-> l, why |-> y] : y \in Judge(e)}
         /\ devs' = devs
         /\ l' = l + 1
TraceSpec == TInit /\ [][TNext]_<<l, devs, bad, par, st>>

Report == (l = Len(Trace) + 1) =>
  JsonSerialize(ResultFile, [n |-> l - 1, devs |-> SetToSeq(devs), bad |-> SetToSeq(bad)])
=============================================================================

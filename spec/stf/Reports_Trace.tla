---------------------------- MODULE Reports_Trace ----------------------------
(* V-step for X02.  One record per block executed by harness/reports:                *)
(*   Block  st ext -> ok err  rho_before rho_post  prior_after rdd_after  reporters    *)
(*                    kappa_after lambda_after panic                                   *)
(*   st, ext      the case as generated (Reports header), st.tab = oracle table        *)
(*                <<BLAKE2b input, output>> answered by the driver for the case's hq   *)
(*   ok / err     result of stf.UpdateReports() (= extrinsic.Guarantee())              *)
(*   rho_before / rho_post   posterior rho (store) before / after the call,            *)
(*                per core [rid, t]; rid = identity of the stored report by its real   *)
(*                hash (-1 = a report the case does not know), [0, 0] = empty          *)
(*   prior_after  prior rho after the call; rdd_after = rho-double-dagger after it     *)
(*   reporters    per guarantee the key ids extrinsic.GetGuarantors returns (accepted) *)
(*   kappa_after / lambda_after   key ids of kappa', lambda' in the store after the    *)
(*                call (0 = null key, -1 = unknown)                                    *)
(* Judgement per line (stateless):                                                    *)
(*   accepted  => no SURE clause is violated; rho' is exactly RhoNext; the reporters   *)
(*                are the keys (after Phi) of the credentials' validators              *)
(*   refused   => some clause (sure or unsure) is violated; posterior rho and          *)
(*                rho-double-dagger are as before the call                             *)
(*   always    => prior rho, kappa', lambda' are unchanged; no Go panic                *)
EXTENDS ReportsAssign, Json, SequencesExt
CONSTANTS TraceFile, ResultFile, KnownDeviations
VARIABLES l, devs, bad

P == TinyP
Trace == ndJsonDeserialize(TraceFile)
Why(c, s) == IF c THEN {s} ELSE {}

Proj(r) == [c \in 1..Len(r) |-> [rid |-> r[c].rid, t |-> r[c].t]]
PriorProj(st) == [c \in 1..Len(st.rho) |-> IF st.rho[c].rid = 0 THEN [rid |-> 0, t |-> 0] ELSE [rid |-> st.rho[c].rid, t |-> st.rho[c].t]]

Judge(e) ==
  IF e.panic = 1 THEN {"go_panic"}
  ELSE \* one evaluation of each assignment per line
  UNION {LET st == e.st
             ext == e.ext
             M == q[1]
             MS == q[2]
             viol == Violated(P, M, MS, st, ext)
             unsure == ViolatedUnsure(P, st, ext)
         IN \* the two formulations of the function agree (an internal error of the specification otherwise)
            IF (viol = {}) # Admissible(P, M, MS, st, ext) \/ (viol = {} /\ ((unsure = {}) # StrictlyAdmissible(P, M, MS, st, ext)))
            THEN Assert(FALSE, <<"Violated and Admissible disagree at line", l>>)
            ELSE
            Why(e.prior_after # PriorProj(st), "prior_rho_changed")
            \cup Why(e.kappa_after # st.kappa \/ e.lambda_after # st.lambda, "validator_keys_changed_in_store")
            \cup (IF e.ok
                  THEN {"accepted_although_" \o v : v \in viol}
                       \cup (IF viol = {} THEN Why(e.rho_post # Proj(RhoNext(P, st, ext)), "posterior_rho_differs")
                                               \cup Why(e.reporters # Reporters(P, M, MS, st, ext), "reporters_differ")
                             ELSE {})
                  ELSE Why(viol = {} /\ unsure = {}, "admissible_extrinsic_refused")
                       \cup Why(e.rho_post # e.rho_before, "posterior_rho_changed_on_refusal")
                       \cup Why(e.rdd_after # Proj(RhoDD(P, st)), "rho_double_dagger_changed_on_refusal"))
         : q \in {<<MCur(P, e.st), MPrev(P, e.st)>>}}

Init == l = 1 /\ devs = {} /\ bad = {}
Next == /\ l <= Len(Trace)
        /\ LET e == Trace[l] IN
           /\ bad' = bad \cup {[l |-> l, why |-> y] : y \in Judge(e)}
           /\ devs' = devs                       \* no open finding: no deviation is enabled
        /\ l' = l + 1
TraceSpec == Init /\ [][Next]_<<l, devs, bad>>

Report == (l = Len(Trace) + 1) =>
  JsonSerialize(ResultFile, [n |-> l - 1, devs |-> SetToSeq(devs), bad |-> SetToSeq(bad)])
=============================================================================

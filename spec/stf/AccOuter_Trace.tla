--------------------------- MODULE AccOuter_Trace ---------------------------
(* V-step for X06.  One record per scenario (harness/accrounds/accouter_test.go):     *)
(*   sc      the scenario (AccOuter_Gen)                                              *)
(*   outer   what OuterAccumulation(GasLimit = sc.g) returned: n, the gas list (ids u  *)
(*           and gas ug), the posterior partial state (accounts, new / removed         *)
(*           services, privileges, queue / key tags), the accumulation outputs b       *)
(*   outer2  the same on a second fresh identical prior state                          *)
(*   stf     (when sc.stf) the posterior after DeferredTransfers(): delta-double-      *)
(*           dagger, chi', phi', iota', theta', statistics, last slot of xi'           *)
(* The specification (AccOuterFn!GP) computes the expected posterior from the          *)
(* scenario and the observed gas list, which must itself be admissible (GasOk).        *)
EXTENDS AccOuterFn, Bytes, Json
CONSTANTS TraceFile, ResultFile, KnownDeviations
VARIABLES l, devs, bad
Trace == ndJsonDeserialize(TraceFile)

Scn(e) == [svcs |-> e.sc.svcs, reports |-> e.sc.reports, free |-> e.sc.free, priv |-> e.sc.priv, g |-> e.sc.g]
Proj(store) == [k \in 1..Len(store) |-> [kind |-> store[k].kind, from |-> store[k].from, tag |-> store[k].tag]]
Keys(store) == [k \in 1..Len(store) |-> store[k].i]
IsX(x) == x.kind = "xfer"
\* permissive clause 1: transfers-then-operands (as computed) or the same items with the operands elsewhere
StoreOk(obs, want) == /\ Keys(obs) = [k \in 1..Len(obs) |-> k - 1]
                      /\ \/ Proj(obs) = want
                         \/ (Len(obs) = Len(want) /\ SelectSeq(Proj(obs), IsX) = SelectSeq(want, IsX))
Y8(y) == <<y.n % 256, y.tag, 0, 0, 0, 0, 0, 0>>
OutSet(b) == {[id |-> p.id, h |-> Y8(p.y)] : p \in b}
SeqSet(s) == {[id |-> s[k].id, h |-> s[k].h] : k \in 1..Len(s)}
Sorted(th) == \A k \in 1..(Len(th) - 1) : th[k].id < th[k + 1].id \/ (th[k].id = th[k + 1].id /\ CmpLex(th[k].h, th[k + 1].h) < 0)
ZSet(z) == {[id |-> z[k].id, gas |-> z[k].gas] : k \in 1..Len(z)}

\* accounts, new and removed services of a posterior against the specification's state
AccWhy(scn, o, ge, withLast, statIds) ==
  (IF {a.id : a \in Ran(o.acc)} # ge.d \/ Len(o.acc) # Cardinality(ge.d) \/ Ran(o.gone) # Ids0(scn) \ ge.d THEN {"service_set_differs"} ELSE
   (IF \E a \in Ran(o.acc) : a.spent # ge.spent[a.id] THEN {"balances_differ"} ELSE {})
   \cup (IF \E a \in Ran(o.acc) : ~StoreOk(a.store, ge.store[a.id]) THEN {"recorded_items_differ"} ELSE {})
   \cup (IF \E a \in Ran(o.acc) : \/ {p.tag : p \in Ran(a.prov)} # ge.prov[a.id] \/ Len(a.prov) # Cardinality(ge.prov[a.id])
                                  \/ \E p \in Ran(a.prov) : p.slots # <<TauP>>
                                  \/ a.pending # Len(SvcOf(scn, a.id).sol) - Cardinality(ge.prov[a.id])
         THEN {"provided_preimages_differ"} ELSE {})
   \cup (IF withLast /\ \E a \in Ran(o.acc) : a.last # (IF a.id \in statIds THEN TauP ELSE 0) THEN {"last_accumulation_slot_differs"} ELSE {}))
  \cup
  (LET known == {w \in ge.news : w.id >= 0}
       opaque == {w \in ge.news : w.id < 0}
       oknown == {w \in Ran(o.news) : w.id >= 0}             \* the driver logs an index >= 2^16 as -1 plus its four octets idb
       oopaque == {w \in Ran(o.news) : w.id < 0}
       key(w) == [parent |-> w.parent, ctag |-> w.ctag, l |-> w.l]
   IN IF \/ {[id |-> w.id, parent |-> w.parent, ctag |-> w.ctag, l |-> w.l] : w \in oknown} # known
         \/ {key(w) : w \in oopaque} # {key(w) : w \in opaque}
         \/ Cardinality({w.idb : w \in Ran(o.news)}) # Cardinality(ge.news) \/ Len(o.news) # Cardinality(ge.news)
         \/ \E w \in Ran(o.news) : \/ w.id \in Ids0(scn) \/ w.bal # NewCost(w.l) \/ w.slot # TauP \/ w.items # 2 \/ w.bytes # 81 + w.l
                                   \/ w.nlook # 1 \/ w.slots # <<>> \/ w.gratis # 0 \/ (withLast /\ w.last # 0)
      THEN {"new_services_differ"} ELSE {})

PrivWhy(o, ge) ==
  (IF o.priv.m # ge.priv.m \/ o.priv.a # ge.priv.a \/ o.priv.v # ge.priv.v \/ o.priv.r # ge.priv.r
      \/ ZSet(o.priv.z) # ZSet(ge.priv.z) \/ Len(o.priv.z) # Cardinality(ZSet(ge.priv.z)) THEN {"privileges_differ"} ELSE {})
  \cup (IF o.q # ge.q \/ o.iota # ge.iota THEN {"queues_or_validator_keys_differ"} ELSE {})

OuterWhy(e, scn) ==
  LET o == e.outer
  IN IF o.err # "" \/ o.panic # "" THEN {"accumulation_failed"}
     ELSE LET gp == GP(scn, o.ug)
          IN (IF e.outer2 # o THEN {"nondeterministic"} ELSE {})
             \cup (IF o.u # gp.u THEN {"service_sequence_differs"} ELSE
                   IF ~GasOk(gp, o.ug) THEN {"gas_accounting_differs"} ELSE {})
             \cup (IF o.n # gp.n THEN {"report_count_differs"} ELSE {})
             \cup AccWhy(scn, o, gp.e, FALSE, {}) \cup PrivWhy(o, gp.e)
             \cup (IF SeqSet(o.b) # OutSet(gp.b) \/ Len(o.b) # Cardinality(OutSet(gp.b)) THEN {"accumulation_outputs_differ"} ELSE {})

StfWhy(e, scn) ==
  IF Len(e.stf) = 0 THEN {}
  ELSE LET o == e.stf[1]
           ug == e.outer.ug
           gp == GP(scn, ug)
           sids == StatIds(scn, gp)
       IN IF scn.g # BlockGas(scn) THEN {"generator_block_gas"}
          ELSE IF o.err # "" \/ o.panic # "" THEN {"accumulation_failed"}
          ELSE AccWhy(scn, o, gp.e, TRUE, sids) \cup PrivWhy(o, gp.e)
               \cup (IF SeqSet(o.theta) # OutSet(gp.b) \/ Len(o.theta) # Cardinality(OutSet(gp.b)) \/ ~Sorted(o.theta) THEN {"theta_differs"} ELSE {})
               \cup (IF \/ {x.id : x \in Ran(o.stats)} # sids \/ Len(o.stats) # Cardinality(sids)
                        \/ \E x \in Ran(o.stats) : x.gas # GasSum(gp, x.id) \/ x.n # Count(scn, gp.n, x.id)
                     THEN {"statistics_differ"} ELSE {})
               \cup (IF o.xi # [k \in 1..gp.n |-> k] THEN {"accumulated_reports_in_xi_differ"} ELSE {})

Why(e) == LET scn == Scn(e) IN OuterWhy(e, scn) \cup StfWhy(e, scn)

TInit == l = 1 /\ devs = {} /\ bad = {}
TNext == /\ l <= Len(Trace)
         /\ bad' = bad \cup {[l |-> l, why |-> w] : w \in Why(Trace[l])}
         /\ devs' = devs
         /\ l' = l + 1
TraceSpec == TInit /\ [][TNext]_<<l, devs, bad>>
Report == (l = Len(Trace) + 1) =>
  JsonSerialize(ResultFile, [n |-> l - 1, devs |-> SetToSeq(devs), bad |-> SetToSeq(bad)])
=============================================================================

----------------------------- MODULE MC_AccQueue -----------------------------
(* Model-checking configurations for C21 (constants come from the .cfg written by     *)
(* checks/c21.py):                                                                    *)
(*   HS       report hashes (model values; SYMMETRY Sym when the initial states are    *)
(*            symmetric)                                                              *)
(*   XS       further dependency targets: "accumulated" (in the initial xi) and        *)
(*            "unknown" (nowhere)                                                      *)
(*   MaxDeps  bound on |pre \cup look| per report                                      *)
(*   Split    TRUE: every division of the dependencies into prerequisites / lookup     *)
(*            keys / both is enumerated; FALSE: all dependencies are prerequisites     *)
(*            (the functions only use pre \cup look and its emptiness)                 *)
(*   InitKind "empty" | "seeded" (14 states) | "seeded3" | "seeded2" | "seeded1" (subsets)           *)
EXTENDS AccQueue
CONSTANTS HS, XS, MaxDeps, Split, InitKind, hacc

DT == HS \cup XS
ReportsMC ==
  IF Split
  THEN {[h |-> h, pre |-> p, look |-> k] : h \in HS,
          p \in {s \in SUBSET DT : Cardinality(s) <= MaxDeps},
          k \in {s \in SUBSET DT : Cardinality(s) <= MaxDeps}} 
  ELSE {[h |-> h, pre |-> p, look |-> {}] : h \in HS, p \in {s \in SUBSET DT : Cardinality(s) <= MaxDeps}}
ReportsSplitOK == {w \in ReportsMC : Cardinality(w.pre \cup w.look) <= MaxDeps}

EmptyXi == [i \in 1..E |-> {}]
EmptyTh == [i \in 1..E |-> <<>>]
XiAt(p, s) == [i \in 1..E |-> IF i = p THEN s ELSE {}]

\* seeded initial states: an accumulated hash at the oldest / newest history position and
\* queued records in the ready queue (clean with respect to xi)
Pick2 == CHOOSE pr \in {<<a, b>> : a \in HS, b \in HS} : pr[1] # pr[2]
RecA == LET a == Pick2[1] b == Pick2[2] IN [r |-> [h |-> a, pre |-> {b}, look |-> {}], d |-> {b}]
RecB == LET a == Pick2[1] b == Pick2[2] IN [r |-> [h |-> b, pre |-> {a}, look |-> {}], d |-> {}]
RecC == LET a == Pick2[1] IN [r |-> [h |-> a, pre |-> {a}, look |-> {}], d |-> {a}]
ThWith(f) == [i \in 1..E |-> IF i \in DOMAIN f THEN f[i] ELSE <<>>]
SeededTh == {EmptyTh,
             ThWith(1 :> <<RecA>>), ThWith(E :> <<RecA>>), ThWith(2 :> <<RecA>>),
             ThWith(1 :> <<RecA>> @@ E :> <<RecB>>), ThWith(1 :> <<RecB>> @@ E :> <<RecA>>),
             ThWith(2 :> <<RecC, RecA>>)}
InitsMC ==
  IF InitKind = "empty" THEN {[xi |-> EmptyXi, th |-> EmptyTh, tau |-> 0]}
  ELSE IF InitKind = "seeded3" THEN
       {[xi |-> XiAt(E, {hacc}), th |-> ThWith(1 :> <<RecA>> @@ E :> <<RecB>>), tau |-> 0],
        [xi |-> XiAt(1, {hacc}), th |-> ThWith(2 :> <<RecC, RecA>>), tau |-> 0],
        [xi |-> XiAt(E, {hacc}), th |-> EmptyTh, tau |-> 1]}
  ELSE IF InitKind = "seeded2" THEN
       {[xi |-> XiAt(E, {hacc}), th |-> ThWith(1 :> <<RecA>> @@ E :> <<RecB>>), tau |-> 0],
        [xi |-> XiAt(1, {hacc}), th |-> ThWith(2 :> <<RecC, RecA>>), tau |-> 0]}
  ELSE IF InitKind = "seeded0" THEN
       {[xi |-> XiAt(E, {hacc}), th |-> ThWith(1 :> <<RecA>> @@ E :> <<RecB>>), tau |-> 0]}
  ELSE IF InitKind = "seeded1" THEN
       {[xi |-> XiAt(E, {hacc}), th |-> ThWith(1 :> <<RecA>>), tau |-> 0],
        [xi |-> XiAt(1, {hacc}), th |-> EmptyTh, tau |-> 0]}
  ELSE {[xi |-> x, th |-> t, tau |-> 0] : x \in {XiAt(1, {hacc}), XiAt(E, {hacc})}, t \in SeededTh}

Sym == Permutations(HS)
=============================================================================

---------------------------- MODULE Safrole_Gen ----------------------------
(* G-step for C23.  Cases for harness/safrole (see its header for the format):       *)
(*  A  state-directed partition under E=4, Y=3, N=2, V=3, K=2: every accumulator      *)
(*     over identifiers 1..6 (<= E entries) x prior phase x a family of (slot,        *)
(*     extrinsic) alternatives, each applied to the SAME prior state (adv = 0):       *)
(*     empty / single tickets of every kind and identifier / all ordered pairs /      *)
(*     triples; slots in the same epoch before and after the submission end, in the   *)
(*     next epoch and beyond it;                                                      *)
(*  H  seeded block histories (adv = 1) over several epochs under E=4, the tiny       *)
(*     (E=12) and the full (E=600, V=1023) parameters: a linear-congruential stream   *)
(*     picks slot jumps, ticket counts, identifiers, attempts and one defect now and  *)
(*     then (swap, duplicate, over-attempt, bad proof, identifier already in the      *)
(*     accumulator, ticket in the tail, more than K tickets, useless ticket); a       *)
(*     shadow of the specified state steers the choices (identifiers below the        *)
(*     current maximum once the accumulator is full);                                 *)
(*  L  the same kind of histories (and scripted ones: tickets, a re-submitted ticket,  *)
(*     an over-attempted one, one in the tail, each followed by further blocks of the  *)
(*     epoch) run on ONE live chain state: accepted posteriors are committed in memory  *)
(*     as the next prior, refused blocks are simply followed by the next block;         *)
(*  Z, F  the two sequencers on their own.                                            *)
(* For every block the generator states under which prior entropy (ce) and ring (rk)  *)
(* the tickets are to be signed and whether the oracle table is needed (tab), from     *)
(* (6.23)/(6.13); Safrole_Trace re-derives them.                                      *)
EXTENDS SafroleDefs, SequencesExt, Json, TLC
CONSTANTS OutFile, Tier, Seed
VARIABLE x

P4  == [E |-> 4, Y |-> 3, N |-> 2, V |-> 3, K |-> 2]
P12 == [E |-> 12, Y |-> 10, N |-> 3, V |-> 6, K |-> 3]
PF  == [E |-> 600, Y |-> 500, N |-> 2, V |-> 1023, K |-> 16]

Thorough == Tier = "thorough"
Seq2Set(s) == {s[i] : i \in 1..Len(s)}
PickSeq(q, n) == SelectSeq([i \in 1..Len(q) |-> [i |-> i, v |-> q[i]]], LAMBDA r : (r.i + Seed) % n = 0)
Vals(q) == [i \in 1..Len(q) |-> q[i].v]
Pick(q, n) == IF n <= 1 THEN q ELSE Vals(PickSeq(q, n))

\* ---------------------------------------------------------------- common pieces
KeysFrom(a, V) == [i \in 1..V |-> a + i]
InitVals(V) == [kappa |-> KeysFrom(V, V), gammak |-> KeysFrom(2 * V, V), lambda |-> KeysFrom(0, V), iota |-> KeysFrom(3 * V, V)]
DefaultKeys(P, kappa) == [i \in 1..P.E |-> kappa[((i * 2) % P.V) + 1]]
AsPairs(s) == [i \in 1..Len(s) |-> <<s[i].id, s[i].att>>]
GsJ(g) == [t |-> AsPairs(g.t), k |-> g.k]

\* what (6.23), (6.13) say about the signing context and whether (6.26) is evaluated
Ctx(P, tau, slot) == LET e == EpochOf(tau, P.E) e2 == EpochOf(slot, P.E) IN
                     [ce |-> Eta2Index(e, e2), rk |-> IF e2 > e THEN "i" ELSE "g", tab |-> IF e2 > e THEN 1 ELSE 0]
Tk(id, att, sig) == [id |-> id, att |-> att, sig |-> sig]
Blk(P, tau, slot, n, ent, off, adv) ==
  LET c == Ctx(P, tau, slot) IN
  [slot |-> slot, ent |-> ent, ce |-> c.ce, rk |-> c.rk, tab |-> c.tab, off |-> off, n |-> n, adv |-> adv]
Hist(P, U, base, tau, ga, gs, etaBase, blocks) ==
  LET v == InitVals(P.V) IN
  [ev |-> "Hist", P |-> P, U |-> U, base |-> base,
   init |-> [tau |-> tau, ga |-> AsPairs(ga), gs |-> GsJ(gs), eta |-> <<etaBase + 1, etaBase + 2, etaBase + 3, etaBase + 4>>,
             kappa |-> v.kappa, gammak |-> v.gammak, lambda |-> v.lambda, iota |-> v.iota],
   blocks |-> blocks]

\* ---------------------------------------------------------------- family A
AttOf(i) == i % 2
AccOf(S) == LET q == SortSeq(SetToSeq(S), <) IN [i \in 1..Len(q) |-> [id |-> q[i], att |-> AttOf(q[i])]]
AccsA == {AccOf(S) : S \in {T \in SUBSET (1..6) : Cardinality(T) <= 4}}
SinglesA == {<<Tk(i, k.att, k.sig)>> : i \in 1..7,
             k \in {[att |-> 0, sig |-> "ok"], [att |-> 1, sig |-> "ok"], [att |-> 2, sig |-> "ok"], [att |-> 0, sig |-> "eta"],
                    [att |-> 1, sig |-> "att"], [att |-> 0, sig |-> "ring"], [att |-> 1, sig |-> "zero"]}}
PairsA == {<<Tk(i, AttOf(i), "ok"), Tk(j, AttOf(j), "ok")>> : i \in 1..7, j \in 1..7}
          \cup {<<Tk(i, 0, "ok"), Tk(j, 2, "ok")>> : i \in {1, 4}, j \in {5, 7}}
          \cup {<<Tk(i, 0, "zero"), Tk(j, 1, "ok")>> : i \in {2, 7}, j \in {3, 6, 7}}
TriplesA == {<<Tk(1, 1, "ok"), Tk(3, 0, "ok"), Tk(5, 1, "ok")>>, <<Tk(2, 0, "ok"), Tk(5, 1, "ok"), Tk(7, 1, "ok")>>,
             <<Tk(3, 0, "ok"), Tk(1, 1, "ok"), Tk(7, 1, "ok")>>, <<Tk(2, 0, "ok"), Tk(7, 1, "ok"), Tk(7, 1, "ok")>>,
             <<Tk(1, 1, "ok"), Tk(2, 0, "ok"), Tk(3, 1, "ok"), Tk(4, 0, "ok")>>}
ExtA == SetToSeq({<<>>} \cup SinglesA \cup PairsA \cup TriplesA)
SlotsA(tau) == {s \in {tau + 1, 3, 4, 5, 7, 8, 11} : s > tau}
BasesA == << <<0, 0, 0, 0>>, <<160, 15, 0, 0>>, <<0, 0, 0, 128>>, <<156, 255, 255, 255>> >>
GsA(k, P, kappa) == IF k % 3 = 0 THEN Tks(Z(AccOf({2, 3, 5, 8}))) ELSE Kys(DefaultKeys(P, kappa))
HistA(acc, tau, k, exts) ==
  LET blocks == [j \in 1..Len(exts) |-> Blk(P4, tau, exts[j].slot, exts[j].n, 10 + (j % 50), IF j % 5 = 0 THEN <<3 * P4.V + 1>> ELSE <<>>, 0)]
  IN Hist(P4, 8, BasesA[(k % 4) + 1], tau, acc, GsA(k, P4, InitVals(P4.V).kappa), 4 * (k % 20), blocks)
StatesA == LET q == SetToSeq({[acc |-> a, tau |-> t] : a \in AccsA, t \in {1, 2, 3}}) IN
           IF Thorough THEN q ELSE Pick(q, 6)
AltsA(tau) == LET ex == IF Thorough THEN ExtA ELSE Pick(ExtA, 3)
                  sl == SetToSeq(SlotsA(tau)) IN
              [j \in 1..(Len(ex) * Len(sl)) |-> [n |-> ex[((j - 1) % Len(ex)) + 1], slot |-> sl[((j - 1) \div Len(ex)) + 1]]]
FamA == [k \in 1..Len(StatesA) |-> HistA(StatesA[k].acc, StatesA[k].tau, k, AltsA(StatesA[k].tau))]

\* ---------------------------------------------------------------- family H (seeded histories)
Nx(r) == (r * 75 + 74) % 65537
RECURSIVE NxN(_, _)
NxN(r, k) == IF k = 0 THEN r ELSE NxN(Nx(r), k - 1)
MaxIdOf(ga) == IF ga = <<>> THEN 0 ELSE ga[Len(ga)].id
\* identifiers 1..U that are not in ga and below lim, ascending
FreeIds(ga, U, lim) == LET used == IdsOf(ga) IN SelectSeq([i \in 1..U |-> i], LAMBDA i : i \notin used /\ i < lim)
\* c identifiers of free, ascending, spread by a stride
Choose(free, c, r1, r2) ==
  IF c = 0 \/ Len(free) < c THEN <<>>
  ELSE LET G == IF (Len(free) - 1) \div c < 1 THEN 1 ELSE (Len(free) - 1) \div c
           g == IF c = 1 THEN 1 ELSE 1 + (r1 % G)
           a == r2 % (Len(free) - (c - 1) * g)
       IN [j \in 1..c |-> free[a + 1 + (j - 1) * g]]
SortTk(n) == MergeInto(<<>>, n)
SigKinds == <<"eta", "att", "ring", "zero">>

\* one block from the shadow state s = [tau, ga]; returns [blk, s, stop]
GenBlock(P, U, s, r, idx, dens) ==
  LET r1 == Nx(r) r2 == Nx(r1) r3 == Nx(r2) r4 == Nx(r3) r5 == Nx(r4) r6 == Nx(r5) r7 == Nx(r6)
      E == P.E  m == PhaseOf(s.tau, E)
      jump == r1 % 12
      dt == IF jump < 7 THEN 1
            ELSE IF jump = 7 THEN 2
            ELSE IF jump = 8 THEN (IF m < P.Y - 1 THEN P.Y - 1 - m ELSE 1)      \* last slot of the window
            ELSE IF jump = 9 THEN (IF m < P.Y THEN P.Y - m ELSE E - m)           \* first tail slot / next epoch
            ELSE IF jump = 10 THEN E - m + (r2 % E)                              \* somewhere in the next epoch
            ELSE 2 * E - m + (r2 % E)                                            \* an epoch is skipped
      slot == s.tau + dt
      e == EpochOf(s.tau, E) e2 == EpochOf(slot, E) m2 == PhaseOf(slot, E)
      carried == Carried(s.ga, e, e2)
      full == Len(carried) = E
      lim == IF full THEN MaxIdOf(carried) ELSE U + 1
      free == FreeIds(carried, U, lim)
      defect == IF r3 % 16 < 7 THEN r3 % 16 ELSE 99
      cnt0 == IF m2 >= P.Y THEN (IF r4 % 4 = 0 THEN 1 ELSE 0)
              ELSE IF r4 % 100 < dens THEN P.K - (r5 % 2) * (r4 % P.K) ELSE r4 % (P.K + 1)
      cnt == IF defect = 5 /\ m2 < P.Y THEN P.K + 1 ELSE cnt0
      ids == Choose(free, IF cnt > Len(free) THEN Len(free) ELSE cnt, r5, r6)
      base == [j \in 1..Len(ids) |-> Tk(ids[j], (r6 + j * 7 + ids[j]) % P.N, "ok")]
      n == IF base = <<>> THEN
              (IF defect = 6 /\ full /\ m2 < P.Y /\ MaxIdOf(carried) < U THEN <<Tk(MaxIdOf(carried) + 1, 0, "ok")>> ELSE base)
           ELSE IF defect = 0 /\ Len(base) >= 2 THEN <<base[2], base[1]>> \o SubSeq(base, 3, Len(base))
           ELSE IF defect = 1 /\ Len(base) >= 2 THEN <<base[1], base[1]>> \o SubSeq(base, 3, Len(base))
           ELSE IF defect = 2 THEN [base EXCEPT ![(r7 % Len(base)) + 1].att = P.N + (r7 % 2)]
           ELSE IF defect = 3 THEN [base EXCEPT ![(r7 % Len(base)) + 1].sig = SigKinds[(r6 % 4) + 1]]
           ELSE IF defect = 4 /\ carried # <<>> THEN
                SortTk([base EXCEPT ![(r7 % Len(base)) + 1].id = carried[(r6 % Len(carried)) + 1].id])
           ELSE IF defect = 6 /\ full /\ MaxIdOf(carried) < U THEN Append(base, Tk(MaxIdOf(carried) + 1, 0, "ok"))
           ELSE base
      off == IF e2 > e /\ r7 % 3 = 0 THEN <<3 * P.V + 1 + (r6 % P.V)>> ELSE <<>>
      nn == [j \in 1..Len(n) |-> [id |-> n[j].id, att |-> n[j].att, pf |-> n[j].sig = "ok"]]
      must == MustReject(nn, s.ga, e, e2, m2, P.Y, P.N)
      may == MayReject(nn, s.ga, e, e2, E, P.K)
  IN [blk |-> Blk(P, s.tau, slot, n, 100 + idx, off, 1),
      s |-> IF must THEN s ELSE [tau |-> slot, ga |-> AccNext(nn, s.ga, e, e2, E)],
      stop |-> ~must /\ may]

RECURSIVE GenBlocks(_, _, _, _, _, _, _)
GenBlocks(P, U, s, r, idx, left, dens) ==
  IF left = 0 THEN <<>>
  ELSE LET g == GenBlock(P, U, s, r, idx, dens) IN
       <<g.blk>> \o (IF g.stop THEN <<>> ELSE GenBlocks(P, U, g.s, NxN(r, 8), idx + 1, left - 1, dens))

Bases(P) == IF P.E = 4 THEN BasesA
            ELSE IF P.E = 12 THEN << <<0, 0, 0, 0>>, <<224, 46, 0, 0>>, <<248, 255, 255, 127>>, <<148, 254, 255, 255>> >>
            ELSE << <<0, 0, 0, 0>>, <<192, 39, 9, 0>>, <<8, 255, 255, 127>>, <<192, 183, 255, 255>> >>
\* a restored prior state: empty, partly filled or full accumulator (every second free identifier)
InitAcc(P, U, r) == LET len == IF r % 4 = 0 THEN P.E ELSE IF r % 4 = 1 THEN (r \div 4) % P.E ELSE 0
                        st == 1 + (r % 3) IN
                    [i \in 1..len |-> [id |-> st + 2 * (i - 1) + (IF i > len \div 2 THEN 1 ELSE 0), att |-> (r + i) % P.N]]
HistH(P, U, k, nblocks) ==
  LET r0 == NxN((Seed * 131 + k * 7 + P.E) % 65537, 3)
      tau0 == Nx(r0) % P.E
      acc == InitAcc(P, U, Nx(Nx(r0)))
      gs == IF r0 % 5 = 0 THEN Tks(Z([i \in 1..P.E |-> [id |-> 2 * i, att |-> i % P.N]])) ELSE Kys(DefaultKeys(P, InitVals(P.V).kappa))
      dens == <<95, 80, 50, 20>>[(r0 % 4) + 1]
  IN Hist(P, U, Bases(P)[(k % 4) + 1], tau0, acc, gs, 4 * (k % 1000), GenBlocks(P, U, [tau |-> tau0, ga |-> acc], r0, 1, nblocks, dens))
FamH(P, U, count, nblocks) == [k \in 1..count |-> HistH(P, U, k, nblocks)]

\* ---------------------------------------------------------------- sequencers on their own
ZSeq(P, k) == [i \in 1..P.E |-> [id |-> ((i * (2 * k + 1) + k) % (2 * P.E)) + 1, att |-> (i + k) % P.N]]
FamZ(P, U, cnt) == [k \in 1..cnt |-> [ev |-> "Z", P |-> P, U |-> U,
                                      s |-> AsPairs(IF k % 2 = 0 THEN ZSeq(P, k) ELSE [i \in 1..P.E |-> [id |-> i + (k % P.E), att |-> i % P.N]])]]
Ent(k) == [i \in 1..32 |-> NxN(k * 977 + 13, 1 + (i % 5)) % 256]
FamF(P, cnt) == [k \in 1..cnt |-> [ev |-> "F", P |-> P,
                                   r |-> IF k = 1 THEN [i \in 1..32 |-> 0] ELSE IF k = 2 THEN [i \in 1..32 |-> 255] ELSE Ent(k + Seed),
                                   kappa |-> IF k % 3 = 0 THEN [i \in 1..P.V |-> IF i % 2 = 0 THEN 0 ELSE i] ELSE KeysFrom((k % 3) * P.V, P.V)]]

\* ---------------------------------------------------------------- family L (live state)
\* The same kind of histories, marked live = 1: the driver loads the prior state ONCE and lets it live in
\* the chain-state singleton across the blocks (accepted posterior committed in memory as the next prior,
\* refused blocks simply followed by the next block), so that whatever a block - in particular a refused
\* one - leaves behind in the carried-over accumulator shows in the later blocks of the epoch.  No offenders.
Live(h) == [live |-> 1] @@ [h EXCEPT !.blocks = [i \in 1..Len(h.blocks) |-> [h.blocks[i] EXCEPT !.off = <<>>]]]
\* scripted: steps [slot, n, ok]; ok = the specification accepts it (the shadow slot advances)
RECURSIVE ScriptBlocks(_, _, _, _)
ScriptBlocks(P, tau, steps, k) ==
  IF steps = <<>> THEN <<>>
  ELSE LET st == Head(steps) IN
       <<Blk(P, tau, st.slot, st.n, 200 + k, <<>>, 1)>> \o ScriptBlocks(P, IF st.ok THEN st.slot ELSE tau, Tail(steps), k + 1)
Step(slot, n, ok) == [slot |-> slot, n |-> n, ok |-> ok]
T1(i) == Tk(i, i % 2, "ok")
\* tiny: 3 + 3 + 1 tickets, a re-submitted ticket next to a fresh one (refused), an empty block, more tickets, an
\* over-attempted ticket (refused), a ticket in the tail (refused), an empty tail block, the epoch change
ScriptL12(k) == <<Step(1, <<T1(30), T1(31), T1(32)>>, TRUE), Step(2, <<T1(20), T1(21), T1(22)>>, TRUE), Step(3, <<T1(10 + k)>>, TRUE),
                  Step(4, <<T1(5), T1(10 + k)>>, FALSE), Step(5, <<>>, TRUE), Step(6, <<T1(3), T1(4)>>, TRUE),
                  Step(7, <<T1(1), Tk(2, 3, "ok")>>, FALSE), Step(7, <<T1(20), T1(25)>>, FALSE), Step(8, <<T1(2)>>, TRUE),
                  Step(10, <<T1(6)>>, FALSE), Step(11, <<>>, TRUE), Step(12, <<T1(7)>>, TRUE), Step(13, <<T1(7), T1(9)>>, FALSE), Step(13, <<T1(9)>>, TRUE)>>
\* E=4: the accumulator fills and is cut to E, then a re-submitted ticket (refused), an evicting ticket, the tail
ScriptL4(k) == <<Step(4, <<T1(10), T1(11)>>, TRUE), Step(5, <<T1(8), T1(9)>>, TRUE), Step(6, <<T1(3 + k), T1(8)>>, FALSE),
                 Step(6, <<T1(2)>>, TRUE), Step(7, <<>>, TRUE), Step(8, <<T1(5)>>, TRUE), Step(9, <<T1(4), T1(5)>>, FALSE), Step(9, <<T1(4), T1(6)>>, TRUE)>>
HistL(P, U, tau0, script, k) ==
  Live(Hist(P, U, Bases(P)[(k % 4) + 1], tau0, <<>>, Kys(DefaultKeys(P, InitVals(P.V).kappa)), 4 * k, ScriptBlocks(P, tau0, script, 1)))
FamL == <<HistL(P12, 40, 0, ScriptL12(0), 1), HistL(P12, 40, 0, ScriptL12(1), 2), HistL(P4, 12, 3, ScriptL4(0), 3), HistL(P4, 12, 3, ScriptL4(1), 4)>>
LiveH(P, U, count, nblocks) == [k \in 1..count |-> Live(HistH(P, U, 5000 + k, nblocks))]

Cases == FamA
         \o FamL \o LiveH(P4, 12, IF Thorough THEN 1500 ELSE 60, 12) \o LiveH(P12, 40, IF Thorough THEN 800 ELSE 30, 24)
         \o FamH(P4, 12, IF Thorough THEN 2500 ELSE 120, 12)
         \o FamH(P12, 40, IF Thorough THEN 1200 ELSE 40, 24)
         \o FamH(PF, 1500, IF Thorough THEN 2 ELSE 0, 30)
         \o FamZ(P4, 8, 8) \o FamZ(P12, 40, 8) \o FamZ(PF, 1500, IF Thorough THEN 2 ELSE 1)
         \o FamF(P4, IF Thorough THEN 200 ELSE 20) \o FamF(P12, IF Thorough THEN 200 ELSE 20) \o FamF(PF, IF Thorough THEN 3 ELSE 1)

ASSUME ndJsonSerialize(OutFile, Cases)
ASSUME PrintT(<<"GEN", Len(Cases)>>)
GenInit == x = 0
GenNext == FALSE /\ x' = x
=============================================================================

----------------------------- MODULE Reports_Gen -----------------------------
(* G-step for X02.  A case = one block: a state and a guarantees extrinsic.          *)
(* For every scenario (block slot, which cores are guaranteed, report age: current    *)
(* or previous rotation, 2 or 3 credentials, ancestry kept or not, epoch entropies)   *)
(* the VALID baseline is built from the specification itself (the signers are the     *)
(* validators that ReportsAssign assigns to the core; the oracle table for the        *)
(* entropies is read from OracleFile), then named defects are applied: none, each     *)
(* one alone on each guarantee, and the seeded combinations listed in ComboFile       *)
(* (checks/x02.py draws them; it knows defect NAMES only).  Cases are inputs only;    *)
(* Reports_Trace judges what the code did with them.                                  *)
EXTENDS ReportsAssign, Json, SequencesExt
CONSTANTS OutFile, OracleFile, ComboFile, WithSingles     \* WithSingles: include the baselines and single defects
VARIABLE x

P == TinyP
Oracle == ndJsonDeserialize(OracleFile)     \* [eta: 32 bytes, tab: <<input, output>> pairs]
Combos == ndJsonDeserialize(ComboFile)      \* [sc, ds: seq of [d, g]]

Kappa == <<1, 2, 3, 4, 5, 6>>
Lambda == <<11, 12, 13, 14, 15, 16>>
PX(n) == [p |-> n, x |-> n]
Beta == <<[h |-> 1, s |-> 1, b |-> 1, rep |-> <<PX(21)>>],
          [h |-> 2, s |-> 2, b |-> 2, rep |-> <<PX(24), PX(25), PX(26), PX(27), PX(28)>>],
          [h |-> 3, s |-> 3, b |-> 3, rep |-> <<PX(22), PX(23)>>]>>
Two63 == <<0, 0, 0, 0, 0, 0, 0, 128>>
Delta == <<[id |-> 1, code |-> 1, min |-> U(10)], [id |-> 2, code |-> 2, min |-> U(0)], [id |-> 3, code |-> 3, min |-> Two63]>>

\* ages: cur = the block's slot, curlo = first slot of the current rotation, prev = last slot of the
\* previous rotation, prevlo = its first slot (the oldest admissible)
Scenarios == <<
  [tau |-> 25, cores |-> <<0>>,    ages |-> <<"cur">>,            n |-> 2, anc |-> FALSE, e2 |-> 1, e3 |-> 2],
  [tau |-> 25, cores |-> <<0, 1>>, ages |-> <<"prev", "prev">>,   n |-> 3, anc |-> TRUE,  e2 |-> 1, e3 |-> 2],
  [tau |-> 26, cores |-> <<1>>,    ages |-> <<"prevlo">>,         n |-> 2, anc |-> TRUE,  e2 |-> 3, e3 |-> 4],
  [tau |-> 30, cores |-> <<0, 1>>, ages |-> <<"cur", "prev">>,    n |-> 2, anc |-> FALSE, e2 |-> 2, e3 |-> 1],
  [tau |-> 31, cores |-> <<0, 1>>, ages |-> <<"prevlo", "curlo">>, n |-> 3, anc |-> TRUE, e2 |-> 4, e3 |-> 3],
  [tau |-> 35, cores |-> <<1>>,    ages |-> <<"prev">>,           n |-> 3, anc |-> FALSE, e2 |-> 3, e3 |-> 1],
  [tau |-> 36, cores |-> <<0, 1>>, ages |-> <<"prev", "cur">>,    n |-> 2, anc |-> TRUE,  e2 |-> 2, e3 |-> 4],
  [tau |-> 2,  cores |-> <<0>>,    ages |-> <<"cur">>,            n |-> 3, anc |-> FALSE, e2 |-> 4, e3 |-> 1]>>

Defects == {
  "core_oob", "swap_order", "dup_core", "one_cred", "no_cred", "extra_cred", "swap_cred", "dup_cred", "idx_oob",
  "unassigned", "sig_ctx", "sig_rep", "sig_zero", "sig_wrongkey", "sig_otherset", "slot_future", "slot_old",
  "slot_other_rot", "engaged", "engaged_timedout", "engaged_almost", "cleared", "cleared_samepkg", "other_busy",
  "live_samepkg", "unauthorized", "auth_other_core", "empty_pool", "no_service", "gas_low", "gas_eq_min",
  "gas_total_over", "gas_total_eq", "gas_wrap", "gas_max", "bad_code", "dup_pkg", "anchor_unknown", "bad_sroot",
  "bad_broot", "anchor_last", "anchor_first", "anchor_last_prior_root", "anchor_mixed", "lookup_edge", "lookup_old",
  "lookup_future", "lookup_badhash", "lookup_badslot", "pkg_in_beta", "pkg_in_beta_old", "pkg_in_xi", "pkg_in_theta",
  "deps_J", "deps_J1", "pre_unknown", "pre_ext", "pre_beta", "pre_xi", "pre_theta", "srl_beta", "srl_ext",
  "srl_bad_root", "srl_ext_bad_root", "srl_unknown", "out_eq", "out_over", "out_results_over", "out_err_free",
  "no_results", "many_results", "offender_idle", "offender_signer", "offender_otherset"}

Anc(tau) == IF tau >= 26 THEN <<[t |-> tau - 2, h |-> 50], [t |-> tau - 24, h |-> 51], [t |-> tau - 25, h |-> 52]>>
            ELSE IF tau >= 24 THEN <<[t |-> tau - 2, h |-> 50], [t |-> tau - 24, h |-> 51]>>
            ELSE <<[t |-> tau - 2, h |-> 50]>>
BaseSt(sc) ==
  [tau |-> sc.tau, rho |-> <<NoReport, NoReport>>, kappa |-> Kappa, lambda |-> Lambda, off |-> <<>>,
   eta2 |-> Oracle[sc.e2].eta, eta3 |-> Oracle[sc.e3].eta, tab |-> Oracle[sc.e2].tab \o Oracle[sc.e3].tab,
   alpha |-> <<<<1, 2>>, <<3>>>>, beta |-> Beta, xi |-> <<31, 32>>, theta |-> <<41>>, delta |-> Delta,
   anc |-> IF sc.anc THEN Anc(sc.tau) ELSE <<>>]

SlotOf(tau, age) == CASE age = "cur" -> tau
                      [] age = "curlo" -> P.R * (tau \div P.R)
                      [] age = "prev" -> P.R * (tau \div P.R) - 1
                      [] OTHER -> P.R * ((tau \div P.R) - 1)
MFor(st, slot) == IF SameRotation(P, st.tau, slot) THEN MCur(P, st) ELSE MPrev(P, st)
\* the key set (before Phi) the guarantee's rotation uses, and the other one
RawKeys(st, slot) == IF SameRotation(P, st.tau, slot) \/ PrevInSameEpoch(P, st.tau) THEN st.kappa ELSE st.lambda
OtherKeys(st, slot) == IF RawKeys(st, slot) = st.kappa THEN st.lambda ELSE st.kappa
OnCore(m, core) == SetToSortSeq({i \in 0..(P.V - 1) : m.c[i + 1] = core}, LAMBDA a, b : a < b)
OffCore(m, core) == SetToSortSeq({i \in 0..(P.V - 1) : m.c[i + 1] # core}, LAMBDA a, b : a < b)
Cred(ks, i) == [i |-> i, k |-> ks[i + 1], kind |-> "ok"]
SortSigs(s) == SortSeq(s, LAMBDA a, b : a.i < b.i)
BaseRes == [s |-> 1, code |-> 1, gas |-> U(100), out |-> 4, okr |-> TRUE]
BaseG(st, gi, core, age, n) ==
  LET slot == SlotOf(st.tau, age)
      on == OnCore(MFor(st, slot), core)
      ks == RawKeys(st, slot)
  IN [core |-> core, slot |-> slot, sigs |-> [j \in 1..Min2(n, Len(on)) |-> Cred(ks, on[j])],
      rid |-> gi, pkg |-> gi, xroot |-> gi, auth |-> IF core = 0 THEN 2 ELSE 3,
      anchor |-> 2, sroot |-> 2, broot |-> 2, lanchor |-> 50, lslot |-> st.tau - 2,
      pre |-> <<>>, srl |-> <<>>, res |-> <<BaseRes>>, aout |-> 3]

Pending(rid, pkg, t, live) == [rid |-> rid, pkg |-> pkg, t |-> t, live |-> live]
\* one named defect applied to guarantee df.g of the case (no effect where it does not apply)
Apply(cs, df) ==
  IF df.g \notin 1..Len(cs.ext) THEN cs ELSE
  LET gi == df.g
      g == cs.ext[gi]
      st == cs.st
      d == df.d
      n == Len(g.sigs)
      ks == RawKeys(st, g.slot)
      m == MFor(st, g.slot)
      core == IF g.core \in 0..(P.C - 1) THEN g.core ELSE 0
      other == 1 - core
      og == IF Len(cs.ext) >= 2 THEN cs.ext[3 - Min2(gi, 2)] ELSE g
      tau == st.tau
      off1 == OffCore(m, core)[1]
      GG(ng) == [cs EXCEPT !.ext[gi] = ng]
      SS(nst) == [cs EXCEPT !.st = nst]
      RhoAt(c, e) == SS([st EXCEPT !.rho[c + 1] = e])
  IN CASE d = "core_oob" -> GG([g EXCEPT !.core = P.C])
       [] d = "swap_order" -> IF Len(cs.ext) = 2 THEN [cs EXCEPT !.ext = <<cs.ext[2], cs.ext[1]>>] ELSE cs
       [] d = "dup_core" -> [cs EXCEPT !.ext = cs.ext \o <<[g EXCEPT !.rid = 3, !.pkg = 3, !.xroot = 3]>>]
       [] d = "one_cred" -> IF n >= 1 THEN GG([g EXCEPT !.sigs = <<g.sigs[1]>>]) ELSE cs
       [] d = "no_cred" -> GG([g EXCEPT !.sigs = <<>>])
       [] d = "extra_cred" -> GG([g EXCEPT !.sigs = SortSigs(g.sigs \o <<Cred(ks, off1)>>)])
       [] d = "swap_cred" -> IF n >= 2 THEN GG([g EXCEPT !.sigs[1] = g.sigs[2], !.sigs[2] = g.sigs[1]]) ELSE cs
       [] d = "dup_cred" -> IF n >= 2 THEN GG([g EXCEPT !.sigs[2] = g.sigs[1]]) ELSE cs
       [] d = "idx_oob" -> IF n >= 1 THEN GG([g EXCEPT !.sigs[n].i = P.V]) ELSE cs
       [] d = "unassigned" -> IF n >= 1 THEN GG([g EXCEPT !.sigs = SortSigs([g.sigs EXCEPT ![1] = Cred(ks, off1)])]) ELSE cs
       [] d = "sig_ctx" -> IF n >= 1 THEN GG([g EXCEPT !.sigs[1].kind = "ctx"]) ELSE cs
       [] d = "sig_rep" -> IF n >= 1 THEN GG([g EXCEPT !.sigs[1].kind = "rep"]) ELSE cs
       [] d = "sig_zero" -> IF n >= 1 THEN GG([g EXCEPT !.sigs[n].kind = "zero"]) ELSE cs
       [] d = "sig_wrongkey" -> IF n >= 2 THEN GG([g EXCEPT !.sigs[1].k = g.sigs[2].k]) ELSE cs
       [] d = "sig_otherset" -> IF n >= 1 /\ g.sigs[n].i < P.V
                                THEN GG([g EXCEPT !.sigs[n].k = OtherKeys(st, g.slot)[g.sigs[n].i + 1]]) ELSE cs
       [] d = "slot_future" -> GG([g EXCEPT !.slot = tau + 1])
       [] d = "slot_old" -> IF P.R * ((tau \div P.R) - 1) - 1 >= 0 THEN GG([g EXCEPT !.slot = P.R * ((tau \div P.R) - 1) - 1]) ELSE cs
       [] d = "slot_other_rot" -> IF ~SameRotation(P, tau, g.slot) THEN GG([g EXCEPT !.slot = tau])
                                  ELSE IF tau >= P.R THEN GG([g EXCEPT !.slot = P.R * (tau \div P.R) - 1]) ELSE cs
       [] d = "engaged" -> RhoAt(core, Pending(11 + core, 61 + core, Max2(tau - 1, 0), TRUE))
       [] d = "engaged_timedout" -> IF tau >= P.U THEN RhoAt(core, Pending(11 + core, 61 + core, tau - P.U, TRUE)) ELSE cs
       [] d = "engaged_almost" -> IF tau >= P.U THEN RhoAt(core, Pending(11 + core, 61 + core, tau - P.U + 1, TRUE)) ELSE cs
       [] d = "cleared" -> RhoAt(core, Pending(11 + core, 61 + core, Max2(tau - 3, 0), FALSE))
       [] d = "cleared_samepkg" -> RhoAt(core, Pending(11 + core, g.pkg, Max2(tau - 3, 0), FALSE))
       [] d = "other_busy" -> RhoAt(other, Pending(11 + other, 61 + other, Max2(tau - 2, 0), TRUE))
       [] d = "live_samepkg" -> RhoAt(other, Pending(11 + other, g.pkg, Max2(tau - 2, 0), TRUE))
       [] d = "unauthorized" -> GG([g EXCEPT !.auth = 9])
       [] d = "auth_other_core" -> GG([g EXCEPT !.auth = IF core = 0 THEN 3 ELSE 1])
       [] d = "empty_pool" -> SS([st EXCEPT !.alpha[core + 1] = <<>>])
       [] d = "no_service" -> GG([g EXCEPT !.res = <<[BaseRes EXCEPT !.s = 9]>>])
       [] d = "gas_low" -> GG([g EXCEPT !.res = <<[BaseRes EXCEPT !.gas = U(9)]>>])
       [] d = "gas_eq_min" -> GG([g EXCEPT !.res = <<[BaseRes EXCEPT !.gas = U(10)]>>])
       [] d = "gas_total_over" -> GG([g EXCEPT !.res = <<[BaseRes EXCEPT !.s = 2, !.code = 2, !.gas = P.GA], [BaseRes EXCEPT !.s = 2, !.code = 2, !.gas = U(1)]>>])
       [] d = "gas_total_eq" -> GG([g EXCEPT !.res = <<[BaseRes EXCEPT !.s = 2, !.code = 2, !.gas = P.GA], [BaseRes EXCEPT !.s = 2, !.code = 2, !.gas = U(0)]>>])
       [] d = "gas_wrap" -> GG([g EXCEPT !.res = <<[BaseRes EXCEPT !.s = 3, !.code = 3, !.gas = Two63], [BaseRes EXCEPT !.s = 3, !.code = 3, !.gas = Two63]>>])
       [] d = "gas_max" -> GG([g EXCEPT !.res = <<[BaseRes EXCEPT !.s = 2, !.code = 2, !.gas = UMax]>>])
       [] d = "bad_code" -> GG([g EXCEPT !.res = <<[BaseRes EXCEPT !.code = 9]>>])
       [] d = "dup_pkg" -> IF Len(cs.ext) >= 2 /\ gi = 2 THEN GG([g EXCEPT !.pkg = cs.ext[1].pkg, !.xroot = cs.ext[1].xroot])
                           ELSE IF Len(cs.ext) >= 2 THEN GG([g EXCEPT !.pkg = cs.ext[2].pkg, !.xroot = cs.ext[2].xroot]) ELSE cs
       [] d = "anchor_unknown" -> GG([g EXCEPT !.anchor = 9])
       [] d = "bad_sroot" -> GG([g EXCEPT !.sroot = 9])
       [] d = "bad_broot" -> GG([g EXCEPT !.broot = 9])
       [] d = "anchor_last" -> GG([g EXCEPT !.anchor = 3, !.sroot = 3, !.broot = 3])
       [] d = "anchor_first" -> GG([g EXCEPT !.anchor = 1, !.sroot = 1, !.broot = 1])
       [] d = "anchor_last_prior_root" -> GG([g EXCEPT !.anchor = 3, !.sroot = 0, !.broot = 3])
       [] d = "anchor_mixed" -> GG([g EXCEPT !.anchor = 2, !.sroot = 3, !.broot = 2])
       [] d = "lookup_edge" -> IF tau >= P.L THEN GG([g EXCEPT !.lslot = tau - P.L, !.lanchor = 51]) ELSE cs
       [] d = "lookup_old" -> IF tau >= P.L + 1 THEN GG([g EXCEPT !.lslot = tau - P.L - 1, !.lanchor = 52]) ELSE cs
       [] d = "lookup_future" -> GG([g EXCEPT !.lslot = tau + 1])
       [] d = "lookup_badhash" -> GG([g EXCEPT !.lanchor = 9])
       [] d = "lookup_badslot" -> IF tau >= 3 THEN GG([g EXCEPT !.lslot = tau - 3]) ELSE cs
       [] d = "pkg_in_beta" -> GG([g EXCEPT !.pkg = 22])
       [] d = "pkg_in_beta_old" -> GG([g EXCEPT !.pkg = 21])
       [] d = "pkg_in_xi" -> GG([g EXCEPT !.pkg = 32])
       [] d = "pkg_in_theta" -> GG([g EXCEPT !.pkg = 41])
       [] d = "deps_J" -> GG([g EXCEPT !.pre = <<21, 22, 23, 24>>, !.srl = <<PX(25), PX(26), PX(27), PX(28)>>])
       [] d = "deps_J1" -> GG([g EXCEPT !.pre = <<21, 22, 23, 24, 25>>, !.srl = <<PX(25), PX(26), PX(27), PX(28)>>])
       [] d = "pre_unknown" -> GG([g EXCEPT !.pre = <<99>>])
       [] d = "pre_ext" -> GG([g EXCEPT !.pre = <<og.pkg>>])
       [] d = "pre_beta" -> GG([g EXCEPT !.pre = <<21>>])
       [] d = "pre_xi" -> GG([g EXCEPT !.pre = <<31>>])
       [] d = "pre_theta" -> GG([g EXCEPT !.pre = <<41>>])
       [] d = "srl_beta" -> GG([g EXCEPT !.srl = <<PX(22)>>])
       [] d = "srl_ext" -> GG([g EXCEPT !.srl = <<[p |-> og.pkg, x |-> og.xroot]>>])
       [] d = "srl_bad_root" -> GG([g EXCEPT !.srl = <<[p |-> 22, x |-> 99]>>])
       [] d = "srl_ext_bad_root" -> GG([g EXCEPT !.srl = <<[p |-> og.pkg, x |-> 99]>>])
       [] d = "srl_unknown" -> GG([g EXCEPT !.srl = <<PX(99)>>])
       [] d = "out_eq" -> GG([g EXCEPT !.aout = P.WR - 4, !.res = <<BaseRes>>])
       [] d = "out_over" -> GG([g EXCEPT !.aout = P.WR - 3, !.res = <<BaseRes>>])
       [] d = "out_results_over" -> GG([g EXCEPT !.aout = 1, !.res = <<[BaseRes EXCEPT !.out = P.WR \div 2], [BaseRes EXCEPT !.out = P.WR \div 2]>>])
       [] d = "out_err_free" -> GG([g EXCEPT !.aout = P.WR, !.res = <<[BaseRes EXCEPT !.okr = FALSE, !.out = 0]>>])
       [] d = "no_results" -> GG([g EXCEPT !.res = <<>>])
       [] d = "many_results" -> GG([g EXCEPT !.res = [j \in 1..(P.I + 1) |-> BaseRes]])
       [] d = "offender_idle" -> SS([st EXCEPT !.off = st.off \o <<ks[off1 + 1]>>])
       [] d = "offender_signer" -> IF n >= 1 THEN SS([st EXCEPT !.off = st.off \o <<g.sigs[1].k>>]) ELSE cs
       [] d = "offender_otherset" -> SS([st EXCEPT !.off = st.off \o <<OtherKeys(st, g.slot)[1]>>])
       [] OTHER -> cs

RECURSIVE ApplyAll(_, _, _)
ApplyAll(cs, ds, k) == IF k > Len(ds) THEN cs ELSE ApplyAll(Apply(cs, ds[k]), ds, k + 1)

Build(si, ds) ==
  LET sc == Scenarios[si]
      st0 == BaseSt(sc)
      ext0 == [j \in 1..Len(sc.cores) |-> BaseG(st0, j, sc.cores[j], sc.ages[j], sc.n)]
  IN UNION {{[sc |-> si, ds |-> ds, st |-> cs.st, ext |-> cs.ext, hq |-> AssignQueries(P, cs.st)]} :
              cs \in {ApplyAll([st |-> st0, ext |-> ext0], ds, 1)}}

NS == Len(Scenarios)
Singles == {<<si, <<>>>> : si \in 1..NS}
           \cup {<<si, <<[d |-> d, g |-> g]>>>> : si \in 1..NS, d \in Defects, g \in 1..2}
Chosen == {p \in Singles : p[2] = <<>> \/ p[2][1].g <= Len(Scenarios[p[1]].cores)}
Cases == UNION {Build(p[1], p[2]) : p \in IF WithSingles THEN Chosen ELSE {}}
         \cup UNION {Build(((Combos[j].sc - 1) % NS) + 1, Combos[j].ds) : j \in 1..Len(Combos)}

ASSUME ndJsonSerialize(OutFile, SetToSeq(Cases))
ASSUME PrintT(<<"GEN", Cardinality(Chosen), Len(Combos), Cardinality(Cases)>>)
GenInit == x = 0
GenNext == FALSE /\ x' = x
=============================================================================

-------------------------- MODULE Assurances_Trace --------------------------
(* V-step for X01.  Events recorded by harness/assurances (one history per Reset):   *)
(*   Reset V C U tau rho                prior state: rho = <<<<report id, slot>>>> per *)
(*                                      core (0 0 = empty core)                        *)
(*   Block slot tau rho judge as place -> stage err rho_dagger rho_dd w rho_post       *)
(*                                        prior_after post_set                         *)
(*     inputs: rho = the prior pending reports the driver installed (must be what the  *)
(*     previous accepted block left), judge = report ids given a wonky verdict by the  *)
(*     block's disputes extrinsic (run through extrinsic.Disputes()), as = assurances  *)
(*     [v, f = bitfield octets, anchor "ok"|"bad", sig = "ok" or how the driver spoiled *)
(*     the Ed25519 signature], place = <<<<core, report id>>>> guarantees.             *)
(*     outputs: stage = "ok" (block accepted) | "decode" | "assurances" | "reports"    *)
(*     (who refused), err = class named by the refusal ("anchor" "index" "core" "sig"  *)
(*     "order" for assurances, "core_engaged" for reports), rho_dagger / rho_dd / w =  *)
(*     intermediate state after extrinsic.Assurance() (w = <<<<report id, core index   *)
(*     of the report>>>>), rho_post = posterior rho, prior_after = prior rho as the    *)
(*     store holds it after the calls, post_set = posterior rho was written.           *)
(*   GoPanic                            never accepted                                 *)
(* Judgement (AssurancesFn header): any defect of 11.10-11.15 => refused by the        *)
(* assurances stage naming a defect present (P2), prior rho untouched (as the block    *)
(* or as rho-dagger: disputes ran before), posterior rho not written; no defect =>     *)
(* rho-dagger, rho-ddagger and W exactly as specified, then the guarantees are         *)
(* refused iff one targets a core still engaged in rho-ddagger, else rho' as 11.43.    *)
EXTENDS AssurancesFn, Json, TLC
CONSTANTS TraceFile, ResultFile, KnownDeviations
VARIABLES rho, tau, settled, cfg, l

Trace == ndJsonDeserialize(TraceFile)
e == Trace[l]
Is(name) == l <= Len(Trace) /\ e.ev = name /\ l' = l + 1

\* bitfield octets: bit (c mod 8) of octet (c div 8), least significant first, for core index c
Pow2 == <<1, 2, 4, 8, 16, 32, 64, 128>>
BitAt(f, k) == (f[(k \div 8) + 1] \div Pow2[(k % 8) + 1]) % 2 = 1
FOf(f, C) == {c \in 1..C : BitAt(f, c - 1)}
Padded(f, C) == \E k \in C..(8 * Len(f) - 1) : BitAt(f, k)
RhoOf(j) == [c \in 1..Len(j) |-> [r |-> j[c][1], t |-> j[c][2]]]
EOf(as, C) == [i \in 1..Len(as) |-> [v |-> as[i].v, f |-> FOf(as[i].f, C), anchor |-> (as[i].anchor = "ok"), sig |-> as[i].sig]]
Places(p) == [i \in 1..Len(p) |-> [c |-> p[i][1] + 1, r |-> p[i][2]]]
WOf(j) == [i \in 1..Len(j) |-> [r |-> j[i][1], c |-> j[i][2] + 1]]

TReset == /\ Is("Reset")
          /\ rho' = RhoOf(e.rho)
          /\ tau' = e.tau
          /\ settled' = FALSE
          /\ cfg' = [V |-> e.V, C |-> e.C, U |-> e.U]

\* The judgement of one block as a VALUE [good, accepted, post] (evaluated as an expression: in an action TLC
\* would enumerate every way of satisfying the disjunctions under the quantifiers).  Values are bound through
\* singleton sets and TLCEval: TLC would re-evaluate a LET definition / a lazy function at every use.
Outcome(ev, r0, k) ==
  LET No == [good |-> FALSE, accepted |-> FALSE, post |-> r0] IN
  IF RhoOf(ev.rho) # r0 THEN No                          \* the driver did not carry the posterior over
  ELSE
  CHOOSE o \in
   UNION {UNION {UNION {UNION {UNION {
     LET padded == \E i \in 1..Len(ev.as) : Padded(ev.as[i].f, k.C)
         untouched == RhoOf(ev.prior_after) \in {r0, rhoD} /\ ~ev.post_set
         refusedOK == [good |-> TRUE, accepted |-> FALSE, post |-> r0]
     IN IF padded /\ ev.stage \in {"decode", "assurances"}                          \* P3
        THEN {[refusedOK EXCEPT !.good = untouched]}
        ELSE IF D # {}
        THEN {[refusedOK EXCEPT !.good = /\ ev.stage = "assurances"
                                        /\ ev.err \in MayName(E, k.V, rhoD)          \* P2
                                        /\ untouched]}                               \* refused => no state change
        ELSE IF ~(/\ ev.stage \in {"ok", "reports"}
                  /\ RhoOf(ev.rho_dagger) = rhoD                                    \* 10.15 feeding 11.15 - 11.17
                  /\ RhoOf(ev.rho_dd) = dd                                          \* 11.17
                  /\ WOf(ev.w) = w                                                  \* 11.16
                  /\ AvailNotPending(w, dd) /\ AvailIffSuper(w, cnt, rhoD, k.V)
                  /\ OnlyRemoves(r0, dd) /\ NoTimedOut(dd, ev.slot, k.U))
        THEN {No}
        ELSE IF Engaged(dd, P)
        THEN {[refusedOK EXCEPT !.good = (ev.stage = "reports" /\ ev.err = "core_engaged")]}   \* 11.29
        ELSE {[good |-> (ev.stage = "ok" /\ RhoOf(ev.rho_post) = post), accepted |-> TRUE, post |-> post]}   \* 11.43
     : post \in {TLCEval(RhoPost(dd, P, ev.slot))}}
     : dd \in {TLCEval(RhoDDS(r0, rhoD, S, ev.slot, k.U))}, w \in {TLCEval(AvailSeqS(S, rhoD))}}
     : S \in {AvailCoresN(cnt, k.V, rhoD)}}
     : D \in {Defects(E, k.V, rhoD)}, cnt \in {TLCEval(Counts(E, k.C))}, P \in {TLCEval(Places(ev.place))}}
     : E \in {TLCEval(EOf(ev.as, k.C))}, rhoD \in {TLCEval(RhoDagger(r0, SeqSet(ev.judge)))}}
   : TRUE

TBlock ==
  /\ Is("Block")
  /\ \E o \in {Outcome(e, rho, cfg)} :
       /\ o.good = TRUE
       /\ rho' = o.post
       /\ tau' = IF o.accepted THEN e.slot ELSE tau
       /\ settled' = (settled \/ o.accepted)
  /\ UNCHANGED cfg

TraceInit == l = 1 /\ rho = <<>> /\ tau = 0 /\ settled = FALSE /\ cfg = [V |-> 6, C |-> 2, U |-> 5]
TraceNext == TReset \/ TBlock
TraceSpec == TraceInit /\ [][TraceNext]_<<rho, tau, settled, cfg, l>>

\* on every state the code went through after an accepted block: nothing timed out is pending
TraceNoTimedOut == settled => NoTimedOut(rho, tau, cfg.U)

Report == (l = Len(Trace) + 1) => JsonSerialize(ResultFile, [n |-> l - 1, devs |-> <<>>, bad |-> <<>>])
=============================================================================

-------------------------- MODULE Assurances_Trace --------------------------
(* V-step for X01.  Events recorded by harness/assurances (one history per Reset):   *)
(*   Reset V C U tau rho                prior state: rho = <<<<report id, slot>>>> per *)
(*                                      core (0 0 = empty core)                        *)
(*   Block slot tau rho judge as place -> stage err rho_dagger rho_dd w rho_post       *)
(*                                        prior_after post_set                         *)
(*     inputs: rho = the prior pending reports the driver installed (must be what the  *)
(*     previous accepted block left), judge = report ids given a wonky verdict by the  *)
(*     block's disputes extrinsic (run through extrinsic.Disputes()), as = assurances  *)
(*     [v, f = bitfield octet, anchor "ok"|"bad", sig = "ok" or how the driver spoiled *)
(*     the Ed25519 signature], place = <<<<core, report id>>>> guarantees.             *)
(*     outputs: stage = "ok" (block accepted) | "decode" | "assurances" | "reports"    *)
(*     (who refused), err = class named by the refusal ("anchor" "index" "core" "sig"  *)
(*     "order" for assurances, "core_engaged" for reports), rho_dagger / rho_dd / w =  *)
(*     intermediate state after extrinsic.Assurance() (w = <<<<report id, core index   *)
(*     of the report>>>>), rho_post = posterior rho, prior_after = prior rho as the    *)
(*     store holds it after the calls, post_set = posterior rho was written.           *)
(*   GoPanic                            never accepted                                 *)
(* Judgement (AssurancesFn header): any defect of 11.10-11.15 => refused by the        *)
(* assurances stage naming a defect present (P2), prior rho untouched (as the block    *)
(* or as rho-dagger: disputes ran before), posterior rho not written; no defect =>     *)
(* rho-dagger, rho-ddagger and W exactly as specified, then the guarantees are         *)
(* refused iff one targets a core still engaged in rho-ddagger, else rho' as 11.43.    *)
EXTENDS AssurancesFn, Json, TLC
CONSTANTS TraceFile, ResultFile, KnownDeviations
VARIABLES rho, tau, settled, cfg, l

Trace == ndJsonDeserialize(TraceFile)
e == Trace[l]
Is(name) == l <= Len(Trace) /\ e.ev = name /\ l' = l + 1

RECURSIVE Pow2(_)
Pow2(n) == IF n = 0 THEN 1 ELSE 2 * Pow2(n - 1)
FOfByte(f, C) == {c \in 1..C : (f \div Pow2(c - 1)) % 2 = 1}
Padded(f, C) == (f \div Pow2(C)) # 0
RhoOf(j) == [c \in 1..Len(j) |-> [r |-> j[c][1], t |-> j[c][2]]]
EOf(as, C) == [i \in 1..Len(as) |-> [v |-> as[i].v, f |-> FOfByte(as[i].f, C), anchor |-> (as[i].anchor = "ok"), sig |-> as[i].sig]]
Places(p) == [i \in 1..Len(p) |-> [c |-> p[i][1] + 1, r |-> p[i][2]]]
WOf(j) == [i \in 1..Len(j) |-> [r |-> j[i][1], c |-> j[i][2] + 1]]

TReset == /\ Is("Reset")
          /\ rho' = RhoOf(e.rho)
          /\ tau' = e.tau
          /\ settled' = FALSE
          /\ cfg' = [V |-> e.V, C |-> e.C, U |-> e.U]

TBlock ==
  /\ Is("Block")
  /\ RhoOf(e.rho) = rho                                    \* the driver carried the posterior over
  /\ LET E == EOf(e.as, cfg.C)
         rhoD == RhoDagger(rho, SeqSet(e.judge))
         D == Defects(E, cfg.V, rhoD)
         padded == \E i \in 1..Len(e.as) : Padded(e.as[i].f, cfg.C)
         dd == RhoDD(rho, rhoD, E, cfg.V, e.slot, cfg.U)
         w == AvailSeq(E, cfg.V, rhoD)
         P == Places(e.place)
         untouched == RhoOf(e.prior_after) \in {rho, rhoD} /\ ~e.post_set
     IN \/ /\ padded                                                          \* P3
           /\ e.stage \in {"decode", "assurances"}
           /\ untouched
           /\ UNCHANGED <<rho, tau, settled>>
        \/ /\ D # {}
           /\ e.stage = "assurances"
           /\ e.err \in MayName(E, cfg.V, rhoD)                               \* P2
           /\ untouched                                                       \* refused => no state change
           /\ UNCHANGED <<rho, tau, settled>>
        \/ /\ D = {}
           /\ e.stage \in {"ok", "reports"}
           /\ RhoOf(e.rho_dagger) = rhoD                                      \* 10.15 feeding 11.15 - 11.17
           /\ RhoOf(e.rho_dd) = dd                                            \* 11.17
           /\ WOf(e.w) = w                                                    \* 11.16
           /\ AvailNotPending(w, dd) /\ AvailIffSuper(w, Counts(E, cfg.C), rhoD, cfg.V)
           /\ OnlyRemoves(rho, dd) /\ NoTimedOut(dd, e.slot, cfg.U)
           /\ IF Engaged(dd, P)
              THEN /\ e.stage = "reports" /\ e.err = "core_engaged"           \* 11.29
                   /\ UNCHANGED <<rho, tau, settled>>
              ELSE /\ e.stage = "ok"
                   /\ RhoOf(e.rho_post) = RhoPost(dd, P, e.slot)               \* 11.43
                   /\ rho' = RhoPost(dd, P, e.slot)
                   /\ tau' = e.slot
                   /\ settled' = TRUE
  /\ UNCHANGED cfg

TraceInit == l = 1 /\ rho = <<>> /\ tau = 0 /\ settled = FALSE /\ cfg = [V |-> 6, C |-> 2, U |-> 5]
TraceNext == TReset \/ TBlock
TraceSpec == TraceInit /\ [][TraceNext]_<<rho, tau, settled, cfg, l>>

\* on every state the code went through after an accepted block: nothing timed out is pending
TraceNoTimedOut == settled => NoTimedOut(rho, tau, cfg.U)

Report == (l = Len(Trace) + 1) => JsonSerialize(ResultFile, [n |-> l - 1, devs |-> <<>>, bad |-> <<>>])
=============================================================================

--------------------------- MODULE WorkDigest_Trace ---------------------------
(* V-step for C32.  Records (harness/workdigest):                                   *)
(*  C  item result u want_y got    got = fields of work_package.C(item, result, u):  *)
(*       s c a u (little-endian bytes), y, rt/rdata (result), i x e (ints), z (4 LE) *)
(*  A  h blen nseg want_root got err   got = Hash, Length (4 LE), ExportsCount,       *)
(*       ExportsRoot of work_package.A(h, bundle, segments)                          *)
(* want_y / want_root are the specification's hash terms (B2b(payload), M(segments)) *)
(* evaluated by the driver's generic evaluator with real BLAKE2b.                    *)
(*  Xi items classes outs ... got   WorkReportCompute with a scripted executor (see   *)
(*       JudgeXi): digests = C of every item, specification over all segments         *)
(* The erasure root is not judged (erasure coding is a stand-in, C30).               *)
EXTENDS WorkDigestDefs, Json, TLC
CONSTANTS TraceFile, ResultFile, KnownDeviations
VARIABLES l, devs, bad

Trace == ndJsonDeserialize(TraceFile)
Why(c, s) == IF c THEN {s} ELSE {}

JudgeC(e) ==
  LET w == [s |-> e.item.s, c |-> e.item.c, a |-> e.item.a, e |-> e.item.e, payload |-> e.item.payload,
            imports |-> Rep(0, e.item.ni), ext |-> e.item.ext]
      d == Digest(w, e.result, e.u)
      g == e.got
  IN IF e.panic = 1 THEN {"panic:C"}
     ELSE Why(g.s # d.s, "service_id")
          \cup Why(g.c # d.c, "code_hash")
          \cup Why(g.y # e.want_y, "payload_hash")
          \cup Why(g.a # d.a, "accumulate_gas")
          \cup Why(g.rt # d.result.t \/ (d.result.t = "ok" /\ g.rdata # d.result.data), "result")
          \cup Why(g.u # d.u, "gas_used")
          \cup Why(g.i # d.i, "import_count")
          \cup Why(g.x # d.x, "extrinsic_count")
          \cup Why(g.z # LE(d.z, 4), "extrinsic_size")
          \cup Why(g.e # d.e, "export_count")

JudgeA(e) ==
  IF e.panic = 1 THEN {"panic:A"}
  ELSE IF e.err = 1 THEN {"A_returned_error"}
  ELSE Why(e.got.h # e.h, "package_hash")
       \cup Why(e.got.l # LE(e.blen, 4), "bundle_length")
       \cup Why(e.got.n # e.nseg, "exports_count")
       \cup Why(e.got.root # e.want_root, "exports_root")

\* Xi: the report computed from a scripted refinement.  items as generated; outs[k] = [t, data, datarep, nret, u]
\* (output blob = data followed by datarep bytes of value 7); got_offsets = export segment offset handed to each
\* refinement; got = [results, h, l, n, root, core, authgas, authout].  Which items fail is computed here (FailedItems).
JudgeXi(e) ==
  LET n == Len(e.items)
      W(k) == [s |-> e.items[k].s, c |-> e.items[k].c, a |-> e.items[k].a, e |-> e.items[k].e, payload |-> e.items[k].payload,
               imports |-> Rep(0, e.items[k].ni), ext |-> e.items[k].ext]
      ws == [k \in 1..n |-> W(k)]
      script == [k \in 1..n |-> [t |-> e.outs[k].t, dlen |-> Len(e.outs[k].data) + e.outs[k].datarep, nret |-> e.outs[k].nret]]
      failed == FailedItems(ws, script, Len(e.authout))
      BadItem(k) == LET d == Digest(W(k), e.outs[k], e.outs[k].u)
                        g == e.got.results[k]
                    IN \/ g.s # d.s \/ g.c # d.c \/ g.y # e.want_ys[k] \/ g.a # d.a \/ g.u # d.u
                       \/ g.i # d.i \/ g.x # d.x \/ g.z # LE(d.z, 4) \/ g.e # d.e
      BadResult(k) == LET g == e.got.results[k] IN
                      IF ~failed[k] THEN g.rt # "ok" \/ g.rdata # e.outs[k].data \o Rep(7, e.outs[k].datarep)
                      ELSE g.rt = "ok"
  IN IF e.panic = 1 THEN {"panic:WorkReportCompute"}
     ELSE IF e.err = 1 THEN {"WorkReportCompute_returned_error"}
     ELSE IF Len(e.got.results) # n THEN {"digest_count"}
     ELSE Why(\E k \in 1..n : BadItem(k), "report_digest_fields")
          \cup Why(\E k \in 1..n : BadResult(k), "report_digest_result")
          \cup Why(e.got_offsets # ExportOffsets(ws), "export_segment_offset")
          \cup Why(e.got.h # e.h, "package_hash")
          \cup Why(e.got.l # LE(e.blen, 4), "bundle_length")
          \cup Why(e.got.n # e.nsegs, "exports_count")
          \cup Why(e.got.root # e.want_root, "exports_root")
          \cup Why(e.got.core # e.core \/ e.got.authgas # e.authgas \/ e.got.authout # e.authout, "report_passthrough")

Judge(e) == CASE e.ev = "C" -> JudgeC(e)
              [] e.ev = "A" -> JudgeA(e)
              [] e.ev = "Xi" -> JudgeXi(e)
              [] OTHER      -> {"unknown_event"}

Init == l = 1 /\ devs = {} /\ bad = {}
Next == /\ l <= Len(Trace)
        /\ bad' = bad \cup {[l |-> l, why |-> y] : y \in Judge(Trace[l])}
        /\ devs' = devs
        /\ l' = l + 1
TraceSpec == Init /\ [][Next]_<<l, devs, bad>>

Report == (l = Len(Trace) + 1) =>
  JsonSerialize(ResultFile, [n |-> l - 1, devs |-> SetToSeq(devs), bad |-> SetToSeq(bad)])
=============================================================================

---------------------------- MODULE MC_Statistics ----------------------------
(* Model-checking instance of Statistics; constants come from checks/c34.py.       *)
EXTENDS Statistics
=============================================================================

-------------------------- MODULE Authorizer_Trace --------------------------
(* V-step for C24.  Every record is judged on its own (inputs are in the record):   *)
(*  {ev:"Block", cores, slot:[4 LE bytes], prior:[pool..], gs:[{core,auth}..],       *)
(*   q:[{tag,per,over}..], res:{<api>: {got:[pool..], err, panic, mut}}}             *)
(*  {ev:"Remove", pool, h, res:{remove:{got, panic}}}                                *)
(* api "stf" = STFAlpha2AlphaPrime, "auth" = Authorization() on the chain-state      *)
(* singleton.  `mut` (the PRIOR pools were modified in place) is informational:      *)
(* only C26 makes it observable.  Names stand for 32-byte hashes.                    *)
(* Gray Paper constants: O = 8, Q = 80.                                              *)
EXTENDS Integers, Sequences, FiniteSets, SequencesExt, Json, TLC
CONSTANTS TraceFile, ResultFile, KnownDeviations
VARIABLES l, devs, bad
O == 8
Q == 80
Cores == {}
Syms == {}
GSyms == {}
QSyms == {}
MaxG == 0
MaxSlot == 0
alpha == <<>>
inp == <<>>
INSTANCE Authorizer

Trace == ndJsonDeserialize(TraceFile)

\* what the statement allows for core c (0-based) of record e
Want(e, c) == PoolNextSet(e.prior[c + 1], UsedBy(e.gs, c), QueueAt(e.q[c + 1], c, SlotMod(e.slot, Q)), O)

Verdict(e, r) ==
  IF e.ev = "Remove" THEN
    (IF r.panic # "" THEN "panic" ELSE IF r.got = RemoveLeftmost(e.pool, e.h) THEN "ok" ELSE "remove_mismatch")
  ELSE IF r.panic # "" THEN "panic"
  ELSE IF r.err # "" THEN "error_returned"
  ELSE IF Len(r.got) # e.cores THEN "core_count"
  ELSE IF \E c \in 1..e.cores : Len(r.got[c]) > O THEN "pool_exceeds_O"
  ELSE IF \A c \in 0..(e.cores - 1) : r.got[c + 1] \in Want(e, c) THEN "ok"
  ELSE "pool_mismatch"

Judge(e) == {[why |-> Verdict(e, e.res[a]) \o ":" \o a] : a \in {a \in DOMAIN e.res : Verdict(e, e.res[a]) # "ok"}}

TInit == l = 1 /\ devs = {} /\ bad = {}
TNext == /\ l <= Len(Trace)
        /\ bad' = bad \cup {[l |-> l, why |-> y.why] : y \in Judge(Trace[l])}
        /\ devs' = devs
        /\ l' = l + 1
TraceSpec == TInit /\ [][TNext]_<<l, devs, bad>>

Report == (l = Len(Trace) + 1) =>
  JsonSerialize(ResultFile, [n |-> l - 1, devs |-> SetToSeq(devs), bad |-> SetToSeq(bad)])
=============================================================================

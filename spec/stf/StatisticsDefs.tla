--------------------------- MODULE StatisticsDefs ---------------------------
(* C34 - activity statistics (Gray Paper 13.3-13.16), pure definitions shared by    *)
(* Statistics (MC), Statistics_Gen and Statistics_Trace.                             *)
(*                                                                                  *)
(* A block is a record                                                              *)
(*   [slot, author, nt, pre, gs, as, avail, acc, kappa, lambda]                      *)
(*   nt     number of tickets in E_T                                                 *)
(*   pre    preimages  <<requester service, blob length>>                            *)
(*   gs     guarantees [slot, core, sigs, len, nexp, res]; sigs = validator indices  *)
(*          (0-based) of the credential; len / nexp = package length / export count  *)
(*          of the report; res = digests [s, i, x, z, e, u] (u: 8 LE bytes of gas)   *)
(*          (+ r, the result kind ok / out-of-gas / panic / bad-exports / ...: the    *)
(*          sums of 13.9 and 13.16 run over EVERY digest whatever its result, so no   *)
(*          operator here reads r)                                                   *)
(*   as     assurances [v, bits] (bits: one 0/1 per core)                            *)
(*   avail  newly available reports [core, len, nexp]            (W, 11.16)          *)
(*   acc    accumulation statistics [s, n, u]                    (S, 12.26)          *)
(*   kappa, lambda   posterior validator sets as Ed25519 key identities              *)
(*                                                                                  *)
(* (13.4) a = pi_V if e' = e else zeros;  pi'_L = pi_L if e' = e else pi_V           *)
(* (13.5) pi'_V[v] = a[v] + (b: v = H_i, t: |E_T| if v = H_i, p: |E_P| if v = H_i,   *)
(*        d: sum of |blob| if v = H_i, g: kappa'_v in R, a: exists assurance by v)   *)
(*        R (11.26) = keys of the credential's validator indices under the           *)
(*        assignment of the guarantee's rotation: kappa' when floor(tau'/R) =        *)
(*        floor(t/R); otherwise (G*, 11.22) kappa' if tau' - R lies in the epoch of  *)
(*        tau', else lambda'.  (The core assignment itself does not matter here.)    *)
(* (13.8-13.10) pi'_C[c] = sums over the incoming reports on core c of the digests'  *)
(*        i, x, z, e, u, the bundle size (r_s)_l; d = sum over newly available       *)
(*        reports on c of (r_s)_l + W_G * ceil((r_s)_n * 65 / 64); p = number of     *)
(*        assurances whose bit c is set.                                             *)
(* (13.12-13.16) pi'_S has exactly the services of the incoming digests, of the      *)
(*        preimage extrinsic and of the accumulation statistics; per service:        *)
(*        provided (count, octets), refinement (digest count, gas), i, x, z, e,      *)
(*        accumulate (count, gas) from S.                                            *)
(*                                                                                  *)
(* PERMISSIVE CLAUSE: the bundle size b of a core (13.9) is written inside the sum   *)
(* over digests in the paper; it is read either once per report (the repository)     *)
(* or once per digest.  Both are accepted (CoreBOK).                                 *)
(* Counters are TLC integers (generators keep them below 2^31); gas is a 64-bit      *)
(* little-endian byte tuple (module U64).                                            *)
EXTENDS U64

WG == 4104
ZeroVal == [b |-> 0, t |-> 0, p |-> 0, d |-> 0, g |-> 0, a |-> 0]
SetOfSeq(s) == {s[i] : i \in 1..Len(s)}

RECURSIVE SumGas(_)
SumGas(s) == IF s = <<>> THEN U64Zero ELSE Add(Head(s), SumGas(Tail(s)))
RECURSIVE Flatten(_)
Flatten(ss) == IF ss = <<>> THEN <<>> ELSE Head(ss) \o Flatten(Tail(ss))

\* ---------------------------------------------------------------- validators
\* requires blk.slot >= R
StarKeys(blk, E, R) == IF ((blk.slot - R) \div E) = (blk.slot \div E) THEN blk.kappa ELSE blk.lambda
KeysFor(g, blk, E, R) == IF (blk.slot \div R) = (g.slot \div R) THEN blk.kappa ELSE StarKeys(blk, E, R)
Reporters(blk, E, R) ==
  UNION {{KeysFor(blk.gs[i], blk, E, R)[v + 1] : v \in SetOfSeq(blk.gs[i].sigs)} : i \in 1..Len(blk.gs)}
Assurers(blk) == {blk.as[i].v : i \in 1..Len(blk.as)}
PreOctets(blk) == SumSeq([i \in 1..Len(blk.pre) |-> blk.pre[i][2]])

ValsNext(piV, tau, blk, V, E, R) ==
  LET a == IF blk.slot \div E = tau \div E THEN piV ELSE [v \in 1..V |-> ZeroVal]
      rs == Reporters(blk, E, R)
      as == Assurers(blk)
  IN [v \in 1..V |->
        LET au == IF v - 1 = blk.author THEN 1 ELSE 0 IN
        [b |-> a[v].b + au,
         t |-> a[v].t + au * blk.nt,
         p |-> a[v].p + au * Len(blk.pre),
         d |-> a[v].d + au * PreOctets(blk),
         g |-> a[v].g + (IF blk.kappa[v] \in rs THEN 1 ELSE 0),
         a |-> a[v].a + (IF (v - 1) \in as THEN 1 ELSE 0)]]
LastNext(piV, piL, tau, blk, E) == IF blk.slot \div E = tau \div E THEN piL ELSE piV

\* ---------------------------------------------------------------- cores
DigestsOn(blk, c) == Flatten([i \in 1..Len(blk.gs) |-> IF blk.gs[i].core = c THEN blk.gs[i].res ELSE <<>>])
ReportsOn(blk, c) == SelectSeq(blk.gs, LAMBDA g : g.core = c)
DALoad(r) == r.len + WG * ((r.nexp * 65 + 63) \div 64)
CoreRec(blk, c) ==
  LET ds == DigestsOn(blk, c)
      av == SelectSeq(blk.avail, LAMBDA r : r.core = c)
  IN [i |-> SumSeq([k \in 1..Len(ds) |-> ds[k].i]),
      x |-> SumSeq([k \in 1..Len(ds) |-> ds[k].x]),
      z |-> SumSeq([k \in 1..Len(ds) |-> ds[k].z]),
      e |-> SumSeq([k \in 1..Len(ds) |-> ds[k].e]),
      u |-> SumGas([k \in 1..Len(ds) |-> ds[k].u]),
      d |-> SumSeq([k \in 1..Len(av) |-> DALoad(av[k])]),
      p |-> SumSeq([k \in 1..Len(blk.as) |-> blk.as[k].bits[c + 1]])]
\* bundle size: either reading of (13.9)
CoreBOK(blk, c, b) ==
  LET rs == ReportsOn(blk, c) IN
  \/ b = SumSeq([k \in 1..Len(rs) |-> rs[k].len])
  \/ b = SumSeq([k \in 1..Len(rs) |-> rs[k].len * Len(rs[k].res)])

\* ---------------------------------------------------------------- services
AllDigests(blk) == Flatten([i \in 1..Len(blk.gs) |-> blk.gs[i].res])
Services(blk) == {d.s : d \in SetOfSeq(AllDigests(blk))} \cup {blk.pre[i][1] : i \in 1..Len(blk.pre)}
                 \cup {blk.acc[i].s : i \in 1..Len(blk.acc)}
ServiceRec(blk, s) ==
  LET ds == SelectSeq(AllDigests(blk), LAMBDA d : d.s = s)
      ps == SelectSeq(blk.pre, LAMBDA q : q[1] = s)
      ac == SelectSeq(blk.acc, LAMBDA q : q.s = s)
  IN [s |-> s,
      pc |-> Len(ps), ps |-> SumSeq([k \in 1..Len(ps) |-> ps[k][2]]),
      rn |-> Len(ds), ru |-> SumGas([k \in 1..Len(ds) |-> ds[k].u]),
      i |-> SumSeq([k \in 1..Len(ds) |-> ds[k].i]),
      x |-> SumSeq([k \in 1..Len(ds) |-> ds[k].x]),
      z |-> SumSeq([k \in 1..Len(ds) |-> ds[k].z]),
      e |-> SumSeq([k \in 1..Len(ds) |-> ds[k].e]),
      an |-> IF ac = <<>> THEN 0 ELSE ac[1].n,
      au |-> IF ac = <<>> THEN U64Zero ELSE ac[1].u]
=============================================================================

---------------------------- MODULE AccOuter_Gen ----------------------------
(* G-step for X06: every scenario of AccOuterScn.tla (flags x gas limits, the block-limit *)
(* variants bound through DeferredTransfers(), the over-budget family).                   *)
EXTENDS AccOuterScn, Json
CONSTANTS OutFile, Tier
VARIABLE x

Cases == IF Tier = "race" THEN Races ELSE Races \cup {Scenario(fl, g, FALSE) : fl \in Flags, g \in Cuts}
         \cup {LET sc == Scenario(fl, 0, TRUE) IN [sc EXCEPT !.g = BlockGas(sc)] : fl \in Flags}    \* BlockGas does not depend on g
         \cup {Big(s, f) : s \in BOOLEAN, f \in BOOLEAN} \cup {Burn} \cup {Tight(g) : g \in {99999, 100000, 110000, 150000}}
ASSUME ndJsonSerialize(OutFile, SetToSeq(Cases))
GenInit == x = 0
GenNext == FALSE /\ x' = x
=============================================================================

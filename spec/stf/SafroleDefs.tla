---------------------------- MODULE SafroleDefs ----------------------------
(* C23 - pure definitions of the Safrole ticket accumulator and slot-sealer        *)
(* sequence (Gray Paper 6.2, 6.13, 6.23-6.35), shared by Safrole (MC),              *)
(* Safrole_Gen and Safrole_Trace.                                                   *)
(*                                                                                  *)
(* A ticket is a record [id, att]: id an integer standing for the 32-byte ticket    *)
(* identifier (the rank of the real identifier in bytewise order, so "sorted by     *)
(* identifier" means the same on both sides), att the entry index.  A ticket of     *)
(* the extrinsic additionally carries pf (TRUE iff its ring-VRF proof verifies      *)
(* under the context  X_T ++ eta'_2 ++ att).                                        *)
(*                                                                                  *)
(*   e = floor(tau / E), m = tau mod E                                    (6.2)     *)
(*   eta'_1..3 = eta_0..2 if e' > e else eta_1..3                         (6.23)    *)
(*   gamma'_a  = the E lowest of  n  u  (e' > e ? {} : gamma_a)           (6.34)    *)
(*   a block is invalid when: m' >= Y and n # [] (6.30); an attempt >= N;           *)
(*     a proof does not verify (6.29); n not strictly ascending by id (6.32);       *)
(*     an id of n is already in the carried-over accumulator (6.33)                 *)
(*   gamma'_s  = Z(gamma_a)        if e' = e + 1 /\ m >= Y /\ |gamma_a| = E         *)
(*               gamma_s           if e' = e                                        *)
(*               F(eta'_2, kappa') otherwise                              (6.24)    *)
(*   Z(s) = [s_0, s_|s|-1, s_1, s_|s|-2, ...]                             (6.25)    *)
(*   F(r, k)_i = (k[ LE32(H(r ++ E_4(i))[0..4)) mod V ])_b ,  i < E       (6.26)    *)
(*   H_w = Z(gamma_a) if e' = e /\ m < Y <= m' /\ |gamma_a| = E           (6.28)    *)
(*   (gamma'_k, kappa', lambda') = (Phi(iota), gamma_k, kappa) if e' > e  (6.13)    *)
(*                                                                                  *)
(* PERMISSIVE CLAUSES (the statement does not settle them; either outcome is        *)
(* accepted, and an accepted block must still have the specified posterior):        *)
(*  P1 the per-block maximum |n| <= K (the repository tests |n| <= V);              *)
(*  P2 "useless" tickets, n not a subset of gamma'_a (GP 6.35 rejects, the          *)
(*     repository accepts and drops them);                                          *)
(*  P3 at an epoch change, an id of n that was in the OLD accumulator (6.33 read    *)
(*     against gamma_a vs. against the reset accumulator).                          *)
(* Required rejections are exactly the ones the statement lists (unsorted,          *)
(* duplicated, over-attempted, after the submission window) plus an unverifiable    *)
(* proof (such a ticket has no identifier, so the statement's posterior is          *)
(* undefined for a block that carries it).                                          *)
EXTENDS Integers, Sequences, FiniteSets

\* ---------------------------------------------------------------- time
EpochOf(t, E) == t \div E
PhaseOf(t, E) == t % E

\* ---------------------------------------------------------------- ticket sequences
IdsOf(s) == {s[i].id : i \in 1..Len(s)}
Body(x) == [id |-> x.id, att |-> x.att]
Bodies(n) == [i \in 1..Len(n) |-> Body(n[i])]
StrictlyInc(s) == \A i \in 1..(Len(s) - 1) : s[i].id < s[i + 1].id
Unsorted(n) == \E i \in 1..(Len(n) - 1) : n[i].id > n[i + 1].id
HasDup(n) == \E i, j \in 1..Len(n) : i # j /\ n[i].id = n[j].id
OverAttempt(n, N) == \E i \in 1..Len(n) : n[i].att >= N
BadProof(n) == \E i \in 1..Len(n) : ~n[i].pf

Carried(ga, e, e2) == IF e2 > e THEN <<>> ELSE ga

\* the statement's rejections (see header)
MustReject(n, ga, e, e2, m2, Y, N) ==
  \/ m2 >= Y /\ n # <<>>
  \/ OverAttempt(n, N)
  \/ BadProof(n)
  \/ Unsorted(n)
  \/ HasDup(n)
  \/ IdsOf(n) \cap IdsOf(Carried(ga, e, e2)) # {}

\* blocks the permissive clauses leave open (either verdict)
RECURSIVE InsertT(_, _)
InsertT(s, x) == IF s = <<>> THEN <<x>>
                 ELSE IF x.id < Head(s).id THEN <<x>> \o s
                 ELSE <<Head(s)>> \o InsertT(Tail(s), x)
RECURSIVE MergeInto(_, _)
MergeInto(s, n) == IF n = <<>> THEN s ELSE MergeInto(InsertT(s, Head(n)), Tail(n))
FirstN(s, k) == IF Len(s) <= k THEN s ELSE SubSeq(s, 1, k)

\* (6.34) for a block that is not rejected
AccNext(n, ga, e, e2, E) == FirstN(MergeInto(Carried(ga, e, e2), Bodies(n)), E)

MayReject(n, ga, e, e2, E, K) ==
  \/ Len(n) > K                                                         \* P1
  \/ ~(IdsOf(n) \subseteq IdsOf(AccNext(n, ga, e, e2, E)))              \* P2
  \/ e2 > e /\ IdsOf(n) \cap IdsOf(ga) # {}                             \* P3

\* declarative reading of "the lowest identifiers among new and carried-over tickets"
IsLowest(acc, U, E) ==
  /\ StrictlyInc(acc)
  /\ {acc[i] : i \in 1..Len(acc)} \subseteq U
  /\ Len(acc) = (IF Cardinality(U) < E THEN Cardinality(U) ELSE E)
  /\ \A u \in U : u.id \in IdsOf(acc) \/ \A i \in 1..Len(acc) : acc[i].id < u.id

\* ---------------------------------------------------------------- sealer sequence
\* (6.25) outside-in
Z(s) == [i \in 1..Len(s) |-> IF i % 2 = 1 THEN s[(i + 1) \div 2] ELSE s[Len(s) - (i \div 2) + 1]]
\* inverse of Z (for "is the outside-in ordering of SOME full accumulator")
UnZ(z) == LET L == Len(z) IN
          [j \in 1..L |-> IF j <= (L + 1) \div 2 THEN z[2 * j - 1] ELSE z[2 * (L - j + 1)]]

UseTickets(ga, e, e2, m, E, Y) == e2 = e + 1 /\ m >= Y /\ Len(ga) = E

\* (6.26) with an index function idx(i) in 0..V-1 for the hash-derived validator index
Fallback(idx, kappa, E) == [i \in 1..E |-> kappa[idx[i] + 1]]

\* gamma_s is a record [t |-> tickets, k |-> keys]; exactly one of them non-empty
Tks(s) == [t |-> s, k |-> <<>>]
Kys(s) == [t |-> <<>>, k |-> s]

\* (6.28)
HasTicketsMark(ga, e, e2, m, m2, E, Y) == e2 = e /\ m < Y /\ m2 >= Y /\ Len(ga) = E

\* ---------------------------------------------------------------- entropy and keys
EtaNext(eta, eta0p, e, e2) == IF e2 > e THEN <<eta0p, eta[1], eta[2], eta[3]>>
                              ELSE <<eta0p, eta[2], eta[3], eta[4]>>
\* which PRIOR entropy is eta'_2 (index into the prior buffer, 0-based as in the paper)
Eta2Index(e, e2) == IF e2 > e THEN 1 ELSE 2

\* (6.14) offenders' keys are replaced by the null key (0)
Phi(iota, off) == [i \in 1..Len(iota) |-> IF iota[i] \in off THEN 0 ELSE iota[i]]

\* ---------------------------------------------------------------- numbers from hashes
RECURSIVE ModAccS(_, _, _, _)
ModAccS(b, i, m, rem) == IF i = 0 THEN rem ELSE ModAccS(b, i - 1, m, (rem * 256 + b[i]) % m)
\* (little-endian byte sequence b) mod m, 0 < m < 2^23
ModLES(b, m) == ModAccS(b, Len(b), m, 0)
RECURSIVE LEs(_, _)
LEs(x, n) == IF n = 0 THEN <<>> ELSE <<x % 256>> \o LEs(x \div 256, n - 1)
=============================================================================

------------------------- MODULE RecentHistory_Trace -------------------------
(* V-step for C25 (stateful: one history per Reset).  All hashes are 32-byte         *)
(* sequences; want_* are the specification's terms evaluated by the driver with real *)
(* Keccak; an absent MMR peak is the empty sequence.  Events:                        *)
(*  Reset api hist belt          api "fn": the functions of recent_history called     *)
(*                               one by one; "stf": STFBetaH2BetaHDagger +            *)
(*                               STFBetaHDagger2BetaHPrime on the chain-state singleton*)
(*                               "tv": STFBetaHDagger2BetaHPrime_ForTestVector (header hash  *)
(*                               taken from Header.Parent, commitment supplied = want_b,       *)
(*                               belt maintained outside: got_belt echoes want_belt)           *)
(*  Block hh proot gs outs want_mroot want_belt want_b                                *)
(*        got_dagger got_ser got_mroot got_belt got_b got_p got_hist   (fn)           *)
(*        got_dagger got_belt got_hist                                 (stf)          *)
(*  Sibling (same fields + prior): the same prior OBJECTS used again, for a sibling   *)
(*        block with the same parent state root and for the first block once more     *)
(*  prior_mut (the PRIOR history was modified in place) and old_changed (a window     *)
(*  returned earlier differs now) are informational (C26): on the unchanged tree the  *)
(*  dagger step writes the parent state root into the prior window's newest entry.    *)
(*  old_struct (an earlier window differs beyond its newest entry's state root) must  *)
(*  be 0.                                                                             *)
EXTENDS Bytes, SequencesExt, Json, TLC
CONSTANTS TraceFile, ResultFile, KnownDeviations
VARIABLES hist, belt, l,
          phist, pbelt      \* the state before the last Block (the logical prior of its siblings)
H == 8
Zero32 == Zeros(32)

\* the byte-level part of RecentHistory.tla (no hashing involved)
Dagger(hs, proot) == IF hs = <<>> THEN hs ELSE [hs EXCEPT ![Len(hs)].s = proot]
SortByHash(ps) == SortSeq(ps, LAMBDA a, b : CmpLex(a.hash, b.hash) < 0)
LastN(s, k) == IF Len(s) <= k THEN s ELSE SubSeq(s, Len(s) - k + 1, Len(s))
HistNext(hs, hh, proot, ps, b) == LastN(Append(Dagger(hs, proot), [h |-> hh, s |-> Zero32, b |-> b, p |-> SortByHash(ps)]), H)

Trace == ndJsonDeserialize(TraceFile)
e == Trace[l]
Is(name) == l <= Len(Trace) /\ e.ev = name /\ l' = l + 1
Distinct(ps) == \A i \in 1..Len(ps), j \in 1..Len(ps) : i # j => ps[i].hash # ps[j].hash

TReset == Is("Reset") /\ hist' = e.hist /\ belt' = e.belt /\ phist' = e.hist /\ pbelt' = e.belt
\* what one transition from the window h must produce
StepOk(h) ==
  /\ e.panic = "" /\ e.err = ""
  /\ Distinct(e.gs)
  /\ e.old_struct = 0            \* no window returned earlier was rewritten (beyond the newest entry's state root)
  /\ e.got_dagger = Dagger(h, e.proot)
  /\ e.got_belt = e.want_belt
  /\ (e.api = "fn" =>
        /\ e.got_ser = [i \in 1..Len(e.outs) |-> e.outs[i].s \o e.outs[i].h]
        /\ e.got_mroot = e.want_mroot
        /\ e.got_b = e.want_b
        /\ e.got_p = SortByHash(e.gs))
  /\ Len(e.got_hist) <= H
  /\ e.got_hist = HistNext(h, e.hh, e.proot, e.gs, e.want_b)
TBlock == /\ Is("Block") /\ StepOk(hist)
          /\ phist' = hist /\ pbelt' = belt
          /\ hist' = e.got_hist /\ belt' = e.got_belt
\* a second / third transition from the SAME prior objects (sibling block on the same parent, then the first
\* block again): judged against the logical prior, i.e. the value the prior had before the first transition
TSibling == /\ Is("Sibling") /\ e.prior = phist /\ StepOk(phist)
            /\ UNCHANGED <<hist, belt, phist, pbelt>>

TraceInit == l = 1 /\ hist = <<>> /\ belt = <<>> /\ phist = <<>> /\ pbelt = <<>>
TraceNext == TReset \/ TBlock \/ TSibling
TraceSpec == TraceInit /\ [][TraceNext]_<<hist, belt, l, phist, pbelt>>
Report == (l = Len(Trace) + 1) => JsonSerialize(ResultFile, [n |-> l - 1, devs |-> <<>>, bad |-> <<>>])
=============================================================================

---------------------------- MODULE AccQueue_Gen ----------------------------
(* G-step for C21: TLC enumerates dependency graphs and short histories as input     *)
(* cases for harness/accqueue.  Cases are INPUTS only; AccQueue_Trace recomputes      *)
(* every expected value from the recorded inputs.                                     *)
(*                                                                                    *)
(* Families (constant Family), each an arithmetic enumeration i = Lo, Lo+Stride, ..   *)
(* <= Hi of an index space, so that the check can shard and sample it (Family "mix"   *)
(* = a seeded 1-in-N sample of all of them in one run, used by the quick tier):       *)
(*  "g3"  all sequences of exactly 3 reports over the 96-report universe               *)
(*        (hash in {h1,h2,h3} x dependencies any subset of {h1,h2,h3,ha,hu}):          *)
(*        cycles, self-dependencies, duplicate hashes, dependencies on an              *)
(*        accumulated hash (ha, or h1 in init 7) and on an unknown one (hu).           *)
(*        96^3 = 884736 indices; init state, E, gap, n and the pre/lookup division     *)
(*        are a deterministic mix of the index and Seed.                               *)
(*  "g2"  all sequences of 0..2 reports (9313) x all 8 initial states: 74504 indices   *)
(*  "g2s" all sequences of 0..2 reports over hash {h1,h2} x deps subset {h1,h2,ha}     *)
(*        with EVERY division of the dependencies into prerequisite / lookup / both     *)
(*  "g4"  all sequences of 4 reports over hash {h1..h4} x at most one dependency in    *)
(*        {h1..h4}: 20^4 = 160000 indices                                              *)
(*  "h2"  two-block histories over the 12-report universe (3 hashes x at most one      *)
(*        dependency), 0..2 reports per block, gaps {1,2,E-1,E,E+1}, E = 3             *)
EXTENDS Integers, Sequences, FiniteSets, Json, TLC
CONSTANTS OutFile, Family, Lo, Hi, Stride, Seed
VARIABLE x

HS == <<"h1", "h2", "h3", "h4">>
DT5 == <<"h1", "h2", "h3", "ha", "hu">>
Bit(n, b) == (n \div (2 ^ b)) % 2

\* dependencies (as a sequence of names) selected by the bits of `bits` from the table dt
DepsOf(bits, dt) == SelectSeq(dt, LAMBDA s : \E b \in 0..(Len(dt) - 1) : dt[b + 1] = s /\ Bit(bits, b) = 1)

\* division of a dependency sequence into prerequisites and lookup keys: kind 0 = prerequisite,
\* 1 = lookup, 2 = both; the kind of dependency number j is digit j of `kinds` in base 3
Kind(kinds, j) == (kinds \div (3 ^ (j - 1))) % 3
PreOf(ds, kinds) == LET idx == {j \in 1..Len(ds) : Kind(kinds, j) # 1} IN SelectSeq(ds, LAMBDA s : \E j \in idx : ds[j] = s)
LookOf(ds, kinds) == LET idx == {j \in 1..Len(ds) : Kind(kinds, j) # 0} IN SelectSeq(ds, LAMBDA s : \E j \in idx : ds[j] = s)

Report(id, h, ds, kinds) == [id |-> id, h |-> h, pre |-> PreOf(ds, kinds), look |-> LookOf(ds, kinds)]
\* the same for the 5-target table, tabulated once (TLC evaluates constant definitions once)
Tab5 == [bits \in 0..31 |-> [kinds \in 0..242 |->
           LET ds == DepsOf(bits, DT5) IN [pre |-> PreOf(ds, kinds), look |-> LookOf(ds, kinds)]]]
Record(id, h, ds) == [id |-> id, h |-> h, pre |-> ds, look |-> <<>>, d |-> ds]

\* report number r (0..95) of the 96-report universe
Rep96(id, r, kinds) == LET t == Tab5[r \div 3][kinds % 243] IN [id |-> id, h |-> HS[(r % 3) + 1], pre |-> t.pre, look |-> t.look]
\* report number r (0..11) of the 12-report universe: hash r % 3, dependency none / h1 / h2 / h3
Rep12(id, r, kinds) == Report(id, HS[(r % 3) + 1], IF r \div 3 = 0 THEN <<>> ELSE <<HS[r \div 3]>>, kinds)
\* report number r (0..19): hash r % 4 of {h1..h4}, dependency none / h1..h4
Rep20(id, r, kinds) == Report(id, HS[(r % 4) + 1], IF r \div 4 = 0 THEN <<>> ELSE <<HS[r \div 4]>>, kinds)

\* ---- initial states (all satisfy QueueClean) -------------------------------------
RA == Record(101, "hq", <<"h1">>)          \* waits for h1
RB == Record(102, "h3", <<"h2">>)          \* same hash as an arriving report, waits for h2
RC == Record(103, "hr", <<"hq">>)          \* waits for RA
RZ == [id |-> 104, h |-> "hz", pre |-> <<"h1">>, look |-> <<>>, d |-> <<>>]   \* ready, left over from an earlier block
Gap(E, g) == IF g = 0 THEN 1 ELSE IF g = 1 THEN 2 ELSE IF g = 2 THEN E - 1 ELSE IF g = 3 THEN E ELSE E + 1
At(E, f) == [i \in 1..E |-> IF i \in DOMAIN f THEN f[i] ELSE <<>>]
InitState(k, E, slot) ==
  LET p(off) == ((slot + off) % E) + 1          \* 1-based position of slot phase m + off
      none == [i \in 1..E |-> <<>>]
  IN CASE k = 0 -> [xi |-> none, th |-> none]
       [] k = 1 -> [xi |-> At(E, E :> <<"ha">>), th |-> none]
       [] k = 2 -> [xi |-> At(E, 1 :> <<"ha">>), th |-> At(E, p(1) :> <<RA>>)]
       [] k = 3 -> [xi |-> At(E, E :> <<"ha">>), th |-> At(E, p(0) :> <<RA>> @@ p(E - 1) :> <<RB>>)]
       [] k = 4 -> [xi |-> At(E, 2 :> <<"ha", "hx">>), th |-> At(E, p(1) :> <<RC, RA>> @@ p(2) :> <<RZ>>)]
       [] k = 5 -> [xi |-> none, th |-> At(E, p(E - 1) :> <<RA>> @@ p(1) :> <<RB, RZ>>)]
       [] k = 6 -> [xi |-> none, th |-> At(E, p(2) :> <<RA>> @@ p(1) :> <<RC>>)]
       [] OTHER -> [xi |-> At(E, E :> <<"h1">>), th |-> none]

NSel(j) == IF j = 0 THEN 0 ELSE IF j = 1 THEN 1 ELSE IF j = 2 THEN 2 ELSE 99

OneBlock(E, tau, k, g, W, n) ==
  LET slot == tau + Gap(E, g)
      s == InitState(k, E, slot)
  IN [E |-> E, tau |-> tau, xi |-> s.xi, th |-> s.th, api |-> "fn",
      blocks |-> <<[slot |-> slot, W |-> W, n |-> n]>>]

\* ---- families ---------------------------------------------------------------------
G3(i) == LET j == i - 1
             r1 == j \div 9216   r2 == (j \div 96) % 96   r3 == j % 96
             c == r1 * 7 + r2 * 31 + r3 * 57 + Seed * 13
             E == IF (c \div 8) % 2 = 0 THEN 3 ELSE 12
         IN OneBlock(E, 5 + (c % 11), c % 8, (c \div 16) % 5,
                     <<Rep96(1, r1, c \div 5), Rep96(2, r2, c \div 7), Rep96(3, r3, c \div 11)>>,
                     NSel(IF (c \div 80) % 4 = 0 THEN (c \div 320) % 3 ELSE 3))

\* 0..2 reports: index w in 0..9312 (0 = none, 1..96 = one, 97.. = two)
W2(w, c) == IF w = 0 THEN <<>>
            ELSE IF w <= 96 THEN <<Rep96(1, w - 1, c)>>
            ELSE <<Rep96(1, (w - 97) \div 96, c), Rep96(2, (w - 97) % 96, c \div 3)>>
G2(i) == LET j == i - 1
             k == j % 8   w == j \div 8
             c == w * 5 + k * 3 + Seed * 7
             E == IF c % 2 = 0 THEN 3 ELSE 12
         IN OneBlock(E, 3 + (c % 13), k, (c \div 2) % 5, W2(w, c \div 10), NSel(IF (c \div 7) % 3 = 0 THEN (c \div 21) % 3 ELSE 3))

\* every division into prerequisite / lookup / both: hash {h1,h2} x deps subset {h1,h2,ha};
\* a report is (hash, bits 0..7, kinds 0..26): 2*8*27 = 432 reports (divisions of absent deps repeat)
DT3 == <<"h1", "h2", "ha">>
Rep432(id, r) == Report(id, HS[(r % 2) + 1], DepsOf((r \div 2) % 8, DT3), r \div 16)
G2S(i) == LET j == i - 1
              k == j % 2      w == j \div 2
              W == IF w = 0 THEN <<>> ELSE IF w <= 432 THEN <<Rep432(1, w - 1)>>
                   ELSE <<Rep432(1, (w - 433) \div 432), Rep432(2, (w - 433) % 432)>>
              c == w + Seed
          IN OneBlock(IF c % 2 = 0 THEN 3 ELSE 12, 4 + (c % 9), IF k = 0 THEN 1 ELSE 3, (c \div 2) % 5, W, 99)

G4(i) == LET j == i - 1
             r1 == j \div 8000   r2 == (j \div 400) % 20   r3 == (j \div 20) % 20   r4 == j % 20
             c == r1 * 7 + r2 * 31 + r3 * 57 + r4 * 3 + Seed * 13
             E == IF (c \div 3) % 2 = 0 THEN 3 ELSE 12
         IN OneBlock(E, 5 + (c % 11), IF c % 3 = 0 THEN 0 ELSE IF c % 3 = 1 THEN 5 ELSE 7, (c \div 16) % 5,
                     <<Rep20(1, r1, c), Rep20(2, r2, c \div 3), Rep20(3, r3, c \div 9), Rep20(4, r4, c \div 27)>>,
                     NSel(IF (c \div 80) % 4 = 0 THEN (c \div 320) % 3 ELSE 3))

\* two-block histories, E = 3: block = (w in 0..156, gap index 0..4); first block n in {all, 1}
W12(w, id0, c) == IF w = 0 THEN <<>>
                  ELSE IF w <= 12 THEN <<Rep12(id0, w - 1, c)>>
                  ELSE <<Rep12(id0, (w - 13) \div 12, c), Rep12(id0 + 1, (w - 13) % 12, c \div 3)>>
H2(i) == LET j == i - 1
             b1 == j % 1570        b2 == j \div 1570          \* b1 in 0..1569, b2 in 0..784
             w1 == b1 % 157   g1 == (b1 \div 157) % 5   n1 == b1 \div 785
             w2 == b2 % 157   g2 == b2 \div 157
             c == j + Seed
             s1 == 2 + Gap(3, g1)
         IN [E |-> 3, tau |-> 2, xi |-> <<<<>>, <<>>, <<>>>>, th |-> <<<<>>, <<>>, <<>>>>, api |-> (IF c % 5 = 0 THEN "stf" ELSE "fn"),
             blocks |-> <<[slot |-> s1, W |-> W12(w1, 1, c), n |-> (IF n1 = 0 \/ c % 5 = 0 THEN 99 ELSE 1)],
                          [slot |-> s1 + Gap(3, g2), W |-> W12(w2, 3, c \div 9), n |-> 99]>>]

SizeOf(f) == CASE f = "g3" -> 884736 [] f = "g2" -> 74504 [] f = "g2s" -> 374114
               [] f = "g4" -> 160000 [] f = "h2" -> 1232450 [] OTHER -> 0
CaseAtF(f, i) == CASE f = "g3" -> G3(i) [] f = "g2" -> G2(i) [] f = "g2s" -> G2S(i)
                   [] f = "g4" -> G4(i) [] f = "h2" -> H2(i)

\* one family: indices Lo, Lo+Stride, .. <= Hi
Top == IF Hi > SizeOf(Family) THEN SizeOf(Family) ELSE Hi
Count == IF Top < Lo THEN 0 ELSE ((Top - Lo) \div Stride) + 1
OneFamily == [j \in 1..Count |-> CaseAtF(Family, Lo + (j - 1) * Stride)]

\* Family = "mix" (quick tier): a seeded 1-in-N sample of every family in one run
SampleOf(f, stride) == LET off == (Seed * 7919) % stride
                           first == IF off = 0 THEN stride ELSE off
                           cnt == ((SizeOf(f) - first) \div stride) + 1
                       IN [j \in 1..cnt |-> CaseAtF(f, first + (j - 1) * stride)]
Mix == SampleOf("g2", 17) \o SampleOf("g3", 293) \o SampleOf("g2s", 251) \o SampleOf("g4", 127) \o SampleOf("h2", 1201)

Cases == IF Family = "mix" THEN Mix ELSE OneFamily

ASSUME ndJsonSerialize(OutFile, Cases)
ASSUME PrintT(<<"GEN", Family, Len(Cases)>>)
GenInit == x = 0
GenNext == FALSE /\ x' = x
=============================================================================

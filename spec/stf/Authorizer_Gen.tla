--------------------------- MODULE Authorizer_Gen ---------------------------
(* G-step for C24: TLC enumerates the input partition of the pool transition.       *)
(* A case is  [cores, nilempty, slot, prior, gs, q]:                                *)
(*   prior : one pool (sequence of names) per core                                  *)
(*   gs    : guarantees [core, auth] in extrinsic order                             *)
(*   q     : one queue descriptor per core (see Authorizer!QueueAt)                 *)
(*   slot  : 4 little-endian bytes                                                  *)
(*   nilempty = 1: empty pools are handed over as nil slices (what the decoder      *)
(*   produces for an empty pool), 0: as empty non-nil slices                        *)
(* Names stand for 32-byte hashes (driver: ASCII, zero padded; "" is the zero hash).*)
EXTENDS Integers, Sequences, FiniteSets, SequencesExt, Json, TLC
CONSTANTS OutFile, Tier, Seed
VARIABLE x
O == 8
Q == 80
Cores == {0, 1}
Syms == {}
GSyms == {}
QSyms == {}
MaxG == 0
MaxSlot == 0
alpha == <<>>
inp == <<>>
INSTANCE Authorizer

ABC == {"a", "b", "c"}
\* names that differ in the last / the first byte only, and the zero hash
L1 == "mmmmmmmmmmmmmmmmmmmmmmmmmmmmmmm1"
L2 == "mmmmmmmmmmmmmmmmmmmmmmmmmmmmmmm2"
F1 == "1mmmmmmmmmmmmmmmmmmmmmmmmmmmmmmm"
Near == {"", L1, L2, F1}

Slots == << <<0, 0, 0, 0>>, <<1, 0, 0, 0>>, <<79, 0, 0, 0>>, <<80, 0, 0, 0>>, <<81, 0, 0, 0>>, <<159, 0, 0, 0>>,
            <<255, 255, 255, 127>>, <<0, 0, 0, 128>>, <<1, 0, 0, 128>>, <<255, 255, 255, 255>>, <<254, 255, 255, 255>>,
            <<0, 1, 0, 0>>, <<0, 0, 1, 0>>, <<7, 0, 0, 0>>, <<8, 0, 0, 0>>, <<57, 48, 0, 0>>, <<64, 226, 1, 0>> >>
Code(h) == IF h = "a" THEN 1 ELSE IF h = "b" THEN 2 ELSE IF h = "c" THEN 3 ELSE IF h = "" THEN 5 ELSE 4
RECURSIVE Mix(_)
Mix(p) == IF p = <<>> THEN 7 ELSE (Code(Head(p)) + 5 * Mix(Tail(p))) % 1009
SlotFor(p, k) == Slots[((Mix(p) + k) % Len(Slots)) + 1]

Plain(tag) == [tag |-> tag, per |-> <<>>, over |-> <<>>]
\* queue whose entry selected by `slot` is h, every other entry distinct
Selecting(tag, slot, h) == [tag |-> tag, per |-> <<>>, over |-> <<[i |-> SlotMod(slot, Q), h |-> h]>>]

Pools(S, n) == UNION {[1..k -> S] : k \in 0..n}
GOpts(S) == {<<>>} \cup {<<[core |-> 0, auth |-> h]>> : h \in S}

\* family E (DESIGN C24): every pool over three names x guarantee {a,b,c,absent,none} x queue entry {a,d};
\* core 1 carries the reversed pool and no guarantee (frame)
CaseE(p, g, qe, ne) == LET s == SlotFor(p, Len(g) + Code(qe)) IN
  [cores |-> 2, nilempty |-> ne, slot |-> s, prior |-> <<p, Reverse(p)>>, gs |-> g,
   q |-> <<Selecting("q", s, qe), Plain("r")>>]
FamE(PS) == {CaseE(p, g, qe, (Len(p) + Len(g)) % 2) : p \in PS, g \in GOpts(ABC \cup {"z"}), qe \in {"a", "d"}}
\* family F: the guarantee names core 1; core 0 must only shift; no override: the selected entry is the distinct base name
FamF(PS) == {[cores |-> 2, nilempty |-> 0, slot |-> SlotFor(p, 3), prior |-> <<p, <<"b", "a", "b">> >>,
             gs |-> <<[core |-> 1, auth |-> h]>>, q |-> <<Plain("q"), Plain("q")>>] : p \in PS, h \in {"a", "b", "z"}}
\* family N: near-colliding names and the zero hash
FamN == {[cores |-> 2, nilempty |-> 0, slot |-> SlotFor(p, 1), prior |-> <<p, <<>> >>, gs |-> <<[core |-> 0, auth |-> h]>>,
          q |-> <<Selecting("q", SlotFor(p, 1), qe), Plain("r")>>] : p \in Pools(Near, 3), h \in Near, qe \in {"", L2}}
\* family M: two guarantees on one core (outside the Gray Paper's one-per-core rule, inside the statement's wording)
FamM == {[cores |-> 2, nilempty |-> 0, slot |-> SlotFor(p, 2), prior |-> <<p, p>>,
          gs |-> <<[core |-> 0, auth |-> h1], [core |-> 1, auth |-> h1], [core |-> 0, auth |-> h2]>>,
          q |-> <<Plain("q"), Selecting("r", SlotFor(p, 2), "b")>>] : p \in Pools({"a", "b"}, 5), h1 \in {"a", "b", "z"}, h2 \in {"a", "b", "z"}}
\* family P: periodic queues (period does not divide Q) at every listed slot; full pools
FamP == {[cores |-> 2, nilempty |-> 0, slot |-> Slots[k], prior |-> << <<"a", "b", "c", "a", "b", "c", "a", "b">>, <<"a">> >>, gs |-> g,
          q |-> <<[tag |-> "q", per |-> per, over |-> <<>>], Plain("r")>>]
         : k \in 1..Len(Slots), g \in GOpts({"a", "c", "z"}), per \in {<<"a", "b", "c">>, <<"d", "e", "f", "g", "h", "i", "j">>, <<"a">>}}
\* family R: RemoveLeftMostPairedValue alone
FamR(PS) == {[ev |-> "Remove", pool |-> p, h |-> h] : p \in PS, h \in ABC \cup {"z"}}

Pick(S, n) == LET qq == SetToSeq(S) IN {qq[i] : i \in {j \in 1..Len(qq) : (j + Seed) % n = 0}}
P8 == Pools(ABC, 8)
P3 == Pools(ABC, 3)
\* quick tier: all pools of length <= 3, a seed-dependent sample of lengths 5..6 and of lengths 7..8
\* (built as concatenations, so that the 9 841-element P8 is never enumerated)
Exact(S, k) == [1..k -> S]
LongQ == {p \o q : p \in Pick(Exact(ABC, 4), 7), q \in Pick(Exact(ABC, 4) \cup Exact(ABC, 3), 11)}
PQ == P3 \cup LongQ \cup Pick(Exact(ABC, 5) \cup Exact(ABC, 6), 30)
Blocks == IF Tier = "thorough" THEN FamE(P8) \cup FamF(Pools(ABC, 6)) \cup FamN \cup FamM \cup FamP
          ELSE FamE(PQ) \cup FamF(Pools(ABC, 2) \cup Pick(PQ, 3)) \cup Pick(FamN, 6) \cup Pick(FamM, 5) \cup Pick(FamP, 2)
Removes == IF Tier = "thorough" THEN FamR(P8) ELSE FamR(PQ)

ASSUME ndJsonSerialize(OutFile, SetToSeq({[ev |-> "Block"] @@ c : c \in Blocks}) \o SetToSeq(Removes))
ASSUME PrintT(<<"GEN", Cardinality(Blocks), Cardinality(Removes)>>)
GenInit == x = 0
GenNext == FALSE /\ x' = x
=============================================================================

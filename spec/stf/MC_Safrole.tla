----------------------------- MODULE MC_Safrole -----------------------------
(* Model-checking instance of Safrole; constants come from checks/c23.py.          *)
EXTENDS Safrole
KindsFull == {[att |-> 0, pf |-> TRUE], [att |-> 1, pf |-> TRUE], [att |-> N, pf |-> TRUE], [att |-> 0, pf |-> FALSE]}
KindsSmall == {[att |-> 0, pf |-> TRUE], [att |-> N, pf |-> TRUE]}
KindsOk == {[att |-> 0, pf |-> TRUE]}
=============================================================================

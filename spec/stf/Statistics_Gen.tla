--------------------------- MODULE Statistics_Gen ---------------------------
(* G-step for C34.  Cases for harness/statistics (format: its header).               *)
(*  A  systematic single-block partition under the tiny parameters (V=6, C=2, E=12,   *)
(*     R=4), alternatives applied to one prior state (adv = 0): author x guarantee     *)
(*     shape (none / one / two; rotation of the guarantee's slot the same as or        *)
(*     before that of the block; signer sets) x slot (same epoch; first rotation of    *)
(*     the next epoch, where the previous rotation belongs to lambda'; later in the    *)
(*     next epoch; an epoch skipped) with assurances, preimages, available reports     *)
(*     and accumulation statistics varied alongside;                                   *)
(*  H  seeded block histories (adv = 1) over several epochs under V=3 / tiny / full    *)
(*     (V=1023, C=341, E=600, R=10) parameters from a linear-congruential stream.      *)
(* kappa' and lambda' overlap with shifted positions, so that a signer's key under     *)
(* lambda' sits at another index of kappa' (or nowhere).                               *)
EXTENDS StatisticsDefs, SequencesExt, Json, TLC
CONSTANTS OutFile, Tier, Seed
VARIABLE x

PT == [V |-> 6, C |-> 2, E |-> 12, R |-> 4]
P3 == [V |-> 3, C |-> 2, E |-> 4, R |-> 2]
PF == [V |-> 1023, C |-> 341, E |-> 600, R |-> 10]
Thorough == Tier = "thorough"

Nx(r) == (r * 75 + 74) % 65537
RECURSIVE NxN(_, _)
NxN(r, k) == IF k = 0 THEN r ELSE NxN(Nx(r), k - 1)
\* j-th value of a stream derived from r, in constant time (j may be large)
Hj(r, j) == Nx(Nx((r + 131 * j) % 65537))

\* key set number k: position i holds key 10 + ((i + 2k) mod (V + 3)): consecutive sets share keys at shifted positions
KeySet(P, k) == [i \in 1..P.V |-> 10 + ((i + 2 * k) % (P.V + 3))]
GasOf(r) == <<r % 256, (r \div 7) % 256, (r \div 3) % 256, r % 251, (r * 3) % 256, r % 199, r % 97, 0>>
\* r: the digest's result kind (ok or one of the six errors); the statistics sum the refine load of EVERY digest
\* whatever its result (13.9, 13.16), so the specification never looks at r - the driver sets it on the report
Kinds == <<"ok", "out-of-gas", "panic", "bad-exports", "output-oversize", "bad-code", "code-oversize">>
Dg(s, i, xx, z, e, u, k) == [s |-> s, i |-> i, x |-> xx, z |-> z, e |-> e, u |-> u, r |-> Kinds[(k % 7) + 1]]
ValRec(b, t, p, d, g, a) == <<b, t, p, d, g, a>>

Blk(P, slot, author, nt, pre, gs, as, avail, acc, k, adv) ==
  [slot |-> slot, author |-> author, nt |-> nt, adv |-> adv, pre |-> pre, gs |-> gs, as |-> as, avail |-> avail, acc |-> acc,
   kappa |-> KeySet(P, k), lambda |-> KeySet(P, k - 1)]
Hist(P, tau, piV, piL, blocks) == [ev |-> "Hist", P |-> P, init |-> [tau |-> tau, piV |-> piV, piL |-> piL], blocks |-> blocks]

\* ---------------------------------------------------------------- family A
PriorV == <<ValRec(3, 4, 1, 17, 2, 5), ValRec(0, 0, 0, 0, 0, 0), ValRec(1, 0, 2, 300, 7, 1),
            ValRec(2147480000, 2147480001, 2147480002, 2147400000, 2147480004, 2147480005), ValRec(9, 9, 9, 9, 9, 9), ValRec(0, 1, 0, 1, 0, 1)>>
PriorL == <<ValRec(1, 1, 1, 1, 1, 1), ValRec(2, 2, 2, 2, 2, 2), ValRec(0, 0, 0, 0, 0, 0), ValRec(5, 0, 5, 0, 5, 0), ValRec(7, 7, 7, 7, 7, 7), ValRec(8, 1, 8, 1, 8, 1)>>
TauA == 30                     \* epoch 2, phase 6, rotation 7
SlotsA == <<31, 32, 36, 37, 40, 44, 48, 61>>   \* same rotation / next rotation / epoch 3 first rotation / later / epoch 5
\* j rotates the result kinds through the digests, so that every kind meets non-zero i, x, z, e, u
ResA(k, j) == IF k = 0 THEN <<Dg(5, 1 + j, 2, 30 + j, 4 + j, GasOf(1000 + j), j)>>
              ELSE <<Dg(5, 3, 1, 7, 6 + j, GasOf(65000), j + 1), Dg(70000, 2, 3, 5, 7, GasOf(9), j + 2),
                     Dg(5, 100, 20, 1000000, 300, <<255, 255, 255, 255, 1, 0, 0, 0>>, j + 3), Dg(9, 11, 13, 17, 19, GasOf(23 + j), j + 4)>>
GA(slot, core, sigs, k) == [slot |-> slot, core |-> core, sigs |-> sigs, len |-> 1000 + 17 * core + k, nexp |-> 3 * core + k,
                            res |-> ResA((core + k) % 2, slot + 2 * k + 3 * core + sigs[1])]
SigsA == << <<0, 1>>, <<2, 5>>, <<0, 3, 4>>, <<1, 2, 3>> >>
GsA(slot) ==
  << <<>> >>
  \o [j \in 1..16 |-> LET t == IF j % 2 = 0 THEN slot ELSE (slot \div PT.R) * PT.R - 1
                          c == (j \div 2) % 2
                          q == SigsA[((j - 1) \div 4) + 1] IN <<GA(t, c, q, j % 3)>>]
  \o [j \in 1..8 |-> LET t1 == IF j % 2 = 0 THEN slot ELSE (slot \div PT.R) * PT.R - 1
                         t2 == IF j % 4 < 2 THEN slot ELSE (slot \div PT.R) * PT.R - 2 IN
                     <<GA(t1, 0, SigsA[(j % 4) + 1], 1), GA(t2, 1, SigsA[((j + 1) % 4) + 1], 2)>>]
AsA == << <<>>, <<[v |-> 0, bits |-> <<1, 0>>]>>, <<[v |-> 5, bits |-> <<0, 1>>]>>,
          <<[v |-> 1, bits |-> <<1, 1>>], [v |-> 2, bits |-> <<1, 0>>]>>,
          [v \in 1..6 |-> [v |-> v - 1, bits |-> <<v % 2, 1>>]],
          <<[v |-> 3, bits |-> <<0, 0>>], [v |-> 4, bits |-> <<0, 1>>], [v |-> 5, bits |-> <<1, 1>>]>> >>
PreA == << <<>>, <<<<5, 10>>>>, <<<<5, 0>>, <<9, 77>>, <<5, 1000>>>>, <<<<2147483647, 33>>, <<70000, 4104>>>> >>
AvailA == << <<>>, <<[core |-> 0, len |-> 500, nexp |-> 0]>>, <<[core |-> 1, len |-> 1, nexp |-> 64]>>,
             <<[core |-> 0, len |-> 12345, nexp |-> 1]>> \o <<[core |-> 1, len |-> 0, nexp |-> 65]>> >>
AccA == << <<>>, <<[s |-> 5, n |-> 2, u |-> GasOf(4242)]>>, <<[s |-> 0, n |-> 0, u |-> GasOf(0)], [s |-> 123456, n |-> 16, u |-> <<0, 0, 0, 0, 0, 0, 0, 16>>]>> >>
EpochOfA(slot) == slot \div PT.E
AltA(j, author, slot, gs) ==
  Blk(PT, slot, author, (j * 5) % 4, PreA[(j % 4) + 1], gs, AsA[(j % 6) + 1], AvailA[((j \div 2) % 4) + 1], AccA[((j \div 3) % 3) + 1],
      3 + EpochOfA(slot) - EpochOfA(TauA), 0)
AltsA1 == LET pick == IF Thorough THEN 1 ELSE 4 IN
          Flatten([si \in 1..Len(SlotsA) |->
             LET gsl == GsA(SlotsA[si]) IN
             [j \in 1..(6 * Len(gsl)) |-> AltA(j + si, (j - 1) % 6, SlotsA[si], gsl[((j - 1) \div 6) + 1])]])
AltsA2 == [j \in 1..(6 * 6 * 4 * 4) |->
             Blk(PT, SlotsA[(j % 8) + 1], j % 6, j % 3, PreA[((j \div 36) % 4) + 1], <<>>, AsA[((j \div 6) % 6) + 1],
                 AvailA[((j \div 144) % 4) + 1], AccA[(j % 3) + 1], 3 + EpochOfA(SlotsA[(j % 8) + 1]) - EpochOfA(TauA), 0)]
PickSeq(q, n) == IF n <= 1 THEN q ELSE LET idx == SelectSeq([i \in 1..Len(q) |-> i], LAMBDA i : (i + Seed) % n = 0) IN [k \in 1..Len(idx) |-> q[idx[k]]]
FamA == <<Hist(PT, TauA, PriorV, PriorL, PickSeq(AltsA1, IF Thorough THEN 1 ELSE 3) \o PickSeq(AltsA2, IF Thorough THEN 1 ELSE 5))>>

\* ---------------------------------------------------------------- family H
\* k distinct values of 0..(n-1), ascending, spread by a stride
Spread(n, k, r1, r2) ==
  IF k = 0 \/ n < k THEN <<>>
  ELSE LET G == IF (n - 1) \div k < 1 THEN 1 ELSE (n - 1) \div k
           g == IF k = 1 THEN 1 ELSE 1 + (r1 % G)
           a == r2 % (n - (k - 1) * g)
       IN [j \in 1..k |-> a + (j - 1) * g]
SvcIds == <<0, 1, 5, 255, 256, 65536, 70000, 16777216, 2147483647>>
GenDigests(r, n) == [j \in 1..n |-> LET q == Hj(r, j) IN
                       Dg(SvcIds[(q % 9) + 1], 1 + (q % 3000), 1 + ((q \div 3) % 128), 1 + ((q * 31) % 5000000), 1 + ((q \div 5) % 3000), GasOf(q * 13 + j), q \div 7)]
GenBlock(P, s, r, maxCores) ==
  LET r1 == Nx(r) r2 == Nx(r1) r3 == Nx(r2) r4 == Nx(r3) r5 == Nx(r4) r6 == Nx(r5) r7 == Nx(r6) r8 == Nx(r7)
      jump == r1 % 10
      dt == IF jump < 6 THEN 1 ELSE IF jump = 6 THEN P.R ELSE IF jump = 7 THEN P.E - (s.tau % P.E) ELSE IF jump = 8 THEN P.E ELSE 2 * P.E + (r2 % P.R)
      slot == s.tau + dt
      k2 == IF slot \div P.E # s.tau \div P.E THEN s.k + 1 ELSE s.k
      ng == IF r2 % 5 = 0 THEN 0 ELSE 1 + (r2 % maxCores)
      cores == Spread(P.C, ng, r3, r4)
      gs == [j \in 1..Len(cores) |->
               LET q == Hj(r5, j)
                   t == IF q % 3 = 0 THEN (slot \div P.R) * P.R - 1 - (q % P.R) ELSE slot - (q % ((slot % P.R) + 1)) IN
               [slot |-> t, core |-> cores[j], sigs |-> Spread(P.V, 2 + (q % 2), q, Nx(q)), len |-> (q * 97) % 10000000, nexp |-> q % 3073,
                res |-> GenDigests(Nx(q), 1 + (q % 4))]]
      na == IF r6 % 4 = 0 THEN 0 ELSE r6 % (P.V + 1)
      avs == Spread(P.V, na, r6, r7)
      as == [j \in 1..Len(avs) |-> [v |-> avs[j], bits |-> [c \in 1..P.C |-> (Hj(r7, j) \div c) % 2]]]
      np == r7 % 4
      pre == [j \in 1..np |-> <<SvcIds[(Hj(r8, j) % 9) + 1], IF Hj(r8, j) % 7 = 0 THEN 0 ELSE Hj(r8, j) % 5000>>]
      avc == Spread(P.C, r8 % (maxCores + 1), r3, r5)
      avail == [j \in 1..Len(avc) |-> [core |-> avc[j], len |-> Hj(r4, j) * 31, nexp |-> Hj(r4, j) % 3073]]
      nacc == r5 % 4
      accs == Spread(9, nacc, r2, r8)
      acc == [j \in 1..Len(accs) |-> [s |-> SvcIds[accs[j] + 1], n |-> Hj(r3, j) % 17, u |-> GasOf(Hj(r3, j) * 7)]]
  IN [blk |-> Blk(P, slot, r4 % P.V, r3 % 17, pre, gs, as, avail, acc, k2, 1), s |-> [tau |-> slot, k |-> k2]]

RECURSIVE GenBlocks(_, _, _, _, _)
GenBlocks(P, s, r, left, maxCores) ==
  IF left = 0 THEN <<>>
  ELSE LET g == GenBlock(P, s, r, maxCores) IN <<g.blk>> \o GenBlocks(P, g.s, NxN(r, 9), left - 1, maxCores)
HistH(P, k, nblocks, maxCores) ==
  LET r0 == NxN((Seed * 211 + k * 13 + P.V) % 65537, 3)
      tau0 == P.E + P.R + (r0 % (3 * P.E))
      z == [v \in 1..P.V |-> IF r0 % 2 = 0 THEN ValRec(0, 0, 0, 0, 0, 0) ELSE ValRec(Hj(r0, v) % 50, Hj(r0, v) % 70, v % 5, Hj(r0, v) % 900, v % 9, Hj(r0, v) % 40)]
  IN Hist(P, tau0, z, [v \in 1..P.V |-> ValRec(v % 4, v % 3, v % 2, v % 11, v % 5, v % 7)], GenBlocks(P, [tau |-> tau0, k |-> 3], r0, nblocks, maxCores))
FamH(P, count, nblocks, maxCores) == [k \in 1..count |-> HistH(P, k, nblocks, maxCores)]

Cases == FamA
         \o FamH(P3, IF Thorough THEN 400 ELSE 25, 16, 2)
         \o FamH(PT, IF Thorough THEN 1500 ELSE 60, 20, 2)
         \o FamH(PF, IF Thorough THEN 4 ELSE 1, IF Thorough THEN 8 ELSE 3, 40)

ASSUME ndJsonSerialize(OutFile, Cases)
ASSUME PrintT(<<"GEN", Len(Cases)>>)
GenInit == x = 0
GenNext == FALSE /\ x' = x
=============================================================================

------------------------------ MODULE Disputes ------------------------------
(* C35: dispute records over a sequence of blocks.  A block carries verdict          *)
(* summaries, culprits and faults; it is applied when the strict reading accepts it  *)
(* (SummaryValid) and leaves the state unchanged otherwise.  Between blocks reports  *)
(* may be placed on cores (Place) so that S4 is exercised.                           *)
EXTENDS DisputesFn, TLC

CONSTANTS V,          \* number of validators
          Reports,    \* report ranks (positive integers)
          Keys,       \* key ranks of kappa and lambda together
          Cores,      \* number of cores
          MaxVerdicts, MaxBlocks,
          CulpritSizes  \* how many culprits a bad verdict may get (subset of {2, 3})

VARIABLES psi, rho, nblk
vars == <<psi, rho, nblk>>

Sums == 0..GoodN(V)
\* two-verdict blocks use the three accepted counts and one rejected representative; every order of
\* targets (sorted, unsorted, repeated) is included
Sums2 == {0, WonkyN(V), GoodN(V), WonkyN(V) + 1}
VSeqs == {<<>>} \cup {<<[t |-> t, s |-> s]>> : t \in Reports, s \in Sums}
         \cup (IF MaxVerdicts < 2 THEN {}
               ELSE {<<[t |-> t1, s |-> s1], [t |-> t2, s |-> s2]>> : t1 \in Reports, t2 \in Reports, s1 \in Sums2, s2 \in Sums2})

\* culprits: per bad verdict a set of 2 or 3 keys; faults: per good verdict one key (vote FALSE),
\* optionally one fault with vote TRUE on a bad verdict
CulpritChoices(bad, free) ==
  {f \in [bad -> {S \in SUBSET free : Cardinality(S) \in CulpritSizes}] :
      \A a, b \in bad : a # b => f[a] \cap f[b] = {}}
FaultChoices(good, free) == {f \in [good -> free] : \A a, b \in good : a # b => f[a] # f[b]}
SeqOfCulprits(f) == LET ks == UNION {f[t] : t \in DOMAIN f}
                        owner(k) == CHOOSE t \in DOMAIN f : k \in f[t]
                        sk == SortSet(ks)
                    IN [i \in 1..Len(sk) |-> [t |-> owner(sk[i]), k |-> sk[i]]]
SeqOfFaults(f, extra) ==
  LET pairs == {[t |-> t, k |-> f[t], v |-> FALSE] : t \in DOMAIN f} \cup extra
      sk == SortSet({p.k : p \in pairs})
  IN [i \in 1..Len(sk) |-> CHOOSE p \in pairs : p.k = sk[i]]

Init == /\ psi = [g |-> <<>>, b |-> <<>>, w |-> <<>>, o |-> <<>>]
        /\ rho = [c \in 1..Cores |-> 0]
        /\ nblk = 0

Place(c, r) == /\ nblk < MaxBlocks /\ rho[c] = 0
               /\ rho' = [rho EXCEPT ![c] = r]
               /\ UNCHANGED <<psi, nblk>>

\* S3: an applied block files every verdict under the class of its count (and has no other count)
ClassOK(vs, p2) == \A i \in 1..Len(vs) :
                     LET c == Class(V, vs[i].s) t == vs[i].t IN
                     /\ c # "reject"
                     /\ (c = "good" => t \in SetOf(p2.g))
                     /\ (c = "bad" => t \in SetOf(p2.b))
                     /\ (c = "wonky" => t \in SetOf(p2.w))
\* S4: no core still holds a report that the block judged bad or wonky; every other core is untouched
ClearedOK(vs, r1, r2) == \A c \in 1..Cores :
                     LET hit == \E i \in 1..Len(vs) : vs[i].t = r1[c] /\ Class(V, vs[i].s) \in {"bad", "wonky"}
                     IN IF r1[c] # 0 /\ hit THEN r2[c] = 0 ELSE r2[c] = r1[c]

Apply(vs, cs, fs) ==
  /\ nblk < MaxBlocks
  /\ nblk' = nblk + 1
  /\ IF SummaryValid(V, psi, vs, cs, fs, Keys)
     THEN /\ psi' = PsiNext(V, psi, vs, cs, fs)
          /\ rho' = RhoDagger(V, rho, vs)
          /\ Assert(ClassOK(vs, psi'), "S3 violated in the model")
          /\ Assert(ClearedOK(vs, rho, rho'), "S4 violated in the model")
     ELSE UNCHANGED <<psi, rho>>

Block ==
  \E vs \in VSeqs :
     LET bad == NewOf(V, vs, "bad")
         good == NewOf(V, vs, "good")
         free == Keys \ SetOf(psi.o)
     IN IF MustReject(V, psi, vs) \/ ~StrictlySorted([i \in 1..Len(vs) |-> vs[i].t])
        THEN Apply(vs, <<>>, <<>>)                      \* refused whatever the culprits and faults are
        ELSE \/ \E cf \in CulpritChoices(bad, free), ff \in FaultChoices(good, free) :
                  \E extra \in {{}} \cup {{[t |-> t, k |-> k, v |-> TRUE]} : t \in bad, k \in free \ {ff[g] : g \in good}} :
                      Apply(vs, SeqOfCulprits(cf), SeqOfFaults(ff, extra))
             \/ Apply(vs, <<>>, <<>>)                   \* no culprits / faults at all

Next == Block \/ \E c \in 1..Cores, r \in Reports : Place(c, r)
Spec == Init /\ [][Next]_vars

\* ---- properties (statement) ----
InvDisjoint == Disjoint(psi)                                  \* S1
InvSorted == AllSorted(psi)                                   \* S1, S2
OffendersGrow == [][SetOf(psi.o) \subseteq SetOf(psi'.o)]_vars                          \* S2
RecordsGrow == [][SetOf(psi.g) \subseteq SetOf(psi'.g) /\ SetOf(psi.b) \subseteq SetOf(psi'.b)
                  /\ SetOf(psi.w) \subseteq SetOf(psi'.w)]_vars
\* a report is filed at most once
InvJudgedOnce == Cardinality(Judged(psi)) = Len(psi.g) + Len(psi.b) + Len(psi.w)
=============================================================================

----------------------------- MODULE DisputesFn -----------------------------
(* C35: dispute records (Gray Paper section 10) as pure functions, shared by the     *)
(* model (Disputes), and the trace judge (Disputes_Trace).                            *)
(*                                                                                   *)
(* Work-report hashes and Ed25519 keys are positive integers: the RANK of the real   *)
(* 32-byte value in bytewise order (the driver keeps the order-preserving            *)
(* bijection), so "sorted" means the same thing on both sides.  0 = empty core.      *)
(*                                                                                   *)
(* psi  = [g, b, w, o]  strictly increasing sequences (the records as exported)      *)
(* vs   = sequence of verdict summaries [t |-> report, s |-> number of positive votes] *)
(* cs   = sequence of culprits [t, k];  fs = sequence of faults [t, k, v]            *)
(*                                                                                   *)
(* Statement of C35 (the oracle):                                                    *)
(*  S1 good / bad / wonky stay pairwise disjoint and sorted                          *)
(*  S2 offenders only grow and stay sorted                                           *)
(*  S3 a verdict is good with floor(2V/3)+1 positive votes, bad with 0, wonky with   *)
(*     floor(V/3); any other count is rejected                                       *)
(*  S4 reports judged bad or wonky are removed from pending availability             *)
(* Everything else of section 10 (signature contexts, judgement age, ordering of     *)
(* the extrinsic, culprit / fault admissibility) is reconstructed from memory and    *)
(* used only in the strict reading `StrictValid`: the code may REJECT a block only   *)
(* if the strict reading rejects it, and must reject what S1/S3 force it to reject   *)
(* (MustReject); in between either outcome is accepted.                              *)
EXTENDS Integers, Sequences, FiniteSets

SetOf(s) == {s[i] : i \in 1..Len(s)}
StrictlySorted(s) == \A i \in 1..(Len(s) - 1) : s[i] < s[i + 1]

RECURSIVE SortSet(_)
SortSet(S) == IF S = {} THEN <<>>
              ELSE LET m == CHOOSE x \in S : \A y \in S : x <= y IN <<m>> \o SortSet(S \ {m})

GoodN(V) == (2 * V) \div 3 + 1
WonkyN(V) == V \div 3
Class(V, s) == IF s = GoodN(V) THEN "good"
               ELSE IF s = 0 THEN "bad"
               ELSE IF s = WonkyN(V) THEN "wonky"
               ELSE "reject"

Judged(psi) == SetOf(psi.g) \cup SetOf(psi.b) \cup SetOf(psi.w)
NewOf(V, vs, c) == {vs[i].t : i \in {j \in 1..Len(vs) : Class(V, vs[j].s) = c}}

\* (10.16)-(10.19)
PsiNext(V, psi, vs, cs, fs) ==
  [g |-> SortSet(SetOf(psi.g) \cup NewOf(V, vs, "good")),
   b |-> SortSet(SetOf(psi.b) \cup NewOf(V, vs, "bad")),
   w |-> SortSet(SetOf(psi.w) \cup NewOf(V, vs, "wonky")),
   o |-> SortSet(SetOf(psi.o) \cup {cs[i].k : i \in 1..Len(cs)} \cup {fs[i].k : i \in 1..Len(fs)})]

\* (10.15): a core whose report was judged bad or wonky in this block is emptied
RhoDagger(V, rho, vs) ==
  [c \in 1..Len(rho) |-> IF rho[c] # 0 /\ rho[c] \in (NewOf(V, vs, "bad") \cup NewOf(V, vs, "wonky")) THEN 0 ELSE rho[c]]

\* (10.20)
OffendersMark(cs, fs) == [i \in 1..Len(cs) |-> cs[i].k] \o [i \in 1..Len(fs) |-> fs[i].k]

\* ---- what the statement itself forces to be rejected
MustReject(V, psi, vs) ==
  \/ \E i \in 1..Len(vs) : Class(V, vs[i].s) = "reject"                \* S3
  \/ \E i \in 1..Len(vs) : vs[i].t \in Judged(psi)                     \* S1: a judged report is not judged again
  \/ \E i, j \in 1..Len(vs) : i < j /\ vs[i].t = vs[j].t               \* S1: conflicting / repeated verdicts in one block

\* ---- strict reading of (10.7)-(10.14), (10.5), (10.6) on summaries; `allowed` = keys of kappa and lambda
SummaryValid(V, psi, vs, cs, fs, allowed) ==
  LET p2 == PsiNext(V, psi, vs, cs, fs) IN
  /\ ~MustReject(V, psi, vs)
  /\ StrictlySorted([i \in 1..Len(vs) |-> vs[i].t])                                           \* 10.7
  /\ StrictlySorted([i \in 1..Len(cs) |-> cs[i].k])                                           \* 10.8
  /\ StrictlySorted([i \in 1..Len(fs) |-> fs[i].k])
  /\ \A i \in 1..Len(vs) : Class(V, vs[i].s) = "good" => \E j \in 1..Len(fs) : fs[j].t = vs[i].t          \* 10.13
  /\ \A i \in 1..Len(vs) : Class(V, vs[i].s) = "bad"
        => Cardinality({j \in 1..Len(cs) : cs[j].t = vs[i].t}) >= 2                           \* 10.14
  /\ \A j \in 1..Len(cs) : cs[j].t \in SetOf(p2.b) /\ cs[j].k \in allowed \ SetOf(psi.o)      \* 10.5
  /\ \A j \in 1..Len(fs) : /\ fs[j].k \in allowed \ SetOf(psi.o)                              \* 10.6
                           /\ (fs[j].t \in SetOf(p2.b)) # (fs[j].t \in SetOf(p2.g))
                           /\ (fs[j].t \in SetOf(p2.b)) = fs[j].v

\* ---- S1 / S2 as predicates on records
Disjoint(psi) == /\ SetOf(psi.g) \cap SetOf(psi.b) = {}
                 /\ SetOf(psi.g) \cap SetOf(psi.w) = {}
                 /\ SetOf(psi.b) \cap SetOf(psi.w) = {}
AllSorted(psi) == StrictlySorted(psi.g) /\ StrictlySorted(psi.b) /\ StrictlySorted(psi.w) /\ StrictlySorted(psi.o)
=============================================================================

----------------------------- MODULE DisputesFn -----------------------------
(* C35: dispute records (Gray Paper section 10) as pure functions, shared by the     *)
(* model (Disputes), and the trace judge (Disputes_Trace).                            *)
(*                                                                                   *)
(* Work-report hashes and Ed25519 keys are positive integers: the RANK of the real   *)
(* 32-byte value in bytewise order (the driver keeps the order-preserving            *)
(* bijection), so "sorted" means the same thing on both sides.  0 = empty core.      *)
(*                                                                                   *)
(* psi  = [g, b, w, o]  strictly increasing sequences (the records as exported)      *)
(* vs   = sequence of verdict summaries [t |-> report, s |-> number of positive votes] *)
(* cs   = sequence of culprits [t, k];  fs = sequence of faults [t, k, v]            *)
(*                                                                                   *)
(* Statement of C35 (the oracle):                                                    *)
(*  S1 good / bad / wonky stay pairwise disjoint and sorted                          *)
(*  S2 offenders only grow and stay sorted                                           *)
(*  S3 a verdict is good with floor(2V/3)+1 positive votes, bad with 0, wonky with   *)
(*     floor(V/3); any other count is rejected                                       *)
(*  S4 reports judged bad or wonky are removed from pending availability             *)
(* The rest of section 10 (signature contexts, judgement age, ordering of the        *)
(* extrinsic, culprit / fault admissibility) is bound too, beyond the statement:     *)
(* clauses that are certain (SureInvalid; each corresponds to an error class of the  *)
(* official vectors) must lead to refusal; two clauses reconstructed from memory     *)
(* that the statement does not settle (a fault whose target is neither good nor bad  *)
(* in psi'; a verdict whose number of judgements is not floor(2V/3)+1, which the     *)
(* decoder enforces elsewhere) are accepted either way.  A block may be REFUSED only *)
(* if the strict reading (all clauses) refuses it.                                   *)
EXTENDS Integers, Sequences, FiniteSets

SetOf(s) == {s[i] : i \in 1..Len(s)}
StrictlySorted(s) == \A i \in 1..(Len(s) - 1) : s[i] < s[i + 1]

RECURSIVE SortSet(_)
SortSet(S) == IF S = {} THEN <<>>
              ELSE LET m == CHOOSE x \in S : \A y \in S : x <= y IN <<m>> \o SortSet(S \ {m})

GoodN(V) == (2 * V) \div 3 + 1
WonkyN(V) == V \div 3
Class(V, s) == IF s = GoodN(V) THEN "good"
               ELSE IF s = 0 THEN "bad"
               ELSE IF s = WonkyN(V) THEN "wonky"
               ELSE "reject"

Judged(psi) == SetOf(psi.g) \cup SetOf(psi.b) \cup SetOf(psi.w)
NewOf(V, vs, c) == {vs[i].t : i \in {j \in 1..Len(vs) : Class(V, vs[j].s) = c}}

\* (10.16)-(10.19)
PsiNext(V, psi, vs, cs, fs) ==
  [g |-> SortSet(SetOf(psi.g) \cup NewOf(V, vs, "good")),
   b |-> SortSet(SetOf(psi.b) \cup NewOf(V, vs, "bad")),
   w |-> SortSet(SetOf(psi.w) \cup NewOf(V, vs, "wonky")),
   o |-> SortSet(SetOf(psi.o) \cup {cs[i].k : i \in 1..Len(cs)} \cup {fs[i].k : i \in 1..Len(fs)})]

\* (10.15): a core whose report was judged bad or wonky in this block is emptied
RhoDagger(V, rho, vs) ==
  [c \in 1..Len(rho) |-> IF rho[c] # 0 /\ rho[c] \in (NewOf(V, vs, "bad") \cup NewOf(V, vs, "wonky")) THEN 0 ELSE rho[c]]

\* (10.20)
OffendersMark(cs, fs) == [i \in 1..Len(cs) |-> cs[i].k] \o [i \in 1..Len(fs) |-> fs[i].k]

\* ---- what the statement itself forces to be rejected
MustReject(V, psi, vs) ==
  \/ \E i \in 1..Len(vs) : Class(V, vs[i].s) = "reject"                \* S3
  \/ \E i \in 1..Len(vs) : vs[i].t \in Judged(psi)                     \* S1: a judged report is not judged again
  \/ \E i, j \in 1..Len(vs) : i < j /\ vs[i].t = vs[j].t               \* S1: conflicting / repeated verdicts in one block

\* ---- the rest of section 10 on summaries; `allowed` = keys of kappa and lambda.
\* SureInvalid: clauses that are certain (each is one of the repository's / the official vectors' error
\* classes: verdicts_not_sorted_unique, culprits_/faults_not_sorted_unique, not_enough_faults,
\* not_enough_culprits, culprits_verdict_not_bad, bad_guarantor_key / bad_auditor_key,
\* offender_already_reported, fault_verdict_wrong).  An accepted block must not be SureInvalid.
SureInvalid(V, psi, vs, cs, fs, allowed) ==
  LET p2 == PsiNext(V, psi, vs, cs, fs) IN
  \/ MustReject(V, psi, vs)
  \/ ~StrictlySorted([i \in 1..Len(vs) |-> vs[i].t])                                           \* 10.7
  \/ ~StrictlySorted([i \in 1..Len(cs) |-> cs[i].k])                                           \* 10.8
  \/ ~StrictlySorted([i \in 1..Len(fs) |-> fs[i].k])
  \/ \E i \in 1..Len(vs) : Class(V, vs[i].s) = "good" /\ ~\E j \in 1..Len(fs) : fs[j].t = vs[i].t      \* 10.13
  \/ \E i \in 1..Len(vs) : Class(V, vs[i].s) = "bad"
        /\ Cardinality({j \in 1..Len(cs) : cs[j].t = vs[i].t}) < 2                              \* 10.14
  \/ \E j \in 1..Len(cs) : cs[j].t \notin SetOf(p2.b) \/ cs[j].k \notin allowed \ SetOf(psi.o)    \* 10.5
  \/ \E j \in 1..Len(fs) : \/ fs[j].k \notin allowed \ SetOf(psi.o)                              \* 10.6
                           \/ (fs[j].v /\ fs[j].t \in SetOf(p2.g))          \* the vote agrees with the verdict
                           \/ (~fs[j].v /\ fs[j].t \in SetOf(p2.b))
\* Unsure (accepted either way): 10.6 read as "the target of a fault is judged good or bad in psi'"
FaultTargetsJudged(V, psi, vs, cs, fs) ==
  LET p2 == PsiNext(V, psi, vs, cs, fs) IN
  \A j \in 1..Len(fs) : fs[j].t \in SetOf(p2.b) \cup SetOf(p2.g)
\* strict reading: a block may be refused only if this is false
SummaryValid(V, psi, vs, cs, fs, allowed) ==
  ~SureInvalid(V, psi, vs, cs, fs, allowed) /\ FaultTargetsJudged(V, psi, vs, cs, fs)

\* ---- S1 / S2 as predicates on records
Disjoint(psi) == /\ SetOf(psi.g) \cap SetOf(psi.b) = {}
                 /\ SetOf(psi.g) \cap SetOf(psi.w) = {}
                 /\ SetOf(psi.b) \cap SetOf(psi.w) = {}
AllSorted(psi) == StrictlySorted(psi.g) /\ StrictlySorted(psi.b) /\ StrictlySorted(psi.w) /\ StrictlySorted(psi.o)
=============================================================================

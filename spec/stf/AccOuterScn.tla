---------------------------- MODULE AccOuterScn ----------------------------
(* Scenario family of X06 (used by AccOuter_Gen and MC_AccOuter): accumulation scenarios over the op vocabulary of AccOuterFn.tla.   *)
(* Services: manager 10, assigners 11 / 12 (cores 1 / 2), designator 13, registrar 14, *)
(* an ordinary service 15, spinner 18, recorder 9, solicitor 16 (blobs 801, 802        *)
(* solicited), ejectable victim 17 (entitled ejector 15), code-less 30.  Four reports  *)
(* of two digests each (+ two tiny tail reports); flags switch groups of ops on:        *)
(*   blessM   the manager re-blesses everything (manager wins over the holders)         *)
(*   blessX   the ordinary service blesses itself into every role (must be ignored)     *)
(*   hand     designator / assigner 2 / registrar hand their own role over (allowed)     *)
(*   newS     registrar: new with a requested index, the same again (FULL), an index    *)
(*            above 2^16; ordinary service: new with a requested index (ignored);        *)
(*            assigner 1: new, then panic (dropped)                                      *)
(*   prov     provide: solicited blob (by two services), duplicate, unsolicited blob,    *)
(*            code-less / absent target                                                  *)
(*   eject    entitled and non-entitled eject of the victim                             *)
(*   spin     the spinner sends, checkpoints, sends, then loops: out of gas; it is sent   *)
(*            a transfer so that it burns a second budget in round 2                      *)
(*   free     always-accumulate services (recorder, code-less 30)                        *)
(*   tail     two tiny reports at the end (picked up by a later round from leftover gas)  *)
(* and g: the gas limit, cutting the report list at every position (and one below),      *)
(* or the block limit of 12.20 (then DeferredTransfers() is bound as well).              *)
(* A service's own bless comes LAST in its program: whether new / assign / designate     *)
(* test the entitlement against the running or the initial context is not demanded.     *)
EXTENDS AccOuterFn

M == 10  A1 == 11  A2 == 12  V == 13  RG == 14  X == 15  SP == 18  RC == 9  P == 16  VI == 17  NC == 30
Bal == 1000000000
Op(o) == <<[op |-> o]>>
Xf(to, amt, tag, gas) == <<[op |-> "xfer", to |-> to, amt |-> amt, tag |-> tag, gas |-> gas]>>
Yl(tag) == <<[op |-> "yield", tag |-> tag]>>
Bless(m, a, v, r, z) == <<[op |-> "bless", m |-> m, a |-> a, v |-> v, r |-> r, z |-> z]>>
Assign(c, to, tag) == <<[op |-> "assign", c |-> c, to |-> to, tag |-> tag]>>
Designate(tag) == <<[op |-> "designate", tag |-> tag]>>
New(ctag, l, rid) == <<[op |-> "new", ctag |-> ctag, l |-> l, rid |-> rid]>>
Provide(to, tag) == <<[op |-> "provide", to |-> to, tag |-> tag]>>
Eject(v) == <<[op |-> "eject", v |-> v]>>
If(c, ops) == IF c THEN ops ELSE <<>>
Svc(id, prog) == [id |-> id, code |-> TRUE, prog |-> prog, bal |-> Bal, sol |-> <<>>, ejby |-> 0]

Free(fl) == IF fl.free THEN <<[id |-> RC, gas |-> 50000], [id |-> NC, gas |-> 777]>> ELSE <<>>
Z2 == <<[id |-> RC, gas |-> 5000], [id |-> X, gas |-> 123]>>

Services(fl) ==
  << Svc(M,  If(fl.blessM, Bless(X, <<X, A2>>, V, X, Z2)) \o If(fl.prov, Provide(P, 801)) \o If(fl.eject, Eject(VI)) \o Yl(1)),
     Svc(A1, Assign(1, P, 7) \o If(fl.newS, Op("ckpt") \o New(5, 11, 0 - 1) \o Op("panic"))),
     Svc(A2, Assign(2, A2, 8) \o Assign(1, A2, 6) \o If(fl.hand, Bless(M, <<A1, X>>, V, RG, Free(fl)))),
     Svc(V,  Designate(9) \o If(fl.hand, Bless(M, <<A1, A2>>, X, RG, Free(fl)))),
     Svc(RG, If(fl.newS, New(1, 10, 300) \o New(2, 20, 300) \o New(3, 5, 70000)) \o If(fl.hand, Bless(M, <<A1, A2>>, V, X, Free(fl)))),
     Svc(X,  Designate(5) \o Assign(1, X, 3)
             \o If(fl.newS, New(4, 7, 301))
             \o If(fl.prov, Provide(P, 801) \o Provide(P, 801) \o Provide(P, 999) \o Provide(NC, 802) \o Provide(4242, 801))
             \o If(fl.eject, Eject(VI))
             \o Xf(RC, 3, 150, 3000) \o If(fl.spin, Xf(SP, 1, 151, 7000)) \o Xf(NC, 2, 152, 3000) \o Xf(4242, 9, 153, 3000)
             \o If(fl.blessX, Bless(X, <<X, X>>, X, X, <<[id |-> X, gas |-> 999]>>))),
     Svc(SP, IF fl.spin THEN Xf(RC, 2, 160, 3000) \o Op("ckpt") \o Xf(RC, 2, 161, 3000) \o Op("spin") ELSE Op("rec")),
     Svc(RC, Op("rec") \o Yl(7)),
     [id |-> P, code |-> TRUE, prog |-> Op("rec"), bal |-> Bal, sol |-> <<801, 802>>, ejby |-> 0],
     [id |-> VI, code |-> FALSE, prog |-> <<>>, bal |-> 5000, sol |-> <<>>, ejby |-> X],
     [id |-> NC, code |-> FALSE, prog |-> <<>>, bal |-> Bal, sol |-> <<>>, ejby |-> 0] >>

D(id, gas) == [id |-> id, gas |-> gas]
Reports(fl) == << <<D(M, 40000), D(A1, 40000)>>, <<D(A2, 40000), D(SP, 40000)>>, <<D(V, 40000), D(RG, 40000)>>, <<D(X, 60000), D(RC, 40000)>> >>
               \o If(fl.tail, << <<D(NC, 40)>>, <<D(NC, 40)>> >>)

Flags == [blessM : BOOLEAN, blessX : BOOLEAN, hand : BOOLEAN, newS : BOOLEAN, prov : BOOLEAN, eject : BOOLEAN, spin : BOOLEAN,
          free : BOOLEAN, tail : BOOLEAN]
Cuts == {0, 79999, 80000, 159999, 160000, 240000, 339999, 340000, 340050}

Scenario(fl, g, stf) ==
  [svcs |-> Services(fl), reports |-> Reports(fl), free |-> Free(fl), priv |-> [m |-> M, a |-> <<A1, A2>>, v |-> V, r |-> RG],
   g |-> g + SumGas(Free(fl), 1), stf |-> stf, flags |-> fl]     \* 12.20: the limit always covers the always-accumulate gas

\* a second family: reports whose declared gas exceeds the block limit (the only way to cut through DeferredTransfers)
BigReports == << <<D(RC, 9000000)>>, <<D(X, 9000000)>>, <<D(SP, 9000000)>>, <<D(M, 1000)>> >>
BigFl == [blessM |-> FALSE, blessX |-> FALSE, hand |-> FALSE, newS |-> FALSE, prov |-> FALSE, eject |-> FALSE, spin |-> TRUE, free |-> TRUE, tail |-> FALSE]
Big(spin, free) == LET fl == [BigFl EXCEPT !.spin = spin, !.free = free]
                       sc == [svcs |-> Services(fl), reports |-> BigReports, free |-> Free(fl), priv |-> [m |-> M, a |-> <<A1, A2>>, v |-> V, r |-> RG],
                              g |-> 0, stf |-> TRUE, flags |-> fl]
                   IN [sc EXCEPT !.g = BlockGas(sc)]

\* the spinner burns two 9 000 000 budgets in round 1: the third report no longer fits the block limit (n = 2 through DeferredTransfers)
Burn == LET fl == [BigFl EXCEPT !.free = FALSE]
            sc == [svcs |-> Services(fl), reports |-> << <<D(SP, 9000000)>>, <<D(SP, 9000000)>>, <<D(RC, 9000000)>> >>, free |-> <<>>,
                   priv |-> [m |-> M, a |-> <<A1, A2>>, v |-> V, r |-> RG], g |-> 0, stf |-> TRUE, flags |-> fl]
        IN [sc EXCEPT !.g = BlockGas(sc)]
\* the gas limits of the transfers delivered in a round are added to the remaining limit (12.16: g* = g + sum of t_g): the second
\* report fits only in round 3, after the transfers of round 2 brought their own gas
Tight(g) == LET fl == [BigFl EXCEPT !.free = FALSE]
            IN [svcs |-> Services(fl), reports |-> << <<D(X, 60000), D(SP, 40000)>>, <<D(M, 50000)>> >>, free |-> <<>>,
                priv |-> [m |-> M, a |-> <<A1, A2>>, v |-> V, r |-> RG], g |-> g, stf |-> FALSE, flags |-> fl]
\* A ejects B in the very round in which B itself accumulates (both are sent a transfer by X in round 1): the removal wins
\* ((d u n) \ m), A is paid B's balance as of the START of the round (Delta1 of every service starts from the same e); bystanders
\* keep the other workers busy.  Run repeatedly under several worker-pool sizes (C22 / X06).
Race(a, b, nby) ==
  LET fl == [BigFl EXCEPT !.free = FALSE, !.spin = FALSE]
      by == [k \in 1..nby |-> [id |-> 200 + k, code |-> FALSE, prog |-> <<>>, bal |-> Bal, sol |-> <<>>, ejby |-> 0]]
  IN [svcs |-> << Svc(X, Xf(a, 7, 171, 3000) \o Xf(b, 300, 172, 3000) \o FlattenSeq([k \in 1..nby |-> Xf(200 + k, k, 180 + k, 3000)])),
                  Svc(a, Eject(b) \o Op("rec")),
                  [id |-> b, code |-> FALSE, prog |-> <<>>, bal |-> 5000, sol |-> <<>>, ejby |-> a] >> \o by,
      reports |-> << <<D(X, 200000)>> >>, free |-> <<>>, priv |-> [m |-> M, a |-> <<A1, A2>>, v |-> V, r |-> RG],
      g |-> 200000, stf |-> FALSE, flags |-> fl, race |-> TRUE]
Races == {Race(ab[1], ab[2], nby) : ab \in {<<70002, 70001>>, <<70001, 70002>>, <<7, 300>>, <<300, 7>>}, nby \in {0, 3, 12}}
=============================================================================

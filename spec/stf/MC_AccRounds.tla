---------------------------- MODULE MC_AccRounds ----------------------------
(* Design check for C22 (MC_Determinism of DESIGN.md): 3 senders A=5, B=1000, C=77   *)
(* with 0..MaxN transfers each to the recorder R=9, optionally B through the relay   *)
(* Q=20 (a third round), A with checkpoint + panic, reports in one or two work       *)
(* reports, R also always-accumulating.  With StableUpTo = 2 a receiver of more than  *)
(* two transfers stands for "more than a dozen" in the code.                          *)
(* Mode "asis": TLC finds the order-dependent outputs (expected counterexamples).     *)
(* Mode "repaired" (ascending merge, stable sort): AllOutcomesEqual holds.            *)
EXTENDS AccRounds
CONSTANT MaxN

A == 5
B == 1000
C == 77
R == 9
Q == 20
Xf(to, k, base) == [i \in 1..k |-> [op |-> "xfer", to |-> to, amt |-> i, tag |-> base + i]]
Op(o) == <<[op |-> o]>>
Yl(tag) == <<[op |-> "yield", tag |-> tag]>>

Scenario(nA, nB, nC, ck, relay, split, free) ==
  [svcs |-> << [id |-> A, code |-> TRUE, prog |-> IF ck THEN Xf(R, 1, 100) \o Yl(5) \o Op("ckpt") \o Xf(R, nA, 110) \o Yl(6) \o Op("panic") ELSE Xf(R, nA, 100) \o Yl(3)],
               [id |-> B, code |-> TRUE, prog |-> Xf(IF relay THEN Q ELSE R, nB, 200)],
               [id |-> C, code |-> TRUE, prog |-> Xf(R, nC, 300)],
               [id |-> R, code |-> TRUE, prog |-> Op("rec") \o Yl(7)],      \* yields (item count, 7): twice per block when it runs in two rounds
               [id |-> Q, code |-> TRUE, prog |-> Op("rec") \o Xf(R, 2, 400)] >>,
   reports |-> IF split THEN << <<A>>, <<B, C>> >> ELSE << <<A, B, C>> >>,
   free |-> IF free THEN <<R>> ELSE <<>>]

ScenariosMC == {Scenario(nA, nB, nC, ck, relay, split, free) :
                  nA \in 0..MaxN, nB \in 0..MaxN, nC \in 0..MaxN, ck \in BOOLEAN, relay \in BOOLEAN, split \in BOOLEAN, free \in BOOLEAN}
=============================================================================

--------------------------- MODULE Assurances_Gen ---------------------------
(* G-step for X01: the single-block input partition of the assurances extrinsic,    *)
(* enumerated by TLC (seeded multi-block histories are added by checks/x01.py).      *)
(* Cases are inputs only; Assurances_Trace judges what the code did with them.       *)
(* V = 6, C = 2, U = 5 (the tiny configuration the driver selects).                   *)
(* case  = [tau, rho = <<<<report id, slot>>, ...>> per core (0 0 = empty), blocks]   *)
(* block = [slot, judge = report ids the block's disputes judge wonky,                 *)
(*          as = <<[v, f = bitfield octet, anchor "ok"|"bad", sig kind]>>,             *)
(*          place = <<<<core (0-based), report id>>>> guarantees of the block]         *)
EXTENDS Integers, Sequences, SequencesExt, FiniteSets, Json, TLC
CONSTANTS OutFile
VARIABLE x

Tau == 100
Slot == 101
A(v, f) == [v |-> v, f |-> f, anchor |-> "ok", sig |-> "ok"]
Blk(slot, judge, as, place) == [slot |-> slot, judge |-> judge, as |-> as, place |-> place]
Case(rho, b) == [tau |-> Tau, rho |-> rho, blocks |-> <<b>>]
Both == <<<<1, 98>>, <<2, 99>>>>

\* validators of S0 set bit 0, validators of S1 set bit 1; all-zero bitfields are sent iff `zero`
Bits(v, S0, S1) == (IF v \in S0 THEN 1 ELSE 0) + (IF v \in S1 THEN 2 ELSE 0)
Assure(S0, S1, zero) ==
  LET all == [i \in 1..6 |-> A(i - 1, Bits(i - 1, S0, S1))]
  IN SelectSeq(all, LAMBDA a : zero \/ a.f # 0)

\* F1: every pair of assurance counts (thresholds 4 / 5 of 6)
F1 == {Case(Both, Blk(Slot, <<>>, Assure(0..(k - 1), (6 - m)..5, z), <<>>)) : k \in 0..6, m \in 0..6, z \in BOOLEAN}

\* F2: the timeout boundary (U = 5) against the availability threshold
F2 == {Case(<<<<1, Slot - age>>, other>>, Blk(Slot, <<>>, Assure(0..(k - 1), {}, FALSE), <<>>)) :
         age \in {1, 2, 4, 5, 6, 9}, k \in {0, 4, 5, 6}, other \in {<<0, 0>>, <<2, 100>>}}

\* F3: a bit may only be set for a core holding a report in rho-dagger
F3 == {Case(rho, Blk(Slot, <<>>, Assure(IF f \in {1, 3} THEN S ELSE {}, IF f \in {2, 3} THEN S ELSE {}, FALSE), <<>>)) :
         rho \in {<<<<0, 0>>, <<0, 0>>>>, <<<<1, 99>>, <<0, 0>>>>, <<<<0, 0>>, <<2, 99>>>>},
         S \in {{3}, 0..4}, f \in {1, 2, 3}}
      \cup {Case(Both, Blk(Slot, j, Assure(IF f \in {1, 3} THEN 0..4 ELSE {}, IF f \in {2, 3} THEN 0..4 ELSE {}, f = 0), <<>>)) :
         j \in {<<1>>, <<2>>, <<1, 2>>, <<7>>}, f \in 0..3}

\* F4: a valid extrinsic of five assurances with exactly one defect
Base == Assure(0..4, 0..4, FALSE)
SigKinds == {"ctx", "key", "bits", "parent", "nohash", "zero"}
Swap(s, i) == [j \in 1..Len(s) |-> IF j = i THEN s[i + 1] ELSE IF j = i + 1 THEN s[i] ELSE s[j]]
F4 == {Case(Both, Blk(Slot, <<>>, E, <<>>)) :
         E \in {Base}
            \cup {[Base EXCEPT ![i].sig = k] : i \in {1, 3, 5}, k \in SigKinds}
            \cup {[Base EXCEPT ![i].anchor = "bad"] : i \in {1, 3, 5}}
            \cup {Swap(Base, i) : i \in {1, 2, 4}}
            \cup {InsertAt(Base, i, Base[i]) : i \in {1, 5}}
            \cup {InsertAt(Base, 3, A(1, 0))}                                \* same index, other bitfield, out of place
            \cup {[Base EXCEPT ![5].v = v] : v \in {5, 6, 7, 255, 256, 65535}}
            \cup {[Base EXCEPT ![1].v = 6]}
            \cup {[Base EXCEPT ![1].f = f] : f \in {4, 7, 131, 255}}          \* padding bits
            \cup {Append(Base, A(5, 3)), Append(Base, A(5, 0))}}

\* F5: two defects at once (which one is named is not fixed: P2)
F5 == {Case(rho, Blk(Slot, <<>>, E, <<>>)) :
         rho \in {Both, <<<<1, 98>>, <<0, 0>>>>},
         E \in {Swap([Base EXCEPT ![1].anchor = "bad"], 3),
               [[Base EXCEPT ![5].anchor = "bad"] EXCEPT ![1].sig = "zero"],
               [[Base EXCEPT ![5].v = 9] EXCEPT ![1].sig = "key"],
               Swap([Base EXCEPT ![4].sig = "ctx"], 1),
               [Base EXCEPT ![2].sig = "bits"],
               Swap(Base, 2),
               [Base EXCEPT ![3].anchor = "bad"],
               [Base EXCEPT ![5].v = 6]}}

\* F6: guarantees onto free, engaged and just-freed cores
F6 == {Case(<<<<1, Slot - age>>, <<2, 99>>>>, Blk(Slot, j, Assure(0..(k - 1), {}, FALSE), p)) :
         age \in {2, 5}, k \in {4, 5}, j \in {<<>>, <<2>>},
         p \in {<<>>, <<<<0, 11>>>>, <<<<1, 12>>>>, <<<<0, 11>>, <<1, 12>>>>}}

Cases == F1 \cup F2 \cup F3 \cup F4 \cup F5 \cup F6
ASSUME ndJsonSerialize(OutFile, SetToSeq(Cases))
ASSUME PrintT(<<"GEN", Cardinality(F1), Cardinality(F2), Cardinality(F3), Cardinality(F4), Cardinality(F5), Cardinality(F6)>>)
GenInit == x = 0
GenNext == FALSE /\ x' = x
=============================================================================

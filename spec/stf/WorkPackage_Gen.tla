---------------------------- MODULE WorkPackage_Gen ----------------------------
(* G-step for X04 (inputs, hash terms and scripted environment only).               *)
(*  validate  mode, auth, cfg, items [plen ni ext e g a]    WorkPackage.Validate      *)
(*  extract   specs [x l], data, want_hs                   ExtractExtrinsics          *)
(*  paged     segs, want_pages                             PagedProofs                *)
(*  process   a whole package with its environment (dictionary, erasure map, scripted *)
(*            fetcher / authorizer / refinement): WorkPackageController.Process as    *)
(*            initial guarantor, then as second guarantor from the produced bundle    *)
EXTENDS WorkPackageDefs, Json
CONSTANTS OutFile, Tier, Seed
VARIABLE x

Thorough == Tier = "thorough"
U8(v) == LE(v, 8)
It(plen, ni, ext, e, g, a) == [plen |-> plen, ni |-> ni, ext |-> ext, e |-> e, g |-> g, a |-> a]
Small == It(10, 1, <<5>>, 1, U8(1000), U8(1000))
Nil == It(0, 0, <<>>, 0, U8(0), U8(0))
VCase(mode, auth, cfg, items) == [kind |-> "validate", mode |-> mode, auth |-> auth, cfg |-> cfg, items |-> items]
Top63 == <<0, 0, 0, 0, 0, 0, 0, 128>>
ValidateCases ==
  {VCase("full", 3, 3, [i \in 1..n |-> Small]) : n \in {0, 1, 2, 15, 16, 17, 18}}
  \cup {VCase("full", 0, 0, <<It(0, ni, <<>>, 0, U8(0), U8(0))>>) : ni \in {3071, 3072, 3073}}
  \cup {VCase("full", 0, 0, [i \in 1..16 |-> It(0, IF i = 16 THEN last ELSE 192, <<>>, 0, U8(0), U8(0))]) : last \in {191, 192, 193}}
  \cup {VCase("full", 0, 0, <<It(0, 0, <<>>, e, U8(0), U8(0))>>) : e \in {3072, 3073, 65535}}
  \cup {VCase("full", 0, 0, <<It(0, 0, <<>>, 1536, U8(0), U8(0)), It(0, 0, <<>>, e, U8(0), U8(0))>>) : e \in {1535, 1536, 1537}}
  \cup {VCase("full", 0, 0, <<It(0, 0, [i \in 1..n |-> 1], 0, U8(0), U8(0))>>) : n \in {127, 128, 129}}
  \cup {VCase("full", 0, 0, <<It(0, 0, [i \in 1..64 |-> 0], 0, U8(0), U8(0)), It(0, 0, [i \in 1..n |-> 2], 0, U8(0), U8(0))>>) : n \in {63, 64, 65}}
  \cup {VCase("full", 0, 0, <<It(plen, 3072, <<>>, 0, U8(0), U8(0))>>) : plen \in {4223, 4224, 7170, 7171, 100000}}
  \cup {VCase("full", 0, 0, <<It(0, 3072, <<l>>, 0, U8(0), U8(0))>>) : l \in {4224, 7170, 7171}}
  \cup {VCase("full", a, c, <<It(0, 3072, <<>>, 0, U8(0), U8(0))>>) : a \in {4000, 7000}, c \in {224, 170, 171}}
  \cup {VCase("full", 0, 0, <<It(0, 0, <<13791360>>, 0, U8(0), U8(0))>>), VCase("full", 0, 0, <<It(0, 0, <<13794306>>, 0, U8(0), U8(0))>>),
        VCase("full", 0, 0, <<It(13791360, 0, <<>>, 0, U8(0), U8(0))>>), VCase("full", 0, 0, <<It(13794306, 0, <<>>, 0, U8(0), U8(0))>>)}
  \cup {VCase(m, 0, 0, <<It(0, 0, <<>>, 0, U8(0), U8(a))>>) : a \in {9999999, 10000001, 2147483647}, m \in {"full", "tiny"}}
  \cup {VCase("full", 0, 0, <<It(0, 0, <<>>, 0, U8(0), U8(5000000)), It(0, 0, <<>>, 0, U8(0), U8(a))>>) : a \in {4999999, 5000001}}
  \cup {VCase(m, 0, 0, <<It(0, 0, <<>>, 0, g, U8(0))>>) : m \in {"full", "tiny"},
        g \in {U8(999999999), U8(1000000001), <<255, 241, 5, 42, 1, 0, 0, 0>>, <<1, 242, 5, 42, 1, 0, 0, 0>>, Rep(255, 8)}}
  \* 64-bit wrap-around of the sums: 2^63 + 2^63 and (2^64 - 1) + 2
  \cup {VCase("full", 0, 0, <<It(0, 0, <<>>, 0, Top63, U8(0)), It(0, 0, <<>>, 0, Top63, U8(0))>>),
        VCase("full", 0, 0, <<It(0, 0, <<>>, 0, U8(0), Top63), It(0, 0, <<>>, 0, U8(0), Top63)>>),
        VCase("full", 0, 0, <<It(0, 0, <<>>, 0, Rep(255, 8), U8(0)), It(0, 0, <<>>, 0, U8(2), U8(0))>>),
        VCase("full", 0, 0, <<It(0, 0, <<>>, 0, U8(0), Rep(255, 8)), It(0, 0, <<>>, 0, U8(0), U8(2)), Small>>)}

\* totals spread over n items (the remainder goes to the last item): every combination of the three count limits
Spread(total, n, i) == IF i < n THEN total \div n ELSE total - (n - 1) * (total \div n)
GridCases == {VCase("full", 1, 1, [i \in 1..n |-> It(1, Spread(ti, n, i), [q \in 1..Spread(tx, n, i) |-> 1], Spread(te, n, i), U8(10), U8(10))])
              : n \in (IF Thorough THEN {1, 2, 3, 16} ELSE {3}), ti \in {3072, 3073}, te \in {3072, 3073}, tx \in {128, 129}}

\* ---- extract
Blob(k) == CASE k = 0 -> <<>> [] k = 1 -> <<1, 2, 3>> [] k = 2 -> <<9, 9, 9, 9, 9>> [] k = 3 -> <<1, 2, 4>> [] k = 4 -> <<7>> [] OTHER -> Rep(k, 40)
\* claimed: blob ids of the specs; actual: blob ids laid out in the data; dl[i]: declared length adjustment; tail: trailing bytes
ECase(claimed, actual, dl, tail) ==
  LET specs == [i \in 1..Len(claimed) |-> [x |-> Blob(claimed[i]), l |-> Len(Blob(claimed[i])) + dl[i]]]
  IN [kind |-> "extract", specs |-> specs, data |-> Flat([i \in 1..Len(actual) |-> Blob(actual[i])]) \o tail,
      want_hs |-> [i \in 1..Len(claimed) |-> B2b(Lit(Blob(claimed[i])))]]
Z(n) == [i \in 1..n |-> 0]
ExtractCases ==
  {ECase(c, c, Z(Len(c)), <<>>) : c \in {<<>>, <<1>>, <<0>>, <<1, 2>>, <<1, 0, 2>>, <<2, 2>>, <<1, 2, 4, 5>>, <<0, 0>>, <<5, 1, 5>>}}
  \cup {ECase(<<>>, <<>>, <<>>, <<1>>), ECase(<<1>>, <<1>>, <<0>>, <<0>>), ECase(<<1, 2>>, <<1>>, <<0, 0>>, <<>>), ECase(<<1, 2>>, <<2, 1>>, <<0, 0>>, <<>>),
        ECase(<<1>>, <<3>>, <<0>>, <<>>), ECase(<<1, 2>>, <<1, 2>>, <<0, -1>>, <<>>), ECase(<<1, 2>>, <<1, 2>>, <<1, -1>>, <<>>), ECase(<<1, 2>>, <<1, 2>>, <<0, 1>>, <<>>),
        ECase(<<2, 2>>, <<2>>, <<0, 0>>, <<>>), ECase(<<1, 4>>, <<1, 4, 4>>, <<0, 0>>, <<>>), ECase(<<4, 1>>, <<1, 4>>, <<0, 0>>, <<>>), ECase(<<0>>, <<4>>, <<0>>, <<>>),
        ECase(<<4>>, <<0>>, <<0>>, <<>>), ECase(<<1, 3>>, <<1, 1>>, <<0, 0>>, <<>>)}

SeqsUpTo(ids, L) == UNION {[1..n -> ids] : n \in 0..L}
ExtractEnum == LET ids == IF Thorough THEN {0, 1, 3, 4} ELSE {0, 1, 4}
               IN {ECase(cl, ac, Z(Len(cl)), <<>>) : cl \in SeqsUpTo(ids, 2), ac \in SeqsUpTo(ids, 2)}

\* ---- paged proofs
PagedCounts == IF Thorough THEN (0..140) \cup {191, 192, 193, 200}
               ELSE {0, 1, 2, 63, 64, 65, 100, 127, 128, 129}
PagedCase(n, k) == LET segs == [i \in 1..n |-> IF (i + k) % 5 = 0 THEN ZeroSegment ELSE Segment(<<i % 256, i \div 256, k + 1>>)]
                   IN [kind |-> "paged", segs |-> segs, want_pages |-> PagedProofs(segs)]
PagedCases == {PagedCase(n, Seed % 3) : n \in PagedCounts}

\* ---- process
Gases == << U8(0), U8(1), U8(77), <<0, 0, 0, 0, 1, 0, 0, 0>> >>
PBlob(k) == [i \in 1..(3 + k) |-> (k * 11 + i) % 256]
\* item jj of process case k: imports given as [r, n]; extrinsic blobs by id
PItem(jj, k, imports, xids, e) ==
  [s |-> LE(jj + k, 4), c |-> [i \in 1..32 |-> (jj * 3 + k + i) % 256], a |-> U8(100 + jj), g |-> U8(1000 + k), e |-> e,
   payload |-> [i \in 1..(jj + (k % 3)) |-> (i + k) % 256], imports |-> imports, xs |-> [i \in 1..Len(xids) |-> PBlob(xids[i])]]
\* outcome kinds as in WorkDigest_Gen (subset)
POut(kd, jj, k, e) ==
  LET nret == CASE kd \in {"ok", "err_exact"} -> e [] kd = "err_none" -> 0 [] kd = "ok_more" -> e + 1 [] OTHER -> e
  IN [t |-> IF kd \in {"err_none", "err_exact"} THEN "panic" ELSE "ok", data |-> IF kd \in {"err_none", "err_exact"} THEN <<>> ELSE <<jj, k>>,
      datarep |-> 0, segs |-> [q \in 1..nret |-> Segment(<<jj, q, k + 1>>)], u |-> Gases[((jj + k) % Len(Gases)) + 1]]
\* flaw: "" none; "xdata" extrinsic data corrupted; "toomany" 17 items; "nocode" authorizer code not available
PCase(k, itemspecs, kinds, dict, erasure, flaw) ==
  LET n == Len(itemspecs)
      ws == [jj \in 1..n |-> PItem(jj, k, itemspecs[jj].imports, itemspecs[jj].xids, itemspecs[jj].e)]
      outs == [jj \in 1..n |-> POut(kinds[jj], jj, k, ws[jj].e)]
      dig == [jj \in 1..n |-> [e |-> ws[jj].e]]
      script == [jj \in 1..n |-> [t |-> outs[jj].t, dlen |-> Len(outs[jj].data), nret |-> Len(outs[jj].segs)]]
      authout == <<k, 2, 3>>
      failed == FailedItems(dig, script, Len(authout))
      all == AllSegments(dig, failed, [jj \in 1..n |-> outs[jj].segs], 1)
      blobs == Flat(Flat([jj \in 1..n |-> ws[jj].xs]))
      u == [i \in 1..32 |-> (k * 5 + i) % 256]
      cfg == <<k, 9>>
      dset == {dict[i] : i \in 1..Len(dict)}
      eset == {erasure[i] : i \in 1..Len(erasure)}
      pl == k % 3
      \* what the scripted fetcher serves: one entry per expected fetch <<erasure root id, index>>
      fetches == Flat([jj \in 1..n |-> ItemFetches(ws[jj].imports, dset, eset)])
      fetch == [q \in 1..Len(fetches) |->
                  LET eid == fetches[q][1]
                      ix == fetches[q][2]
                  IN [eid |-> eid, n |-> ix, prefix |-> <<eid % 256, eid \div 256, ix % 256, ix \div 256, 94>>,
                      proofs |-> [z \in 1..pl |-> [i \in 1..32 |-> (eid + ix * 3 + z * 7 + i) % 256]]]]
  IN [kind |-> "process", k |-> k, flaw |-> flaw, mode |-> "full", core |-> k % 3,
      auth |-> <<1, k>>, cfg |-> cfg, authhost |-> 7 + k, authcodehash |-> u, meta |-> <<5, 5>>, code |-> <<8, k>>,
      items |-> ws, outs |-> outs, dict |-> dict, erasure |-> erasure, fetch |-> fetch,
      data |-> IF flaw = "xdata" /\ Len(blobs) > 0 THEN [blobs EXCEPT ![1] = (@ + 1) % 256] ELSE blobs,
      authout |-> authout, authgas |-> Gases[(k % Len(Gases)) + 1],
      want_pa |-> B2b(Cat(<<Lit(u), Lit(cfg)>>)), want_ys |-> [jj \in 1..n |-> B2b(Lit(ws[jj].payload))],
      want_xhs |-> [jj \in 1..n |-> [i \in 1..Len(ws[jj].xs) |-> B2b(Lit(ws[jj].xs[i]))]],
      want_root |-> M(all, "b2b"), nsegs |-> Len(all)]
IS(imports, xids, e) == [imports |-> imports, xids |-> xids, e |-> e]
Im(r, n) == [r |-> r, n |-> n]
\* package ids 1..9 (work-package hashes known to the dictionary), segment root ids 101.., erasure root ids 201..
D3 == << <<1, 101>>, <<2, 102>>, <<3, 103>> >>
E5 == << <<101, 201>>, <<102, 202>>, <<103, 203>>, <<104, 204>>, <<105, 205>> >>
D8 == [i \in 1..8 |-> <<i, 100 + i>>]
E9 == [i \in 1..9 |-> <<100 + i, 200 + i>>]
ProcessCases ==
  { PCase(0, <<IS(<<>>, <<>>, 0)>>, <<"ok">>, <<>>, <<>>, ""),
    PCase(1, <<IS(<<>>, <<1>>, 1)>>, <<"ok">>, D3, E5, ""),
    PCase(2, <<IS(<<Im(104, 0)>>, <<>>, 2)>>, <<"ok">>, D3, E5, ""),
    PCase(3, <<IS(<<Im(1, 3)>>, <<2>>, 1)>>, <<"ok">>, D3, E5, ""),
    PCase(4, <<IS(<<Im(2, 0), Im(105, 7), Im(2, 1)>>, <<1, 2>>, 1), IS(<<Im(3, 2)>>, <<3>>, 2)>>, <<"ok", "ok">>, D3, E5, ""),
    PCase(5, <<IS(<<Im(1, 0)>>, <<1>>, 2), IS(<<>>, <<>>, 0), IS(<<Im(104, 5), Im(1, 1)>>, <<2, 2>>, 1)>>, <<"ok", "err_none", "err_exact">>, D3, E5, ""),
    PCase(6, <<IS(<<Im(3, 1)>>, <<4>>, 1), IS(<<Im(101, 2)>>, <<>>, 3)>>, <<"ok_more", "ok">>, D3, E5, ""),
    PCase(7, <<IS(<<Im(8, 1), Im(1, 0), Im(109, 4)>>, <<>>, 1)>>, <<"ok">>, D8, E9, ""),
    PCase(8, <<IS(<<Im(2, 1)>>, <<1, 3>>, 1)>>, <<"ok">>, D3, E5, "xdata"),
    PCase(9, [jj \in 1..17 |-> IS(<<>>, <<>>, 0)], [jj \in 1..17 |-> "ok"], D3, E5, "toomany"),
    PCase(10, <<IS(<<Im(1, 0)>>, <<1>>, 1)>>, <<"ok">>, D3, E5, "nocode"),
    PCase(11, <<IS(<<>>, <<>>, 1), IS(<<Im(2, 9), Im(3, 9)>>, <<5>>, 0), IS(<<>>, <<>>, 2)>>, <<"ok", "ok", "ok">>, D3, E5, "") }
  \cup (IF Thorough THEN
          {PCase(20 + k, <<IS(<<Im(1 + (k % 3), k), Im(104, 1)>>, <<k % 5, 2>>, 1 + (k % 2)), IS(<<Im(1 + ((k + 1) % 3), 0)>>, <<>>, k % 3)>>,
                 <<IF k % 4 = 0 THEN "err_exact" ELSE "ok", IF k % 5 = 0 THEN "ok_more" ELSE "ok">>, IF k % 2 = 0 THEN D3 ELSE D8, E9, "") : k \in 0..47}
        ELSE {})

Cases == SetToSeq(ValidateCases \cup GridCases) \o SetToSeq(ExtractCases \cup ExtractEnum) \o SetToSeq(PagedCases) \o SetToSeq(ProcessCases)
ASSUME ndJsonSerialize(OutFile, Cases)
GenInit == x = 0
GenNext == FALSE /\ x' = x
=============================================================================

---------------------------- MODULE AccRounds_Gen ----------------------------
(* G-step for C22: accumulation scenarios for the driver (same vocabulary as         *)
(* MC_AccRounds, with the code's real threshold: more than 12 transfers to one       *)
(* receiver).  Senders A, B, C (ids whose numeric order differs from the order of    *)
(* appearance) send nA, nB, nC transfers to the recorder R; variants: A with         *)
(* checkpoint + panic, B through the relay Q (third round), reports in one or two    *)
(* work reports, R always-accumulating, extras (a transfer to a service without code *)
(* and one to a service that does not exist), privileged services absent or = R.     *)
EXTENDS Integers, Sequences, FiniteSets, Json, TLC, SequencesExt
CONSTANTS OutFile, Tier
VARIABLE x

Counts == { <<1, 0, 0>>, <<2, 1, 0>>, <<1, 1, 1>>, <<6, 6, 0>>, <<7, 6, 0>>, <<7, 7, 0>>, <<12, 0, 1>>, <<13, 0, 0>>,
            <<14, 0, 0>>, <<5, 5, 5>>, <<7, 7, 7>>, <<0, 13, 13>>, <<20, 3, 0>>, <<25, 25, 0>>, <<9, 20, 14>> }
IdSets == { [a |-> 5, b |-> 1000, c |-> 77, r |-> 9, q |-> 20, n |-> 30], [a |-> 70000, b |-> 3, c |-> 256, r |-> 65536, q |-> 255, n |-> 4] }

\* gas: the gas limit handed over with the transfer (the driver's business: the specification assumes ample gas)
Xfg(to, k, base, g) == [i \in 1..k |-> [op |-> "xfer", to |-> to, amt |-> i, tag |-> base + i, gas |-> g]]
Xf(to, k, base) == Xfg(to, k, base, 3000)
Op(o) == <<[op |-> o]>>

Scenario(cnt, ids, ck, relay, split, free, extra, priv) ==
  [svcs |-> << [id |-> ids.a, code |-> TRUE,
                prog |-> (IF ck THEN Xf(ids.r, 1, 100) \o Op("ckpt") \o Xf(ids.r, cnt[1], 110) \o Op("panic") ELSE Xf(ids.r, cnt[1], 100))],
               [id |-> ids.b, code |-> TRUE, prog |-> IF relay THEN Xfg(ids.q, cnt[2], 200, 4000) ELSE Xf(ids.r, cnt[2], 200)],
               [id |-> ids.c, code |-> TRUE,
                prog |-> (IF extra THEN Xf(ids.n, 1, 500) \o Xf(4242, 1, 600) ELSE <<>>) \o Xf(ids.r, cnt[3], 300)],
               [id |-> ids.r, code |-> TRUE, prog |-> Op("rec")],
               [id |-> ids.q, code |-> TRUE, prog |-> Op("rec") \o Xfg(ids.r, 2, 400, 1000)],
               [id |-> ids.n, code |-> FALSE, prog |-> <<>>] >>,
   reports |-> IF split THEN << <<ids.a>>, <<ids.b, ids.c>> >> ELSE << <<ids.a, ids.b, ids.c>> >>,
   free |-> IF free THEN <<ids.r>> ELSE <<>>,
   priv |-> IF priv THEN ids.r ELSE 0,
   over12 |-> cnt[1] + cnt[2] + cnt[3] > 12]

Cases == {Scenario(cnt, ids, ck, relay, split, free, extra, priv) :
            cnt \in Counts, ids \in IdSets, ck \in BOOLEAN, relay \in BOOLEAN, split \in BOOLEAN, free \in BOOLEAN,
            extra \in BOOLEAN, priv \in BOOLEAN}
ASSUME ndJsonSerialize(OutFile, SetToSeq(Cases))
GenInit == x = 0
GenNext == FALSE /\ x' = x
=============================================================================

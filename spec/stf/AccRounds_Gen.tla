---------------------------- MODULE AccRounds_Gen ----------------------------
(* G-step for C22: accumulation scenarios for the driver (same vocabulary as         *)
(* MC_AccRounds, with the code's real threshold: more than 12 transfers to one       *)
(* receiver).  Senders A, B, C (ids whose numeric order differs from the order of    *)
(* appearance) send nA, nB, nC transfers to the recorder R; variants: A with         *)
(* checkpoint + panic, B through the relay Q (third round), reports in one or two    *)
(* work reports, R always-accumulating, extras (a transfer to a service without code *)
(* and one to a service that does not exist, ten code-less services each receiving   *)
(* a distinguishable amount), privileged services absent or = R.  R (and A) yield an *)
(* accumulation output; id sets include indices above 0x10FFFF / in the surrogate    *)
(* block.                                                                            *)
EXTENDS Integers, Sequences, FiniteSets, Json, TLC, SequencesExt
CONSTANTS OutFile, Tier
VARIABLE x

Counts == { <<1, 0, 0>>, <<2, 1, 0>>, <<1, 1, 1>>, <<6, 6, 0>>, <<7, 6, 0>>, <<7, 7, 0>>, <<12, 0, 1>>, <<13, 0, 0>>,
            <<14, 0, 0>>, <<5, 5, 5>>, <<7, 7, 7>>, <<0, 13, 13>>, <<20, 3, 0>>, <<25, 25, 0>>, <<9, 20, 14>>,
            <<30, 50, 0>>, <<40, 33, 17>>, <<64, 0, 3>>, <<31, 33, 0>> }      \* 64 and more to one receiver: long-list paths of the sort
\* the third set: indices that are not Unicode scalar values (above 0x10FFFF, surrogate block 0xD800..0xDFFF) next to a small one;
\* fb: base of the code-less fan-out services F_1..F_10 of the "extra" variant
IdSets == { [a |-> 5, b |-> 1000, c |-> 77, r |-> 9, q |-> 20, n |-> 30, fb |-> 40, large |-> FALSE],
            [a |-> 70000, b |-> 3, c |-> 256, r |-> 65536, q |-> 255, n |-> 4, fb |-> 300, large |-> FALSE],
            [a |-> 1114117, b |-> 55303, c |-> 2147483000, r |-> 1114200, q |-> 55400, n |-> 4, fb |-> 1114300, large |-> TRUE],
            [a |-> 2147480000, b |-> 1200000, c |-> 57000, r |-> 56000, q |-> 2000000000, n |-> 1114112, fb |-> 2147481000, large |-> TRUE] }
Fan == 10

\* gas: the gas limit handed over with the transfer (the driver's business: the specification assumes ample gas)
Xfg(to, k, base, g) == [i \in 1..k |-> [op |-> "xfer", to |-> to, amt |-> i, tag |-> base + i, gas |-> g]]
Xf(to, k, base) == Xfg(to, k, base, 3000)
Op(o) == <<[op |-> o]>>
Yl(tag) == <<[op |-> "yield", tag |-> tag]>>
\* one transfer of a distinguishable amount to each code-less fan-out service
FanOut(ids) == [k \in 1..Fan |-> [op |-> "xfer", to |-> ids.fb + k, amt |-> 50 + k, tag |-> 700 + k, gas |-> 3000]]

Scenario(cnt, ids, ck, relay, split, free, extra, priv) ==
  [svcs |-> << [id |-> ids.a, code |-> TRUE,
                prog |-> (IF ck THEN Xf(ids.r, 1, 100) \o Yl(5) \o Op("ckpt") \o Xf(ids.r, cnt[1], 110) \o Yl(6) \o Op("panic")
                          ELSE Xf(ids.r, cnt[1], 100) \o Yl(3))],
               [id |-> ids.b, code |-> TRUE, prog |-> IF relay THEN Xfg(ids.q, cnt[2], 200, 4000) ELSE Xf(ids.r, cnt[2], 200)],
               [id |-> ids.c, code |-> TRUE,
                prog |-> (IF extra THEN Xf(ids.n, 1, 500) \o Xf(4242, 1, 600) \o FanOut(ids) ELSE <<>>) \o Xf(ids.r, cnt[3], 300)],
               [id |-> ids.r, code |-> TRUE, prog |-> Op("rec") \o Yl(7)],     \* yields (item count, 7): two outputs when it runs in two rounds
               [id |-> ids.q, code |-> TRUE, prog |-> Op("rec") \o Xfg(ids.r, 2, 400, 1000)],
               [id |-> ids.n, code |-> FALSE, prog |-> <<>>] >>
           \o (IF extra THEN [k \in 1..Fan |-> [id |-> ids.fb + k, code |-> FALSE, prog |-> <<>>]] ELSE <<>>),
   reports |-> IF split THEN << <<ids.a>>, <<ids.b, ids.c>> >> ELSE << <<ids.a, ids.b, ids.c>> >>,
   free |-> IF free THEN <<ids.r>> ELSE <<>>,
   priv |-> IF priv THEN ids.r ELSE 0,
   over12 |-> cnt[1] + cnt[2] + cnt[3] > 12, over63 |-> cnt[1] + cnt[2] + cnt[3] > 63,
   large |-> ids.large, fan |-> extra,
   twice |-> free \/ relay]      \* R runs in two rounds: two accumulation outputs of one service

Cases == {Scenario(cnt, ids, ck, relay, split, free, extra, priv) :
            cnt \in Counts, ids \in IdSets, ck \in BOOLEAN, relay \in BOOLEAN, split \in BOOLEAN, free \in BOOLEAN,
            extra \in BOOLEAN, priv \in BOOLEAN}
ASSUME ndJsonSerialize(OutFile, SetToSeq(Cases))
GenInit == x = 0
GenNext == FALSE /\ x' = x
=============================================================================

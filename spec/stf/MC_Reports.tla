----------------------------- MODULE MC_Reports -----------------------------
(* X02: a small chain of blocks over the admission function of Reports.tla.           *)
(* State: the slot, the pending reports rho, the packages that left the pipeline's    *)
(* front (made available: recent history / accumulation queue / accumulated set are   *)
(* collapsed into `done`), the shuffled base allocations of the current and the       *)
(* previous epoch.  A block advances the slot, clears some cores (availability, and   *)
(* every report older than U slots), then offers a guarantees extrinsic from a small  *)
(* universe (both cores, current / previous / too old / future slots, assigned and    *)
(* unassigned credential sets, wrong keys, unauthorized, prerequisites); it is        *)
(* applied iff StrictlyAdmissible, otherwise the block is invalid and nothing         *)
(* changes.  Checked: consistency of the function (see the properties at the end).    *)
EXTENDS Reports, ShuffleDefs

CONSTANTS V, C, R, E, U_, MaxTau, Pkgs, OffKeys, Rich, NSh
VARIABLES tau, rho, done, sh2, sh3
vars == <<tau, rho, done, sh2, sh3>>

PM == [V |-> V, C |-> C, E |-> E, R |-> R, L |-> 4, J |-> 2, WR |-> 8, GA |-> U(5), U |-> U_, I |-> 2]
Kappa == [i \in 1..V |-> i]
Lambda == [i \in 1..V |-> 10 + i]
Reversed(s) == [i \in 1..Len(s) |-> s[Len(s) + 1 - i]]
Alternate == [i \in 1..V |-> (i - 1) % C]
ShSet == IF NSh >= 3 THEN {Base(V, C), Reversed(Base(V, C)), Alternate} ELSE IF NSh = 2 THEN {Base(V, C), Alternate} ELSE {Alternate}

RECURSIVE SortSet(_)
SortSet(S) == IF S = {} THEN <<>> ELSE LET m == CHOOSE y \in S : \A z \in S : y <= z IN <<m>> \o SortSet(S \ {m})

MCurM(t, s2) == [c |-> Assign(s2, t % E, C, R), k |-> Phi(Kappa, OffKeys)]
MPrevM(t, s2, s3) == LET same == PrevInSameEpoch(PM, t) IN
                     [c |-> Assign(IF same THEN s2 ELSE s3, (t - R) % E, C, R), k |-> Phi(IF same THEN Kappa ELSE Lambda, OffKeys)]

St(t, r, dn) == [tau |-> t, rho |-> r, alpha |-> [c \in 1..C |-> <<1>>], beta |-> <<[h |-> 1, s |-> 1, b |-> 1, rep |-> <<>>]>>,
                 xi |-> SortSet(dn), theta |-> <<>>, delta |-> <<[id |-> 1, code |-> 1, min |-> U(0)]>>, anc |-> <<>>]

Guar(core, pkg, slot, sigs, auth, pre) ==
  [core |-> core, slot |-> slot, sigs |-> sigs, rid |-> pkg, pkg |-> pkg, xroot |-> pkg, auth |-> auth,
   anchor |-> 1, sroot |-> 1, broot |-> 1, lanchor |-> 1, lslot |-> slot, pre |-> pre, srl |-> <<>>,
   res |-> <<[s |-> 1, code |-> 1, gas |-> U(1), out |-> 0, okr |-> TRUE]>>, aout |-> 0]

\* credential sequences: ascending index sets of size 2..3, signed with the key `keys` gives the index
AscSeqs == {SortSet(S) : S \in {T \in SUBSET (0..(V - 1)) : Cardinality(T) \in 2..3}}
Creds(idx, keys, badfirst) == [j \in 1..Len(idx) |-> [i |-> idx[j], k |-> IF badfirst /\ j = 1 THEN 99 ELSE keys[idx[j] + 1], kind |-> "ok"]]
OnCoreSets(m, core) == {q \in AscSeqs : \A j \in 1..Len(q) : m.c[q[j] + 1] = core}
KeysFor(t, slot) == IF SameRotation(PM, t, slot) \/ PrevInSameEpoch(PM, t) THEN Kappa ELSE Lambda

\* the rich universe (single guarantees) and the reduced one (used in pairs)
Slots(t) == {s \in {t, t - R, t + 1, R * ((t \div R) - 1) - 1} : s >= 0}
SigChoices(t, s2, s3, core) == OnCoreSets(MCurM(t, s2), core) \cup OnCoreSets(MPrevM(t, s2, s3), core) \cup {<<0, 1>>, <<0, V - 1>>}
SinglesOn(t, s2, s3, core) ==
  {Guar(core, pkg, slot, Creds(q, KeysFor(t, slot), bf), auth, pre) :
     pkg \in Pkgs, slot \in Slots(t), q \in SigChoices(t, s2, s3, core), bf \in BOOLEAN,
     auth \in {1, 9}, pre \in {<<>>} \cup {<<p>> : p \in Pkgs}}
Singles(t, s2, s3) == UNION {SinglesOn(t, s2, s3, core) : core \in 0..(C - 1)}
Full(m, core) == SortSet({i \in 0..(V - 1) : m.c[i + 1] = core})
Reduced(t, s2, s3, core) ==
  {Guar(core, pkg, slot, Creds(q, KeysFor(t, slot), FALSE), 1, pre) :
     pkg \in Pkgs, slot \in {s \in {t, t - R} : s >= 0},
     q \in {Full(MCurM(t, s2), core), Full(MPrevM(t, s2, s3), core)}, pre \in {<<>>} \cup {<<p>> : p \in Pkgs}}
\* second guarantee of a pair: current slot or previous rotation, no prerequisites
Small(t, s2, s3, core) == {y \in Reduced(t, s2, s3, core) : y.pre = <<>>}
Exts(t, s2, s3) ==
  {<<>>} \cup {<<g>> : g \in IF Rich THEN Singles(t, s2, s3) ELSE UNION {Reduced(t, s2, s3, c) : c \in 0..(C - 1)}}
  \cup {<<a, b>> : a \in Reduced(t, s2, s3, 0), b \in Small(t, s2, s3, 1)}
  \cup {<<b, a>> : a \in {y \in Small(t, s2, s3, 0) : y.slot = t}, b \in {y \in Small(t, s2, s3, 1) : y.slot = t}}

Init == /\ tau = 0 /\ rho = [c \in 1..C |-> NoReport] /\ done = {} /\ sh2 \in ShSet /\ sh3 \in ShSet

Live(r) == {c \in 1..C : r[c].rid # 0}
\* an accepted extrinsic engages exactly its cores, with the block's slot; every other core keeps its
\* pending report unless availability or the time-out removed it (never overwritten)
EngagesExactly(ext, t, gone, r1, r2) ==
  \A c \in 1..C :
    IF \E i \in 1..Len(ext) : ext[i].core = c - 1
    THEN /\ r2[c].t = t /\ r2[c].live
         /\ \E i \in 1..Len(ext) : ext[i].core = c - 1 /\ r2[c].pkg = ext[i].pkg /\ r2[c].rid = ext[i].rid
         /\ (r1[c].rid = 0 \/ c \in gone)                       \* the core was free
    ELSE r2[c] = (IF c \in gone THEN NoReport ELSE r1[c])
ReportersOK(ext, st, M, MS) ==
  \A i \in 1..Len(ext) : \A j \in 1..Len(ext[i].sigs) :
    LET m == MOf(PM, M, MS, st, ext[i]) v == ext[i].sigs[j].i IN
    /\ m.c[v + 1] = ext[i].core
    /\ Reporters(PM, M, MS, st, ext)[i][j] = m.k[v + 1]
    /\ m.k[v + 1] # 0 /\ m.k[v + 1] \notin OffKeys
Block ==
  \E dt \in 1..2 :
    LET t == tau + dt
        newEpoch == (t \div E) # (tau \div E)
    IN /\ t <= MaxTau
       /\ \E s2 \in (IF newEpoch THEN ShSet ELSE {sh2}) :
            LET s3 == IF newEpoch THEN sh2 ELSE sh3
                timedout == {c \in Live(rho) : t >= rho[c].t + U_}
            IN \E avail \in SUBSET (Live(rho) \ timedout) :
                 LET gone == avail \cup timedout
                     marked == [c \in 1..C |-> IF c \in gone THEN [rho[c] EXCEPT !.live = FALSE] ELSE rho[c]]
                 IN \* singleton quantifiers: evaluate the state record and the two assignments once
                    \E st \in {St(t, marked, done)} : \E M \in {MCurM(t, s2)} : \E MS \in {MPrevM(t, s2, s3)} :
                    \E ext \in Exts(t, s2, s3) :
                      IF StrictlyAdmissible(PM, M, MS, st, ext)
                      THEN /\ rho' = RhoNext(PM, st, ext)
                           /\ done' = done \cup {rho[c].pkg : c \in avail}
                           /\ tau' = t /\ sh2' = s2 /\ sh3' = s3
                           /\ Assert(EngagesExactly(ext, t, gone, rho, rho'), "an accepted extrinsic does not engage exactly its cores")
                           /\ Assert(ReportersOK(ext, st, M, MS), "a reporter is not an assigned validator with a live key")
                      ELSE \* an inadmissible extrinsic makes the block invalid: nothing changes
                           UNCHANGED vars
Next == Block
Spec == Init /\ [][Next]_vars

\* ---------------------------------------------------------------- properties
\* no package is pending twice, nor pending and already through
InvPkgUnique == /\ \A c, d \in Live(rho) : c # d => rho[c].pkg # rho[d].pkg
                /\ \A c \in Live(rho) : rho[c].pkg \notin done
InvShape == \A c \in 1..C : rho[c] = NoReport \/ (rho[c].live /\ rho[c].rid # 0 /\ rho[c].t <= tau)
\* a pending report leaves only by availability / time-out and is never replaced while pending
NoOverwrite == [][\A c \in 1..C : rho[c].rid # 0 => (rho'[c] = rho[c] \/ rho'[c] = NoReport \/ rho'[c].t = tau')]_vars
SlotsAdvance == [][tau' > tau]_vars
\* no report outlives U slots
InvNoStale == \A c \in Live(rho) : tau < rho[c].t + U_ \/ tau = rho[c].t
=============================================================================

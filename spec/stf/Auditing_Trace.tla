----------------------------- MODULE Auditing_Trace -----------------------------
(* V-step for X08.  Records (harness/auditing), one per case:                        *)
(*  q         rho avail got                    got[c] = report id of Q_c or 0          *)
(*  a0        C Q v r tab got                  r = VRF output for "jam_audit" ++ Y(H_v) *)
(*                                             under validator v's key, tab = BLAKE2b   *)
(*                                             oracle table for r ++ E_4(k);            *)
(*                                             got = <<core, report, validator, result>>*)
(*  an        n V Q v prior pos bytes got      bytes[w].b0[i] = first byte of the VRF    *)
(*                                             output for s_n(w) with n in Widths[i]     *)
(*  announce  n an verifies                    verifies[i] = the signature verifies for  *)
(*                                             AnnounceVariants[i] (real Ed25519)        *)
(*  judge     items got verifies                                                        *)
(*  audited   V reports judgments assigned per block                                    *)
(*  bus       asg0 pos0 ann jud asg pos                                                 *)
(*  equal     tweak got sym      judgement  mode got                                    *)
(* Deviation_a0_skips_empty_cores (only when the slug is in KnownDeviations): a_0 equal  *)
(* to the first ten NON-EMPTY entries of p although the first ten of p hold fewer.       *)
EXTENDS AuditingDefs, Json
CONSTANTS TraceFile, ResultFile, KnownDeviations
VARIABLES l, devs, bad

Trace == ndJsonDeserialize(TraceFile)
Why(c, s) == IF c THEN {s} ELSE {}
ToSetOf(q) == {q[i] : i \in 1..Len(q)}
MapOf(q, k) == IF \E i \in 1..Len(q) : q[i][1] = k THEN ToSetOf((CHOOSE e \in ToSetOf(q) : e[1] = k)[2]) ELSE {}

JudgeQ(e) == Why(e.got # QOf(e.rho, ToSetOf(e.avail)), "audit_requirement_Q_wrong")

\* returns [bad, dev]
A0Verdict(e) ==
  LET p == CoreOrder(e.C, e.r, e.tab)
      Entry(c) == <<c, e.Q[c + 1], e.v, 0>>
      gp == [i \in 1..Len(A0GP(e.Q, p)) |-> Entry(A0GP(e.Q, p)[i])]
      sk == [i \in 1..Len(A0Skip(e.Q, p)) |-> Entry(A0Skip(e.Q, p)[i])]
  IN IF e.err = 1 THEN [bad |-> {"a0_returned_error"}, dev |-> {}]
     ELSE IF e.got = gp THEN [bad |-> {}, dev |-> {}]
     ELSE IF e.got = sk /\ "a0_skips_empty_cores" \in KnownDeviations THEN [bad |-> {}, dev |-> {"a0_skips_empty_cores"}]
     ELSE [bad |-> {IF e.got = sk THEN "a0_takes_ten_nonempty_instead_of_first_ten" ELSE "a0_differs_from_shuffle_cut"}
                   \cup Why(Len(e.got) > TopN, "a0_more_than_ten")
                   \cup Why(\E i \in 1..Len(e.got) : e.got[i][2] = 0 \/ e.got[i][2] # e.Q[e.got[i][1] + 1], "a0_not_within_Q"),
           dev |-> {}]

JudgeAn(e) ==
  LET ids == {e.Q[c] : c \in 1..Len(e.Q)} \ {0}
      M(w) == NoShows(MapOf(e.prior, w), MapOf(e.pos, w))
      B0(w, i) == (CHOOSE b \in ToSetOf(e.bytes) : b.id = w).b0[i]
      Want(i) == {w \in ids : M(w) > 0 /\ Threshold(B0(w, i), e.V, 2, M(w))}
      gotIds == {e.got[k][2] : k \in 1..Len(e.got)}
  IN IF e.err = 1 THEN {"an_returned_error"}
     ELSE Why(~\E i \in 1..Len(Widths) : gotIds = Want(i), "tranche_selection_differs_from_no_show_threshold")
          \cup Why(\E w \in gotIds : M(w) = 0, "audits_a_report_without_no_shows")
          \cup Why(Len(e.got) # Cardinality(gotIds), "tranche_selection_has_duplicates")
          \cup Why(\E k \in 1..Len(e.got) : e.got[k][3] # e.v \/ e.got[k][2] # e.Q[e.got[k][1] + 1], "tranche_entry_fields")

JudgeAnnounce(e) == IF e.err = 1 THEN {"announcement_error"}
                    ELSE Why(~\E i \in 1..Len(e.verifies) : e.verifies[i] = 1, "announcement_signature_not_over_the_specified_message")
JudgeJudge(e) ==
  Why(\E i \in 1..Len(e.verifies) : e.verifies[i] = 0, "judgment_signature_not_over_the_specified_message")
  \cup Why(Len(e.got) # Len(e.items) \/ \E i \in 1..Min2(Len(e.got), Len(e.items)) : e.got[i][1] # e.items[i][1] \/ e.got[i][2] # e.items[i][2] \/ e.got[i][4] # e.items[i][3],
           "judgments_altered")

JudgeAudited(e) ==
  LET Pos(w) == {e.judgments[i][2] : i \in {i \in 1..Len(e.judgments) : e.judgments[i][1] = w /\ e.judgments[i][3] = 1}}
      Neg(w) == {e.judgments[i][2] : i \in {i \in 1..Len(e.judgments) : e.judgments[i][1] = w /\ e.judgments[i][3] = 0}}
      U(w) == Audited(MapOf(e.assigned, w), Pos(w), Neg(w), e.V)
      n == Len(e.reports)
      blockWant == IF \E k \in 1..n : U(e.reports[k]) = "no" THEN "no" ELSE IF \E k \in 1..n : U(e.reports[k]) = "either" THEN "either" ELSE "yes"
  IN Why(\E k \in 1..n : (U(e.reports[k]) = "yes" /\ e.per[k] = 0) \/ (U(e.reports[k]) = "no" /\ e.per[k] = 1), "report_audited_predicate")
     \cup Why((blockWant = "yes" /\ e.block = 0) \/ (blockWant = "no" /\ e.block = 1), "block_audited_predicate")

JudgeBus(e) ==
  LET ids == {1, 2, 3}
      WantAsg(w) == MapOf(e.asg0, w) \cup {e.ann[i][1] : i \in {i \in 1..Len(e.ann) : w \in ToSetOf(e.ann[i][3])}}
      WantPos(w) == MapOf(e.pos0, w) \cup {e.jud[i][2] : i \in {i \in 1..Len(e.jud) : e.jud[i][1] = w /\ e.jud[i][3] = 1}}
      GotList(q, w) == IF \E i \in 1..Len(q) : q[i][1] = w THEN (CHOOSE x \in ToSetOf(q) : x[1] = w)[2] ELSE <<>>
  IN Why(\E w \in ids : ToSetOf(GotList(e.asg, w)) # WantAsg(w), "announcements_not_merged")
     \cup Why(\E w \in ids : Len(GotList(e.asg, w)) # Cardinality(ToSetOf(GotList(e.asg, w))), "announcer_counted_twice")
     \cup Why(\E w \in ids : ToSetOf(GotList(e.pos, w)) # WantPos(w), "positive_judgments_not_merged")

JudgeEqual(e) == Why((e.tweak = "none") # (e.got = 1), "report_comparison") \cup Why(e.got # e.sym, "report_comparison_not_symmetric")
JudgeThr(e) == Why(e.got # [i \in 1..256 |-> IF Threshold(i - 1, e.V, e.F, e.m) THEN 1 ELSE 0], "no_show_threshold")
JudgeJudgement(e) == Why(e.got = 1, "valid_judgment_without_a_bundle")

Verdict(e) ==
  IF e.panic = 1 THEN [bad |-> {"panic:" \o e.ev}, dev |-> {}]
  ELSE CASE e.ev = "q"         -> [bad |-> JudgeQ(e), dev |-> {}]
         [] e.ev = "a0"        -> A0Verdict(e)
         [] e.ev = "an"        -> [bad |-> JudgeAn(e), dev |-> {}]
         [] e.ev = "announce"  -> [bad |-> JudgeAnnounce(e), dev |-> {}]
         [] e.ev = "judge"     -> [bad |-> JudgeJudge(e), dev |-> {}]
         [] e.ev = "audited"   -> [bad |-> JudgeAudited(e), dev |-> {}]
         [] e.ev = "bus"       -> [bad |-> JudgeBus(e), dev |-> {}]
         [] e.ev = "equal"     -> [bad |-> JudgeEqual(e), dev |-> {}]
         [] e.ev = "thr"       -> [bad |-> JudgeThr(e), dev |-> {}]
         [] e.ev = "judgement" -> [bad |-> JudgeJudgement(e), dev |-> {}]
         [] OTHER              -> [bad |-> {"unknown_event"}, dev |-> {}]

Init == l = 1 /\ devs = {} /\ bad = {}
Next == /\ l <= Len(Trace)
        /\ LET v == Verdict(Trace[l]) IN
           /\ bad' = bad \cup {[l |-> l, why |-> y] : y \in v.bad}
           /\ devs' = devs \cup {[l |-> l, slug |-> y] : y \in v.dev}
        /\ l' = l + 1
TraceSpec == Init /\ [][Next]_<<l, devs, bad>>

Report == (l = Len(Trace) + 1) =>
  JsonSerialize(ResultFile, [n |-> l - 1, devs |-> SetToSeq(devs), bad |-> SetToSeq(bad)])
=============================================================================

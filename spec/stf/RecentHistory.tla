--------------------------- MODULE RecentHistory ---------------------------
(* C25: the recent-history transition (Gray Paper 7.5-7.8).                        *)
(*   beta-dagger = beta_H except the newest entry's state root := H_r (parent      *)
(*                 state root of the block)                                        *)
(*   s      = [E_4(service) ++ hash | (service, hash) <- theta']                   *)
(*   belt'  = A(belt, M_B(s, H_K))            (MMR append, Keccak)                 *)
(*   entry  = (h = H(header), s = H^0, b = M_R(belt'), p = reported packages       *)
(*             (package hash |-> exports root) sorted by hash)                     *)
(*   beta'_H = the last H entries of beta-dagger ++ <<entry>>                      *)
(* The accumulation-output commitment is a hash TERM (MMR.tla, MerkleTree.tla);    *)
(* header hashes, state roots, package hashes and exports roots are opaque byte    *)
(* strings (1 byte in MC, 32 bytes in traces); package hashes are ordered          *)
(* bytewise.                                                                       *)
(*                                                                                 *)
(* Not settled by the statement, hence not demanded: the order of theta' (the      *)
(* generator only produces outputs in ascending service order, where every reading *)
(* agrees) and two guarantees reporting the same package hash (never generated).   *)
EXTENDS HashTerm, SequencesExt
MT == INSTANCE MerkleTree
MM == INSTANCE MMR WITH MaxCount <- 0, peaks <- <<>>, count <- 0, leaves <- <<>>, handed <- <<>>

\* ---- defining equations ----
Dagger(hist, proot) == IF hist = <<>> THEN hist ELSE [hist EXCEPT ![Len(hist)].s = proot]
\* o = [s |-> 4 little-endian bytes, h |-> 32 bytes]
OutBytes(o) == o.s \o o.h
OutRoot(outs) == MT!Mb([i \in 1..Len(outs) |-> Lit(OutBytes(outs[i]))], "kec")
BeltNext(belt, outs) == MM!A(belt, OutRoot(outs))
Commit(belt) == MM!MR(belt)
SortByHash(ps) == SortSeq(ps, LAMBDA a, b : CmpLex(a.hash, b.hash) < 0)
LastN(s, n) == IF Len(s) <= n THEN s ELSE SubSeq(s, Len(s) - n + 1, Len(s))
Entry(hh, zero, b, ps) == [h |-> hh, s |-> zero, b |-> b, p |-> SortByHash(ps)]
HistNext(hist, hh, proot, ps, b, zero, cap) == LastN(Append(Dagger(hist, proot), Entry(hh, zero, b, ps)), cap)

\* ---- the machine (MC) ----
CONSTANTS H,          \* history capacity (Gray Paper: 8)
          Roots,      \* parent state roots a block may carry
          Pkgs,       \* possible reported-package lists (sequences of [hash, exports], extrinsic order)
          Outs,       \* possible accumulation-output lists (ascending service order)
          MaxBlocks
VARIABLES hist,       \* sequence of [h, s, b, p]
          belt,       \* MMR peaks (terms / None)
          n,          \* blocks so far
          inp         \* inputs of the last block
vars == <<hist, belt, n, inp>>
Zero == <<0>>
Hdr(k) == <<100 + k>>            \* header hash of the k-th block

Init == hist = <<>> /\ belt = <<>> /\ n = 0 /\ inp = [proot |-> Zero, ps |-> <<>>, outs |-> <<>>]
Block(proot, ps, outs) ==
  /\ n < MaxBlocks
  /\ belt' = BeltNext(belt, outs)
  /\ hist' = HistNext(hist, Hdr(n + 1), proot, ps, Commit(belt'), Zero, H)
  /\ n' = n + 1
  /\ inp' = [proot |-> proot, ps |-> ps, outs |-> outs]
Next == \E proot \in Roots, ps \in Pkgs, outs \in Outs : Block(proot, ps, outs)
Spec == Init /\ [][Next]_vars

\* ---- properties (statement of C25) ----
HistBound == Len(hist) <= H
\* the belt is the MMR of n appended roots: peak i present iff bit i of n is set
BeltBits == /\ \A i \in 1..Len(belt) : (belt[i] # MM!None) <=> ((n \div Pow2(i - 1)) % 2 = 1)
            /\ (n > 0 => Len(belt) > 0)
\* only the newest entry may carry the zero state root; every entry's header hash is its block's
Shape == /\ \A i \in 1..(Len(hist) - 1) : hist[i].s # Zero
         /\ (hist # <<>> => hist[Len(hist)].s = Zero /\ hist[Len(hist)].b = Commit(belt))
         /\ \A i \in 1..Len(hist) : hist[i].h = Hdr(n - Len(hist) + i)
         /\ \A i \in 1..Len(hist), j \in 1..Len(hist) : i # j => hist[i].b # hist[j].b
         /\ \A i \in 1..Len(hist) : \A k \in 1..(Len(hist[i].p) - 1) : CmpLex(hist[i].p[k].hash, hist[i].p[k + 1].hash) < 0
StepShape == [][
    LET m == Len(hist) m2 == Len(hist') d == m + 1 - m2 IN
    /\ m2 = (IF m + 1 > H THEN H ELSE m + 1)
    /\ hist'[m2].h = Hdr(n') /\ hist'[m2].s = Zero /\ hist'[m2].b = Commit(belt')
    /\ {hist'[m2].p[k] : k \in 1..Len(hist'[m2].p)} = {inp'.ps[k] : k \in 1..Len(inp'.ps)}
    /\ Len(hist'[m2].p) = Len(inp'.ps)
    /\ (m > 0 /\ m2 > 1 => hist'[m2 - 1] = [hist[m] EXCEPT !.s = inp'.proot])
    /\ \A j \in 1..(m2 - 2) : hist'[j] = hist[j + d]           \* all other entries unchanged (shifted when full)
  ]_vars
=============================================================================

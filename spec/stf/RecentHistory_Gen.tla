-------------------------- MODULE RecentHistory_Gen --------------------------
(* G-step for C25.  Input scripts are                                               *)
(*   [init |-> [hist, belt_n], blocks |-> << [hh, proot, gs, outs] >>]              *)
(* (hist: entries [h, s, b, p] of 32-byte values; belt_n: number of roots already   *)
(* in the belt; gs: reported [hash, exports] in extrinsic order; outs: [s, h] in     *)
(* ascending service order).  TLC enumerates a systematic family itself and reads    *)
(* seeded random histories from InFile; for every block it attaches the TERMS of     *)
(* the accumulation-output root, of the belt after the append and of the commitment  *)
(* (the driver evaluates them with real Keccak).                                     *)
EXTENDS HashTerm, SequencesExt, FiniteSets, Json, TLC
CONSTANTS OutFile, InFile, Tier, Seed
VARIABLE x
H == 8
Roots == {}
Pkgs == {}
Outs == {}
MaxBlocks == 0
hist == <<>>
belt == <<>>
n == 0
inp == <<>>
INSTANCE RecentHistory

\* belt holding k roots (as in MMR_Gen: arbitrary distinct leaves)
Belt0(k) == MM!PeaksAfter(k)

RECURSIVE Steps(_, _)
Steps(b, blocks) == IF blocks = <<>> THEN <<>>
                    ELSE LET blk == Head(blocks)
                             b2 == BeltNext(b, blk.outs)
                         IN <<[hh |-> blk.hh, proot |-> blk.proot, gs |-> blk.gs, outs |-> blk.outs,
                               want_mroot |-> OutRoot(blk.outs), want_belt |-> b2, want_b |-> Commit(b2)]>>
                            \o Steps(b2, Tail(blocks))
Expand(sc) == [init |-> [hist |-> sc.init.hist, belt |-> Belt0(sc.init.belt_n), belt_n |-> sc.init.belt_n],
               blocks |-> Steps(Belt0(sc.init.belt_n), sc.blocks)]

\* ---- the systematic family ----
Hx(a, z) == <<a>> \o Zeros(30) \o <<z>>
Z32 == Zeros(32)
PkA == [hash |-> Hx(1, 0), exports |-> Hx(201, 1)]
PkB == [hash |-> Hx(1, 1), exports |-> Hx(202, 2)]      \* differs from PkA in the last byte only
PkC == [hash |-> Hx(0, 255), exports |-> Hx(203, 3)]
PkD == [hash |-> Z32, exports |-> Z32]                   \* the zero hash sorts first
Orders == {<<>>} \cup {<<a>> : a \in {PkA, PkB, PkC}}
          \cup {s \in [1..2 -> {PkA, PkB, PkC}] : s[1] # s[2]}
          \cup {s \in [1..3 -> {PkA, PkB, PkC}] : Cardinality({s[1], s[2], s[3]}) = 3}
          \cup {<<PkC, PkB, PkD, PkA>>}
Out(k) == [s |-> <<k % 256, k \div 256, 0, 0>>, h |-> Hx(50 + (k % 100), k % 7)]
OutLists == {<<>>, <<Out(5)>>, <<Out(5), Out(256)>>, <<Out(0), Out(255), Out(256)>>, <<Out(1), Out(2), Out(3), Out(4), Out(600)>>}
OldEntry(k) == [h |-> Hx(100 + k, k), s |-> Hx(150 + k, 0), b |-> Hx(180 + k, 9),
                p |-> IF k % 3 = 0 THEN <<>> ELSE <<[hash |-> Hx(3, k), exports |-> Hx(4, k)]>>]
OldHist(len) == [k \in 1..len |-> IF k = len THEN [OldEntry(k) EXCEPT !.s = Z32] ELSE OldEntry(k)]
Blk(k, ps, outs) == [hh |-> Hx(230, k), proot |-> Hx(240, k), gs |-> ps, outs |-> outs]
Family(Lens, BeltNs) ==
  {[init |-> [hist |-> OldHist(len), belt_n |-> bn], blocks |-> <<Blk(1, ps, outs), Blk(2, <<PkB>>, <<Out(7)>>)>>]
   : len \in Lens, bn \in BeltNs, ps \in Orders, outs \in OutLists}
Enumerated == IF Tier = "thorough" THEN Family(0..8, {0, 1, 2, 3, 7, 8}) ELSE Family({0, 1, 7, 8}, {0, 3})
\* a long run from genesis: H+12 blocks
RECURSIVE Long(_)
Long(k) == IF k = 0 THEN <<>> ELSE Append(Long(k - 1), Blk(k, IF k % 2 = 0 THEN <<PkA, PkC>> ELSE <<>>, IF k % 3 = 0 THEN <<>> ELSE <<Out(k), Out(k + 300)>>))
Genesis == {[init |-> [hist |-> <<>>, belt_n |-> 0], blocks |-> Long(20)]}

FromFile == IF InFile = "" THEN {} ELSE LET q == ndJsonDeserialize(InFile) IN {q[i] : i \in 1..Len(q)}
Scripts == Enumerated \cup Genesis \cup FromFile

ASSUME ndJsonSerialize(OutFile, SetToSeq({Expand(sc) : sc \in Scripts}))
ASSUME PrintT(<<"GEN", Cardinality(Scripts)>>)
GenInit == x = 0
GenNext == FALSE /\ x' = x
=============================================================================

---------------------------- MODULE AssurancesFn ----------------------------
(* X01: the availability-assurances part of the block transition (Gray Paper       *)
(* section 11.2) as pure functions, shared by the model (Assurances), the case     *)
(* generator (Assurances_Gen) and the trace judge (Assurances_Trace).              *)
(*                                                                                 *)
(* Cores are 1..C here (core index c-1 in the code), validators are 0..V-1.        *)
(* A pending entry of rho is [r |-> report id (0 = empty core), t |-> slot at      *)
(* which it was reported]; Empty = [r |-> 0, t |-> 0].  Report ids are opaque      *)
(* positive integers (the driver keeps the bijection with real work reports).      *)
(* An assurance is [v |-> validator index, f |-> set of cores whose bit is set,    *)
(* anchor |-> TRUE iff its anchor is the parent hash, sig |-> "ok" iff it carries  *)
(* an Ed25519 signature by kappa'[v] over "jam_available" ++ H(anchor ++ bitfield) *)
(* (any other string names the way the driver spoiled the signature)].             *)
(*                                                                                 *)
(* Reconstruction of the Gray Paper clauses (the oracle):                          *)
(*  11.11  every assurance is anchored on the parent hash H_p                      *)
(*  11.10  validator index in N_V                                                  *)
(*  11.12  assurances ordered by validator index, strictly (hence unique)          *)
(*  11.13  signature by kappa'[a_v]_e over X_A ++ H(E(H_p, a_f)), X_A = $jam_available *)
(*  11.15  a_f[c] => rho-dagger[c] # empty                                         *)
(*  11.16  W = [rho-dagger[c]_w | c <- N_C, sum of a_f[c] > 2/3 V]  (core order)    *)
(*  11.17  rho-ddagger[c] = empty if rho[c]_w in W or H_t >= rho-dagger[c]_t + U,  *)
(*         rho-dagger[c] otherwise                                                 *)
(*  10.15  rho-dagger = rho without the reports judged bad or wonky in this block  *)
(*  11.29  a guaranteed report needs rho-ddagger[w_c] = empty (core engaged)        *)
(*  11.43  rho'[c] = (w, t: tau') for a report guaranteed on c, rho-ddagger[c] else *)
(* All of 11.10 - 11.15 are taken as certain: an extrinsic with any such defect    *)
(* must be refused, one without must be accepted.                                  *)
(* Permissive / not discriminated (listed for the reader):                         *)
(*  P1 kappa (prior) versus kappa' (posterior) in 11.13: every case keeps the two  *)
(*     sets equal, either reading passes.                                          *)
(*  P2 WHICH error is reported when several clauses fail is not fixed by the Gray  *)
(*     Paper: the reported class must be one of the defects present; for an        *)
(*     assurance with a foreign anchor or an index outside N_V the signature       *)
(*     clause is undefined / refers to H_p, so "sig" may be reported as well.      *)
(*  P3 set padding bits of the bitfield octets (beyond core C): refusal at         *)
(*     decoding or at any stage is accepted, as is acceptance on the masked bits.  *)
EXTENDS Integers, Sequences, FiniteSets

Empty == [r |-> 0, t |-> 0]
Entry(r, t) == [r |-> r, t |-> t]
SeqSet(s) == {s[i] : i \in 1..Len(s)}

\* more than two thirds of the V validators
Supermajority(V, n) == 3 * n > 2 * V

\* 10.15
RhoDagger(rho, judged) ==
  [c \in DOMAIN rho |-> IF rho[c].r # 0 /\ rho[c].r \in judged THEN Empty ELSE rho[c]]

\* 11.10 - 11.15: the classes of defect present in the extrinsic E
Defects(E, V, rhoD) ==
  (IF \E i \in 1..Len(E) : ~E[i].anchor THEN {"anchor"} ELSE {})
  \cup (IF \E i \in 1..Len(E) : E[i].v \notin 0..(V - 1) THEN {"index"} ELSE {})
  \cup (IF \E i \in 1..(Len(E) - 1) : E[i].v >= E[i + 1].v THEN {"order"} ELSE {})
  \cup (IF \E i \in 1..Len(E) : E[i].sig # "ok" THEN {"sig"} ELSE {})
  \cup (IF \E i \in 1..Len(E) : \E c \in E[i].f : rhoD[c].r = 0 THEN {"core"} ELSE {})

\* P2: the classes a refusal may name
MayName(E, V, rhoD) ==
  Defects(E, V, rhoD)
  \cup (IF \E i \in 1..Len(E) : ~E[i].anchor \/ E[i].v \notin 0..(V - 1) THEN {"sig"} ELSE {})

Count(E, c) == Cardinality({i \in 1..Len(E) : c \in E[i].f})
Counts(E, C) == [c \in 1..C |-> Count(E, c)]

\* 11.16 (the ...N / ...S forms take the per-core counts / the set of available cores already computed)
AvailCoresN(cnt, V, rhoD) == {c \in DOMAIN rhoD : rhoD[c].r # 0 /\ Supermajority(V, cnt[c])}
AvailCores(E, V, rhoD) == {c \in DOMAIN rhoD : rhoD[c].r # 0 /\ Supermajority(V, Count(E, c))}
NthCore(S, i) == CHOOSE c \in S : Cardinality({d \in S : d < c}) = i - 1
AvailSeqS(S, rhoD) == [i \in 1..Cardinality(S) |-> [r |-> rhoD[NthCore(S, i)].r, c |-> NthCore(S, i)]]
AvailSeq(E, V, rhoD) == AvailSeqS(AvailCores(E, V, rhoD), rhoD)

\* 11.17
RhoDDS(rho, rhoD, S, Ht, U) ==
  [c \in DOMAIN rhoD |->
     IF rhoD[c].r = 0 THEN Empty
     ELSE IF rho[c].r \in {rhoD[d].r : d \in S} \/ Ht >= rhoD[c].t + U THEN Empty
     ELSE rhoD[c]]
RhoDD(rho, rhoD, E, V, Ht, U) == RhoDDS(rho, rhoD, AvailCores(E, V, rhoD), Ht, U)

\* 11.29 / 11.43 for a sequence of placements [c |-> core, r |-> report id]
Engaged(rhoDD, places) == \E i \in 1..Len(places) : rhoDD[places[i].c].r # 0
RhoPost(rhoDD, places, Ht) ==
  [c \in DOMAIN rhoDD |->
     IF \E i \in 1..Len(places) : places[i].c = c
     THEN Entry((CHOOSE p \in SeqSet(places) : p.c = c).r, Ht)
     ELSE rhoDD[c]]

\* ---- properties of one applied block, as predicates (used by the model and the judge)
Pending(rho) == {rho[c].r : c \in DOMAIN rho} \ {0}
\* no report both made available and still pending
AvailNotPending(w, rhoDD) == \A i \in 1..Len(w) : w[i].r \notin Pending(rhoDD)
\* availability needs (and follows from) more than 2V/3 assurers of a core holding the report
AvailIffSuper(w, cnt, rhoD, V) ==
  /\ \A i \in 1..Len(w) : rhoD[w[i].c].r = w[i].r /\ Supermajority(V, cnt[w[i].c])
  /\ \A c \in DOMAIN rhoD : (rhoD[c].r # 0 /\ Supermajority(V, cnt[c])) => \E i \in 1..Len(w) : w[i].c = c
  /\ \A i, j \in 1..Len(w) : i < j => w[i].c < w[j].c
\* nothing that has timed out stays pending
NoTimedOut(rho, now, U) == \A c \in DOMAIN rho : rho[c].r # 0 => now < rho[c].t + U
\* assurances never add or move a report
OnlyRemoves(pre, rhoDD) == \A c \in DOMAIN pre : rhoDD[c] = Empty \/ rhoDD[c] = pre[c]
=============================================================================

--------------------------- MODULE WorkDigestDefs ---------------------------
(* C32 — Gray Paper 14.8 (work digest C) and the data-independent fields of 14.16  *)
(* (work-package specification A).  Pure definitions shared by WorkDigest (MC),     *)
(* WorkDigest_Gen and WorkDigest_Trace.                                             *)
(*                                                                                  *)
(*  C(w, l, u) = ( s: w_s, c: w_c, y: H(w_y), g: w_a, l, u,                          *)
(*                 i: |w_i|, x: |w_x|, z: sum of the lengths in w_x, e: w_e )        *)
(*  A(h, b, s) = ( h, l: |b|, u: erasure root (not modelled), e: M(s), n: |s| )      *)
(*                                                                                  *)
(* A work item is a record [s, c, a, e, payload, imports, ext] where s is 4 LE       *)
(* bytes, a 8 LE bytes, c 32 bytes, e < 2^16, imports a sequence (only its length     *)
(* matters), ext the sequence of declared extrinsic lengths (one entry per spec;   *)
(* a spec that occurs twice is counted and summed twice).  H(w_y) and M(s) are    *)
(* hash TERMS (HashTerm / MerkleTree); the driver evaluates them with real BLAKE2b.   *)
EXTENDS MerkleTree

RECURSIVE SumSeq(_)
SumSeq(q) == IF q = <<>> THEN 0 ELSE Head(q) + SumSeq(Tail(q))

Digest(w, result, u) ==
  [s |-> w.s, c |-> w.c, y |-> B2b(Lit(w.payload)), a |-> w.a, result |-> result, u |-> u,
   i |-> Len(w.imports), x |-> Len(w.ext), z |-> SumSeq(w.ext), e |-> w.e]

\* exports: sequence of segment terms
PackageSpec(h, bundleLen, exports) ==
  [h |-> h, l |-> bundleLen, n |-> Len(exports), e |-> M(exports, "b2b")]

\* a segment of W_G = 4104 octets: a short literal prefix followed by zeros
SegLen == 4104
Segment(prefix) == Cat(<<Lit(prefix), RepLit(0, SegLen - Len(prefix))>>)
ZeroSegment == RepLit(0, SegLen)

\* ---- composition (GP 14.11-14.12): what the report computation does with the refinement outcomes.
\* A scripted outcome of item k is [t, dlen, nret]: result kind, length of the output blob, number of
\* segments handed back.  Item k FAILS when the refinement failed, or it handed back a number of segments
\* other than the declared w_e, or its output blob does not fit: dlen + z > W_R where z = |authorizer
\* output| + the output lengths of the earlier successful items.  Every item contributes exactly w_e
\* segments: its own when it succeeded, ZERO segments when it failed - also when a failed refinement handed
\* back exactly w_e segments.  The RESULT of a failed item is only constrained to be an error (the order
\* in which 14.11 tests oversize / bad exports / refinement error is reconstructed from memory: permissive;
\* failed refinements have empty outputs; the size test itself is exact: |o| + outputs <= W_R).
WR == 49152
RECURSIVE FailedFrom(_, _, _, _)
FailedFrom(ws, outs, k, z) ==
  IF k > Len(ws) THEN <<>>
  ELSE LET f == outs[k].t # "ok" \/ outs[k].nret # ws[k].e \/ outs[k].dlen + z > WR
       IN <<f>> \o FailedFrom(ws, outs, k + 1, IF f THEN z ELSE z + outs[k].dlen)
FailedItems(ws, outs, authLen) == FailedFrom(ws, outs, 1, authLen)
ItemSegments(w, failed, own) == IF failed THEN [k \in 1..w.e |-> ZeroSegment] ELSE own
RECURSIVE AllSegments(_, _, _, _)
AllSegments(ws, failed, owns, k) ==
  IF k > Len(ws) THEN <<>> ELSE ItemSegments(ws[k], failed[k], owns[k]) \o AllSegments(ws, failed, owns, k + 1)
RECURSIVE OffsetsFrom(_, _, _)
OffsetsFrom(ws, k, acc) == IF k > Len(ws) THEN <<>> ELSE <<acc>> \o OffsetsFrom(ws, k + 1, acc + ws[k].e)
ExportOffsets(ws) == OffsetsFrom(ws, 1, 0)

=============================================================================

------------------------------ MODULE Safrole ------------------------------
(* C23: the Safrole ticket accumulator and slot-sealer sequence as a machine over   *)
(* block histories (definitions and permissive clauses: SafroleDefs).  One step =   *)
(* one block (slot, ticket extrinsic).  A block that must be rejected leaves the    *)
(* state unchanged; with Strict = TRUE the blocks of the permissive clauses         *)
(* P1-P3 are rejected too (the Gray Paper's reading), with Strict = FALSE they are  *)
(* accepted (the repository's reading).  The properties are the statement of C23    *)
(* and hold under both readings.                                                    *)
(* The hash of (6.26) is an uninterpreted index function here (HIdx); entropies     *)
(* are integers (a fresh one per accepted block); validator keys are integers.      *)
EXTENDS SafroleDefs, TLC

CONSTANTS E, Y, N, V, K,      \* epoch length, submission end, attempts, validators, tickets per block
          MaxId,              \* ticket identifiers 1..MaxId
          TicketKinds,        \* set of [att, pf] a ticket of the extrinsic may have
          MaxT,               \* tickets per generated block
          MaxTau,             \* last slot
          Strict              \* reading of the permissive clauses

VARIABLES tau, ga, gs, eta, kappa, gammak, lambda,
          last                \* the last block: [slot, n, ok]
state == <<tau, ga, gs, eta, kappa, gammak, lambda>>
vars == <<tau, ga, gs, eta, kappa, gammak, lambda, last>>

Iota == [i \in 1..V |-> 30 + i]
Off == {31}
HIdx(r, i) == (r * 5 + i * 3 + 1) % V
IdxSeq(r) == [i \in 1..E |-> HIdx(r, i - 1)]

Tickets == {[id |-> i, att |-> k.att, pf |-> k.pf] : i \in 1..MaxId, k \in TicketKinds}
Extrinsics == UNION {[1..k -> Tickets] : k \in 0..MaxT}

Init == /\ tau = 0 /\ ga = <<>>
        /\ eta = <<4, 3, 2, 1>>
        /\ kappa = [i \in 1..V |-> 10 + i] /\ gammak = [i \in 1..V |-> 20 + i] /\ lambda = [i \in 1..V |-> i]
        /\ gs = Kys(Fallback(IdxSeq(2), [i \in 1..V |-> 10 + i], E))
        /\ last = [slot |-> 0, n |-> <<>>, ok |-> TRUE]

Block(slot, n) ==
  LET e == EpochOf(tau, E)   m == PhaseOf(tau, E)
      e2 == EpochOf(slot, E) m2 == PhaseOf(slot, E)
      rej == MustReject(n, ga, e, e2, m2, Y, N) \/ (Strict /\ MayReject(n, ga, e, e2, E, K))
      eta2 == EtaNext(eta, 100 + slot, e, e2)
      kap2 == IF e2 > e THEN gammak ELSE kappa
  IN /\ slot > tau /\ slot <= MaxTau
     /\ last' = [slot |-> slot, n |-> n, ok |-> ~rej]
     /\ IF rej THEN UNCHANGED state
        ELSE /\ tau' = slot
             /\ ga' = AccNext(n, ga, e, e2, E)
             /\ eta' = eta2
             /\ kappa' = kap2
             /\ gammak' = IF e2 > e THEN Phi(Iota, Off) ELSE gammak
             /\ lambda' = IF e2 > e THEN kappa ELSE lambda
             /\ gs' = IF UseTickets(ga, e, e2, m, E, Y) THEN Tks(Z(ga))
                      ELSE IF e2 = e THEN gs
                      ELSE Kys(Fallback(IdxSeq(eta2[3]), kap2, E))

Next == \E slot \in 1..MaxTau, n \in Extrinsics : Block(slot, n)
Spec == Init /\ [][Next]_vars
View == state

\* ---------------------------------------------------------------- properties (statement of C23)
\* strictly increasing by identifier (hence duplicate-free), at most one epoch long
AccSorted == StrictlyInc(ga)
AccBound == Len(ga) <= E
\* the sealer sequence is E long and is the outside-in ordering of a strictly increasing (full)
\* accumulator, or keys of the current validator set
SealerShape == \/ gs.k = <<>> /\ Len(gs.t) = E /\ StrictlyInc(UnZ(gs.t)) /\ Z(UnZ(gs.t)) = gs.t
               \/ gs.t = <<>> /\ Len(gs.k) = E /\ \A i \in 1..E : \E j \in 1..V : gs.k[i] = kappa[j]

AsSet(s) == {s[i] : i \in 1..Len(s)}
\* an accepted block: the accumulator is the lowest of new + carried-over (reset at an epoch change)
AccLowest == [][last'.ok =>
                 LET e == EpochOf(tau, E) e2 == EpochOf(last'.slot, E) IN
                 IsLowest(ga', AsSet(Bodies(last'.n)) \cup (IF e2 > e THEN {} ELSE AsSet(ga)), E)]_vars
\* the listed defects are refused and change nothing
RejectRule == [][LET e == EpochOf(tau, E) e2 == EpochOf(last'.slot, E) m2 == PhaseOf(last'.slot, E) n == last'.n IN
                 ((m2 >= Y /\ n # <<>>) \/ Unsorted(n) \/ HasDup(n) \/ OverAttempt(n, N)
                    \/ (e2 = e /\ IdsOf(n) \cap IdsOf(ga) # {}))
                 => ~last'.ok /\ UNCHANGED state]_vars
\* within an epoch the accumulator only loses its highest entries
EvictHighest == [][(last'.ok /\ EpochOf(tau, E) = EpochOf(tau', E)) =>
                    \A i \in 1..Len(ga) : ga[i] \in AsSet(ga') \/ \A j \in 1..Len(ga') : ga'[j].id < ga[i].id]_vars
\* (6.24)
SealerRule == [][last'.ok =>
                  LET e == EpochOf(tau, E) m == PhaseOf(tau, E) e2 == EpochOf(tau', E) IN
                  IF e2 = e THEN gs' = gs
                  ELSE IF e2 = e + 1 /\ m >= Y /\ Len(ga) = E THEN gs' = Tks(Z(ga))
                  ELSE gs'.t = <<>> /\ gs'.k = [i \in 1..E |-> kappa'[HIdx(eta'[3], i - 1) + 1]]]_vars
=============================================================================

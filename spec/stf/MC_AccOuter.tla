---------------------------- MODULE MC_AccOuter ----------------------------
(* Design check for X06: properties of the SPECIFIED accumulation pipeline            *)
(* (AccOuterFn!GPx) over the scenario family of AccOuter_Gen, with the model gas       *)
(* (a program that ends normally uses min(budget, c)).                                 *)
(*  Conserve   tokens are conserved: what the remaining services spent = what the new  *)
(*             services hold - what ejected services held (no transfer is left over)   *)
(*  PrivOk     (assigner 1 always hands core 1 over to 16 with assign)                 *)
(*             chi' differs from chi only if the manager re-blessed or a holder handed *)
(*             its own role over; a bless by the ordinary service alone changes nothing *)
(*  NBound     0 <= n <= |reports|, u and gas have one entry per accumulated service,   *)
(*             the rounds end by themselves                                             *)
(*  NMono      the number of accumulated reports does not decrease when the gas limit   *)
(*             grows (same scenario, same gas model)                                    *)
EXTENDS AccOuterScn
CONSTANT Deep
VARIABLES fl, c

FlagsMC == IF Deep THEN Flags ELSE {f \in Flags : ~f.tail /\ ~f.free /\ (f.blessX => f.blessM) /\ (f.prov => f.eject)}
CutsMC == IF Deep THEN <<0, 79999, 80000, 160000, 240000, 340000, 340050>> ELSE <<80000, 240000, 340000>>
\* c = 0: not yet evaluated (TLC computes initial states on one thread; the successors are shared by the workers)
Init == fl \in FlagsMC /\ c = 0
Next == c = 0 /\ c' \in (IF Deep THEN {1, 300, 50000} ELSE {300}) /\ fl' = fl
Spec == Init /\ [][Next]_<<fl, c>>

Res(g) == LET sc == Scenario(fl, g, FALSE) IN GPx(sc, [mode |-> "model", c |-> c])

Verdict ==
  LET sc0 == Scenario(fl, 0, FALSE)
      rs == [k \in 1..Len(CutsMC) |-> Res(CutsMC[k])]
      spentOf(gp) == MapThenSumSet(LAMBDA s : gp.e.spent[s], gp.e.d)
      newsOf(gp) == MapThenSumSet(LAMBDA w : NewCost(w.l), gp.e.news)
      goneOf(gp) == MapThenSumSet(LAMBDA s : SvcOf(sc0, s).bal - gp.e.spent[s], Ids0(sc0) \ gp.e.d)
      prior == E0(sc0).priv
  IN [conserve |-> \A k \in 1..Len(rs) : rs[k].left = 0 /\ spentOf(rs[k]) = newsOf(rs[k]) - goneOf(rs[k]),
      priv     |-> \A k \in 1..Len(rs) :
                     LET p == rs[k].e.priv
                     IN (~fl.blessM /\ ~fl.hand) => (p.m = prior.m /\ p.v = prior.v /\ p.r = prior.r /\ p.z = prior.z /\ p.a \in {prior.a, <<P, A2>>}),
      nbound   |-> \A k \in 1..Len(rs) : /\ rs[k].n >= 0 /\ rs[k].n <= Len(sc0.reports)
                                         /\ Len(rs[k].u) = Len(rs[k].gas) /\ rs[k].rounds < MaxRounds,
      nmono    |-> \A k \in 1..(Len(rs) - 1) : rs[k].n <= rs[k + 1].n]
InvConserve == c = 0 \/ Verdict.conserve
InvPriv == c = 0 \/ Verdict.priv
InvNBound == c = 0 \/ Verdict.nbound
InvNMono == c = 0 \/ Verdict.nmono
InvAll == c = 0 \/ Verdict = [conserve |-> TRUE, priv |-> TRUE, nbound |-> TRUE, nmono |-> TRUE]
=============================================================================

--------------------------- MODULE WorkPackage_Trace ---------------------------
(* V-step for X04.  Records (harness/workpackage):                                  *)
(*  validate mode auth cfg items ok          WorkPackage.Validate                    *)
(*  extract  specs data ok ret               ExtractExtrinsics (ret[i] = blob returned *)
(*                                           for the hash of spec i)                  *)
(*  paged    n want_pages got err            PagedProofs; want_pages = the spec's     *)
(*                                           page terms evaluated with real BLAKE2b   *)
(*  process  package, environment, scripts, ep (package encoding), tab (oracle table  *)
(*           ep -> BLAKE2b), prep (bundle, hash, fetch calls of prepareInputs),       *)
(*           got (report of Process as initial guarantor), shared (report of Process  *)
(*           as second guarantor from the bundle)                                     *)
(* Every line is judged on its own.  See WorkPackageDefs for the permissive clauses.  *)
EXTENDS WorkPackageDefs, Json
CONSTANTS TraceFile, ResultFile, KnownDeviations
VARIABLES l, devs, bad

Trace == ndJsonDeserialize(TraceFile)
Why(c, s) == IF c THEN {s} ELSE {}

\* ---------------------------------------------------------------- validate
JudgeValidate(e) ==
  LET v == Verdict([auth |-> e.auth, cfg |-> e.cfg, items |-> e.items], e.mode)
  IN IF e.panic = 1 THEN {"panic:Validate"}
     ELSE Why(v = "valid" /\ e.ok = 0, "valid_package_rejected") \cup Why(v = "invalid" /\ e.ok = 1, "invalid_package_accepted")

\* ---------------------------------------------------------------- extract
JudgeExtract(e) ==
  LET want == ExtractOK(e.data, e.specs)
  IN IF e.panic = 1 THEN {"panic:ExtractExtrinsics"}
     ELSE Why(want /\ e.ok = 0, "matching_extrinsics_rejected")
          \cup Why(~want /\ e.ok = 1, "mismatching_extrinsics_accepted")
          \cup Why(want /\ e.ok = 1 /\ e.ret # [i \in 1..Len(e.specs) |-> e.specs[i].x], "extrinsic_data_wrong")

\* ---------------------------------------------------------------- paged proofs
JudgePaged(e) ==
  IF e.panic = 1 THEN {"panic:PagedProofs"}
  ELSE IF e.err = 1 THEN {"PagedProofs_returned_error"}
  ELSE Why(Len(e.got) # (e.n + 63) \div 64, "page_count")
       \cup Why(e.got # e.want_pages, "page_content")

\* ---------------------------------------------------------------- process
ItemsOf(e) == [k \in 1..Len(e.items) |->
                 [s |-> e.items[k].s, c |-> e.items[k].c, a |-> e.items[k].a, g |-> e.items[k].g, e |-> e.items[k].e, payload |-> e.items[k].payload,
                  imports |-> e.items[k].imports, ext |-> [i \in 1..Len(e.items[k].xs) |-> Len(e.items[k].xs[i])], xs |-> e.items[k].xs,
                  plen |-> Len(e.items[k].payload), ni |-> Len(e.items[k].imports)]]
ToSetOf(q) == {q[i] : i \in 1..Len(q)}
PairSet(q) == {<<q[i][1], q[i][2]>> : i \in 1..Len(q)}
FetchEntry(e, call) == CHOOSE f \in ToSetOf(e.fetch) : f.eid = call[1] /\ f.n = call[2]

JudgeProcess(e) ==
  LET ws == ItemsOf(e)
      n == Len(ws)
      dict == PairSet(e.dict)
      erasure == PairSet(e.erasure)
      specs == Flat([k \in 1..n |-> [i \in 1..Len(ws[k].xs) |-> [x |-> ws[k].xs[i], l |-> Len(ws[k].xs[i])]]])
      xok == ExtractOK(e.data, specs)
      verdict == Verdict([auth |-> e.auth, cfg |-> e.cfg, items |-> ws], e.mode)
      mustFail == ~xok \/ verdict = "invalid"
      calls == [k \in 1..n |-> ItemFetches(ws[k].imports, dict, erasure)]
      flatCalls == Flat(calls)
      segs == [k \in 1..n |-> [i \in 1..Len(calls[k]) |-> FetchEntry(e, calls[k][i]).prefix \o Zeros(SegLen - Len(FetchEntry(e, calls[k][i]).prefix))]]
      proofs == [k \in 1..n |-> [i \in 1..Len(calls[k]) |-> FetchEntry(e, calls[k][i]).proofs]]
      xs == Flat([k \in 1..n |-> ws[k].xs])
      script == [k \in 1..n |-> [t |-> e.outs[k].t, dlen |-> Len(e.outs[k].data) + e.outs[k].datarep, nret |-> e.outs[k].nret]]
      failed == FailedItems(ws, script, Len(e.authout))
      g == e.got
      BadItem(k) == LET d == Digest(ws[k], e.outs[k], e.outs[k].u)
                        r == g.results[k]
                    IN \/ r.s # d.s \/ r.c # d.c \/ r.y # e.want_ys[k] \/ r.a # d.a \/ r.u # d.u
                       \/ r.i # d.i \/ r.x # d.x \/ r.z # LE(d.z, 4) \/ r.e # d.e
      BadResult(k) == LET r == g.results[k] IN
                      IF ~failed[k] THEN r.rt # "ok" \/ r.rdata # e.outs[k].data ELSE r.rt = "ok"
      wantLookup == LookupOf(ws, dict)
      gotLookup == PairSet(g.lookup)
      prepOK == e.prep.err = 0 /\ e.prep.panic = 0
  IN IF g.panic = 1 \/ e.prep.panic = 1 \/ e.shared.panic = 1 THEN {"panic:Process"}
     ELSE IF mustFail THEN Why(g.err = 0, "report_for_a_package_that_must_be_refused")
     ELSE IF verdict = "either" \/ e.flaw = "nocode" THEN {}      \* unavailable authorizer code: the (scripted) authorizer decides
     ELSE IF g.err = 1 THEN {"acceptable_package_refused"}
     ELSE
       \* preparation: fetches, bundle, package hash
       Why(~prepOK, "prepare_failed")
       \cup Why(prepOK /\ e.prep.calls # flatCalls, "import_resolution_wrong")
       \cup Why(g.calls # flatCalls, "import_resolution_wrong")
       \cup Why(prepOK /\ ~BundleOK(e.prep.bundle, e.ep, xs, segs, proofs), "bundle_encoding")
       \cup Why(prepOK /\ e.prep.h # TabLookup(e.tab, e.ep), "package_hash")
       \* the report
       \cup Why(g.h # TabLookup(e.tab, e.ep), "package_hash")
       \cup Why(prepOK /\ g.l # LE(Len(e.prep.bundle), 4), "bundle_length")
       \cup Why(g.n # e.nsegs, "exports_count")
       \cup Why(g.root # e.want_root, "exports_root")
       \cup Why(Len(g.results) # n, "digest_count")
       \cup Why(Len(g.results) = n /\ \E k \in 1..n : BadItem(k), "report_digest_fields")
       \cup Why(Len(g.results) = n /\ \E k \in 1..n : BadResult(k), "report_digest_result")
       \cup Why(g.offsets # ExportOffsets(ws), "export_segment_offset")
       \cup Why(g.ctx_out # g.ctx_in, "context_not_passed_through")
       \cup Why(g.core # e.core, "core_index")
       \cup Why(g.pa # e.want_pa, "authorizer_hash")
       \cup Why(g.authout # e.authout \/ g.authgas # e.authgas, "authorizer_output_or_gas")
       \cup Why(g.authcode # e.code, "authorizer_code_not_the_looked_up_code")
       \* segment-root lookup dictionary
       \cup Why(~(wantLookup \subseteq gotLookup), "lookup_misses_a_referenced_package")
       \cup Why(gotLookup # wantLookup, "lookup_has_unreferenced_entries")
       \cup Why(Len(g.lookup) # Cardinality(gotLookup) \/ Len(g.lookup) > 8, "lookup_duplicates_or_more_than_8")
       \cup Why(\E i \in 1..(Len(g.lookup) - 1) : g.lookup[i][1] >= g.lookup[i + 1][1], "lookup_not_ordered_by_hash")
       \* the second guarantor, working from the bundle, signs the same report
       \cup Why(prepOK /\ (e.shared.ran = 0 \/ e.shared.err = 1), "second_guarantor_failed")
       \cup Why(prepOK /\ e.shared.ran = 1 /\ e.shared.err = 0 /\ e.shared.rep # g.rep, "guarantors_disagree")

Judge(e) == CASE e.ev = "validate" -> JudgeValidate(e)
              [] e.ev = "extract"  -> JudgeExtract(e)
              [] e.ev = "paged"    -> JudgePaged(e)
              [] e.ev = "process"  -> JudgeProcess(e)
              [] OTHER             -> {"unknown_event"}

Init == l = 1 /\ devs = {} /\ bad = {}
Next == /\ l <= Len(Trace)
        /\ bad' = bad \cup {[l |-> l, why |-> y] : y \in Judge(Trace[l])}
        /\ devs' = devs
        /\ l' = l + 1
TraceSpec == Init /\ [][Next]_<<l, devs, bad>>

Report == (l = Len(Trace) + 1) =>
  JsonSerialize(ResultFile, [n |-> l - 1, devs |-> SetToSeq(devs), bad |-> SetToSeq(bad)])
=============================================================================

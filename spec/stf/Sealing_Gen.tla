---------------------------- MODULE Sealing_Gen ----------------------------
(* G-step for X03.  Cases for harness/sealing (format: its header).                    *)
(*  A  systematic: prior states (fallback epoch in progress; full accumulator in the     *)
(*     tail; restored ticket-sealed epoch; full accumulator just before the submission    *)
(*     end) x slots (next slot, same slot, start of the next epoch, later in it, an epoch  *)
(*     skipped) x { the valid header, the valid header with each applicable single        *)
(*     defect of SealingDefs!Defects }, applied to the same prior state (adv = 0);        *)
(*  H  seeded histories (adv = 1) over several epochs under E=4 and the tiny (E=12, V=6)  *)
(*     parameters: valid blocks with tickets that fill the accumulator (so that           *)
(*     ticket-sealed epochs occur), one defect in about a third of the blocks; a shadow    *)
(*     of the specified state (tau, gamma_a, kind of gamma_s) steers the choices.          *)
(* In a fallback-sealed slot the rightful author depends on BLAKE2b: the descriptor says   *)
(* author = -1 and the driver works it out as a block author would; Sealing_Trace          *)
(* recomputes it from the recorded oracle table.                                           *)
EXTENDS SealingDefs, SequencesExt, Json, TLC
CONSTANTS OutFile, Tier, Seed
VARIABLE x

P4  == [E |-> 4, Y |-> 3, N |-> 2, V |-> 3, K |-> 2]
P12 == [E |-> 12, Y |-> 10, N |-> 3, V |-> 6, K |-> 3]
Thorough == Tier = "thorough"
DefSeq == SetToSeq(Defects)

KeysFrom(a, V) == [i \in 1..V |-> a + i]
InitVals(V) == [kappa |-> KeysFrom(V, V), gammak |-> KeysFrom(2 * V, V), lambda |-> KeysFrom(0, V), iota |-> KeysFrom(3 * V, V)]
DefaultKeys(P, kappa) == [i \in 1..P.E |-> kappa[((i * 2) % P.V) + 1]]
AsPairs(s) == [i \in 1..Len(s) |-> <<s[i].id, s[i].att>>]
GsJ(g) == [t |-> AsPairs(g.t), k |-> g.k]
Ctx(P, tau, slot) == LET e == EpochOf(tau, P.E) e2 == EpochOf(slot, P.E) IN
                     [ce |-> Eta2Index(e, e2), rk |-> IF e2 > e THEN "i" ELSE "g", tab |-> IF e2 > e THEN 1 ELSE 0]
Tk(id, att) == [id |-> id, att |-> att, sig |-> "ok"]
Blk(P, tau, slot, n, desc, adv, d) ==
  LET c == Ctx(P, tau, slot) IN
  [slot |-> slot, adv |-> adv, ce |-> c.ce, rk |-> c.rk, tab |-> c.tab, n |-> n, hdr |-> desc, d |-> d]
Hist(P, U, base, tau, ga, gs, etaBase, blocks) ==
  LET v == InitVals(P.V) IN
  [ev |-> "Hist", P |-> P, U |-> U, base |-> base,
   init |-> [tau |-> tau, ga |-> AsPairs(ga), gs |-> GsJ(gs), eta |-> <<etaBase + 1, etaBase + 2, etaBase + 3, etaBase + 4>>,
             kappa |-> v.kappa, gammak |-> v.gammak, lambda |-> v.lambda, iota |-> v.iota],
   blocks |-> blocks]
Bases(P) == IF P.E = 4 THEN << <<0, 0, 0, 0>>, <<160, 15, 0, 0>>, <<0, 0, 0, 128>>, <<156, 255, 255, 255>> >>
            ELSE << <<0, 0, 0, 0>>, <<224, 46, 0, 0>>, <<248, 255, 255, 127>>, <<148, 254, 255, 255>> >>

\* gamma'_s tickets for a block in `slot` on the shadow s = [tau, ga, gst] (<<>> = keys)
Gs2T(P, s, slot) == LET e == EpochOf(s.tau, P.E) m == PhaseOf(s.tau, P.E) e2 == EpochOf(slot, P.E) IN
                    IF UseTickets(s.ga, e, e2, m, P.E, P.Y) THEN Z(s.ga) ELSE IF e2 = e THEN s.gst ELSE <<>>

\* ---------------------------------------------------------------- family A
FullAcc(P, k) == [i \in 1..P.E |-> [id |-> 2 * i + (k % 2), att |-> (i + k) % P.N]]
PartAcc(P, k) == [i \in 1..(P.E \div 2) |-> [id |-> 3 * i + (k % 2), att |-> (i + k) % P.N]]
StatesA(P) == <<[tau |-> P.E + 1, ga |-> PartAcc(P, 0), gst |-> <<>>],                    \* fallback epoch in progress
                [tau |-> P.E + P.Y, ga |-> FullAcc(P, 1), gst |-> <<>>],                  \* full accumulator, in the tail
                [tau |-> 2 * P.E, ga |-> PartAcc(P, 1), gst |-> Z(FullAcc(P, 0))],        \* ticket-sealed epoch
                [tau |-> P.E + P.Y - 1, ga |-> FullAcc(P, 0), gst |-> <<>>],              \* next slot needs a tickets mark
                [tau |-> 2 * P.E + P.Y, ga |-> FullAcc(P, 1), gst |-> Z(FullAcc(P, 1))]>> \* ticket-sealed, full again, in the tail
SlotsFor(P, s) == LET es == (EpochOf(s.tau, P.E) + 1) * P.E IN
                  <<s.tau + 1, s.tau, es, es + 1, es + P.Y, es + P.E, es + P.E + 2>>
AltsFor(P, s, slot, k) ==
  LET gt == Gs2T(P, s, slot)
      d0 == ValidDescr(s, P, slot, gt, k % P.V, 1 + (k % 5))
      ds == SelectSeq(DefSeq, LAMBDA d : Applicable(d, d0))
      n0 == IF PhaseOf(slot, P.E) < P.Y /\ Len(s.ga) < P.E /\ EpochOf(slot, P.E) = EpochOf(s.tau, P.E) THEN <<Tk(1, 0)>> ELSE <<>>
  IN <<Blk(P, s.tau, slot, <<>>, d0, 0, "none"), Blk(P, s.tau, slot, n0, [d0 EXCEPT !.author = IF gt # <<>> THEN (k + 1) % P.V ELSE 0 - 1], 0, "none")>>
     \o [j \in 1..Len(ds) |-> Blk(P, s.tau, slot, <<>>, Apply(d0, ds[j], P), 0, ds[j])]
HistA(P, U, k) ==
  LET s == StatesA(P)[k]
      sl == SlotsFor(P, s)
      alts == FlattenSeq([j \in 1..Len(sl) |-> AltsFor(P, s, sl[j], j + k)])
  IN Hist(P, U, Bases(P)[(k % 4) + 1], s.tau, s.ga, IF s.gst # <<>> THEN Tks(s.gst) ELSE Kys(DefaultKeys(P, InitVals(P.V).kappa)), 8 * k, alts)
FamA(P, U) == [k \in 1..Len(StatesA(P)) |-> HistA(P, U, k)]

\* ---------------------------------------------------------------- family H
Nx(r) == (r * 75 + 74) % 65537
RECURSIVE NxN(_, _)
NxN(r, k) == IF k = 0 THEN r ELSE NxN(Nx(r), k - 1)
MaxIdOf(ga) == IF ga = <<>> THEN 0 ELSE ga[Len(ga)].id
FreeIds(ga, U, lim) == LET used == IdsOf(ga) IN SelectSeq([i \in 1..U |-> i], LAMBDA i : i \notin used /\ i < lim)
ChooseIds(free, c, r1, r2) ==
  IF c = 0 \/ Len(free) < c THEN <<>>
  ELSE LET G == IF (Len(free) - 1) \div c < 1 THEN 1 ELSE (Len(free) - 1) \div c
           g == IF c = 1 THEN 1 ELSE 1 + (r1 % G)
           a == r2 % (Len(free) - (c - 1) * g)
       IN [j \in 1..c |-> free[a + 1 + (j - 1) * g]]

GenBlock(P, U, s, r, idx) ==
  LET r1 == Nx(r) r2 == Nx(r1) r3 == Nx(r2) r4 == Nx(r3) r5 == Nx(r4) r6 == Nx(r5)
      E == P.E  m == PhaseOf(s.tau, E)
      jump == r1 % 12
      dt == IF jump < 8 THEN 1
            ELSE IF jump = 8 THEN 2
            ELSE IF jump = 9 THEN (IF m < P.Y THEN P.Y - m ELSE E - m)
            ELSE IF jump = 10 THEN E - m + (r2 % E)
            ELSE 2 * E - m + (r2 % E)
      slot == s.tau + dt
      e == EpochOf(s.tau, E) e2 == EpochOf(slot, E) m2 == PhaseOf(slot, E)
      carried == Carried(s.ga, e, e2)
      full == Len(carried) = E
      free == FreeIds(carried, U, IF full THEN MaxIdOf(carried) ELSE U + 1)
      cnt == IF m2 >= P.Y THEN 0 ELSE IF r4 % 10 < 8 THEN P.K ELSE r4 % (P.K + 1)
      ids == ChooseIds(free, IF cnt > Len(free) THEN Len(free) ELSE cnt, r5, r6)
      n == [j \in 1..Len(ids) |-> Tk(ids[j], (r6 + j * 7 + ids[j]) % P.N)]
      nn == [j \in 1..Len(n) |-> [id |-> n[j].id, att |-> n[j].att, pf |-> TRUE]]
      gt == Gs2T(P, s, slot)
      d0 == ValidDescr(s, P, slot, gt, r2 % P.V, idx)
      d == IF r3 % 3 = 0 THEN DefSeq[(r4 % Len(DefSeq)) + 1] ELSE "none"
      deff == d # "none" /\ Applicable(d, d0)
      desc == IF deff THEN Apply(d0, d, P) ELSE d0
  IN [blk |-> Blk(P, s.tau, slot, n, desc, 1, IF deff THEN d ELSE "none"),
      s |-> IF deff THEN s ELSE [tau |-> slot, ga |-> AccNext(nn, s.ga, e, e2, E), gst |-> gt]]

RECURSIVE GenBlocks(_, _, _, _, _, _)
GenBlocks(P, U, s, r, idx, left) ==
  IF left = 0 THEN <<>>
  ELSE LET g == GenBlock(P, U, s, r, idx) IN <<g.blk>> \o GenBlocks(P, U, g.s, NxN(r, 7), idx + 1, left - 1)
HistH(P, U, k, nblocks) ==
  LET r0 == NxN((Seed * 173 + k * 11 + P.E) % 65537, 3)
      kind == r0 % 4
      s0 == IF kind = 0 THEN [tau |-> Nx(r0) % P.E, ga |-> <<>>, gst |-> <<>>]
            ELSE IF kind = 1 THEN [tau |-> P.E + P.Y + (r0 % (P.E - P.Y)), ga |-> FullAcc(P, k), gst |-> <<>>]
            ELSE IF kind = 2 THEN [tau |-> 2 * P.E + (r0 % 2), ga |-> <<>>, gst |-> Z(FullAcc(P, k))]
            ELSE [tau |-> P.E, ga |-> PartAcc(P, k), gst |-> <<>>]
  IN Hist(P, U, Bases(P)[(k % 4) + 1], s0.tau, s0.ga, IF s0.gst # <<>> THEN Tks(s0.gst) ELSE Kys(DefaultKeys(P, InitVals(P.V).kappa)),
          4 * (k % 1000), GenBlocks(P, U, s0, r0, 1, nblocks))
FamH(P, U, count, nblocks) == [k \in 1..count |-> HistH(P, U, k, nblocks)]

Cases == FamA(P4, 12) \o FamA(P12, 40)
         \o FamH(P4, 12, IF Thorough THEN 4000 ELSE 60, 14)
         \o FamH(P12, 40, IF Thorough THEN 2000 ELSE 25, 30)

ASSUME ndJsonSerialize(OutFile, Cases)
ASSUME PrintT(<<"GEN", Len(Cases)>>)
GenInit == x = 0
GenNext == FALSE /\ x' = x
=============================================================================

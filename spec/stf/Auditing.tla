------------------------------- MODULE Auditing -------------------------------
(* MC model for X08: one block's audit.  Tranche 0 assigns auditors by a shuffle of *)
(* the cores (any permutation), later tranches add an auditor for a report when his  *)
(* VRF byte passes the no-show threshold; auditors judge positively, negatively or    *)
(* not at all.  Invariants: tranche-0 picks are reports of Q and at most TopK per     *)
(* auditor; nobody joins a report without no-shows; the threshold is monotone in the  *)
(* number of no-shows; a report counted as audited without a supermajority has no      *)
(* negative judgment and all its auditors judged positively; a block is audited only   *)
(* if every report is.  ASSUMEs relate the two tranche-0 readings.                    *)
EXTENDS AuditingDefs
CONSTANTS V, C, TopK, Bias, ByteSamples
VARIABLES aq, n, asg, pos, neg

Validators == 0..(V - 1)
Reports == {aq[c] : c \in 1..C} \ {0}
vars == <<aq, n, asg, pos, neg>>
Perms == {p \in [1..C -> 0..(C - 1)] : \A i, j \in 1..C : i # j => p[i] # p[j]}
Pick(q, p) == SelectSeq(SubSeq(p, 1, Min2(TopK, C)), LAMBDA c : q[c + 1] # 0)
Init == /\ aq \in [1..C -> {0} \cup (1..C)] /\ \A c, d \in 1..C : (c # d /\ aq[c] # 0) => aq[c] # aq[d]
        /\ n = 0 /\ pos = [w \in 1..C |-> {}] /\ neg = [w \in 1..C |-> {}]
        /\ \E pv \in [Validators -> Perms] :
             asg = [w \in 1..C |-> {v \in Validators : \E i \in 1..Len(Pick(aq, pv[v])) : aq[Pick(aq, pv[v])[i] + 1] = w}]
Judge == \E w \in Reports : \E v \in asg[w] \ (pos[w] \cup neg[w]) : \E b \in BOOLEAN :
           /\ pos' = IF b THEN [pos EXCEPT ![w] = @ \cup {v}] ELSE pos
           /\ neg' = IF b THEN neg ELSE [neg EXCEPT ![w] = @ \cup {v}]
           /\ UNCHANGED <<aq, n, asg>>
NextTranche == /\ n < 2 /\ n' = n + 1
               /\ \E bytes \in [Validators -> ByteSamples] :
                    asg' = [w \in 1..C |-> IF w \in Reports
                                           THEN asg[w] \cup {v \in Validators : Threshold(bytes[v], V, Bias, NoShows(asg[w], pos[w]))}
                                           ELSE asg[w]]
               /\ UNCHANGED <<aq, pos, neg>>
Next == Judge \/ NextTranche
Spec == Init /\ [][Next]_vars

InvTranche0 == n = 0 => \A w \in 1..C : asg[w] # {} => w \in Reports
InvNoJoinWithoutNoShow == [][\A w \in Reports : NoShows(asg[w], pos[w]) = 0 => asg'[w] = asg[w]]_vars
InvAuditedSound == \A w \in Reports :
                     (Audited(asg[w], pos[w], neg[w], V) = "yes" /\ 3 * Cardinality(pos[w]) <= 2 * V) => (neg[w] = {} /\ asg[w] \subseteq pos[w])
InvNegativeBlocks == \A w \in Reports : (neg[w] # {} /\ 3 * Cardinality(pos[w]) <= 2 * V) => Audited(asg[w], pos[w], neg[w], V) = "no"
BlockAudited == \A w \in Reports : Audited(asg[w], pos[w], neg[w], V) = "yes"
InvBlock == BlockAudited => \A w \in Reports : neg[w] = {} /\ (asg[w] \subseteq pos[w] \/ 3 * Cardinality(pos[w]) > 2 * V)

ASSUME \A b \in 0..255, m \in 0..8 : Threshold(b, 1023, 2, m) => Threshold(b, 1023, 2, m + 1)
ASSUME \A b \in 0..255, m \in 0..8 : Threshold(b, 1023, 2, m) <=> ((b * 1023) \div 512 < m)
ASSUME \A b \in 0..255 : ~Threshold(b, 6, 2, 0)
\* the two readings of 17.5 on every Q over 5 cores and every permutation, cut at 2
Q5 == [1..5 -> {0, 1}]
P5 == {p \in [1..5 -> 0..4] : \A i, j \in 1..5 : i # j => p[i] # p[j]}
Gp2(q, p) == SelectSeq(SubSeq(p, 1, 2), LAMBDA c : q[c + 1] # 0)
Sk2(q, p) == LET ne == SelectSeq(p, LAMBDA c : q[c + 1] # 0) IN SubSeq(ne, 1, Min2(2, Len(ne)))
ASSUME \A q \in Q5, p \in P5 : /\ Len(Gp2(q, p)) <= 2 /\ \A i \in 1..Len(Gp2(q, p)) : q[Gp2(q, p)[i] + 1] # 0
                               /\ Gp2(q, p) = SubSeq(Sk2(q, p), 1, Len(Gp2(q, p)))
=============================================================================

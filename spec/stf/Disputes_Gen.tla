---------------------------- MODULE Disputes_Gen ----------------------------
(* G-step for C35: the single-block input partition of the disputes extrinsic,      *)
(* enumerated by TLC (multi-block seeded histories are added by checks/c35.py).      *)
(* Cases are inputs only; Disputes_Trace judges what the code did with them.         *)
(* Validators (V = 6): kappa = key ranks <<3,1,5,7,2,9>>, lambda = <<3,1,4,6,8,9>>,    *)
(* key rank 10 belongs to nobody.  Reports are ranks 1..8.                            *)
EXTENDS Integers, Sequences, SequencesExt, FiniteSets, Json, TLC
CONSTANTS OutFile
VARIABLE x

Kappa == <<3, 1, 5, 7, 2, 9>>
Lambda == <<3, 1, 4, 6, 8, 9>>
Tau == 30                      \* epoch 2 of E = 12: ages "cur" = 2, "prev" = 1

\* five votes by the validators 0..5 except `omit`, the first p of them positive
Idx(omit) == SelectSeq(<<0, 1, 2, 3, 4, 5>>, LAMBDA i : i # omit)
Votes(p, omit) == LET ix == Idx(omit) IN [j \in 1..5 |-> [v |-> (j <= p), i |-> ix[j], sig |-> "ok"]]
Verdict(t, age, p, omit) == [t |-> t, age |-> age, votes |-> Votes(p, omit)]
Culprit(t, k) == [t |-> t, k |-> k, sig |-> "ok"]
Fault(t, k, v) == [t |-> t, k |-> k, v |-> v, sig |-> "ok"]
Culprits(t, ks) == [i \in 1..Len(ks) |-> Culprit(t, ks[i])]
EmptyPsi == [g |-> <<>>, b |-> <<>>, w |-> <<>>, o |-> <<>>]

CaseT(tau, psi, rho, vs, cs, fs) ==
  [kappa |-> Kappa, lambda |-> Lambda, psi |-> psi,
   blocks |-> <<[tau |-> tau, rho |-> rho, verdicts |-> vs, culprits |-> cs, faults |-> fs]>>]
Case(psi, rho, vs, cs, fs) == CaseT(Tau, psi, rho, vs, cs, fs)

\* what a verdict with p positive votes needs (10.13, 10.14), on keys ks
Needs(t, p, ks) == IF p = 0 THEN [c |-> Culprits(t, ks), f |-> <<>>]
                   ELSE IF p = 5 THEN [c |-> <<>>, f |-> <<Fault(t, ks[1], FALSE)>>]
                   ELSE [c |-> <<>>, f |-> <<>>]

\* family 1: one verdict on report 4, every count 0..5, both ages, the report unjudged / already good / bad / wonky,
\* the report pending on core 0 (and report 6 on core 1) or not pending
Prior(j) == CASE j = 0 -> EmptyPsi
              [] j = 1 -> [EmptyPsi EXCEPT !.g = <<4>>]
              [] j = 2 -> [EmptyPsi EXCEPT !.b = <<2, 4>>]
              [] j = 3 -> [EmptyPsi EXCEPT !.w = <<4, 7>>]
              [] OTHER -> [g |-> <<1>>, b |-> <<2>>, w |-> <<3>>, o |-> <<4, 6>>]
F1 == {Case(Prior(j), rho, <<Verdict(4, age, p, omit)>>, Needs(4, p, <<1, 5>>).c, Needs(4, p, <<1, 5>>).f) :
         j \in 0..4, rho \in {<<4, 6>>, <<0, 0>>, <<6, 4>>}, age \in {"cur", "prev"}, p \in 0..5, omit \in {0, 5}}

\* family 2: culprit / fault counts around the thresholds of 10.13 / 10.14
F2 == {Case(EmptyPsi, <<4, 0>>, <<Verdict(4, "cur", 0, 5)>>, Culprits(4, ks), <<>>) :
         ks \in {<<>>, <<2>>, <<2, 7>>, <<1, 2, 8>>, <<7, 2>>, <<2, 2>>, <<2, 10>>}}
      \cup {Case(EmptyPsi, <<4, 0>>, <<Verdict(4, "cur", 5, 5)>>, <<>>, fs) :
         fs \in {<<>>, <<Fault(4, 2, FALSE)>>, <<Fault(4, 2, TRUE)>>, <<Fault(4, 2, FALSE), Fault(4, 6, FALSE)>>,
                 <<Fault(4, 6, FALSE), Fault(4, 2, FALSE)>>, <<Fault(4, 2, FALSE), Fault(4, 2, FALSE)>>,
                 <<Fault(4, 10, FALSE)>>, <<Fault(5, 2, FALSE)>>}}
      \* culprit / fault keys that are already offenders
      \cup {Case([EmptyPsi EXCEPT !.o = <<2, 5>>], <<0, 4>>, <<Verdict(4, "cur", 0, 5)>>, Culprits(4, ks), <<>>) :
         ks \in {<<1, 7>>, <<2, 7>>, <<1, 5>>}}
      \cup {Case([EmptyPsi EXCEPT !.o = <<2, 5>>], <<0, 4>>, <<Verdict(4, "prev", 5, 0)>>, <<>>, <<Fault(4, k, FALSE)>>) : k \in {1, 2, 8}}
      \* a fault with vote TRUE on a bad report, and culprits on a report that is not bad
      \cup {Case(EmptyPsi, <<4, 0>>, <<Verdict(4, "cur", 0, 5)>>, Culprits(4, <<2, 7>>), <<Fault(4, 8, v)>>) : v \in BOOLEAN}
      \cup {Case(EmptyPsi, <<4, 0>>, <<Verdict(4, "cur", p, 5)>>, Culprits(4, <<2, 7>>), <<>>) : p \in {2, 5}}

\* family 3: two verdicts: sorted / unsorted / repeated targets x the three classes and a rejected count
Cl == {0, 2, 5, 3}
F3 == {Case(EmptyPsi, <<t1, t2>>,
            <<Verdict(t1, "cur", p1, 5), Verdict(t2, "prev", p2, 0)>>,
            Needs(t1, p1, <<1, 5>>).c \o Needs(t2, p2, <<6, 8>>).c,
            Needs(t1, p1, <<1, 5>>).f \o Needs(t2, p2, <<6, 8>>).f) :
         t1 \in {2, 5}, t2 \in {2, 5}, p1 \in Cl, p2 \in Cl}

\* family 4: one bad verdict with two culprits and one fault-free good verdict ... each with one defect
Base4 == [vs |-> <<Verdict(3, "cur", 0, 5), Verdict(6, "prev", 5, 2)>>, cs |-> Culprits(3, <<2, 7>>), fs |-> <<Fault(6, 4, FALSE)>>]
Kinds == {"ctx", "key", "target", "zero"}
WithVoteSig(vd, j, kind) == [vd EXCEPT !.votes[j].sig = kind]
F4 == {Case(EmptyPsi, <<3, 6>>, Base4.vs, Base4.cs, Base4.fs)}
      \cup {Case(EmptyPsi, <<3, 6>>, <<WithVoteSig(Base4.vs[1], j, kind), Base4.vs[2]>>, Base4.cs, Base4.fs) : j \in {1, 5}, kind \in Kinds}
      \cup {Case(EmptyPsi, <<3, 6>>, <<Base4.vs[1], WithVoteSig(Base4.vs[2], j, kind)>>, Base4.cs, Base4.fs) : j \in {1, 3}, kind \in Kinds}
      \cup {Case(EmptyPsi, <<3, 6>>, Base4.vs, [Base4.cs EXCEPT ![j].sig = kind], Base4.fs) : j \in {1, 2}, kind \in Kinds}
      \cup {Case(EmptyPsi, <<3, 6>>, Base4.vs, Base4.cs, [Base4.fs EXCEPT ![1].sig = kind]) : kind \in Kinds}
      \cup {Case(EmptyPsi, <<3, 6>>, <<[Base4.vs[1] EXCEPT !.age = a], Base4.vs[2]>>, Base4.cs, Base4.fs) : a \in {"old", "next", "prev"}}
      \cup {Case(EmptyPsi, <<3, 6>>, <<Base4.vs[1], [Base4.vs[2] EXCEPT !.age = a]>>, Base4.cs, Base4.fs) : a \in {"old", "next", "cur"}}
      \* votes out of order / repeated index / index out of range / four or six votes
      \cup {Case(EmptyPsi, <<3, 6>>, <<[Base4.vs[1] EXCEPT !.votes = vv], Base4.vs[2]>>, Base4.cs, Base4.fs) :
              vv \in {[j \in 1..5 |-> Votes(0, 5)[6 - j]],
                      [Votes(0, 5) EXCEPT ![2].i = 0],
                      [Votes(0, 5) EXCEPT ![5].i = 6],
                      SubSeq(Votes(0, 5), 1, 4),
                      Votes(0, 5) \o <<[v |-> FALSE, i |-> 5, sig |-> "ok"]>>,
                      <<>>}}

\* family 5: age x epoch partition (E = 12): prior tau in epoch 0, 1 (first and last slot), 2; every age label;
\* the three accepted counts.  In epoch 0 "prev" (age floor(tau/E)-1) does not exist as a natural number: the
\* driver encodes the wrapped value, and the judge accepts either outcome there (see Disputes_Trace).
F5 == {CaseT(tau, EmptyPsi, <<4, 6>>, <<Verdict(4, age, p, omit)>>, Needs(4, p, <<1, 5>>).c, Needs(4, p, <<1, 5>>).f) :
         tau \in {0, 5, 11, 12, 17, 23, 24, 30}, age \in {"cur", "prev", "old", "next"}, p \in {0, 2, 5}, omit \in {1, 5}}

\* family 6: a judgement repeated (same validator index, same valid signature) at EVERY adjacent position,
\* including the last pair, for the three accepted counts and both ages; and the same index at distance two
Dup(vv, j) == [vv EXCEPT ![j + 1].i = vv[j].i, ![j + 1].v = vv[j].v]
F6 == {Case(EmptyPsi, <<4, 0>>, <<[Verdict(4, age, p, omit) EXCEPT !.votes = Dup(Votes(p, omit), j)]>>,
            Needs(4, q, <<1, 5>>).c, Needs(4, q, <<1, 5>>).f) :
         age \in {"cur", "prev"}, p \in {0, 1, 2, 3, 5}, q \in {0, 2, 5}, omit \in {0, 5}, j \in 1..4}
      \cup {Case(EmptyPsi, <<4, 0>>, <<[Verdict(4, "cur", 5, 5) EXCEPT !.votes[j + 2].i = j - 1]>>, <<>>, <<Fault(4, 1, FALSE)>>) : j \in 1..3}

Cases == F1 \cup F2 \cup F3 \cup F4 \cup F5 \cup F6
ASSUME ndJsonSerialize(OutFile, SetToSeq(Cases))
ASSUME PrintT(<<"GEN", Cardinality(F1), Cardinality(F2), Cardinality(F3), Cardinality(F4), Cardinality(F5), Cardinality(F6)>>)
GenInit == x = 0
GenNext == FALSE /\ x' = x
=============================================================================

----------------------------- MODULE Assurances -----------------------------
(* X01: pending-report availability over a sequence of blocks (Gray Paper 11.2).    *)
(* State: rho (core |-> pending report + slot it was reported at; time is kept      *)
(* relative, "now" = 0 between blocks) and `last`, the record of the block that was *)
(* just processed (kept for one step so that the properties are state invariants).  *)
(* Actions:                                                                         *)
(*   Block   a block dt slots after the previous one: disputes judge a set J of     *)
(*           pending reports (rho-dagger), then the assurances extrinsic E is       *)
(*           applied (11.10 - 11.17) or, if it has any defect, refused.  E ranges   *)
(*           over EVERY correctly ordered, correctly signed extrinsic of V          *)
(*           validators x 2^C bitfields (5^6 = 15 625 for V = 6, C = 2), whose only  *)
(*           possible defect is a bit on a core without report, plus one-defect      *)
(*           variants (foreign anchor, bad signature, swapped / repeated / out of     *)
(*           range validator index) of the uniform extrinsics.                       *)
(*   Settle  the block is over: time is re-based, `last` cleared.                    *)
(*   Place   a guarantee puts a fresh report on an empty core (11.43, t = now).      *)
EXTENDS AssurancesFn, TLC

CONSTANTS V,            \* validators
          C,            \* cores
          U,            \* availability timeout in slots
          RepsPerCore,  \* report ids per core
          Deltas,       \* slot distances between blocks
          MaxJudged     \* how many pending reports one block's disputes may remove (0..C)

VARIABLES rho, last
vars == <<rho, last>>

Cores == 1..C
Vals == 0..(V - 1)
RepsOf(c) == ((c - 1) * RepsPerCore + 1)..(c * RepsPerCore)
EmptyRho == [c \in Cores |-> Empty]
Idle == [st |-> "idle", pre |-> EmptyRho, rhoD |-> EmptyRho, cnt |-> [c \in Cores |-> 0], w |-> <<>>, ht |-> 0]

\* ---- the extrinsics (constant-level: evaluated once)
Absent == {0}                                          \* 0 is not a core
Good(v, f) == [v |-> v, f |-> f, anchor |-> TRUE, sig |-> "ok"]
OfChoice(ch) == LET P == {v \in Vals : ch[v] # Absent}
                IN [i \in 1..Cardinality(P) |-> Good(NthCore(P, i), ch[NthCore(P, i)])]
Ordered == {OfChoice(ch) : ch \in [Vals -> (SUBSET Cores) \cup {Absent}]}
Uniform == {OfChoice([v \in Vals |-> IF v \in P THEN f ELSE Absent]) : P \in SUBSET Vals, f \in SUBSET Cores}
Spoiled(E) ==
  IF Len(E) = 0 THEN {}
  ELSE {[E EXCEPT ![1].anchor = FALSE], [E EXCEPT ![Len(E)].anchor = FALSE],
        [E EXCEPT ![Len(E)].sig = "bad"], [E EXCEPT ![1].sig = "bad"],
        <<E[1]>> \o E,                                                     \* repeated index
        Append(E, Good(V, E[1].f))}                                        \* index outside N_V
       \cup (IF Len(E) < 2 THEN {} ELSE {<<E[2], E[1]>> \o SubSeq(E, 3, Len(E))})   \* out of order
AllE == Ordered \cup UNION {Spoiled(E) : E \in Uniform}

JudgeChoices(r) == {J \in SUBSET Pending(r) : Cardinality(J) <= MaxJudged}

Init == rho = EmptyRho /\ last = Idle

Place(c, r) == /\ last.st = "idle" /\ rho[c] = Empty
               /\ rho' = [rho EXCEPT ![c] = Entry(r, 0)]
               /\ UNCHANGED last

Block ==
  /\ last.st = "idle"
  /\ \E dt \in Deltas, J \in JudgeChoices(rho), E \in AllE :
       LET rhoD == RhoDagger(rho, J) IN
       IF Defects(E, V, rhoD) = {}
       THEN /\ rho' = RhoDD(rho, rhoD, E, V, dt, U)
            /\ last' = [st |-> "applied", pre |-> rho, rhoD |-> rhoD, cnt |-> Counts(E, C),
                        w |-> AvailSeq(E, V, rhoD), ht |-> dt]
       ELSE /\ rho' = rho
            /\ last' = [st |-> "refused", pre |-> rho, rhoD |-> rhoD, cnt |-> Counts(E, C), w |-> <<>>, ht |-> dt]

Settle ==
  /\ last.st # "idle"
  /\ last' = Idle
  /\ rho' = IF last.st = "applied"
            THEN [c \in Cores |-> IF rho[c].r = 0 THEN Empty ELSE Entry(rho[c].r, rho[c].t - last.ht)]
            ELSE rho

Next == Block \/ Settle \/ \E c \in Cores : \E r \in RepsOf(c) : Place(c, r)
Spec == Init /\ [][Next]_vars

\* ---- properties
Now == IF last.st = "applied" THEN last.ht ELSE 0
TypeOK == /\ \A c \in Cores : rho[c] = Empty \/ (rho[c].r \in RepsOf(c) /\ rho[c].t \in (1 - U)..0)
          /\ last.st \in {"idle", "applied", "refused"}
\* no report is both made available and still pending
InvAvailNotPending == last.st = "applied" => AvailNotPending(last.w, rho)
\* a report becomes available exactly when more than 2V/3 validators assured its core
InvAvailIffSuper == last.st = "applied" => AvailIffSuper(last.w, last.cnt, last.rhoD, V)
\* a report that has timed out is no longer pending
InvNoTimedOut == NoTimedOut(rho, Now, U)
\* a refused extrinsic changes nothing
InvRefusedNoChange == last.st = "refused" => (rho = last.pre /\ last.w = <<>>)
\* assurances only remove; what disputes removed is neither pending nor available
InvOnlyRemoves == last.st = "applied" =>
                    /\ OnlyRemoves(last.pre, rho)
                    /\ \A c \in Cores : (last.pre[c].r # 0 /\ last.rhoD[c].r = 0) =>
                          (rho[c] = Empty /\ \A i \in 1..Len(last.w) : last.w[i].r # last.pre[c].r)
\* a pending report that is neither judged, nor assured by a supermajority, nor timed out stays
InvStays == last.st = "applied" =>
              \A c \in Cores : (last.rhoD[c].r # 0 /\ ~Supermajority(V, last.cnt[c]) /\ last.ht < last.rhoD[c].t + U)
                                  => rho[c] = last.pre[c]
\* refusal happens (vacuity guard, expected to be VIOLATED when listed):
NeverRefused == last.st # "refused"
=============================================================================

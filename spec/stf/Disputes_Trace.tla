--------------------------- MODULE Disputes_Trace ---------------------------
(* V-step for C35.  Events recorded by harness/disputes (one history per Reset):     *)
(*   Reset V kappa lambda psi          validator key ranks, prior records             *)
(*   Block tau rho verdicts culprits faults -> ok err psi rho_dagger mark             *)
(*     verdicts [t, age, votes [v, i, sig]], culprits [t, k, sig], faults [t, v, k,   *)
(*     sig]: the extrinsic the driver built and signed with real Ed25519 keys; `sig`  *)
(*     says how it signed ("ok" = right key, right context, right report; anything    *)
(*     else = deliberately wrong), `age` in "cur" | "prev" | "old" | "next" relative  *)
(*     to floor(tau/E).  ok/err = result of extrinsic.Disputes(); psi = posterior      *)
(*     records in exported order (ranks); rho_dagger = cores after 10.15; mark =       *)
(*     offenders mark.  After an accepted block the posterior records become prior.   *)
(*   GoPanic                            never accepted                                 *)
(* Judgement (see DisputesFn header): accepted => not SureInvalid (which includes the   *)
(* statement's MustReject) and the posterior records / cores are exactly the specified  *)
(* ones (sorted, merged); refused => the strict reading refuses too.                    *)
EXTENDS DisputesFn, Json, TLC
CONSTANTS TraceFile, ResultFile, KnownDeviations
VARIABLES psi, vcount, allowed, elen, l

Trace == ndJsonDeserialize(TraceFile)
e == Trace[l]
Is(name) == l <= Len(Trace) /\ e.ev = name /\ l' = l + 1

Positive(vd) == Cardinality({i \in 1..Len(vd.votes) : vd.votes[i].v})
VS(ev) == [i \in 1..Len(ev.verdicts) |-> [t |-> ev.verdicts[i].t, s |-> Positive(ev.verdicts[i])]]
CS(ev) == [i \in 1..Len(ev.culprits) |-> [t |-> ev.culprits[i].t, k |-> ev.culprits[i].k]]
FS(ev) == [i \in 1..Len(ev.faults) |-> [t |-> ev.faults[i].t, k |-> ev.faults[i].k, v |-> ev.faults[i].v]]
PsiOf(j) == [g |-> j.g, b |-> j.b, w |-> j.w, o |-> j.o]

\* clauses about the raw extrinsic: certain ones (10.3 signatures and key set by age, 10.10 order of
\* judgements, validator index in range) and the unsure one (number of judgements, see DisputesFn)
RawSureInvalid(ev, V) ==
  \/ \E i \in 1..Len(ev.verdicts) :
        LET vd == ev.verdicts[i] IN
        \/ vd.age \notin {"cur", "prev"}
        \/ \E j \in 1..Len(vd.votes) : vd.votes[j].sig # "ok" \/ vd.votes[j].i \notin 0..(V - 1)
        \/ ~StrictlySorted([j \in 1..Len(vd.votes) |-> vd.votes[j].i])
  \/ \E i \in 1..Len(ev.culprits) : ev.culprits[i].sig # "ok"
  \/ \E i \in 1..Len(ev.faults) : ev.faults[i].sig # "ok"
RawCountOK(ev, V) == \A i \in 1..Len(ev.verdicts) : Len(ev.verdicts[i].votes) = GoodN(V)
\* In epoch 0 the age floor(tau/E) - 1 is not a natural number; the driver sends the wrapped 32-bit value.  The
\* statement does not settle it: refusal is allowed (strict reading), acceptance too.  From epoch 1 on "prev" is
\* the previous epoch and must be accepted like "cur".
RawAgeExists(ev, epoch) == \A i \in 1..Len(ev.verdicts) : ev.verdicts[i].age = "prev" => epoch >= 1

TReset == /\ Is("Reset")
          /\ psi' = PsiOf(e.psi)
          /\ vcount' = e.V
          /\ allowed' = SetOf(e.kappa) \cup SetOf(e.lambda)
          /\ elen' = e.E

TBlock ==
  /\ Is("Block")
  /\ LET vs == VS(e) cs == CS(e) fs == FS(e)
         sure == RawSureInvalid(e, vcount) \/ SureInvalid(vcount, psi, vs, cs, fs, allowed)
         strict == ~sure /\ RawCountOK(e, vcount) /\ RawAgeExists(e, e.tau \div elen) /\ FaultTargetsJudged(vcount, psi, vs, cs, fs)
     IN IF e.ok
        THEN /\ ~sure                                                         \* S1, S3 (MustReject) and the certain clauses
             /\ PsiOf(e.psi) = PsiNext(vcount, psi, vs, cs, fs)                \* S1, S2, S3 (sorted merge)
             /\ e.rho_dagger = RhoDagger(vcount, e.rho, vs)                    \* S4
             /\ e.mark = OffendersMark(cs, fs)                                 \* 10.20
             /\ psi' = PsiOf(e.psi)
        ELSE /\ ~strict                                                        \* a valid block is not refused
             /\ psi' = psi
  /\ UNCHANGED <<vcount, allowed, elen>>

TraceInit == l = 1 /\ psi = [g |-> <<>>, b |-> <<>>, w |-> <<>>, o |-> <<>>] /\ vcount = 6 /\ allowed = {} /\ elen = 12
TraceNext == TReset \/ TBlock
TraceSpec == TraceInit /\ [][TraceNext]_<<psi, vcount, allowed, elen, l>>

\* S1 / S2 on every state the code went through
RecordsDisjoint == Disjoint(psi)
RecordsSorted == AllSorted(psi)

Report == (l = Len(Trace) + 1) => JsonSerialize(ResultFile, [n |-> l - 1, devs |-> <<>>, bad |-> <<>>])
=============================================================================

--------------------------- MODULE AccRounds_Trace ---------------------------
(* V-step for C22.  One record per scenario (harness/accrounds): the scenario `sc`   *)
(* and, for each entry point, the GROUPS of identical observations over `runs`       *)
(* repetitions on identical prior states under varying GOMAXPROCS / MaxWorkers:      *)
(*   stf    DeferredTransfers(): per service what its storage recorded, balances,    *)
(*          digests of everything else in the posterior state                        *)
(*   par    ParallelizedAccumulation() of the first round: t' and the gas list u     *)
(*   outer  OuterAccumulation(): gas list over all rounds, number of reports         *)
(*   single SingleServiceAccumulation() of every receiver on the first round's        *)
(*          transfers handed over in a seeded arbitrary order (Delta1 takes any t)    *)
(* Demanded (statement of C22): every entry point yields ONE group (identical        *)
(* posterior whatever the schedule / map order), and that group is the Gray-Paper    *)
(* layer's unique result (AccRounds!GP): recorded order, balances, t', u.            *)
EXTENDS AccRoundsFn, Bytes, Json
CONSTANTS TraceFile, ResultFile, KnownDeviations
VARIABLES l, devs, bad
Trace == ndJsonDeserialize(TraceFile)

Scn(e) == [svcs |-> e.sc.svcs, reports |-> e.sc.reports, free |-> e.sc.free]
Proj(store) == [k \in 1..Len(store) |-> [kind |-> store[k].kind, from |-> store[k].from, tag |-> store[k].tag]]
Keys(store) == [k \in 1..Len(store) |-> store[k].i]
ProjT(tt) == [k \in 1..Len(tt) |-> [from |-> tt[k].from, to |-> tt[k].to, amt |-> tt[k].amt, tag |-> tt[k].tag]]

\* theta' = b in ascending (service, output) order; the driver logs the first 8 octets of an output: [count, tag, 0..]
Y8(y) == <<y.n % 256, y.tag, 0, 0, 0, 0, 0, 0>>
ThetaOk(th, gp) ==
  /\ {[id |-> th[k].id, h |-> th[k].h] : k \in 1..Len(th)} = {[id |-> p.id, h |-> Y8(p.y)] : p \in gp.b}
  /\ Len(th) = Cardinality(gp.b)
  /\ \A k \in 1..(Len(th) - 1) : th[k].id < th[k + 1].id \/ (th[k].id = th[k + 1].id /\ CmpLex(th[k].h, th[k + 1].h) < 0)

StfWhy(e, scn, gp) ==
  IF Len(e.stf) # 1 THEN {"nondeterministic_posterior"}
  ELSE LET o == e.stf[1].obs
       IN IF o.err # "" \/ o.panic # "" THEN {"accumulation_failed"}
          ELSE (IF {a.id : a \in Ran(o.acc)} # Ids(scn) \/ Len(o.acc) # Cardinality(Ids(scn)) THEN {"service_set_differs"} ELSE
                (IF \E a \in Ran(o.acc) : Keys(a.store) # [k \in 1..Len(a.store) |-> k - 1] \/ Proj(a.store) # gp.e.store[a.id]
                   THEN {"recorded_order_differs_from_gray_paper"} ELSE {})
                \cup (IF \E a \in Ran(o.acc) : a.spent # gp.e.spent[a.id] THEN {"balances_differ_from_gray_paper"} ELSE {})
                \cup (IF ~ThetaOk(o.theta, gp) THEN {"accumulation_outputs_differ_from_gray_paper"} ELSE {}))
ParWhy(e, scn) ==
  IF Len(e.par) # 1 THEN {"nondeterministic_parallel_output"}
  ELSE LET o == e.par[1].obs
           p == ParallelGP(scn, E0(scn), <<>>, scn.reports, scn.free)
       IN IF o.err # "" \/ o.panic # "" THEN {"accumulation_failed"}
          ELSE (IF ProjT(o.t) # p.t THEN {"transfer_sequence_differs_from_gray_paper"} ELSE {})
               \cup (IF o.u # p.u THEN {"gas_list_order_differs_from_gray_paper"} ELSE {})
OuterWhy(e, scn, gp) ==
  IF Len(e.outer) # 1 THEN {"nondeterministic_outer_output"}
  ELSE LET o == e.outer[1].obs
       IN IF o.err # "" \/ o.panic # "" THEN {"accumulation_failed"}
          ELSE (IF o.u # gp.u THEN {"gas_list_order_differs_from_gray_paper"} ELSE {})
               \cup (IF o.n # Len(scn.reports) THEN {"accumulated_report_count_differs"} ELSE {})

\* Delta1 on its own: any transfer sequence tin, the service sees its transfers by sender, then by position in tin
SingleWhy(x, scn) ==
  IF Len(x.groups) # 1 THEN {"nondeterministic_single_output"}
  ELSE LET o == x.groups[1].obs
           tin == ProjT(x.tin)
           want == Single(scn, E0(scn), x.s, InT(tin, x.s), <<>>)
       IN IF o.err # "" \/ o.panic # "" THEN {"accumulation_failed"}
          ELSE (IF Keys(o.store) # [k \in 1..Len(o.store) |-> k - 1] \/ Proj(o.store) # want.store
                  THEN {"single_service_order_differs_from_gray_paper"} ELSE {})
               \cup (IF o.spent # want.spent \/ ProjT(o.t) # want.out THEN {"single_service_result_differs_from_gray_paper"} ELSE {})

Why(e) == LET scn == Scn(e)
              gp == GP(scn)
          IN StfWhy(e, scn, gp) \cup ParWhy(e, scn) \cup OuterWhy(e, scn, gp)
             \cup UNION {SingleWhy(e.single[i], scn) : i \in 1..Len(e.single)}

TInit == l = 1 /\ devs = {} /\ bad = {}
TNext == /\ l <= Len(Trace)
         /\ bad' = bad \cup {[l |-> l, why |-> w] : w \in Why(Trace[l])}
         /\ devs' = devs
         /\ l' = l + 1

TraceSpec == TInit /\ [][TNext]_<<l, devs, bad>>
Report == (l = Len(Trace) + 1) =>
  JsonSerialize(ResultFile, [n |-> l - 1, devs |-> SetToSeq(devs), bad |-> SetToSeq(bad)])
=============================================================================

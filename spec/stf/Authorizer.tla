----------------------------- MODULE Authorizer -----------------------------
(* C24: the authorizer-pool transition (Gray Paper 8.2-8.3).                       *)
(*   F(c)      = alpha[c] with the leftmost occurrence of (g_r)_a removed, for     *)
(*               each guarantee g of the block with (g_r)_c = c                    *)
(*   alpha'[c] = the last O entries of  F(c) \o << phi'[c][H_t mod Q] >>           *)
(* Authorizer hashes are opaque: only their identity matters, so every operator    *)
(* below is generic in the element type (model values in MC, names in traces).     *)
(*                                                                                 *)
(* Permissive clause: the Gray Paper allows one guarantee per core; the statement  *)
(* speaks of "that core's guarantees".  Several guarantees on one core remove one  *)
(* leftmost occurrence each, in extrinsic order (the result does not depend on the *)
(* order).  When two guarantees of one core name the SAME authorizer the statement *)
(* ("each authorizer used") can be read as one or as two removals: PoolNextSet     *)
(* accepts both.                                                                   *)
EXTENDS Integers, Sequences, FiniteSets, TLC

\* ---- the defining equations (pure) ----
RECURSIVE RemoveLeftmost(_, _)
RemoveLeftmost(s, h) == IF s = <<>> THEN <<>>
                        ELSE IF Head(s) = h THEN Tail(s)
                        ELSE <<Head(s)>> \o RemoveLeftmost(Tail(s), h)

RECURSIVE RemoveEach(_, _)
RemoveEach(s, hs) == IF hs = <<>> THEN s ELSE RemoveEach(RemoveLeftmost(s, Head(hs)), Tail(hs))

LastN(s, n) == IF Len(s) <= n THEN s ELSE SubSeq(s, Len(s) - n + 1, Len(s))

\* authorizers used by the guarantees of core c, in extrinsic order
RECURSIVE UsedBy(_, _)
UsedBy(gs, c) == IF gs = <<>> THEN <<>>
                 ELSE (IF Head(gs).core = c THEN <<Head(gs).auth>> ELSE <<>>) \o UsedBy(Tail(gs), c)

\* the same without repetitions (first occurrences kept)
RECURSIVE Dedup(_)
Dedup(s) == IF s = <<>> THEN <<>>
            ELSE LET d == Dedup(SubSeq(s, 1, Len(s) - 1)) IN
                 IF \E i \in 1..Len(d) : d[i] = s[Len(s)] THEN d ELSE Append(d, s[Len(s)])

PoolNext(pool, used, entry, o) == LastN(RemoveEach(pool, used) \o <<entry>>, o)
\* every result the statement allows (see the permissive clause in the header)
PoolNextSet(pool, used, entry, o) == {PoolNext(pool, used, entry, o), PoolNext(pool, Dedup(used), entry, o)}

\* ---- data conventions of the generated cases and recorded traces ----
\* a slot is a little-endian byte tuple (it may exceed TLC's 32-bit integers): slot mod q by Horner
RECURSIVE SlotMod(_, _)
SlotMod(bs, q) == IF bs = <<>> THEN 0 ELSE (bs[1] + 256 * SlotMod(Tail(bs), q)) % q
\* a queue of core c is described, not listed: entry i (0-based) is an override if one is given,
\* else per[i mod |per|] if a period is given, else the distinct name "<tag>_<c>_<i>"
QueueAt(qd, c, i) ==
  IF \E k \in 1..Len(qd.over) : qd.over[k].i = i
  THEN qd.over[CHOOSE k \in 1..Len(qd.over) : qd.over[k].i = i /\ \A j \in 1..(k - 1) : qd.over[j].i # i].h
  ELSE IF Len(qd.per) > 0 THEN qd.per[(i % Len(qd.per)) + 1]
  ELSE qd.tag \o "_" \o ToString(c) \o "_" \o ToString(i)

\* ---- the machine: one block per step, inputs recorded in `inp` ----
CONSTANTS O,        \* pool capacity (Gray Paper: 8)
          Q,        \* queue length (Gray Paper: 80)
          Cores,    \* set of core indices
          Syms,     \* authorizer hashes that may sit in an initial pool
          GSyms,    \* authorizer hashes a guarantee may name (includes ones never in a pool)
          QSyms,    \* authorizer hashes a queue may hold
          MaxG,     \* guarantees per block
          MaxSlot
VARIABLES alpha,    \* core -> sequence of authorizer hashes
          inp       \* inputs of the last block: [slot, gs, phi]
vars == <<alpha, inp>>

SeqsUpTo(S, n) == UNION {[1..k -> S] : k \in 0..n}
Guarantees == SeqsUpTo([core : Cores, auth : GSyms], MaxG)
Queues == [Cores -> [0..(Q - 1) -> QSyms]]
NoInput == [slot |-> 0, gs |-> <<>>, phi |-> [c \in Cores |-> [i \in 0..(Q - 1) |-> CHOOSE x \in QSyms : TRUE]]]

AlphaNext(a, slot, gs, phi) == [c \in DOMAIN a |-> PoolNext(a[c], UsedBy(gs, c), phi[c][slot % Q], O)]

Init == alpha \in [Cores -> SeqsUpTo(Syms, O)] /\ inp = NoInput      \* any restored state
Block(slot, gs, phi) == /\ alpha' = AlphaNext(alpha, slot, gs, phi)
                        /\ inp' = [slot |-> slot, gs |-> gs, phi |-> phi]
Next == \E slot \in 0..MaxSlot, gs \in Guarantees, phi \in Queues : Block(slot, gs, phi)
Spec == Init /\ [][Next]_vars
View == alpha

\* ---- properties (statement of C24) ----
PoolBound == \A c \in Cores : Len(alpha[c]) <= O

\* declarative reading of "leftmost occurrence removed": position min{i : s[i] = h} disappears,
\* everything else keeps its place and order; absent => unchanged
IsLeftmostRemoval(s, h, r) ==
  LET I == {i \in 1..Len(s) : s[i] = h} IN
  IF I = {} THEN r = s
  ELSE LET m == CHOOSE i \in I : \A j \in I : i <= j IN
       /\ Len(r) = Len(s) - 1
       /\ \A i \in 1..Len(r) : r[i] = IF i < m THEN s[i] ELSE s[i + 1]
RemovalSound == \A c \in Cores, h \in GSyms : IsLeftmostRemoval(alpha[c], h, RemoveLeftmost(alpha[c], h))

\* the newest entry is the queue entry selected by the slot; a core without guarantees only
\* shifts; a core's new pool depends on that core's guarantees only; lengths follow
Count(s, h) == Cardinality({i \in 1..Len(s) : s[i] = h})
StepShape == [][\A c \in Cores :
      LET used == UsedBy(inp'.gs, c)
          q == inp'.phi[c][inp'.slot % Q]
          kept == RemoveEach(alpha[c], used) IN
      /\ alpha'[c] # <<>> /\ alpha'[c][Len(alpha'[c])] = q
      /\ (used = <<>> => alpha'[c] = LastN(alpha[c] \o <<q>>, O))
      /\ Len(alpha'[c]) = (IF Len(kept) + 1 > O THEN O ELSE Len(kept) + 1)
      /\ \A h \in GSyms \cup Syms \cup QSyms :
           Count(kept, h) = (IF Count(alpha[c], h) > Count(used, h) THEN Count(alpha[c], h) - Count(used, h) ELSE 0)
      /\ alpha'[c] = PoolNext(alpha[c], UsedBy(SelectSeq(inp'.gs, LAMBDA g : g.core = c), c), q, O)
  ]_vars
=============================================================================

----------------------------- MODULE AccRoundsFn -----------------------------
(* Accumulation rounds (Gray Paper 12.16-12.20: Delta+, Delta*, Delta1 with the      *)
(* accumulation invocation B.8-B.13 reduced to what decides ORDER).  Property C22.   *)
(*                                                                                   *)
(* Two layers over the same scenario:                                                *)
(*  * the Gray-Paper layer (Exec, Single, ParallelGP, OuterGP): a FUNCTION.  Services *)
(*    of a round are taken in ascending id order; a service sees the transfers       *)
(*    addressed to it ordered by sender id and, for one sender, in emission order,   *)
(*    followed by its operands; t' is the concatenation of the services' transfers   *)
(*    in ascending service order; u lists the services ascending.                    *)
(*  * the implementation-shaped layer (variables + Next): the services of a round    *)
(*    run in any order (goroutines) from the round's initial state; their results    *)
(*    are merged in the order in which a Go map hands out its keys ("asis": any      *)
(*    order; "repaired": ascending); the incoming transfers of a service are sorted  *)
(*    by sender with a sort that is stable only up to StableUpTo elements ("asis":   *)
(*    above that, equal senders come out in ANY order; "repaired": always stable).   *)
(* TLC explores every choice; the invariants compare each component of the outcome   *)
(* with the Gray-Paper layer's unique result and so name the order-dependent ones.   *)
(*                                                                                   *)
(* Scenario: svcs  sequence of [id, code (BOOLEAN), prog]; prog is a sequence of     *)
(*                 [op |-> "xfer", to, amt, tag] | "rec" | "ckpt" | "panic" |        *)
(*                 [op |-> "yield", tag]  (accumulation output = (number of items    *)
(*                 counted by the last "rec" of this run, tag); it lives in the      *)
(*                 context like everything else: checkpoint keeps it, panic drops    *)
(*                 what came after the checkpoint)                                   *)
(*           reports  sequence of reports, each a sequence of service ids (results)  *)
(*           free  sequence of always-accumulate service ids                         *)
(* "rec" stores the items the service is shown (transfers, then operands) under keys *)
(* 0,1,2..; keys beyond the current item count keep what an earlier round left.      *)
(* The outputs of all rounds form the SET b of (service, output) pairs (12.17/12.16): *)
(* a service accumulated in two rounds of one block with different outputs has two   *)
(* pairs; theta' lists b in ascending (service, output) order.                       *)
(* A transfer to a service that does not exist is refused (WHO) and costs nothing;   *)
(* balances are ample; a service without code is credited but runs nothing.          *)
(* Scenarios have at least one report or always-accumulate service and must be      *)
(* acyclic (a service that is sent to never causes, directly or    *)
(* indirectly, a transfer back to a service that sends to it): rounds are bounded.   *)
EXTENDS Integers, Sequences, FiniteSets, SequencesExt, FiniteSetsExt, TLC

Ran(s) == {s[i] : i \in 1..Len(s)}
Ids(sc) == {sc.svcs[i].id : i \in 1..Len(sc.svcs)}
SvcOf(sc, s) == sc.svcs[CHOOSE i \in 1..Len(sc.svcs) : sc.svcs[i].id = s]
Asc(S) == SetToSortSeq(S, <)

E0(sc) == [spent |-> [s \in Ids(sc) |-> 0], store |-> [s \in Ids(sc) |-> <<>>]]

\* ---- what a service is shown ----
Mine(t, s) == SelectSeq(t, LAMBDA x : x.to = s)                 \* in the order of t
\* stable sort by sender = by sender, then position in t  (Gray Paper order)
StableBySender(m) == LET snd == Asc({m[i].from : i \in 1..Len(m)})
                     IN FlattenSeq([k \in 1..Len(snd) |-> SelectSeq(m, LAMBDA x : x.from = snd[k])])
InT(t, s) == StableBySender(Mine(t, s))
Operands(r, s) == FlattenSeq([i \in 1..Len(r) |-> SelectSeq([j \in 1..Len(r[i]) |-> [kind |-> "operand", rep |-> i, id |-> r[i][j]]],
                                                             LAMBDA x : x.id = s)])
Item(x) == IF "kind" \in DOMAIN x THEN [kind |-> "operand", from |-> 0, tag |-> 0]
           ELSE [kind |-> "xfer", from |-> x.from, tag |-> x.tag]
RECURSIVE SumAmt(_)
SumAmt(q) == IF q = <<>> THEN 0 ELSE Head(q).amt + SumAmt(Tail(q))

NoY == [n |-> 0 - 1, tag |-> 0 - 1]          \* no accumulation output

\* ---- B.8-B.13: run the program with contexts X (regular) and Y (exceptional) ----
RECURSIVE Run(_, _, _, _, _, _, _)
Run(sc, s, ops, i, x, y, items) ==
  IF i > Len(ops) THEN x
  ELSE LET o == ops[i]
       IN IF o.op = "panic" THEN y
          ELSE IF o.op = "ckpt" THEN Run(sc, s, ops, i + 1, x, x, items)
          ELSE IF o.op = "xfer" THEN
            Run(sc, s, ops, i + 1,
                IF o.to \in Ids(sc)
                THEN [x EXCEPT !.spent = @ + o.amt, !.out = Append(@, [from |-> s, to |-> o.to, amt |-> o.amt, tag |-> o.tag])]
                ELSE x, y, items)
          ELSE IF o.op = "yield" THEN Run(sc, s, ops, i + 1, [x EXCEPT !.y = [n |-> x.cnt, tag |-> o.tag]], y, items)
          ELSE \* "rec"
            Run(sc, s, ops, i + 1,
                [x EXCEPT !.store = items \o SubSeq(@, Len(items) + 1, Len(@)), !.cnt = Len(items)], y, items)

\* Delta1 with the transfers already arranged (iT) - the arrangement is where the layers differ
Single(sc, e, s, iT, iU) ==
  IF s \notin Ids(sc) THEN [spent |-> 0, store |-> <<>>, out |-> <<>>, y |-> NoY, cnt |-> 0]
  ELSE LET x0 == [spent |-> e.spent[s] - SumAmt(iT), store |-> e.store[s], out |-> <<>>, y |-> NoY, cnt |-> 0]
       IN IF ~SvcOf(sc, s).code THEN x0
          ELSE Run(sc, s, SvcOf(sc, s).prog, 1, x0, x0, [k \in 1..(Len(iT) + Len(iU)) |-> Item((iT \o iU)[k])])

RoundSet(t, r, f) == UNION {Ran(r[i]) : i \in 1..Len(r)} \cup Ran(f) \cup {t[i].to : i \in 1..Len(t)}

\* ---- Gray-Paper layer ----
ParallelGP(sc, e, t, r, f) ==
  LET S == RoundSet(t, r, f)
      res == [s \in S |-> Single(sc, e, s, InT(t, s), Operands(r, s))]
      ord == Asc(S)
  IN [e |-> [spent |-> [s \in Ids(sc) |-> IF s \in S THEN res[s].spent ELSE e.spent[s]],
             store |-> [s \in Ids(sc) |-> IF s \in S THEN res[s].store ELSE e.store[s]]],
      t |-> FlattenSeq([k \in 1..Len(ord) |-> res[ord[k]].out]),
      u |-> ord,
      b |-> {[id |-> s, y |-> res[s].y] : s \in {q \in S : res[q].y # NoY}}]

RECURSIVE OuterGP(_, _, _, _, _, _)
OuterGP(sc, e, t, r, f, fuel) ==
  IF Len(t) + Len(r) + Len(f) = 0 \/ fuel = 0 THEN [e |-> e, u |-> <<>>, ts |-> <<>>, b |-> {}]
  ELSE LET p == ParallelGP(sc, e, t, r, f)
           rest == OuterGP(sc, p.e, p.t, <<>>, <<>>, fuel - 1)
       IN [e |-> rest.e, u |-> p.u \o rest.u, ts |-> <<p.t>> \o rest.ts, b |-> p.b \cup rest.b]

MaxRounds == 6
GP(sc) == OuterGP(sc, E0(sc), <<>>, sc.reports, sc.free, MaxRounds)
\* services that count as accumulated in the statistics: gas used or work results
Accumulated(sc) == {s \in Ran(GP(sc).u) : s \in Ids(sc) /\ (SvcOf(sc, s).code \/ \E i \in 1..Len(sc.reports) : s \in Ran(sc.reports[i]))}
=============================================================================

-------------------------- MODULE Statistics_Trace --------------------------
(* V-step for C34.  Records written by harness/statistics (one history per Reset):   *)
(*   Reset  P[V,C,E,R] tau piV piL        prior slot and validator records            *)
(*                                        (records are [b, t, p, d, g, a])             *)
(*   Block  slot author nt adv pre gs as avail acc kappa lambda -> post               *)
(*          the block the driver loaded (format: StatisticsDefs header; preimages     *)
(*          [service, length]) and the posterior pi after                             *)
(*          UpdateValidatorActivityStatistics: post.piV, post.piL, post.cores         *)
(*          [i x z e u b d p], post.svcs [s pc ps rn ru i x z e an au] in ascending    *)
(*          service order.  adv = 1: the posterior becomes the next prior.            *)
(*   GoPanic                              never accepted                              *)
(* Every line is judged against the state built from the preceding lines; after a     *)
(* block with adv = 1 the recorded posterior is taken as the next prior (one wrong     *)
(* block yields one report).  In-place modification of the prior records is not        *)
(* observed here (C26).                                                               *)
EXTENDS StatisticsDefs, Json, TLC, SequencesExt
CONSTANTS TraceFile, ResultFile, KnownDeviations
VARIABLES l, devs, bad, par, st

Trace == ndJsonDeserialize(TraceFile)
Why(c, s) == IF c THEN {s} ELSE {}
ValOf(r) == [b |-> r[1], t |-> r[2], p |-> r[3], d |-> r[4], g |-> r[5], a |-> r[6]]
ValsOf(s) == [i \in 1..Len(s) |-> ValOf(s[i])]

JudgeBlock(e) ==
  LET V == par.V  C == par.C  E == par.E  R == par.R
      wantV == ValsNext(st.piV, st.tau, e, V, E, R)
      wantL == LastNext(st.piV, st.piL, st.tau, e, E)
      gotV == ValsOf(e.post.piV)
      gotL == ValsOf(e.post.piL)
      F(f) == \E v \in 1..V : gotV[v][f] # wantV[v][f]
      svc == SetToSortSeq(Services(e), <)
      wantS == [k \in 1..Len(svc) |-> ServiceRec(e, svc[k])]
      coreBad(c) == LET w == CoreRec(e, c - 1) g == e.post.cores[c] IN
                    \/ g.i # w.i \/ g.x # w.x \/ g.z # w.z \/ g.e # w.e \/ g.u # w.u \/ g.d # w.d \/ g.p # w.p
                    \/ ~CoreBOK(e, c - 1, g.b)
  IN IF Len(gotV) # V THEN {"validator_records_wrong_length"}
     ELSE Why(F("b"), "blocks_not_author_plus_one")
          \cup Why(F("t"), "tickets_not_author_plus_ticket_count")
          \cup Why(F("p"), "preimages_not_author_plus_preimage_count")
          \cup Why(F("d"), "octets_not_author_plus_preimage_octets")
          \cup Why(F("g"), "guarantees_not_plus_one_per_reporter")
          \cup Why(F("a"), "assurances_not_plus_one_per_assurer")
          \cup Why(gotL # wantL, "previous_records_differ")
          \cup Why(Len(e.post.cores) # C, "core_records_wrong_length")
          \cup Why(Len(e.post.cores) = C /\ \E c \in 1..C : coreBad(c), "core_record_differs")
          \cup Why(e.post.svcs # wantS, "service_records_differ")

Judge(e) == CASE e.ev = "Block" -> JudgeBlock(e)
              [] e.ev = "Reset" -> Why(Len(e.piV) # e.P.V, "generator_error_prior_length")
              [] e.ev = "GoPanic" -> {"panic:UpdateValidatorActivityStatistics"}
              [] OTHER -> {"unknown_event"}

TInit == l = 1 /\ devs = {} /\ bad = {} /\ par = [V |-> 1, C |-> 1, E |-> 1, R |-> 1] /\ st = [tau |-> 0, piV |-> <<>>, piL |-> <<>>]
TNext == /\ l <= Len(Trace)
         /\ LET e == Trace[l] IN
            /\ par' = IF e.ev = "Reset" THEN e.P ELSE par
            /\ st' = IF e.ev = "Reset" THEN [tau |-> e.tau, piV |-> ValsOf(e.piV), piL |-> ValsOf(e.piL)]
                     ELSE IF e.ev = "Block" /\ e.adv = 1 THEN [tau |-> e.slot, piV |-> ValsOf(e.post.piV), piL |-> ValsOf(e.post.piL)]
                     ELSE st
            /\ bad' = bad \cup {[l |-> l, why |-> y] : y \in Judge(e)}
         /\ devs' = devs
         /\ l' = l + 1
TraceSpec == TInit /\ [][TNext]_<<l, devs, bad, par, st>>

Report == (l = Len(Trace) + 1) =>
  JsonSerialize(ResultFile, [n |-> l - 1, devs |-> SetToSeq(devs), bad |-> SetToSeq(bad)])
=============================================================================

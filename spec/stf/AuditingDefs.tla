----------------------------- MODULE AuditingDefs -----------------------------
(* X08 — auditing (Gray Paper section 17) as implemented in internal/auditing.      *)
(* Pure definitions shared by Auditing (MC), Auditing_Gen and Auditing_Trace.        *)
(* Reports are abstract ids > 0; 0 = no report.                                       *)
(*                                                                                   *)
(*  17.1-2   Q_c = rho[c]'s report if it became available in this block, else none    *)
(*  17.3-7   s_0 = VRF<"jam_audit" ++ Y(H_v)>, r = Y(s_0), p = F([(c, Q_c)], r),       *)
(*           a_0 = the non-empty entries among the FIRST TEN of p                     *)
(*  17.9-11  announcement = Ed25519<"jam_announce" ++ n ++ x_n ++ H(H)>,               *)
(*           x_n = E({E_2(c) ++ H(w)})                                                *)
(*  17.15-16 s_n(w) = VRF<"jam_audit" ++ Y(H_v) ++ H(w) ++ n>;  w in a_n iff           *)
(*           (V / 256F) Y(s_n(w))_0 < m_n,  m_n = |A_{n-1}(w) \ J_T(w)|                *)
(*  17.17    judgment = Ed25519<"jam_valid" | "jam_invalid" ++ H(w)>                   *)
(*  17.19-20 U(w) = (J_F(w) = {} and A_n(w) subset of J_T(w)) or |J_T(w)| > 2V/3;       *)
(*           a block is audited when U(w) for all its reports                         *)
(*                                                                                   *)
(* VRF outputs and BLAKE2b values come from oracle tables filled by the driver with   *)
(* the primitives (the VRF is the /verif stand-in); which input is hashed or signed,   *)
(* the shuffle, the cut at ten, the threshold and the predicates are computed here.   *)
(* Permissive clauses:                                                               *)
(*  - x_n: pairs in the given order or sorted by core; no prefix, count prefix or     *)
(*    byte-length prefix (announcement variants);                                     *)
(*  - the width of n inside the s_n context: 1, 2, 4 or 8 bytes;                       *)
(*  - U(w) when a supermajority of positive judgments coexists with a negative one    *)
(*    is not judged;                                                                  *)
(*  - E(w) and the header encoding are the codec's (C11): referenced, not modelled.    *)
(* Named deviation (open finding a0_skips_empty_cores): the implementation takes the   *)
(* first ten NON-EMPTY entries of p instead of the non-empty ones among the first ten. *)
EXTENDS ShuffleDefs, HashTerm, SequencesExt

Ref(k) == [t |-> "ref", k |-> k]                       \* a value the driver knows at run time (an encoding, a VRF output)

\* ---------------------------------------------------------------- 17.1-2
QOf(rho, avail) == [c \in 1..Len(rho) |-> IF rho[c] # 0 /\ rho[c] \in avail THEN rho[c] ELSE 0]

\* ---------------------------------------------------------------- 17.5-7 (p: the shuffled core indices, 0-based)
TopN == 10
A0GP(qq, p) == SelectSeq(SubSeq(p, 1, Min2(TopN, Len(p))), LAMBDA c : qq[c + 1] # 0)
A0Skip(qq, p) == LET ne == SelectSeq(p, LAMBDA c : qq[c + 1] # 0) IN SubSeq(ne, 1, Min2(TopN, Len(ne)))
CoreOrder(C, r, tab) == ShuffleH([i \in 1..C |-> i - 1], r, tab)

\* ---------------------------------------------------------------- 17.16
\* (V / 256 F) b < m  on integers
Threshold(b, nv, bias, m) == b * nv < m * 256 * bias
NoShows(assigned, positives) == Cardinality(assigned \ positives)

\* ---------------------------------------------------------------- 17.19
\* "yes" / "no" / "either"
Audited(assigned, pos, neg, nv) ==
  LET super == 3 * Cardinality(pos) > 2 * nv
  IN IF neg = {} /\ assigned \subseteq pos THEN "yes"
     ELSE IF super THEN (IF neg = {} THEN "yes" ELSE "either")
     ELSE "no"

\* ---------------------------------------------------------------- messages (terms; Ref("w<id>") = E(w), Ref("hdr") = E(H))
HW(id) == B2b(Ref("w" \o ToString(id)))
E2(c) == LE(c, 2)
RECURSIVE InsertByCore(_, _)
InsertByCore(q, x) == IF q = <<>> THEN <<x>> ELSE IF x[1] < Head(q)[1] THEN <<x>> \o q ELSE <<Head(q)>> \o InsertByCore(Tail(q), x)
RECURSIVE SortByCore(_)
SortByCore(q) == IF q = <<>> THEN <<>> ELSE InsertByCore(SortByCore(Tail(q)), Head(q))
\* an: sequence of <<core, report id>>
PairTerms(an) == [i \in 1..(2 * Len(an)) |-> IF i % 2 = 1 THEN Lit(E2(an[(i + 1) \div 2][1])) ELSE HW(an[i \div 2][2])]
AnnounceMsg(n, an, prefix) ==
  Cat(<<Str("jam_announce"), Lit(<<n>>)>> \o (IF prefix = <<>> THEN <<>> ELSE <<Lit(prefix)>>) \o PairTerms(an) \o <<B2b(Ref("hdr"))>>)
AnnounceVariants(n, an) ==
  LET orders == <<an, SortByCore(an)>>
      k == Len(an)
  IN [i \in 1..6 |-> AnnounceMsg(n, orders[((i - 1) % 2) + 1],
                                 CASE (i - 1) \div 2 = 0 -> <<>> [] (i - 1) \div 2 = 1 -> <<k>> [] OTHER -> IF 34 * k < 128 THEN <<34 * k>> ELSE <<128 + ((34 * k) \div 256), (34 * k) % 256>>)]
JudgeMsg(valid, id) == Cat(<<Str(IF valid = 1 THEN "jam_valid" ELSE "jam_invalid"), HW(id)>>)
AuditSeedCtx(yhv) == Cat(<<Str("jam_audit"), Lit(yhv)>>)
TrancheCtx(yhv, id, n, width) == Cat(<<Str("jam_audit"), Lit(yhv), HW(id), Lit(LE(n, width))>>)
Widths == <<1, 2, 4, 8>>
=============================================================================

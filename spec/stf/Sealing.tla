------------------------------ MODULE Sealing ------------------------------
(* X03: header / sealing / entropy clauses of the block transition as a machine over   *)
(* block histories (definitions: SealingDefs).  One step = one block: the valid header  *)
(* for the state (ValidDescr) or that header with exactly one defect (Apply), with or   *)
(* without tickets.  The block is applied iff all clauses hold, else nothing changes.   *)
(* Entropies are sequences: eta_0 is the chain of all Y(H_v) accumulated so far, so     *)
(* eta'_0 = H(eta_0 ++ Y(H_v)) is Append (injective, like the hash); the fallback index  *)
(* function is an arbitrary function of eta'_2 (Mix).                                   *)
EXTENDS SealingDefs, TLC

CONSTANTS E, Y, N, V, K, MaxTau, Jumps, YVs, UseDefects
P == [E |-> E, Y |-> Y, N |-> N, V |-> V, K |-> K]

VARIABLES st, last
vars == <<st, last>>

RECURSIVE Mix(_)
Mix(s) == IF s = <<>> THEN 3 ELSE (Mix(SubSeq(s, 1, Len(s) - 1)) * 7 + s[Len(s)] * 3 + 1) % 101
IdxOf(r) == [i \in 1..E |-> (Mix(r) * 5 + (i - 1) * 3 + 1) % V]

Init == /\ st = [tau |-> 0, ga |-> <<>>, eta |-> <<<<1>>, <<2>>, <<3>>, <<4>>>>,
                 kappa |-> [i \in 1..V |-> 10 + i], gammak |-> [i \in 1..V |-> 20 + i], lambda |-> [i \in 1..V |-> i],
                 iota |-> [i \in 1..V |-> 30 + i],
                 gs |-> Kys(Fallback(IdxOf(<<3>>), [i \in 1..V |-> 10 + i], E))]
        /\ last = [slot |-> 0, d |-> "none", ok |-> TRUE, tk |-> TRUE, f |-> <<>>, fail |-> {}]

\* tickets of a block: none, or two fresh identifiers lower than every earlier one
TicketsFor(slot) == {<<>>, <<[id |-> 2 * (MaxTau - slot) + 1, att |-> 0, pf |-> TRUE], [id |-> 2 * (MaxTau - slot) + 2, att |-> 1, pf |-> TRUE]>>}

Block(slot, n, yv, a, d) ==
  LET e == EpochOf(st.tau, E) e2 == EpochOf(slot, E)
      eta2 == EtaNext(st.eta, <<>>, e, e2)[3]
      gs2 == GsNext(st, P, slot, IdxOf(eta2))
      desc0 == ValidDescr(st, P, slot, gs2.t, a, yv)
      desc == IF d = "none" THEN desc0 ELSE Apply(desc0, d, P)
      f == FactsOf(st, P, slot, desc, gs2)
      c == Clauses(st, P, slot, n, f, gs2)
  IN /\ d = "none" \/ Applicable(d, desc0)
     /\ a = 0 \/ gs2.t # <<>>                      \* the author is free only in a ticket-sealed slot
     /\ last' = [slot |-> slot, d |-> d, ok |-> Holds(c), tk |-> c.tickets, f |-> f, fail |-> Failing(c)]
     /\ st' = IF Holds(c) THEN StateNext(st, P, slot, n, gs2, Append(st.eta[1], f.vs.yv)) ELSE st

Next == \E dt \in Jumps : LET slot == st.tau + dt IN
          /\ slot <= MaxTau
          /\ \E n \in TicketsFor(slot), yv \in YVs, a \in 0..(V - 1), d \in (IF UseDefects THEN Defects ELSE {}) \cup {"none"} :
                Block(slot, n, yv, a, d)
Spec == Init /\ [][Next]_vars
View == st

\* ---------------------------------------------------------------- properties
\* the valid header is accepted, every single defect is refused (and the ticket rules of C23 apply)
OneDefect == [][last'.ok <=> (last'.d = "none" /\ last'.tk)]_vars
Refused == [][~last'.ok => st' = st]_vars
IsPrefix(a, b) == Len(a) <= Len(b) /\ SubSeq(b, 1, Len(a)) = a
\* (6.22), (6.23)
EntropyChain == [][last'.ok =>
                    /\ st'.eta[1] = Append(st.eta[1], last'.f.vs.yv)
                    /\ IF EpochOf(st'.tau, E) > EpochOf(st.tau, E)
                       THEN st'.eta[2] = st.eta[1] /\ st'.eta[3] = st.eta[2] /\ st'.eta[4] = st.eta[3]
                       ELSE st'.eta[2] = st.eta[2] /\ st'.eta[3] = st.eta[3] /\ st'.eta[4] = st.eta[4]]_vars
\* older entropies are earlier values of eta_0 (or genesis values), oldest last
EntropyLag == \A k \in 2..4 : st.eta[k] \in {<<2>>, <<3>>, <<4>>} \/ (IsPrefix(st.eta[k], st.eta[k - 1]) /\ IsPrefix(st.eta[k], st.eta[1]))
\* (6.15), (6.16): what an accepted seal pins down
SealBinding == [][last'.ok =>
                   LET m2 == PhaseOf(st'.tau, E) f == last'.f IN
                   /\ f.seal.key = st'.kappa[f.author + 1] /\ f.seal.eta = st'.eta[4] /\ f.seal.msg = 1
                   /\ IF st'.gs.t # <<>> THEN f.seal.str = "t" /\ f.seal.so = st'.gs.t[m2 + 1].id /\ f.seal.att = st'.gs.t[m2 + 1].att
                      ELSE f.seal.str = "f" /\ st'.kappa[f.author + 1] = st'.gs.k[m2 + 1]]_vars
\* (6.17)
VrfBinding == [][last'.ok => last'.f.vs.ys = last'.f.seal.so /\ last'.f.vs.key = last'.f.seal.key /\ last'.f.vs.msg = 1]_vars
\* the accumulator and sealer invariants of C23 still hold on this machine
AccOK == StrictlyInc(st.ga) /\ Len(st.ga) <= E
=============================================================================

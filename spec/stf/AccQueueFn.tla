----------------------------- MODULE AccQueueFn -----------------------------
(* C21: the accumulation queue of Gray Paper 12.1-12.12 and 12.31-12.33 as pure     *)
(* functions (no constants, no variables), shared by the model (AccQueue), the      *)
(* generator (AccQueue_Gen) and the trace judge (AccQueue_Trace).                    *)
(*                                                                                   *)
(* A work report is a record with at least                                           *)
(*    h    : its work-package hash            (w_s)_h                                *)
(*    pre  : SET of prerequisite hashes       (w_x)_p                                *)
(*    look : SET of hashes keyed in the segment-root lookup   K(w_l)                 *)
(* (trace reports also carry an identity `id`).  A queue record is [r |-> report,    *)
(* d |-> SET of outstanding dependencies]; extra fields are carried along.           *)
(* xi  : sequence of E sets of hashes (accumulated history, oldest first)            *)
(* th  : sequence of E sequences of queue records (ready queue, indexed by slot      *)
(*       phase: TLA+ index j+1 is the Gray Paper's index j)                          *)
(*                                                                                   *)
(* Reading notes / permissive clauses:                                               *)
(*  - xi entries are SETS here; the implementation keeps sorted slices.  The         *)
(*    statement says nothing about their representation, so traces are compared as   *)
(*    sets (a repeated hash inside one entry is not judged).                         *)
(*  - dependency collections are SETS (12.6); the implementation's lists are         *)
(*    compared as sets.                                                              *)
(*  - 12.4 selects dependency-free reports without consulting xi (the reports        *)
(*    extrinsic is what keeps already accumulated packages out).  "Never chosen      *)
(*    again" is therefore stated for everything that passes through the queue, and   *)
(*    for W! only under the hypothesis that the available report is not in xi.       *)
EXTENDS Integers, Sequences, FiniteSets

RangeOf(s) == {s[i] : i \in 1..Len(s)}

RECURSIVE Flat(_)
Flat(ss) == IF ss = <<>> THEN <<>> ELSE Head(ss) \o Flat(Tail(ss))

\* (12.2)  union of the accumulated history
AccSet(x) == UNION {x[i] : i \in 1..Len(x)}

\* (12.6)  D(w)
Deps(w) == w.pre \cup w.look
D(w) == [r |-> w, d |-> Deps(w)]

\* (12.4)  W!
IsImmediate(w) == w.pre = {} /\ w.look = {}
IsQueued(w) == ~IsImmediate(w)
Imm(W) == SelectSeq(W, IsImmediate)

\* (12.9)  P
P(ws) == {ws[i].h : i \in 1..Len(ws)}
PR(rs) == {rs[i].r.h : i \in 1..Len(rs)}

\* (12.7)  E(r, x): drop records whose report is in x, strike x from the dependencies
Edit(r, x) == LET keep == SelectSeq(r, LAMBDA e : e.r.h \notin x)
              IN [i \in 1..Len(keep) |-> [keep[i] EXCEPT !.d = @ \ x]]

\* (12.8)  Q(r), returning the records (QRecs) or the reports (Q)
RECURSIVE QRecs(_)
QRecs(r) == LET g == SelectSeq(r, LAMBDA e : e.d = {})
            IN IF g = <<>> THEN <<>> ELSE g \o QRecs(Edit(r, PR(g)))
Q(r) == LET g == QRecs(r) IN [i \in 1..Len(g) |-> g[i].r]

\* (12.5)  W_Q
WQ(W, x) == LET nq == SelectSeq(W, IsQueued)
            IN Edit([i \in 1..Len(nq) |-> D(nq[i])], AccSet(x))

\* theta[m..] ^ theta[..m]   (m is the 0-based slot phase)
Rot(t, m) == Flat(SubSeq(t, m + 1, Len(t))) \o Flat(SubSeq(t, 1, m))

\* the queue before the edit of 12.12, and q itself
Q0(x, t, m, W) == Rot(t, m) \o WQ(W, x)
Qq(x, t, m, W) == Edit(Q0(x, t, m, W), P(Imm(W)))

\* (12.11)  W*
WStar(x, t, m, W) == Imm(W) \o Q(Qq(x, t, m, W))

\* (12.31, 12.32)  xi'
XiNext(x, ws, n) == Tail(x) \o <<P(SubSeq(ws, 1, n))>>

\* (12.33)  theta'  (gap = tau' - tau >= 1, xl = xi'[E])
ThNext(t, m, gap, wq, xl) ==
  LET EE == Len(t) IN
  [j1 \in 1..EE |-> LET i == (m - (j1 - 1) + EE) % EE
                    IN IF i = 0 THEN Edit(wq, xl)
                       ELSE IF i < gap THEN <<>>
                       ELSE Edit(t[j1], xl)]

-----------------------------------------------------------------------------
(* Properties of the statement, as predicates on values.                            *)

\* the queue kept for later holds no accumulated report and no accumulated dependency
QueueClean(x, t) ==
  \A j \in 1..Len(t) : \A k \in 1..Len(t[j]) :
     /\ t[j][k].r.h \notin AccSet(x)
     /\ t[j][k].d \cap AccSet(x) = {}

\* records of q0 tagged with their position, so that chosen records can be traced back
Tag(r) == [i \in 1..Len(r) |-> [r |-> r[i].r, d |-> r[i].d, k |-> i]]
Chosen(x, t, m, W) == QRecs(Edit(Tag(Q0(x, t, m, W)), P(Imm(W))))

\* every chosen queued report comes after the in-block reports it depends on: each
\* outstanding dependency it had when the block started is the hash of an earlier member of W*
OrderOK(x, t, m, W) ==
  LET q0 == Q0(x, t, m, W)
      c  == Chosen(x, t, m, W)
  IN \A a \in 1..Len(c) :
        q0[c[a].k].d \subseteq (P(Imm(W)) \cup {c[b].r.h : b \in 1..(a - 1)})

\* nothing that went through the queue is chosen if it is already accumulated (needs
\* QueueClean of the prior state), and no queued report repeats a hash of W!
NoRechoose(x, t, m, W) ==
  LET c == Chosen(x, t, m, W)
  IN /\ \A a \in 1..Len(c) : c[a].r.h \notin AccSet(x)
     /\ \A a \in 1..Len(c) : c[a].r.h \notin P(Imm(W))

\* independent characterisation of the selection (Kahn rounds): in each round take, in
\* queue order, the records not yet accumulated whose dependencies are all accumulated
RECURSIVE Rounds(_, _)
Rounds(q, A) == LET g == SelectSeq(q, LAMBDA e : e.r.h \notin A /\ e.d \subseteq A)
                IN IF g = <<>> THEN <<>> ELSE g \o Rounds(q, A \cup PR(g))
RoundsAgree(x, t, m, W) ==
  LET c == Chosen(x, t, m, W)
      r == Rounds(Tag(Q0(x, t, m, W)), P(Imm(W)))
  IN [i \in 1..Len(c) |-> c[i].k] = [i \in 1..Len(r) |-> r[i].k]

\* after the selection nothing selectable is left behind
Maximal(x, t, m, W) ==
  LET q0 == Q0(x, t, m, W)
      A  == P(WStar(x, t, m, W))
  IN \A i \in 1..Len(q0) : ~(q0[i].r.h \notin A /\ q0[i].d \subseteq A)
=============================================================================

------------------------------ MODULE WorkPackage ------------------------------
(* MC model for X04: guarantors process packages one after another against the     *)
(* node's bounded dictionary (package hash -> segment root).  A package imports     *)
(* from earlier packages by package hash (resolved through the dictionary) or by     *)
(* segment root directly.  Properties: a package is only reported when every         *)
(* package-hash import resolves; its report's lookup dictionary holds exactly the    *)
(* referenced packages with their roots; every fetch addresses a segment root, never *)
(* a package hash; the node's dictionary never exceeds Cap and evicts oldest-first;  *)
(* a second guarantor working from the same dictionary derives the same lookup.      *)
(* ASSUMEs tie the byte-wise gas arithmetic to integers and pin validity verdicts.   *)
EXTENDS WorkPackageDefs
CONSTANTS NPkgs, Cap, MaxImp
VARIABLES imp, dict, done, rejected, reports

Pkgs == 1..NPkgs
RootOf(p) == 100 + p
Roots == {RootOf(p) : p \in Pkgs}
vars == <<imp, dict, done, rejected, reports>>
DictSet == {dict[i] : i \in 1..Len(dict)}
Imports(p) == [k \in 1..Len(imp[p]) |-> [r |-> imp[p][k], n |-> k - 1]]
Init == /\ imp \in [Pkgs -> UNION {[1..n -> Pkgs \cup Roots] : n \in 0..MaxImp}]
        /\ dict = <<>> /\ done = {} /\ rejected = {} /\ reports = <<>>
Resolvable(p) == \A k \in 1..Len(imp[p]) : imp[p][k] \in Pkgs => InDict(DictSet, imp[p][k])
Guarantee(p) ==
  /\ p \notin done /\ Resolvable(p)
  /\ LET item == [imports |-> Imports(p)]
         lk == LookupOf(<<item>>, DictSet)
         fetched == [k \in 1..Len(imp[p]) |-> Resolve(DictSet, imp[p][k])]
         nd == Append(dict, <<p, RootOf(p)>>)
     IN /\ reports' = Append(reports, [p |-> p, lookup |-> lk, fetched |-> fetched,
                                       second |-> LookupOf(<<item>>, {nd[i] : i \in 1..Len(dict)})])
        /\ dict' = IF Len(nd) > Cap THEN Tail(nd) ELSE nd
  /\ done' = done \cup {p} /\ UNCHANGED <<imp, rejected>>
Reject(p) == /\ p \notin done /\ p \notin rejected /\ ~Resolvable(p)
             /\ rejected' = rejected \cup {p} /\ UNCHANGED <<imp, dict, done, reports>>
Next == \E p \in Pkgs : Guarantee(p) \/ Reject(p)
Spec == Init /\ [][Next]_vars

InvCap == Len(dict) <= Cap
InvLookup == \A i \in 1..Len(reports) :
               LET r == reports[i] IN
               /\ {e[1] : e \in r.lookup} = {imp[r.p][k] : k \in 1..Len(imp[r.p])} \cap Pkgs
               /\ \A e \in r.lookup : e[2] = RootOf(e[1])
               /\ r.second = r.lookup
InvFetchRoots == \A i \in 1..Len(reports) : \A k \in 1..Len(reports[i].fetched) : reports[i].fetched[k] \in Roots
InvDictKeys == \A i, k \in 1..Len(dict) : i # k => dict[i][1] # dict[k][1]
\* eviction is oldest-first: the dictionary is always the last packages guaranteed, in order
InvFifo == dict = SubSeq([i \in 1..Len(reports) |-> <<reports[i].p, RootOf(reports[i].p)>>],
                         Len(reports) - Len(dict) + 1, Len(reports))

U8(x) == LE(x, 8)
ASSUME \A x \in {0, 1, 255, 256, 65535, 16777216, 2147483647}, y \in {0, 1, 255, 65536, 2147483647} :
          /\ AddLE(U8(x), U8(y))[1] = ((x % 256) + (y % 256)) % 256
          /\ CmpLE(U8(x), U8(y)) = (IF x < y THEN -1 ELSE IF x > y THEN 1 ELSE 0)
ASSUME SumLE(<<Rep(255, 8), Rep(255, 8), <<2>>>>, 10) = <<0, 0, 0, 0, 0, 0, 0, 0, 2, 0>>      \* 2 (2^64 - 1) + 2 = 2^65
It(plen, ni, ext, e, g, a) == [plen |-> plen, ni |-> ni, ext |-> ext, e |-> e, g |-> g, a |-> a]
P1(items) == [auth |-> 0, cfg |-> 0, items |-> items]
ASSUME /\ Verdict(P1(<<>>), "full") = "invalid"
       /\ Verdict(P1(<<It(0, 0, <<>>, 0, U8(0), U8(0))>>), "full") = "valid"
       /\ Verdict(P1([i \in 1..17 |-> It(0, 0, <<>>, 0, U8(0), U8(0))]), "full") = "invalid"
       /\ Verdict(P1(<<It(0, 3072, <<>>, 3072, U8(0), U8(0))>>), "full") = "valid"
       /\ Verdict(P1(<<It(0, 3073, <<>>, 0, U8(0), U8(0))>>), "full") = "invalid"
       /\ Verdict(P1(<<It(4224, 3072, <<>>, 0, U8(0), U8(0))>>), "full") = "valid"
       /\ Verdict(P1(<<It(4225, 3072, <<>>, 0, U8(0), U8(0))>>), "full") = "either"
       /\ Verdict(P1(<<It(7170, 3072, <<>>, 0, U8(0), U8(0))>>), "full") = "invalid"
       /\ Verdict(P1(<<It(0, 0, <<>>, 0, <<0, 0, 0, 0, 0, 0, 0, 128>>, U8(0)), It(0, 0, <<>>, 0, <<0, 0, 0, 0, 0, 0, 0, 128>>, U8(0))>>), "full") = "invalid"
       /\ Verdict(P1(<<It(0, 0, <<>>, 0, U8(0), U8(9999999))>>), "full") = "valid"
       /\ Verdict(P1(<<It(0, 0, <<>>, 0, U8(0), U8(10000000))>>), "full") = "either"
       /\ Verdict(P1(<<It(0, 0, <<>>, 0, U8(0), U8(10000001))>>), "full") = "invalid"
       /\ Verdict(P1(<<It(0, 0, <<>>, 0, U8(1000000001), U8(0))>>), "tiny") = "invalid"
       /\ Verdict(P1(<<It(0, 0, <<>>, 0, U8(1000000001), U8(0))>>), "full") = "valid"
=============================================================================

------------------------------- MODULE Reports -------------------------------
(* X02 - growth beyond the 35 listed properties: admission of work reports          *)
(* (guarantees extrinsic E_G, Gray Paper section 11.4, eqs. 11.23-11.43 of 0.7.x)   *)
(* as a pure function                                                                *)
(*        Admissible(P, M, MS, st, ext)   and   RhoNext(P, st, ext),                 *)
(* every clause a named predicate.  Shared by the model (MC_Reports), the           *)
(* generator (Reports_Gen) and the trace judge (Reports_Trace).                      *)
(*                                                                                  *)
(* Data (identities only: every hash / key is a small positive integer standing     *)
(* for a real 32-byte value, 0 = the null value; the driver keeps the bijection):   *)
(*  P    = [V, C, E, R, L, J, WR, GA, U, I]  protocol constants (GA = 8 LE bytes)     *)
(*  st   = [tau    block slot H_t = tau'                                             *)
(*          rho    per core [rid, pkg, t, live]: the PRIOR pending report rho[c]      *)
(*                 (rid = 0: none); live = it is still there in rho-double-dagger     *)
(*                 (not judged bad/wonky, not made available, not timed out)          *)
(*          kappa, lambda   key ids of kappa', lambda';  off = offender key ids psi'_o *)
(*          alpha  per core sequence of authorizer ids (prior pool)                   *)
(*          beta   recent history beta-dagger: [h, s, b, rep: seq of [p, x]]          *)
(*          xi, theta   package ids accumulated / waiting in the accumulation queue   *)
(*          delta  services [id, code, min (8 LE bytes)]                              *)
(*          anc    ancestry [t, h]  (<<>> = the node keeps no ancestry)]              *)
(*  ext  = sequence of guarantees, report fields flattened:                           *)
(*         [core, slot, sigs: seq [i, k, kind], rid, pkg, xroot, auth, anchor, sroot, *)
(*          broot, lanchor, lslot, pre: seq pkg, srl: seq [p, x],                     *)
(*          res: seq [s, code, gas (8 LE bytes), out, okr], aout]                     *)
(*         sigs[j]: validator index i, signed with the secret key of key id k,        *)
(*         kind "ok" = over "jam_guarantee" ++ H(report), else deliberately wrong.    *)
(*  M / MS = guarantor assignments [c: core per validator, k: key ids with Phi        *)
(*         applied] of the current rotation (11.21) and the previous one (11.22).     *)
(*                                                                                  *)
(* SURE clauses (a block that violates one must be refused; all are error classes    *)
(* of the official reports vectors):                                                  *)
(*   CoresInRange OrderedByCore CredCountOK CredSorted CredIndexOK SlotNotFuture      *)
(*   SlotNotTooOld CredAssigned CredSigned CoreFree Authorized ServicesExist           *)
(*   ItemGasOK TotalGasOK PackagesDistinct AnchorRecent LookupRecent LookupKnown       *)
(*   PackageFresh DepsCountOK DepsKnown SegRootsOK CodeHashOK OutputSizeOK             *)
(* UNSURE clauses (reconstructed from memory or silent in the task statement; a      *)
(* block violating only these may be accepted or refused):                           *)
(*   U1 TimedOutFree    a live entry of rho-double-dagger older than U slots: older    *)
(*                      Gray Papers let the guarantee replace it, 0.7 clears it in     *)
(*                      the assurances step so the state is unreachable               *)
(*   U2 LookupNotFuture lookup-anchor slot > H_t: 11.34 alone admits it, 11.35 cannot  *)
(*                      hold for it; the code refuses (u32 wrap)                       *)
(*   U3 ClearedFresh    package equal to that of a prior pending report that left      *)
(*                      rho-double-dagger in this block (11.38 uses prior rho)         *)
(*   U4 ResultsCountOK  1..I digests (a type constraint of the report)                *)
(* LookupKnown (11.35) is evaluated only when the state carries an ancestry, as in   *)
(* the code and the official vectors.                                                 *)
EXTENDS Integers, Sequences, FiniteSets, BigNat

SetOf(s) == {s[i] : i \in 1..Len(s)}
Ascending(s) == \A i \in 1..(Len(s) - 1) : s[i] < s[i + 1]
RECURSIVE SumInts(_)
SumInts(s) == IF s = <<>> THEN 0 ELSE Head(s) + SumInts(Tail(s))

NoReport == [rid |-> 0, pkg |-> 0, t |-> 0, live |-> FALSE]

\* ---------------------------------------------------------------- guarantor assignments
\* (6.14) Phi: offenders' keys are replaced by the null key
Phi(ks, off) == [i \in 1..Len(ks) |-> IF ks[i] \in off THEN 0 ELSE ks[i]]
SameRotation(P, tau, t) == (tau \div P.R) = (t \div P.R)
\* (11.22) which epoch's entropy / key set the previous rotation belongs to
PrevInSameEpoch(P, tau) == ((tau - P.R) \div P.E) = (tau \div P.E)
MOf(P, M, MS, st, g) == IF SameRotation(P, st.tau, g.slot) THEN M ELSE MS

\* ---------------------------------------------------------------- clauses on the extrinsic
CoresInRange(P, ext) == \A i \in 1..Len(ext) : ext[i].core \in 0..(P.C - 1)                  \* 11.23
OrderedByCore(ext) == Ascending([i \in 1..Len(ext) |-> ext[i].core])                          \* 11.24
PackagesDistinct(ext) == \A i, j \in 1..Len(ext) : i # j => ext[i].pkg # ext[j].pkg          \* 11.32

\* ---------------------------------------------------------------- clauses on one guarantee
CredCountOK(g) == Len(g.sigs) \in 2..3                                                        \* 11.23
CredSorted(g) == Ascending([j \in 1..Len(g.sigs) |-> g.sigs[j].i])                             \* 11.25
CredIndexOK(P, g) == \A j \in 1..Len(g.sigs) : g.sigs[j].i \in 0..(P.V - 1)
SlotNotFuture(st, g) == g.slot <= st.tau                                                       \* 11.26
SlotNotTooOld(P, st, g) == P.R * ((st.tau \div P.R) - 1) <= g.slot                             \* 11.26
CredAssigned(P, m, g) == \A j \in 1..Len(g.sigs) :
                           g.sigs[j].i \in 0..(P.V - 1) => m.c[g.sigs[j].i + 1] = g.core     \* 11.26
SigValid(sig, key) == key # 0 /\ sig.kind = "ok" /\ sig.k = key
CredSigned(P, m, g) == \A j \in 1..Len(g.sigs) :
                         g.sigs[j].i \in 0..(P.V - 1) => SigValid(g.sigs[j], m.k[g.sigs[j].i + 1])

TimedOut(P, st, e) == st.tau >= e.t + P.U
CoreFree(P, st, g) == g.core \in 0..(P.C - 1) =>
                        LET e == st.rho[g.core + 1] IN ~(e.live /\ ~TimedOut(P, st, e))      \* 11.29
TimedOutFree(P, st, g) == g.core \in 0..(P.C - 1) => ~st.rho[g.core + 1].live                 \* U1
Authorized(P, st, g) == g.core \in 0..(P.C - 1) => g.auth \in SetOf(st.alpha[g.core + 1])    \* 11.29

Svc(st, s) == {d \in SetOf(st.delta) : d.id = s}
ServicesExist(st, g) == \A j \in 1..Len(g.res) : Svc(st, g.res[j].s) # {}                      \* 11.30 / 11.42
ItemGasOK(st, g) == \A j \in 1..Len(g.res) : \A d \in Svc(st, g.res[j].s) : BLe(d.min, g.res[j].gas)   \* 11.30
TotalGas(g) == BSum([j \in 1..Len(g.res) |-> g.res[j].gas])
TotalGasOK(P, g) == BLe(TotalGas(g), P.GA)                                                     \* 11.30
CodeHashOK(st, g) == \A j \in 1..Len(g.res) : \A d \in Svc(st, g.res[j].s) : d.code = g.res[j].code   \* 11.42

AnchorRecent(st, g) == \E y \in SetOf(st.beta) : y.h = g.anchor /\ y.s = g.sroot /\ y.b = g.broot   \* 11.33
LookupRecent(P, st, g) == g.lslot + P.L >= st.tau                                              \* 11.34
LookupNotFuture(st, g) == g.lslot <= st.tau                                                    \* U2
LookupKnown(st, g) == st.anc = <<>> \/ \E a \in SetOf(st.anc) : a.t = g.lslot /\ a.h = g.lanchor   \* 11.35

BetaPX(st) == UNION {SetOf(y.rep) : y \in SetOf(st.beta)}
BetaPk(st) == {e.p : e \in BetaPX(st)}
ExtPX(ext) == {[p |-> ext[i].pkg, x |-> ext[i].xroot] : i \in 1..Len(ext)}
ExtPk(ext) == {ext[i].pkg : i \in 1..Len(ext)}
LivePk(st) == {st.rho[c].pkg : c \in {d \in 1..Len(st.rho) : st.rho[d].live}}
ClearedPk(st) == {st.rho[c].pkg : c \in {d \in 1..Len(st.rho) : st.rho[d].rid # 0 /\ ~st.rho[d].live}}
PackageFresh(st, g) == g.pkg \notin (BetaPk(st) \cup SetOf(st.xi) \cup SetOf(st.theta) \cup LivePk(st))   \* 11.36-11.38
ClearedFresh(st, g) == g.pkg \notin ClearedPk(st)                                              \* U3

DepsOf(g) == SetOf(g.pre) \cup {g.srl[j].p : j \in 1..Len(g.srl)}
DepsCountOK(P, g) == Len(g.pre) + Len(g.srl) <= P.J                                            \* 11.3
DepsKnown(st, ext, g) == DepsOf(g) \subseteq (ExtPk(ext) \cup BetaPk(st))                       \* 11.39
SegRootsOK(st, ext, g) == \A j \in 1..Len(g.srl) :
                            [p |-> g.srl[j].p, x |-> g.srl[j].x] \in (ExtPX(ext) \cup BetaPX(st))   \* 11.40-11.41
OutputSize(g) == g.aout + SumInts([j \in 1..Len(g.res) |-> IF g.res[j].okr THEN g.res[j].out ELSE 0])
OutputSizeOK(P, g) == OutputSize(g) <= P.WR                                                    \* 11.8
ResultsCountOK(P, g) == Len(g.res) \in 1..P.I                                                  \* U4

\* ---------------------------------------------------------------- the function
\* names of the SURE clauses that (st, ext) violates
Violated(P, M, MS, st, ext) ==
  LET W(c, n) == IF c THEN {} ELSE {n}
      G(g) == LET m == MOf(P, M, MS, st, g) IN
              W(CredCountOK(g), "CredCountOK") \cup W(CredSorted(g), "CredSorted")
              \cup W(CredIndexOK(P, g), "CredIndexOK") \cup W(SlotNotFuture(st, g), "SlotNotFuture")
              \cup W(SlotNotTooOld(P, st, g), "SlotNotTooOld") \cup W(CredAssigned(P, m, g), "CredAssigned")
              \cup W(CredSigned(P, m, g), "CredSigned") \cup W(CoreFree(P, st, g), "CoreFree")
              \cup W(Authorized(P, st, g), "Authorized") \cup W(ServicesExist(st, g), "ServicesExist")
              \cup W(ItemGasOK(st, g), "ItemGasOK") \cup W(TotalGasOK(P, g), "TotalGasOK")
              \cup W(CodeHashOK(st, g), "CodeHashOK") \cup W(AnchorRecent(st, g), "AnchorRecent")
              \cup W(LookupRecent(P, st, g), "LookupRecent") \cup W(LookupKnown(st, g), "LookupKnown")
              \cup W(PackageFresh(st, g), "PackageFresh") \cup W(DepsCountOK(P, g), "DepsCountOK")
              \cup W(DepsKnown(st, ext, g), "DepsKnown") \cup W(SegRootsOK(st, ext, g), "SegRootsOK")
              \cup W(OutputSizeOK(P, g), "OutputSizeOK")
  IN W(CoresInRange(P, ext), "CoresInRange") \cup W(OrderedByCore(ext), "OrderedByCore")
     \cup W(PackagesDistinct(ext), "PackagesDistinct") \cup UNION {G(ext[i]) : i \in 1..Len(ext)}
ViolatedUnsure(P, st, ext) ==
  LET W(c, n) == IF c THEN {} ELSE {n}
      G(g) == W(TimedOutFree(P, st, g), "TimedOutFree") \cup W(LookupNotFuture(st, g), "LookupNotFuture")
              \cup W(ClearedFresh(st, g), "ClearedFresh") \cup W(ResultsCountOK(P, g), "ResultsCountOK")
  IN UNION {G(ext[i]) : i \in 1..Len(ext)}

\* the same as one conjunction (short-circuit evaluation; Reports_Trace asserts the equivalence on every line)
GuarOK(P, m, st, ext, g) ==
  /\ CredCountOK(g) /\ CredSorted(g) /\ CredIndexOK(P, g) /\ SlotNotFuture(st, g) /\ SlotNotTooOld(P, st, g)
  /\ CredAssigned(P, m, g) /\ CredSigned(P, m, g) /\ CoreFree(P, st, g) /\ Authorized(P, st, g)
  /\ ServicesExist(st, g) /\ ItemGasOK(st, g) /\ TotalGasOK(P, g) /\ CodeHashOK(st, g) /\ AnchorRecent(st, g)
  /\ LookupRecent(P, st, g) /\ LookupKnown(st, g) /\ PackageFresh(st, g) /\ DepsCountOK(P, g)
  /\ DepsKnown(st, ext, g) /\ SegRootsOK(st, ext, g) /\ OutputSizeOK(P, g)
GuarStrict(P, st, g) == TimedOutFree(P, st, g) /\ LookupNotFuture(st, g) /\ ClearedFresh(st, g) /\ ResultsCountOK(P, g)
Admissible(P, M, MS, st, ext) ==
  /\ CoresInRange(P, ext) /\ OrderedByCore(ext) /\ PackagesDistinct(ext)
  /\ \A i \in 1..Len(ext) : GuarOK(P, MOf(P, M, MS, st, ext[i]), st, ext, ext[i])
StrictlyAdmissible(P, M, MS, st, ext) ==
  Admissible(P, M, MS, st, ext) /\ \A i \in 1..Len(ext) : GuarStrict(P, st, ext[i])

\* (11.43) posterior pending reports: the guaranteed cores get their report with the block's slot,
\* every other core keeps what rho-double-dagger holds
GuarOn(ext, c) == {i \in 1..Len(ext) : ext[i].core = c}
RhoNext(P, st, ext) ==
  [c \in 1..P.C |->
     IF GuarOn(ext, c - 1) # {}
     THEN LET g == ext[CHOOSE i \in GuarOn(ext, c - 1) : TRUE] IN [rid |-> g.rid, pkg |-> g.pkg, t |-> st.tau, live |-> TRUE]
     ELSE IF st.rho[c].live THEN st.rho[c] ELSE NoReport]
\* rho-double-dagger itself
RhoDD(P, st) == [c \in 1..P.C |-> IF st.rho[c].live THEN st.rho[c] ELSE NoReport]
\* reporters: per guarantee the keys (after Phi) of the validators whose signatures it carries
Reporters(P, M, MS, st, ext) ==
  [i \in 1..Len(ext) |-> LET m == MOf(P, M, MS, st, ext[i]) IN
                         [j \in 1..Len(ext[i].sigs) |-> m.k[ext[i].sigs[j].i + 1]]]

\* tiny configuration of the repository (internal/types/const.go, SetTinyMode)
TinyP == [V |-> 6, C |-> 2, E |-> 12, R |-> 4, L |-> 24, J |-> 8, WR |-> 49152,
          GA |-> <<128, 150, 152, 0, 0, 0, 0, 0>>, U |-> 5, I |-> 16]      \* G_A = 10 000 000
=============================================================================

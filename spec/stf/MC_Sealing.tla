----------------------------- MODULE MC_Sealing -----------------------------
(* Model-checking instance of Sealing; constants come from checks/x03.py.            *)
EXTENDS Sealing
\* sanity probes (expected to be VIOLATED; used by checks/x03.py --selfcheck only): a ticket-sealed block is reachable
NeverTicketSealedBlock == ~(last.ok /\ last.f # <<>> /\ st.gs.t # <<>> /\ last.f.seal.str = "t")
=============================================================================

---------------------------- MODULE Preimages_Gen ----------------------------
(* G-step for C31: TLC enumerates                                                   *)
(*  Lookup   : every availability record of length 0..4 over 7 instants x every     *)
(*             query time, mapped around 0, 2^8, 2^31 and 2^32 (+ stored / not      *)
(*             stored / wrong length / other hash / empty blob variants, host-call   *)
(*             offset, length and service-selection variants);                       *)
(*  Validate : extrinsics of <= 3 entries over 2 services x 3 blobs (any order,      *)
(*             duplicates) x admission state of every named pair;                    *)
(*  Process  : strictly ordered extrinsics x admission state in delta-double-dagger; *)
(*  Provide  : accumulation-provided (service, blob) lists x dictionary states.      *)
(* Cases carry inputs only; expectations are computed by Preimages_Trace.            *)
EXTENDS Integers, Sequences, FiniteSets, SequencesExt, Json, TLC
CONSTANTS OutFile, Tier, Seed
VARIABLE x
Services == {}
Blobs == {}
MaxT == 0
D == 0
MaxEps == 0
delta == {}
tau == 0
hist == {}
last == <<>>
INSTANCE Preimages

\* ---- 4-byte naturals ----
N4(k) == <<k % 256, (k \div 256) % 256, (k \div 65536) % 256, k \div 16777216>>
RECURSIVE NAdd(_, _)
NAdd(a, k) == IF a = <<>> THEN <<>> ELSE <<(a[1] + k) % 256>> \o NAdd(Tail(a), (a[1] + k) \div 256)
Bases == << N4(0), N4(250), <<253, 255, 255, 127>>, <<248, 255, 255, 255>>, N4(65533) >>
T(base, k) == NAdd(Bases[base], k)

S1 == N4(5)
S2 == N4(256)
S3 == <<1, 0, 0, 128>>
SAbsent == N4(9)
B0 == <<>>
B1 == <<1>>
B2 == <<1, 0>>
B3 == <<2>>
Q1 == <<9, 8, 7, 6, 5>>   \* the blob queried by the lookup cases
Q2 == <<9, 8, 7>>

Dict(b, n, ss) == [h |-> H(b), len |-> n, slots |-> ss, raw |-> 0, val |-> <<>>]
Raw(b, n, v) == [h |-> H(b), len |-> n, slots |-> <<>>, raw |-> 1, val |-> v]
Pre(b) == [h |-> H(b), blob |-> b]
\* serialisable account: sets become sequences
Ser(a) == [s |-> a.s, p |-> SetToSeq(a.p), l |-> SetToSeq(a.l)]

\* ---------------------------------------------------------------- lookup
Recs(TS, n) == UNION {[1..k -> TS] : k \in 0..n}
Mix(r, t) == (Len(r) * 31 + t * 7 + (IF r = <<>> THEN 0 ELSE r[1] * 3 + r[Len(r)])) % 1000
LookupCase(rec, t, base, variant, f, n, sel) ==
  LET ss == [i \in 1..Len(rec) |-> T(base, rec[i])]
      a == CASE variant = "stored"   -> [s |-> S1, p |-> {Pre(Q1)}, l |-> {Dict(Q1, Len(Q1), ss)}]
             [] variant = "nopre"    -> [s |-> S1, p |-> {}, l |-> {Dict(Q1, Len(Q1), ss)}]
             [] variant = "wronglen" -> [s |-> S1, p |-> {Pre(Q1)}, l |-> {Dict(Q1, Len(Q1) + 1, ss)}]
             [] variant = "otherh"   -> [s |-> S1, p |-> {Pre(Q1)}, l |-> {Dict(Q2, Len(Q1), ss)}]
             [] variant = "noentry"  -> [s |-> S1, p |-> {Pre(Q1)}, l |-> {}]
             [] variant = "two"      -> [s |-> S1, p |-> {Pre(Q1), Pre(Q2)}, l |-> {Dict(Q1, Len(Q1), ss), Dict(Q2, 3, <<>>)}]
             [] variant = "twoother" -> [s |-> S1, p |-> {Pre(Q1), Pre(Q2)}, l |-> {Dict(Q2, 3, ss), Dict(Q1, Len(Q1), <<>>)}]
             [] variant = "empty"    -> [s |-> S1, p |-> {Pre(B0), Pre(Q1)}, l |-> {Dict(B0, 0, ss)}]
  IN [ev |-> "Lookup", acct |-> Ser(a), t |-> T(base, t), variant |-> variant,
      h |-> (IF variant = "empty" THEN H(B0) ELSE H(Q1)), f |-> f, n |-> n, sel |-> sel]
Fs == <<0, 1, 3, 7>>
Ns == <<64, 0, 2, 16>>
LookupMain(TS, n, TQ) == {LookupCase(r, t, (Mix(r, t) % Len(Bases)) + 1, "stored", Fs[(Mix(r, t) % 4) + 1], Ns[(Mix(r, t + 1) % 4) + 1], Mix(r, t) % 3)
                          : r \in Recs(TS, n), t \in TQ}
Variants == {"nopre", "wronglen", "otherh", "noentry", "two", "twoother", "empty"}
LookupVar(TS, n, TQ) == {LookupCase(r, t, (Mix(r, t) % Len(Bases)) + 1, v, Fs[(Mix(r, t) % 4) + 1], 64, Mix(r, t) % 3)
                          : r \in Recs(TS, n), t \in TQ, v \in Variants}
\* every base on the boundary-crossing records
LookupBases == {LookupCase(r, t, b, "stored", 0, 64, 0) : r \in Recs({2, 3}, 3) \cup {<<1, 3, 5, 7>>}, t \in 1..7, b \in 1..Len(Bases)}

\* ---------------------------------------------------------------- admission
Pairs6 == {S1, S2} \X {B1, B2, B3}
SeqsUpTo(S, n) == UNION {[1..k -> S] : k \in 0..n}
Named(e) == {e[i] : i \in 1..Len(e)}
\* entries (preimage set, lookup set) of one (blob, state)
PreFor(b, st) == IF st \in {"prov", "forgot", "resol", "rawprov", "ghost"} THEN {Pre(b)} ELSE {}
EntFor(b, st) == CASE st = "absent"  -> {}
                   [] st = "sol"     -> {Dict(b, Len(b), <<>>)}
                   [] st = "prov"    -> {Dict(b, Len(b), <<N4(3)>>)}
                   [] st = "forgot"  -> {Dict(b, Len(b), <<N4(3), N4(4)>>)}
                   [] st = "resol"   -> {Dict(b, Len(b), <<N4(3), N4(4), N4(6)>>)}
                   [] st = "rawsol"  -> {Raw(b, Len(b), <<0>>)}
                   [] st = "rawprov" -> {Raw(b, Len(b), <<1, 3, 0, 0, 0>>)}
                   [] st = "rawjunk" -> {Raw(b, Len(b), <<1>>)}
                   [] st = "wronglen" -> {Dict(b, Len(b) + 1, <<>>)}
                   [] st = "ghost"   -> {Dict(b, Len(b), <<>>)}             \* empty entry although the blob is stored
                   [] st = "lostpre" -> {Dict(b, Len(b), <<N4(3)>>)}        \* entry says provided, blob not stored
\* delta over the given services; stOf maps <<s, b>> to a state
MkDelta(SS, BB, stOf) == {[s |-> s, p |-> UNION {PreFor(b, stOf[<<s, b>>]) : b \in BB},
                           l |-> UNION {EntFor(b, stOf[<<s, b>>]) : b \in BB}] : s \in SS}
SerD(d) == LET q == SetToSeq(d) IN [i \in 1..Len(q) |-> Ser(q[i])]
EpsOf(e) == [i \in 1..Len(e) |-> [s |-> e[i][1], blob |-> e[i][2]]]
Taus == << N4(7), N4(0), <<255, 255, 255, 127>>, <<0, 0, 0, 128>>, <<255, 255, 255, 255>>, N4(1000000) >>
TauFor(e) == Taus[((Len(e) * 5 + (IF e = <<>> THEN 0 ELSE Len(e[1][2]) + e[Len(e)][2][1])) % Len(Taus)) + 1]

\* all state assignments to the named pairs, `dflt` elsewhere
Assign(P, named, States, dflt) == {[pr \in P |-> IF pr \in named THEN f[pr] ELSE dflt[pr]] : f \in [named -> States]}
Dflt6 == [pr \in Pairs6 |-> IF pr[1] = S1 THEN "prov" ELSE "rawsol"]
DfltSol == [pr \in Pairs6 |-> "sol"]

ValidateFam(n) == UNION {{[ev |-> "Validate", delta |-> SerD(MkDelta({S1, S2}, {B1, B2, B3}, st)), eps |-> EpsOf(e), tau |-> TauFor(e)]
                          : st \in Assign(Pairs6, Named(e), {"absent", "sol", "prov", "rawsol"}, DfltSol)} : e \in SeqsUpTo(Pairs6, n)}
\* service order (5 < 256 < 2^31+1, which byte-wise or signed comparisons get wrong), everything solicited
P3 == {S1, S2, S3} \X {B1}
ValidateSvc == {[ev |-> "Validate", delta |-> SerD(MkDelta({S1, S2, S3}, {B1}, [pr \in P3 |-> "sol"])), eps |-> EpsOf(e), tau |-> N4(7)]
                : e \in SeqsUpTo(P3, 3)}
\* the remaining admission states, the empty blob, an unknown service
P1 == {S1} \X {B1, B0}
ValidateMisc == {[ev |-> "Validate", delta |-> SerD(MkDelta({S1}, {B1, B0}, [pr \in P1 |-> st])), eps |-> EpsOf(e), tau |-> N4(7)]
                 : st \in {"absent", "sol", "prov", "forgot", "resol", "rawsol", "rawprov", "rawjunk", "wronglen", "ghost", "lostpre"},
                   e \in {<<<<S1, B1>>>>, <<<<S1, B0>>>>, <<<<S1, B0>>, <<S1, B1>>>>, <<<<S1, B1>>, <<S1, B0>>>>, <<<<SAbsent, B1>>>>, <<>>}}

\* ---------------------------------------------------------------- integration
Sorted6 == {e \in SeqsUpTo(Pairs6, 3) : StrictlyOrdered(EpsOf(e))}
ProcessFam(E) == UNION {{[ev |-> "Process", delta |-> SerD(MkDelta({S1, S2}, {B1, B2, B3}, st)), eps |-> EpsOf(e), tau |-> TauFor(e)]
                         : st \in Assign(Pairs6, Named(e), {"absent", "sol", "prov", "rawsol", "forgot"}, Dflt6)} : e \in E}
ProcessMisc == {[ev |-> "Process", delta |-> SerD(MkDelta({S1}, {B1, B0}, [pr \in P1 |-> st])), eps |-> EpsOf(e), tau |-> N4(7)]
                : st \in {"absent", "sol", "prov", "forgot", "resol", "rawsol", "rawprov", "rawjunk", "wronglen", "ghost", "lostpre"},
                  e \in {<<<<S1, B1>>>>, <<<<S1, B0>>>>, <<<<S1, B0>>, <<S1, B1>>>>, <<<<SAbsent, B1>>>>}}
DfltDict == [pr \in Pairs6 |-> IF pr[1] = S1 THEN "prov" ELSE "sol"]
ProvideFam(n) == UNION {{[ev |-> "Provide", delta |-> SerD(MkDelta({S1, S2}, {B1, B2, B3}, st)), eps |-> EpsOf(e), tau |-> TauFor(e)]
                         : st \in Assign(Pairs6, Named(e), {"absent", "sol", "prov", "forgot"}, DfltDict)} : e \in SeqsUpTo(Pairs6, n)}
                 \cup {[ev |-> "Provide", delta |-> SerD(MkDelta({S1}, {B1}, [pr \in {<<S1, B1>>} |-> "sol"])), eps |-> EpsOf(<<<<SAbsent, B1>>, <<S1, B1>>>>), tau |-> N4(7)]}

Pick(S, n) == LET qq == SetToSeq(S) IN {qq[i] : i \in {j \in 1..Len(qq) : (j + Seed) % n = 0}}
Len3 == SeqsUpTo(Pairs6, 3) \ SeqsUpTo(Pairs6, 2)
Cases == IF Tier = "thorough"
         THEN LookupMain(0..6, 4, 0..7) \cup LookupVar({1, 3, 5}, 3, 0..6) \cup LookupBases
              \cup ValidateFam(3) \cup ValidateSvc \cup ValidateMisc
              \cup ProcessFam(Sorted6) \cup ProcessMisc \cup ProvideFam(2)
         ELSE LookupMain({1, 3, 5}, 4, 0..6) \cup Pick(LookupVar({1, 3, 5}, 3, 0..6), 6) \cup Pick(LookupBases, 3)
              \cup ValidateFam(2) \cup ValidateSvc \cup ValidateMisc
              \cup UNION {{[ev |-> "Validate", delta |-> SerD(MkDelta({S1, S2}, {B1, B2, B3}, st)), eps |-> EpsOf(e), tau |-> TauFor(e)]
                           : st \in Pick(Assign(Pairs6, Named(e), {"absent", "sol", "prov", "rawsol"}, DfltSol), 4)} : e \in Pick(Len3, 3)}
              \cup ProcessFam({e \in Sorted6 : Len(e) <= 2}) \cup Pick(ProcessFam({e \in Sorted6 : Len(e) = 3}), 12) \cup ProcessMisc
              \cup ProvideFam(1) \cup Pick(ProvideFam(2), 6)

ASSUME ndJsonSerialize(OutFile, SetToSeq(Cases))
ASSUME PrintT(<<"GEN", Cardinality(Cases)>>)
GenInit == x = 0
GenNext == FALSE /\ x' = x
=============================================================================

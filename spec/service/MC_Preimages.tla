---------------------------- MODULE MC_Preimages ----------------------------
(* Model-checking instances of Preimages (selected by checks/c31.py).              *)
EXTENDS Preimages
S_one == {<<1>>}
S_two == {<<1>>, <<2>>}
B_two == {<<1>>, <<1, 0>>}
B_one == {<<7>>}
B_empty == {<<>>, <<3>>}
=============================================================================

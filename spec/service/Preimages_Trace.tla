--------------------------- MODULE Preimages_Trace ---------------------------
(* V-step for C31.  Every record is judged on its own.                               *)
(*  Lookup   {acct, t, h, f, n, sel, res:{fn:{found, blob}, host:{exit, w7, out, panic}}}      *)
(*           fn = service_account.HistoricalLookup; host = the refine host call       *)
(*           historical_lookup with the hash at a readable address, a 16-byte         *)
(*           writable window prefilled with 170 at the output address, offset f,      *)
(*           length n, service selected as sel (0: own via 2^64-1, 1: by id, 2: an    *)
(*           id that names no service)                                                *)
(*  Validate {delta, eps, res:{validate:{ok, err, panic}}}                            *)
(*  Process  {delta, eps, tau, res:{process:{delta, err, panic}}}   (singleton path)  *)
(*  Provide  {delta, eps, tau, res:{provide:{delta, err, panic}}}                     *)
(* Accounts as in Preimages.tla, sets given as lists.                                 *)
EXTENDS Integers, Sequences, FiniteSets, SequencesExt, Json, TLC
CONSTANTS TraceFile, ResultFile, KnownDeviations
VARIABLES l, devs, bad
Services == {}
Blobs == {}
MaxT == 0
D == 0
MaxEps == 0
delta == {}
tau == 0
hist == {}
last == <<>>
INSTANCE Preimages

Trace == ndJsonDeserialize(TraceFile)
Ran(s) == {s[i] : i \in 1..Len(s)}
Acct(j) == [s |-> j.s, p |-> Ran(j.p), l |-> Ran(j.l)]
Delta(js) == {Acct(js[i]) : i \in 1..Len(js)}
WellFormed(d) == /\ \A a \in d, b \in d : a.s = b.s => a = b
                 /\ \A a \in d : /\ \A q \in a.p, r \in a.p : q.h = r.h => q = r
                                 /\ \A e \in a.l, g \in a.l : (e.h = g.h /\ e.len = g.len) => e = g

Fill == 170
None8 == <<255, 255, 255, 255, 255, 255, 255, 255>>
LE8(n) == <<n % 256, n \div 256, 0, 0, 0, 0, 0, 0>>
\* window after the host call if it answered with blob v
Window(v, f, n) == LET f2 == Min2(f, Len(v)) l2 == Min2(n, Len(v) - f2) IN
                   [i \in 1..16 |-> IF i <= l2 THEN v[f2 + i] ELSE Fill]
HostOk(e, r) ==
  LET want == IF e.sel = 2 THEN {Nothing} ELSE LambdaSet(Acct(e.acct), e.t, e.h) IN
  /\ r.panic = "" /\ r.exit = "continue"
  /\ \E w \in want : IF w.found = 1 THEN r.w7 = LE8(Len(w.blob)) /\ r.out = Window(w.blob, e.f, e.n)
                     ELSE r.w7 = None8 /\ r.out = [i \in 1..16 |-> Fill]

Verdict(e, api, r) ==
  IF r.panic # "" THEN "panic"
  ELSE CASE e.ev = "Lookup" /\ api = "fn" ->
              (IF [found |-> r.found, blob |-> r.blob] \in LambdaSet(Acct(e.acct), e.t, e.h) THEN "ok"
               ELSE IF r.found = 1 THEN "returned_unavailable_or_wrong_preimage" ELSE "missed_available_preimage")
         [] e.ev = "Lookup" /\ api = "host" -> (IF HostOk(e, r) THEN "ok" ELSE "host_lookup_mismatch")
         [] e.ev = "Validate" ->
              (IF (r.ok = 1) = Admissible(Delta(e.delta), e.eps) THEN "ok"
               ELSE IF r.ok = 1 THEN (IF StrictlyOrdered(e.eps) THEN "accepted_unneeded" ELSE "accepted_unordered") ELSE "rejected_admissible")
         [] e.ev \in {"Process", "Provide"} ->
              (IF r.err # "" THEN "error_returned"
               ELSE IF ~WellFormed(Delta(r.delta)) THEN "duplicate_entries"
               ELSE IF Norm(Delta(r.delta)) = Norm(Integrate(Delta(e.delta), e.eps, e.tau)) THEN "ok"
               ELSE "integration_mismatch")

Judge(e) == {[why |-> Verdict(e, a, e.res[a]) \o ":" \o a] : a \in {a \in DOMAIN e.res : Verdict(e, a, e.res[a]) # "ok"}}

TInit == l = 1 /\ devs = {} /\ bad = {}
TNext == /\ l <= Len(Trace)
         /\ bad' = bad \cup {[l |-> l, why |-> y.why] : y \in Judge(Trace[l])}
         /\ devs' = devs
         /\ l' = l + 1
TraceSpec == TInit /\ [][TNext]_<<l, devs, bad>>

Report == (l = Len(Trace) + 1) =>
  JsonSerialize(ResultFile, [n |-> l - 1, devs |-> SetToSeq(devs), bad |-> SetToSeq(bad)])
=============================================================================

--------------------------- MODULE ServiceAccount ---------------------------
(* Service accounts (Gray Paper 9.3, 9.8) on exact integers.                        *)
(*                                                                                 *)
(* An account is the record the drivers log (all numbers little-endian bytes):      *)
(*   [id:4, code:32, bal:8, g:8, m:8, oct:8, gratis:8, items:4, created:4, last:4,  *)
(*    parent:4, st: <<<<key, value>>, ..>> sorted by key,                           *)
(*    lk: <<[h:32, z:4, slots: <<t:4,..>>], ..>> sorted by (h, z),                  *)
(*    pre: <<[h:32, blob], ..>> sorted by h]                                        *)
(*                                                                                 *)
(*   a_i = 2|a_l| + |a_s|                                                          *)
(*   a_o = sum over a_l of (81 + z)  +  sum over a_s of (34 + |k| + |v|)            *)
(*   a_t = max(0, B_S + B_I a_i + B_L a_o - a_f),  B_S = 100, B_I = 10, B_L = 1     *)
(* a_t is computed on 10-byte numbers: 100 + 10 (2^32-1) + (2^64-1) < 2^65, so the  *)
(* value is EXACT.  A 64-bit result exists iff the exact value is below 2^64.       *)
(* Decided clause D-sat: when the exact threshold does not fit 64 bits, the only    *)
(* 64-bit answer accepted from CalcThresholdBalance is 2^64-1 (no representable      *)
(* balance other than 2^64-1 itself then passes a balance >= threshold test);        *)
(* BelowThreshold compares against that saturated value.                            *)
EXTENDS BigNat, FiniteSetsExt

BS == 100
BI == 10
W == 10                                   \* width of exact threshold arithmetic
T10(x) == x \o Zeros(W - Len(x))
\* 100 + 10 * items + octets, exact, W bytes
RawThreshold(items, oct) == Add(Add(T10(LE(BS, 2)), Sub(MulFull(T10(items), <<BI>>), 1, W)), T10(oct))
ThresholdX(items, oct, gratis) ==
  LET r == RawThreshold(items, oct) g == T10(gratis) IN IF LtU(r, g) THEN Zeros(W) ELSE SubU(r, g)
Fits64(x) == \A i \in 9..Len(x) : x[i] = 0
\* the 64-bit threshold (clause D-sat)
Threshold64(items, oct, gratis) == LET x == ThresholdX(items, oct, gratis) IN IF Fits64(x) THEN Sub(x, 1, 8) ELSE UMax
AcctThresholdX(a) == ThresholdX(a.items, a.oct, a.gratis)
\* balance b (8 bytes) is below the exact threshold x (W bytes)
\* (D-sat: against a threshold of 2^64 or more only the balance 2^64-1 counts as covering it)
BelowThreshold(b, x) == LtU(T10(b), IF Fits64(x) THEN x ELSE T10(UMax))

\* ---- derived footprint ----
RECURSIVE SumU8(_)
SumU8(s) == IF s = <<>> THEN U64Zero ELSE Add(Head(s), SumU8(Tail(s)))
LkOctets(e) == Add(U(81), e.z \o Zeros(4))
StOctets(e) == U(34 + Len(e[1]) + Len(e[2]))
DerivedItems(a) == LE(2 * Len(a.lk) + Len(a.st), 4)
DerivedOctets(a) == Add(SumU8([i \in 1..Len(a.lk) |-> LkOctets(a.lk[i])]), SumU8([i \in 1..Len(a.st) |-> StOctets(a.st[i])]))
FootprintCoherent(a) == a.items = DerivedItems(a) /\ a.oct = DerivedOctets(a)

\* ---- canonical orders of the logged dictionaries ----
LkLess(e, f) == LET c == CmpLex(e.h, f.h) IN c = -1 \/ (c = 0 /\ LtU(e.z, f.z))
StLess(e, f) == CmpLex(e[1], f[1]) = -1
PreLess(e, f) == CmpLex(e.h, f.h) = -1
IdLess(a, b) == LtU(a.id, b.id)
\* insert e into the sorted sequence s (no equal key present)
InsertBy(s, e, Less(_, _)) ==
  LET k == Cardinality({i \in 1..Len(s) : Less(s[i], e)}) IN Sub(s, 1, k) \o <<e>> \o Sub(s, k + 1, Len(s))
DelAt(s, i) == Sub(s, 1, i - 1) \o Sub(s, i + 1, Len(s))
Sorted(s, Less(_, _)) == \A i \in 1..(Len(s) - 1) : Less(s[i], s[i + 1])

LkIndex(a, h, z) == LET S == {i \in 1..Len(a.lk) : a.lk[i].h = h /\ a.lk[i].z = z} IN IF S = {} THEN 0 ELSE CHOOSE i \in S : TRUE
StIndex(a, k) == LET S == {i \in 1..Len(a.st) : a.st[i][1] = k} IN IF S = {} THEN 0 ELSE CHOOSE i \in S : TRUE
PreIndex(a, h) == LET S == {i \in 1..Len(a.pre) : a.pre[i].h = h} IN IF S = {} THEN 0 ELSE CHOOSE i \in S : TRUE
SvcIndex(svcs, id) == LET S == {i \in 1..Len(svcs) : svcs[i].id = id} IN IF S = {} THEN 0 ELSE CHOOSE i \in S : TRUE

WellFormedAcct(a) == Sorted(a.lk, LkLess) /\ Sorted(a.st, StLess) /\ Sorted(a.pre, PreLess)
=============================================================================

----------------------------- MODULE Preimages -----------------------------
(* C31: historical lookup (Gray Paper 9.5-9.7: I, Lambda) and admission /          *)
(* integration of a block's preimage extrinsic (12.38-12.43: strict order, Y, P).  *)
(*                                                                                 *)
(* Data (shared by MC, generator and trace):                                       *)
(*  - a natural (time slot, service id) is a little-endian byte tuple of fixed      *)
(*    width (1 byte in MC, 4 bytes in traces); NLeq compares numerically;          *)
(*  - a hash identifier is [k |-> "b", v |-> blob] (= H(blob)) or                  *)
(*    [k |-> "x", v |-> 32 bytes]; only identity matters;                          *)
(*  - an account is [s, p, l]: p = set of [h, blob]; l = set of lookup entries     *)
(*    [h, len, slots, raw, val]; raw = 1: the entry exists only as an unattributed *)
(*    state key-value whose value is val = E(var-length sequence of E_4(slot))     *)
(*    (slots = <<>> then), raw = 0: it sits in the account's dictionary;           *)
(*  - delta is a set of accounts with distinct s.                                  *)
(*                                                                                 *)
(* Permissive clauses:                                                             *)
(*  P1 availability records of length 4 do not exist in the Gray Paper (|l| <= 3); *)
(*     the statement quantifies over them: both "never available" and the interval *)
(*     reading [x,y) u [z,w) are accepted (Avail4).                                *)
(*  P2 an EMPTY stored preimage that is available may be reported as the empty     *)
(*     blob or as nothing (Go cannot tell them apart through a nil-able slice).    *)
EXTENDS Integers, Sequences, FiniteSets, Bytes

\* ---- naturals as little-endian byte tuples of equal width ----
RECURSIVE NCmp(_, _)
NCmp(a, b) == IF a = <<>> THEN 0
              ELSE LET n == Len(a) IN
                   IF a[n] < b[n] THEN -1 ELSE IF a[n] > b[n] THEN 1
                   ELSE NCmp(SubSeq(a, 1, n - 1), SubSeq(b, 1, n - 1))
NLeq(a, b) == NCmp(a, b) <= 0
NLt(a, b) == NCmp(a, b) < 0

\* ---- 9.5: I(l, t) ----
Avail(l, t) == CASE Len(l) = 0 -> FALSE
                 [] Len(l) = 1 -> NLeq(l[1], t)
                 [] Len(l) = 2 -> NLeq(l[1], t) /\ NLt(t, l[2])
                 [] Len(l) = 3 -> (NLeq(l[1], t) /\ NLt(t, l[2])) \/ NLeq(l[3], t)
                 [] OTHER -> FALSE
\* every verdict the statement allows (P1)
AvailSet(l, t) == IF Len(l) = 4 THEN {FALSE, (NLeq(l[1], t) /\ NLt(t, l[2])) \/ (NLeq(l[3], t) /\ NLt(t, l[4]))}
                  ELSE {Avail(l, t)}

\* ---- accounts ----
H(blob) == [k |-> "b", v |-> blob]
HasPre(a, h) == \E r \in a.p : r.h = h
PreOf(a, h) == (CHOOSE r \in a.p : r.h = h).blob
\* E(var-length sequence of 4-byte slots): <<n>> \o slots (n < 128 here)
RECURSIVE Flat(_)
Flat(ss) == IF ss = <<>> THEN <<>> ELSE Head(ss) \o Flat(Tail(ss))
EncSlots(ss) == <<Len(ss)>> \o Flat(ss)
DecSlots(val) == IF Len(val) >= 1 /\ val[1] < 128 /\ Len(val) = 1 + 4 * val[1]
                 THEN [ok |-> TRUE, slots |-> [i \in 1..val[1] |-> SubSeq(val, 4 * i - 2, 4 * i + 1)]]
                 ELSE [ok |-> FALSE, slots |-> <<>>]
\* the availability record an entry denotes (a raw entry denotes what its value decodes to)
SlotsOf(e) == IF e.raw = 1 THEN DecSlots(e.val).slots ELSE e.slots
EntryOk(e) == e.raw = 0 \/ DecSlots(e.val).ok
HasEntry(a, h, n) == \E e \in a.l : e.h = h /\ e.len = n
EntryOf(a, h, n) == CHOOSE e \in a.l : e.h = h /\ e.len = n

\* ---- 9.7: Lambda(a, t, h) ----
Nothing == [found |-> 0, blob |-> <<>>]
Found(b) == [found |-> 1, blob |-> b]
\* dictionary entries only: the lookup functions take an account, raw key-values are not its business
DictSlots(a, h, n) == IF \E e \in a.l : e.h = h /\ e.len = n /\ e.raw = 0
                      THEN (CHOOSE e \in a.l : e.h = h /\ e.len = n /\ e.raw = 0).slots ELSE <<>>
LambdaSet(a, t, h) ==
  IF ~HasPre(a, h) THEN {Nothing}
  ELSE LET b == PreOf(a, h) IN
       UNION {IF v THEN (IF b = <<>> THEN {Found(b), Nothing} ELSE {Found(b)}) ELSE {Nothing}
              : v \in AvailSet(DictSlots(a, h, Len(b)), t)}

\* ---- 12.38-12.40: admission ----
AcctOf(delta, s) == CHOOSE a \in delta : a.s = s
HasAcct(delta, s) == \E a \in delta : a.s = s
\* Y(d, s, h, n): solicited and not provided
Needed(delta, s, h, n) ==
  /\ HasAcct(delta, s)
  /\ LET a == AcctOf(delta, s) IN
     /\ ~HasPre(a, h)
     /\ HasEntry(a, h, n) /\ EntryOk(EntryOf(a, h, n)) /\ SlotsOf(EntryOf(a, h, n)) = <<>>
EpLess(x, y) == NLt(x.s, y.s) \/ (x.s = y.s /\ CmpLex(x.blob, y.blob) < 0)
StrictlyOrdered(eps) == \A i \in 1..(Len(eps) - 1) : EpLess(eps[i], eps[i + 1])
Admissible(delta, eps) == /\ StrictlyOrdered(eps)
                          /\ \A i \in 1..Len(eps) : Needed(delta, eps[i].s, H(eps[i].blob), Len(eps[i].blob))

\* ---- 12.41-12.43: integration into delta (double dagger) at slot tau ----
Accepted(delta, eps) == {i \in 1..Len(eps) : Needed(delta, eps[i].s, H(eps[i].blob), Len(eps[i].blob))}
IntegrateAcct(a, blobs, tau) ==
  [s |-> a.s,
   p |-> a.p \cup {[h |-> H(b), blob |-> b] : b \in blobs},
   l |-> {e \in a.l : ~\E b \in blobs : e.h = H(b) /\ e.len = Len(b)}
         \cup {[h |-> H(b), len |-> Len(b), slots |-> <<tau>>, raw |-> 0, val |-> <<>>] : b \in blobs}]
Integrate(delta, eps, tau) ==
  LET acc == Accepted(delta, eps) IN
  {IntegrateAcct(a, {eps[i].blob : i \in {j \in acc : eps[j].s = a.s}}, tau) : a \in delta}

\* what an account means, whatever the representation of its lookup entries
NormEntry(e) == [h |-> e.h, len |-> e.len, ok |-> EntryOk(e), slots |-> SlotsOf(e), junk |-> IF EntryOk(e) THEN <<>> ELSE e.val]
NormAcct(a) == [s |-> a.s, p |-> a.p, l |-> {NormEntry(e) : e \in a.l}]
Norm(delta) == {NormAcct(a) : a \in delta}

\* ---- the machine (MC): services soliciting / forgetting, blocks carrying preimage extrinsics ----
CONSTANTS Services,   \* set of service ids (1-byte naturals)
          Blobs,      \* set of blobs
          MaxT,       \* last slot explored
          D,          \* expunge delay
          MaxEps      \* entries per extrinsic
VARIABLES delta,      \* set of accounts
          tau,        \* current slot (integer)
          hist,       \* history: set of [s, b, from, to] availability intervals that really happened (to = -1: open)
          last        \* the last block: [eps, acc, tau]
vars == <<delta, tau, hist, last>>

TB(n) == <<n>>
Ent(b, ss) == [h |-> H(b), len |-> Len(b), slots |-> ss, raw |-> 0, val |-> <<>>]
SetEntry(a, b, ss) == [a EXCEPT !.l = {e \in @ : ~(e.h = H(b) /\ e.len = Len(b))} \cup {Ent(b, ss)}]
DropEntry(a, b) == [a EXCEPT !.l = {e \in @ : ~(e.h = H(b) /\ e.len = Len(b))}, !.p = {r \in @ : r.h # H(b)}]
Upd(dl, a2) == {IF a.s = a2.s THEN a2 ELSE a : a \in dl}
NoEnt == << <<-1>> >>      \* no entry at all
Cur(a, b) == IF HasEntry(a, H(b), Len(b)) THEN SlotsOf(EntryOf(a, H(b), Len(b))) ELSE NoEnt

\* host calls solicit / forget at slot t (Gray Paper B.7), as the environment that produces service states
SolicitAt(dl, s, b, t) == LET a == AcctOf(dl, s) c == Cur(a, b) IN
  IF c = NoEnt THEN Upd(dl, SetEntry(a, b, <<>>))
  ELSE IF Len(c) = 2 THEN Upd(dl, SetEntry(a, b, Append(c, TB(t)))) ELSE dl
ForgetAt(dl, s, b, t) == LET a == AcctOf(dl, s) c == Cur(a, b) IN
  IF c = NoEnt THEN dl
  ELSE IF c = <<>> THEN Upd(dl, DropEntry(a, b))
  ELSE IF Len(c) = 1 THEN Upd(dl, SetEntry(a, b, Append(c, TB(t))))
  ELSE IF c[2][1] < t - D THEN (IF Len(c) = 2 THEN Upd(dl, DropEntry(a, b)) ELSE Upd(dl, SetEntry(a, b, <<c[3], TB(t)>>)))
  ELSE dl
CloseHist(hs, s, b, t) == {IF i.s = s /\ i.b = b /\ i.to = -1 THEN [i EXCEPT !.to = t] ELSE i : i \in hs}

\* forgetting closes the open availability interval when it turns [x] into [x,t] or [x,y,w] into [w,t]
ForgetHist(hs, dl, s, b, t) == LET c == Cur(AcctOf(dl, s), b) IN
  IF c # NoEnt /\ Len(c) \in {1, 3} /\ ForgetAt(dl, s, b, t) # dl THEN CloseHist(hs, s, b, t) ELSE hs

Pairs == Services \X Blobs
EpsSet == UNION {[1..k -> [s : Services, blob : Blobs]] : k \in 0..MaxEps}
NoBlock == [eps |-> <<>>, acc |-> {}, tau |-> 0]

Init == /\ delta = {[s |-> s, p |-> {}, l |-> {}] : s \in Services}
        /\ tau = 0 /\ hist = {} /\ last = NoBlock
Tick == tau < MaxT /\ tau' = tau + 1 /\ UNCHANGED <<delta, hist, last>>
Solicit(s, b) == /\ delta' = SolicitAt(delta, s, b, tau) /\ delta' # delta
                 /\ hist' = (IF Cur(AcctOf(delta, s), b) = <<>> \/ Cur(AcctOf(delta, s), b) = NoEnt THEN hist   \* re-soliciting [x,y] makes it available again
                             ELSE hist \cup {[s |-> s, b |-> b, from |-> tau, to |-> -1]})
                 /\ UNCHANGED <<tau, last>>
Forget(s, b) == /\ delta' = ForgetAt(delta, s, b, tau) /\ delta' # delta
                /\ hist' = ForgetHist(hist, delta, s, b, tau)
                /\ UNCHANGED <<tau, last>>
\* a block at slot tau: the extrinsic is admitted against delta; accumulation (here: at most one forget)
\* runs before the extrinsic is integrated into the resulting delta-double-dagger
Block(eps, mid) ==
  /\ Admissible(delta, eps)
  /\ LET dd == IF mid = <<>> THEN delta ELSE ForgetAt(delta, mid[1], mid[2], tau)
         acc == Accepted(dd, eps) IN
     /\ delta' = Integrate(dd, eps, TB(tau))
     /\ hist' = (IF mid # <<>> THEN ForgetHist(hist, delta, mid[1], mid[2], tau) ELSE hist)
                \cup {[s |-> eps[i].s, b |-> eps[i].blob, from |-> tau, to |-> -1] : i \in acc}
     /\ last' = [eps |-> eps, acc |-> acc, tau |-> tau]
  /\ UNCHANGED tau
Next == \/ Tick
        \/ \E pr \in Pairs : Solicit(pr[1], pr[2]) \/ Forget(pr[1], pr[2])
        \/ \E eps \in EpsSet, mid \in {<<>>} \cup Pairs : eps # <<>> /\ Block(eps, mid)
Spec == Init /\ [][Next]_vars
View == <<delta, tau, hist>>

\* ---- properties ----
\* 9.6: a stored preimage always has its lookup entry; an empty (merely solicited) entry has no preimage
Inv96 == \A a \in delta : /\ \A r \in a.p : r.h = H(r.blob) /\ HasEntry(a, r.h, Len(r.blob))
                          /\ \A e \in a.l : e.slots = <<>> => ~HasPre(a, e.h)
SlotsSorted == \A a \in delta : \A e \in a.l :
                 /\ Len(e.slots) <= 3
                 /\ \A i \in 1..Len(e.slots) : e.slots[i][1] <= tau
                 /\ \A i \in 1..(Len(e.slots) - 1) : e.slots[i][1] <= e.slots[i + 1][1]
\* the historical lookup is sound: whatever it returns at a past or present slot was really available then,
\* and it is complete for the interval that is still open
LookupSound == \A a \in delta, b \in Blobs, t \in 0..tau :
    /\ (Found(b) \in LambdaSet(a, TB(t), H(b)) /\ b # <<>>)
          => \E i \in hist : i.s = a.s /\ i.b = b /\ i.from <= t /\ (i.to = -1 \/ t < i.to)
    /\ (\E i \in hist : i.s = a.s /\ i.b = b /\ i.to = -1 /\ i.from <= t) => Found(b) \in LambdaSet(a, TB(t), H(b))
\* a block stores exactly its accepted preimages, with the block's slot as the start of availability
BlockStores == [][last' # last =>
    \A i \in 1..Len(last'.eps) :
      LET ep == last'.eps[i] a == AcctOf(delta', ep.s) IN
      i \in last'.acc => /\ HasPre(a, H(ep.blob)) /\ PreOf(a, H(ep.blob)) = ep.blob
                         /\ Cur(a, ep.blob) = <<TB(last'.tau)>>
                         /\ Found(ep.blob) \in LambdaSet(a, TB(last'.tau), H(ep.blob))
                         /\ (last'.tau > 0 => Nothing \in LambdaSet(AcctOf(delta, ep.s), TB(last'.tau - 1), H(ep.blob)))
  ]_vars
\* only admissible extrinsics are imported: strictly ordered, each solicited and not provided
AdmitOnly == [][last' # last =>
    /\ StrictlyOrdered(last'.eps)
    /\ \A i \in 1..Len(last'.eps) : LET ep == last'.eps[i] a == AcctOf(delta, ep.s) IN
         Cur(a, ep.blob) = <<>> /\ ~HasPre(a, H(ep.blob))
  ]_vars
=============================================================================

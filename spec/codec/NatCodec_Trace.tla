--------------------------- MODULE NatCodec_Trace ---------------------------
(* V-step for C12.  One record per case; `res` maps each implementation name to    *)
(* what it returned.  Every implementation must agree with NatCodec (strict).      *)
(*   dec: {fn:"dec", in:[..], res:{impl: {ok, val:[8], used}}}   used = -1: not reported *)
(*   enc: {fn:"enc", val:[8], res:{impl: [bytes]}}                                  *)
EXTENDS NatCodec, Json, TLC, SequencesExt
CONSTANTS TraceFile, ResultFile, KnownDeviations
VARIABLES l, devs, bad

Trace == ndJsonDeserialize(TraceFile)

DecOk(e, r) ==
  LET want == DecNat(e.in) IN
  IF want.ok THEN r.ok /\ r.val = want.val /\ (r.used = -1 \/ r.used = want.used)
  ELSE ~r.ok

\* Named deviations (DESIGN 4.2): slug is "<class>:<impl>".
\*  ff_nonminimal: prefix 0xFF followed by 8 bytes denoting a value < 2^56 is accepted.
\*  nonminimal:    a non-minimal form with l in 1..7 is accepted with the value it denotes.
DevClass(e, r) ==
  LET want == DecNat(e.in) IN
  IF ~want.ok /\ want.why = "noncanonical" /\ r.ok /\ r.val = LooseDecNat(e.in)
     /\ (r.used = -1 \/ r.used = 1 + LeadingOnes(e.in[1]))
  THEN (IF e.in[1] = 255 THEN "ff_nonminimal" ELSE "nonminimal")
  ELSE "none"

Impls(e) == DOMAIN e.res

\* set of labels [bad, slug] for record e: a known-deviation slug "<class>:<impl>" (bad = FALSE), or
\* bad = TRUE when the behaviour is explained neither by the spec nor by an enabled deviation.
Judge(e) ==
  IF e.fn = "enc" THEN
    UNION {IF e.res[i] = EncNat(e.val) THEN {} ELSE {[bad |-> TRUE, slug |-> "enc:" \o i]} : i \in Impls(e)}
  ELSE
    UNION {IF DecOk(e, e.res[i]) THEN {}
           ELSE LET c == DevClass(e, e.res[i]) IN
                IF c # "none" /\ (c \o ":" \o i) \in KnownDeviations THEN {[bad |-> FALSE, slug |-> c \o ":" \o i]}
                ELSE {[bad |-> TRUE, slug |-> (IF c # "none" THEN c ELSE IF DecNat(e.in).ok THEN "rejects_or_misdecodes_valid" ELSE "accepts_invalid") \o ":" \o i]}
           : i \in Impls(e)}

Init == l = 1 /\ devs = {} /\ bad = {}
Next == /\ l <= Len(Trace)
        /\ LET j == Judge(Trace[l]) IN
           /\ bad' = bad \cup {[l |-> l, why |-> y.slug] : y \in {y \in j : y.bad}}
           /\ devs' = devs \cup {[l |-> l, slug |-> y.slug] : y \in {y \in j : ~y.bad}}
        /\ l' = l + 1
TraceSpec == Init /\ [][Next]_<<l, devs, bad>>

Report == (l = Len(Trace) + 1) =>
  JsonSerialize(ResultFile, [n |-> l - 1, devs |-> SetToSeq(devs), bad |-> SetToSeq(bad)])
=============================================================================

------------------------------- MODULE Codec -------------------------------
(* Generic JAM codec (Gray Paper Appendix C) over TYPE DESCRIPTORS.                 *)
(*                                                                                  *)
(* A type descriptor is a record with a kind field k; a VALUE is kept in one        *)
(* canonical form per kind ("cv"), so that equality of values is TLA+ equality:     *)
(*   u(n)      n-byte little-endian tuple               E_n                         *)
(*   nat(w)    w-byte little-endian tuple (w in 1,2,4,8) general natural E (C.6);   *)
(*             a decoded natural that does not fit w bytes is REJECTED              *)
(*   bytes(n)  n-tuple of bytes                         identity                    *)
(*   blob      byte tuple                               E(|x|) ++ x                 *)
(*   blob2     byte tuple                               E(|x|) ++ E(|x|) ++ x  (the *)
(*             repository's storage-dictionary key: length written twice)           *)
(*   rest      byte tuple, extends to the end of the input (last field only)        *)
(*   bool      TRUE/FALSE                               one byte 0/1                *)
(*   unit      TRUE                                     nothing                     *)
(*   seq       tuple, optional max length               E(|x|) ++ items             *)
(*   fseq(n)   n-tuple                                  items                       *)
(*   opt       <<>> or <<x>>                            0  |  1 ++ x                *)
(*   struct    tuple positional in ENCODING order       fields concatenated         *)
(*   map       tuple of <<key, val>> strictly ascending by key                      *)
(*                                                      E(|d|) ++ (key ++ val)*     *)
(*   bits(n,nb) n-tuple of 0/1                          nb bytes, LSB first, the    *)
(*             padding bits must be zero                                            *)
(*   enum      <<i, fields>>  i-th alternative (1-based), discriminator byte i-1    *)
(*   frame     <<i, payload>> fuzz-protocol frame: E_4(1+|p|) ++ tag_i ++ p; the    *)
(*             payload must be consumed exactly                                     *)
(*                                                                                  *)
(* EncC(ty, cv) is the encoding; DecAt(ty, s, i) the STRICT decoder (accepts exactly*)
(* the image of EncC on a prefix of s[i..]).  Canon(ty, j) maps the JSON value tree *)
(* logged by the Go driver (structs = objects keyed by Go field name, maps = lists  *)
(* of {k,v} in arbitrary order, pointers = [] or [x]) to the canonical form.        *)
(* EL(ty, cv, off) is the encoding together with its LAYOUT (marks: where every     *)
(* field, length prefix, natural, discriminator starts) - the mutation operators    *)
(* of CodecMut are defined on marks.                                                *)
(*                                                                                  *)
(* Every sequence element / map entry of the schema encodes to at least one byte,   *)
(* so a declared count larger than the number of remaining bytes is rejected        *)
(* without iterating (DecAt "count exceeds input").                                 *)
EXTENDS NatCodec, TLC

\* ---------------------------------------------------------------- constructors
U(n) == [k |-> "u", n |-> n]
NatT(w) == [k |-> "nat", w |-> w]
BytesT(n) == [k |-> "bytes", n |-> n]
Blob == [k |-> "blob"]
Blob2 == [k |-> "blob2"]
Rest == [k |-> "rest"]
BoolT == [k |-> "bool"]
Unit == [k |-> "unit"]
SeqT(t) == [k |-> "seq", of |-> t, max |-> -1]
SeqMax(t, m) == [k |-> "seq", of |-> t, max |-> m]
FSeq(n, t) == [k |-> "fseq", n |-> n, of |-> t]
Opt(t) == [k |-> "opt", of |-> t]
F(n, t) == [n |-> n, t |-> t]
Struct(fs) == [k |-> "struct", f |-> fs]
MapT(kt, vt) == [k |-> "map", key |-> kt, val |-> vt]
Bits(n, nb) == [k |-> "bits", n |-> n, nb |-> nb]
\* how an alternative is found in the JSON tree of the Go value:
\*  sel = "str":  j[tagfield] = name (a Go string constant); fields f of the same object are the payload struct
\*  sel = "seq":  the alternative whose field n is a non-empty list; payload = that list
\*  sel = "ptr":  the alternative whose field n is a non-nil pointer; payload = the pointee
Alt(name, t) == [n |-> name, t |-> t]
Enum(sel, tagfield, alts) == [k |-> "enum", sel |-> sel, tag |-> tagfield, alts |-> alts]
FAlt(tag, name, t) == [tag |-> tag, n |-> name, t |-> t]
Frame(alts) == [k |-> "frame", alts |-> alts]
\* ---- constructors used by the JAMNP-S (CE) message types
\* fixed-width integer restricted to lo..hi (little-endian tuples of the same width)
URange(n, lo, hi) == [k |-> "ur", n |-> n, lo |-> lo, hi |-> hi]
\* n bits packed into nb octets, kept as the nb-octet tuple; padding bits must be zero
PBits(n, nb) == [k |-> "pbits", n |-> n, nb |-> nb]
\* length-prefixed blob with a minimum length
BlobMin(m) == [k |-> "blobm", min |-> m]
\* sequence with min..max items (max < 0: unbounded) whose count is a general natural (lw = 0) or an lw-octet integer
SeqX(t, lo, hi, lw) == [k |-> "seqx", of |-> t, min |-> lo, max |-> hi, lw |-> lw]
\* a value that is present / absent according to something decoded earlier (no discriminator of its own)
Some(t) == [k |-> "some", of |-> t]
NoneT == [k |-> "none"]
\* structure whose last field (JSON name dn) has a type that depends on the fields before it:
\*   rule "flag0": ts[1] if field ctl is the octet 0, else ts[2]
\*   rule "ce144": ts[1] if field 2 (tranche) is 0, else one ts[2] per work-report announced in field 3
DStruct(fs, dn, rule, ctl, ts) == [k |-> "dstruct", f |-> fs, dn |-> dn, rule |-> rule, ctl |-> ctl, ts |-> ts]
DepType(ty, acc) ==
  IF ty.rule = "flag0" THEN (IF acc[ty.ctl] = <<0>> THEN ty.ts[1] ELSE ty.ts[2])
  ELSE IF acc[2] = <<0>> THEN ty.ts[1] ELSE Struct(<<F("SubsequentEvidence", FSeq(Len(acc[3][1]), ty.ts[2]))>>)

\* ---------------------------------------------------------------- helpers
Pad8(v) == v \o Zeros(8 - Len(v))
EncLen(n) == EncNat(LE(n, 8))

\* 8-byte natural as a small integer, -1 when it is >= 2^24 (larger than any input here)
SmallNat(v8) == IF v8[4] = 0 /\ v8[5] = 0 /\ v8[6] = 0 /\ v8[7] = 0 /\ v8[8] = 0
                THEN v8[1] + 256 * v8[2] + 65536 * v8[3] ELSE -1

\* numeric comparison of equal-length little-endian tuples: -1, 0, 1
RECURSIVE CmpLEFrom(_, _, _)
CmpLEFrom(a, b, i) == IF i = 0 THEN 0 ELSE IF a[i] < b[i] THEN -1 ELSE IF a[i] > b[i] THEN 1 ELSE CmpLEFrom(a, b, i - 1)
CmpNumLE(a, b) == CmpLEFrom(a, b, Len(a))

\* the natural order of a dictionary key type: integers numerically, byte strings lexicographically,
\* structures field by field
RECURSIVE KeyCmp(_, _, _), KeyCmpFields(_, _, _, _)
KeyCmp(kt, a, b) ==
  CASE kt.k = "u" -> CmpNumLE(a, b)
    [] kt.k = "nat" -> CmpNumLE(a, b)
    [] kt.k = "struct" -> KeyCmpFields(kt.f, a, b, 1)
    [] OTHER -> CmpLex(a, b)
KeyCmpFields(fs, a, b, j) ==
  IF j > Len(fs) THEN 0
  ELSE LET c == KeyCmp(fs[j].t, a[j], b[j]) IN IF c # 0 THEN c ELSE KeyCmpFields(fs, a, b, j + 1)

\* insertion sort of <<key, val>> pairs by key
RECURSIVE InsertPair(_, _, _), SortPairsFrom(_, _, _)
InsertPair(kt, sorted, p) ==
  IF Len(sorted) = 0 THEN <<p>>
  ELSE IF KeyCmp(kt, p[1], sorted[Len(sorted)][1]) >= 0 THEN Append(sorted, p)
  ELSE Append(InsertPair(kt, SubSeq(sorted, 1, Len(sorted) - 1), p), sorted[Len(sorted)])
SortPairsFrom(kt, ps, i) == IF i = 0 THEN <<>> ELSE InsertPair(kt, SortPairsFrom(kt, ps, i - 1), ps[i])
SortPairs(kt, ps) == SortPairsFrom(kt, ps, Len(ps))

RECURSIVE StrictlyAscending(_, _, _)
StrictlyAscending(kt, ps, i) == i >= Len(ps) \/ (KeyCmp(kt, ps[i][1], ps[i + 1][1]) < 0 /\ StrictlyAscending(kt, ps, i + 1))

\* bits <-> bytes, least significant bit first
BitOf(byte, j) == (byte \div Pow2(j)) % 2
PackByte(bs, base) == LET b(j) == IF base + j + 1 <= Len(bs) THEN bs[base + j + 1] ELSE 0
                      IN b(0) + 2 * b(1) + 4 * b(2) + 8 * b(3) + 16 * b(4) + 32 * b(5) + 64 * b(6) + 128 * b(7)
PackBits(bs, nb) == [i \in 1..nb |-> PackByte(bs, 8 * (i - 1))]

RECURSIVE IndexOfName(_, _, _)
IndexOfName(alts, name, i) == IF i > Len(alts) THEN 0 ELSE IF alts[i].n = name THEN i ELSE IndexOfName(alts, name, i + 1)
RECURSIVE IndexOfTag(_, _, _)
IndexOfTag(alts, tag, i) == IF i > Len(alts) THEN 0 ELSE IF alts[i].tag = tag THEN i ELSE IndexOfTag(alts, tag, i + 1)

\* ---------------------------------------------------------------- JSON tree -> canonical value
RECURSIVE Canon(_, _)
CanonFields(fs, j) == [x \in 1..Len(fs) |-> Canon(fs[x].t, j[fs[x].n])]
\* alternatives of a "seq"/"ptr" enum that are present in the JSON object
Present(ty, j) == {i \in 1..Len(ty.alts) : Len(j[ty.alts[i].n]) > 0}
Canon(ty, j) ==
  CASE ty.k = "struct" -> CanonFields(ty.f, j)
    [] ty.k = "seq" -> [x \in 1..Len(j) |-> Canon(ty.of, j[x])]
    [] ty.k = "fseq" -> [x \in 1..Len(j) |-> Canon(ty.of, j[x])]
    [] ty.k = "opt" -> IF Len(j) = 0 THEN <<>> ELSE <<Canon(ty.of, j[1])>>
    [] ty.k = "map" -> SortPairs(ty.key, [x \in 1..Len(j) |-> <<Canon(ty.key, j[x].k), Canon(ty.val, j[x].v)>>])
    [] ty.k = "unit" -> TRUE
    [] ty.k = "enum" ->
         IF ty.sel = "str" THEN
           LET i == IndexOfName(ty.alts, j[ty.tag], 1) IN
           IF i = 0 THEN <<0, <<>>>> ELSE <<i, Canon(ty.alts[i].t, j)>>
         ELSE
           LET P == Present(ty, j) IN
           IF Cardinality(P) # 1 THEN <<0, <<>>>>
           ELSE LET i == CHOOSE x \in P : TRUE IN
                <<i, Canon(ty.alts[i].t, IF ty.sel = "ptr" THEN j[ty.alts[i].n][1] ELSE j[ty.alts[i].n])>>
    [] ty.k = "frame" ->
         LET i == IndexOfTag(ty.alts, j.Type[1], 1) IN
         IF i = 0 \/ Len(j[ty.alts[i].n]) = 0 THEN <<0, <<>>>> ELSE <<i, Canon(ty.alts[i].t, j[ty.alts[i].n][1])>>
    [] ty.k = "seqx" -> [x \in 1..Len(j) |-> Canon(ty.of, j[x])]
    [] ty.k = "some" -> IF Len(j) = 0 THEN <<>> ELSE <<Canon(ty.of, j[1])>>
    [] ty.k = "none" -> <<>>
    [] ty.k = "dstruct" -> LET pre == CanonFields(ty.f, j) IN Append(pre, Canon(DepType(ty, pre), j[ty.dn]))
    [] OTHER -> j

\* ---------------------------------------------------------------- well-formed canonical values
RECURSIVE Valid(_, _)
AllBytes(v) == \A x \in 1..Len(v) : v[x] \in Byte
\* bits n+1 .. 8*Len(v) of the packed octets v are zero
PadZero(v, n) == \A x \in (n + 1)..(8 * Len(v)) : BitOf(v[((x - 1) \div 8) + 1], (x - 1) % 8) = 0
Valid(ty, v) ==
  CASE ty.k = "u" -> Len(v) = ty.n /\ AllBytes(v)
    [] ty.k = "nat" -> Len(v) = ty.w /\ AllBytes(v)
    [] ty.k = "bytes" -> Len(v) = ty.n /\ AllBytes(v)
    [] ty.k = "blob" -> AllBytes(v)
    [] ty.k = "blob2" -> AllBytes(v)
    [] ty.k = "rest" -> AllBytes(v)
    [] ty.k = "bool" -> v \in BOOLEAN
    [] ty.k = "unit" -> v = TRUE
    [] ty.k = "seq" -> (ty.max < 0 \/ Len(v) <= ty.max) /\ \A x \in 1..Len(v) : Valid(ty.of, v[x])
    [] ty.k = "fseq" -> Len(v) = ty.n /\ \A x \in 1..Len(v) : Valid(ty.of, v[x])
    [] ty.k = "opt" -> Len(v) <= 1 /\ (Len(v) = 1 => Valid(ty.of, v[1]))
    [] ty.k = "struct" -> Len(v) = Len(ty.f) /\ \A x \in 1..Len(v) : Valid(ty.f[x].t, v[x])
    [] ty.k = "map" -> StrictlyAscending(ty.key, v, 1) /\ \A x \in 1..Len(v) : Valid(ty.key, v[x][1]) /\ Valid(ty.val, v[x][2])
    [] ty.k = "bits" -> Len(v) = ty.n /\ \A x \in 1..Len(v) : v[x] \in {0, 1}
    [] ty.k = "enum" -> v[1] \in 1..Len(ty.alts) /\ Valid(ty.alts[v[1]].t, v[2])
    [] ty.k = "frame" -> v[1] \in 1..Len(ty.alts) /\ Valid(ty.alts[v[1]].t, v[2])
    [] ty.k = "ur" -> Len(v) = ty.n /\ AllBytes(v) /\ CmpNumLE(ty.lo, v) <= 0 /\ CmpNumLE(v, ty.hi) <= 0
    [] ty.k = "pbits" -> Len(v) = ty.nb /\ AllBytes(v) /\ PadZero(v, ty.n)
    [] ty.k = "blobm" -> AllBytes(v) /\ Len(v) >= ty.min
    [] ty.k = "seqx" -> Len(v) >= ty.min /\ (ty.max < 0 \/ Len(v) <= ty.max) /\ \A x \in 1..Len(v) : Valid(ty.of, v[x])
    [] ty.k = "some" -> Len(v) = 1 /\ Valid(ty.of, v[1])
    [] ty.k = "none" -> Len(v) = 0
    [] ty.k = "dstruct" -> Len(v) = Len(ty.f) + 1 /\ (\A x \in 1..Len(ty.f) : Valid(ty.f[x].t, v[x]))
                           /\ Valid(DepType(ty, v), v[Len(v)])

\* ---------------------------------------------------------------- encoding
RECURSIVE EncC(_, _), EncRange(_, _, _, _), EncFieldsRange(_, _, _, _), EncPairsRange(_, _, _, _, _)
EncRange(t, vs, lo, hi) ==
  IF lo > hi THEN <<>> ELSE IF lo = hi THEN EncC(t, vs[lo])
  ELSE LET mid == (lo + hi) \div 2 IN EncRange(t, vs, lo, mid) \o EncRange(t, vs, mid + 1, hi)
EncFieldsRange(fs, v, lo, hi) ==
  IF lo > hi THEN <<>> ELSE IF lo = hi THEN EncC(fs[lo].t, v[lo])
  ELSE LET mid == (lo + hi) \div 2 IN EncFieldsRange(fs, v, lo, mid) \o EncFieldsRange(fs, v, mid + 1, hi)
EncPairsRange(kt, vt, ps, lo, hi) ==
  IF lo > hi THEN <<>> ELSE IF lo = hi THEN EncC(kt, ps[lo][1]) \o EncC(vt, ps[lo][2])
  ELSE LET mid == (lo + hi) \div 2 IN EncPairsRange(kt, vt, ps, lo, mid) \o EncPairsRange(kt, vt, ps, mid + 1, hi)
EncC(ty, v) ==
  CASE ty.k = "u" -> v
    [] ty.k = "bytes" -> v
    [] ty.k = "rest" -> v
    [] ty.k = "nat" -> EncNat(Pad8(v))
    [] ty.k = "blob" -> EncLen(Len(v)) \o v
    [] ty.k = "blob2" -> EncLen(Len(v)) \o EncLen(Len(v)) \o v
    [] ty.k = "bool" -> IF v THEN <<1>> ELSE <<0>>
    [] ty.k = "unit" -> <<>>
    [] ty.k = "seq" -> EncLen(Len(v)) \o EncRange(ty.of, v, 1, Len(v))
    [] ty.k = "fseq" -> EncRange(ty.of, v, 1, Len(v))
    [] ty.k = "opt" -> IF Len(v) = 0 THEN <<0>> ELSE <<1>> \o EncC(ty.of, v[1])
    [] ty.k = "struct" -> EncFieldsRange(ty.f, v, 1, Len(ty.f))
    [] ty.k = "map" -> EncLen(Len(v)) \o EncPairsRange(ty.key, ty.val, v, 1, Len(v))
    [] ty.k = "bits" -> PackBits(v, ty.nb)
    [] ty.k = "enum" -> <<v[1] - 1>> \o EncC(ty.alts[v[1]].t, v[2])
    [] ty.k = "frame" -> LET b == EncC(ty.alts[v[1]].t, v[2]) IN LE(Len(b) + 1, 4) \o <<ty.alts[v[1]].tag>> \o b
    [] ty.k \in {"ur", "pbits"} -> v
    [] ty.k = "blobm" -> EncLen(Len(v)) \o v
    [] ty.k = "seqx" -> (IF ty.lw = 0 THEN EncLen(Len(v)) ELSE LE(Len(v), ty.lw)) \o EncRange(ty.of, v, 1, Len(v))
    [] ty.k = "some" -> EncC(ty.of, v[1])
    [] ty.k = "none" -> <<>>
    [] ty.k = "dstruct" -> EncFieldsRange(ty.f, v, 1, Len(ty.f)) \o EncC(DepType(ty, v), v[Len(v)])

\* encoding of a JSON value tree
Enc(ty, j) == EncC(ty, Canon(ty, j))

\* ---------------------------------------------------------------- strict decoding
Fail(w) == [ok |-> FALSE, why |-> w]
Ok(v, i) == [ok |-> TRUE, v |-> v, i |-> i]
Remaining(s, i) == Len(s) - i + 1

\* a general natural at s[i..]: [ok, v8, n (small int or -1), i]
NatAt(s, i) ==
  LET d == DecNat(Sub(s, i, Min2(i + 8, Len(s)))) IN
  IF ~d.ok THEN Fail(d.why) ELSE [ok |-> TRUE, v8 |-> d.val, n |-> SmallNat(d.val), i |-> i + d.used]

RECURSIVE DecAt(_, _, _), DecN(_, _, _, _, _), DecFields(_, _, _, _, _), DecPairs(_, _, _, _, _, _)
DecN(t, s, i, n, acc) ==
  IF n = 0 THEN Ok(acc, i)
  ELSE LET r == DecAt(t, s, i) IN IF ~r.ok THEN r ELSE DecN(t, s, r.i, n - 1, Append(acc, r.v))
DecFields(fs, s, i, j, acc) ==
  IF j > Len(fs) THEN Ok(acc, i)
  ELSE LET r == DecAt(fs[j].t, s, i) IN IF ~r.ok THEN r ELSE DecFields(fs, s, r.i, j + 1, Append(acc, r.v))
DecPairs(kt, vt, s, i, n, acc) ==
  IF n = 0 THEN Ok(acc, i)
  ELSE LET rk == DecAt(kt, s, i) IN
       IF ~rk.ok THEN rk
       ELSE IF Len(acc) > 0 /\ KeyCmp(kt, acc[Len(acc)][1], rk.v) >= 0 THEN Fail("dictionary keys not strictly ascending")
       ELSE LET rv == DecAt(vt, s, rk.i) IN
            IF ~rv.ok THEN rv ELSE DecPairs(kt, vt, s, rv.i, n - 1, Append(acc, <<rk.v, rv.v>>))

BlobAt(s, i) ==
  LET l == NatAt(s, i) IN
  IF ~l.ok THEN l
  ELSE IF l.n < 0 \/ l.n > Remaining(s, l.i) THEN Fail("length exceeds input")
  ELSE Ok(Sub(s, l.i, l.i + l.n - 1), l.i + l.n)

DecAt(ty, s, i) ==
  CASE ty.k = "u" -> IF Remaining(s, i) < ty.n THEN Fail("truncated") ELSE Ok(Sub(s, i, i + ty.n - 1), i + ty.n)
    [] ty.k = "bytes" -> IF Remaining(s, i) < ty.n THEN Fail("truncated") ELSE Ok(Sub(s, i, i + ty.n - 1), i + ty.n)
    [] ty.k = "rest" -> Ok(Sub(s, i, Len(s)), Len(s) + 1)
    [] ty.k = "nat" ->
         LET l == NatAt(s, i) IN
         IF ~l.ok THEN l
         ELSE IF \E x \in (ty.w + 1)..8 : l.v8[x] # 0 THEN Fail("natural out of range")
         ELSE Ok(Sub(l.v8, 1, ty.w), l.i)
    [] ty.k = "blob" -> BlobAt(s, i)
    [] ty.k = "blob2" ->
         LET l == NatAt(s, i) IN
         IF ~l.ok THEN l
         ELSE LET b == BlobAt(s, l.i) IN
              IF ~b.ok THEN b ELSE IF Len(b.v) # l.n THEN Fail("key lengths differ") ELSE b
    [] ty.k = "bool" ->
         IF Remaining(s, i) < 1 THEN Fail("truncated")
         ELSE IF s[i] = 0 THEN Ok(FALSE, i + 1) ELSE IF s[i] = 1 THEN Ok(TRUE, i + 1) ELSE Fail("bad boolean")
    [] ty.k = "unit" -> Ok(TRUE, i)
    [] ty.k = "seq" ->
         LET l == NatAt(s, i) IN
         IF ~l.ok THEN l
         ELSE IF l.n < 0 \/ l.n > Remaining(s, l.i) THEN Fail("count exceeds input")
         ELSE IF ty.max >= 0 /\ l.n > ty.max THEN Fail("too many items")
         ELSE DecN(ty.of, s, l.i, l.n, <<>>)
    [] ty.k = "fseq" -> DecN(ty.of, s, i, ty.n, <<>>)
    [] ty.k = "opt" ->
         IF Remaining(s, i) < 1 THEN Fail("truncated")
         ELSE IF s[i] = 0 THEN Ok(<<>>, i + 1)
         ELSE IF s[i] = 1 THEN (LET r == DecAt(ty.of, s, i + 1) IN IF ~r.ok THEN r ELSE Ok(<<r.v>>, r.i))
         ELSE Fail("bad option discriminator")
    [] ty.k = "struct" -> DecFields(ty.f, s, i, 1, <<>>)
    [] ty.k = "map" ->
         LET l == NatAt(s, i) IN
         IF ~l.ok THEN l
         ELSE IF l.n < 0 \/ l.n > Remaining(s, l.i) THEN Fail("count exceeds input")
         ELSE DecPairs(ty.key, ty.val, s, l.i, l.n, <<>>)
    [] ty.k = "bits" ->
         IF Remaining(s, i) < ty.nb THEN Fail("truncated")
         ELSE LET bs == [x \in 1..ty.n |-> BitOf(s[i + ((x - 1) \div 8)], (x - 1) % 8)] IN
              IF PackBits(bs, ty.nb) # Sub(s, i, i + ty.nb - 1) THEN Fail("padding bits set") ELSE Ok(bs, i + ty.nb)
    [] ty.k = "enum" ->
         IF Remaining(s, i) < 1 THEN Fail("truncated")
         ELSE IF s[i] >= Len(ty.alts) THEN Fail("bad variant discriminator")
         ELSE LET r == DecAt(ty.alts[s[i] + 1].t, s, i + 1) IN IF ~r.ok THEN r ELSE Ok(<<s[i] + 1, r.v>>, r.i)
    [] ty.k = "frame" ->
         IF Remaining(s, i) < 5 THEN Fail("truncated frame header")
         ELSE LET l4 == Sub(s, i, i + 3)
                  big == l4[4] # 0                       \* >= 2^24
                  n == l4[1] + 256 * l4[2] + 65536 * l4[3]
                  a == IndexOfTag(ty.alts, s[i + 4], 1) IN
              IF big \/ n < 1 THEN Fail("bad frame length")
              ELSE IF n - 1 > Remaining(s, i + 5) THEN Fail("frame body shorter than declared")
              ELSE IF a = 0 THEN Fail("bad message type")
              ELSE LET body == Sub(s, i + 5, i + 3 + n)
                       r == DecAt(ty.alts[a].t, body, 1) IN
                   IF ~r.ok THEN r
                   ELSE IF r.i # Len(body) + 1 THEN Fail("trailing bytes in frame payload")
                   ELSE Ok(<<a, r.v>>, i + 4 + n)
    [] ty.k = "ur" ->
         IF Remaining(s, i) < ty.n THEN Fail("truncated")
         ELSE LET v == Sub(s, i, i + ty.n - 1) IN
              IF CmpNumLE(ty.lo, v) > 0 \/ CmpNumLE(v, ty.hi) > 0 THEN Fail("integer out of range") ELSE Ok(v, i + ty.n)
    [] ty.k = "pbits" ->
         IF Remaining(s, i) < ty.nb THEN Fail("truncated")
         ELSE LET v == Sub(s, i, i + ty.nb - 1) IN IF PadZero(v, ty.n) THEN Ok(v, i + ty.nb) ELSE Fail("padding bits set")
    [] ty.k = "blobm" ->
         LET b == BlobAt(s, i) IN IF ~b.ok THEN b ELSE IF Len(b.v) < ty.min THEN Fail("blob too short") ELSE b
    [] ty.k = "seqx" ->
         LET l == IF ty.lw = 0 THEN NatAt(s, i)
                  ELSE IF Remaining(s, i) < ty.lw THEN Fail("truncated")
                  ELSE [ok |-> TRUE, n |-> FromLE(Sub(s, i, i + ty.lw - 1)), i |-> i + ty.lw] IN
         IF ~l.ok THEN l
         ELSE IF l.n < 0 \/ l.n > Remaining(s, l.i) THEN Fail("count exceeds input")
         ELSE IF l.n < ty.min \/ (ty.max >= 0 /\ l.n > ty.max) THEN Fail("count out of range")
         ELSE DecN(ty.of, s, l.i, l.n, <<>>)
    [] ty.k = "some" -> LET r == DecAt(ty.of, s, i) IN IF ~r.ok THEN r ELSE Ok(<<r.v>>, r.i)
    [] ty.k = "none" -> Ok(<<>>, i)
    [] ty.k = "dstruct" ->
         LET p == DecFields(ty.f, s, i, 1, <<>>) IN
         IF ~p.ok THEN p
         ELSE LET r == DecAt(DepType(ty, p.v), s, p.i) IN IF ~r.ok THEN r ELSE Ok(Append(p.v, r.v), r.i)

\* top-level: [ok, v, used]
Dec(ty, s) == LET r == DecAt(ty, s, 1) IN IF r.ok THEN [ok |-> TRUE, v |-> r.v, used |-> r.i - 1] ELSE r

\* ---------------------------------------------------------------- encoding with layout
\* mark: [p |-> 0-based offset, n |-> bytes, c |-> class, x |-> auxiliary 8-byte little-endian number]
\*   "fix"  fixed-width field (u, bytes)              x = 0
\*   "bits" bitfield                                  x = number of meaningful bits (the rest is padding)
\*   "nat"  general natural value                     x = its value
\*   "len"  length / count prefix                     x = its value
\*   "disc" option / variant discriminator, boolean   x = number of valid values (0..x-1)
\*   "body" blob body                                 x = 0
\*   "ent"  dictionary entry (key ++ value)           x = 0
\*   "flen" frame length (4 bytes)                    x = 0
\*   "ftag" frame message type                        x = 0
Mark(p, n, c, x) == [p |-> p, n |-> n, c |-> c, x |-> LE(x, 8)]
MarkV(p, n, c, v8) == [p |-> p, n |-> n, c |-> c, x |-> v8]
RECURSIVE EL(_, _, _), ELSeq(_, _, _, _), ELFields(_, _, _, _), ELPairs(_, _, _, _, _)
\* all return [b |-> bytes, m |-> marks]
ELSeq(t, vs, i, off) ==
  IF i > Len(vs) THEN [b |-> <<>>, m |-> <<>>]
  ELSE LET h == EL(t, vs[i], off)
           r == ELSeq(t, vs, i + 1, off + Len(h.b)) IN [b |-> h.b \o r.b, m |-> h.m \o r.m]
ELFields(fs, v, i, off) ==
  IF i > Len(fs) THEN [b |-> <<>>, m |-> <<>>]
  ELSE LET h == EL(fs[i].t, v[i], off)
           r == ELFields(fs, v, i + 1, off + Len(h.b)) IN [b |-> h.b \o r.b, m |-> h.m \o r.m]
ELPairs(kt, vt, ps, i, off) ==
  IF i > Len(ps) THEN [b |-> <<>>, m |-> <<>>]
  ELSE LET hk == EL(kt, ps[i][1], off)
           hv == EL(vt, ps[i][2], off + Len(hk.b))
           n == Len(hk.b) + Len(hv.b)
           r == ELPairs(kt, vt, ps, i + 1, off + n) IN
       [b |-> hk.b \o hv.b \o r.b, m |-> <<Mark(off, n, "ent", 0)>> \o hk.m \o hv.m \o r.m]
EL(ty, v, off) ==
  CASE ty.k \in {"u", "bytes"} -> [b |-> v, m |-> <<Mark(off, Len(v), "fix", 0)>>]
    [] ty.k = "bits" -> LET b == EncC(ty, v) IN [b |-> b, m |-> <<Mark(off, Len(b), "bits", ty.n)>>]
    [] ty.k = "rest" -> [b |-> v, m |-> IF Len(v) > 0 THEN <<Mark(off, Len(v), "body", 0)>> ELSE <<>>]
    [] ty.k = "nat" -> LET b == EncC(ty, v) IN [b |-> b, m |-> <<MarkV(off, Len(b), "nat", Pad8(v))>>]
    [] ty.k = "blob" ->
         LET l == EncLen(Len(v)) IN
         [b |-> l \o v, m |-> <<Mark(off, Len(l), "len", Len(v))>> \o (IF Len(v) > 0 THEN <<Mark(off + Len(l), Len(v), "body", 0)>> ELSE <<>>)]
    [] ty.k = "blob2" ->
         LET l == EncLen(Len(v)) IN
         [b |-> l \o l \o v, m |-> <<Mark(off, Len(l), "len", Len(v)), Mark(off + Len(l), Len(l), "len", Len(v))>>
                                    \o (IF Len(v) > 0 THEN <<Mark(off + 2 * Len(l), Len(v), "body", 0)>> ELSE <<>>)]
    [] ty.k = "bool" -> [b |-> EncC(ty, v), m |-> <<Mark(off, 1, "disc", 2)>>]
    [] ty.k = "unit" -> [b |-> <<>>, m |-> <<>>]
    [] ty.k = "seq" ->
         LET l == EncLen(Len(v))
             r == ELSeq(ty.of, v, 1, off + Len(l)) IN
         [b |-> l \o r.b, m |-> <<Mark(off, Len(l), "len", Len(v))>> \o r.m]
    [] ty.k = "fseq" -> ELSeq(ty.of, v, 1, off)
    [] ty.k = "opt" ->
         IF Len(v) = 0 THEN [b |-> <<0>>, m |-> <<Mark(off, 1, "disc", 2)>>]
         ELSE LET r == EL(ty.of, v[1], off + 1) IN [b |-> <<1>> \o r.b, m |-> <<Mark(off, 1, "disc", 2)>> \o r.m]
    [] ty.k = "struct" -> ELFields(ty.f, v, 1, off)
    [] ty.k = "map" ->
         LET l == EncLen(Len(v))
             r == ELPairs(ty.key, ty.val, v, 1, off + Len(l)) IN
         [b |-> l \o r.b, m |-> <<Mark(off, Len(l), "len", Len(v))>> \o r.m]
    [] ty.k = "enum" ->
         LET r == EL(ty.alts[v[1]].t, v[2], off + 1) IN
         [b |-> <<v[1] - 1>> \o r.b, m |-> <<Mark(off, 1, "disc", Len(ty.alts))>> \o r.m]
    [] ty.k = "frame" ->
         LET r == EL(ty.alts[v[1]].t, v[2], off + 5) IN
         [b |-> LE(Len(r.b) + 1, 4) \o <<ty.alts[v[1]].tag>> \o r.b,
          m |-> <<Mark(off, 4, "flen", 0), Mark(off + 4, 1, "ftag", 0)>> \o r.m]
    [] ty.k = "ur" -> [b |-> v, m |-> <<Mark(off, Len(v), "fix", 0)>>]
    [] ty.k = "pbits" -> [b |-> v, m |-> <<Mark(off, Len(v), "bits", ty.n)>>]
    [] ty.k = "blobm" ->
         LET l == EncLen(Len(v)) IN
         [b |-> l \o v, m |-> <<Mark(off, Len(l), "len", Len(v))>> \o (IF Len(v) > 0 THEN <<Mark(off + Len(l), Len(v), "body", 0)>> ELSE <<>>)]
    [] ty.k = "seqx" ->
         LET l == IF ty.lw = 0 THEN EncLen(Len(v)) ELSE LE(Len(v), ty.lw)
             r == ELSeq(ty.of, v, 1, off + Len(l)) IN
         [b |-> l \o r.b, m |-> <<Mark(off, Len(l), IF ty.lw = 0 THEN "len" ELSE "flen", Len(v))>> \o r.m]
    [] ty.k = "some" -> EL(ty.of, v[1], off)
    [] ty.k = "none" -> [b |-> <<>>, m |-> <<>>]
    [] ty.k = "dstruct" ->
         LET h == ELFields(ty.f, v, 1, off)
             r == EL(DepType(ty, v), v[Len(v)], off + Len(h.b)) IN [b |-> h.b \o r.b, m |-> h.m \o r.m]

\* ---------------------------------------------------------------- design properties (MC_Codec)
RoundTripC(ty, v) == LET b == EncC(ty, v) IN Dec(ty, b) = [ok |-> TRUE, v |-> v, used |-> Len(b)]
LayoutAgrees(ty, v) == EL(ty, v, 0).b = EncC(ty, v)
PrefixFreeC(ty, v, w) == v # w => ~IsPrefixOf(EncC(ty, v), EncC(ty, w))
\* strictness: whatever Dec accepts is the encoding of what it returns
StrictOn(ty, s) == LET d == Dec(ty, s) IN d.ok => (Valid(ty, d.v) /\ EncC(ty, d.v) = Sub(s, 1, d.used))
=============================================================================

---------------------------- MODULE NatCodec_Gen ----------------------------
(* G-step for C12: TLC enumerates the decode/encode input partition of the natural *)
(* codec and writes it as ndjson.  Tier selects the volume.                        *)
EXTENDS NatCodec, Json, TLC, SequencesExt
CONSTANTS OutFile, Tier
VARIABLE x

R5 == {0, 1, 127, 128, 255}

\* 2^k, 2^k - 1, 2^k + 1 as 8-byte little-endian values, k in 0..63
P2(k)   == [i \in 1..8 |-> IF i = (k \div 8) + 1 THEN Pow2(k % 8) ELSE 0]
P2m1(k) == [i \in 1..8 |-> IF i < (k \div 8) + 1 THEN 255 ELSE IF i = (k \div 8) + 1 THEN Pow2(k % 8) - 1 ELSE 0]
P2p1(k) == IF k = 0 THEN [i \in 1..8 |-> IF i = 1 THEN 2 ELSE 0]
           ELSE [i \in 1..8 |-> IF i = 1 /\ k < 8 THEN Pow2(k) + 1 ELSE IF i = 1 THEN 1 ELSE IF i = (k \div 8) + 1 THEN Pow2(k % 8) ELSE 0]
Boundary == UNION {{P2(k), P2m1(k), P2p1(k)} : k \in 0..63} \cup {[i \in 1..8 |-> 255], [i \in 1..8 |-> 0]}

S1 == {<<a>> : a \in Byte}
S2 == {<<a, b>> : a \in Byte, b \in Byte}
S3 == {<<a, b, c>> : a \in Byte, b \in R5, c \in R5}
\* thorough: every 3-byte string whose first byte is one of 12 boundary prefixes of the multi-byte forms
\* (786 432 strings; the full 64 x 65536 product exceeds what TLC builds as one set)
S3full == {<<a, b, c>> : a \in {192, 193, 207, 223, 224, 239, 240, 247, 248, 252, 254, 255}, b \in Byte, c \in Byte}

\* long forms: first byte with l leading ones (smallest and largest such byte), suffix of l bytes
FirstBytes(l) == IF l = 8 THEN {255} ELSE {256 - Pow2(8 - l), 256 - Pow2(8 - l) + Pow2(7 - l) - 1}
Tops == {0, 1, 2, 4, 8, 16, 32, 64, 127, 128, 255}
Suffix(l) == {[i \in 1..l |-> IF i = l THEN t ELSE IF i = l - 1 THEN u ELSE lo] : t \in Tops, u \in {0, 128, 255}, lo \in {0, 255}}
SLong == UNION {{<<f>> \o s : f \in FirstBytes(l), s \in Suffix(l)} : l \in 3..8}

\* every prefix (proper and full, plus one trailing byte) of the encoding of each boundary value
PrefixesOf(s) == {Sub(s, 1, n) : n \in 1..Len(s)} \cup {s \o <<0>>, s \o <<255>>}
SEnc == UNION {PrefixesOf(EncNat(v)) : v \in Boundary}

DecStrings == S1 \cup S2 \cup S3 \cup SLong \cup SEnc \cup (IF Tier = "thorough" THEN S3full ELSE {})

Small == {[i \in 1..8 |-> IF i = 1 THEN a ELSE IF i = 2 THEN b ELSE 0] : a \in Byte, b \in {0, 1, 63, 64, 127, 128, 255}}
EncVals == Boundary \cup Small

Cases == {[fn |-> "dec", in |-> s] : s \in DecStrings} \cup {[fn |-> "enc", val |-> v] : v \in EncVals}

ASSUME ndJsonSerialize(OutFile, SetToSeq(Cases))
ASSUME PrintT(<<"GEN", Cardinality(Cases)>>)

GenInit == x = 0
GenNext == FALSE /\ x' = x
=============================================================================

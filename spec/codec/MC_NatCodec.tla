----------------------------- MODULE MC_NatCodec -----------------------------
(* Design check for C12: on a bounded value set the specified codec is a minimal,  *)
(* prefix-free bijection and the strict decoder rejects every other short string.  *)
EXTENDS NatCodec, TLC
CONSTANT Tier
VARIABLES v, s

P2(k)   == [i \in 1..8 |-> IF i = (k \div 8) + 1 THEN Pow2(k % 8) ELSE 0]
P2m1(k) == [i \in 1..8 |-> IF i < (k \div 8) + 1 THEN 255 ELSE IF i = (k \div 8) + 1 THEN Pow2(k % 8) - 1 ELSE 0]
Boundary == UNION {{P2(k), P2m1(k)} : k \in 0..63} \cup {[i \in 1..8 |-> 255]}
Small == {[i \in 1..8 |-> IF i = 1 THEN a ELSE IF i = 2 THEN b ELSE 0] : a \in Byte, b \in (IF Tier = "thorough" THEN Byte ELSE {0, 1, 63, 64, 127, 128, 255})}
Vals == Boundary \cup Small
Strs == {<<a>> : a \in Byte} \cup {<<a, b>> : a \in Byte, b \in Byte}

\* two independent "dimensions": a value (round trip, minimality) and a short string (strictness)
Init == v \in Vals /\ s \in {<<0>>}
Next == /\ s = <<0>> /\ v = CHOOSE x \in Vals : TRUE
        /\ s' \in Strs /\ v' = v
Spec == Init /\ [][Next]_<<v, s>>

InvRoundTrip == RoundTrip(v)
InvMinimal == Minimal(v)
\* a short string is accepted iff it is the encoding of what it decodes to
InvStrict == LET d == DecNat(s) IN d.ok => (EncNat(d.val) = Sub(s, 1, d.used) /\ DecNat(Sub(s, 1, d.used)) = d)
=============================================================================

------------------------------ MODULE MC_Codec ------------------------------
(* Design check for the codec family: on the bounded value generators of CodecMut   *)
(* the specified codec round-trips every schema type, its layout agrees with its    *)
(* encoding, encodings of distinct values are never prefixes of one another, and    *)
(* the strict decoder accepts a mutant only if it is exactly the encoding of what   *)
(* it returns (so truncations, out-of-range discriminators, non-minimal naturals,   *)
(* unsorted / duplicated dictionary keys and set padding bits are all rejected).    *)
(*                                                                                  *)
(* States: ("val", type, v)  ->  ("pair", type, v, w)   for w in Vals(type)         *)
(*                           ->  ("mut",  type, v, m)   for m in Mutants(type,v,K)  *)
(* Names = types whose mutants are explored; PairNames = types whose pairs are;     *)
(* FullNames = types explored on all of Vals (the others: minimal + richest value).  *)
(* Universe = "protocol" (the types of Schema) or "ce" (the JAMNP-S messages).      *)
EXTENDS CodecMut
CONSTANTS Names, PairNames, FullNames, K, Universe
VARIABLES st, tn, v, w, m

NoMut == [cls |-> "none", in |-> <<>>]
Ty == AnySchema[tn]

RECURSIVE HasRest(_)
HasRest(ty) ==
  CASE ty.k = "rest" -> TRUE
    [] ty.k = "struct" -> \E j \in 1..Len(ty.f) : HasRest(ty.f[j].t)
    [] ty.k \in {"seq", "fseq", "opt", "seqx", "some"} -> HasRest(ty.of)
    [] ty.k = "dstruct" -> \E j \in 1..Len(ty.f) : HasRest(ty.f[j].t)
    [] OTHER -> FALSE

\* every schema type is round-tripped: on all of Vals for the types of FullNames, on the minimal and the richest value otherwise
Init == /\ st = "val" /\ tn \in (IF Universe = "ce" THEN CETypeNames ELSE TypeNames)
        /\ v \in (IF tn \in FullNames THEN Vals(AnySchema[tn]) ELSE {MinV(AnySchema[tn]), MaxV(AnySchema[tn])})
        /\ w = <<>> /\ m = NoMut
Next == /\ st = "val"
        /\ \/ /\ tn \in PairNames /\ st' = "pair" /\ w' \in Vals(Ty) /\ m' = m
           \/ /\ tn \in Names /\ st' = "mut" /\ m' \in Mutants(Ty, v, K) /\ w' = w
        /\ UNCHANGED <<tn, v>>
Spec == Init /\ [][Next]_<<st, tn, v, w, m>>

InvRoundTrip == st = "val" => (Valid(Ty, v) /\ RoundTripC(Ty, v) /\ LayoutAgrees(Ty, v))
InvPrefixFree == (st = "pair" /\ ~HasRest(Ty)) => PrefixFreeC(Ty, v, w)
InvStrict == st = "mut" => StrictOn(Ty, m.in)
\* classes that can never be valid
InvRejected == (st = "mut" /\ ~HasRest(Ty) /\ m.cls \in {"trunc_at", "trunc_in", "disc", "nonmin", "map_swap", "map_dup", "map_dup2", "frame_tag"})
               => ~Dec(Ty, m.in).ok
InvPadBits == (st = "mut" /\ m.cls = "pad_bits") => ~Dec(Ty, m.in).ok
\* the unmutated encoding and the encoding followed by a stray byte decode to v on exactly the encoded bytes
InvValid == (st = "mut" /\ m.cls \in {"valid", "trail"} /\ ~HasRest(Ty))
            => LET d == Dec(Ty, m.in) IN d.ok /\ d.v = v /\ d.used = Len(EncC(Ty, v))
=============================================================================

------------------------------ MODULE CodecMut ------------------------------
(* Bounded value generators and MUTATION OPERATORS for the codec family.            *)
(*                                                                                  *)
(* Vals(ty): Min (everything empty / zero / absent), Max (everything present, two   *)
(* items per list, patterned bytes) and the one-step variations between them        *)
(* (each struct field flipped, each list length 0/1/2, every variant alternative,   *)
(* dictionaries with 0/1/2 keys).                                                   *)
(*                                                                                  *)
(* Mutants(ty, v, K): byte strings derived from the encoding of v through its       *)
(* layout (Codec!EL), each tagged with its class:                                   *)
(*   valid       the encoding itself                                                *)
(*   trail       one more byte appended (00 / FF)                                   *)
(*   trunc_at    cut at the start of a field      trunc_in  cut inside a field      *)
(*               (after the first / before the last octet; every interior octet of  *)
(*               a natural or length prefix)                                        *)
(*   disc        an option / variant / boolean discriminator replaced by a value    *)
(*               outside its range: first invalid value, 2, 0x7f, 0xff              *)
(*   len_pm      a length or count prefix +1 / -1                                   *)
(*   len_set     a length or count prefix set to 0, 1, 2^7 whatever its true value  *)
(*   nonmin      a natural (value or prefix) re-encoded in a longer form (2-, 3-,    *)
(*               9-byte)                                                            *)
(*   flip        lowest / highest bit of the first byte of a field flipped          *)
(*   map_swap    the first two dictionary entries exchanged                         *)
(*   map_dup     the first dictionary entry written twice (count + 1)               *)
(*   map_dup2    the first entry repeated after the second (e1 e2 e1 ..., count+1)  *)
(*   att_len     a length / count prefix replaced by 0, remaining+1, 2^32-1, 2^63,  *)
(*               2^64-1            att_len2  the same on two prefixes at once       *)
(*   frame_len   fuzz frame length 0, 1, exact-1, exact+1, 2^32-1                   *)
(*   frame_tag   fuzz frame with an undefined message type                          *)
(*   pad_bits    each padding bit of a bitfield set, one at a time                  *)
(*   nat_cut     the input ends inside a natural / length prefix of each of the 8   *)
(*               prefix classes (0x80.. 0xFF first octet) with 0..l of its l value   *)
(*               octets present; in a fuzz frame the frame length is made consistent *)
(* K bounds how many marks of each class are used (evenly spaced over the layout).  *)
EXTENDS Schema, FiniteSetsExt

\* ---------------------------------------------------------------- values
Pat(n, a) == [i \in 1..n |-> ((a + 7 * i) % 251) + 1]          \* never zero, never 255
RECURSIVE MinV(_), MaxV(_)
MinV(ty) ==
  CASE ty.k \in {"u", "bytes"} -> Zeros(ty.n)
    [] ty.k = "nat" -> Zeros(ty.w)
    [] ty.k \in {"blob", "blob2", "rest", "seq", "opt", "map"} -> <<>>
    [] ty.k = "bool" -> FALSE
    [] ty.k = "unit" -> TRUE
    [] ty.k = "fseq" -> [i \in 1..ty.n |-> MinV(ty.of)]
    [] ty.k = "struct" -> [i \in 1..Len(ty.f) |-> MinV(ty.f[i].t)]
    [] ty.k = "bits" -> Zeros(ty.n)
    [] ty.k \in {"enum", "frame"} -> <<1, MinV(ty.alts[1].t)>>
    [] ty.k = "ur" -> ty.lo
    [] ty.k = "pbits" -> Zeros(ty.nb)
    [] ty.k = "blobm" -> Pat(ty.min, 3)
    [] ty.k = "seqx" -> [i \in 1..ty.min |-> MinV(ty.of)]
    [] ty.k = "some" -> <<MinV(ty.of)>>
    [] ty.k = "none" -> <<>>
    [] ty.k = "dstruct" -> LET pre == [i \in 1..Len(ty.f) |-> MinV(ty.f[i].t)] IN Append(pre, MinV(DepType(ty, pre)))
\* a second key, larger than MaxV's, for two-entry dictionaries
RECURSIVE Max2V(_)
MaxV(ty) ==
  CASE ty.k \in {"u", "bytes"} -> Pat(ty.n, ty.n)
    [] ty.k = "nat" -> IF ty.w = 8 THEN <<0, 1, 2, 3, 4, 5, 6, 129>> ELSE Rep(255, ty.w)
    [] ty.k \in {"blob", "blob2", "rest"} -> <<1, 2, 3>>
    [] ty.k = "bool" -> TRUE
    [] ty.k = "unit" -> TRUE
    [] ty.k = "seq" -> IF ty.max = 1 THEN <<MaxV(ty.of)>> ELSE <<MinV(ty.of), MaxV(ty.of)>>
    [] ty.k = "fseq" -> [i \in 1..ty.n |-> IF i % 2 = 1 THEN MaxV(ty.of) ELSE MinV(ty.of)]
    [] ty.k = "opt" -> <<MaxV(ty.of)>>
    [] ty.k = "struct" -> [i \in 1..Len(ty.f) |-> MaxV(ty.f[i].t)]
    [] ty.k = "map" -> SortPairs(ty.key, <<<<MaxV(ty.key), MaxV(ty.val)>>, <<Max2V(ty.key), MinV(ty.val)>>>>)
    [] ty.k = "bits" -> [i \in 1..ty.n |-> i % 2]
    [] ty.k \in {"enum", "frame"} -> <<Len(ty.alts), MaxV(ty.alts[Len(ty.alts)].t)>>
    [] ty.k = "ur" -> ty.hi
    [] ty.k = "pbits" -> PackBits([x \in 1..ty.n |-> x % 2], ty.nb)
    [] ty.k = "blobm" -> Pat(Max2(ty.min, 3), 5)
    [] ty.k = "seqx" -> LET n == IF ty.max >= 0 /\ ty.max < 2 THEN ty.max ELSE Max2(ty.min, 2) IN
                        [i \in 1..n |-> IF i % 2 = 1 THEN MaxV(ty.of) ELSE MinV(ty.of)]
    [] ty.k = "some" -> <<MaxV(ty.of)>>
    [] ty.k = "none" -> <<>>
    [] ty.k = "dstruct" -> LET pre == [i \in 1..Len(ty.f) |-> MaxV(ty.f[i].t)] IN Append(pre, MaxV(DepType(ty, pre)))
Max2V(ty) ==
  CASE ty.k \in {"u", "bytes"} -> Pat(ty.n, ty.n + 100)
    [] ty.k = "struct" -> [i \in 1..Len(ty.f) |-> Max2V(ty.f[i].t)]
    [] OTHER -> <<9, 8, 7, 6>>

ReplaceAt1(s, i, x) == [j \in 1..Len(s) |-> IF j = i THEN x ELSE s[j]]

\* A multi-octet natural whose PREFIX octet carries value bits (2^32+7 -> f1 07 00 00 00, 2^24+5 -> e1 05 00 00):
\* cut short and zero-filled it is still a minimal form, so only a decoder that notices the missing octets rejects it.
IsWideNat(ty) == ty.k = "nat" /\ ty.w >= 4
AltNat(ty) == IF ty.w = 8 THEN <<7, 0, 0, 0, 1, 0, 0, 0>> ELSE <<5, 0, 0, 1>>
\* two keys of a structured key type that agree on every field but the last (same hash, two lengths)
SharedPrefixKeys(kt) == LET a == MaxV(kt) IN <<a, ReplaceAt1(a, Len(kt.f), Max2V(kt.f[Len(kt.f)].t))>>

Vals(ty) ==
  {MinV(ty), MaxV(ty)} \cup
  (CASE ty.k = "struct" -> {ReplaceAt1(MinV(ty), j, MaxV(ty.f[j].t)) : j \in 1..Len(ty.f)}
                           \cup {ReplaceAt1(MaxV(ty), j, MinV(ty.f[j].t)) : j \in 1..Len(ty.f)}
                           \cup {ReplaceAt1(MaxV(ty), j, AltNat(ty.f[j].t)) : j \in {j \in 1..Len(ty.f) : IsWideNat(ty.f[j].t)}}
     [] ty.k = "seq" -> {<<MaxV(ty.of)>>, <<MinV(ty.of)>>}
                        \cup (IF ty.max >= 0 THEN {[i \in 1..ty.max |-> MinV(ty.of)]} ELSE {})   \* exactly the permitted maximum
     [] ty.k = "opt" -> {<<MinV(ty.of)>>}
     [] ty.k = "map" -> {<<<<MaxV(ty.key), MaxV(ty.val)>>>>, <<<<MinV(ty.key), MinV(ty.val)>>>>}
                        \cup (IF ty.key.k = "struct" /\ Len(ty.key.f) >= 2
                              THEN LET ks == SharedPrefixKeys(ty.key) IN
                                   {SortPairs(ty.key, <<<<ks[1], MaxV(ty.val)>>, <<ks[2], MinV(ty.val)>>>>),
                                    SortPairs(ty.key, <<<<ks[1], MinV(ty.val)>>, <<ks[2], MaxV(ty.val)>>, <<Max2V(ty.key), MinV(ty.val)>>>>)}
                              ELSE {})
     [] ty.k \in {"enum", "frame"} -> UNION {{<<i, MinV(ty.alts[i].t)>>, <<i, MaxV(ty.alts[i].t)>>} : i \in 1..Len(ty.alts)}
     [] ty.k = "nat" -> IF ty.w = 8 THEN {<<127, 0, 0, 0, 0, 0, 0, 0>>, <<128, 0, 0, 0, 0, 0, 0, 0>>, <<255, 63, 0, 0, 0, 0, 0, 0>>,
                                           <<0, 64, 0, 0, 0, 0, 0, 0>>, <<255, 255, 255, 255, 255, 255, 255, 0>>, <<0, 0, 0, 0, 0, 0, 0, 1>>, Rep(255, 8),
                                           <<5, 0, 1, 0, 0, 0, 0, 0>>, <<5, 0, 0, 1, 0, 0, 0, 0>>, <<7, 0, 0, 0, 1, 0, 0, 0>>, <<9, 0, 0, 0, 0, 0, 2, 0>>}
                        ELSE {<<127>> \o Zeros(ty.w - 1), <<128>> \o Zeros(ty.w - 1)}
                             \cup (IF ty.w >= 4 THEN {<<5, 0, 1, 0>>, <<5, 0, 0, 1>>} ELSE {})
     [] ty.k = "blob" -> {Pat(127, 1), Pat(128, 2)}
     [] ty.k = "bool" -> {}
     [] ty.k = "seqx" -> {[i \in 1..Max2(ty.min, 1) |-> MaxV(ty.of)]}
                         \cup (IF ty.max >= 0 THEN {[i \in 1..ty.max |-> MinV(ty.of)]} ELSE {})
     [] ty.k = "dstruct" ->
          \* every one-step variation of the leading fields, each completed with the minimal and the richest
          \* value of the type the dependent field then has
          LET P == {MinV(Struct(ty.f)), MaxV(Struct(ty.f))}
                   \cup {ReplaceAt1(MinV(Struct(ty.f)), j, MaxV(ty.f[j].t)) : j \in 1..Len(ty.f)}
                   \cup {ReplaceAt1(MaxV(Struct(ty.f)), j, MinV(ty.f[j].t)) : j \in 1..Len(ty.f)} IN
          UNION {{Append(p, MinV(DepType(ty, p))), Append(p, MaxV(DepType(ty, p)))} : p \in P}
     [] OTHER -> {})

\* ---------------------------------------------------------------- byte-string surgery
Splice(b, p, n, r) == Sub(b, 1, p) \o r \o Sub(b, p + n + 1, Len(b))   \* replace b[p+1 .. p+n] by r
SetByte(b, p, x) == [i \in 1..Len(b) |-> IF i = p + 1 THEN x ELSE b[i]]
FlipBit(x, bit) == IF (x \div bit) % 2 = 1 THEN x - bit ELSE x + bit

\* longer-than-minimal forms of the natural v8 with l following bytes (l in 1, 2, 8)
NonMinForms(v8) ==
  LET c == LenClass(v8) IN
  (IF c < 1 /\ v8[2] < 64 /\ \A i \in 3..8 : v8[i] = 0 THEN {<<128 + v8[2], v8[1]>>} ELSE {})
  \cup (IF c < 2 /\ v8[3] < 32 /\ \A i \in 4..8 : v8[i] = 0 THEN {<<192 + v8[3], v8[1], v8[2]>>} ELSE {})
  \cup (IF c < 8 THEN {<<255>> \o v8} ELSE {})

\* first octet of a natural announcing l following octets (all value bits set)
PrefixOctet(l) == IF l = 8 THEN 255 ELSE 256 - Pow2(8 - l) + (Pow2(7 - l) - 1)
\* a fuzz frame whose length field is recomputed from the bytes that follow it
FixFrame(ty, b) == IF ty.k = "frame" /\ Len(b) >= 5 THEN LE(Len(b) - 4, 4) \o Sub(b, 5, Len(b)) ELSE b
U32MAX == <<255, 255, 255, 255, 0, 0, 0, 0>>
P63 == <<0, 0, 0, 0, 0, 0, 0, 128>>
U64MAX == Rep(255, 8)

\* evenly spaced selection of at most K elements of a sequence
Pick(s, K) == IF Len(s) <= K THEN s ELSE [i \in 1..K |-> s[1 + ((i - 1) * (Len(s) - 1)) \div (K - 1)]]
OfClass(ms, cs) == SelectSeq(ms, LAMBDA m : m.c \in cs)
Case(cls, b) == [cls |-> cls, in |-> b]
SeqSet(s) == {s[i] : i \in 1..Len(s)}

AttackLens(b, m) == {LE(0, 8), LE(Len(b) - (m.p + m.n) + 1, 8), U32MAX, P63, U64MAX} \ {m.x}

Mutants(ty, v, K) ==
  LET el == EL(ty, v, 0)
      b == el.b
      ms == el.m
      every == Pick(ms, K)
      discs == Pick(OfClass(ms, {"disc"}), K)
      lens == Pick(OfClass(ms, {"len"}), K)
      nats == Pick(OfClass(ms, {"len", "nat"}), K)
      cnt16 == IF ty.k = "frame" THEN <<>> ELSE Pick(SelectSeq(ms, LAMBDA m : m.c = "flen" /\ m.n = 2), K)   \* 16-bit item counts
  IN
  {Case("valid", b), Case("trail", b \o <<0>>), Case("trail", b \o <<255>>)}
  \cup {Case("trunc_at", Sub(b, 1, m.p)) : m \in SeqSet(every)}
  \cup {Case("trunc_in", Sub(b, 1, m.p + m.n - 1)) : m \in {m \in SeqSet(every) : m.n >= 1}}
  \cup {Case("trunc_in", Sub(b, 1, m.p + 1)) : m \in {m \in SeqSet(every) : m.n > 2}}
  \cup UNION {{Case("trunc_in", Sub(b, 1, m.p + j)) : j \in 1..(m.n - 1)} : m \in {m \in SeqSet(every) \cup SeqSet(nats) : m.c \in {"nat", "len"}}}
  \cup {Case("trunc_at", Sub(b, 1, Len(b) - 1)) : x \in {1}}
  \cup UNION {{Case("disc", SetByte(b, m.p, d)) : d \in {SmallNat(m.x), 2, 127, 255} \ (0..(SmallNat(m.x) - 1))} : m \in SeqSet(discs)}
  \cup UNION {{Case("len_pm", Splice(b, m.p, m.n, EncLen(n))) : n \in {SmallNat(m.x) + 1, SmallNat(m.x) - 1} \ {-1}} : m \in SeqSet(lens)}
  \cup UNION {{Case("len_set", Splice(b, m.p, m.n, EncLen(n))) : n \in {0, 1, 128} \ {SmallNat(m.x)}} : m \in SeqSet(Pick(OfClass(ms, {"len"}), 4 * K))}
  \cup UNION {{Case("len_set", Splice(b, m.p, 2, LE(n, 2))) : n \in {0, 1, 128} \ {SmallNat(m.x)}} : m \in SeqSet(cnt16)}
  \cup UNION {{Case("nonmin", Splice(b, m.p, m.n, f)) : f \in NonMinForms(m.x)} : m \in SeqSet(nats)}
  \* the input ENDS inside a natural / length prefix of every prefix class: first octet announcing l more octets, j <= l of
  \* them present (all j for the 9-octet form; none, all but one, all for the others).  In a fuzz frame the frame length is
  \* made consistent with the shortened payload, so that the cut reaches the payload decoder.
  \cup UNION {UNION {{Case("nat_cut", FixFrame(ty, Sub(b, 1, m.p) \o <<PrefixOctet(l)>> \o Rep(255, j)))
                      : j \in (IF l = 8 THEN 0..8 ELSE {0, l - 1, l})} : l \in 1..8}
              : m \in SeqSet(Pick(nats, Min2(K, 2)))}
  \cup UNION {{Case("flip", SetByte(b, m.p, FlipBit(b[m.p + 1], bit))) : bit \in {1, 128}} : m \in {m \in SeqSet(every) : m.n >= 1}}
  \cup UNION {{Case("att_len", Splice(b, m.p, m.n, EncNat(a))) : a \in AttackLens(b, m)} : m \in SeqSet(lens)}
  \cup UNION {UNION {{Case("att_len2", Splice(Splice(b, m2.p, m2.n, EncNat(a2)), m1.p, m1.n, EncNat(a1)))
                      : a1 \in {LE(Len(b) - (m1.p + m1.n) + 1, 8), U32MAX}, a2 \in {U32MAX, U64MAX}}
                     : m2 \in {m2 \in SeqSet(lens) : m2.p > m1.p}} : m1 \in SeqSet(Pick(lens, 4))}
  \cup UNION {{Case("len_pm", Splice(b, m.p, 2, LE(n, 2))) : n \in {SmallNat(m.x) + 1, SmallNat(m.x) - 1} \ {-1}} : m \in SeqSet(cnt16)}
  \cup UNION {{Case("att_len", Splice(b, m.p, 2, a)) : a \in {<<0, 0>>, <<255, 255>>, <<0, 128>>, LE(Min2(65535, Len(b) - (m.p + 2) + 1), 2)}} : m \in SeqSet(cnt16)}
  \cup (IF ty.k = "frame" THEN
          {Case("frame_len", Splice(b, 0, 4, l4)) : l4 \in {LE(0, 4), LE(1, 4), LE(Len(b) - 5, 4), LE(Len(b) - 3, 4), <<255, 255, 255, 255>>}}
          \cup {Case("frame_tag", SetByte(b, 4, t)) : t \in {6, 127, 254}}
          \cup {Case("trunc_in", Sub(b, 1, n)) : n \in {0, 1, 3, 4, 5}}
        ELSE {})
  \* dictionaries: a count prefix directly followed by an entry
  \cup UNION {LET l == ms[i]
                  e1 == ms[i + 1]
                  e2 == SelectSeq(ms, LAMBDA m : m.c = "ent" /\ m.p = e1.p + e1.n)
                  cnt == SmallNat(l.x)
              IN {Case("map_dup", Sub(b, 1, l.p) \o EncLen(cnt + 1) \o Sub(b, e1.p + 1, e1.p + e1.n) \o Sub(b, e1.p + 1, Len(b)))}
                 \cup (IF Len(e2) >= 1 /\ cnt >= 2
                       THEN {Case("map_dup2", Sub(b, 1, l.p) \o EncLen(cnt + 1) \o Sub(b, e1.p + 1, e2[1].p + e2[1].n)
                                              \o Sub(b, e1.p + 1, e1.p + e1.n) \o Sub(b, e2[1].p + e2[1].n + 1, Len(b)))}
                       ELSE {})
                 \cup (IF Len(e2) >= 1 /\ cnt >= 2
                       THEN {Case("map_swap", Sub(b, 1, e1.p) \o Sub(b, e2[1].p + 1, e2[1].p + e2[1].n)
                                              \o Sub(b, e1.p + 1, e1.p + e1.n) \o Sub(b, e2[1].p + e2[1].n + 1, Len(b)))}
                       ELSE {})
              : i \in {i \in 1..(Len(ms) - 1) : ms[i].c = "len" /\ ms[i + 1].c = "ent" /\ ms[i + 1].p = ms[i].p + ms[i].n}}
  \* bitfields: every padding bit (bit positions n .. 8*octets-1, least significant first) set, one at a time
  \cup UNION {{Case("pad_bits", SetByte(b, m.p + (q \div 8), FlipBit(b[m.p + (q \div 8) + 1], Pow2(q % 8))))
               : q \in SmallNat(m.x)..(8 * m.n - 1)} : m \in SeqSet(OfClass(ms, {"bits"}))}
=============================================================================

------------------------------- MODULE Schema -------------------------------
(* The protocol types of internal/types and the fuzz-protocol messages, expressed   *)
(* with the constructors of Codec.tla.  Field names are the Go struct field names   *)
(* (the driver logs a struct as a JSON object keyed by field name); the ORDER of    *)
(* the fields is the encoding order of Gray Paper Appendix C as implemented by the  *)
(* node's encoder.                                                                  *)
(*                                                                                  *)
(* Chain-spec dependent sizes are CONSTANTS; the check passes the values the code   *)
(* under test reports (tiny by default: V=6, C=2, E=12, super-majority 5, one       *)
(* bitfield byte; internal/types/const.go, SetTinyMode / SetFullMode).              *)
(*   V  validators          C  cores            E  epoch length                     *)
(*   SM judgements per verdict (floor(2V/3)+1)  ABB bytes of an assurance bitfield  *)
(*   Q  authorizer queue size (80)              O  authorizer pool maximum (8)      *)
(*   H  recent-history maximum (8)              L  maximum ancestry length          *)
(*                                                                                  *)
(* Remarks                                                                          *)
(*  - natural-coded fields that live in a narrower Go integer (RefineLoad, core and *)
(*    service statistics, WorkReport.CoreIndex) are nat(w): a wider decoded value   *)
(*    has no re-encoding and is rejected.                                           *)
(*  - State.Theta is not part of State.Encode (the state is serialised through the  *)
(*    key-value mapping, property C17); it is not in the schema.                    *)
(*  - ImportSpec is the plain form (tree root, E_2 index): the driver installs an   *)
(*    empty HashSegmentMap.                                                         *)
(*  - Storage keys carry their length twice (blob2), as the repository writes them. *)
EXTENDS Codec
CONSTANTS V, C, E, SM, ABB, Q, O, H, L

H32 == BytesT(32)
U1 == U(1)
U2 == U(2)
U4 == U(4)
U8T == U(8)

EpochMarkValidatorKeysT == Struct(<<F("Bandersnatch", H32), F("Ed25519", H32)>>)
EpochMarkT == Struct(<<F("Entropy", H32), F("TicketsEntropy", H32), F("Validators", FSeq(V, EpochMarkValidatorKeysT))>>)
TicketBodyT == Struct(<<F("ID", H32), F("Attempt", NatT(8))>>)
TicketsMarkT == FSeq(E, TicketBodyT)
OffendersMarkT == SeqT(H32)
HeaderT == Struct(<<F("Parent", H32), F("ParentStateRoot", H32), F("ExtrinsicHash", H32), F("Slot", U4),
                    F("EpochMark", Opt(EpochMarkT)), F("TicketsMark", Opt(TicketsMarkT)), F("AuthorIndex", U2),
                    F("EntropySource", BytesT(96)), F("OffendersMark", OffendersMarkT), F("Seal", BytesT(96))>>)
TicketEnvelopeT == Struct(<<F("Attempt", NatT(8)), F("Signature", BytesT(784))>>)
TicketsExtrinsicT == SeqT(TicketEnvelopeT)
PreimageT == Struct(<<F("Requester", U4), F("Blob", Blob)>>)
PreimagesExtrinsicT == SeqT(PreimageT)
WorkPackageSpecT == Struct(<<F("Hash", H32), F("Length", U4), F("ErasureRoot", H32), F("ExportsRoot", H32), F("ExportsCount", U2)>>)
RefineContextT == Struct(<<F("Anchor", H32), F("StateRoot", H32), F("BeefyRoot", H32), F("LookupAnchor", H32),
                           F("LookupAnchorSlot", U4), F("Prerequisites", SeqT(H32))>>)
SegmentRootLookupItemT == Struct(<<F("WorkPackageHash", H32), F("SegmentTreeRoot", H32)>>)
SegmentRootLookupT == SeqT(SegmentRootLookupItemT)
NoFields == Struct(<<>>)
WorkExecResultT == Enum("str", "Type", <<Alt("ok", Struct(<<F("Data", Blob)>>)), Alt("out-of-gas", NoFields), Alt("panic", NoFields),
                                         Alt("bad-exports", NoFields), Alt("output-oversize", NoFields), Alt("bad-code", NoFields),
                                         Alt("code-oversize", NoFields)>>)
RefineLoadT == Struct(<<F("GasUsed", NatT(8)), F("Imports", NatT(2)), F("ExtrinsicCount", NatT(2)), F("ExtrinsicSize", NatT(4)), F("Exports", NatT(2))>>)
WorkResultT == Struct(<<F("ServiceID", U4), F("CodeHash", H32), F("PayloadHash", H32), F("AccumulateGas", U8T),
                        F("Result", WorkExecResultT), F("RefineLoad", RefineLoadT)>>)
WorkReportT == Struct(<<F("PackageSpec", WorkPackageSpecT), F("Context", RefineContextT), F("CoreIndex", NatT(2)), F("AuthorizerHash", H32),
                        F("AuthGasUsed", NatT(8)), F("AuthOutput", Blob), F("SegmentRootLookup", SegmentRootLookupT), F("Results", SeqT(WorkResultT))>>)
ValidatorSignatureT == Struct(<<F("ValidatorIndex", U2), F("Signature", BytesT(64))>>)
ReportGuaranteeT == Struct(<<F("Report", WorkReportT), F("Slot", U4), F("Signatures", SeqT(ValidatorSignatureT))>>)
GuaranteesExtrinsicT == SeqT(ReportGuaranteeT)
BitfieldT == Bits(C, ABB)
AvailAssuranceT == Struct(<<F("Anchor", H32), F("Bitfield", BitfieldT), F("ValidatorIndex", U2), F("Signature", BytesT(64))>>)
AssurancesExtrinsicT == SeqT(AvailAssuranceT)
JudgementT == Struct(<<F("Vote", BoolT), F("Index", U2), F("Signature", BytesT(64))>>)
VerdictT == Struct(<<F("Target", H32), F("Age", U4), F("Votes", FSeq(SM, JudgementT))>>)
CulpritT == Struct(<<F("Target", H32), F("Key", H32), F("Signature", BytesT(64))>>)
FaultT == Struct(<<F("Target", H32), F("Vote", BoolT), F("Key", H32), F("Signature", BytesT(64))>>)
DisputesExtrinsicT == Struct(<<F("Verdicts", SeqT(VerdictT)), F("Culprits", SeqT(CulpritT)), F("Faults", SeqT(FaultT))>>)
ExtrinsicT == Struct(<<F("Tickets", TicketsExtrinsicT), F("Preimages", PreimagesExtrinsicT), F("Guarantees", GuaranteesExtrinsicT),
                       F("Assurances", AssurancesExtrinsicT), F("Disputes", DisputesExtrinsicT)>>)
BlockT == Struct(<<F("Header", HeaderT), F("Extrinsic", ExtrinsicT)>>)

AuthorizerT == Struct(<<F("CodeHash", H32), F("Params", Blob)>>)
ImportSpecT == Struct(<<F("TreeRoot", H32), F("Index", U2)>>)
ExtrinsicSpecT == Struct(<<F("Hash", H32), F("Len", U4)>>)
WorkItemT == Struct(<<F("Service", U4), F("CodeHash", H32), F("RefineGasLimit", U8T), F("AccumulateGasLimit", U8T), F("ExportCount", U2),
                      F("Payload", Blob), F("ImportSegments", SeqT(ImportSpecT)), F("Extrinsic", SeqT(ExtrinsicSpecT))>>)
WorkPackageT == Struct(<<F("AuthCodeHost", U4), F("AuthCodeHash", H32), F("Context", RefineContextT), F("Authorization", Blob),
                         F("AuthorizerConfig", Blob), F("Items", SeqT(WorkItemT))>>)

ValidatorActivityRecordT == Struct(<<F("Blocks", U4), F("Tickets", U4), F("PreImages", U4), F("PreImagesSize", U4), F("Guarantees", U4), F("Assurances", U4)>>)
ValidatorsStatisticsT == FSeq(V, ValidatorActivityRecordT)
CoreActivityRecordT == Struct(<<F("DALoad", NatT(4)), F("Popularity", NatT(2)), F("Imports", NatT(2)), F("ExtrinsicCount", NatT(2)),
                                F("ExtrinsicSize", NatT(4)), F("Exports", NatT(2)), F("BundleSize", NatT(4)), F("GasUsed", NatT(8))>>)
CoresStatisticsT == FSeq(C, CoreActivityRecordT)
ServiceActivityRecordT == Struct(<<F("ProvidedCount", NatT(2)), F("ProvidedSize", NatT(4)), F("RefinementCount", NatT(4)), F("RefinementGasUsed", NatT(8)),
                                   F("Imports", NatT(4)), F("ExtrinsicCount", NatT(4)), F("ExtrinsicSize", NatT(4)), F("Exports", NatT(4)),
                                   F("AccumulateCount", NatT(4)), F("AccumulateGasUsed", NatT(8))>>)
ServicesStatisticsT == MapT(U4, ServiceActivityRecordT)
StatisticsT == Struct(<<F("ValsCurr", ValidatorsStatisticsT), F("ValsLast", ValidatorsStatisticsT), F("Cores", CoresStatisticsT), F("Services", ServicesStatisticsT)>>)

ValidatorT == Struct(<<F("Bandersnatch", H32), F("Ed25519", H32), F("Bls", BytesT(144)), F("Metadata", BytesT(128))>>)
ValidatorsDataT == FSeq(V, ValidatorT)
EntropyBufferT == FSeq(4, H32)
TicketsAccumulatorT == SeqT(TicketBodyT)
TicketsOrKeysT == Enum("seq", "", <<Alt("Tickets", FSeq(E, TicketBodyT)), Alt("Keys", FSeq(E, H32))>>)
AvailabilityAssignmentT == Struct(<<F("Report", WorkReportT), F("AssignedSlot", U4)>>)
AvailabilityAssignmentsT == FSeq(C, Opt(AvailabilityAssignmentT))
MmrT == Struct(<<F("Peaks", SeqT(Opt(H32)))>>)
ReportedWorkPackageT == Struct(<<F("Hash", H32), F("ExportsRoot", H32)>>)
BlockInfoT == Struct(<<F("HeaderHash", H32), F("BeefyRoot", H32), F("StateRoot", H32), F("Reported", SeqT(ReportedWorkPackageT))>>)
BlocksHistoryT == SeqMax(BlockInfoT, H)
RecentBlocksT == Struct(<<F("History", BlocksHistoryT), F("Mmr", MmrT)>>)
AuthPoolT == SeqMax(H32, O)
AuthPoolsT == FSeq(C, AuthPoolT)
AuthQueueT == FSeq(Q, H32)
AuthQueuesT == FSeq(C, AuthQueueT)
ServiceInfoT == Struct(<<F("Version", U1), F("CodeHash", H32), F("Balance", U8T), F("MinItemGas", U8T), F("MinMemoGas", U8T), F("Bytes", U8T),
                         F("DepositOffset", U8T), F("Items", U4), F("CreationSlot", U4), F("LastAccumulationSlot", U4), F("ParentService", U4)>>)
MetaCodeT == Struct(<<F("Metadata", Blob), F("Code", Rest)>>)
DisputesRecordsT == Struct(<<F("Good", SeqT(H32)), F("Bad", SeqT(H32)), F("Wonky", SeqT(H32)), F("Offenders", SeqT(H32))>>)
ReadyRecordT == Struct(<<F("Report", WorkReportT), F("Dependencies", SeqT(H32))>>)
ReadyQueueItemT == SeqT(ReadyRecordT)
ReadyQueueT == FSeq(E, ReadyQueueItemT)
AccumulatedQueueItemT == SeqT(H32)
AccumulatedQueueT == FSeq(E, AccumulatedQueueItemT)
AlwaysAccumulateMapT == MapT(U4, U8T)
ServiceIDListT == FSeq(C, U4)
PrivilegesT == Struct(<<F("Bless", U4), F("Assign", ServiceIDListT), F("Designate", U4), F("CreateAcct", U4), F("AlwaysAccum", AlwaysAccumulateMapT)>>)
SafroleStateT == Struct(<<F("GammaK", ValidatorsDataT), F("GammaZ", BytesT(144)), F("GammaS", TicketsOrKeysT), F("GammaA", TicketsAccumulatorT)>>)
StorageT == MapT(Blob2, Blob)
LookupMetaMapkeyT == Struct(<<F("Hash", H32), F("Length", U4)>>)
PreimagesMapEntryT == MapT(H32, Blob)
TimeSlotSetT == SeqT(U4)
LookupMetaMapEntryT == MapT(LookupMetaMapkeyT, TimeSlotSetT)
ServiceAccountT == Struct(<<F("ServiceInfo", ServiceInfoT), F("PreimageLookup", PreimagesMapEntryT), F("LookupDict", LookupMetaMapEntryT), F("StorageDict", StorageT)>>)
ServiceAccountStateT == MapT(U4, ServiceAccountT)
StateT == Struct(<<F("Alpha", AuthPoolsT), F("Varphi", AuthQueuesT), F("Beta", RecentBlocksT), F("Gamma", SafroleStateT), F("Psi", DisputesRecordsT),
                   F("Eta", EntropyBufferT), F("Iota", ValidatorsDataT), F("Kappa", ValidatorsDataT), F("Lambda", ValidatorsDataT),
                   F("Rho", AvailabilityAssignmentsT), F("Tau", U4), F("Chi", PrivilegesT), F("Pi", StatisticsT), F("Vartheta", ReadyQueueT),
                   F("Xi", AccumulatedQueueT), F("Delta", ServiceAccountStateT)>>)
DeferredTransferT == Struct(<<F("SenderID", U4), F("ReceiverID", U4), F("Balance", U8T), F("Memo", BytesT(128)), F("GasLimit", U8T)>>)
OperandT == Struct(<<F("Hash", H32), F("ExportsRoot", H32), F("AuthorizerHash", H32), F("PayloadHash", H32), F("GasLimit", NatT(8)),
                     F("Result", WorkExecResultT), F("AuthOutput", Blob)>>)
OperandOrDeferredTransferT == Enum("ptr", "", <<Alt("Operand", OperandT), Alt("DeferredTransfer", DeferredTransferT)>>)
ExtrinsicDataListT == SeqT(Blob)
ExportSegmentT == BytesT(4104)
ExportSegmentMatrixT == SeqT(SeqT(ExportSegmentT))
OpaqueHashMatrixT == SeqT(SeqT(H32))
WorkPackageBundleT == Struct(<<F("Package", WorkPackageT), F("Extrinsics", ExtrinsicDataListT), F("ImportSegments", ExportSegmentMatrixT), F("ImportProofs", OpaqueHashMatrixT)>>)
StateKeyT == BytesT(31)
BoundaryNodeT == Struct(<<F("Key", StateKeyT), F("Hash", H32), F("Parent", Opt(StateKeyT)), F("IsLeaf", BoolT)>>)
StateKeyValT == Struct(<<F("Key", StateKeyT), F("Value", Blob)>>)
StateKeyValsT == SeqT(StateKeyValT)
AccumulatedServiceHashT == Struct(<<F("ServiceID", U4), F("Hash", H32)>>)
AccumulatedServiceOutputT == MapT(AccumulatedServiceHashT, Unit)
LastAccOutT == SeqT(AccumulatedServiceHashT)
AncestryItemT == Struct(<<F("Slot", U4), F("HeaderHash", H32)>>)
AncestryT == SeqMax(AncestryItemT, L)

\* ---- fuzz protocol (internal/fuzz/messages.go)
VersionT == Struct(<<F("Major", U1), F("Minor", U1), F("Patch", U1)>>)
PeerInfoT == Struct(<<F("FuzzVersion", U1), F("FuzzFeatures", U4), F("JamVersion", VersionT), F("AppVersion", VersionT), F("AppName", Blob)>>)
SetStateT == Struct(<<F("Header", HeaderT), F("State", StateKeyValsT), F("Ancestry", AncestryT)>>)
ErrorMessageT == Struct(<<F("Error", Blob)>>)
FuzzMessageT == Frame(<<FAlt(0, "PeerInfo", PeerInfoT), FAlt(1, "SetState", SetStateT), FAlt(2, "StateRoot", H32), FAlt(3, "ImportBlock", BlockT),
                        FAlt(4, "GetState", H32), FAlt(5, "State", StateKeyValsT), FAlt(255, "Error", ErrorMessageT)>>)

\* type name (Go type name; fuzz types prefixed "fuzz.") -> descriptor
Schema == [
  U8 |-> U1, U16 |-> U2, U32 |-> U4, U64 |-> U8T,
  TimeSlot |-> U4, ValidatorIndex |-> U2, CoreIndex |-> U2, ServiceID |-> U4, Gas |-> U8T,
  OpaqueHash |-> H32, HeaderHash |-> H32, StateRoot |-> H32, BeefyRoot |-> H32, WorkPackageHash |-> H32, WorkReportHash |-> H32,
  ExportsRoot |-> H32, ErasureRoot |-> H32, Entropy |-> H32, TicketID |-> H32, AuthorizerHash |-> H32,
  BandersnatchPublic |-> H32, Ed25519Public |-> H32, BlsPublic |-> BytesT(144), BandersnatchVrfSignature |-> BytesT(96),
  BandersnatchRingVrfSignature |-> BytesT(784), Ed25519Signature |-> BytesT(64), BandersnatchRingCommitment |-> BytesT(144),
  ValidatorMetadata |-> BytesT(128), StateKey |-> StateKeyT, ExportSegment |-> ExportSegmentT,
  TicketAttempt |-> NatT(8), ByteSequence |-> Blob, ExtrinsicData |-> Blob, TimeSlotSet |-> TimeSlotSetT, Bitfield |-> BitfieldT,
  EpochMarkValidatorKeys |-> EpochMarkValidatorKeysT, EpochMark |-> EpochMarkT, TicketBody |-> TicketBodyT, TicketsMark |-> TicketsMarkT,
  OffendersMark |-> OffendersMarkT, Header |-> HeaderT, TicketEnvelope |-> TicketEnvelopeT, TicketsExtrinsic |-> TicketsExtrinsicT,
  ServiceIDList |-> ServiceIDListT, Preimage |-> PreimageT, PreimagesExtrinsic |-> PreimagesExtrinsicT, WorkPackageSpec |-> WorkPackageSpecT,
  RefineContext |-> RefineContextT, SegmentRootLookupItem |-> SegmentRootLookupItemT, SegmentRootLookup |-> SegmentRootLookupT,
  WorkExecResult |-> WorkExecResultT, RefineLoad |-> RefineLoadT, WorkResult |-> WorkResultT, WorkReport |-> WorkReportT,
  ValidatorSignature |-> ValidatorSignatureT, ReportGuarantee |-> ReportGuaranteeT, GuaranteesExtrinsic |-> GuaranteesExtrinsicT,
  AvailAssurance |-> AvailAssuranceT, AssurancesExtrinsic |-> AssurancesExtrinsicT, Judgement |-> JudgementT, Verdict |-> VerdictT,
  Culprit |-> CulpritT, Fault |-> FaultT, DisputesExtrinsic |-> DisputesExtrinsicT, Extrinsic |-> ExtrinsicT, Block |-> BlockT,
  Authorizer |-> AuthorizerT, ImportSpec |-> ImportSpecT, ExtrinsicSpec |-> ExtrinsicSpecT, WorkItem |-> WorkItemT, WorkPackage |-> WorkPackageT,
  ValidatorActivityRecord |-> ValidatorActivityRecordT, ValidatorsStatistics |-> ValidatorsStatisticsT, CoreActivityRecord |-> CoreActivityRecordT,
  CoresStatistics |-> CoresStatisticsT, ServiceActivityRecord |-> ServiceActivityRecordT, ServicesStatistics |-> ServicesStatisticsT,
  Statistics |-> StatisticsT, Validator |-> ValidatorT, ValidatorsData |-> ValidatorsDataT, EntropyBuffer |-> EntropyBufferT,
  TicketsAccumulator |-> TicketsAccumulatorT, TicketsOrKeys |-> TicketsOrKeysT, AvailabilityAssignment |-> AvailabilityAssignmentT,
  AvailabilityAssignments |-> AvailabilityAssignmentsT, Mmr |-> MmrT, ReportedWorkPackage |-> ReportedWorkPackageT, BlockInfo |-> BlockInfoT,
  BlocksHistory |-> BlocksHistoryT, RecentBlocks |-> RecentBlocksT, AuthPool |-> AuthPoolT, AuthPools |-> AuthPoolsT, AuthQueue |-> AuthQueueT,
  AuthQueues |-> AuthQueuesT, ServiceInfo |-> ServiceInfoT, MetaCode |-> MetaCodeT, DisputesRecords |-> DisputesRecordsT,
  ReadyRecord |-> ReadyRecordT, ReadyQueueItem |-> ReadyQueueItemT, ReadyQueue |-> ReadyQueueT, AccumulatedQueueItem |-> AccumulatedQueueItemT,
  AccumulatedQueue |-> AccumulatedQueueT, AlwaysAccumulateMap |-> AlwaysAccumulateMapT, Privileges |-> PrivilegesT, SafroleState |-> SafroleStateT,
  Storage |-> StorageT, LookupMetaMapkey |-> LookupMetaMapkeyT, PreimagesMapEntry |-> PreimagesMapEntryT, LookupMetaMapEntry |-> LookupMetaMapEntryT,
  ServiceAccount |-> ServiceAccountT, ServiceAccountState |-> ServiceAccountStateT, State |-> StateT, DeferredTransfer |-> DeferredTransferT,
  Operand |-> OperandT, OperandOrDeferredTransfer |-> OperandOrDeferredTransferT, ExtrinsicDataList |-> ExtrinsicDataListT,
  ExportSegmentMatrix |-> ExportSegmentMatrixT, OpaqueHashMatrix |-> OpaqueHashMatrixT, WorkPackageBundle |-> WorkPackageBundleT,
  BoundaryNode |-> BoundaryNodeT, StateKeyVal |-> StateKeyValT, StateKeyVals |-> StateKeyValsT, AccumulatedServiceHash |-> AccumulatedServiceHashT,
  AccumulatedServiceOutput |-> AccumulatedServiceOutputT, LastAccOut |-> LastAccOutT, AncestryItem |-> AncestryItemT, Ancestry |-> AncestryT,
  FuzzPeerInfo |-> PeerInfoT, FuzzSetState |-> SetStateT, FuzzMessage |-> FuzzMessageT ]

TypeNames == DOMAIN Schema

\* ---------------------------------------------------------------------------------------------
\* JAMNP-S "CE" request / response messages (internal/networking/handler/ce), check X09.
\* The JAMNP-S text is not available offline: layouts follow the package's encoders and the comments
\* in its files; where the handlers themselves are laxer than their encoders the schema is the encoder's
\* (exact) form.  Assumptions: item counts of CE139/140 are 16-bit (as coded) with at most 2*W_M = 6144
\* indices; a ticket attempt is any octet; CE142 preimage length is 1..100 MiB (the package's own limit);
\* a guarantee carries 2..3 signatures with validator indices below V; an audit announcement names at
\* least one work-report and a no-show's previous announcement is not empty (the package's Validate).
B64 == BytesT(64)
B96 == BytesT(96)
Bit01 == URange(1, <<0>>, <<1>>)
CE128ReqT == Struct(<<F("HeaderHash", H32), F("Direction", Bit01), F("MaxBlocks", U4)>>)
CE129ReqT == Struct(<<F("HeaderHash", H32), F("KeyStart", StateKeyT), F("KeyEnd", StateKeyT), F("MaxSize", U4)>>)
CE131ReqT == Struct(<<F("EpochIndex", U4), F("Attempt", U1), F("Proof", BytesT(784))>>)
CE133Msg1T == Struct(<<F("CoreIndex", U2), F("WorkPackage", Rest)>>)
CE134MappingsT == SeqX(Struct(<<F("WorkPackageHash", H32), F("SegmentRoot", H32)>>), 0, -1, 0)
CEHashReqT == Struct(<<F("Hash", H32)>>)
CEShardReqT == Struct(<<F("ErasureRoot", H32), F("ShardIndex", U2)>>)
CESegReqT == Struct(<<F("ErasureRoot", H32), F("ShardIndex", U2), F("SegmentIndices", SeqX(U2, 0, 6144, 2))>>)
CE141T == Struct(<<F("HeaderHash", H32), F("Bitfield", PBits(C, (C + 7) \div 8)), F("Signature", B64)>>)
CE142T == Struct(<<F("ServiceID", U4), F("Hash", H32), F("PreimageLength", URange(4, <<1, 0, 0, 0>>, <<0, 0, 64, 6>>))>>)   \* 1 .. 100 MiB
WorkReportEntryT == Struct(<<F("CoreIndex", U2), F("WorkReportHash", H32)>>)
CE144AnnT == Struct(<<F("WorkReports", SeqX(WorkReportEntryT, 1, -1, 0)), F("Signature", B64)>>)
NoShowT == Struct(<<F("ValidatorIndex", U2), F("PreviousAnnouncement", BlobMin(1))>>)
SubEvT == Struct(<<F("BandersnatchSig", B96), F("NoShows", SeqX(NoShowT, 0, -1, 0))>>)
CE144Ev0T == Struct(<<F("BandersnatchSig", B96)>>)
CE144EvN(n) == Struct(<<F("SubsequentEvidence", FSeq(n, SubEvT))>>)
CE144HeadFields == <<F("HeaderHash", H32), F("Tranche", U1), F("Announcement", CE144AnnT)>>
CE144Msg1T == Struct(CE144HeadFields)
CE144T == DStruct(CE144HeadFields, "Evidence", "ce144", 2, <<CE144Ev0T, SubEvT>>)
\* what parseMsg1 / parseMsg2 accept on their own (the announcement is validated afterwards: at least one work-report,
\* no empty previous announcement)
CE144Msg1ParseT == Struct(<<F("HeaderHash", H32), F("Tranche", U1),
                            F("Announcement", Struct(<<F("WorkReports", SeqX(WorkReportEntryT, 0, -1, 0)), F("Signature", B64)>>))>>)
SubEvParseT == Struct(<<F("BandersnatchSig", B96), F("NoShows", SeqX(Struct(<<F("ValidatorIndex", U2), F("PreviousAnnouncement", Blob)>>), 0, -1, 0))>>)
CE144EvParseN(n) == Struct(<<F("SubsequentEvidence", FSeq(n, SubEvParseT))>>)
GuaranteeSigT == Struct(<<F("ValidatorIndex", URange(2, <<0, 0>>, LE(V - 1, 2))), F("Signature", B64)>>)
CE145GuaranteeT == Struct(<<F("Slot", U4), F("Signatures", SeqX(GuaranteeSigT, 2, 3, 0))>>)
CE145HeadFields == <<F("EpochIndex", U4), F("ValidatorIndex", U2), F("Validity", Bit01), F("WorkReportHash", H32), F("Signature", B64)>>
CE145T == DStruct(CE145HeadFields, "Guarantee", "flag0", 3, <<Some(CE145GuaranteeT), NoneT>>)

CESchema == [
  CE128Req |-> CE128ReqT, CE129Req |-> CE129ReqT, CE131Req |-> CE131ReqT, CE133Msg1 |-> CE133Msg1T, CE134Mappings |-> CE134MappingsT,
  CE135 |-> ReportGuaranteeT, CE136Req |-> CEHashReqT, CE137Req |-> CEShardReqT, CE138Req |-> CEShardReqT, CE139Req |-> CESegReqT,
  CE140Req |-> CESegReqT, CE141 |-> CE141T, CE141Stream |-> CE141T, CE142 |-> CE142T, CE142Stream |-> CE142T, CE143Req |-> CEHashReqT,
  CE144 |-> CE144T, CE144Msg1 |-> CE144Msg1ParseT, CE144Ev0 |-> CE144Ev0T, CE144Ev1 |-> CE144EvParseN(1), CE144Ev2 |-> CE144EvParseN(2),
  CE145 |-> CE145T, CE145Guarantee |-> CE145GuaranteeT, CE147Req |-> CEHashReqT ]
CETypeNames == DOMAIN CESchema

\* lookup over both tables (the trace, generator and model-check modules use this one)
AnySchema == [n \in TypeNames \cup CETypeNames |-> IF n \in TypeNames THEN Schema[n] ELSE CESchema[n]]
=============================================================================

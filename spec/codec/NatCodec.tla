------------------------------ MODULE NatCodec ------------------------------
(* Gray Paper C.6: the variable-length natural-number codec, on 64-bit values kept  *)
(* as 8-byte little-endian sequences.  EncNat is the definition; DecNat is the      *)
(* STRICT inverse (accepts exactly the image of EncNat, on a prefix of the input).  *)
(* Property C12: every implementation in the node is this one bijection.            *)
EXTENDS Bytes

U64Val == [1..8 -> Byte]

\* l with 2^(7l) <= x < 2^(7(l+1)); 8 when x >= 2^56
LenClass(v) == LET bl == BitLen(v) IN
  IF bl <= 7 THEN 0 ELSE IF bl <= 14 THEN 1 ELSE IF bl <= 21 THEN 2 ELSE IF bl <= 28 THEN 3
  ELSE IF bl <= 35 THEN 4 ELSE IF bl <= 42 THEN 5 ELSE IF bl <= 49 THEN 6 ELSE IF bl <= 56 THEN 7 ELSE 8

\* E(x) = [2^8 - 2^(8-l) + floor(x / 2^(8l))] ++ E_l(x mod 2^(8l)),  l < 8;  [255] ++ E_8(x) otherwise.
\* floor(x / 2^(8l)) < 2^(7-l) is exactly byte l+1 of x.
EncNat(v) == LET l == LenClass(v) IN
  IF l = 8 THEN <<255>> \o v
  ELSE <<256 - Pow2(8 - l) + v[l + 1]>> \o Sub(v, 1, l)

\* Result of decoding a natural from the front of s.
\*   [ok |-> FALSE]                          truncated or non-canonical
\*   [ok |-> TRUE, val |-> v, used |-> n]    s[1..n] = EncNat(v)
DecNat(s) ==
  IF Len(s) = 0 THEN [ok |-> FALSE, why |-> "empty"]
  ELSE LET l == LeadingOnes(s[1]) IN
    IF Len(s) < 1 + l THEN [ok |-> FALSE, why |-> "truncated"]
    ELSE LET hi == IF l = 8 THEN 0 ELSE s[1] - (256 - Pow2(8 - l))
             v  == [i \in 1..8 |-> IF i <= l THEN s[i + 1] ELSE IF i = l + 1 THEN hi ELSE 0]
         IN IF EncNat(v) = Sub(s, 1, 1 + l)
            THEN [ok |-> TRUE, val |-> v, used |-> 1 + l]
            ELSE [ok |-> FALSE, why |-> "noncanonical"]

\* What a NON-strict decoder would compute for a non-canonical string (used only to
\* describe known deviations precisely): the value the bytes denote, ignoring minimality.
LooseDecNat(s) ==
  LET l == LeadingOnes(s[1])
      hi == IF l = 8 THEN 0 ELSE s[1] - (256 - Pow2(8 - l))
  IN [i \in 1..8 |-> IF i <= l THEN s[i + 1] ELSE IF i = l + 1 THEN hi ELSE 0]

\* ---- design properties checked by TLC on a bounded value set (MC_NatCodec) ----
RoundTrip(v) == DecNat(EncNat(v)) = [ok |-> TRUE, val |-> v, used |-> Len(EncNat(v))]
Minimal(v) == \A l \in 0..7 : (BitLen(v) <= 7 * (l + 1)) => Len(EncNat(v)) <= l + 1
PrefixFree(v, w) == v # w => ~IsPrefixOf(EncNat(v), EncNat(w))
=============================================================================

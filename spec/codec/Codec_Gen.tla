------------------------------ MODULE Codec_Gen ------------------------------
(* G-step for C13 / C14: for every type of Names, every value of the bounded        *)
(* generator (and every seeded value the driver produced, read from ValuesFile:     *)
(* rt records {ty, v}) TLC derives the mutants of its encoding with the operators   *)
(* of CodecMut and writes the cases {ty, cls, in}.  Classes selects mutation        *)
(* classes; K bounds the marks used per class.  To bound the volume, the values     *)
(* used depend on the size of the type's richest encoding:                          *)
(*   <= MedLimit bytes   all of Vals(type), K marks per class, seeded samples       *)
(*   <= BigLimit bytes   minimal and richest value, 2 marks per class               *)
(*   larger              minimal value only, 2 marks per class                      *)
(* (the larger types are compositions of types that are covered on their own).      *)
EXTENDS CodecMut, Json, SequencesExt
CONSTANTS OutFile, ValuesFile, Names, Classes, K, MedLimit, BigLimit
VARIABLE x

MaxLen(n) == Len(EncC(AnySchema[n], MaxV(AnySchema[n])))
ValsFor(n) == IF MaxLen(n) <= MedLimit THEN Vals(AnySchema[n])
              ELSE IF MaxLen(n) <= BigLimit THEN {MinV(AnySchema[n]), MaxV(AnySchema[n])} ELSE {MinV(AnySchema[n])}
KFor(n) == IF MaxLen(n) <= MedLimit THEN K ELSE 2
CasesOf(n, v, k) == {[ty |-> n, cls |-> c.cls, in |-> c.in] : c \in {c \in Mutants(AnySchema[n], v, k) : c.cls \in Classes}}
SpecCases == UNION {UNION {CasesOf(n, v, KFor(n)) : v \in ValsFor(n)} : n \in Names}
\* seeded values from the driver (only well-formed ones of the selected types, and not the huge ones)
SampleCases(T) == UNION {IF T[i].ty \in Names /\ Len(T[i].encs) > 0 /\ Len(T[i].encs[1]) <= MedLimit /\ MaxLen(T[i].ty) <= MedLimit
                         THEN LET ty == AnySchema[T[i].ty]
                                  cv == Canon(ty, T[i].v) IN
                              IF Valid(ty, cv) THEN CasesOf(T[i].ty, cv, K) ELSE {}
                         ELSE {} : i \in 1..Len(T)}
ASSUME \A T \in {IF ValuesFile = "" THEN <<>> ELSE ndJsonDeserialize(ValuesFile)} :
         ndJsonSerialize(OutFile, SetToSeq(SpecCases \cup SampleCases(T)))
GenInit == x = 0
GenNext == FALSE /\ x' = x
=============================================================================

------------------------------ MODULE Codec_Gen ------------------------------
(* G-step for C13 / C14: for every type of Names, every value of the bounded        *)
(* generator (and every seeded value the driver produced, read from ValuesFile:     *)
(* rt records {ty, v}) TLC derives the mutants of its encoding with the operators   *)
(* of CodecMut and writes the cases {ty, cls, in}.  Classes selects mutation        *)
(* classes; K bounds the marks used per class; types whose richest value encodes    *)
(* to more than BigLimit bytes contribute only their minimal and richest value      *)
(* with K = 2 (they are compositions of types that are covered on their own).       *)
EXTENDS CodecMut, Json, SequencesExt
CONSTANTS OutFile, ValuesFile, Names, Classes, K, BigLimit
VARIABLE x

Big(n) == Len(EncC(Schema[n], MaxV(Schema[n]))) > BigLimit
ValsFor(n) == IF Big(n) THEN {MinV(Schema[n]), MaxV(Schema[n])} ELSE Vals(Schema[n])
KFor(n) == IF Big(n) THEN 2 ELSE K
CasesOf(n, v, k) == {[ty |-> n, cls |-> c.cls, in |-> c.in] : c \in {c \in Mutants(Schema[n], v, k) : c.cls \in Classes}}
SpecCases == UNION {UNION {CasesOf(n, v, KFor(n)) : v \in ValsFor(n)} : n \in Names}
\* seeded values from the driver (only well-formed ones of the selected types, and not the huge ones)
SampleCases(T) == UNION {IF T[i].ty \in Names /\ Len(T[i].encs) > 0 /\ Len(T[i].encs[1]) <= BigLimit
                         THEN LET ty == Schema[T[i].ty]
                                  cv == Canon(ty, T[i].v) IN
                              IF Valid(ty, cv) THEN CasesOf(T[i].ty, cv, K) ELSE {}
                         ELSE {} : i \in 1..Len(T)}
ASSUME \A T \in {IF ValuesFile = "" THEN <<>> ELSE ndJsonDeserialize(ValuesFile)} :
         ndJsonSerialize(OutFile, SetToSeq(SpecCases \cup SampleCases(T)))
GenInit == x = 0
GenNext == FALSE /\ x' = x
=============================================================================

---------------------------- MODULE Codec_Trace ----------------------------
(* V-step for the codec family.  Stateless: every record is judged on its own.      *)
(*                                                                                  *)
(*  rt  (C11)  {ty, v, encs, encerr, ok, consumed, dec, panic}                       *)
(*       v = value tree, encs = the DISTINCT byte strings produced by all encodings  *)
(*       of v (fresh encoder, pooled encoders used concurrently, maps rebuilt in     *)
(*       other insertion orders).  Required: no encoder error for a well-formed      *)
(*       value; every byte string = Enc(Schema[ty], v); decoding the encoding is     *)
(*       accepted, consumes exactly its length and yields v.                         *)
(*  dec (C13, C14) {ty, cls, in, ok, consumed, dec, reenc, reencerr, panic, alloc}    *)
(*       Required: no Go panic; accepted <=> Dec(Schema[ty], in) accepts; if         *)
(*       accepted, consumed = used (when the entry point reports it), value = the    *)
(*       specified value, re-encoding = the consumed bytes.  With CheckAlloc:        *)
(*       alloc <= AllocK + AllocC * |in|   (alloc is an 8-byte little-endian tuple). *)
(*       A record with "crash" (the driver process died inside this case) is bad.    *)
(*                                                                                  *)
(* A deviation slug is "<why>:<ty>"; it excuses exactly that failure class of that   *)
(* type when listed in KnownDeviations.                                              *)
EXTENDS Schema, Json, SequencesExt
CONSTANTS TraceFile, ResultFile, KnownDeviations, CheckAlloc, AllocK, AllocC
VARIABLES l, devs, bad

Trace == ndJsonDeserialize(TraceFile)

HasField(e, f) == f \in DOMAIN e

\* set of failure labels of an rt record
JudgeRT(e) ==
  LET ty == Schema[e.ty]
      cv == Canon(ty, e.v) IN
  IF ~Valid(ty, cv) THEN {"generated_value_not_wellformed"}
  ELSE IF e.encerr # "" THEN {"encoder_error"}
  ELSE LET want == EncC(ty, cv) IN
       (IF Len(e.encs) > 1 THEN {"nondeterministic_encoding"} ELSE {})
       \cup (IF \E x \in 1..Len(e.encs) : e.encs[x] # want THEN {"encoding_differs_from_schema"} ELSE {})
       \cup (IF e.panic # "" THEN {"panic"}
             ELSE IF ~e.ok THEN {"decoder_rejects_own_encoding"}
             ELSE (IF e.consumed # -1 /\ e.consumed # Len(e.encs[1]) THEN {"consumed_differs"} ELSE {})
                  \cup (IF Canon(ty, e.dec) # cv THEN {"decoded_value_differs"} ELSE {}))

AllocOk(e) == CmpNumLE(e.alloc, LE(AllocK + AllocC * Len(e.in), 8)) <= 0

JudgeDec(e) ==
  LET ty == Schema[e.ty] IN
  IF HasField(e, "crash") THEN {"process_died"}
  ELSE IF e.panic # "" THEN {"panic"}
  ELSE LET want == Dec(ty, e.in) IN
       (IF want.ok THEN
          (IF ~e.ok THEN {"rejects_valid"}
           ELSE (IF e.consumed # -1 /\ e.consumed # want.used THEN {"consumed_differs"} ELSE {})
                \cup (IF Canon(ty, e.dec) # want.v THEN {"decoded_value_differs"} ELSE {})
                \cup (IF e.reencerr # "" \/ e.reenc # Sub(e.in, 1, want.used) THEN {"reencoding_differs"} ELSE {}))
        ELSE (IF e.ok THEN {"accepts_invalid"} ELSE {}))
       \cup (IF CheckAlloc /\ ~AllocOk(e) THEN {"allocation_unbounded"} ELSE {})

Judge(e) == IF e.op = "rt" THEN JudgeRT(e) ELSE IF e.op = "dec" THEN JudgeDec(e) ELSE {}

Init == l = 1 /\ devs = {} /\ bad = {}
Next == /\ l <= Len(Trace)
        /\ LET e == Trace[l]
               j == Judge(e)
               slug(y) == y \o ":" \o e.ty IN
           /\ bad' = bad \cup {[l |-> l, why |-> slug(y)] : y \in {y \in j : slug(y) \notin KnownDeviations}}
           /\ devs' = devs \cup {[l |-> l, slug |-> slug(y)] : y \in {y \in j : slug(y) \in KnownDeviations}}
        /\ l' = l + 1
TraceSpec == Init /\ [][Next]_<<l, devs, bad>>

Report == (l = Len(Trace) + 1) =>
  JsonSerialize(ResultFile, [n |-> l - 1, devs |-> SetToSeq(devs), bad |-> SetToSeq(bad)])
=============================================================================

---------------------------- MODULE Codec_Trace ----------------------------
(* V-step for the codec family.  Stateless: every record is judged on its own.      *)
(*                                                                                  *)
(*  rt  (C11)  {ty, v, encs, encerr, ok, consumed, dec, panic}                       *)
(*       v = value tree, encs = the DISTINCT byte strings produced by all encodings  *)
(*       of v (fresh encoder, pooled encoders used concurrently, maps rebuilt in     *)
(*       other insertion orders).  Required: no encoder error for a well-formed      *)
(*       value; every byte string = Enc(AnySchema[ty], v); decoding the encoding is     *)
(*       accepted, consumes exactly its length and yields v.                         *)
(*  dec (C13, C14) {ty, cls, in, ok, consumed, dec, reenc, reencerr, panic, alloc}    *)
(*       Required: no Go panic; accepted <=> Dec(AnySchema[ty], in) accepts; if         *)
(*       accepted, consumed = used (when the entry point reports it), value = the    *)
(*       specified value, re-encoding = the consumed bytes (CheckVerdict; C13).      *)
(*       C14 demands only what its statement demands: no panic, no process death     *)
(*       and, with CheckAlloc:                                                       *)
(*       alloc <= AllocK + AllocC * |in|   (alloc is an 8-byte little-endian tuple). *)
(*       A record with "crash" (the driver process died inside this case) is bad.    *)
(*       Optional flags of entry points that expose less (X09, stream handlers):     *)
(*       nodec = the parsed value is not observable, noreenc = nothing re-encoded,   *)
(*       lax = the entry point may also refuse for reasons outside the format.       *)
(*                                                                                  *)
(* Failures are reported as "<why>:<ty>".  Named deviations (open findings, enabled   *)
(* only when their slug is in KnownDeviations) excuse one narrowly guarded class:    *)
(*   metacode_empty_input   MetaCode.Decode accepts the EMPTY input as the empty     *)
(*                          MetaCode (whose encoding is the single octet 00)         *)
(*   ce145_decode_trailing_bytes  CE145Payload.Decode / decodeGuaranteeBytes accept   *)
(*                          a valid judgment followed by trailing bytes (X09)         *)
EXTENDS Schema, Json, SequencesExt
CONSTANTS TraceFile, ResultFile, KnownDeviations, CheckVerdict, CheckAlloc, AllocK, AllocC
VARIABLES l, devs, bad

HasField(e, f) == f \in DOMAIN e

\* Values that are used several times are bound with a singleton-set quantifier ({x \in {expr} : ...}, UNION {f(x) : x \in {expr}}):
\* TLC evaluates the bound expression once, whereas a LET definition inside an operator is re-evaluated at every use.

\* set of failure labels of an rt record
JudgeRT3(e, ty, cv, want) ==
  (IF Len(e.encs) > 1 THEN {"nondeterministic_encoding"} ELSE {})
  \cup (IF \E x \in 1..Len(e.encs) : e.encs[x] # want THEN {"encoding_differs_from_schema"} ELSE {})
  \cup (IF e.panic # "" THEN {"panic"}
        ELSE IF ~e.ok THEN {"decoder_rejects_own_encoding"}
        ELSE (IF e.consumed # -1 /\ e.consumed # Len(e.encs[1]) THEN {"consumed_differs"} ELSE {})
             \cup (IF ~HasField(e, "nodec") /\ Canon(ty, e.dec) # cv THEN {"decoded_value_differs"} ELSE {}))
JudgeRT2(e, ty, cv) ==
  IF ~Valid(ty, cv) THEN {"generated_value_not_wellformed"}
  ELSE IF e.encerr # "" THEN {"encoder_error"}
  ELSE UNION {JudgeRT3(e, ty, cv, want) : want \in {EncC(ty, cv)}}
JudgeRT(e) == UNION {JudgeRT2(e, AnySchema[e.ty], cv) : cv \in {Canon(AnySchema[e.ty], e.v)}}

AllocOk(e) == CmpNumLE(e.alloc, LE(AllocK + AllocC * Len(e.in), 8)) <= 0

\* an entry point that is handed the whole message (exact = TRUE: UnmarshalBinary) must consume all of it
WantOf(e, d) == IF d.ok /\ e.exact /\ d.used # Len(e.in) THEN Fail("trailing bytes") ELSE d
JudgeDec2(e, ty, want) ==
  (IF want.ok THEN
     (IF ~e.ok THEN (IF HasField(e, "lax") THEN {} ELSE {"rejects_valid"})
      ELSE (IF e.consumed # -1 /\ e.consumed # want.used THEN {"consumed_differs"} ELSE {})
           \cup (IF ~HasField(e, "nodec") /\ Canon(ty, e.dec) # want.v THEN {"decoded_value_differs"} ELSE {})
           \cup (IF ~HasField(e, "noreenc") /\ (e.reencerr # "" \/ e.reenc # Sub(e.in, 1, want.used)) THEN {"reencoding_differs"} ELSE {}))
   ELSE (IF e.ok THEN {"accepts_invalid"} ELSE {}))
  \cup (IF CheckAlloc /\ ~AllocOk(e) THEN {"allocation_unbounded"} ELSE {})
JudgeDec(e) ==
  IF HasField(e, "crash") THEN {"process_died"}
  ELSE IF e.panic # "" THEN {"panic"}
  ELSE IF ~CheckVerdict THEN (IF CheckAlloc /\ ~AllocOk(e) THEN {"allocation_unbounded"} ELSE {})
  ELSE UNION {UNION {JudgeDec2(e, AnySchema[e.ty], want) : want \in {WantOf(e, d)}} : d \in {Dec(AnySchema[e.ty], e.in)}}

Judge(e) == IF e.op = "rt" THEN JudgeRT(e) ELSE IF e.op = "dec" THEN JudgeDec(e) ELSE {}

\* The whole trace is judged in ONE constant-level evaluation and the verdict is written by an ASSUME.
\* (Measured: a definition `Trace == ndJsonDeserialize(TraceFile)` that mentions a CONSTANT is re-evaluated -
\* the file re-parsed - at every reference; binding the parsed trace with a bounded quantifier evaluates it
\* exactly once.  The records here are large, so this matters.)
Slug(e, y) == y \o ":" \o e.ty
Deviation(e, y) ==
  IF e.op = "dec" /\ y = "accepts_invalid" /\ e.ty = "MetaCode" /\ Len(e.in) = 0 /\ e.consumed = 0 THEN "metacode_empty_input"
  ELSE IF e.op = "dec" /\ y = "accepts_invalid" /\ e.ty \in {"CE145", "CE145Guarantee"} /\ Dec(AnySchema[e.ty], e.in).ok
       THEN "ce145_decode_trailing_bytes"
  ELSE "none"
BadOf(T, i) == {[l |-> i, why |-> Slug(T[i], y)] : y \in {y \in Judge(T[i]) : Deviation(T[i], y) \notin KnownDeviations}}
DevsOf(T, i) == {[l |-> i, slug |-> Deviation(T[i], y)] : y \in {y \in Judge(T[i]) : Deviation(T[i], y) \in KnownDeviations}}
Result(T) == [n |-> Len(T),
              devs |-> SetToSeq(UNION {DevsOf(T, i) : i \in 1..Len(T)}),
              bad |-> SetToSeq(UNION {BadOf(T, i) : i \in 1..Len(T)})]
ASSUME \A T \in {ndJsonDeserialize(TraceFile)} : JsonSerialize(ResultFile, Result(T))

Init == l = 0 /\ devs = {} /\ bad = {}
Next == FALSE /\ UNCHANGED <<l, devs, bad>>
TraceSpec == Init /\ [][Next]_<<l, devs, bad>>
Report == TRUE
=============================================================================

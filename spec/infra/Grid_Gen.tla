------------------------------ MODULE Grid_Gen ------------------------------
(* G-step for C29: inputs only (the oracle is evaluated by Grid_Trace).            *)
(*  width : counts around every square boundary                                     *)
(*  pi    : 32-byte key pairs by class (equal; differing in one byte at a chosen    *)
(*          position; last byte around the 127/128 boundary)                        *)
(*  set   : three validator sets as sequences of abstract key ids, probe indices    *)
(*          (all of -1..V for V <= SmallV together with the full pair matrix)       *)
EXTENDS GridDefs, SequencesExt, Json, TLC
CONSTANTS OutFile, Tier
VARIABLE x

Thorough == Tier = "thorough"
SmallV == IF Thorough THEN 36 ELSE 24

\* ---- width
SqK == {1, 2, 3, 5, 10, 11, 12, 31, 32, 33, 34, 100, 181, 255, 256, 1000, 4096, 23170, 32767, 32768}
WidthCases == {[kind |-> "width", n |-> n] : n \in (-2..130) \cup UNION {{k * k - 1, k * k, k * k + 1} : k \in SqK} \cup {1023, 1100}}

\* ---- keys
Key(fill, last) == Rep(fill, 31) \o <<last>>
With(k, p, b) == [k EXCEPT ![p] = b]
Lasts == {0, 1, 126, 127, 128, 129, 254, 255}
Fills == {0, 127, 128, 255}
PiPairs ==
  {<<Key(f, la), Key(f, lb)>> : f \in Fills, la \in Lasts, lb \in Lasts}                       \* equal or differing in the last byte only
  \cup {<<Key(f, la), With(Key(f, lb), p, b)>> : f \in {0, 128, 255}, la \in {0, 127, 128, 255}, lb \in {0, 127, 128, 255},
                                                p \in {1, 2, 16, 31}, b \in {0, 1, 127, 129, 255}}
PiCases == {[kind |-> "pi", a |-> pr[1], b |-> pr[2]] : pr \in PiPairs}

\* ---- validator sets (ids are abstract keys; the driver maps id -> a real validator)
Cur(V) == [i \in 1..V |-> (i + 4) % V]
Shift(s, k) == [i \in 1..Len(s) |-> s[((i - 1 + k) % Len(s)) + 1]]
Fresh(n, base) == [i \in 1..n |-> base + i - 1]
Kinds == {"same", "rot1", "rotW", "fresh", "short", "long", "empty", "dup", "swap"}
SetOf(V, kind) ==
  LET c == Cur(V)
      W == IF V > 0 THEN Width(V) ELSE 1
  IN CASE kind = "same"  -> [cur |-> c, prev |-> c, next |-> c]
       [] kind = "rot1"  -> [cur |-> c, prev |-> IF V = 0 THEN c ELSE Shift(c, 1), next |-> IF V = 0 THEN c ELSE Shift(c, V - 1)]
       [] kind = "rotW"  -> [cur |-> c, prev |-> IF V = 0 THEN c ELSE Shift(c, W), next |-> IF V = 0 THEN c ELSE Shift(c, 2)]
       [] kind = "fresh" -> [cur |-> c, prev |-> Fresh(V, V), next |-> Fresh(V, 2 * V)]
       [] kind = "short" -> [cur |-> c, prev |-> IF V = 0 THEN c ELSE SubSeq(Shift(c, 3), 1, V - 1), next |-> Fresh(V \div 2, V)]
       [] kind = "long"  -> [cur |-> c, prev |-> Fresh(V + 2, 1), next |-> IF V = 0 THEN <<1>> ELSE Shift(c, 1) \o <<V + 1>>]
       [] kind = "empty" -> [cur |-> c, prev |-> <<>>, next |-> <<>>]
       [] kind = "dup"   -> [cur |-> [i \in 1..V |-> IF i % 3 = 0 THEN 0 ELSE c[i]], prev |-> Fresh(V, 0), next |-> [i \in 1..V |-> 0]]
       [] kind = "swap"  -> [cur |-> c, prev |-> [i \in 1..V |-> c[V + 1 - i]], next |-> Fresh(V, V \div 2)]

Structural(V) == LET W == Width(V) IN
  {a \in {-1, 0, W - 1, W, 2 * W - 1, V \div 2, V - W - 1, V - W, V - 1, V,
          (V \div W) * W - 1, (V \div W) * W, ((V - 1) \div W) * W} : a >= -1 /\ a <= V + 1}
\* key ids asked of ValidatorManager.IsNeighbor for probe a: every id for small sets; for large ones the
\* keys of all related validators plus a residue class of unrelated ids
AllIds(u) == [i \in 1..u |-> i - 1]
KeyQueries(s, V, u, a) ==
  IF V <= SmallV THEN AllIds(u)
  ELSE SetToSeq(NbrKeys(s.cur, s.prev, s.next, a) \cup {id \in 0..(u - 1) : id % 41 = (a + 41) % 41})
SetCase(V, kind) ==
  LET s == SetOf(V, kind)
      u == 3 * V + 4
      pr == IF V <= SmallV THEN [i \in 1..(V + 2) |-> i - 2] ELSE SetToSeq(Structural(V))
  IN [kind |-> "set", tag |-> kind, cur |-> s.cur, prev |-> s.prev, next |-> s.next, u |-> u,
      matrix |-> IF V <= SmallV /\ kind = "same" THEN 1 ELSE 0,          \* the pair matrix depends on V only
      probes |-> [i \in 1..Len(pr) |-> [a |-> pr[i], kq |-> IF pr[i] >= 0 /\ pr[i] < V THEN KeyQueries(s, V, u, pr[i]) ELSE <<>>]]]
KindFor(V) == CHOOSE k \in Kinds : \E i \in 0..8 : i = V % 9 /\ k = <<"same", "rot1", "rotW", "fresh", "short", "long", "empty", "dup", "swap">>[i + 1]
BigQuick == {25, 26, 35, 36, 37, 48, 49, 50, 63, 64, 65, 99, 100, 101, 341, 1023, 1024, 1088, 1089, 1090, 1100}
SetCases ==
  {SetCase(V, k) : V \in 0..SmallV, k \in Kinds}
  \cup {SetCase(V, KindFor(V)) : V \in (IF Thorough THEN (SmallV + 1)..1100 ELSE BigQuick)}
  \cup {SetCase(V, k) : V \in {1023, 1100}, k \in {"rot1", "fresh"}}

Cases == SetToSeq(WidthCases) \o SetToSeq(PiCases) \o SetToSeq(SetCases)
ASSUME ndJsonSerialize(OutFile, Cases)
GenInit == x = 0
GenNext == FALSE /\ x' = x
=============================================================================

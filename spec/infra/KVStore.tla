------------------------------ MODULE KVStore ------------------------------
(* C27: the key-value semantics every database provider (memory, Pebble, Redis)    *)
(* must implement: an ordered map from byte strings to byte strings with write     *)
(* batches that take effect entirely on Commit and not at all otherwise.           *)
(* One action per public call of database.Database / database.Batch.               *)
EXTENDS Bytes, SequencesExt, TLC

CONSTANTS Keys,      \* universe of keys explored by the model checker (byte sequences)
          Vals,      \* universe of values
          Batches,   \* batch identifiers
          MaxOps     \* bound on buffered operations per batch

VARIABLES store,     \* function: DOMAIN = keys present, store[k] = value
          batch      \* batch[b] = [open |-> BOOLEAN, ops |-> sequence of [del, k, v]]

vars == <<store, batch>>

KeyLess(a, b) == CmpLex(a, b) < 0

\* ---- observers (what Get / Has / NewIterator must return in a state) ----
GetOf(s, k) == IF k \in DOMAIN s THEN [found |-> TRUE, v |-> s[k]] ELSE [found |-> FALSE, v |-> <<>>]
HasOf(s, k) == k \in DOMAIN s
\* keys with the given prefix, at or after prefix \o start, ascending bytewise
IterKeys(s, prefix, start) ==
  SetToSortSeq({k \in DOMAIN s : IsPrefixOf(prefix, k) /\ CmpLex(k, prefix \o start) >= 0}, KeyLess)
IterVals(s, prefix, start) == LET ks == IterKeys(s, prefix, start) IN [i \in 1..Len(ks) |-> s[ks[i]]]

\* ---- state change helpers ----
PutIn(s, k, v) == [x \in DOMAIN s \cup {k} |-> IF x = k THEN v ELSE s[x]]
DelIn(s, k) == [x \in DOMAIN s \ {k} |-> s[x]]
ApplyOp(s, op) == IF op.del THEN DelIn(s, op.k) ELSE PutIn(s, op.k, op.v)
RECURSIVE ApplyOps(_, _)
ApplyOps(s, ops) == IF ops = <<>> THEN s ELSE ApplyOps(ApplyOp(s, Head(ops)), Tail(ops))

\* ---- actions ----
Put(k, v) == store' = PutIn(store, k, v) /\ UNCHANGED batch
Delete(k) == store' = DelIn(store, k) /\ UNCHANGED batch
BatchNew(b) == ~batch[b].open /\ batch' = [batch EXCEPT ![b] = [open |-> TRUE, ops |-> <<>>]] /\ UNCHANGED store
BatchPut(b, k, v) == /\ batch[b].open
                     /\ batch' = [batch EXCEPT ![b].ops = Append(@, [del |-> FALSE, k |-> k, v |-> v])]
                     /\ UNCHANGED store
BatchDelete(b, k) == /\ batch[b].open
                     /\ batch' = [batch EXCEPT ![b].ops = Append(@, [del |-> TRUE, k |-> k, v |-> <<>>])]
                     /\ UNCHANGED store
Commit(b) == /\ batch[b].open
             /\ store' = ApplyOps(store, batch[b].ops)
             /\ batch' = [batch EXCEPT ![b] = [open |-> FALSE, ops |-> <<>>]]
Discard(b) == /\ batch[b].open
              /\ batch' = [batch EXCEPT ![b] = [open |-> FALSE, ops |-> <<>>]]
              /\ UNCHANGED store

Init == store = <<>> /\ batch = [b \in Batches |-> [open |-> FALSE, ops |-> <<>>]]

Next == \/ \E k \in Keys, v \in Vals : Put(k, v)
        \/ \E k \in Keys : Delete(k)
        \/ \E b \in Batches : BatchNew(b) \/ Commit(b) \/ Discard(b)
        \/ \E b \in Batches, k \in Keys, v \in Vals : Len(batch[b].ops) < MaxOps /\ BatchPut(b, k, v)
        \/ \E b \in Batches, k \in Keys : Len(batch[b].ops) < MaxOps /\ BatchDelete(b, k)

Spec == Init /\ [][Next]_vars

\* ---- properties of the design (checked by TLC in MC_KVStore) ----
TypeOK == /\ DOMAIN store \subseteq Keys
          /\ \A k \in DOMAIN store : store[k] \in Vals

\* iteration is sorted, duplicate-free, complete and exclusive for every (prefix, start)
PfxSet == {Take(k, n) : k \in Keys, n \in 0..2} 
IterSound ==
  \A p \in PfxSet, st \in PfxSet :
    LET ks == IterKeys(store, p, st) IN
    /\ \A i \in 1..(Len(ks) - 1) : KeyLess(ks[i], ks[i + 1])
    /\ \A k \in DOMAIN store : (IsPrefixOf(p, k) /\ CmpLex(k, p \o st) >= 0) <=> (\E i \in 1..Len(ks) : ks[i] = k)

\* a batch is invisible until Commit: only Put, Delete and Commit change the store
BatchInvisible == [][store' # store => \/ \E k \in Keys, v \in Vals : Put(k, v)
                                       \/ \E k \in Keys : Delete(k)
                                       \/ \E b \in Batches : Commit(b)]_vars
\* Commit is all-or-nothing: the store after Commit is the store with every buffered op applied in order
CommitAtomic == [][\A b \in Batches : (batch[b].open /\ ~batch'[b].open /\ store' # store)
                                       => store' = ApplyOps(store, batch[b].ops)]_vars
=============================================================================

---------------------------- MODULE KVStore_Gen ----------------------------
(* G-step for C27: state-directed transition cases.  Every state of MC_KVStore is   *)
(* constructible (store: any partial map Keys -> Vals; batch: closed, or open with  *)
(* <= MaxOps buffered operations), so every transition (s, a, s') can be replayed   *)
(* by loading s, applying a and observing.  Cases are scripts of events for the     *)
(* driver; the driver fills in results; KVStore_Trace judges them.                  *)
EXTENDS KVStore, Json
CONSTANTS OutFile, Universe, Tier, Seed
VARIABLE x

K_prefix == {<<>>, <<97>>, <<97, 98>>, <<97, 99>>, <<98>>}
K_glob   == {<<42>>, <<97, 42>>, <<97, 63>>, <<91, 97, 93>>, <<97>>}
K_edge   == {<<255>>, <<97, 0>>, <<97, 255>>, <<98>>, <<97>>}
V2 == {<<>>, <<1>>}
BatchesG == {1}
MaxOpsG == 2
KeysU == IF Universe = "prefix" THEN K_prefix ELSE IF Universe = "glob" THEN K_glob ELSE K_edge

Stores == UNION {[S -> V2] : S \in SUBSET KeysU}
Ops == {[del |-> TRUE, k |-> k, v |-> <<>>] : k \in KeysU} \cup {[del |-> FALSE, k |-> k, v |-> v] : k \in KeysU, v \in V2}
OpSeqs == {<<>>} \cup {<<a>> : a \in Ops} \cup {<<a, b>> : a \in Ops, b \in Ops}
Pfx == {Take(k, n) : k \in KeysU, n \in 0..2}

Load(s) == LET ks == SetToSeq(DOMAIN s) IN [i \in 1..Len(ks) |-> [ev |-> "Put", k |-> ks[i], v |-> s[ks[i]]]]
Buffer(ops) == <<[ev |-> "BNew", b |-> 1]>> \o
               [i \in 1..Len(ops) |-> IF ops[i].del THEN [ev |-> "BDel", b |-> 1, k |-> ops[i].k]
                                      ELSE [ev |-> "BPut", b |-> 1, k |-> ops[i].k, v |-> ops[i].v]]
Dump == <<[ev |-> "Iter", p |-> <<>>, s |-> <<>>]>>
Probe == LET ks == SetToSeq(KeysU) IN [i \in 1..Len(ks) |-> [ev |-> (IF i % 2 = 0 THEN "Get" ELSE "Has"), k |-> ks[i]]]
ProbeAll == LET ks == SetToSeq(KeysU) IN [i \in 1..Len(ks) |-> [ev |-> "Get", k |-> ks[i]]]

\* family 1: direct writes in every store state (batch closed)
Direct == {Load(s) \o <<a>> \o Dump \o ProbeAll :
             s \in Stores,
             a \in {[ev |-> "Put", k |-> k, v |-> v] : k \in KeysU, v \in V2} \cup {[ev |-> "Delete", k |-> k] : k \in KeysU}}
\* family 2: commit / discard of every buffered sequence in every store state; the buffered
\* operations must be invisible before (Dump) and applied atomically / not at all after
BatchEndOf(SS, OO) == {Load(s) \o Buffer(ops) \o Dump \o <<[ev |-> e, b |-> 1]>> \o Dump \o Probe :
             s \in SS, ops \in OO, e \in {"Commit", "Discard"}}
BatchEnd == BatchEndOf(Stores, OpSeqs)
\* family 3: every (prefix, start) iteration in every store state
Iters == {Load(s) \o <<[ev |-> "Iter", p |-> p, s |-> st]>> : s \in Stores, p \in Pfx, st \in Pfx}

All == Direct \cup Iters \cup BatchEnd
\* quick tier: a deterministic 1-in-N sample of the large family, chosen by Seed
Pick(S, n) == LET q == SetToSeq(S) IN {q[i] : i \in {j \in 1..Len(q) : (j + Seed) % n = 0}}
Cases == IF Tier = "thorough" THEN All
         ELSE Pick(Direct, 3) \cup Pick(Iters, 6) \cup BatchEndOf(Pick(Stores, 8), Pick(OpSeqs, 6))

ASSUME ndJsonSerialize(OutFile, SetToSeq({[script |-> c] : c \in Cases}))
ASSUME PrintT(<<"GEN", Cardinality(Cases)>>)

GenInit == x = 0
GenNext == FALSE /\ x' = x
=============================================================================

-------------------------------- MODULE Grid --------------------------------
(* C29 — validator grid neighbours and preferred initiator (JAMNP-S "Required    *)
(* connectivity" / "Grid structure").                                             *)
(*                                                                                *)
(*   W = floor(sqrt(V)); validators 0..V-1 are laid out row-major in rows of W.   *)
(*   In one epoch a and b are neighbours iff a # b and they share a row or a      *)
(*   column.  Across epochs (previous / current / next) the validators holding    *)
(*   the same index are neighbours.                                               *)
(*   P(a, b) = a when (a[31] > 127) XOR (b[31] > 127) XOR (a < b), else b         *)
(*   (keys compared as byte strings, first byte most significant).                *)
(*                                                                                *)
(* Two independent formulations of the in-epoch relation are given (arithmetic    *)
(* N and the explicit row-major layout GridNbrs); MC shows they coincide and that *)
(* the relation is symmetric and irreflexive, and that P(a,b) = P(b,a) \in {a,b}.  *)
(* The module also has a small state machine (epoch rotation of three validator  *)
(* sets) over which the position-level relation is checked.                       *)
(*                                                                                *)
(* Permissive clauses (statement does not settle them):                           *)
(*  - width for V <= 0 is not constrained (the relation is empty anyway);         *)
(*  - whether a validator's OWN key counts as its neighbour when it also holds    *)
(*    the same index in the previous / next epoch (key-level queries about the    *)
(*    self key are not judged);                                                   *)
(*  - order and multiplicity of returned neighbour lists (compared as sets).      *)
EXTENDS GridDefs

\* ---------------------------------------------------------------- model for MC
CONSTANTS MaxV,          \* validator counts 0..MaxV
          MaxE,          \* epoch set sizes 0..MaxE in the rotation model
          KeyBytes,      \* byte values used in model keys
          KeyLen         \* model key length (the formula only looks at the last byte and the order)
VARIABLES v, ka, kb, ep   \* count under inspection; a key pair; epoch sizes <<prev, cur, next>>

Keys == [1..KeyLen -> KeyBytes]
K0 == [i \in 1..KeyLen |-> CHOOSE x \in KeyBytes : \A y \in KeyBytes : x <= y]
Init == v = 0 /\ ka = K0 /\ kb = K0 /\ ep = <<0, 0, 0>>
\* three independent walks from the initial state: over counts, over key pairs, over epoch rotations
NextV   == v < MaxV /\ ka = K0 /\ kb = K0 /\ ep = <<0, 0, 0>> /\ v' = v + 1 /\ UNCHANGED <<ka, kb, ep>>
NextKey == v = 0 /\ ep = <<0, 0, 0>> /\ ka = K0 /\ kb = K0 /\ ka' \in Keys /\ kb' \in Keys /\ UNCHANGED <<v, ep>>
Rotate  == v = 0 /\ ka = K0 /\ kb = K0 /\ \E n \in 0..MaxE : ep' = <<ep[2], ep[3], n>> /\ UNCHANGED <<v, ka, kb>>
Next == NextV \/ NextKey \/ Rotate
Spec == Init /\ [][Next]_<<v, ka, kb, ep>>

Idx == -1..(MaxV + 1)
\* each invariant is evaluated on the walk it speaks about (the other walks keep v = 0 / the base keys)
GridWalk == ka = K0 /\ kb = K0 /\ ep = <<0, 0, 0>>
PosWalk  == v = 0 /\ ka = K0 /\ kb = K0
InvWidth     == GridWalk => LET w == Width(v) IN w * w <= v /\ (w + 1) * (w + 1) > v
InvIrrefl    == GridWalk => \A a \in Idx : ~N(v, a, a)
InvSym       == GridWalk => \A a, b \in Idx : N(v, a, b) <=> N(v, b, a)
InvInSet     == GridWalk => \A a, b \in Idx : N(v, a, b) => InSet(v, a) /\ InSet(v, b)
InvExact     == GridWalk => \A a \in Idx : Nbrs(v, a) = GridNbrs(v, a)
\* every validator has all of its row and column: degree = |row| + |column| - 2
InvDegree    == GridWalk => \A a \in 0..(v - 1) :
                  LET W == Width(v)
                      rowlen == Min2(W, v - (a \div W) * W)
                      collen == Cardinality({b \in 0..(v - 1) : b % W = a % W})
                  IN Cardinality(Nbrs(v, a)) = rowlen + collen - 2
InvPSym      == P(ka, kb) = P(kb, ka)
InvPMember   == P(ka, kb) \in {ka, kb}
SizeOf(e) == ep[e + 2]
Positions == {<<e, i>> : e \in {-1, 0, 1}, i \in -1..(MaxE + 1)}
InvPosSym    == PosWalk => \A p, q \in Positions : PosRel(SizeOf, p, q) <=> PosRel(SizeOf, q, p)
InvPosIrrefl == PosWalk => \A p \in Positions : ~PosRel(SizeOf, p, p)
=============================================================================

------------------------------ MODULE GridDefs ------------------------------
(* Pure definitions of C29 (see Grid.tla for the commentary): width, in-epoch      *)
(* neighbour relation in two formulations, cross-epoch relation, key-level view,   *)
(* preferred initiator.  Shared by Grid (MC), Grid_Gen and Grid_Trace.             *)
EXTENDS Bytes

\* ---------------------------------------------------------------- width
RECURSIVE Bs(_, _, _)
Bs(n, lo, hi) == IF lo >= hi THEN lo
                 ELSE LET mid == (lo + hi + 1) \div 2
                      IN IF mid * mid <= n THEN Bs(n, mid, hi) ELSE Bs(n, lo, mid - 1)
\* floor(sqrt(n)) for 0 <= n <= 2^30 (products stay below 2^31)
ISqrt(n) == Bs(n, 0, Min2(n, 32768))
Width(V) == ISqrt(V)

\* ---------------------------------------------------------------- in-epoch relation (0-based indices)
InSet(V, a) == a >= 0 /\ a < V
NW(V, W, a, b) == /\ InSet(V, a) /\ InSet(V, b) /\ a # b
                  /\ (a \div W = b \div W \/ a % W = b % W)
N(V, a, b) == V > 0 /\ NW(V, Width(V), a, b)
Nbrs(V, a) == IF V <= 0 \/ ~InSet(V, a) THEN {}
              ELSE LET W == Width(V) IN {b \in 0..(V - 1) : NW(V, W, a, b)}

\* explicit layout: the grid as a sequence of rows, each a sequence of indices
Rows(V) == LET W == Width(V) IN
           [r \in 1..((V + W - 1) \div W) |-> [c \in 1..Min2(W, V - (r - 1) * W) |-> (r - 1) * W + c - 1]]
GridNbrs(V, a) ==
  IF V <= 0 \/ ~InSet(V, a) THEN {}
  ELSE LET g == Rows(V)
           pos == CHOOSE rc \in {<<r, c>> \in (DOMAIN g) \X (1..Width(V)) : c <= Len(g[r]) /\ g[r][c] = a} : TRUE
           row == {g[pos[1]][c] : c \in DOMAIN g[pos[1]]}
           col == {g[r][pos[2]] : r \in {r \in DOMAIN g : pos[2] <= Len(g[r])}}
       IN (row \cup col) \ {a}

\* ---------------------------------------------------------------- three epochs
\* position = <<epoch, index>> with epoch -1 (previous), 0 (current), 1 (next); sizes[e] validators
PosRel(sizeOf(_), p, q) ==
  \/ p[1] = q[1] /\ N(sizeOf(p[1]), p[2], q[2])
  \/ /\ p[1] # q[1] /\ (p[1] - q[1] \in {-1, 1}) /\ p[2] = q[2]
     /\ InSet(sizeOf(p[1]), p[2]) /\ InSet(sizeOf(q[1]), q[2])

\* key-level view from the validator at index s of the current set (sequences are 1-based):
\* the keys of every validator related to position <<0, s>>
NbrKeys(cur, prev, next, s) ==
  {cur[j + 1] : j \in Nbrs(Len(cur), s)}
  \cup (IF s >= 0 /\ s < Len(prev) THEN {prev[s + 1]} ELSE {})
  \cup (IF s >= 0 /\ s < Len(next) THEN {next[s + 1]} ELSE {})

\* ---------------------------------------------------------------- preferred initiator
Xor(p, q) == p # q
High(k) == k[Len(k)] > 127
P(a, b) == IF Xor(Xor(High(a), High(b)), CmpLex(a, b) = -1) THEN a ELSE b

=============================================================================

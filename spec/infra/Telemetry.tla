------------------------------ MODULE Telemetry ------------------------------
(* C28 - the JIP-3 telemetry client of internal/telemetry (tcp.go, writer.go,      *)
(* sequencer.go, dropranges.go): concurrent emitters, one connection-management    *)
(* goroutine that also runs the writer loop, a closer, and a faulty network.       *)
(*                                                                                 *)
(* One action per critical section / atomic operation of the code:                 *)
(*   emitters   CallBegin, EmitStaticReject, EmitPrecheckPass, EmitPrecheckReject, *)
(*              EmitAcquire (Lock + first half of the re-check), EmitRecheckPass,   *)
(*              EmitLockedReject, EmitBody (validateParentLocked + nextID +         *)
(*              try-send | drops.record + Unlock)                                   *)
(*   writer     WriterFlush (peekFirst+popFirst under the lock), WriterWriteDropped,*)
(*              WriterWriteEvent, WriterPanic (lazy builder), WriterPeek (+ the     *)
(*              alignment-lost exit), WriterDequeue, WriterSeeClose, WriterTick,    *)
(*              WriterPeerClosed, WriterClosingDequeue, WriterClosingEmpty,         *)
(*              WriterClosingPeek, WriterWriteFail                                  *)
(*   connection ConnTop, DialOk, DialFail, WriteNodeInfoOk, WriteNodeInfoFail,      *)
(*              ConnEnable, ConnDisable, ConnCloseConn, ConnPostCheck, BumpEpoch,   *)
(*              ConnDegrade, ResetAndDrain, SleepDone, SleepClosed                  *)
(*   closer     CloseSetClosed, CloseSetDisabled, CloseSignal, CloseReturn          *)
(*   network    PeerClose                                                           *)
(*                                                                                 *)
(* Lock-free atomics (closedFlag, degradedFlag, enabledFlag, closeCh) are kept as   *)
(* the SET of values the variable may currently have.  In the model check every     *)
(* store is one atomic action and the sets are singletons (exact).  The trace       *)
(* specification widens a set while a store is known only to lie inside an interval *)
(* (DESIGN.md 4.1) - the same action definitions serve both.                        *)
(* Enabled() reads closed, degraded, enabled one after the other; closed/degraded   *)
(* only ever go FALSE->TRUE, so "closed and degraded read together, enabled read    *)
(* later" reproduces every outcome of the three separate reads (notes, section 2).  *)
(*                                                                                 *)
(* Deliberate over-approximations (model allows more than the code; never less):    *)
(*  - the pre-check passes on enabled alone (closed/degraded are re-read under the  *)
(*    lock anyway);                                                                 *)
(*  - Lock() and the closed/degraded half of the re-check are one action;           *)
(*  - every write or dial may fail (fault budget only in the MC configuration).     *)
EXTENDS Integers, Sequences, FiniteSets, TLC

CONSTANTS BufSize,      \* capacity of the envelope channel
          MaxEpoch      \* 65535 in the code: bumpEpoch refuses to go past it

VARIABLES
  epoch, seqc,          \* sequencer.currentEpoch / seqCounter            (lock)
  drops,                \* dropState.ranges: Seq([first, count])          (lock)
  queue,                \* channel contents: Seq([k, ep, sq])
  lock,                 \* 0 (free) or the call key (a positive integer) of the emitter holding the sequencer mutex
  closed, degraded, enabled, closeCh,   \* sets of possible values (subsets of BOOLEAN)
  call,                 \* call key -> [kind, par, boom, pc, id]
  cpc,                  \* connection goroutine program counter
  wpc, exp, pend, closing, wd,   \* writer-local: pc, expectedWireID, pending, closing, claimed range
  conn, connEp, peerGone,        \* index of the current connection, its epoch, reader saw an error
  kpc,                  \* closer program counter
  rN, wst,              \* the receiver: next implicit event number; stream state of the current conn
  bad,                  \* set of names of broken requirements (must stay empty)
  wire                  \* history: per connection the sequence of frames that reached the receiver

vars == <<epoch, seqc, drops, queue, lock, closed, degraded, enabled, closeCh, call, cpc,
          wpc, exp, pend, closing, wd, conn, connEp, peerGone, kpc, rN, wst, bad, wire>>

Invalid == [ep |-> 0, sq |-> 0 - 1]
None    == [k |-> 0, ep |-> 0, sq |-> 0 - 1]
NoRange == [first |-> 0 - 1, count |-> 0]

Last(s) == s[Len(s)]

\* dropState.record
RecordPanics(d, sq) == d # <<>> /\ sq < Last(d).first + Last(d).count
Record(d, sq) ==
  IF d # <<>> /\ sq = Last(d).first + Last(d).count
  THEN [d EXCEPT ![Len(d)].count = @ + 1]
  ELSE Append(d, [first |-> sq, count |-> 1])

HeadReady(d, e) == d # <<>> /\ d[1].first = e

Held == lock # 0

SetCall(k, f, v) == call' = [call EXCEPT ![k][f] = v]

-----------------------------------------------------------------------------
(* Emitters.  d = [kind |-> "emit"|"fup", par |-> id, boom |-> BOOLEAN, static |-> BOOLEAN]  *)
(* static: the call returns InvalidID before touching shared state (nil builder).            *)

CallBegin(k, d) ==
  /\ k \notin DOMAIN call
  /\ call' = (k :> [kind |-> d.kind, par |-> d.par, boom |-> d.boom, static |-> d.static,
                    pc |-> "pre", id |-> Invalid]) @@ call
  /\ UNCHANGED <<epoch, seqc, drops, queue, lock, closed, degraded, enabled, closeCh, cpc,
                 wpc, exp, pend, closing, wd, conn, connEp, peerGone, kpc, rN, wst, bad, wire>>

EmitUnch == UNCHANGED <<epoch, seqc, drops, queue, closed, degraded, enabled, closeCh, cpc,
                        wpc, exp, pend, closing, wd, conn, connEp, peerGone, kpc, rN, wst, bad, wire>>

StaticallyRejected(c) == c.static \/ (c.kind = "fup" /\ c.par = Invalid)

\* parentID == InvalidID, or builder == nil
EmitStaticReject(k) ==
  /\ call[k].pc = "pre" /\ StaticallyRejected(call[k])
  /\ call' = [call EXCEPT ![k].pc = "done"]
  /\ UNCHANGED lock /\ EmitUnch

CanRejectNow == TRUE \in closed \/ TRUE \in degraded \/ FALSE \in enabled

\* outer `if !c.Enabled() { return InvalidID }`
EmitPrecheckReject(k) ==
  /\ call[k].pc = "pre" /\ ~StaticallyRejected(call[k]) /\ CanRejectNow
  /\ call' = [call EXCEPT ![k].pc = "done"]
  /\ UNCHANGED lock /\ EmitUnch

EmitPrecheckPass(k) ==
  /\ call[k].pc = "pre" /\ ~StaticallyRejected(call[k]) /\ TRUE \in enabled
  /\ call' = [call EXCEPT ![k].pc = "want"]
  /\ UNCHANGED lock /\ EmitUnch

\* c.seq.Lock(); re-check, first half (closedFlag, degradedFlag)
EmitAcquire(k) ==
  /\ call[k].pc = "want" /\ ~Held
  /\ FALSE \in closed /\ FALSE \in degraded
  /\ lock' = k
  /\ call' = [call EXCEPT ![k].pc = "l1"]
  /\ EmitUnch

\* Lock(); re-check fails on closed/degraded; Unlock()
EmitLockedRejectA(k) ==
  /\ call[k].pc = "want" /\ ~Held
  /\ (TRUE \in closed \/ TRUE \in degraded)
  /\ call' = [call EXCEPT ![k].pc = "done"]
  /\ UNCHANGED lock /\ EmitUnch

\* re-check, second half (enabledFlag), still holding the lock
EmitRecheckPass(k) ==
  /\ call[k].pc = "l1" /\ lock = k /\ TRUE \in enabled
  /\ call' = [call EXCEPT ![k].pc = "l2"]
  /\ UNCHANGED lock /\ EmitUnch

EmitLockedRejectB(k) ==
  /\ call[k].pc = "l1" /\ lock = k /\ FALSE \in enabled
  /\ call' = [call EXCEPT ![k].pc = "done"]
  /\ lock' = 0 /\ EmitUnch

\* validateParentLocked; nextID; try-send or drops.record; Unlock.  out \in {"q","d","stale"}
\* EmitEffect is the state change alone (the trace specification composes it with its own guard and
\* passes the channel capacity of the recorded run).
EmitEffect(k, out, capacity) ==
  /\ lock' = 0
  /\ IF call[k].kind = "fup" /\ call[k].par.ep # epoch
     THEN /\ out = "stale"
          /\ call' = [call EXCEPT ![k].pc = "done"]
          /\ UNCHANGED <<seqc, queue, drops, bad>>
     ELSE /\ seqc' = seqc + 1
          /\ call' = [call EXCEPT ![k].pc = "done", ![k].id = [ep |-> epoch, sq |-> seqc]]
          /\ IF Len(queue) < capacity
             THEN /\ out = "q"
                  /\ queue' = Append(queue, [k |-> k, ep |-> epoch, sq |-> seqc])
                  /\ UNCHANGED <<drops, bad>>
             ELSE /\ out = "d"
                  /\ drops' = Record(drops, seqc)
                  /\ bad' = IF RecordPanics(drops, seqc) THEN bad \cup {"RecordPanic"} ELSE bad
                  /\ UNCHANGED queue
  /\ UNCHANGED <<epoch, closed, degraded, enabled, closeCh, cpc, wpc, exp, pend, closing, wd,
                 conn, connEp, peerGone, kpc, rN, wst, wire>>

EmitBodyOut(k, out) == call[k].pc = "l2" /\ lock = k /\ EmitEffect(k, out, BufSize)

EmitBody(k) == \E out \in {"q", "d", "stale"} : EmitBodyOut(k, out)

EmitStep(k) ==
  \/ EmitStaticReject(k) \/ EmitPrecheckReject(k) \/ EmitPrecheckPass(k) \/ EmitAcquire(k)
  \/ EmitLockedRejectA(k) \/ EmitRecheckPass(k) \/ EmitLockedRejectB(k) \/ EmitBody(k)

-----------------------------------------------------------------------------
(* The receiver (JamTART): numbers events from 0 per connection, a Dropped record advances  *)
(* the number by its count.  wst: "none" no connection, "fresh" nothing received yet,       *)
(* "open" NodeInfo received, "broken" a truncated frame was the last thing received.        *)

Frame(t, k, n) == [t |-> t, k |-> k, n |-> n]
Deliver(f) == wire' = [wire EXCEPT ![conn] = Append(@, f)]

-----------------------------------------------------------------------------
(* Writer loop (runs on the connection goroutine while cpc = "run").                        *)

WriterUnch == UNCHANGED <<epoch, seqc, lock, closed, enabled, closeCh, call, cpc, conn, connEp,
                          peerGone, kpc>>

\* flushReadyDrops: one lock section; pops the head range when it lines up
WriterFlush ==
  /\ cpc = "run" /\ wpc = "flush" /\ ~Held
  /\ IF HeadReady(drops, exp)
     THEN /\ wd' = drops[1] /\ drops' = Tail(drops) /\ wpc' = "wdrop"
     ELSE /\ wpc' = "body" /\ UNCHANGED <<wd, drops>>
  /\ UNCHANGED <<queue, degraded, exp, pend, closing, rN, wst, bad, wire>> /\ WriterUnch

\* writeDropped succeeded: the receiver advances by the count on the wire
WriterWriteDropped ==
  /\ cpc = "run" /\ wpc = "wdrop"
  /\ Deliver(Frame("drop", 0, wd.count))
  /\ rN' = rN + wd.count
  /\ bad' = IF wst # "open" THEN bad \cup {"StreamWellFormed"} ELSE bad
  /\ exp' = exp + wd.count
  /\ wd' = NoRange /\ wpc' = "flush"
  /\ UNCHANGED <<queue, drops, degraded, pend, closing, wst>> /\ WriterUnch

PendReady == pend # None /\ pend.sq = exp

\* writeEvent succeeded: the receiver gives the frame its next number
WriterWriteEvent ==
  /\ cpc = "run" /\ wpc = "body" /\ PendReady /\ ~call[pend.k].boom
  /\ Deliver(Frame("ev", pend.k, 1))
  /\ rN' = rN + 1
  /\ bad' = bad \cup (IF wst # "open" THEN {"StreamWellFormed"} ELSE {})
                \cup (IF pend.sq # rN \/ pend.ep # connEp THEN {"ReceiverAlignment"} ELSE {})
  /\ exp' = exp + 1 /\ pend' = None /\ wpc' = "flush"
  /\ UNCHANGED <<queue, drops, degraded, closing, wd, wst>> /\ WriterUnch

\* the lazy builder panics inside writeEvent: recover() marks the client degraded
WriterPanic ==
  /\ cpc = "run" /\ wpc = "body" /\ PendReady /\ call[pend.k].boom
  /\ degraded' = {TRUE}
  /\ wpc' = "exit"
  /\ UNCHANGED <<queue, drops, exp, pend, closing, wd, rN, wst, bad, wire>> /\ WriterUnch

\* a write fails (possibly after part of the frame went out): frame = FALSE nothing reached the peer
WriterWriteFail(partial) ==
  /\ cpc = "run"
  /\ \/ wpc = "wdrop"
     \/ wpc = "body" /\ PendReady /\ ~call[pend.k].boom
  /\ IF partial THEN Deliver(Frame("part", 0, 0)) /\ wst' = "broken"
                ELSE UNCHANGED <<wire, wst>>
  /\ bad' = IF partial /\ wst # "open" THEN bad \cup {"StreamWellFormed"} ELSE bad
  /\ wpc' = "exit"
  /\ UNCHANGED <<queue, drops, degraded, exp, pend, closing, wd, rN>> /\ WriterUnch

\* step 3: pending is ahead of expectedWireID; peek under the lock; no matching range = bail out
WriterPeek ==
  /\ cpc = "run" /\ wpc = "body" /\ pend # None /\ pend.sq # exp /\ ~Held
  /\ IF HeadReady(drops, exp)
     THEN wpc' = "flush" /\ UNCHANGED bad
     ELSE wpc' = "exit" /\ bad' = bad \cup {"AlignmentLost"}
  /\ UNCHANGED <<queue, drops, degraded, exp, pend, closing, wd, rN, wst, wire>> /\ WriterUnch

AtSelect == cpc = "run" /\ wpc = "body" /\ pend = None

WriterIdleUnch == UNCHANGED <<drops, degraded, exp, wd, rN, wst, bad, wire>>

WriterSeeClose ==
  /\ AtSelect /\ ~closing /\ TRUE \in closeCh
  /\ closing' = TRUE /\ wpc' = "flush"
  /\ UNCHANGED <<queue, pend>> /\ WriterIdleUnch /\ WriterUnch

WriterPeerClosed ==
  /\ AtSelect /\ ~closing /\ peerGone
  /\ wpc' = "exit"
  /\ UNCHANGED <<queue, pend, closing>> /\ WriterIdleUnch /\ WriterUnch

WriterDequeue ==
  /\ AtSelect /\ ~closing /\ queue # <<>>
  /\ pend' = Head(queue) /\ queue' = Tail(queue) /\ wpc' = "flush"
  /\ UNCHANGED closing /\ WriterIdleUnch /\ WriterUnch

WriterTick ==
  /\ AtSelect /\ ~closing
  /\ wpc' = "flush"
  /\ UNCHANGED <<queue, pend, closing>> /\ WriterIdleUnch /\ WriterUnch

WriterClosingDequeue ==
  /\ AtSelect /\ closing /\ queue # <<>>
  /\ pend' = Head(queue) /\ queue' = Tail(queue) /\ wpc' = "flush"
  /\ UNCHANGED closing /\ WriterIdleUnch /\ WriterUnch

\* the select's default branch was taken: the channel was empty at that instant
WriterClosingEmpty ==
  /\ AtSelect /\ closing /\ queue = <<>>
  /\ wpc' = "cpeek"
  /\ UNCHANGED <<queue, pend, closing>> /\ WriterIdleUnch /\ WriterUnch

\* lock; peekFirst; unlock: tail drops left -> loop, else clean exit
WriterClosingPeek ==
  /\ cpc = "run" /\ wpc = "cpeek" /\ ~Held
  /\ wpc' = IF drops # <<>> THEN "flush" ELSE "exit"
  /\ UNCHANGED <<queue, pend, closing>> /\ WriterIdleUnch /\ WriterUnch

WriterStep ==
  \/ WriterFlush \/ WriterWriteDropped \/ WriterWriteEvent \/ WriterPanic \/ WriterPeek
  \/ WriterSeeClose \/ WriterPeerClosed \/ WriterDequeue \/ WriterTick
  \/ WriterClosingDequeue \/ WriterClosingEmpty \/ WriterClosingPeek

-----------------------------------------------------------------------------
(* Connection goroutine outside the writer loop.                                            *)

ConnUnch == UNCHANGED <<seqc, lock, closed, closeCh, call, wpc, exp, pend, closing, wd, kpc>>

\* loop top: `if closedFlag … return; if degradedFlag … return`
ConnTop ==
  /\ cpc = "top"
  /\ \/ (TRUE \in closed \/ TRUE \in degraded) /\ cpc' = "done"
     \/ FALSE \in closed /\ FALSE \in degraded /\ cpc' = "dial"
  /\ UNCHANGED <<epoch, drops, queue, degraded, enabled, conn, connEp, peerGone, rN, wst, bad, wire>>
  /\ ConnUnch

DialOk ==
  /\ cpc = "dial"
  /\ conn' = conn + 1 /\ connEp' = epoch /\ peerGone' = FALSE
  /\ wire' = Append(wire, <<>>) /\ wst' = "fresh" /\ rN' = 0
  /\ cpc' = "ni"
  /\ UNCHANGED <<epoch, drops, queue, degraded, enabled, bad>> /\ ConnUnch

DialFail ==
  /\ cpc = "dial"
  /\ cpc' = "sleep"
  /\ UNCHANGED <<epoch, drops, queue, degraded, enabled, conn, connEp, peerGone, rN, wst, bad, wire>>
  /\ ConnUnch

WriteNodeInfoOk ==
  /\ cpc = "ni"
  /\ Deliver(Frame("ni", 0, 0)) /\ wst' = "open"
  /\ bad' = IF wst # "fresh" THEN bad \cup {"StreamWellFormed"} ELSE bad
  /\ cpc' = "enable"
  /\ UNCHANGED <<epoch, drops, queue, degraded, enabled, conn, connEp, peerGone, rN>> /\ ConnUnch

WriteNodeInfoFail(partial) ==
  /\ cpc = "ni"
  /\ IF partial THEN Deliver(Frame("part", 0, 0)) /\ wst' = "broken"
                ELSE UNCHANGED <<wire, wst>>
  /\ cpc' = "niclose"
  /\ UNCHANGED <<epoch, drops, queue, degraded, enabled, conn, connEp, peerGone, rN, bad>> /\ ConnUnch

\* enabledFlag.Store(true); start of writeLoop (expectedWireID = 0, pending = nil)
ConnEnableTo(vals) ==
  /\ cpc = "enable"
  /\ enabled' = vals
  /\ cpc' = "run"
  /\ UNCHANGED <<epoch, drops, queue, degraded, conn, connEp, peerGone, rN, wst, bad, wire>>
  /\ UNCHANGED <<seqc, lock, closed, closeCh, call, kpc>>
  /\ wpc' = "flush" /\ exp' = 0 /\ pend' = None /\ closing' = FALSE /\ wd' = NoRange
ConnEnable == ConnEnableTo({TRUE})

\* writeLoop returned: enabledFlag.Store(false)
ConnDisable ==
  /\ cpc = "run" /\ wpc = "exit"
  /\ enabled' = {FALSE}
  /\ cpc' = "cclose"
  /\ UNCHANGED <<epoch, drops, queue, degraded, conn, connEp, peerGone, rN, wst, bad, wire>> /\ ConnUnch

\* conn.Close() after the writer returned ("cclose") or after a failed NodeInfo write ("niclose")
ConnCloseConn ==
  /\ cpc \in {"cclose", "niclose"}
  /\ cpc' = (IF cpc = "cclose" THEN "post" ELSE "sleep") /\ wst' = "none"
  /\ UNCHANGED <<epoch, drops, queue, degraded, enabled, conn, connEp, peerGone, rN, bad, wire>> /\ ConnUnch

\* `if closedFlag … return; if degradedFlag … return` after the writer
ConnPostCheck ==
  /\ cpc = "post"
  /\ \/ (TRUE \in closed \/ TRUE \in degraded) /\ cpc' = "done"
     \/ FALSE \in closed /\ FALSE \in degraded /\ cpc' = "bump"
  /\ UNCHANGED <<epoch, drops, queue, degraded, enabled, conn, connEp, peerGone, rN, wst, bad, wire>>
  /\ ConnUnch

\* sequencer.bumpEpoch (own lock section)
BumpEpoch ==
  /\ cpc = "bump" /\ ~Held
  /\ IF epoch = MaxEpoch
     THEN cpc' = "degrade" /\ UNCHANGED <<epoch, seqc>>
     ELSE cpc' = "reset" /\ epoch' = epoch + 1 /\ seqc' = 0
  /\ UNCHANGED <<drops, queue, degraded, enabled, conn, connEp, peerGone, rN, wst, bad, wire>>
  /\ UNCHANGED <<lock, closed, closeCh, call, wpc, exp, pend, closing, wd, kpc>>

ConnDegrade ==
  /\ cpc = "degrade"
  /\ degraded' = {TRUE} /\ cpc' = "done"
  /\ UNCHANGED <<epoch, drops, queue, enabled, conn, connEp, peerGone, rN, wst, bad, wire>> /\ ConnUnch

\* Lock; drops.reset(); drainQueueLocked(); Unlock
ResetAndDrain ==
  /\ cpc = "reset" /\ ~Held
  /\ drops' = <<>> /\ queue' = <<>>
  /\ cpc' = "sleep"
  /\ UNCHANGED <<epoch, degraded, enabled, conn, connEp, peerGone, rN, wst, bad, wire>> /\ ConnUnch

SleepDone ==
  /\ cpc = "sleep" /\ cpc' = "top"
  /\ UNCHANGED <<epoch, drops, queue, degraded, enabled, conn, connEp, peerGone, rN, wst, bad, wire>>
  /\ ConnUnch

SleepClosed ==
  /\ cpc = "sleep" /\ TRUE \in closeCh /\ cpc' = "done"
  /\ UNCHANGED <<epoch, drops, queue, degraded, enabled, conn, connEp, peerGone, rN, wst, bad, wire>>
  /\ ConnUnch

\* the reader goroutine's Read returned an error (peer closed / conn force-closed)
PeerClose ==
  /\ cpc \in {"enable", "run"} /\ ~peerGone
  /\ peerGone' = TRUE
  /\ UNCHANGED <<epoch, drops, queue, degraded, enabled, conn, connEp, rN, wst, bad, wire, cpc>> /\ ConnUnch

ConnStep ==
  \/ ConnTop \/ DialOk \/ WriteNodeInfoOk \/ ConnEnable \/ ConnDisable \/ ConnCloseConn
  \/ ConnPostCheck \/ BumpEpoch \/ ConnDegrade \/ ResetAndDrain \/ SleepDone \/ SleepClosed

-----------------------------------------------------------------------------
(* Close(): closedFlag.Store(true); enabledFlag.Store(false); close(closeCh); wait.         *)

CloseUnch == UNCHANGED <<epoch, seqc, drops, queue, lock, degraded, call, cpc, wpc, exp, pend, closing,
                         wd, conn, connEp, peerGone, rN, wst, bad, wire>>

CloseSetClosed   == kpc = "idle" /\ closed' = {TRUE} /\ kpc' = "k1" /\ UNCHANGED <<enabled, closeCh>> /\ CloseUnch
CloseSetDisabled == kpc = "k1" /\ enabled' = {FALSE} /\ kpc' = "k2" /\ UNCHANGED <<closed, closeCh>> /\ CloseUnch
CloseSignal      == kpc = "k2" /\ closeCh' = {TRUE} /\ kpc' = "wait" /\ UNCHANGED <<closed, enabled>> /\ CloseUnch
CloseReturn      == kpc = "wait" /\ cpc = "done" /\ kpc' = "ret" /\ UNCHANGED <<closed, enabled, closeCh>> /\ CloseUnch

CloseStep == CloseSetClosed \/ CloseSetDisabled \/ CloseSignal \/ CloseReturn

-----------------------------------------------------------------------------
Init ==
  /\ epoch = 1 /\ seqc = 0 /\ drops = <<>> /\ queue = <<>> /\ lock = 0
  /\ closed = {FALSE} /\ degraded = {FALSE} /\ enabled = {FALSE} /\ closeCh = {FALSE}
  /\ call = <<>>
  /\ cpc = "top" /\ wpc = "exit" /\ exp = 0 /\ pend = None /\ closing = FALSE /\ wd = NoRange
  /\ conn = 0 /\ connEp = 0 /\ peerGone = FALSE /\ kpc = "idle"
  /\ rN = 0 /\ wst = "none" /\ bad = {} /\ wire = <<>>

-----------------------------------------------------------------------------
(* Properties.                                                                              *)

\* each connection's stream: NodeInfo first, whole frames, a truncated frame only at the very end
WellFormedStream(s) ==
  \/ s = <<>>
  \/ /\ s[1].t \in {"ni", "part"}
     /\ \A i \in 2..Len(s) : s[i].t \in {"ev", "drop", "part"}
     /\ \A i \in 1..(Len(s) - 1) : s[i].t # "part"
StreamWellFormed == "StreamWellFormed" \notin bad /\ \A c \in 1..Len(wire) : WellFormedStream(wire[c])

\* receiver's number of frame i of stream s
RECURSIVE NumBefore(_, _)
NumBefore(s, i) == IF i <= 1 THEN 0
                   ELSE NumBefore(s, i - 1) + (IF s[i - 1].t = "ev" THEN 1 ELSE IF s[i - 1].t = "drop" THEN s[i - 1].n ELSE 0)

ConnEpochOf(s) == LET evs == {i \in 1..Len(s) : s[i].t = "ev"} IN {call[s[i].k].id.ep : i \in evs}

ReceiverAlignment ==
  /\ "ReceiverAlignment" \notin bad
  /\ \A c \in 1..Len(wire) : \A i \in 1..Len(wire[c]) :
        wire[c][i].t = "ev" =>
          /\ call[wire[c][i].k].id # Invalid
          /\ call[wire[c][i].k].id.sq = NumBefore(wire[c], i)      \* exactly the ID its emitter received
  /\ \A c \in 1..Len(wire) : Cardinality(ConnEpochOf(wire[c])) <= 1   \* one epoch per connection
  /\ \A c1, c2 \in 1..Len(wire) : c1 < c2 =>
        \A e1 \in ConnEpochOf(wire[c1]), e2 \in ConnEpochOf(wire[c2]) : e1 < e2
  /\ \A c \in 1..Len(wire) : \A i, j \in 1..Len(wire[c]) :           \* no event delivered twice
        (i < j /\ wire[c][i].t = "ev" /\ wire[c][j].t = "ev") => wire[c][i].k # wire[c][j].k

FollowupSameConn ==
  \A k \in DOMAIN call : (call[k].kind = "fup" /\ call[k].id # Invalid) => call[k].par.ep = call[k].id.ep

\* An emitter is only ever held up by the sequencer mutex, and whoever holds that mutex can always
\* take its next step without any I/O, queue space, writer progress or connection: no action that
\* needs the lock waits on anything else, and every action of a lock holder is enabled.
EmitNeverWaits ==
  /\ \A k \in DOMAIN call :
       /\ call[k].pc = "pre" => StaticallyRejected(call[k]) \/ CanRejectNow \/ TRUE \in enabled
       /\ call[k].pc = "want" /\ ~Held =>
             (FALSE \in closed /\ FALSE \in degraded) \/ (TRUE \in closed \/ TRUE \in degraded)
       /\ call[k].pc = "l1" => lock = k /\ (TRUE \in enabled \/ FALSE \in enabled)
       /\ call[k].pc = "l2" => lock = k     \* EmitBody's only guard: one of its three outcomes always applies
  /\ Held => lock \in DOMAIN call /\ call[lock].pc \in {"l1", "l2"}
\* the same statement with TLC's ENABLED (slow; checked in the thorough tier on the smallest bound)
EmitNeverWaitsENABLED ==
  /\ \A k \in DOMAIN call :
       /\ call[k].pc = "want" /\ ~Held => ENABLED (EmitAcquire(k) \/ EmitLockedRejectA(k))
       /\ call[k].pc = "l1" => lock = k /\ ENABLED (EmitRecheckPass(k) \/ EmitLockedRejectB(k))
       /\ call[k].pc = "l2" => lock = k /\ ENABLED EmitBody(k)
       /\ call[k].pc = "pre" => ENABLED (EmitStaticReject(k) \/ EmitPrecheckReject(k) \/ EmitPrecheckPass(k))
  /\ Held => \E k \in DOMAIN call : lock = k /\ call[k].pc \in {"l1", "l2"}

\* ... in particular after Close(): once the client is closed and the connection goroutine (which runs
\* the writer) has exited, the mutex is free or held by an emitter inside its own lock section - an
\* emitter that passed its pre-check before Close and reaches Lock() afterwards is never stranded.
EmitNeverWaitsAfterClose ==
  (TRUE \in closed /\ cpc = "done") => (Held => lock \in DOMAIN call /\ call[lock].pc \in {"l1", "l2"})

AlignmentLostOnlyAfterFault == "AlignmentLost" \notin bad
NoRecordPanic == "RecordPanic" \notin bad

\* structural facts the writer relies on
QueueOrdered ==
  /\ \A i \in 1..(Len(queue) - 1) : queue[i].ep < queue[i + 1].ep \/ (queue[i].ep = queue[i + 1].ep /\ queue[i].sq < queue[i + 1].sq)
  /\ Len(queue) <= BufSize
DropsOrdered ==
  \A i \in 1..Len(drops) : drops[i].count >= 1 /\ (i < Len(drops) => drops[i].first + drops[i].count < drops[i + 1].first)

Safety == StreamWellFormed /\ ReceiverAlignment /\ FollowupSameConn /\ EmitNeverWaits /\ EmitNeverWaitsAfterClose
          /\ AlignmentLostOnlyAfterFault /\ NoRecordPanic /\ QueueOrdered /\ DropsOrdered
=============================================================================

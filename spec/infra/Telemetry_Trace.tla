-------------------------- MODULE Telemetry_Trace --------------------------
(* V-step for C28.  Two independent judges over the same recorded runs of the real  *)
(* tcpClient (harness/telemetry):                                                   *)
(*                                                                                 *)
(* TraceSpec - each run must be a behaviour of Telemetry.tla.  A run is a sequence  *)
(*   of POINTS ordered by one atomic stamp counter: hook events taken inside the    *)
(*   sequencer lock ("L", with the lock-protected state read under that lock),      *)
(*   writes/closes/read-errors/dials of the fake connection, call and return of     *)
(*   every Emit* and of Close.  A point is matched by the model action it is the    *)
(*   linearization point of; operations with no point of their own (channel         *)
(*   receive by the writer, stores/loads of the atomic flags, select branches) are  *)
(*   HIDDEN steps that TLC places anywhere between the neighbouring points of the   *)
(*   goroutine that performs them - never by wall clock.  Flag stores of Close()    *)
(*   are intervals (CloseCall..CloseRet) during which the flag holds a SET of       *)
(*   possible values.  Flag reads of an emitter are judged against what the flag    *)
(*   could have been at some moment of the read's own interval (accumulators acc /  *)
(*   accL), so an emitter's pre-check and re-check need no hidden steps.            *)
(*   All model invariants are part of the step relation: a run is accepted iff some *)
(*   placement of the hidden steps explains every point with the invariants true.   *)
(*                                                                                 *)
(* RecvSpec - hook-free receiver oracle.  Uses only the bytes the fake connection   *)
(*   accepted, the dial order, the arguments of each call and the ID it returned.   *)
(*   Per connection: first frame is the NodeInfo frame, frames are whole (a         *)
(*   truncated tail only after a failed write), a receiver counting from 0 and      *)
(*   advancing by each Dropped count gives every delivered event the sequence       *)
(*   number of the ID its emitter got, all IDs delivered on one connection carry    *)
(*   one epoch and epochs grow from connection to connection, a follow-up carries   *)
(*   its parent's sequence number and parent and child IDs share the epoch.         *)
(*                                                                                 *)
(* Why placing hidden steps "between the neighbouring points" is sound.  Stamps come *)
(* from one atomic counter, so stamp order is the real order of the stamping         *)
(* instants.  An L point is stamped inside its lock section, after the try-send /     *)
(* record; sections are serialized by the mutex, so L order = lock order = channel    *)
(* send order.  The writer's receive R lies between its points A (before) and B       *)
(* (after); B is always a flushReadyDrops hook, i.e. needs the lock.  For an emit      *)
(* section with send S and stamp T: if R < S then A < R < S < T, so R may be placed     *)
(* before T; if S < R then either T < R already, or R falls inside the section and B,   *)
(* which needs the lock, comes after T: R may be placed after T.  Either way the        *)
(* outcome (queued / dropped) the hook reports is                                       *)
(* reproduced by some placement; TLC explores all of them.  Flag stores by the          *)
(* connection goroutine are hidden steps in their own window; a flag read that falls    *)
(* into the same gap between two points as a store sees both values (acc/accL record    *)
(* the state before and after every step).                                             *)
(*                                                                                 *)
(* Permissive by construction (never stricter than the statement):                  *)
(*   - timestamps are not checked; a rejected Emit is accepted whenever SOME reason *)
(*     for rejection could have held at SOME moment of the call;                    *)
(*   - an accepted Emit needs enabled/not-closed/not-degraded to have been possible *)
(*     at some moment since max(call, previous lock section), in any order;         *)
(*   - any Write or dial may fail.                                                  *)
EXTENDS Integers, Sequences, FiniteSets, TLC, Json, Bytes

CONSTANTS TraceFile, ResultFile, KnownDeviations

VARIABLES epoch, seqc, drops, queue, lock, closed, degraded, enabled, closeCh, call, cpc,
          wpc, exp, pend, closing, wd, conn, connEp, peerGone, kpc, rN, wst, bad, wire,
          l,        \* next trace line
          rl,       \* line of the current Run header (0 before the first)
          acc,      \* call key -> what the flags could have been since the call began
          accL,     \* call key -> ... since max(call, last lock section)
          wpos,     \* bytes of the frame in progress that the connection has accepted
          gated,    \* the writer is blocked inside Write (gate)
          hw        \* RecvSpec only: verdicts

Trace == ndJsonDeserialize(TraceFile)
N == Len(Trace)
e == Trace[l]

MaxEpoch == 65535
BufSize == 1                                   \* unused: the capacity of each run comes from its Run line
Cap == IF rl = 0 THEN 1 ELSE Trace[rl].buf
M == INSTANCE Telemetry

mvars == <<epoch, seqc, drops, queue, lock, closed, degraded, enabled, closeCh, call, cpc,
           wpc, exp, pend, closing, wd, conn, connEp, peerGone, kpc, rN, wst, bad, wire>>
tvars == <<l, rl, acc, accL, wpos, gated, hw>>

Is(name) == l <= N /\ e.ev = name
IsL(h) == l <= N /\ e.ev = "L" /\ e.h = h

-----------------------------------------------------------------------------
(* Frames.  -1 is a wildcard byte (timestamps).                                  *)
Wild(n) == [i \in 1..n |-> 0 - 1]
ParOf(c) == IF c.pinv THEN M!Invalid ELSE [ep |-> c.pep, sq |-> c.psq]
IsFup(c) == c.kind \in {"fup", "fuplazy"}
EvBody(c) == Wild(8) \o <<c.disc>> \o (IF IsFup(c) THEN LE(c.psq, 6) \o <<0, 0>> ELSE <<>>) \o c.pl
WithHdr(body) == LE(Len(body), 4) \o body
EvFrame(k) == WithHdr(EvBody(Trace[acc.line[k]]))
DropFrame(n) == WithHdr(Wild(8) \o <<0>> \o Wild(8) \o LE(n, 8))
NIFrame == WithHdr(Trace[rl].ni)

Matches(b, f, pos) ==
  /\ pos + Len(b) <= Len(f)
  /\ \A i \in 1..Len(b) : f[pos + i] = 0 - 1 \/ f[pos + i] = b[i]

-----------------------------------------------------------------------------
(* Accumulators.  acc = [line |-> k :> Call line, f |-> k :> flags seen]; entries   *)
(* of f exist for calls that have begun and have neither hit their lock section nor *)
(* returned.  line is kept for the whole run (payload lookup when a frame is written). *)
Seen(old, k) ==
  [en |-> old.en \/ TRUE \in enabled', nc |-> old.nc \/ FALSE \in closed', nd |-> old.nd \/ FALSE \in degraded',
   rj |-> old.rj \/ TRUE \in closed' \/ TRUE \in degraded' \/ FALSE \in enabled',
   stale |-> old.stale \/ call'[k].par.ep # epoch']
Blank == [en |-> FALSE, nc |-> FALSE, nd |-> FALSE, rj |-> FALSE, stale |-> FALSE]

\* keys: the in-flight calls after this step; fresh: those whose window (re)starts now
Track(keys, freshC, freshL) ==
  /\ acc' = [acc EXCEPT !.f = [k \in keys |-> Seen(IF k \in freshC THEN Blank ELSE acc.f[k], k)]]
  /\ accL' = [k \in keys |-> Seen(IF k \in freshL THEN Blank ELSE accL[k], k)]

Flying == DOMAIN acc.f
Keep == Track(Flying, {}, {})                 \* a step that is not a lock section
KeepL == Track(Flying, {}, Flying)            \* a lock section of the writer / connection goroutine

-----------------------------------------------------------------------------
(* Points.                                                                        *)
TUnch == UNCHANGED <<rl, wpos, gated, hw>>
Obs == e.ep = epoch' /\ e.sq = seqc'
       /\ drops' = [i \in 1..Len(e.dr) |-> [first |-> e.dr[i].first, count |-> e.dr[i].count]]

PRun ==
  /\ Is("Run")
  /\ rl = 0 \/ (cpc = "done" /\ kpc = "ret" /\ Flying = {})      \* previous run complete
  /\ rl' = l
  /\ epoch' = e.ep0 /\ seqc' = 0 /\ drops' = <<>> /\ queue' = <<>> /\ lock' = 0
  /\ closed' = {FALSE} /\ degraded' = {FALSE} /\ enabled' = {FALSE} /\ closeCh' = {FALSE}
  /\ call' = <<>> /\ cpc' = "top" /\ wpc' = "exit" /\ exp' = 0 /\ pend' = M!None /\ closing' = FALSE
  /\ wd' = M!NoRange /\ conn' = 0 /\ connEp' = 0 /\ peerGone' = FALSE /\ kpc' = "idle"
  /\ rN' = 0 /\ wst' = "none" /\ bad' = {} /\ wire' = <<>>
  /\ acc' = [line |-> <<>>, f |-> <<>>] /\ accL' = <<>> /\ wpos' = 0 /\ gated' = FALSE /\ UNCHANGED hw

PCall ==
  /\ Is("Call") /\ e.k \notin DOMAIN call
  /\ M!CallBegin(e.k, [kind |-> IF IsFup(e) THEN "fup" ELSE "emit", par |-> ParOf(e),
                       boom |-> e.boom, static |-> e.nilb])
  /\ acc' = [line |-> (e.k :> l) @@ acc.line,
             f |-> [k \in Flying \cup {e.k} |-> Seen(IF k = e.k THEN Blank ELSE acc.f[k], k)]]
  /\ accL' = [k \in Flying \cup {e.k} |-> Seen(IF k = e.k THEN Blank ELSE accL[k], k)]
  /\ TUnch

\* the lock section of an accepted Emit* (hook after try-send / drops.record)
PEmitL ==
  /\ l <= N /\ e.ev = "L" /\ e.h \in {"emit.q", "emit.d", "fup.q", "fup.d"}
  /\ e.k \in Flying /\ lock = 0
  /\ LET c == call[e.k]
         out == IF e.h \in {"emit.q", "fup.q"} THEN "q" ELSE "d"
     IN /\ c.pc = "pre" /\ ~M!StaticallyRejected(c)
        /\ (c.kind = "fup") = (e.h \in {"fup.q", "fup.d"})
        /\ c.kind = "fup" => (e.bep = c.par.ep /\ e.bsq = c.par.sq)
        /\ acc.f[e.k].en                                   \* pre-check could pass
        /\ accL[e.k].en /\ accL[e.k].nc /\ accL[e.k].nd    \* re-check under the lock could pass
        /\ e.aep = epoch /\ e.asq = seqc                   \* the ID the hook saw is nextID()
        /\ M!EmitEffect(e.k, out, Cap)
  /\ Obs
  /\ Track(Flying \ {e.k}, {}, Flying \ {e.k})
  /\ TUnch

PRet ==
  /\ Is("Ret") /\ e.k \in DOMAIN call
  /\ LET c == call[e.k] IN
       \/ /\ c.pc = "done" /\ e.k \notin Flying                    \* had its lock section:
          /\ ~e.inv /\ e.ep = c.id.ep /\ e.sq = c.id.sq             \* returns the allocated ID
       \/ /\ c.pc = "pre" /\ e.k \in Flying                        \* never allocated an ID:
          /\ e.inv                                                 \* returns InvalidID, and some
          /\ \/ M!StaticallyRejected(c)                            \* reason to reject existed
             \/ acc.f[e.k].rj
             \/ c.kind = "fup" /\ acc.f[e.k].stale
  /\ call' = [call EXCEPT ![e.k].pc = "ret"]
  /\ UNCHANGED <<epoch, seqc, drops, queue, lock, closed, degraded, enabled, closeCh, cpc,
                 wpc, exp, pend, closing, wd, conn, connEp, peerGone, kpc, rN, wst, bad, wire>>
  /\ Track(Flying \ {e.k}, {}, {})
  /\ TUnch

\* flushReadyDrops: "w.flush0" (nothing lined up) / "w.pop" (head claimed).  A timer tick of the
\* select is implicit: the writer may be back at the top of its loop without having received anything.
AtLoopTop == cpc = "run" /\ (wpc = "flush" \/ (M!AtSelect /\ ~closing))
PFlush ==
  /\ l <= N /\ e.ev = "L" /\ e.h \in {"w.flush0", "w.pop"} /\ AtLoopTop /\ ~gated /\ wpos = 0
  /\ e.a = exp
  /\ (e.h = "w.pop") = M!HeadReady(drops, exp)
  /\ IF e.h = "w.pop"
     THEN /\ e.bsq = drops[1].first /\ e.c = drops[1].count
          /\ wd' = drops[1] /\ drops' = Tail(drops) /\ wpc' = "wdrop"
     ELSE /\ wpc' = "body" /\ UNCHANGED <<wd, drops>>
  /\ UNCHANGED <<epoch, seqc, queue, lock, closed, degraded, enabled, closeCh, call, cpc, exp, pend,
                 closing, conn, connEp, peerGone, kpc, rN, wst, bad, wire>>
  /\ Obs /\ KeepL /\ TUnch

PPeek ==
  /\ IsL("w.peek") /\ ~gated /\ wpos = 0
  /\ e.a = exp /\ pend # M!None /\ e.bep = pend.ep /\ e.bsq = pend.sq
  /\ M!WriterPeek
  /\ Obs /\ KeepL /\ TUnch

PPeekC ==
  /\ IsL("w.peekc") /\ ~gated /\ wpos = 0
  /\ e.a = exp
  /\ M!WriterClosingPeek
  /\ Obs /\ KeepL /\ TUnch

PBump ==
  /\ \/ IsL("seq.bump") /\ epoch # MaxEpoch /\ e.a = epoch + 1
     \/ IsL("seq.exhausted") /\ epoch = MaxEpoch
  /\ M!BumpEpoch
  /\ Obs /\ KeepL /\ TUnch

PReset ==
  /\ IsL("conn.reset")
  /\ M!ResetAndDrain
  /\ Obs /\ KeepL /\ TUnch

PDial ==
  /\ Is("Dial")
  /\ IF e.ok THEN M!DialOk /\ e.c = conn' ELSE M!DialFail
  /\ Keep /\ TUnch

\* bytes accepted by the connection: progress of, completion of, or failure inside the frame in progress
InFrame == cpc = "ni" \/ (cpc = "run" /\ (wpc = "wdrop" \/ (wpc = "body" /\ M!PendReady /\ ~call[pend.k].boom)))
CurFrame == IF cpc = "ni" THEN NIFrame ELSE IF wpc = "wdrop" THEN DropFrame(wd.count) ELSE EvFrame(pend.k)
PWrite ==
  /\ Is("W") /\ e.c = conn /\ InFrame
  /\ LET f == CurFrame
         np == wpos + Len(e.b)
     IN /\ Matches(e.b, f, wpos)
        /\ IF e.err
           THEN /\ np < Len(f)
                /\ wpos' = 0
                /\ IF cpc = "ni" THEN M!WriteNodeInfoFail(np > 0) ELSE M!WriterWriteFail(np > 0)
           ELSE IF np = Len(f)
           THEN /\ wpos' = 0
                /\ IF cpc = "ni" THEN M!WriteNodeInfoOk
                   ELSE IF wpc = "wdrop" THEN M!WriterWriteDropped ELSE M!WriterWriteEvent
           ELSE /\ Len(e.b) > 0 /\ wpos' = np /\ UNCHANGED mvars
  /\ gated' = FALSE
  /\ Keep /\ UNCHANGED <<rl, hw>>

PGate ==
  /\ Is("Gate") /\ e.c = conn /\ InFrame /\ ~gated
  /\ gated' = TRUE
  /\ UNCHANGED mvars /\ Keep /\ UNCHANGED <<rl, wpos, hw>>

\* the harness released the gate after its burst of emitters: every one of them had returned
PUngate ==
  /\ Is("Ungate") /\ e.stuck = 0
  /\ UNCHANGED mvars /\ Keep /\ TUnch

\* an emitter that was parked between its pre-check and its lock section (while Close() completed, or
\* while the connection was lost and re-established) has returned after being released
PUnpark ==
  /\ Is("Unpark") /\ e.stuck = 0
  /\ UNCHANGED mvars /\ Keep /\ TUnch

\* at the end of a run (everything returned) the sequencer mutex was found free: in the model every
\* lock section releases the lock, so `lock = 0` whenever no emitter is inside one
PLockProbe ==
  /\ Is("LockProbe") /\ e.free /\ lock = 0 /\ Flying = {}
  /\ UNCHANGED mvars /\ Keep /\ TUnch

PConnClose ==
  /\ Is("ConnClose")
  /\ IF e.force THEN UNCHANGED mvars
     ELSE e.c = conn /\ wpos = 0 /\ M!ConnCloseConn
  /\ Keep /\ TUnch

PReadErr ==
  /\ Is("ReadErr")
  /\ IF e.c = conn /\ cpc \in {"enable", "run"} /\ ~peerGone THEN M!PeerClose ELSE UNCHANGED mvars
  /\ Keep /\ TUnch

\* Close(): from the call on, its three stores may or may not have happened yet
PCloseCall ==
  /\ Is("CloseCall") /\ kpc = "idle"
  /\ kpc' = "wait"
  /\ closed' = closed \cup {TRUE} /\ enabled' = enabled \cup {FALSE} /\ closeCh' = closeCh \cup {TRUE}
  /\ UNCHANGED <<epoch, seqc, drops, queue, lock, degraded, call, cpc, wpc, exp, pend, closing, wd,
                 conn, connEp, peerGone, rN, wst, bad, wire>>
  /\ Keep /\ TUnch

\* Close() returned: the connection goroutine has exited; all three stores are done
PCloseRet ==
  /\ Is("CloseRet") /\ kpc = "wait" /\ cpc = "done"
  /\ kpc' = "ret"
  /\ closed' = {TRUE} /\ closeCh' = {TRUE}
  /\ UNCHANGED <<epoch, seqc, drops, queue, lock, degraded, enabled, call, cpc, wpc, exp, pend, closing, wd,
                 conn, connEp, peerGone, rN, wst, bad, wire>>
  /\ Keep /\ TUnch

PEnd ==
  /\ Is("End") /\ cpc = "done" /\ kpc = "ret" /\ Flying = {}
  /\ UNCHANGED mvars /\ Keep /\ TUnch

Point ==
  /\ l' = l + 1
  /\ \/ PRun \/ PCall \/ PEmitL \/ PRet \/ PFlush \/ PPeek \/ PPeekC \/ PBump \/ PReset \/ PDial
     \/ PWrite \/ PGate \/ PUngate \/ PUnpark \/ PLockProbe \/ PConnClose \/ PReadErr \/ PCloseCall \/ PCloseRet \/ PEnd

-----------------------------------------------------------------------------
(* Hidden steps: operations of the writer / connection goroutine that have no point. *)
\* enabledFlag.Store(true) by the connection goroutine; Close's Store(false) may still be pending
HEnable == M!ConnEnableTo(IF kpc = "wait" THEN {TRUE, FALSE} ELSE {TRUE})
Hidden ==
  /\ l' = l /\ l <= N /\ rl # 0 /\ ~gated /\ wpos = 0
  /\ \/ M!WriterDequeue \/ M!WriterSeeClose \/ M!WriterClosingDequeue \/ M!WriterClosingEmpty
     \/ M!WriterPeerClosed \/ M!WriterPanic
     \/ HEnable \/ M!ConnDisable \/ M!ConnPostCheck \/ M!ConnTop \/ M!ConnDegrade
     \/ M!SleepDone \/ M!SleepClosed
  /\ Keep /\ TUnch

\* model invariants, evaluated on the state every step leads to
StepInv ==
  /\ bad' = {}
  /\ lock' = 0
  /\ \A i \in 1..(Len(queue') - 1) : queue'[i].ep < queue'[i + 1].ep \/ (queue'[i].ep = queue'[i + 1].ep /\ queue'[i].sq < queue'[i + 1].sq)
  /\ Len(queue') <= Cap'
  /\ \A i \in 1..Len(drops') : drops'[i].count >= 1 /\ (i < Len(drops') => drops'[i].first + drops'[i].count < drops'[i + 1].first)
  /\ \A k \in DOMAIN call' : (call'[k].kind = "fup" /\ call'[k].id # M!Invalid) => call'[k].par.ep = call'[k].id.ep

TraceInit ==
  /\ l = 1 /\ rl = 0 /\ acc = [line |-> <<>>, f |-> <<>>] /\ accL = <<>> /\ wpos = 0 /\ gated = FALSE /\ hw = <<>>
  /\ M!Init

TraceNext == (Point \/ Hidden) /\ StepInv
TraceSpec == TraceInit /\ [][TraceNext]_<<mvars, tvars>>

\* the whole file was explained
Report == (l = N + 1) => JsonSerialize(ResultFile, [n |-> l - 1, devs |-> <<>>, bad |-> <<>>])

\* high-water mark for diagnosis (printed once per new maximum; used only on a re-run after rejection)
ASSUME TLCSet(1, 0)
Progress == (l > TLCGet(1)) => (TLCSet(1, l) /\ PrintT(<<"HW", l>>))

-----------------------------------------------------------------------------
(* RecvSpec: the hook-free receiver oracle.  One step per run.                     *)
RunStarts == {i \in 1..N : Trace[i].ev = "Run"}
RunEnd(i) == LET later == {j \in RunStarts : j > i} IN IF later = {} THEN N ELSE (CHOOSE j \in later : \A j2 \in later : j <= j2) - 1

\* k -> line of the Call / Ret record
RECURSIVE Index(_, _, _, _)
Index(i, last, name, m) ==
  IF i > last THEN m
  ELSE Index(i + 1, last, name, IF Trace[i].ev = name THEN (Trace[i].k :> i) @@ m ELSE m)

\* receiver state for one connection: buf = bytes of the incomplete frame, nf = frames seen, n = next event
\* number, ep = epoch of the IDs delivered so far (0 none), err = a write on it failed, seen = calls delivered
RecvInit == [buf |-> <<>>, nf |-> 0, n |-> 0, ep |-> 0, err |-> FALSE, seen |-> {}, why |-> {}]

IdSeqIs(id, n) == Sub(id, 1, 6) = LE(n, 6)
IdEpoch(id) == id[7] + 256 * id[8]
InvalidB == [i \in 1..8 |-> 255]

\* judge one complete frame body
RecvFrame(s, body, ni, calls, rets) ==
  IF s.nf = 0
  THEN [s EXCEPT !.nf = 1, !.why = @ \cup (IF body = ni THEN {} ELSE {"first frame is not NodeInfo"})]
  ELSE IF Len(body) < 9 THEN [s EXCEPT !.nf = @ + 1, !.why = @ \cup {"event frame shorter than its header"}]
  ELSE IF body[9] = 0
  THEN IF Len(body) # 25 \/ Sub(body, 22, 25) # <<0, 0, 0, 0>> \/ body[21] >= 64
       THEN [s EXCEPT !.nf = @ + 1, !.why = @ \cup {"malformed Dropped frame"}]
       ELSE [s EXCEPT !.nf = @ + 1, !.n = @ + FromLE(Sub(body, 18, 21))]
  ELSE LET fup == body[9] \in {2, 4}
           off == IF fup THEN 17 ELSE 9
           k == IF Len(body) >= off + 2 THEN body[off + 1] + 256 * body[off + 2] ELSE 0
       IN IF k \notin DOMAIN calls \/ k \notin DOMAIN rets
          THEN [s EXCEPT !.nf = @ + 1, !.n = @ + 1, !.why = @ \cup {"delivered frame belongs to no call"}]
          ELSE LET c == Trace[calls[k]]
                   id == Trace[rets[k]].id
                   w == (IF Sub(body, 9, Len(body)) = Sub(EvBody(c), 9, Len(EvBody(c))) THEN {} ELSE {"frame content differs from what was emitted"})
                        \cup (IF id = InvalidB THEN {"delivered event whose emitter got InvalidID"} ELSE {})
                        \cup (IF id # InvalidB /\ ~IdSeqIs(id, s.n) THEN {"receiver number differs from the emitter's ID"} ELSE {})
                        \cup (IF id # InvalidB /\ s.ep # 0 /\ IdEpoch(id) # s.ep THEN {"two epochs on one connection"} ELSE {})
                        \cup (IF k \in s.seen THEN {"event delivered twice"} ELSE {})
               IN [s EXCEPT !.nf = @ + 1, !.n = @ + 1, !.ep = IF id # InvalidB THEN IdEpoch(id) ELSE @,
                            !.seen = @ \cup {k}, !.why = @ \cup w]

RECURSIVE Drain(_, _, _, _)
Drain(s, ni, calls, rets) ==
  IF Len(s.buf) < 4 \/ s.buf[3] # 0 \/ s.buf[4] # 0 THEN s          \* frames here are < 64 KiB
  ELSE LET n == s.buf[1] + 256 * s.buf[2] IN
       IF Len(s.buf) < 4 + n THEN s
       ELSE Drain(RecvFrame([s EXCEPT !.buf = Sub(s.buf, 5 + n, Len(s.buf))], Sub(s.buf, 5, 4 + n), ni, calls, rets), ni, calls, rets)

\* fold over the lines of one run: conns = sequence of receiver states in dial order
RECURSIVE RecvFold(_, _, _, _, _, _)
RecvFold(i, last, conns, ni, calls, rets) ==
  IF i > last THEN conns
  ELSE LET x == Trace[i] IN
       IF x.ev = "Dial" /\ x.ok THEN RecvFold(i + 1, last, Append(conns, RecvInit), ni, calls, rets)
       ELSE IF x.ev = "W" /\ x.c >= 1 /\ x.c <= Len(conns)
       THEN LET s0 == conns[x.c]
                s1 == [s0 EXCEPT !.buf = @ \o x.b, !.err = @ \/ x.err,
                                 !.why = @ \cup (IF s0.err /\ Len(x.b) > 0 THEN {"bytes after a failed write"} ELSE {})]
            IN RecvFold(i + 1, last, [conns EXCEPT ![x.c] = Drain(s1, ni, calls, rets)], ni, calls, rets)
       ELSE RecvFold(i + 1, last, conns, ni, calls, rets)

RunVerdict(i) ==
  LET last == RunEnd(i)
      calls == Index(i, last, "Call", <<>>)
      rets == Index(i, last, "Ret", <<>>)
      conns == RecvFold(i, last, <<>>, Trace[i].ni, calls, rets)
      eps == [c \in 1..Len(conns) |-> conns[c].ep]
      w1 == UNION {conns[c].why : c \in 1..Len(conns)}
      w2 == IF \E c \in 1..Len(conns) : conns[c].buf # <<>> /\ ~conns[c].err THEN {"truncated frame without a failed write"} ELSE {}
      w3 == IF \E c1, c2 \in 1..Len(conns) : c1 < c2 /\ eps[c1] # 0 /\ eps[c2] # 0 /\ eps[c1] >= eps[c2]
            THEN {"epochs do not grow from connection to connection"} ELSE {}
      w4 == IF \E k \in DOMAIN calls \cap DOMAIN rets :
                 /\ IsFup(Trace[calls[k]]) /\ Trace[rets[k]].id # InvalidB
                 /\ (Trace[calls[k]].pinv \/ Trace[calls[k]].pep # IdEpoch(Trace[rets[k]].id))
            THEN {"follow-up accepted with a parent of another connection"} ELSE {}
      w5 == IF DOMAIN calls # DOMAIN rets THEN {"a call did not return"} ELSE {}
      w6 == IF \E j \in i..last : Trace[j].ev = "Ungate" /\ Trace[j].stuck # 0 THEN {"emitter blocked while the writer was blocked in Write"} ELSE {}
      w7 == IF \E j \in i..last : Trace[j].ev = "Unpark" /\ Trace[j].stuck # 0 THEN {"emitter that straddled Close / a reconnect did not return"} ELSE {}
      w8 == IF \E j \in i..last : Trace[j].ev = "LockProbe" /\ ~Trace[j].free THEN {"sequencer mutex still held after everything returned"} ELSE {}
      w9 == IF \E j \in i..last : Trace[j].ev = "Stuck" THEN {"emitters did not return (no call completed for 5 s after a 25 s watchdog)"} ELSE {}
  IN w1 \cup w2 \cup w3 \cup w4 \cup w5 \cup w6 \cup w7 \cup w8 \cup w9

NextRun(i) == LET later == {j \in RunStarts : j >= i} IN IF later = {} THEN N + 1 ELSE CHOOSE j \in later : \A j2 \in later : j <= j2

RecvInitS ==
  /\ l = NextRun(1) /\ hw = <<>>
  /\ rl = 0 /\ acc = <<>> /\ accL = <<>> /\ wpos = 0 /\ gated = FALSE /\ M!Init
RecvNext ==
  /\ l <= N
  /\ LET v == RunVerdict(l) IN
       hw' = IF v = {} THEN hw ELSE Append(hw, [l |-> l, why |-> ToString(v)])
  /\ l' = NextRun(l + 1)
  /\ UNCHANGED <<mvars, rl, acc, accL, wpos, gated>>
RecvSpec == RecvInitS /\ [][RecvNext]_<<mvars, tvars>>
RecvReport == (l = N + 1) => JsonSerialize(ResultFile, [n |-> N, devs |-> <<>>, bad |-> hw])
=============================================================================

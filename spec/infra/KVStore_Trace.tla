--------------------------- MODULE KVStore_Trace ---------------------------
(* V-step for C27: the events one provider produced must be a behaviour of KVStore  *)
(* and every observation must be what the model state dictates.                     *)
(* Events: Reset | Put k v | Delete k | BNew b | BPut b k v | BDel b k | Commit b |  *)
(*         Discard b | Get k -> found v | Has k -> found | Iter p s -> keys vals     *)
(* every event carries iso = number of previously returned slices that changed.      *)
EXTENDS Bytes, SequencesExt, TLC, Json
CONSTANTS TraceFile, ResultFile, KnownDeviations
VARIABLES store, batch, l

Keys == {}          \* unused by the trace actions (universe comes from the trace)
Vals == {}
Batches == {1, 2}
MaxOps == 1000000
INSTANCE KVStore

Trace == ndJsonDeserialize(TraceFile)
e == Trace[l]
Is(name) == l <= Len(Trace) /\ e.ev = name /\ e.iso = 0 /\ l' = l + 1
Obs == UNCHANGED <<store, batch>>

TReset   == Is("Reset") /\ store' = <<>> /\ batch' = [b \in Batches |-> [open |-> FALSE, ops |-> <<>>]]
TPut     == Is("Put") /\ Put(e.k, e.v)
TDelete  == Is("Delete") /\ Delete(e.k)
TBNew    == Is("BNew") /\ BatchNew(e.b)
TBPut    == Is("BPut") /\ BatchPut(e.b, e.k, e.v)
TBDel    == Is("BDel") /\ BatchDelete(e.b, e.k)
TCommit  == Is("Commit") /\ Commit(e.b)
TDiscard == Is("Discard") /\ Discard(e.b)
TGet     == Is("Get") /\ Obs /\ LET g == GetOf(store, e.k) IN e.found = g.found /\ (g.found => e.v = g.v)
THas     == Is("Has") /\ Obs /\ e.found = HasOf(store, e.k)
\* held = 1: the value slice the iterator handed out changed when its key was overwritten (same length) meanwhile
TIter    == Is("Iter") /\ Obs /\ e.keys = IterKeys(store, e.p, e.s) /\ e.vals = IterVals(store, e.p, e.s) /\ e.held = 0

TraceInit == l = 1 /\ store = <<>> /\ batch = [b \in Batches |-> [open |-> FALSE, ops |-> <<>>]]
TraceNext == TReset \/ TPut \/ TDelete \/ TBNew \/ TBPut \/ TBDel \/ TCommit \/ TDiscard \/ TGet \/ THas \/ TIter
TraceSpec == TraceInit /\ [][TraceNext]_<<store, batch, l>>

Report == (l = Len(Trace) + 1) => JsonSerialize(ResultFile, [n |-> l - 1, devs |-> <<>>, bad |-> <<>>])
=============================================================================

---------------------------- MODULE MC_Telemetry ----------------------------
(* Exhaustive model check of Telemetry for small bounds (C28).                      *)
(* Script[e] is the sequence of calls emitter e makes; a call's parent is the index *)
(* of an earlier call of the same emitter (0 = InvalidID).  MaxFaults bounds the     *)
(* injected failures (write/dial/NodeInfo failure, peer close); Close may start at   *)
(* any point.  `wire` is a history variable and is hidden by the VIEW; everything the *)
(* invariants need step by step is also kept in rN / wst / bad, which are visible.    *)
EXTENDS Telemetry

CONSTANTS NEmitters, NEmits, FupAt, BoomAt, MaxFaults
VARIABLE faults

Key(e, i) == e * 10 + i
EmOf(k) == k \div 10
IxOf(k) == k % 10

\* FupAt / BoomAt: sets of keys that are follow-ups (parent = the emitter's previous call) / panicking lazy builders
Desc(e, i) ==
  [kind |-> IF Key(e, i) \in FupAt THEN "fup" ELSE "emit",
   par  |-> IF Key(e, i) \in FupAt /\ i > 1 THEN call[Key(e, i - 1)].id ELSE Invalid,
   boom |-> Key(e, i) \in BoomAt,
   static |-> FALSE]

Begin(e, i) ==
  /\ i = 1 \/ (Key(e, i - 1) \in DOMAIN call /\ call[Key(e, i - 1)].pc = "done")
  /\ CallBegin(Key(e, i), Desc(e, i))

Fault ==
  /\ faults < MaxFaults
  /\ faults' = faults + 1
  /\ \/ \E p \in BOOLEAN : WriterWriteFail(p)
     \/ \E p \in BOOLEAN : WriteNodeInfoFail(p)
     \/ DialFail
     \/ PeerClose

Normal ==
  \/ \E e \in 1..NEmitters, i \in 1..NEmits : Begin(e, i)
  \/ \E k \in DOMAIN call : EmitStep(k)
  \/ WriterStep \/ ConnStep \/ CloseStep

MCInit == Init /\ faults = 0
MCNext == (Normal /\ UNCHANGED faults) \/ Fault
MCSpec == MCInit /\ [][MCNext]_<<vars, faults>>

MCView == <<epoch, seqc, drops, queue, lock, closed, degraded, enabled, closeCh, call, cpc,
            wpc, exp, pend, closing, wd, conn, connEp, peerGone, kpc, rN, wst, bad, faults>>

\* ---- liveness: once Close() has started it returns, given fair scheduling and a fair select
Fairness ==
  /\ \A k \in {Key(e, i) : e \in 1..NEmitters, i \in 1..NEmits} : WF_vars(k \in DOMAIN call /\ EmitStep(k))
  /\ WF_vars(WriterFlush) /\ WF_vars(WriterWriteDropped) /\ WF_vars(WriterWriteEvent) /\ WF_vars(WriterPanic)
  /\ WF_vars(WriterPeek) /\ SF_vars(WriterSeeClose) /\ WF_vars(WriterClosingDequeue)
  /\ WF_vars(WriterClosingEmpty) /\ WF_vars(WriterClosingPeek)
  /\ WF_vars(ConnTop) /\ WF_vars(DialOk) /\ WF_vars(WriteNodeInfoOk) /\ WF_vars(ConnEnable) /\ WF_vars(ConnDisable)
  /\ WF_vars(ConnCloseConn) /\ WF_vars(ConnPostCheck) /\ WF_vars(BumpEpoch) /\ WF_vars(ConnDegrade)
  /\ WF_vars(ResetAndDrain) /\ SF_vars(SleepClosed) /\ WF_vars(SleepDone)
  /\ WF_vars(CloseStep)
LiveSpec == MCSpec /\ Fairness
CloseTerminates == (kpc = "k1") ~> (kpc = "ret")
\* after Close returned nothing moves any more on the connection side and no emit is accepted
ClosedIsFinal == [][kpc = "ret" => (wire' = wire /\ cpc' = cpc)]_<<vars, faults>>
=============================================================================

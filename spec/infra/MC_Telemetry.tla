---------------------------- MODULE MC_Telemetry ----------------------------
(* Exhaustive model check of Telemetry for small bounds (C28).                      *)
(* Script[e] is the sequence of calls emitter e makes; a call's parent is the index *)
(* of an earlier call of the same emitter (0 = InvalidID).  MaxFaults bounds the     *)
(* injected failures (write/dial/NodeInfo failure, peer close); Close may start at   *)
(* any point.  `wire` is a history variable and is hidden by the VIEW; everything the *)
(* invariants need step by step is also kept in rN / wst / bad, which are visible.    *)
EXTENDS Telemetry

CONSTANTS NEmitters, NEmits, FupAt, BoomAt, MaxFaults
VARIABLE faults

Key(e, i) == e * 10 + i
EmOf(k) == k \div 10
IxOf(k) == k % 10

\* FupAt / BoomAt: sets of keys that are follow-ups (parent = the emitter's previous call) / panicking lazy builders
Desc(e, i) ==
  [kind |-> IF Key(e, i) \in FupAt THEN "fup" ELSE "emit",
   par  |-> IF Key(e, i) \in FupAt /\ i > 1 THEN call[Key(e, i - 1)].id ELSE Invalid,
   boom |-> Key(e, i) \in BoomAt,
   static |-> FALSE]

Begin(e, i) ==
  /\ i = 1 \/ (Key(e, i - 1) \in DOMAIN call /\ call[Key(e, i - 1)].pc = "done")
  /\ CallBegin(Key(e, i), Desc(e, i))

\* one named wrapper per model action so that `-coverage 1` reports each of them (vacuity guard)
NF(A) == A /\ UNCHANGED faults
FA(A) == faults < MaxFaults /\ faults' = faults + 1 /\ A
A_CallBegin == NF(\E e \in 1..NEmitters, i \in 1..NEmits : Begin(e, i))
A_EmitStaticReject == NF(\E k \in DOMAIN call : EmitStaticReject(k))
A_EmitPrecheckReject == NF(\E k \in DOMAIN call : EmitPrecheckReject(k))
A_EmitPrecheckPass == NF(\E k \in DOMAIN call : EmitPrecheckPass(k))
A_EmitAcquire == NF(\E k \in DOMAIN call : EmitAcquire(k))
A_EmitLockedRejectA == NF(\E k \in DOMAIN call : EmitLockedRejectA(k))
A_EmitRecheckPass == NF(\E k \in DOMAIN call : EmitRecheckPass(k))
A_EmitLockedRejectB == NF(\E k \in DOMAIN call : EmitLockedRejectB(k))
A_EmitBody == NF(\E k \in DOMAIN call : EmitBody(k))
A_WriterFlush == NF(WriterFlush)
A_WriterWriteDropped == NF(WriterWriteDropped)
A_WriterWriteEvent == NF(WriterWriteEvent)
A_WriterPanic == NF(WriterPanic)
A_WriterPeek == NF(WriterPeek)
A_WriterSeeClose == NF(WriterSeeClose)
A_WriterPeerClosed == NF(WriterPeerClosed)
A_WriterDequeue == NF(WriterDequeue)
A_WriterTick == NF(WriterTick)
A_WriterClosingDequeue == NF(WriterClosingDequeue)
A_WriterClosingEmpty == NF(WriterClosingEmpty)
A_WriterClosingPeek == NF(WriterClosingPeek)
A_ConnTop == NF(ConnTop)
A_DialOk == NF(DialOk)
A_WriteNodeInfoOk == NF(WriteNodeInfoOk)
A_ConnEnable == NF(ConnEnable)
A_ConnDisable == NF(ConnDisable)
A_ConnCloseConn == NF(ConnCloseConn)
A_ConnPostCheck == NF(ConnPostCheck)
A_BumpEpoch == NF(BumpEpoch)
A_ConnDegrade == NF(ConnDegrade)
A_ResetAndDrain == NF(ResetAndDrain)
A_SleepDone == NF(SleepDone)
A_SleepClosed == NF(SleepClosed)
A_CloseSetClosed == NF(CloseSetClosed)
A_CloseSetDisabled == NF(CloseSetDisabled)
A_CloseSignal == NF(CloseSignal)
A_CloseReturn == NF(CloseReturn)
A_WriterWriteFail == FA(\E p \in BOOLEAN : WriterWriteFail(p))
A_WriteNodeInfoFail == FA(\E p \in BOOLEAN : WriteNodeInfoFail(p))
A_DialFail == FA(DialFail)
A_PeerClose == FA(PeerClose)
MCNext ==
  \/ A_CallBegin \/ A_EmitStaticReject \/ A_EmitPrecheckReject \/ A_EmitPrecheckPass \/ A_EmitAcquire \/ A_EmitLockedRejectA
  \/ A_EmitRecheckPass \/ A_EmitLockedRejectB \/ A_EmitBody \/ A_WriterFlush \/ A_WriterWriteDropped \/ A_WriterWriteEvent
  \/ A_WriterPanic \/ A_WriterPeek \/ A_WriterSeeClose \/ A_WriterPeerClosed \/ A_WriterDequeue \/ A_WriterTick
  \/ A_WriterClosingDequeue \/ A_WriterClosingEmpty \/ A_WriterClosingPeek \/ A_ConnTop \/ A_DialOk \/ A_WriteNodeInfoOk
  \/ A_ConnEnable \/ A_ConnDisable \/ A_ConnCloseConn \/ A_ConnPostCheck \/ A_BumpEpoch \/ A_ConnDegrade
  \/ A_ResetAndDrain \/ A_SleepDone \/ A_SleepClosed \/ A_CloseSetClosed \/ A_CloseSetDisabled \/ A_CloseSignal
  \/ A_CloseReturn \/ A_WriterWriteFail \/ A_WriteNodeInfoFail \/ A_DialFail \/ A_PeerClose

MCInit == Init /\ faults = 0
MCSpec == MCInit /\ [][MCNext]_<<vars, faults>>

MCView == <<epoch, seqc, drops, queue, lock, closed, degraded, enabled, closeCh, call, cpc,
            wpc, exp, pend, closing, wd, conn, connEp, peerGone, kpc, rN, wst, bad, faults>>

\* ---- liveness: once Close() has started it returns, given fair scheduling and a fair select
Fairness ==
  /\ \A k \in {Key(e, i) : e \in 1..NEmitters, i \in 1..NEmits} : WF_vars(k \in DOMAIN call /\ EmitStep(k))
  /\ WF_vars(WriterFlush) /\ WF_vars(WriterWriteDropped) /\ WF_vars(WriterWriteEvent) /\ WF_vars(WriterPanic)
  /\ WF_vars(WriterPeek) /\ SF_vars(WriterSeeClose) /\ WF_vars(WriterClosingDequeue)
  /\ WF_vars(WriterClosingEmpty) /\ WF_vars(WriterClosingPeek)
  /\ WF_vars(ConnTop) /\ WF_vars(DialOk) /\ WF_vars(WriteNodeInfoOk) /\ WF_vars(ConnEnable) /\ WF_vars(ConnDisable)
  /\ WF_vars(ConnCloseConn) /\ WF_vars(ConnPostCheck) /\ WF_vars(BumpEpoch) /\ WF_vars(ConnDegrade)
  /\ WF_vars(ResetAndDrain) /\ SF_vars(SleepClosed) /\ WF_vars(SleepDone)
  /\ WF_vars(CloseStep)
LiveSpec == MCSpec /\ Fairness
CloseTerminates == (kpc = "k1") ~> (kpc = "ret")
\* after Close returned nothing moves any more on the connection side and no emit is accepted
ClosedIsFinal == [][kpc = "ret" => (wire' = wire /\ cpc' = cpc)]_<<vars, faults>>
=============================================================================

----------------------------- MODULE Grid_Trace -----------------------------
(* V-step for C29.  Records (harness/grid):                                         *)
(*   width  n got                      ComputeWidth(n)                               *)
(*   pi     a b ab ba                  PreferredInitiator(a,b), (b,a) on 32-byte keys *)
(*   Set    cur prev next u            three validator sets as abstract key ids;      *)
(*                                     ids 0..u-1 are the keys that are asked about   *)
(*   matrix m                          IsNeighborInEpoch(a,b) for a,b in -1..V        *)
(*   probe  a isn idx hasx all getnb key                                              *)
(*          isn  = IsNeighborInEpoch(a,b) for b in -1..V                              *)
(*          idx  = NeighborIndicesInEpoch(a)                                          *)
(*          held = the list obtained for a BEFORE all other calls on the same mapper,  *)
(*                 re-read after them (a returned list must not change afterwards)     *)
(*          all  = ids of AllNeighborValidators(a); getnb = ValidatorManager.GetNeighbors *)
(*          key  = ValidatorManager{SelfIndex a}.IsNeighbor(key id) for id in kq      *)
(*          (all/getnb/key only when 0 <= a < V: hasx = 1)                            *)
(* Every line is judged on its own against the last Set line; `bad` collects the      *)
(* rejected lines with a reason.  Lists are compared as sets; queries about the       *)
(* validator's own key are not judged (see Grid.tla, permissive clauses).             *)
EXTENDS GridDefs, Json, TLC, SequencesExt
CONSTANTS TraceFile, ResultFile, KnownDeviations
VARIABLES l, devs, bad, cfg

Trace == ndJsonDeserialize(TraceFile)
Bool(b) == IF b THEN 1 ELSE 0
Why(c, s) == IF c THEN {s} ELSE {}

JudgeWidth(e) ==
  IF e.panic = 1 THEN {"panic:ComputeWidth"}
  ELSE Why(e.n >= 1 /\ e.got # Width(e.n), "width_not_floor_sqrt")

JudgePi(e) ==
  IF e.panic = 1 THEN {"panic:PreferredInitiator"}
  ELSE Why(e.ab # e.ba, "initiator_differs_between_peers")
       \cup Why(e.ab \notin {e.a, e.b} \/ e.ba \notin {e.a, e.b}, "initiator_not_one_of_the_keys")
       \cup Why(e.ab # P(e.a, e.b) \/ e.ba # P(e.b, e.a), "initiator_not_per_formula")

JudgeMatrix(e) ==
  LET V == Len(cfg.cur)
      W == IF V > 0 THEN Width(V) ELSE 1
      n == V + 2
  IN IF e.panic = 1 THEN {"panic:IsNeighborInEpoch"}
     ELSE IF Len(e.m) # n \/ \E i \in 1..Len(e.m) : Len(e.m[i]) # n THEN {"matrix_shape"}
     ELSE Why(\E i \in 1..n : e.m[i][i] # 0, "relation_not_irreflexive")
          \cup Why(\E i, j \in 1..n : e.m[i][j] # e.m[j][i], "relation_not_symmetric")
          \cup Why(\E i, j \in 1..n : e.m[i][j] # Bool(V > 0 /\ NW(V, W, i - 2, j - 2)), "relation_not_row_or_column")

JudgeProbe(e) ==
  LET V == Len(cfg.cur)
      a == e.a
      nb == Nbrs(V, a)
  IN IF e.panic = 1 THEN {"panic:probe"}
     ELSE Why(e.isn # [j \in 1..(V + 2) |-> Bool((j - 2) \in nb)], "IsNeighborInEpoch_wrong")
          \cup Why(ToSet(e.idx) # nb, "NeighborIndicesInEpoch_wrong")
          \cup Why(ToSet(e.held) # nb \/ Len(e.held) # Len(e.idx), "NeighborIndicesInEpoch_result_changed_by_later_calls")
          \cup (IF e.hasx = 1 THEN
                  LET self == cfg.cur[a + 1]
                      nk == NbrKeys(cfg.cur, cfg.prev, cfg.next, a) \ {self}
                  IN Why(ToSet(e.all) \ {self} # nk, "AllNeighborValidators_wrong")
                     \cup Why(ToSet(e.getnb) \ {self} # nk, "GetNeighbors_wrong")
                     \cup Why(Len(e.key) # Len(e.kq), "key_shape")
                     \cup Why(\E i \in 1..Min2(Len(e.key), Len(e.kq)) : e.kq[i] # self /\ (e.key[i] = 1) # (e.kq[i] \in nk), "IsNeighbor_wrong")
                ELSE {})

Judge(e) == CASE e.ev = "width"  -> JudgeWidth(e)
              [] e.ev = "pi"     -> JudgePi(e)
              [] e.ev = "matrix" -> JudgeMatrix(e)
              [] e.ev = "probe"  -> JudgeProbe(e)
              [] e.ev = "Set"    -> {}
              [] OTHER           -> {"unknown_event"}

NoCfg == [cur |-> <<>>, prev |-> <<>>, next |-> <<>>, u |-> 0]
Init == l = 1 /\ devs = {} /\ bad = {} /\ cfg = NoCfg
Next == /\ l <= Len(Trace)
        /\ LET e == Trace[l] IN
           /\ cfg' = IF e.ev = "Set" THEN [cur |-> e.cur, prev |-> e.prev, next |-> e.next, u |-> e.u] ELSE cfg
           /\ bad' = bad \cup {[l |-> l, why |-> y] : y \in Judge(e)}
        /\ devs' = devs
        /\ l' = l + 1
TraceSpec == Init /\ [][Next]_<<l, devs, bad, cfg>>

Report == (l = Len(Trace) + 1) =>
  JsonSerialize(ResultFile, [n |-> l - 1, devs |-> SetToSeq(devs), bad |-> SetToSeq(bad)])
=============================================================================

------------------------------- MODULE BigNat -------------------------------
(* Unbounded naturals as little-endian byte sequences of any length (DESIGN.md 3.3).*)
(* Operands of different lengths are allowed everywhere; results are not padded     *)
(* (BNorm removes high zero bytes), so two BigNats are equal as numbers iff their   *)
(* BNorm forms are equal.  Used for exact sums of 64-bit quantities (token          *)
(* conservation, threshold balances).                                               *)
EXTENDS U64

RECURSIVE BNorm(_)
BNorm(a) == IF a = <<>> THEN <<>> ELSE IF a[Len(a)] = 0 THEN BNorm(Sub(a, 1, Len(a) - 1)) ELSE a
BPad(a, n) == IF Len(a) >= n THEN a ELSE a \o Zeros(n - Len(a))
\* exact sum: one byte longer than the longer operand, then normalised
BAdd(a, b) == LET n == Max2(Len(a), Len(b)) + 1 IN BNorm(AddC(BPad(a, n), BPad(b, n), 0))
BCmp(a, b) == LET n == Max2(Len(a), Len(b)) IN CmpU(BPad(a, n), BPad(b, n))
BLe(a, b) == BCmp(a, b) # 1
BLt(a, b) == BCmp(a, b) = -1
BEq(a, b) == BCmp(a, b) = 0
\* a - b for a >= b
BSub(a, b) == LET n == Max2(Len(a), Len(b)) IN BNorm(SubU(BPad(a, n), BPad(b, n)))
RECURSIVE BSum(_)
BSum(s) == IF s = <<>> THEN <<>> ELSE BAdd(Head(s), BSum(Tail(s)))
\* product with a small integer 0 <= d < 2^23
BMulSmall(a, d) == BNorm(MulFull(a, LE(d, 3)))
BFits(a, n) == Len(BNorm(a)) <= n
=============================================================================

-------------------------------- MODULE U64 --------------------------------
(* Fixed-width unsigned numbers as little-endian byte sequences (DESIGN.md 3.3).   *)
(* TLC integers are 32-bit, the protocol's registers, balances and gas are 64-bit: *)
(* every operator here works on sequences of bytes of any (equal) width, 8 for a   *)
(* register.  Results are modulo 2^(8*width) unless the name says otherwise.       *)
EXTENDS Bytes

U64Zero == Zeros(8)
U(n) == LE(n, 8)                       \* small non-negative int -> 64-bit value
UMax == Rep(255, 8)                    \* 2^64 - 1

IsZero(a) == \A i \in 1..Len(a) : a[i] = 0
Rev(a) == [i \in 1..Len(a) |-> a[Len(a) + 1 - i]]

RECURSIVE AddC(_, _, _)
AddC(a, b, c) == IF a = <<>> THEN <<>>
                 ELSE LET s == Head(a) + Head(b) + c IN <<s % 256>> \o AddC(Tail(a), Tail(b), s \div 256)
Add(a, b) == AddC(a, b, 0)
\* carry out of a + b (0 or 1)
RECURSIVE CarryOut(_, _, _)
CarryOut(a, b, c) == IF a = <<>> THEN c ELSE CarryOut(Tail(a), Tail(b), (Head(a) + Head(b) + c) \div 256)
NotB(a) == [i \in 1..Len(a) |-> 255 - a[i]]
Neg(a) == AddC(NotB(a), Zeros(Len(a)), 1)
SubU(a, b) == AddC(a, NotB(b), 1)

\* unsigned comparison: -1, 0, 1
CmpU(a, b) == CmpLex(Rev(a), Rev(b))
LtU(a, b) == CmpU(a, b) = -1
LeU(a, b) == CmpU(a, b) # 1
IsNegS(a) == a[Len(a)] >= 128
LtS(a, b) == IF IsNegS(a) # IsNegS(b) THEN IsNegS(a) ELSE LtU(a, b)
LeS(a, b) == a = b \/ LtS(a, b)

\* ---- multiplication ----
RECURSIVE MulByte(_, _, _)
MulByte(a, d, c) == IF a = <<>> THEN <<c>>
                    ELSE LET p == Head(a) * d + c IN <<p % 256>> \o MulByte(Tail(a), d, p \div 256)
\* full product, Len(a) + Len(b) bytes
RECURSIVE MulFull(_, _)
MulFull(a, b) == IF b = <<>> THEN Zeros(Len(a))
                 ELSE LET lo == MulByte(a, Head(b), 0)
                          hi == MulFull(a, Tail(b))
                      IN <<lo[1]>> \o AddC(Tail(lo) \o Zeros(Len(b) - 1), hi, 0)
Mul(a, b) == Sub(MulFull(a, b), 1, Len(a))
MulHiU(a, b) == Sub(MulFull(a, b), Len(a) + 1, 2 * Len(a))

\* ---- bits (least significant first) ----
ToBits(a) == [i \in 1..(8 * Len(a)) |-> (a[((i - 1) \div 8) + 1] \div Pow2((i - 1) % 8)) % 2]
FromBits(bs) == [j \in 1..(Len(bs) \div 8) |->
                   bs[8 * j - 7] + 2 * bs[8 * j - 6] + 4 * bs[8 * j - 5] + 8 * bs[8 * j - 4]
                   + 16 * bs[8 * j - 3] + 32 * bs[8 * j - 2] + 64 * bs[8 * j - 1] + 128 * bs[8 * j]]
Bit8(x, k) == (x \div Pow2(k)) % 2
AndByte(x, y) == Bit8(x, 0) * Bit8(y, 0) + 2 * Bit8(x, 1) * Bit8(y, 1) + 4 * Bit8(x, 2) * Bit8(y, 2)
               + 8 * Bit8(x, 3) * Bit8(y, 3) + 16 * Bit8(x, 4) * Bit8(y, 4) + 32 * Bit8(x, 5) * Bit8(y, 5)
               + 64 * Bit8(x, 6) * Bit8(y, 6) + 128 * Bit8(x, 7) * Bit8(y, 7)
And(a, b) == [i \in 1..Len(a) |-> AndByte(a[i], b[i])]
Or(a, b) == [i \in 1..Len(a) |-> a[i] + b[i] - AndByte(a[i], b[i])]
Xor(a, b) == [i \in 1..Len(a) |-> a[i] + b[i] - 2 * AndByte(a[i], b[i])]

\* shifts by k bits, 0 <= k < 8*Len(a)
Shl(a, k) == LET bs == ToBits(a) IN FromBits([i \in 1..Len(bs) |-> IF i > k THEN bs[i - k] ELSE 0])
ShrFill(a, k, f) == LET bs == ToBits(a) IN FromBits([i \in 1..Len(bs) |-> IF i + k <= Len(bs) THEN bs[i + k] ELSE f])
Shr(a, k) == ShrFill(a, k, 0)
Sar(a, k) == ShrFill(a, k, IF IsNegS(a) THEN 1 ELSE 0)
RotR(a, k) == LET bs == ToBits(a) n == Len(bs) IN FromBits([i \in 1..n |-> bs[((i - 1 + k) % n) + 1]])
RotL(a, k) == LET n == 8 * Len(a) IN RotR(a, (n - (k % n)) % n)

RECURSIVE SumSeq(_)
SumSeq(s) == IF s = <<>> THEN 0 ELSE Head(s) + SumSeq(Tail(s))
PopCount(a) == SumSeq(ToBits(a))
\* number of zero bits above the most significant one / below the least significant one
Clz(a) == 8 * Len(a) - BitLen(a)
RECURSIVE CtzB(_, _)
CtzB(bs, i) == IF i > Len(bs) THEN Len(bs) ELSE IF bs[i] = 1 THEN i - 1 ELSE CtzB(bs, i + 1)
Ctz(a) == CtzB(ToBits(a), 1)

\* ---- division (unsigned), d # 0: bitwise long division on width+1 bytes ----
RECURSIVE DivLoop(_, _, _, _, _)
\* bs: bits of the dividend, i: current bit (from the top), r: remainder so far (width+1 bytes),
\* d: divisor (width+1 bytes), q: quotient bits collected (as a function under construction)
DivLoop(bs, i, r, d, q) ==
  IF i = 0 THEN [q |-> q, r |-> r]
  ELSE LET r2 == AddC(r, r, bs[i])
           ge == CmpU(r2, d) # -1
       IN DivLoop(bs, i - 1, IF ge THEN SubU(r2, d) ELSE r2, d, [q EXCEPT ![i] = IF ge THEN 1 ELSE 0])
DivModU(a, d) == LET n == Len(a)
                     res == DivLoop(ToBits(a), 8 * n, Zeros(n + 1), d \o <<0>>, [i \in 1..(8 * n) |-> 0])
                 IN [q |-> FromBits(res.q), r |-> Sub(res.r, 1, n)]
DivU(a, d) == DivModU(a, d).q
RemU(a, d) == DivModU(a, d).r

AbsS(a) == IF IsNegS(a) THEN Neg(a) ELSE a
\* signed division truncating toward zero; remainder has the sign of the dividend (d # 0, no overflow case)
DivS(a, d) == LET q == DivU(AbsS(a), AbsS(d)) IN IF IsNegS(a) # IsNegS(d) THEN Neg(q) ELSE q
RemS(a, d) == LET r == RemU(AbsS(a), AbsS(d)) IN IF IsNegS(a) THEN Neg(r) ELSE r
MinS(n) == Zeros(n - 1) \o <<128>>            \* -2^(8n-1)
MinusOne(n) == Rep(255, n)

\* ---- width changes ----
\* sign-extend a k-byte value (k in 0..8) to n bytes
SExtTo(v, n) == IF Len(v) = 0 THEN Zeros(n)
                ELSE v \o Rep(IF v[Len(v)] >= 128 THEN 255 ELSE 0, n - Len(v))
SExt(v) == SExtTo(v, 8)
ZExt(v) == v \o Zeros(8 - Len(v))
Low(a, k) == Sub(a, 1, k)
X4(a) == SExt(Low(a, 4))                       \* low 32 bits, sign-extended to 64

\* small integer value of the low k bits, for shift amounts
LowBits(a, k) == a[1] % Pow2(k)               \* k <= 8
=============================================================================

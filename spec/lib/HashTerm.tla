------------------------------ MODULE HashTerm ------------------------------
(* Hash terms (DESIGN.md 3.3): the specification keeps the STRUCTURE of every      *)
(* hash computation and leaves only the primitive (BLAKE2b-256 / Keccak-256) to a  *)
(* generic evaluator in the Go drivers (harness/vfd/term.go), which knows nothing  *)
(* about tries, Merkle trees or mountain ranges.                                   *)
EXTENDS Bytes

Lit(b)          == [t |-> "lit", b |-> b]
Cat(xs)         == [t |-> "cat", xs |-> xs]
B2b(x)          == [t |-> "b2b", x |-> x]
Kec(x)          == [t |-> "kec", x |-> x]
Slice(x, f, n)  == [t |-> "slice", x |-> x, from |-> f, len |-> n]   \* bytes f .. f+n-1 (0-based)
ClrTop(x)       == [t |-> "clr", x |-> x]                              \* first byte AND 0x7f
ZeroHash        == Lit(Zeros(32))
Str(s)          == [t |-> "str", s |-> s]                              \* ASCII bytes of a string constant
RepLit(b, n)    == [t |-> "rep", b |-> b, n |-> n]                     \* n copies of byte b
=============================================================================

------------------------------- MODULE Bytes -------------------------------
(* Byte strings as TLA+ sequences of 0..255, and natural numbers as little-endian  *)
(* byte sequences.  TLC integers are 32-bit; every protocol quantity that may      *)
(* exceed 2^31 is kept as a byte sequence (DESIGN.md 3.3).                         *)
EXTENDS Integers, Sequences, FiniteSets

Byte == 0..255

Pow2(n) == IF n = 0 THEN 1 ELSE IF n = 1 THEN 2 ELSE IF n = 2 THEN 4 ELSE IF n = 3 THEN 8
      ELSE IF n = 4 THEN 16 ELSE IF n = 5 THEN 32 ELSE IF n = 6 THEN 64 ELSE IF n = 7 THEN 128
      ELSE IF n = 8 THEN 256 ELSE 2 ^ n

Min2(a, b) == IF a <= b THEN a ELSE b
Max2(a, b) == IF a >= b THEN a ELSE b

\* sequence of n copies of x
Rep(x, n) == [i \in 1..n |-> x]

Zeros(n) == Rep(0, n)

\* s[from..to] with 1-based inclusive bounds, empty when to < from
Sub(s, from, to) == IF to < from THEN <<>> ELSE [i \in 1..(to - from + 1) |-> s[from + i - 1]]

Take(s, n) == Sub(s, 1, Min2(n, Len(s)))
Drop(s, n) == Sub(s, n + 1, Len(s))

\* bytewise lexicographic comparison: -1, 0, 1
RECURSIVE CmpLex(_, _)
CmpLex(a, b) ==
  IF a = <<>> THEN (IF b = <<>> THEN 0 ELSE -1)
  ELSE IF b = <<>> THEN 1
  ELSE IF Head(a) < Head(b) THEN -1
  ELSE IF Head(a) > Head(b) THEN 1
  ELSE CmpLex(Tail(a), Tail(b))

IsPrefixOf(p, s) == Len(p) <= Len(s) /\ Sub(s, 1, Len(p)) = p

\* ---- little-endian naturals of fixed width ----
\* number of significant bits of a byte
BitLen8(b) == IF b = 0 THEN 0 ELSE IF b < 2 THEN 1 ELSE IF b < 4 THEN 2 ELSE IF b < 8 THEN 3
         ELSE IF b < 16 THEN 4 ELSE IF b < 32 THEN 5 ELSE IF b < 64 THEN 6 ELSE IF b < 128 THEN 7 ELSE 8

\* index (1-based) of the most significant non-zero byte, 0 if all zero
RECURSIVE TopByte(_, _)
TopByte(v, i) == IF i = 0 THEN 0 ELSE IF v[i] # 0 THEN i ELSE TopByte(v, i - 1)

\* number of significant bits of a little-endian byte sequence
BitLen(v) == LET h == TopByte(v, Len(v)) IN IF h = 0 THEN 0 ELSE 8 * (h - 1) + BitLen8(v[h])

\* small integer (< 2^31) to little-endian bytes of width n
RECURSIVE LE(_, _)
LE(x, n) == IF n = 0 THEN <<>> ELSE <<x % 256>> \o LE(x \div 256, n - 1)

\* little-endian bytes to integer; caller guarantees the value is < 2^31
RECURSIVE FromLE(_)
FromLE(v) == IF v = <<>> THEN 0 ELSE Head(v) + 256 * FromLE(Tail(v))

\* number of leading one bits of a byte
LeadingOnes(b) == IF b < 128 THEN 0 ELSE IF b < 192 THEN 1 ELSE IF b < 224 THEN 2 ELSE IF b < 240 THEN 3
             ELSE IF b < 248 THEN 4 ELSE IF b < 252 THEN 5 ELSE IF b < 254 THEN 6 ELSE IF b < 255 THEN 7 ELSE 8
=============================================================================

------------------------------ MODULE MC_PVM ------------------------------
(* Design check of PVM.tla over the decode partition: one Step from a fixed start   *)
(* state for every case of PVM_Part; invariants of the specified machine (A.6-A.9). *)
EXTENDS PVM_Part, TLC
VARIABLES key, phase, res
vars == <<key, phase, res>>

\* registers hold addresses around the edges of the memory window (page 16 R, 17 W, 18 absent, 19 W)
\* and arithmetic boundary values
RegsA == << U(65536), U(69631), U(69632) , U(73727), U(73728), U(77824), <<255,255,255,255,0,0,0,0>>, <<0,0,0,128,0,0,0,0>>,
            UMax, <<0,0,0,0,0,0,0,128>>, U(65535), <<0,0,255,255,0,0,0,0>>, U(2) >>
St0 == [pc |-> 0, gas |-> 2, regs |-> RegsA, acc |-> (16 :> "R" @@ 17 :> "W" @@ 19 :> "W"),
        data |-> (<<16, 0>> :> 17 @@ <<17, 4095>> :> 200 @@ <<19, 0>> :> 255), hp |-> U(73728), hl |-> U(77824)]
Start(k) == [St0 EXCEPT !.pc = IF k[3] = "first" THEN 0 ELSE 1]
P(k) == Prog(k[1], k[2], k[3])

Init == key \in Keys /\ phase = 0 /\ res = [exit |-> "none"]
Next == phase = 0 /\ phase' = 1 /\ res' = Step(P(key), Start(key)) /\ UNCHANGED key
Spec == Init /\ [][Next]_vars

ExitKinds == {"cont", "halt", "panic", "oog", "fault", "host"}
Done == phase = 1
InvExitKind == Done => res.exit \in ExitKinds
InvGas == Done => res.s.gas = 1                                   \* exactly one unit per instruction
InvInvalidTraps == Done /\ key[1] \notin ValidOps => res.exit = "panic"
\* an instruction that does not continue changes nothing but gas (and pc); registers named loose excepted
InvNoSideEffectOnExit ==
  Done /\ res.exit # "cont" =>
     /\ \A i \in 1..13 : res.s.regs[i] = RegsA[i] \/ (key[1] \in {80, 180} /\ i - 1 = Min2(12, Zeta(P(key), Start(key).pc + 1) % 16))
     /\ res.s.data = St0.data /\ res.s.acc = St0.acc /\ res.s.hp = St0.hp
InvPanicHaltPc == Done /\ res.exit \in {"panic", "halt"} => res.s.pc = 0
InvFaultPc == Done /\ res.exit = "fault" => res.s.pc = Start(key).pc /\ AddrOf(Low(res.arg, 4)).page >= 16
\* a continuing instruction goes to the next instruction or to a basic-block start
InvContTarget == Done /\ res.exit = "cont" =>
     LET p == P(key) i == Start(key).pc IN res.s.pc = i + 1 + Skip(p, i) \/ IsBB(p, res.s.pc)
\* memory written only in writable pages, never below 2^16
InvWrites == Done => \A k \in DOMAIN res.s.data : k \in DOMAIN St0.data \/ (k[1] >= 16 /\ Acc(res.s, k[1]) = "W")
=============================================================================

---------------------------- MODULE PVM_MemPart ----------------------------
(* Memory-protection partition for C05: every load/store opcode with an absolute    *)
(* address (and the register-indirect forms) at addresses around the edges of a     *)
(* window of pages with different permissions; sbrk scripts around page boundaries  *)
(* and the heap limit.                                                              *)
EXTENDS PVM, SequencesExt
CONSTANTS Tier

\* window: 15 below 2^16 (never mapped), 16 read-only, 17 writable, 18 absent, 19 writable, 20 read-only, 21 absent
WinAcc == (16 :> "R" @@ 17 :> "W" @@ 19 :> "W" @@ 20 :> "R")
WinData == (<<16, 0>> :> 17 @@ <<16, 4095>> :> 18 @@ <<17, 0>> :> 33 @@ <<17, 4088>> :> 129 @@ <<17, 4095>> :> 200
            @@ <<19, 0>> :> 255 @@ <<19, 1>> :> 127 @@ <<19, 4095>> :> 7 @@ <<20, 0>> :> 128 @@ <<20, 7>> :> 9)
Offsets == IF Tier = "quick" THEN {0, 1, 4088, 4089, 4092, 4093, 4094, 4095}
           ELSE {0, 1, 2, 3, 4, 7, 8, 100, 4087, 4088, 4089, 4090, 4091, 4092, 4093, 4094, 4095}
Pages == 15..21
Addrs == {<<pg, off>> : pg \in Pages, off \in Offsets} \cup {<<0, 0>>, <<0, 1>>, <<15, 4095>>, <<1048575, 4088>>, <<1048575, 4095>>}
AddrBytes(a) == <<a[2] % 256, (a[2] \div 256) + (a[1] % 16) * 16, (a[1] \div 16) % 256, a[1] \div 4096>>   \* no 32-bit product

DirectOps == (52..62) \cup (30..33)          \* load_*, store_* with immediate address; store_imm_*
IndirectOps == (120..130) \cup (70..73)      \* store_ind, load_ind, store_imm_ind: address = register + immediate
MemOps == DirectOps \cup IndirectOps

\* program: the access instruction followed by fallthrough, trap
MemProg(op, a) ==
  LET ab == AddrBytes(a)
      instr == IF op \in 52..62 THEN <<op, 3>> \o ab                       \* ra = 3, lX = 4
               ELSE IF op \in 30..33 THEN <<op, 4>> \o ab \o <<171, 205>>  \* lX = 4, vY = 0x..cdab sign-extended
               ELSE IF op \in 120..130 THEN <<op, 83>> \o <<0, 0, 0, 0>>   \* ra = 3, rb = 5, imm 0: address in r5
               ELSE <<op, 69>> \o <<0, 0, 0, 0>> \o <<171, 205>>           \* 70..73: ra = 5, lX = 4 (nibble 4), imm 0, vY
      m == <<1>> \o Rep(0, Len(instr) - 1)
  IN [code |-> instr \o <<1, 0>>, mask |-> m \o <<1, 1>>, jt |-> <<>>, z |-> 0]
MemRegs(a) == [i \in 1..13 |-> IF i = 4 THEN <<1, 35, 69, 103, 137, 171, 205, 239>>      \* r3: value to store / destination
                               ELSE IF i = 6 THEN ZExt(AddrBytes(a)) ELSE U(i)]
MemState(a) == [pc |-> 0, gas |-> 2, regs |-> MemRegs(a), acc |-> WinAcc, data |-> WinData, hp |-> U(73728), hl |-> U(86016)]
MemKeys == {<<op, a>> : op \in MemOps, a \in Addrs}

\* sbrk scripts: two requests (64-bit values) issued one after the other: sbrk r7 <- r8 ; load_imm_64 r8, second ; sbrk r9 <- r8 ;
\* then a store through the first result and trap.  Requests include values that wrap around 2^64 when added to the
\* heap pointer (a wrapped sum lands below the heap: the request must fail).
Requests == IF Tier = "quick"
            THEN {U(0), U(1), U(4096), U(4097), U(12288), U(12289), UMax, <<240, 255, 255, 255, 255, 255, 255, 255>>,
                  <<0, 224, 255, 255, 255, 255, 255, 255>>}
            ELSE {U(0), U(1), U(2), U(4095), U(4096), U(4097), U(8191), U(8192), U(12287), U(12288), U(12289), U(65536), UMax,
                  <<240, 255, 255, 255, 255, 255, 255, 255>>,        \* 2^64 - 16
                  <<0, 224, 255, 255, 255, 255, 255, 255>>,          \* 2^64 - 8192: wraps to two pages below the heap start
                  <<0, 240, 254, 255, 255, 255, 255, 255>>,          \* 2^64 - 69632: wraps to 0x1000 (below 2^16)
                  <<0, 0, 0, 0, 0, 0, 0, 128>>, <<0, 0, 0, 0, 1, 0, 0, 0>>}
Limits == {73728, 73729, 77824, 86016}       \* heap limit = heap start, +1, +1 page, +3 pages
SbrkKeys == {<<r1, r2, hl>> : r1 \in Requests, r2 \in Requests, hl \in Limits}
SbrkProg(k) == LET c == <<101, 135>> \o (<<20, 8>> \o k[2]) \o <<101, 137>> \o <<120, 115, 0>> \o <<0>>
               IN [code |-> c, mask |-> <<1, 0>> \o <<1, 0, 0, 0, 0, 0, 0, 0, 0, 0>> \o <<1, 0>> \o <<1, 0, 0>> \o <<1>>, jt |-> <<>>, z |-> 0]
SbrkState(k) == [pc |-> 0, gas |-> 10, regs |-> [i \in 1..13 |-> IF i = 9 THEN k[1] ELSE IF i = 4 THEN U(90) ELSE U64Zero],
                 acc |-> WinAcc, data |-> WinData, hp |-> U(73728), hl |-> U(k[3])]
=============================================================================

------------------------------ MODULE MC_StdInit ------------------------------
(* Design check for C06.  Two families of states:                                   *)
(*  "layout": every size tuple of the quantifier's boundary classes; the invariant  *)
(*            LayoutInv says the four regions are ordered, separated by at least    *)
(*            one inaccessible zone, inside [Z_Z, 2^32 - Z_Z), hold their data,     *)
(*            and start on zone boundaries.                                         *)
(*  "blob":   every small concrete blob (lengths 0..2, each declared length off by   *)
(*            -1/0/+1, truncated or extended): the strict parser accepts exactly    *)
(*            the serialisations, round-trips, and no proper prefix or extension    *)
(*            of an accepted blob is accepted.                                      *)
EXTENDS StdInit, TLC
CONSTANT Tier
VARIABLES kind, sz, blob

Sizes == {0, 1, 4095, 4096, 4097, 65535, 65536, 65537}
          \cup (IF Tier = "thorough" THEN {2, 8191, 8192, 8193, 131071, 131072, 131073, 16777215} ELSE {})
Zs == {0, 1, 15, 16, 17, 65535} \cup (IF Tier = "thorough" THEN {2, 14, 31, 32, 33, 4096} ELSE {})
Ss == {0, 1, 4095, 4096, 65536} \cup (IF Tier = "thorough" THEN {16777215} ELSE {}) \cup (IF Tier = "thorough" THEN {4097, 65535, 65537, 8192} ELSE {})
As == {0, 1, 4095, 4096, 4097} \cup (IF Tier = "thorough" THEN {16777216} ELSE {}) \cup (IF Tier = "thorough" THEN {8192, 65535, 65536, 65537, 8417281} ELSE {})

Small == 0..2
Delta == {-1, 0, 1}
Bytes3(n) == [i \in 1..n |-> i]        \* 1, 2, ... (non-zero, distinguishable)

\* a concrete small blob whose three declared lengths deviate by do, dw, dc from the data present,
\* then cut to `keep` bytes (keep > length: extended with that many 7s)
MkBlob(no, nw, nc, do, dw, dc) ==
  LE3(Max2(no + do, 0)) \o LE3(Max2(nw + dw, 0)) \o LE2(3) \o LE3(5) \o Bytes3(no) \o Bytes3(nw) \o LE4(Max2(nc + dc, 0)) \o Bytes3(nc)
Resize(b, keep) == IF keep <= Len(b) THEN Sub(b, 1, keep) ELSE b \o Rep(7, keep - Len(b))

BlobsOf(no, nw, nc) == UNION {{Resize(MkBlob(no, nw, nc, do, dw, dc), k) : k \in 0..(15 + no + nw + nc + 2)}
                                : do \in Delta, dw \in Delta, dc \in Delta}

\* root states fan out in Next so that TLC's workers share the evaluation
Z0 == [ol |-> 0, wl |-> 0, z |-> 0, s |-> 0, al |-> 0]
Init == \/ /\ kind = "root_layout" /\ blob = <<>> /\ \E o \in Sizes : sz = [Z0 EXCEPT !.ol = o]
        \/ /\ kind = "root_blob" /\ sz = Z0 /\ \E no \in Small, nw \in Small, nc \in Small : blob = <<no, nw, nc>>
Next == \/ /\ kind = "root_layout" /\ kind' = "layout" /\ blob' = blob
           /\ sz' \in [ol : {sz.ol}, wl : Sizes, z : Zs, s : Ss, al : As]
        \/ /\ kind = "root_blob" /\ kind' = "blob" /\ sz' = sz
           /\ blob' \in BlobsOf(blob[1], blob[2], blob[3])
Spec == Init /\ [][Next]_<<kind, sz, blob>>

InvLayout == kind = "layout" => LayoutInv(sz.ol, sz.wl, sz.z, sz.s, sz.al)
InvFits == kind = "layout" => Fits(sz.ol, sz.wl, sz.z, sz.s) /\ MaxLayoutFits

\* the heap region's zero tail is exactly z pages longer than the data pages; stack size is P(s)
InvShape == kind = "layout" =>
  LET rs == Regions(sz.ol, sz.wl, sz.z, sz.s, sz.al) IN
  /\ rs[2].pages - PagesOf(sz.wl) = sz.z
  /\ REnd(rs[3]) = StackEndPage /\ rs[3].pages * ZP >= sz.s /\ rs[3].pages * ZP < sz.s + ZP
  /\ InitRegs(sz.al)[2] = PageAddrLE(REnd(rs[3])) /\ InitRegs(sz.al)[8] = PageAddrLE(rs[4].start)

P == StdParse(<<Lit(blob)>>)
InvRoundTrip == (kind = "blob" /\ P.ok) =>
  LET bs == <<Lit(blob)>>
      o == [i \in 1..P.ol |-> VByte(OView(bs, P), i - 1)]
      w == [i \in 1..P.wl |-> VByte(WView(bs, P), i - 1)]
      c == [i \in 1..P.cl |-> VByte(CView(bs, P), i - 1)]
  IN StdBlob(o, w, P.z, P.s, c) = blob
\* no proper prefix and no extension of an accepted blob is accepted
InvPrefixFree == (kind = "blob" /\ P.ok) =>
  /\ \A k \in 0..(Len(blob) - 1) : ~StdParse(<<Lit(Sub(blob, 1, k))>>).ok
  /\ ~StdParse(<<Lit(blob \o <<0>>)>>).ok /\ ~StdParse(<<Lit(blob \o <<9, 9>>)>>).ok
\* the prefix parse accepts exactly the blobs that have an accepted prefix, with the same fields
InvPrefixParse == kind = "blob" =>
  LET q == StdParsePrefix(<<Lit(blob)>>) IN
  /\ P.ok => q = P
  /\ q.ok <=> \E k \in 0..Len(blob) : StdParse(<<Lit(Sub(blob, 1, k))>>).ok
\* lazy strings agree with their materialisation
InvLazy == kind = "blob" =>
  LET bs == <<Lit(Sub(blob, 1, Len(blob) \div 2)), PatSeg(Len(blob), 5), ZeroSeg(2), Lit(Sub(blob, Len(blob) \div 2 + 1, Len(blob)))>>
      m == Materialize(bs)
      pts == {0, 1, Len(blob) \div 2, Len(blob) \div 2 + 3, Len(m) - 1, Len(m)} \cap 0..Len(m)
  IN /\ Len(m) = Len(blob) + 7
     /\ \A a \in pts, b \in 0..Len(m) : NonZeroIn(bs, a, b) = Cardinality({i \in (a + 1)..b : m[i] # 0})
=============================================================================

----------------------------- MODULE MC_PVMMem -----------------------------
(* Design check for C05 on PVM.tla: memory protection and sbrk.                     *)
EXTENDS PVM_MemPart, TLC
VARIABLES key, kind, phase, res
vars == <<key, kind, phase, res>>

Init == /\ phase = 0 /\ res = [exit |-> "none"]
        /\ \/ kind = "mem" /\ key \in MemKeys
           \/ kind = "sbrk" /\ key \in SbrkKeys
Next == /\ phase = 0 /\ phase' = 1 /\ UNCHANGED <<key, kind>>
        /\ res' = IF kind = "mem" THEN Step(MemProg(key[1], key[2]), MemState(key[2]))
                  ELSE Run(SbrkProg(key), SbrkState(key))
Spec == Init /\ [][Next]_vars

Width(op) == CASE op \in {52, 53, 59, 30, 70, 120, 124, 125} -> 1
               [] op \in {54, 55, 60, 31, 71, 121, 126, 127} -> 2
               [] op \in {56, 57, 61, 32, 72, 122, 128, 129} -> 4
               [] OTHER -> 8
IsStore(op) == op \in (59..62) \cup (30..33) \cup (70..73) \cup (120..123)
Touched(a, n) == LET ads == AddrSeq(AddrBytes(a), n) IN {ads[k].page : k \in 1..n}
Mem == phase = 1 /\ kind = "mem"
\* a completed access touched only pages with the needed permission, all at or above 2^16
InvPermission == Mem /\ res.exit = "cont" =>
   \A pg \in Touched(key[2], Width(key[1])) : pg >= 16 /\ (IF IsStore(key[1]) THEN WinAcc[pg] = "W" ELSE pg \in DOMAIN WinAcc)
\* any touched address below 2^16 panics
InvLowPanics == Mem /\ (\E pg \in Touched(key[2], Width(key[1])) : pg < 16) => res.exit = "panic"
\* a failing access changes neither memory nor registers
InvFailUnchanged == Mem /\ res.exit # "cont" =>
   res.exit \in {"panic", "fault"} /\ res.s.data = WinData /\ res.s.regs = MemRegs(key[2]) /\ res.s.acc = WinAcc
\* a store changes exactly the touched bytes; a load changes only the destination register
InvStoreExact == Mem /\ res.exit = "cont" /\ IsStore(key[1]) =>
   /\ res.s.regs = MemRegs(key[2])
   /\ \A k \in DOMAIN res.s.data : k \in DOMAIN WinData \/ k[1] \in Touched(key[2], Width(key[1]))
   /\ \A k \in DOMAIN WinData : k[1] \notin Touched(key[2], Width(key[1])) => res.s.data[k] = WinData[k]
InvLoadExact == Mem /\ res.exit = "cont" /\ ~IsStore(key[1]) =>
   res.s.data = WinData /\ \A i \in 1..13 : i = 4 \/ res.s.regs[i] = MemRegs(key[2])[i]

Sb == phase = 1 /\ kind = "sbrk"
\* the heap never passes its limit, never shrinks; pages that were mapped keep their access and content;
\* fresh pages are writable and zero (the script's final store may then write one byte into them)
InvHeapBound == Sb => LeU(res.s.hp, U(key[3])) /\ LeU(U(73728), res.s.hp)
InvOldPages == Sb => \A pg \in DOMAIN WinAcc : res.s.acc[pg] = WinAcc[pg]
InvFreshPages == Sb => \A pg \in (DOMAIN res.s.acc) \ (DOMAIN WinAcc) :
                     /\ res.s.acc[pg] = "W" /\ pg >= 18 /\ LtU(U(pg * 4096), res.s.hp)
                     /\ Cardinality({k \in DOMAIN res.s.data : k[1] = pg /\ res.s.data[k] # 0}) <= 1
=============================================================================

--------------------------- MODULE ProgramBlob_Gen ---------------------------
(* G-step for C03.  TLC enumerates program blobs from the grammar of ProgramBlob:   *)
(*  valid     - a library of small valid inner programs (and their standard-program *)
(*              wrappers with several initial pcs / gas values / argument sizes);   *)
(*  len       - every length field in {0, consistent, -1, +1, field max, 2^32-1,    *)
(*              2^64-1, non-minimal} (inner |j|, z, |c|; standard |o|,|w|,z,s,|c|); *)
(*  trunc     - truncation at every byte of the header region and at every field    *)
(*              boundary -1/0/+1, plus trailing bytes;                              *)
(*  mask      - bitmask one byte short / long, all zero, all one, padding bits set; *)
(*  cutinstr  - code ending inside an instruction, for one representative of each   *)
(*              operand format and every cut position, alone / after a prefix /     *)
(*              followed by the next instruction's start bit inside the operands;   *)
(*  target    - jump, branch and jump-table targets at |c|-1, |c|, |c|+1, 2^32-1,   *)
(*              dynamic jumps to 0, odd, beyond the table, the halt address;        *)
(*  table     - jump tables with z in {0..9, 255} and entry counts that overflow;   *)
(*  loop      - programs that must run out of gas (self jump, host-call loop);      *)
(*  haltrange - programs that HALT with chosen result-range registers: w7 in zero,  *)
(*              argument zone, RW data, last mapped byte, unmapped, 2^32-1, 2^32,   *)
(*              2^63; w8 in 0, 1, 4096, page-crossing, 2^24, 2^28, 2^32-1, 2^32,    *)
(*              2^63, 2^64-1.  The output is the range if readable, else empty.     *)
(*  len also holds lengths consistent only modulo 2^64: |c| + ceil(|c|/8) and       *)
(*  |j| x z wrapping to exactly the bytes present.                                  *)
(* The check script adds seeded bit flips of the `valid` blobs.                      *)
(* Case: [tag, kind ("std" | "inner"), blob, al (argument length), gas, pc].        *)
EXTENDS ProgramBlob, Json, TLC, SequencesExt
CONSTANTS OutFile, Tier
VARIABLE x

\* want: expected length of Psi_M's output where the grammar class fixes it (halt class), -1 otherwise
CaseW(tag, kind, blob, al, gas, pc, want) == [tag |-> tag, kind |-> kind, blob |-> blob, al |-> al, gas |-> gas, pc |-> pc, want |-> want]
Case(tag, kind, blob, al, gas, pc) == CaseW(tag, kind, blob, al, gas, pc, -1)
Gases == {0, 1, 9, 10000}

\* ---------------------------------------------------------------- valid programs
A4 == <<0, 0, 2, 0>>           \* address 0x20000 (first RW page of a standard program with |o| = 0)
ALow == <<16, 0, 0, 0>>        \* address 16 (< 2^16: panic)
AArg == <<0, 0, 255, 254>>     \* 0xFEFF0000, argument zone
Progs == <<
  <<JumpInd(0, 0)>>,                                                              \* halts under Y's registers
  <<LoadImm(2, 5), AddImm64(3, 2, 7), Add64(2, 3, 4), MoveReg(5, 4), Trap>>,
  <<LoadImm(7, 0), LoadImm(8, 0), JumpInd(0, 0)>>,
  <<StoreImmU8(A4, 7), LoadU8(2, A4), StoreU8(2, A4), JumpInd(0, 0)>>,
  <<StoreImmU8(ALow, 7), Trap>>,
  <<LoadU8(2, AArg), StoreU8(2, AArg), Trap>>,                                    \* write to the read-only argument zone: fault
  <<Ecalli(0), Ecalli(200), Fallthrough, Ecalli(100), JumpInd(0, 0)>>,
  <<LoadImm(2, 1), BranchEqImm4(2, 1, 13, 3), Trap, Trap, Trap, Fallthrough, JumpInd(0, 0)>>,   \* pc 3 -> 13
  <<LoadImm64(2, <<1, 2, 3, 4, 5, 6, 7, 8>>), StoreImmIndU32(1, <<0, 255, 255, 255>>, <<1, 2, 3, 4>>), Fallthrough, JumpInd(0, 0)>>,
  <<LoadImmJumpInd(2, 0, 9, 0)>>,
  <<LoadImm(2, 16), Sbrk(3, 2), Sbrk(4, 5), JumpInd(0, 0)>>
>>
\* with a jump table: entry 1 -> the second basic block
TableProg == <<JumpInd(9, 2), Fallthrough, JumpInd(0, 0)>>        \* r9 = 0: djump(2) -> table[0]
ValidInner == {InnerProg(<<>>, 0, Progs[i]) : i \in 1..Len(Progs)}
              \cup {InnerProg(<<4>>, z, TableProg) : z \in {1, 2, 3, 4, 8}}
              \cup {InnerProg(<<4, 3, 0>>, 2, TableProg)}
              \cup {InnerOf(<<>>, 0, <<>>, <<>>)}                     \* the empty program

StdWrap(inner) == StdOf(<<>>, <<>>, 0, 4096, inner)
ValidCases ==
  {Case("valid", "inner", b, 0, g, pc) : b \in ValidInner, g \in Gases, pc \in {0, 3}}
  \cup {Case("valid", "std", StdWrap(b), al, g, pc) : b \in ValidInner, al \in {0, 5}, g \in Gases, pc \in {0, 5}}
  \cup {Case("valid", "std", StdOf(<<1, 2, 3>>, <<4, 5>>, z, s, b), 4097, 10000, 0)
          : b \in ValidInner, z \in {0, 1, 17}, s \in {0, 1, 4097}}

\* ---------------------------------------------------------------- length fields
Base == <<LoadImm(2, 5), AddImm64(3, 2, 7), Fallthrough, JumpInd(0, 0)>>
BCode == CodeOf(Base)
BMask == PackBits(BitsOf(Base))
BTab == <<4, 0>>                       \* two 1-byte entries...
BTabBytes == <<7, 0>>
NC == Len(BCode)

\* encodings of a natural field: consistent, -1, +1, 0, 2^32-1, 2^32, 2^64-1, 2^63, 2^56, non-minimal forms
NatForms(n) == {ENat(n), ENat(n + 1), ENat(Max2(n - 1, 0)), ENat(0), ENat(127), ENat(128), ENat(16383), ENat(16384),
                EncNat(<<255, 255, 255, 255, 0, 0, 0, 0>>), EncNat(<<0, 0, 0, 0, 1, 0, 0, 0>>), EncNat(<<255, 255, 255, 127, 0, 0, 0, 0>>),
                EncNat(<<255, 255, 255, 255, 255, 255, 255, 255>>), EncNat(<<0, 0, 0, 0, 0, 0, 0, 128>>), EncNat(<<0, 0, 0, 0, 0, 0, 0, 1>>),
                EncNat(<<1, 0, 0, 0, 0, 0, 0, 64>>), EncNat(<<0, 0, 0, 0, 0, 0, 1, 0>>),
                <<128, n>>, <<255, n, 0, 0, 0, 0, 0, 0, 0>>, <<192, n, 0>>, <<255>>, <<128>>, <<254, 1, 2, 3>>}
ZForms == {0, 1, 2, 3, 4, 5, 7, 8, 9, 16, 128, 255}

LenInner ==
  {InnerRaw(jf, 1, ENat(NC), BTabBytes, BCode, BMask) : jf \in NatForms(2)}
  \cup {InnerRaw(jf, 0, ENat(NC), <<>>, BCode, BMask) : jf \in NatForms(0)}
  \cup {InnerRaw(jf, 2, ENat(NC), <<>>, BCode, BMask) : jf \in NatForms(0)}
  \cup {InnerRaw(ENat(2), zf, ENat(NC), BTabBytes, BCode, BMask) : zf \in ZForms}
  \cup {InnerRaw(ENat(2), zf, ENat(NC), Zeros(2 * Min2(zf, 16)), BCode, BMask) : zf \in ZForms}
  \cup {InnerRaw(ENat(2), 1, cf, BTabBytes, BCode, BMask) : cf \in NatForms(NC)}
  \cup {InnerRaw(ENat(0), 0, cf, <<>>, BCode, BMask) : cf \in NatForms(NC)}
  \cup {InnerRaw(ENat(0), 0, cf, <<>>, <<>>, <<>>) : cf \in NatForms(0)}
  \cup {InnerRaw(jf, zf, cf, <<>>, <<>>, <<>>) : jf \in {ENat(0), ENat(1), EncNat(<<0, 0, 0, 128, 0, 0, 0, 0>>), EncNat(<<0, 0, 0, 0, 0, 0, 0, 128>>), EncNat(<<1, 0, 0, 128, 0, 0, 0, 0>>), EncNat(<<0, 0, 0, 0, 1, 0, 0, 0>>)},
                                              zf \in {0, 1, 2, 4, 8, 255}, cf \in {ENat(0), ENat(1), EncNat(<<255, 255, 255, 255, 255, 255, 255, 255>>)}}

\* declared lengths that are consistent only modulo 2^64:
\*  |c| + ceil(|c|/8) = 2^64 + L for L bytes following the |c| field (2^64 = 9Q + 7, Q = 2049638230412172401):
\*  with T = 7 + L, |c| = 8(Q + T \div 9) + r where r + [r > 0] = T % 9 (no solution when T % 9 = 1)
RECURSIVE AddSmall(_, _)
AddSmall(v, d) == IF v = <<>> THEN <<>> ELSE <<(Head(v) + d) % 256>> \o AddSmall(Tail(v), (Head(v) + d) \div 256)
WrapBase == <<142, 227, 56, 142, 227, 56, 142, 227>>           \* 8Q + 6 = 0xE38E38E38E38E38E
HasWrapC(L) == ((7 + L) % 9) # 1
WrapC(L) == LET T == 7 + L
                r == IF (T % 9) = 0 THEN 0 ELSE (T % 9) - 1
            IN <<255>> \o AddSmall(WrapBase, 8 * (T \div 9) + r - 6)
WrapTails == {<<>>, <<0>>, <<0, 1>>, <<1, 2, 3, 4>>, BCode \o BMask, BCode \o BMask \o <<0>>, Zeros(16), Rep(255, 17), Zeros(40)}
\*  |j| * z = 2^64 + (table bytes present)
WrapJ == {<<2, <<1, 0, 0, 0, 0, 0, 0, 128>>, 2>>, <<4, <<1, 0, 0, 0, 0, 0, 0, 64>>, 4>>, <<8, <<1, 0, 0, 0, 0, 0, 0, 32>>, 8>>,
          <<255, <<255, 254, 254, 254, 254, 254, 254, 254>>, 1>>, <<2, <<0, 0, 0, 0, 0, 0, 0, 128>>, 0>>, <<16, <<1, 0, 0, 0, 0, 0, 0, 16>>, 16>>}
LenWrap == {InnerRaw(ENat(0), 0, WrapC(Len(t)), <<>>, t, <<>>) : t \in {t \in WrapTails : HasWrapC(Len(t))}}
           \cup {InnerRaw(ENat(1), 1, WrapC(Len(t)), <<0>>, t, <<>>) : t \in {t \in WrapTails : HasWrapC(Len(t))}}
           \cup {InnerRaw(<<255>> \o w[2], w[1], ENat(NC), Zeros(w[3]), BCode, BMask) : w \in WrapJ}
           \cup {InnerRaw(<<255>> \o w[2], w[1], ENat(0), Zeros(w[3]), <<>>, <<>>) : w \in WrapJ}

\* standard header fields: each of |o|, |w|, z, s, |c| in its classes around a consistent blob
SO == <<1, 2, 3>>
SW == <<4, 5>>
SIn == InnerProg(<<>>, 0, Base)
F3Forms(n) == {LE(v, 3) : v \in {0, n, n + 1, Max2(n - 1, 0), 16777215, 65536, 4096}}
F4Forms(n) == {LE(v, 4) : v \in {0, n, n + 1, Max2(n - 1, 0), 16777215, 65536}} \cup {<<255, 255, 255, 255>>, <<0, 0, 0, 128>>, <<255, 255, 255, 127>>}
StdRaw(of, wf, zf, sf, o, w, cf, c) == of \o wf \o zf \o sf \o o \o w \o cf \o c
LenStd ==
  {StdRaw(f, LE(2, 3), LE(1, 2), LE(4096, 3), SO, SW, LE(Len(SIn), 4), SIn) : f \in F3Forms(3)}
  \cup {StdRaw(LE(3, 3), f, LE(1, 2), LE(4096, 3), SO, SW, LE(Len(SIn), 4), SIn) : f \in F3Forms(2)}
  \cup {StdRaw(LE(3, 3), LE(2, 3), LE(zf, 2), LE(4096, 3), SO, SW, LE(Len(SIn), 4), SIn) : zf \in {0, 1, 2, 255, 256, 4096, 65535}}
  \cup {StdRaw(LE(3, 3), LE(2, 3), LE(1, 2), f, SO, SW, LE(Len(SIn), 4), SIn) : f \in F3Forms(4096)}
  \cup {StdRaw(LE(3, 3), LE(2, 3), LE(1, 2), LE(4096, 3), SO, SW, f, SIn) : f \in F4Forms(Len(SIn))}
  \cup {StdRaw(LE(3, 3), LE(2, 3), LE(65535, 2), LE(16777215, 3), SO, SW, LE(Len(SIn), 4), SIn)}
  \cup {StdRaw(LE(0, 3), LE(0, 3), LE(0, 2), LE(0, 3), <<>>, <<>>, LE(0, 4), <<>>)}

LenCases == {Case("len", "inner", b, 0, 100, 0) : b \in LenInner \cup LenWrap}
            \cup {Case("len", "std", StdWrap(b), 0, 100, 0) : b \in LenInner \cup LenWrap}
            \cup {Case("len", "std", b, al, 100, 0) : b \in LenStd, al \in {0, 4096}}

\* ---------------------------------------------------------------- truncation / trailing
TruncBase == InnerProg(<<4, 0>>, 2, <<JumpInd(9, 2), Fallthrough, LoadImm(2, 5), JumpInd(0, 0)>>)
ProperPrefixes(b) == {Sub(b, 1, k) : k \in 0..(Len(b) - 1)}
Trailing(b) == {b \o <<0>>, b \o <<1>>, b \o <<255, 255>>, b \o Zeros(8), b \o b}
TruncStdBase == StdOf(SO, SW, 1, 4096, SIn)
TruncCases ==
  {Case("trunc", "inner", b, 0, 100, 0) : b \in ProperPrefixes(TruncBase) \cup Trailing(TruncBase) \cup ProperPrefixes(SIn) \cup Trailing(SIn)}
  \cup {Case("trunc", "std", StdWrap(b), 0, 100, 0) : b \in ProperPrefixes(TruncBase) \cup Trailing(TruncBase)}
  \cup {Case("trunc", "std", b, 3, 100, 0) : b \in ProperPrefixes(TruncStdBase) \cup Trailing(TruncStdBase)}

\* ---------------------------------------------------------------- bitmask
MaskVariants(code, bits) ==
  LET m == PackBits(bits) IN
  {Sub(m, 1, Len(m) - 1), m \o <<0>>, m \o <<255>>, Zeros(Len(m)), Rep(255, Len(m)),
   [i \in 1..Len(m) |-> IF i = Len(m) THEN (m[i] + 128) % 256 ELSE m[i]],       \* padding / last bit set
   [i \in 1..Len(m) |-> IF i = 1 THEN m[i] - 1 ELSE m[i]],                       \* first instruction not marked
   <<>>}
MaskProgs == {Base, <<Trap>>, <<LoadImm64(2, <<1, 2, 3, 4, 5, 6, 7, 8>>), Trap>>, <<Fallthrough, Fallthrough, Fallthrough, Fallthrough, Fallthrough, Fallthrough, Fallthrough, JumpInd(0, 0)>>}
MaskInner == UNION {{InnerRaw(ENat(0), 0, ENat(Len(CodeOf(p))), <<>>, CodeOf(p), mv) : mv \in MaskVariants(CodeOf(p), BitsOf(p))} : p \in MaskProgs}
MaskCases == {Case("mask", "inner", b, 0, 100, 0) : b \in MaskInner} \cup {Case("mask", "std", StdWrap(b), 0, 100, 0) : b \in MaskInner}

\* ---------------------------------------------------------------- code ending inside an instruction
B8 == <<1, 2, 3, 4, 5, 6, 7, 8>>
X4 == <<17, 34, 51, 68>>
Formats == <<
  <<10, 1, 2, 3, 4>>,                        \* one immediate (ecalli)
  <<20, 2>> \o B8,                           \* register + 64-bit immediate
  <<32, 4>> \o X4 \o X4,                     \* two immediates (store_imm_u32), lX = 4
  <<33, 7>> \o X4 \o X4,                     \* two immediates, selector 7
  <<30, 9>> \o X4 \o X4,                     \* two immediates, selector 9 (mod 8 = 1)
  <<40>> \o X4,                              \* one offset
  <<51, 2>> \o X4,                           \* register + immediate
  <<50, 2>> \o X4,                           \* jump_ind
  <<58, 2>> \o X4,                           \* load_u64
  <<72, 66>> \o X4 \o X4,                    \* register + two immediates (lX = 4)
  <<70, 242>> \o X4 \o X4,                   \* register + two immediates, selector 15
  <<81, 66>> \o X4 \o X4,                    \* register + immediate + offset
  <<80, 114>> \o X4 \o X4,                   \* load_imm_jump, selector 7
  <<100, 35>>,                               \* two registers
  <<101, 35>>,                               \* sbrk
  <<149, 35>> \o X4,                         \* two registers + immediate
  <<124, 35>> \o X4,                         \* load_ind_u8
  <<170, 35>> \o X4,                         \* two registers + offset
  <<180, 35, 4>> \o X4 \o X4,                \* two registers + two immediates
  <<180, 35, 15>> \o X4 \o X4,
  <<200, 35, 4>>,                            \* three registers
  <<230, 255, 255>> >>
CutShapes(f) ==
  UNION {{ <<Sub(f, 1, k)>>,                                   \* the cut instruction alone
           <<LoadImm(2, 0), Sub(f, 1, k)>>,                    \* after a prefix
           <<Sub(f, 1, k), Trap>>,                             \* next instruction starts inside the operands
           <<Sub(f, 1, k), JumpInd(0, 0)>> } : k \in 1..Len(f)}
CutInner == UNION {{InnerProg(<<>>, 0, p) : p \in CutShapes(Formats[i])} : i \in 1..Len(Formats)}
CutCases == {Case("cutinstr", "inner", b, 0, 100, 0) : b \in CutInner} \cup {Case("cutinstr", "std", StdWrap(b), 0, 100, 0) : b \in CutInner}

\* ---------------------------------------------------------------- jump / branch / table targets
\* code layout: [instr at pc 0 (jump-like, 4-byte offset)] Fallthrough Trap   -> |c| = L
TargetsOf(L) == {L - 1, L, L + 1, L + 7, L + 8, L + 9, 255, 256, 65535, -1, 0, 1}
JumpLike(t) == {<<Jump4(t, 0)>>, <<BranchEqImm4(2, 0, t, 0)>>, <<BranchNeImm4(2, 0, t, 0)>>, <<LoadImmJump4(2, 1, t, 0)>>, <<BranchEq4(2, 3, t, 0)>>}
TProg(j) == j \o <<Fallthrough, Trap>>
TargetInner1 == UNION {{InnerProg(<<>>, 0, TProg(j)) : j \in JumpLike(t)} : t \in UNION {TargetsOf(Len(CodeOf(TProg(j0)))) : j0 \in JumpLike(0)}}
\* the same after a prefix, so that the jump is not at pc 0
TargetInner2 == UNION {{InnerProg(<<>>, 0, <<LoadImm(2, 0), Fallthrough, Jump4(t, 4), Fallthrough, Trap>>)} : t \in TargetsOf(11)}
\* jump tables: entries around |c|; z = 4 for 2^32 - 1
DjProg == <<JumpInd(9, 2), Fallthrough, Trap>>              \* |c| = 5
TableInner ==
  {InnerOf(<<e>>, 4, CodeOf(DjProg), BitsOf(DjProg)) : e \in {0, 3, 4, 5, 6, 255, 65535}}
  \cup {InnerRaw(ENat(1), 4, ENat(5), <<255, 255, 255, 255>>, CodeOf(DjProg), PackBits(BitsOf(DjProg)))}
  \cup {InnerRaw(ENat(1), 8, ENat(5), <<4, 0, 0, 0, 1, 0, 0, 0>>, CodeOf(DjProg), PackBits(BitsOf(DjProg)))}
  \cup {InnerRaw(ENat(1), 8, ENat(5), Rep(255, 8), CodeOf(DjProg), PackBits(BitsOf(DjProg)))}
  \cup {InnerRaw(ENat(1), zf, ENat(5), <<4>> \o Zeros(zf - 1), CodeOf(DjProg), PackBits(BitsOf(DjProg))) : zf \in {1, 2, 3, 5, 6, 7, 8, 9, 10, 16, 255}}
  \cup {InnerRaw(ENat(3), 0, ENat(5), <<>>, CodeOf(DjProg), PackBits(BitsOf(DjProg)))}
  \cup {InnerRaw(jf, 0, ENat(5), <<>>, CodeOf(DjProg), PackBits(BitsOf(DjProg)))
          : jf \in {EncNat(<<1, 0, 0, 128, 0, 0, 0, 0>>), EncNat(<<0, 0, 0, 128, 0, 0, 0, 0>>), EncNat(<<1, 0, 0, 0, 1, 0, 0, 0>>), EncNat(<<255, 255, 255, 255, 255, 255, 255, 255>>)}}
\* dynamic jump addresses: 0, 1 (odd), 2, 3, 4 (beyond a 1-entry table), halt address
DjAddr == {<<LoadImm(9, a), JumpInd(9, 0), Fallthrough, Trap>> : a \in {0, 1, 2, 3, 4, 6, 127}}
          \cup {<<LoadImm4(9, <<0, 0, 255, 255>>), JumpInd(9, 0), Fallthrough, Trap>>,
                <<LoadImm4(9, <<254, 255, 255, 255>>), JumpInd(9, 4), Fallthrough, Trap>>,
                <<LoadImm4(9, <<0, 0, 255, 255>>), LoadImmJumpInd(2, 9, 1, 0), Fallthrough, Trap>>}
DjInner == UNION {{InnerProg(<<6>>, 1, p), InnerProg(<<>>, 0, p), InnerProg(<<6, 7, 200>>, 2, p)} : p \in DjAddr}
TargetAll == TargetInner1 \cup TargetInner2 \cup TableInner \cup DjInner
TargetCases == {Case("target", "inner", b, 0, 100, 0) : b \in TargetAll} \cup {Case("target", "std", StdWrap(b), 0, 100, 0) : b \in TargetAll}

\* ---------------------------------------------------------------- must run out of gas
LoopProgs == {<<Jump4(0, 0)>>, <<Fallthrough, Jump4(0, 1)>>, <<Ecalli(77), Jump4(0, 2)>>, <<BranchEqImm4(2, 0, 0, 0), Trap>>,
              <<LoadImm(2, 0), Fallthrough, BranchEq4(2, 2, 4, 4)>>, <<Jump4(0, 0), Trap>>}
LoopInner == {InnerProg(<<>>, 0, p) : p \in LoopProgs} \cup {InnerProg(<<0>>, 1, <<LoadImm(9, 2), JumpInd(9, 0)>>)}
LoopCases == {Case("loop", "inner", b, 0, g, 0) : b \in LoopInner, g \in {10, 10000}} \cup {Case("loop", "std", StdWrap(b), 0, g, 0) : b \in LoopInner, g \in {10, 10000}}

\* ---------------------------------------------------------------- sbrk
SbrkSmall == {InnerProg(<<>>, 0, <<LoadImm4(2, v), Sbrk(3, 2), Sbrk(4, 2), JumpInd(0, 0)>>) : v \in {<<0, 0, 0, 0>>, <<1, 0, 0, 0>>, <<0, 16, 0, 0>>, <<1, 16, 0, 0>>, <<0, 0, 1, 0>>}}
SbrkBig == {InnerProg(<<>>, 0, <<LoadImm4(2, <<0, 0, 0, 2>>), Sbrk(3, 2), JumpInd(0, 0)>>)}      \* 32 MiB in one instruction
SbrkCases == {Case("sbrk", "std", StdWrap(b), 0, 100, 0) : b \in SbrkSmall} \cup {Case("sbrkbig", "std", StdWrap(b), 0, 100, 0) : b \in SbrkBig}
             \cup {Case("sbrk", "inner", b, 0, 100, 0) : b \in SbrkSmall}

\* ---------------------------------------------------------------- halting programs x result range
\* load_imm_64 a0, w7 ; load_imm_64 a1, w8 ; jump_ind ra, 0 : halts under Y's registers with the result range
\* [w7, w7 + w8).  Psi_M's output (A.8 R) is that range if every page of it is readable, else empty.
\* Standard program: no RO data, 2 bytes of RW data, z = 1, s = 4096, 5 argument bytes.
\* value record: 8 LE bytes, page/off (-1 when >= 2^32), n (-1 when >= 2^31)
V8(b8, page, off) == [b8 |-> b8, page |-> page, off |-> off]
HaltW7 == {V8(Zeros(8), 0, 0),
           V8(<<0, 0, 255, 254, 0, 0, 0, 0>>, ArgStartPage, 0),            \* the argument zone
           V8(<<0, 0, 2, 0, 0, 0, 0, 0>>, 32, 0),                          \* RW data
           V8(<<255, 31, 2, 0, 0, 0, 0, 0>>, 33, 4095),                    \* last byte of the last heap page
           V8(<<0, 0, 3, 0, 0, 0, 0, 0>>, 48, 0),                          \* unmapped
           V8(<<255, 255, 255, 255, 0, 0, 0, 0>>, TopPage - 1, 4095),      \* 2^32 - 1
           V8(<<0, 0, 0, 0, 1, 0, 0, 0>>, -1, 0),                          \* 2^32
           V8(<<0, 0, 0, 0, 0, 0, 0, 128>>, -1, 0)}                        \* 2^63
N8(b8, n) == [b8 |-> b8, n |-> n]
HaltW8 == {N8(Zeros(8), 0), N8(Nat8(1), 1), N8(Nat8(4096), 4096), N8(Nat8(8193), 8193), N8(Nat8(16777216), 16777216),
           N8(Nat8(268435456), 268435456), N8(<<255, 255, 255, 255, 0, 0, 0, 0>>, -1), N8(<<0, 0, 0, 0, 1, 0, 0, 0>>, -1),
           N8(<<0, 0, 0, 0, 0, 0, 0, 128>>, -1), N8(Rep(255, 8), -1)}
HaltRegions == Regions(0, 2, 1, 4096, 5)
\* a contiguous readable range lies inside one region (regions are separated by unmapped zones)
HaltReadable(a, m) == m.n = 0 \/ (a.page >= 0 /\ m.n > 0 /\
   \E i \in 1..4 : HaltRegions[i].start <= a.page /\ a.page + (a.off + m.n - 1) \div ZP < REnd(HaltRegions[i]))
HaltInner(a, m) == InnerProg(<<>>, 0, <<LoadImm64(7, a.b8), LoadImm64(8, m.b8), JumpInd(0, 0)>>)
HaltCases == {CaseW("haltrange", "std", StdOf(<<>>, <<4, 5>>, 1, 4096, HaltInner(a, m)), 5, 100, 0, IF HaltReadable(a, m) THEN m.n ELSE 0)
                : a \in HaltW7, m \in HaltW8}

Cases == ValidCases \cup HaltCases \cup LenCases \cup TruncCases \cup MaskCases \cup CutCases \cup TargetCases \cup LoopCases \cup SbrkCases

\* generator self-checks (a failure here is a generator problem, not a verdict)
ASSUME \A b \in ValidInner : InnerParse(b).class = "wellformed"
ASSUME \A b \in ValidInner : StdClass(StdWrap(b), 0).class = "wellformed"
ASSUME \A b \in ProperPrefixes(TruncBase) : InnerParse(b).class = "malformed"
ASSUME \A b \in CutInner : InnerParse(b).class = "wellformed"
ASSUME \A b \in LenWrap : InnerParse(b).class = "malformed"
ASSUME \A c \in HaltCases : StdClass(c.blob, 5).class = "wellformed"
ASSUME Cardinality({c \in HaltCases : c.want > 0}) = 5
ASSUME \A b \in ProperPrefixes(TruncStdBase) \cup Trailing(TruncStdBase) : StdClass(b, 0).class = "malformed"

ASSUME ndJsonSerialize(OutFile, SetToSeq(Cases))
ASSUME PrintT(<<"GEN", Cardinality(Cases)>>)
GenInit == x = 0
GenNext == FALSE /\ x' = x
=============================================================================

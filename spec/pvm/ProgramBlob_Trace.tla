-------------------------- MODULE ProgramBlob_Trace --------------------------
(* V-step for C03 (stateless; every record judged).  The driver ran the real code   *)
(* on the blob under recover(), a watchdog and allocation accounting:               *)
(*  common: {tag, kind, blob, al, gas, pc, want, allocK, hang, mem, died}            *)
(*  kind "std":   init:{ok, panic}   (SingleInitializer)                            *)
(*                psi:{kind: "bytes"|"panic"|"oog"|"other", used, outlen, panic}    *)
(*  kind "inner": deblob:{ok, panic} (DeBlobProgramCode)                            *)
(*                run:{ran, kind: "halt"|"panic"|"oog"|"fault"|"host"|"other", used, panic}       *)
(*                machine:{exit, w7:[8], panic}, invoke:{ran, exit, w7:[8], gasleft, panic}       *)
(*                aux:{ran, pages, poke, peek, expunge (exits), codes, same, panic}  - the other  *)
(*                inner-machine calls on the fresh machine: pages(n,16,2,RW), poke, peek, expunge *)
(* Required (statement of C03): no Go panic, no hang, no process death; outcome in   *)
(* the defined class - panic / HUH for a malformed blob, any defined PVM outcome for *)
(* a well-formed one; gas used within [0, limit]; allocation <= K + c * declared.    *)
(* Named deviation: sbrk_eager_alloc - a program that grows the heap by G bytes in   *)
(* one sbrk makes the node allocate about G bytes at once; the relaxed bound adds    *)
(* the heap growth the driver observed to the declared size.                        *)
EXTENDS ProgramBlob, Json, TLC, SequencesExt
CONSTANTS TraceFile, ResultFile, KnownDeviations
VARIABLES l, devs, bad

Trace == ndJsonDeserialize(TraceFile)

HUH == <<247, 255, 255, 255, 255, 255, 255, 255>>
InnerCodes == {Nat8(i) : i \in 0..4}        \* HALT, PANIC, FAULT, HOST, OOG

DefinedHostExit(r) == r \in {"continue", "panic", "oog"}

Common(e, declaredK) ==
  (IF e.hang THEN {"hang"} ELSE {})
  \cup (IF e.mem THEN {"alloc_watchdog"} ELSE {})
  \cup (IF e.died # "" THEN {"process_died"} ELSE {})
  \cup (IF ~e.hang /\ ~e.mem /\ e.died = "" /\ ~AllocOk(e.allocK, declaredK) THEN {"alloc"} ELSE {})

StdReasons(e) ==
  LET cls == StdClass(e.blob, e.al)
      stdBad == ~cls.std.ok \/ ~Fits(cls.std.ol, cls.std.wl, cls.std.z, cls.std.s)
  IN (IF e.init.panic # "" THEN {"go_panic_init"}
      ELSE IF e.hang \/ e.mem \/ e.died # "" THEN {}
      ELSE IF stdBad /\ e.init.ok THEN {"init_accepts_malformed"}
      ELSE IF ~stdBad /\ ~e.init.ok THEN {"init_rejects_valid"} ELSE {})
     \cup (IF e.psi.panic # "" THEN {"go_panic_psi"}
           ELSE IF e.hang \/ e.mem \/ e.died # "" THEN {}
           ELSE (IF e.psi.kind \notin {"bytes", "panic", "oog"} THEN {"undefined_outcome"} ELSE {})
                \cup (IF cls.class = "malformed" /\ e.psi.kind # "panic" THEN {"malformed_not_panic_" \o cls.why} ELSE {})
                \cup (IF e.psi.used < 0 \/ e.psi.used > e.gas THEN {"gas_used_out_of_range"} ELSE {})
                \* halt class: the generator (ProgramBlob_Gen!HaltCases) fixed the output length by A.8 R
                \cup (IF e.want >= 0 /\ (e.psi.kind # "bytes" \/ e.psi.outlen # e.want) THEN {"halt_output"} ELSE {}))

InnerReasons(e) ==
  LET cls == InnerParse(e.blob) IN
  (IF e.deblob.panic # "" THEN {"go_panic_deblob"}
   ELSE IF cls.class = "malformed" /\ e.deblob.ok THEN {"deblob_accepts_malformed_" \o cls.why} ELSE {})
  \cup (IF e.run.panic # "" THEN {"go_panic_run"}
        ELSE IF ~e.run.ran \/ e.hang \/ e.mem \/ e.died # "" THEN {}
        ELSE (IF e.run.kind \notin {"halt", "panic", "oog", "fault", "host"} THEN {"undefined_outcome"} ELSE {})
             \cup (IF e.run.used < 0 \/ e.run.used > e.gas THEN {"gas_used_out_of_range"} ELSE {}))
  \cup (IF e.machine.panic # "" THEN {"go_panic_machine"}
        ELSE IF e.hang \/ e.mem \/ e.died # "" THEN {}
        ELSE IF e.machine.exit # "continue" THEN {"machine_exit"}
        ELSE IF cls.class = "malformed" /\ e.machine.w7 # HUH THEN {"machine_accepts_malformed_" \o cls.why}
        ELSE IF e.machine.w7 \notin {HUH, Nat8(0)} THEN {"machine_result"} ELSE {})
  \cup (IF e.invoke.panic # "" THEN {"go_panic_invoke"}
        ELSE IF ~e.invoke.ran \/ e.hang \/ e.mem \/ e.died # "" THEN {}
        ELSE IF e.invoke.exit # "continue" THEN {"invoke_exit"}
        ELSE IF e.invoke.w7 \notin InnerCodes THEN {"invoke_result"}
        ELSE IF e.invoke.gasleft > e.gas THEN {"invoke_gas"} ELSE {})
  \cup (IF e.aux.panic # "" THEN {"go_panic_inner_hostcall"}
        ELSE IF ~e.aux.ran \/ e.hang \/ e.mem \/ e.died # "" THEN {}
        ELSE IF \E r \in {e.aux.pages, e.aux.poke, e.aux.peek, e.aux.expunge} : ~DefinedHostExit(r) THEN {"inner_hostcall_exit"} ELSE {})
        \* which result code (OK expected: fresh machine, pages 16..17 made writable, poke then peek of <= 64 bytes) is C33's business

\* heap growth reported by the driver (bytes >> 10), only for kind "std"
RelaxedAllocOk(e) == AllocOk(e.allocK, DeclaredStdKiB(e.blob, e.al) + e.heapK)

Reasons(e) ==
  IF e.kind = "std" THEN Common(e, DeclaredStdKiB(e.blob, e.al)) \cup StdReasons(e)
  ELSE Common(e, DeclaredInnerKiB(e.blob)) \cup InnerReasons(e)

\* Deviation_sbrk_eager_alloc: the only failing reason is the allocation bound, the program grew
\* the heap, and the allocation is within the bound once the growth is counted as declared
IsSbrkDev(e, rs) == /\ "sbrk_eager_alloc" \in KnownDeviations
                    /\ rs = {"alloc"} /\ e.kind = "std" /\ e.heapK > 0 /\ RelaxedAllocOk(e)

Init == l = 1 /\ devs = {} /\ bad = {}
Next == /\ l <= Len(Trace)
        /\ LET rs == Reasons(Trace[l]) IN
           IF IsSbrkDev(Trace[l], rs)
           THEN /\ devs' = devs \cup {[l |-> l, slug |-> "sbrk_eager_alloc"]} /\ bad' = bad
           ELSE /\ bad' = bad \cup {[l |-> l, why |-> y] : y \in rs} /\ devs' = devs
        /\ l' = l + 1
TraceSpec == Init /\ [][Next]_<<l, devs, bad>>

Report == (l = Len(Trace) + 1) =>
  JsonSerialize(ResultFile, [n |-> l - 1, devs |-> SetToSeq(devs), bad |-> SetToSeq(bad)])
=============================================================================

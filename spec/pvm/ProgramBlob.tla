----------------------------- MODULE ProgramBlob -----------------------------
(* The GRAMMAR of program blobs, for property C03 (untrusted program bytes never    *)
(* crash the node).  Two layers:                                                    *)
(*   standard program  p = E3(|o|) E3(|w|) E2(z) E3(s) o w E4(|c|) c   (StdInit)     *)
(*   inner (deblob)    c = E(|j|) E1(z) E(|c'|) E_z(j) c' k,  |k| = ceil(|c'|/8)     *)
(*                     bytes holding |c'| bits, LSB first (Gray Paper A.2)          *)
(* This module classifies a byte string as                                          *)
(*   "malformed"  - not of the form above: the only defined outcome is panic;        *)
(*   "wellformed" - any defined PVM outcome is acceptable (WHICH one is C01's job);  *)
(*   "either"     - clauses this reconstruction is not sure of (see below),          *)
(* gives its DECLARED SIZE (what the blob itself asks the node to hold) and the     *)
(* allocation bound K + c * declared, and contains a small assembler used by        *)
(* ProgramBlob_Gen to build valid programs and their malformations.                 *)
(*                                                                                  *)
(* Permissive ("either") clauses:                                                   *)
(*   - a non-minimal natural in the inner header (canonicity is property C12);      *)
(*   - z = 0 with |j| > 0 (all entries are encoded in zero bytes) and z > 8;        *)
(*   - non-zero padding bits in the last bitmask byte.                              *)
(* Numbers: |j| and |c'| are naturals up to 2^64-1, kept as 8-byte tuples; a value  *)
(* above MaxBlob (2^20) exceeds every blob this check builds and means "short".     *)
EXTENDS StdInit, NatCodec

MaxBlob == 1048576

IsSmall(v) == v[4] = 0 /\ v[5] = 0 /\ v[6] = 0 /\ v[7] = 0 /\ v[8] = 0 /\ v[3] <= 16
SmallVal(v) == v[1] + 256 * v[2] + 65536 * v[3]       \* only when IsSmall(v)

IRes(class, why, jn, z, cn) == [class |-> class, why |-> why, jn |-> jn, z |-> z, cn |-> cn]

\* classification of an inner blob (plain byte sequence)
InnerParse(c) ==
  LET d1 == DecNat(c) IN
  IF ~d1.ok THEN IRes(IF d1.why = "noncanonical" THEN "either" ELSE "malformed", "jlen_" \o d1.why, 0, 0, 0)
  ELSE
  LET r1 == Drop(c, d1.used) IN
  IF r1 = <<>> THEN IRes("malformed", "no_z", 0, 0, 0)
  ELSE
  LET z == r1[1]
      d2 == DecNat(Drop(r1, 1)) IN
  IF ~d2.ok THEN IRes(IF d2.why = "noncanonical" THEN "either" ELSE "malformed", "clen_" \o d2.why, 0, z, 0)
  ELSE
  LET r3 == Drop(Drop(r1, 1), d2.used)
      n == Len(r3)
      jSmall == IsSmall(d1.val) /\ SmallVal(d1.val) <= MaxBlob
      cSmall == IsSmall(d2.val) /\ SmallVal(d2.val) <= MaxBlob
      jn == IF jSmall THEN SmallVal(d1.val) ELSE -1
      cn == IF cSmall THEN SmallVal(d2.val) ELSE -1
  IN
  IF ~cSmall THEN IRes("malformed", "code_short", jn, z, cn)
  ELSE IF z > 0 /\ ~jSmall THEN IRes("malformed", "table_short", jn, z, cn)
  ELSE LET jb == IF z = 0 THEN 0 ELSE z * jn
           need == jb + cn + (cn + 7) \div 8
       IN IF need > n THEN IRes("malformed", "short", jn, z, cn)
          ELSE IF need < n THEN IRes("malformed", "long", jn, z, cn)
          ELSE IF (z = 0 /\ (~jSmall \/ jn > 0)) \/ z > 8 THEN IRes("either", "odd_z", jn, z, cn)
          ELSE IF cn % 8 # 0 /\ r3[n] >= Pow2(cn % 8) THEN IRes("either", "mask_padding", jn, z, cn)
          ELSE IRes("wellformed", "", jn, z, cn)

\* classification of a standard program blob (plain byte sequence) with an argument of al bytes
StdClass(b, al) ==
  LET bs == <<Lit(b)>>
      p == StdParse(bs) IN
  IF ~p.ok THEN [class |-> "malformed", why |-> "std_" \o p.why, std |-> p, inner |-> IRes("malformed", "", 0, 0, 0)]
  ELSE IF ~Fits(p.ol, p.wl, p.z, p.s) THEN [class |-> "malformed", why |-> "std_toolarge", std |-> p, inner |-> IRes("malformed", "", 0, 0, 0)]
  ELSE LET i == InnerParse(Sub(b, 16 + p.ol + p.wl, Len(b)))
       IN [class |-> i.class, why |-> i.why, std |-> p, inner |-> i]

\* ---------------------------------------------------------------- declared size, allocation bound
\* what the blob itself declares, in KiB (rounded up): its own bytes, the argument, and - when the
\* standard header parses - the four regions it asks for
KiB(x) == (x + 1023) \div 1024
DeclaredStdKiB(b, al) ==
  LET p == StdParse(<<Lit(b)>>) IN
  KiB(Len(b)) + KiB(al)
  + (IF p.ok THEN 4 * (PagesOf(p.ol) + PagesOf(p.wl) + p.z + PagesOf(p.s) + PagesOf(al)) ELSE 0)
DeclaredInnerKiB(b) == KiB(Len(b))

\* gross bound, meant to catch allocations of a different order of magnitude (4 GiB from a length
\* field), not to meter:  alloc <= AllocK + AllocC * declared
AllocKKiB == 4096          \* 4 MiB
AllocC == 256
AllocOk(allocKiB, declaredKiB) == allocKiB <= AllocKKiB + AllocC * declaredKiB

\* ---------------------------------------------------------------- assembler
\* a program is a sequence of instructions, an instruction a non-empty byte tuple
RECURSIVE Flat(_)
Flat(ss) == IF ss = <<>> THEN <<>> ELSE Head(ss) \o Flat(Tail(ss))
CodeOf(prog) == Flat(prog)
RECURSIVE BitsOf(_)
BitsOf(prog) == IF prog = <<>> THEN <<>> ELSE (<<1>> \o Zeros(Len(Head(prog)) - 1)) \o BitsOf(Tail(prog))

\* pack a 0/1 sequence into bytes, LSB first
PackBits(bits) ==
  LET n == (Len(bits) + 7) \div 8
      bit(i) == IF i <= Len(bits) THEN bits[i] ELSE 0
  IN [j \in 1..n |-> bit(8 * j - 7) + 2 * bit(8 * j - 6) + 4 * bit(8 * j - 5) + 8 * bit(8 * j - 4)
                    + 16 * bit(8 * j - 3) + 32 * bit(8 * j - 2) + 64 * bit(8 * j - 1) + 128 * bit(8 * j)]

Nat8(x) == LE(x, 8)
ENat(x) == EncNat(Nat8(x))                                  \* x < 2^31

\* raw assembly: every field given literally
InnerRaw(jlenEnc, zByte, clenEnc, tableBytes, code, maskBytes) ==
  jlenEnc \o <<zByte>> \o clenEnc \o tableBytes \o code \o maskBytes
\* consistent blob: table of integer entries (each z bytes), code and bits
InnerOf(table, z, code, bits) ==
  InnerRaw(ENat(Len(table)), z, ENat(Len(code)), Flat([i \in 1..Len(table) |-> LE(table[i], z)]), code, PackBits(bits))
InnerProg(table, z, prog) == InnerOf(table, z, CodeOf(prog), BitsOf(prog))

\* standard blob around an inner blob: no data sections unless given
StdOf(o, w, z, s, inner) == StdBlob(o, w, z, s, inner)

\* 4-byte little-endian two's complement of (target - pc); target = -1 stands for 2^32 - 1
Off4(target, pc) ==
  LET d == IF target = -1 THEN -1 - pc ELSE target - pc IN
  IF d >= 0 THEN LE(d, 4) ELSE [i \in 1..4 |-> 255 - LE(-d - 1, 4)[i]]

\* ---------------------------------------------------------------- instruction library (Appendix D)
Trap == <<0>>
Fallthrough == <<1>>
Ecalli(id) == <<10, id>>
LoadImm64(r, b8) == <<20, r>> \o b8
StoreImmU8(a4, v) == <<30, 4>> \o a4 \o <<v>>
StoreImmU32(a4, v4) == <<32, 4>> \o a4 \o v4
Jump4(target, pc) == <<40>> \o Off4(target, pc)
JumpInd(r, imm) == <<50, r, imm>>
LoadImm(r, v) == <<51, r, v>>
LoadImm4(r, v4) == <<51, r>> \o v4
LoadU8(r, a4) == <<52, r>> \o a4
StoreU8(r, a4) == <<59, r>> \o a4
StoreImmIndU32(r, x4, y4) == <<72, r + 64>> \o x4 \o y4
LoadImmJump4(r, v, target, pc) == <<80, r + 16, v>> \o Off4(target, pc)
BranchEqImm4(r, v, target, pc) == <<81, r + 16, v>> \o Off4(target, pc)
BranchNeImm4(r, v, target, pc) == <<82, r + 16, v>> \o Off4(target, pc)
MoveReg(d, a) == <<100, d + 16 * a>>
Sbrk(d, a) == <<101, d + 16 * a>>
AddImm64(a, b, v) == <<149, a + 16 * b, v>>
BranchEq4(a, b, target, pc) == <<170, a + 16 * b>> \o Off4(target, pc)
LoadImmJumpInd(a, b, x, y) == <<180, a + 16 * b, 1, x, y>>
Add64(a, b, d) == <<200, a + 16 * b, d>>
=============================================================================

-------------------------------- MODULE PVM --------------------------------
(* The Polkadot Virtual Machine of Gray Paper 0.7.2 Appendix A as a function:      *)
(* Step (one instruction, A.6-A.9 and the instruction tables) and Run (iterate to  *)
(* the next exit).  Properties C01, C02, C04, C05 are decided against this module. *)
(*                                                                                 *)
(* Conventions                                                                     *)
(*  - program p = [code: bytes, mask: 0/1 per code byte, jt: jump-table entries]   *)
(*    positions are 0-based integers; code is implicitly zero-extended (Zeta) and  *)
(*    the bitmask implicitly one-extended (K);                                     *)
(*  - registers are 13 U64 values (little-endian byte tuples, module U64);         *)
(*  - memory: acc maps accessible page numbers to "R"/"W" (absent = inaccessible), *)
(*    data maps <<page, offset>> to a byte (absent = 0);                           *)
(*  - gas is a small integer here (cases keep it below 2^31; values around 2^63    *)
(*    are handled at the invocation level, module PVMInvoke);                      *)
(*  - an exit is one of "cont", "halt", "panic", "oog", "fault", "host".           *)
(*                                                                                 *)
(* Permissive clauses (DESIGN.md 4.1), each named where it is used:                *)
(*  P-sbrk   sbrk follows the jam-test-vector convention the code cites (see Sbrk); *)
(*  (load_imm_jump / load_imm_jump_ind write their register unconditionally, also  *)
(*   when the jump panics or halts: the instruction tables list both effects.)     *)
(*  P-fault  a page-fault address anywhere from the start of the page of the       *)
(*           access to the end of the access is accepted (property statement).     *)
EXTENDS U64

\* ------------------------------------------------------------------ program
Zeta(p, i) == IF i >= 0 /\ i < Len(p.code) THEN p.code[i + 1] ELSE 0
K(p, i) == IF i >= 0 /\ i < Len(p.code) THEN p.mask[i + 1] ELSE 1
RECURSIVE SkipFrom(_, _, _)
SkipFrom(p, i, j) == IF j >= 24 THEN 24 ELSE IF K(p, i + 1 + j) = 1 THEN j ELSE SkipFrom(p, i, j + 1)
Skip(p, i) == SkipFrom(p, i, 0)

OpsNoArg == {0, 1}
OpsImm == {10}
OpsRegExt == {20}
OpsImm2 == 30..33
OpsOff == {40}
OpsRegImm == 50..62
OpsRegImm2 == 70..73
OpsRegImmOff == 80..90
OpsReg2 == 100..111
OpsReg2Imm == 120..161
OpsReg2Off == 170..175
OpsReg2Imm2 == {180}
OpsReg3 == 190..230
ValidOps == OpsNoArg \cup OpsImm \cup OpsRegExt \cup OpsImm2 \cup OpsOff \cup OpsRegImm \cup OpsRegImm2
            \cup OpsRegImmOff \cup OpsReg2 \cup OpsReg2Imm \cup OpsReg2Off \cup OpsReg2Imm2 \cup OpsReg3
Terminators == {0, 1, 40, 50, 180} \cup (80..90) \cup (170..175)

\* basic-block starts (A.5): position 0 or the instruction after a terminator, and in either case an
\* instruction start inside the code that holds a valid opcode
IsBB(p, n) == /\ n >= 0 /\ n < Len(p.code)
              /\ K(p, n) = 1 /\ Zeta(p, n) \in ValidOps
              /\ \/ n = 0
                 \/ \E m \in 0..(n - 1) : K(p, m) = 1 /\ Zeta(p, m) \in Terminators /\ m + 1 + Skip(p, m) = n

ZBytes(p, from, n) == [k \in 1..n |-> Zeta(p, from + k - 1)]
Imm(p, from, n) == SExt(ZBytes(p, from, n))

\* branch target i + Z_n(bytes): an integer position, or -1 when it lies outside 0..|c|-1
\* (code is far shorter than 2^23 bytes, so any offset that does not fit 24 bits is outside)
Target(p, i, from, n) ==
  LET v == ZBytes(p, from, n)
      off == IF n = 0 THEN 0
             ELSE IF n <= 3 THEN FromLE(v) - (IF v[n] >= 128 THEN Pow2(8 * n) ELSE 0)
             ELSE IF v[4] = 0 /\ v[3] < 128 THEN FromLE(Sub(v, 1, 3))
             ELSE IF v[4] = 255 /\ v[3] >= 128 THEN FromLE(Sub(v, 1, 3)) - 16777216
             ELSE 16777216                                   \* far away
      t == i + off
  IN IF t < 0 \/ t >= Len(p.code) THEN -1 ELSE t

\* ------------------------------------------------------------------ memory
AddrOf(a) == [page |-> a[4] * 4096 + a[3] * 16 + (a[2] \div 16), off |-> (a[2] % 16) * 256 + a[1]]
\* the n addresses of an access starting at the 32-bit address held in the low 4 bytes of a
AddrSeq(a, n) == [k \in 1..n |-> AddrOf(Add(Low(a, 4), LE(k - 1, 4)))]
Acc(s, pg) == IF pg \in DOMAIN s.acc THEN s.acc[pg] ELSE "N"
ByteAt(s, ad) == IF <<ad.page, ad.off>> \in DOMAIN s.data THEN s.data[<<ad.page, ad.off>>] ELSE 0
\* "ok", "panic" (an address below 2^16) or "fault"
MemCheck(s, a, n, write) ==
  LET ads == AddrSeq(a, n) IN
  IF \E k \in 1..n : ads[k].page < 16 THEN "panic"
  ELSE IF \E k \in 1..n : (IF write THEN Acc(s, ads[k].page) # "W" ELSE Acc(s, ads[k].page) = "N") THEN "fault"
  ELSE "ok"
LoadBytes(s, a, n) == LET ads == AddrSeq(a, n) IN [k \in 1..n |-> ByteAt(s, ads[k])]
StoreBytes(s, a, bytes) ==
  LET n == Len(bytes)
      ads == AddrSeq(a, n)
      keys == {<<ads[k].page, ads[k].off>> : k \in 1..n}
      valOf(key) == LET k == CHOOSE k \in 1..n : <<ads[k].page, ads[k].off>> = key IN bytes[k]
  IN [s EXCEPT !.data = [key \in (DOMAIN s.data) \cup keys |-> IF key \in keys THEN valOf(key) ELSE s.data[key]]]

\* ------------------------------------------------------------------ results of one instruction
R(s, i) == s.regs[i + 1]
SetR(s, i, v) == [s EXCEPT !.regs[i + 1] = v]
NoLoose == {}
\* continue at the next instruction / at position t
Cont(s, nxt) == [exit |-> "cont", s |-> [s EXCEPT !.pc = nxt], arg |-> U64Zero, n |-> 0, loose |-> NoLoose]
Exit(kind, s, pc2, arg, n, loose) == [exit |-> kind, s |-> [s EXCEPT !.pc = pc2], arg |-> arg, n |-> n, loose |-> loose]

\* A.17
Branch(p, s, tgt, cond, nxt, onPanicState, loose) ==
  IF ~cond THEN Cont(s, nxt)
  ELSE IF tgt = -1 \/ ~IsBB(p, tgt) THEN Exit("panic", onPanicState, 0, U64Zero, 0, loose)
  ELSE Cont(s, tgt)

\* A.18; a is a U64 whose low 32 bits are the address
Djump(p, s, a, onFailState, loose) ==
  LET a4 == Low(a, 4) IN
  IF a4 = <<0, 0, 255, 255>> THEN Exit("halt", onFailState, 0, U64Zero, 0, loose)
  ELSE IF a4[3] # 0 \/ a4[4] # 0 THEN Exit("panic", onFailState, 0, U64Zero, 0, loose)
  ELSE LET ai == a4[1] + 256 * a4[2] IN
       IF ai = 0 \/ ai > 2 * Len(p.jt) \/ ai % 2 # 0 THEN Exit("panic", onFailState, 0, U64Zero, 0, loose)
       ELSE LET t == p.jt[ai \div 2] IN
            IF ~IsBB(p, t) THEN Exit("panic", onFailState, 0, U64Zero, 0, loose) ELSE Cont(s, t)

\* memory access outcomes: s0 is the state to report when the access fails (nothing but gas changed)
MemFail(kind, s0, a, n) == IF kind = "panic" THEN Exit("panic", s0, 0, U64Zero, 0, NoLoose)
                           ELSE Exit("fault", s0, s0.pc, ZExt(Low(a, 4)), n, NoLoose)
DoStore(s, a, n, v, nxt) == LET c == MemCheck(s, a, n, TRUE) IN
                            IF c # "ok" THEN MemFail(c, s, a, n) ELSE Cont(StoreBytes(s, a, Low(v, n)), nxt)
\* load n bytes, zero- or sign-extended, into register rd
DoLoad(s, a, n, signed, rd, nxt) ==
  LET c == MemCheck(s, a, n, FALSE) IN
  IF c # "ok" THEN MemFail(c, s, a, n)
  ELSE LET b == LoadBytes(s, a, n) IN Cont(SetR(s, rd, IF signed THEN SExt(b) ELSE ZExt(b)), nxt)

\* sbrk (P-sbrk): the Gray Paper leaves the instruction to the implementation's memory model; the
\* convention here is the one of the jam test vectors the code cites: a zero request reads the heap
\* pointer; a request that would wrap or pass the heap limit (the stack boundary) yields 0 and changes
\* nothing; otherwise the heap pointer advances by the request, every page that now holds heap bytes
\* and was not mapped becomes a zero-filled writable page, and the new heap pointer is the result.
\* This carries the C05 obligations: growth only here, never beyond hl, fresh pages read as zero.
PageOf(x) == AddrOf(Low(x, 4)).page
Sbrk(s, rd, a) ==
  IF IsZero(a) THEN SetR(s, rd, s.hp)
  ELSE LET new == Add(s.hp, a) IN
       IF CarryOut(s.hp, a, 0) = 1 \/ LtU(s.hl, new) THEN SetR(s, rd, U64Zero)
       ELSE LET last == PageOf(SubU(new, U(1)))
                fresh == {pg \in PageOf(s.hp)..last : pg \notin DOMAIN s.acc}
                s2 == [s EXCEPT !.hp = new,
                                !.acc = [pg \in (DOMAIN s.acc) \cup fresh |-> IF pg \in fresh THEN "W" ELSE s.acc[pg]],
                                !.data = [key \in {k \in DOMAIN s.data : k[1] \notin fresh} |-> s.data[key]]]
            IN SetR(s2, rd, new)

Bool(b) == IF b THEN U(1) ELSE U64Zero
Sh32(v) == v[1] % 32
Sh64(v) == v[1] % 64
L4(v) == Low(v, 4)

\* 32-bit and 64-bit division family (A.5.13), a / b as full registers
DivU32(a, b) == IF IsZero(L4(b)) THEN UMax ELSE SExt(DivU(L4(a), L4(b)))
DivS32(a, b) == IF IsZero(L4(b)) THEN UMax
                ELSE IF L4(a) = MinS(4) /\ L4(b) = MinusOne(4) THEN SExt(L4(a))
                ELSE SExt(DivS(L4(a), L4(b)))
RemU32(a, b) == IF IsZero(L4(b)) THEN SExt(L4(a)) ELSE SExt(RemU(L4(a), L4(b)))
RemS32(a, b) == IF L4(a) = MinS(4) /\ L4(b) = MinusOne(4) THEN U64Zero
                ELSE IF IsZero(L4(b)) THEN SExt(L4(a))
                ELSE SExt(RemS(L4(a), L4(b)))
DivU64(a, b) == IF IsZero(b) THEN UMax ELSE DivU(a, b)
DivS64(a, b) == IF IsZero(b) THEN UMax ELSE IF a = MinS(8) /\ b = MinusOne(8) THEN a ELSE DivS(a, b)
RemU64(a, b) == IF IsZero(b) THEN a ELSE RemU(a, b)
RemS64(a, b) == IF a = MinS(8) /\ b = MinusOne(8) THEN U64Zero ELSE IF IsZero(b) THEN a ELSE RemS(a, b)
\* floor(Z8(a) * Z8(b) / 2^64) and floor(Z8(a) * b / 2^64): 128-bit signed product, upper half
MulUpperSS(a, b) == Sub(MulFull(SExtTo(a, 16), SExtTo(b, 16)), 9, 16)
MulUpperSU(a, b) == Sub(MulFull(SExtTo(a, 16), b \o Zeros(8)), 9, 16)
MaxS(a, b) == IF LtS(a, b) THEN b ELSE a
MinSS(a, b) == IF LtS(a, b) THEN a ELSE b
MaxU(a, b) == IF LtU(a, b) THEN b ELSE a
MinU(a, b) == IF LtU(a, b) THEN a ELSE b
RevBytes(a) == Rev(a)

\* three-register arithmetic: value written to rd
Alu3(op, a, b) ==
  CASE op = 190 -> X4(Add(a, b))
    [] op = 191 -> X4(SubU(a, b))
    [] op = 192 -> X4(Mul(a, b))
    [] op = 193 -> DivU32(a, b)
    [] op = 194 -> DivS32(a, b)
    [] op = 195 -> RemU32(a, b)
    [] op = 196 -> RemS32(a, b)
    [] op = 197 -> SExt(Shl(L4(a), Sh32(b)))
    [] op = 198 -> SExt(Shr(L4(a), Sh32(b)))
    [] op = 199 -> SExt(Sar(L4(a), Sh32(b)))
    [] op = 200 -> Add(a, b)
    [] op = 201 -> SubU(a, b)
    [] op = 202 -> Mul(a, b)
    [] op = 203 -> DivU64(a, b)
    [] op = 204 -> DivS64(a, b)
    [] op = 205 -> RemU64(a, b)
    [] op = 206 -> RemS64(a, b)
    [] op = 207 -> Shl(a, Sh64(b))
    [] op = 208 -> Shr(a, Sh64(b))
    [] op = 209 -> Sar(a, Sh64(b))
    [] op = 210 -> And(a, b)
    [] op = 211 -> Xor(a, b)
    [] op = 212 -> Or(a, b)
    [] op = 213 -> MulUpperSS(a, b)
    [] op = 214 -> MulHiU(a, b)
    [] op = 215 -> MulUpperSU(a, b)
    [] op = 216 -> Bool(LtU(a, b))
    [] op = 217 -> Bool(LtS(a, b))
    [] op = 220 -> RotL(a, Sh64(b))
    [] op = 221 -> SExt(RotL(L4(a), Sh32(b)))
    [] op = 222 -> RotR(a, Sh64(b))
    [] op = 223 -> SExt(RotR(L4(a), Sh32(b)))
    [] op = 224 -> And(a, NotB(b))
    [] op = 225 -> Or(a, NotB(b))
    [] op = 226 -> NotB(Xor(a, b))
    [] op = 227 -> MaxS(a, b)
    [] op = 228 -> MaxU(a, b)
    [] op = 229 -> MinSS(a, b)
    [] op = 230 -> MinU(a, b)

\* two registers + immediate arithmetic (131..161 except loads/stores/cmov): b = register B, x = immediate
Alu2i(op, b, x) ==
  CASE op = 131 -> X4(Add(b, x))
    [] op = 132 -> And(b, x)
    [] op = 133 -> Xor(b, x)
    [] op = 134 -> Or(b, x)
    [] op = 135 -> X4(Mul(b, x))
    [] op = 136 -> Bool(LtU(b, x))
    [] op = 137 -> Bool(LtS(b, x))
    [] op = 138 -> SExt(Shl(L4(b), Sh32(x)))
    [] op = 139 -> SExt(Shr(L4(b), Sh32(x)))
    [] op = 140 -> SExt(Sar(L4(b), Sh32(x)))
    [] op = 141 -> X4(SubU(x, b))
    [] op = 142 -> Bool(LtU(x, b))
    [] op = 143 -> Bool(LtS(x, b))
    [] op = 144 -> SExt(Shl(L4(x), Sh32(b)))
    [] op = 145 -> SExt(Shr(L4(x), Sh32(b)))
    [] op = 146 -> SExt(Sar(L4(x), Sh32(b)))
    [] op = 149 -> Add(b, x)
    [] op = 150 -> Mul(b, x)
    [] op = 151 -> Shl(b, Sh64(x))
    [] op = 152 -> Shr(b, Sh64(x))
    [] op = 153 -> Sar(b, Sh64(x))
    [] op = 154 -> SubU(x, b)
    [] op = 155 -> Shl(x, Sh64(b))
    [] op = 156 -> Shr(x, Sh64(b))
    [] op = 157 -> Sar(x, Sh64(b))
    [] op = 158 -> RotR(b, Sh64(x))
    [] op = 159 -> RotR(x, Sh64(b))
    [] op = 160 -> SExt(RotR(L4(b), Sh32(x)))
    [] op = 161 -> SExt(RotR(L4(x), Sh32(b)))

\* two-register unary operations 100, 102..111 (101 sbrk is separate)
Alu2(op, a) ==
  CASE op = 100 -> a
    [] op = 102 -> U(PopCount(a))
    [] op = 103 -> U(PopCount(L4(a)))
    [] op = 104 -> U(Clz(a))
    [] op = 105 -> U(Clz(L4(a)))
    [] op = 106 -> U(Ctz(a))
    [] op = 107 -> U(Ctz(L4(a)))
    [] op = 108 -> SExt(Low(a, 1))
    [] op = 109 -> SExt(Low(a, 2))
    [] op = 110 -> ZExt(Low(a, 2))
    [] op = 111 -> RevBytes(a)

BranchCondImm(op, a, x) ==
  CASE op = 80 -> TRUE
    [] op = 81 -> a = x
    [] op = 82 -> a # x
    [] op = 83 -> LtU(a, x)
    [] op = 84 -> LeU(a, x)
    [] op = 85 -> LeU(x, a)
    [] op = 86 -> LtU(x, a)
    [] op = 87 -> LtS(a, x)
    [] op = 88 -> LeS(a, x)
    [] op = 89 -> LeS(x, a)
    [] op = 90 -> LtS(x, a)
BranchCond(op, a, b) ==
  CASE op = 170 -> a = b
    [] op = 171 -> a # b
    [] op = 172 -> LtU(a, b)
    [] op = 173 -> LtS(a, b)
    [] op = 174 -> LeU(b, a)
    [] op = 175 -> LeS(b, a)

WidthOfStoreImm(op) == CASE op \in {30, 70} -> 1 [] op \in {31, 71} -> 2 [] op \in {32, 72} -> 4 [] op \in {33, 73} -> 8

\* the instruction at s.pc, already charged (s carries the reduced gas)
Exec(p, s) ==
  LET i == s.pc
      op == IF K(p, i) = 1 /\ Zeta(p, i) \in ValidOps THEN Zeta(p, i) ELSE 0
      l == Skip(p, i)
      nxt == i + 1 + l
      b1 == Zeta(p, i + 1)
      b2 == Zeta(p, i + 2)
      rlo == Min2(12, b1 % 16)
      rhi == Min2(12, b1 \div 16)
  IN
  CASE op = 0 -> Exit("panic", s, 0, U64Zero, 0, NoLoose)
    [] op = 1 -> Cont(s, nxt)
    [] op = 10 -> Exit("host", s, nxt, Imm(p, i + 1, Min2(4, l)), 0, NoLoose)
    [] op = 20 -> Cont(SetR(s, rlo, ZBytes(p, i + 2, 8)), nxt)
    [] op \in OpsImm2 ->
         LET lx == Min2(4, b1 % 8)
             ly == Min2(4, Max2(0, l - lx - 1))
             vx == Imm(p, i + 2, lx)
             vy == Imm(p, i + 2 + lx, ly)
         IN DoStore(s, vx, WidthOfStoreImm(op), vy, nxt)
    [] op = 40 -> Branch(p, s, Target(p, i, i + 1, Min2(4, l)), TRUE, nxt, s, NoLoose)
    [] op \in OpsRegImm ->
         LET lx == Min2(4, Max2(0, l - 1))
             vx == Imm(p, i + 2, lx)
             ra == rlo
         IN (CASE op = 50 -> Djump(p, s, Add(R(s, ra), vx), s, NoLoose)
               [] op = 51 -> Cont(SetR(s, ra, vx), nxt)
               [] op = 52 -> DoLoad(s, vx, 1, FALSE, ra, nxt)
               [] op = 53 -> DoLoad(s, vx, 1, TRUE, ra, nxt)
               [] op = 54 -> DoLoad(s, vx, 2, FALSE, ra, nxt)
               [] op = 55 -> DoLoad(s, vx, 2, TRUE, ra, nxt)
               [] op = 56 -> DoLoad(s, vx, 4, FALSE, ra, nxt)
               [] op = 57 -> DoLoad(s, vx, 4, TRUE, ra, nxt)
               [] op = 58 -> DoLoad(s, vx, 8, FALSE, ra, nxt)
               [] op = 59 -> DoStore(s, vx, 1, R(s, ra), nxt)
               [] op = 60 -> DoStore(s, vx, 2, R(s, ra), nxt)
               [] op = 61 -> DoStore(s, vx, 4, R(s, ra), nxt)
               [] op = 62 -> DoStore(s, vx, 8, R(s, ra), nxt))
    [] op \in OpsRegImm2 ->
         LET ra == rlo
             lx == Min2(4, (b1 \div 16) % 8)
             ly == Min2(4, Max2(0, l - lx - 1))
             vx == Imm(p, i + 2, lx)
             vy == Imm(p, i + 2 + lx, ly)
         IN DoStore(s, Add(R(s, ra), vx), WidthOfStoreImm(op), vy, nxt)
    [] op \in OpsRegImmOff ->
         LET ra == rlo
             lx == Min2(4, (b1 \div 16) % 8)
             ly == Min2(4, Max2(0, l - lx - 1))
             vx == Imm(p, i + 2, lx)
             tgt == Target(p, i, i + 2 + lx, ly)
         IN IF op = 80 THEN Branch(p, SetR(s, ra, vx), tgt, TRUE, nxt, SetR(s, ra, vx), NoLoose)   \* the register write is unconditional
            ELSE Branch(p, s, tgt, BranchCondImm(op, R(s, ra), vx), nxt, s, NoLoose)
    [] op \in OpsReg2 ->
         LET rd == rlo
             ra == rhi
         IN IF op = 101 THEN Cont(Sbrk(s, rd, R(s, ra)), nxt)
            ELSE Cont(SetR(s, rd, Alu2(op, R(s, ra))), nxt)
    [] op \in OpsReg2Imm ->
         LET ra == rlo
             rb == rhi
             lx == Min2(4, Max2(0, l - 1))
             vx == Imm(p, i + 2, lx)
             ad == Add(R(s, rb), vx)
         IN (CASE op = 120 -> DoStore(s, ad, 1, R(s, ra), nxt)
               [] op = 121 -> DoStore(s, ad, 2, R(s, ra), nxt)
               [] op = 122 -> DoStore(s, ad, 4, R(s, ra), nxt)
               [] op = 123 -> DoStore(s, ad, 8, R(s, ra), nxt)
               [] op = 124 -> DoLoad(s, ad, 1, FALSE, ra, nxt)
               [] op = 125 -> DoLoad(s, ad, 1, TRUE, ra, nxt)
               [] op = 126 -> DoLoad(s, ad, 2, FALSE, ra, nxt)
               [] op = 127 -> DoLoad(s, ad, 2, TRUE, ra, nxt)
               [] op = 128 -> DoLoad(s, ad, 4, FALSE, ra, nxt)
               [] op = 129 -> DoLoad(s, ad, 4, TRUE, ra, nxt)
               [] op = 130 -> DoLoad(s, ad, 8, FALSE, ra, nxt)
               [] op = 147 -> Cont(IF IsZero(R(s, rb)) THEN SetR(s, ra, vx) ELSE s, nxt)
               [] op = 148 -> Cont(IF ~IsZero(R(s, rb)) THEN SetR(s, ra, vx) ELSE s, nxt)
               [] OTHER -> Cont(SetR(s, ra, Alu2i(op, R(s, rb), vx)), nxt))
    [] op \in OpsReg2Off ->
         LET ra == rlo
             rb == rhi
             tgt == Target(p, i, i + 2, Min2(4, Max2(0, l - 1)))
         IN Branch(p, s, tgt, BranchCond(op, R(s, ra), R(s, rb)), nxt, s, NoLoose)
    [] op = 180 ->
         LET ra == rlo
             rb == rhi
             lx == Min2(4, b2 % 8)
             ly == Min2(4, Max2(0, l - lx - 2))
             vx == Imm(p, i + 3, lx)
             vy == Imm(p, i + 3 + lx, ly)
         IN Djump(p, SetR(s, ra, vx), Add(R(s, rb), vy), SetR(s, ra, vx), NoLoose)      \* register B is read before the write; the write is unconditional
    [] op \in OpsReg3 ->
         LET ra == rlo
             rb == rhi
             rd == Min2(12, b2)
         IN (CASE op = 218 -> Cont(IF IsZero(R(s, rb)) THEN SetR(s, rd, R(s, ra)) ELSE s, nxt)
               [] op = 219 -> Cont(IF ~IsZero(R(s, rb)) THEN SetR(s, rd, R(s, ra)) ELSE s, nxt)
               [] OTHER -> Cont(SetR(s, rd, Alu3(op, R(s, ra), R(s, rb))), nxt))

\* one step of A.6: out of gas leaves everything untouched; otherwise one unit is charged first
Step(p, s) == IF s.gas < 1 THEN Exit("oog", s, s.pc, U64Zero, 0, NoLoose)
              ELSE Exec(p, [s EXCEPT !.gas = s.gas - 1])

\* run to the next exit ("sbrk" counts as an exit here: the trace spec applies the observed effect and goes on)
RECURSIVE Run(_, _)
Run(p, s) == LET r == Step(p, s) IN IF r.exit = "cont" THEN Run(p, r.s) ELSE r

\* number of instructions Run executes before the exit (for gas sweeps), counting the exiting instruction
\* when it was charged
RECURSIVE Steps(_, _)
Steps(p, s) == LET r == Step(p, s) IN
               IF r.exit = "cont" THEN 1 + Steps(p, r.s) ELSE IF r.exit = "oog" THEN 0 ELSE 1
=============================================================================

------------------------------ MODULE PVM_Gen ------------------------------
(* G-step for C01/C02/C04/C05: writes the decode partition of PVM_Part as cases.    *)
EXTENDS PVM_Part, Json, TLC
CONSTANTS OutFile
VARIABLE x
ASSUME ndJsonSerialize(OutFile, OwnCases)
GenInit == x = 0
GenNext == FALSE /\ x' = x
=============================================================================

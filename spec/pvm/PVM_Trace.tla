----------------------------- MODULE PVM_Trace -----------------------------
(* V-step for C01 / C02 / C04 / C05.  One record per execution segment (from a     *)
(* start state to the next exit visible to the caller), stateless: each record     *)
(* carries the full start state and what each engine reported.                     *)
(*   {k:"seg", prog, pre:{pc,gas,regs,acc,data,hp,hl}, a:{..block engine via Host.HostCall..},    *)
(*    b:{..single-step engine..}}                                                   *)
(*   {k:"deblob", ok:false, prog}        the program (well-formed by construction) was refused     *)
(* Mode "c01": engine a against PVM.tla (every field).  Mode "c02": a and b against each other.    *)
(* Host environment of the driver (identical for both engines): identifiers below 256 leave the    *)
(* machine with a host exit; any other identifier is unknown: 10 gas, omega7 := WHAT, go on.       *)
EXTENDS PVM, Json, TLC, SequencesExt
CONSTANTS TraceFile, ResultFile, KnownDeviations, Mode
VARIABLES l, devs, bad

Trace == ndJsonDeserialize(TraceFile)

RangeOf(seq) == {seq[i] : i \in 1..Len(seq)}
AccOf(list) == LET S == RangeOf(list) IN [pg \in {t[1] : t \in S} |-> (CHOOSE t \in S : t[1] = pg)[2]]
DataOf(list) == LET S == {t \in RangeOf(list) : t[3] # 0}
                IN [key \in {<<t[1], t[2]>> : t \in S} |-> (CHOOSE t \in S : <<t[1], t[2]>> = key)[3]]
NormData(d) == LET ks == {key \in DOMAIN d : d[key] # 0} IN [key \in ks |-> d[key]]

StateOf(pre) == [pc |-> pre.pc, gas |-> pre.gas, regs |-> pre.regs, acc |-> AccOf(pre.acc),
                 data |-> DataOf(pre.data), hp |-> pre.hp, hl |-> pre.hl]

WHAT == <<254, 255, 255, 255, 255, 255, 255, 255>>
IsSmallId(arg) == \A i \in 2..8 : arg[i] = 0
\* run under the driver's host environment
RECURSIVE RunEnvK(_, _, _)
\* allUnknown: no host function at all is installed (invocation-level cases)
RunEnvK(p, s, allUnknown) ==
  LET r == Run(p, s) IN
  IF r.exit = "host" /\ (allUnknown \/ ~IsSmallId(r.arg))
  THEN IF r.s.gas < 10 THEN [r EXCEPT !.exit = "oog", !.arg = U64Zero, !.s.gas = -1]
       ELSE RunEnvK(p, [r.s EXCEPT !.gas = r.s.gas - 10, !.regs[8] = WHAT], allUnknown)
  ELSE r
RunEnv(p, s) == RunEnvK(p, s, FALSE)

\* ---- invocation level (Psi_M / R, A.8): a standard program with empty data sections and argument ----
Ample == 400
StdRegs == [i \in 1..13 |-> IF i = 1 THEN <<0, 0, 255, 255, 0, 0, 0, 0>>
                           ELSE IF i = 2 THEN <<0, 0, 254, 254, 0, 0, 0, 0>>
                           ELSE IF i = 8 THEN <<0, 0, 255, 254, 0, 0, 0, 0>> ELSE U64Zero]
StdState == [pc |-> 0, gas |-> Ample, regs |-> StdRegs, acc |-> <<>>, data |-> <<>>,
             hp |-> <<0, 0, 2, 0, 0, 0, 0, 0>>, hl |-> <<0, 0, 254, 254, 0, 0, 0, 0>>]
\* reasons why an invocation record is wrong: gas used must lie in 0..limit always; when the program
\* ends within Ample steps its full cost N is known: limit >= N => the same outcome with used = N;
\* limit < N => out of gas with used = limit
JudgeInvoke(e) ==
  IF e.res = "gopanic" THEN {"gopanic"}
  ELSE LET full == RunEnvK(e.prog, StdState, TRUE)
           bounded == ~(full.exit = "oog" /\ full.s.gas >= 0 /\ full.s.gas < 1) /\ full.exit # "oog"
           n == Ample - full.s.gas
           kind == IF full.exit = "halt" THEN "halt" ELSE "panic"
       IN (IF ~LeU(e.used, e.limit) THEN {"used>limit"} ELSE {})
          \cup (IF bounded /\ LeU(U(n), e.limit) /\ (e.res # kind \/ e.used # U(n)) THEN {"enough-gas:" \o e.res} ELSE {})
          \cup (IF bounded /\ LtU(e.limit, U(n)) /\ (e.res # "oog" \/ e.used # e.limit) THEN {"short-gas:" \o e.res} ELSE {})

\* page-fault address accepted anywhere from the start of the page of the access to its end (P-fault)
FaultOk(want, got) ==
  LET a == AddrOf(Low(want.arg, 4))
      g == AddrOf(Low(got.arg, 4))
      e == AddrOf(Add(Low(want.arg, 4), LE(want.n - 1, 4)))
  IN /\ \A i \in 5..8 : got.arg[i] = 0
     /\ (g.page > a.page \/ g.page = a.page)
     /\ (g.page < e.page \/ (g.page = e.page /\ g.off <= e.off))

\* reasons why observation o differs from the specified result w (empty set = conforms)
Diff(w, o) ==
  (IF o.exit # w.exit THEN {"exit"} ELSE {})
  \cup (IF o.exit = w.exit /\ w.exit = "host" /\ o.arg # w.arg THEN {"hostid"} ELSE {})
  \cup (IF o.exit = w.exit /\ w.exit = "fault" /\ ~FaultOk(w, o) THEN {"faultaddr"} ELSE {})
  \cup (IF o.exit = w.exit /\ o.pc # w.s.pc THEN {"pc"} ELSE {})
  \cup (IF (w.s.gas < 0 /\ ~o.gasneg) \/ (w.s.gas >= 0 /\ (o.gasneg \/ o.gas # w.s.gas)) THEN {"gas"} ELSE {})
  \cup (IF \E i \in 1..13 : (i - 1) \notin w.loose /\ o.regs[i] # w.s.regs[i] THEN {"regs"} ELSE {})
  \cup (IF NormData(DataOf(o.data)) # NormData(w.s.data) THEN {"mem"} ELSE {})
  \cup (IF AccOf(o.acc) # w.s.acc THEN {"access"} ELSE {})
  \cup (IF o.hp # w.s.hp THEN {"heap"} ELSE {})

\* C02: the two engines against each other (resume points normalised by the driver to "next instruction")
Diff2(a, b) ==
  (IF a.exit # b.exit THEN {"exit"} ELSE {})
  \cup (IF a.exit = b.exit /\ a.arg # b.arg THEN {"arg"} ELSE {})
  \cup (IF a.exit = b.exit /\ a.pc # b.pc THEN {"pc"} ELSE {})
  \cup (IF a.gas # b.gas \/ a.gasneg # b.gasneg THEN {"gas"} ELSE {})
  \cup (IF a.regs # b.regs THEN {"regs"} ELSE {})
  \cup (IF DataOf(a.data) # DataOf(b.data) THEN {"mem"} ELSE {})
  \cup (IF AccOf(a.acc) # AccOf(b.acc) THEN {"access"} ELSE {})
  \cup (IF a.hp # b.hp THEN {"heap"} ELSE {})

Order == <<"exit", "hostid", "faultaddr", "arg", "pc", "gas", "regs", "mem", "access", "heap">>
RECURSIVE JoinFrom(_, _)
JoinFrom(S, i) == IF i > Len(Order) THEN "" ELSE (IF Order[i] \in S THEN Order[i] \o "+" ELSE "") \o JoinFrom(S, i + 1)
JoinSet(S) == JoinFrom(S, 1)

NoWant == [exit |-> "-"]
Summary(w) == [exit |-> w.exit, arg |-> w.arg, pc |-> w.s.pc, gas |-> w.s.gas, regs |-> w.s.regs, hp |-> w.s.hp,
               loose |-> SetToSeq(w.loose), data |-> SetToSeq({<<k[1], k[2], w.s.data[k]>> : k \in DOMAIN NormData(w.s.data)})]
\* set of [why, want] labels; empty = the record conforms
Judge(e) ==
  IF e.k = "invoke" THEN {[why |-> y, want |-> NoWant] : y \in JudgeInvoke(e)}
  ELSE IF e.k = "deblob" THEN {[why |-> "deblob-refused" \o (IF e.gopanic # "" THEN "+gopanic" ELSE ""), want |-> NoWant]}
  ELSE IF Mode \in {"c01", "both"} THEN
    LET w == RunEnv(e.prog, StateOf(e.pre))
        ja == IF e.a.exit = "gopanic" THEN {[why |-> "gopanic", want |-> Summary(w)]}
              ELSE LET d == Diff(w, e.a) IN IF d = {} THEN {} ELSE {[why |-> JoinSet(d), want |-> Summary(w)]}
        \* mode "both" (C05): the single-step engine (used for inner machines) is held to the same specification
        jb == IF Mode = "c01" \/ e.b.exit = "skipped" THEN {}
              ELSE IF e.b.exit = "gopanic" THEN {[why |-> "stepengine:gopanic", want |-> Summary(w)]}
              ELSE LET d == Diff(w, e.b) IN IF d = {} THEN {} ELSE {[why |-> "stepengine:" \o JoinSet(d), want |-> Summary(w)]}
    IN ja \cup jb
  ELSE
    IF e.b.exit = "skipped" THEN {}
    ELSE IF e.a.exit = "gopanic" \/ e.b.exit = "gopanic"
         THEN (IF e.a.exit = e.b.exit THEN {} ELSE {[why |-> "gopanic-one-engine", want |-> NoWant]})
    ELSE LET d == Diff2(e.a, e.b) IN IF d = {} THEN {} ELSE {[why |-> JoinSet(d), want |-> NoWant]}

Init == l = 1 /\ devs = {} /\ bad = {}
Next == /\ l <= Len(Trace)
        /\ LET j == Judge(Trace[l]) IN
           /\ bad' = bad \cup {[l |-> l, why |-> y.why, want |-> y.want] : y \in j}
           /\ devs' = devs
        /\ l' = l + 1
TraceSpec == Init /\ [][Next]_<<l, devs, bad>>
Report == (l = Len(Trace) + 1) =>
  JsonSerialize(ResultFile, [n |-> l - 1, devs |-> SetToSeq(devs), bad |-> SetToSeq(bad)])
=============================================================================

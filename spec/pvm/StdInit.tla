------------------------------- MODULE StdInit -------------------------------
(* Standard program initialisation Y(p, a) — Gray Paper A.7 as written in          *)
(* DESIGN.md Appendix C ("Standard program").  Property C06.                        *)
(*                                                                                  *)
(*   p = E3(|o|) ++ E3(|w|) ++ E2(z) ++ E3(s) ++ o ++ w ++ E4(|c|) ++ c,  nothing   *)
(*   trailing;  valid iff 5 Z_Z + Z(|o|) + Z(|w| + z Z_P) + Z(s) + Z_I <= 2^32.     *)
(*   RO  [Z_Z, +|o|) = o, zeros up to P(|o|), access R                              *)
(*   RW  [2 Z_Z + Z(|o|), +|w|) = w, zeros up to P(|w|) + z Z_P, access W           *)
(*   stack [2^32 - 2 Z_Z - Z_I - P(s), 2^32 - 2 Z_Z - Z_I) zeros, access W          *)
(*   arg [2^32 - Z_Z - Z_I, +|a|) = a, zeros up to P(|a|), access R                 *)
(*   every other page inaccessible (absent).                                        *)
(*   phi0 = 2^32 - 2^16, phi1 = 2^32 - 2 Z_Z - Z_I, phi7 = 2^32 - Z_Z - Z_I,        *)
(*   phi8 = |a|, all other registers 0.                                             *)
(*                                                                                  *)
(* Units.  TLC integers are 32-bit and 2^32 is not representable, so addresses are  *)
(* PAGE NUMBERS (2^20 pages of Z_P = 2^12 bytes) plus byte offsets inside a page;    *)
(* the size condition is evaluated in ZONES of Z_Z = 2^16 (2^16 zones).  All four   *)
(* regions start on a page boundary, so nothing is lost.  Register values are       *)
(* 8-byte little-endian tuples.                                                     *)
(*                                                                                  *)
(* Byte strings are LAZY: a blob is a sequence of segments, either literal bytes or *)
(* a non-zero pattern of a given length (Pat), so that blobs of 16 MB can be parsed *)
(* and compared without materialising them.  ByteAt / NonZeroIn are the only        *)
(* accessors the definitions use.                                                   *)
(*                                                                                  *)
(* Permissive clauses: none in the layout.  Blobs with trailing bytes are malformed *)
(* (p must EQUAL the concatenation).  The 2^32 condition can never fail for fields  *)
(* of the given widths (MaxLayoutFits, checked by MC_StdInit); it is specified      *)
(* anyway.  Arguments are at most Z_I bytes (domain of Y).                          *)
EXTENDS Bytes

ZP == 4096
ZZ == 65536
PagesPerZone == 16
ZIPages == 4096            \* Z_I / Z_P
ZIZones == 256             \* Z_I / Z_Z
ZIBytes == 16777216
TopPage == 1048576         \* 2^32 / Z_P
TopZone == 65536           \* 2^32 / Z_Z

PagesOf(x) == (x + ZP - 1) \div ZP          \* P(x) / Z_P
ZonesOf(x) == (x + ZZ - 1) \div ZZ          \* Z(x) / Z_Z

\* ---------------------------------------------------------------- lazy byte strings
\* segment: [k |-> "lit", b |-> bytes, sd |-> 0, n |-> Len(b)]  or  [k |-> "pat", b |-> <<>>, sd |-> seed, n |-> length]
\*          or  [k |-> "zero", b |-> <<>>, sd |-> 0, n |-> length]
Lit(bytes) == [k |-> "lit", b |-> bytes, sd |-> 0, n |-> Len(bytes)]
PatSeg(sd, n) == [k |-> "pat", b |-> <<>>, sd |-> sd, n |-> n]
ZeroSeg(n) == [k |-> "zero", b |-> <<>>, sd |-> 0, n |-> n]          \* n zero bytes

\* pattern bytes are never zero; the period (255) does not divide the page size
Pat(sd, i) == 1 + ((i * (2 * (sd % 50) + 1) + sd) % 255)

RECURSIVE BLen(_)
BLen(bs) == IF bs = <<>> THEN 0 ELSE Head(bs).n + BLen(Tail(bs))

\* byte at 0-based index i (caller guarantees 0 <= i < BLen(bs))
RECURSIVE ByteAt(_, _)
ByteAt(bs, i) ==
  LET h == Head(bs) IN
  IF i < h.n THEN (IF h.k = "lit" THEN h.b[i + 1] ELSE IF h.k = "zero" THEN 0 ELSE Pat(h.sd, i))
  ELSE ByteAt(Tail(bs), i - h.n)

\* byte at i, zero beyond the end
ByteAtZ(bs, i) == IF i >= 0 /\ i < BLen(bs) THEN ByteAt(bs, i) ELSE 0

RECURSIVE CountNZ(_, _, _)
CountNZ(b, from, to) == IF from > to THEN 0 ELSE (IF b[from] # 0 THEN 1 ELSE 0) + CountNZ(b, from + 1, to)

\* number of non-zero bytes in bs[from, to)  (0-based, half open, clipped to the string)
RECURSIVE NonZeroIn(_, _, _)
NonZeroIn(bs, from, to) ==
  IF bs = <<>> \/ to <= 0 \/ from >= to THEN 0
  ELSE LET h == Head(bs)
           lo == Max2(from, 0)
           hi == Min2(to, h.n)
           here == IF hi <= lo THEN 0
                   ELSE IF h.k = "pat" THEN hi - lo
                   ELSE IF h.k = "zero" THEN 0
                   ELSE CountNZ(h.b, lo + 1, hi)
       IN here + NonZeroIn(Tail(bs), from - h.n, to - h.n)

\* the sub-string bs[from, from+len) as a lazy view: (string, offset, length)
View(bs, from, len) == [bs |-> bs, at |-> from, len |-> len]
VByte(v, i) == IF i >= 0 /\ i < v.len THEN ByteAt(v.bs, v.at + i) ELSE 0     \* zero-extended
VNonZero(v, from, to) == NonZeroIn(v.bs, v.at + Max2(from, 0), v.at + Min2(to, v.len))

\* materialise (small strings only)
Materialize(bs) == [i \in 1..BLen(bs) |-> ByteAt(bs, i - 1)]

\* ---------------------------------------------------------------- blob grammar
LE3(x) == LE(x, 3)
LE2(x) == LE(x, 2)
LE4(x) == LE(x, 4)

\* little-endian field of n <= 3 bytes at offset `at`
FieldAt(bs, at, n) == FromLE([i \in 1..n |-> ByteAt(bs, at + i - 1)])

Bad(why) == [ok |-> FALSE, why |-> why, ol |-> 0, wl |-> 0, z |-> 0, s |-> 0, cl |-> 0]

\* strict parse: the blob must be exactly header ++ o ++ w ++ E4(|c|) ++ c
\* PrefixOnly = TRUE gives the parse that ignores trailing bytes (what a pure field reader sees)
StdParseG(bs, PrefixOnly) ==
  LET n == BLen(bs) IN
  IF n < 11 THEN Bad("short_header")
  ELSE
    LET ol == FieldAt(bs, 0, 3)
        wl == FieldAt(bs, 3, 3)
        z  == FieldAt(bs, 6, 2)
        s  == FieldAt(bs, 8, 3)
    IN IF n < 11 + ol THEN Bad("short_o")
       ELSE IF n < 11 + ol + wl THEN Bad("short_w")
       ELSE IF n < 15 + ol + wl THEN Bad("short_clen")
       ELSE IF ByteAt(bs, 14 + ol + wl) >= 128 THEN Bad("short_c")       \* |c| >= 2^31 exceeds any blob
       ELSE LET cl == FieldAt(bs, 11 + ol + wl, 3) + 16777216 * ByteAt(bs, 14 + ol + wl) IN
            IF n - (15 + ol + wl) < cl THEN Bad("short_c")
            ELSE IF ~PrefixOnly /\ n - (15 + ol + wl) > cl THEN Bad("trailing")
            ELSE [ok |-> TRUE, why |-> "", ol |-> ol, wl |-> wl, z |-> z, s |-> s, cl |-> cl]

StdParse(bs) == StdParseG(bs, FALSE)
StdParsePrefix(bs) == StdParseG(bs, TRUE)

OView(bs, p) == View(bs, 11, p.ol)
WView(bs, p) == View(bs, 11 + p.ol, p.wl)
CView(bs, p) == View(bs, 15 + p.ol + p.wl, p.cl)

\* serialisation of concrete (small) parts
StdBlob(o, w, z, s, c) == LE3(Len(o)) \o LE3(Len(w)) \o LE2(z) \o LE3(s) \o o \o w \o LE4(Len(c)) \o c

\* ---------------------------------------------------------------- layout
\* total layout in zones: (5 Z_Z + Z(|o|) + Z(|w| + z Z_P) + Z(s) + Z_I) / Z_Z
TotalZones(ol, wl, z, s) == 5 + ZonesOf(ol) + ZonesOf(wl + z * ZP) + ZonesOf(s) + ZIZones
Fits(ol, wl, z, s) == TotalZones(ol, wl, z, s) <= TopZone

StackEndPage == TopPage - 2 * PagesPerZone - ZIPages      \* (2^32 - 2 Z_Z - Z_I) / Z_P
ArgStartPage == TopPage - PagesPerZone - ZIPages          \* (2^32 - Z_Z - Z_I) / Z_P

\* a region: first page, number of pages, number of leading data bytes, access ("R"/"W"), name
Regions(ol, wl, z, s, al) ==
  << [name |-> "ro",    start |-> PagesPerZone,                               pages |-> PagesOf(ol),     dlen |-> ol, acc |-> "R"],
     [name |-> "rw",    start |-> 2 * PagesPerZone + PagesPerZone * ZonesOf(ol), pages |-> PagesOf(wl) + z, dlen |-> wl, acc |-> "W"],
     [name |-> "stack", start |-> StackEndPage - PagesOf(s),                  pages |-> PagesOf(s),      dlen |-> 0,  acc |-> "W"],
     [name |-> "arg",   start |-> ArgStartPage,                               pages |-> PagesOf(al),     dlen |-> al, acc |-> "R"] >>

REnd(r) == r.start + r.pages      \* first page after the region

\* registers as 8-byte little-endian tuples.  Address of page p = p * 2^12.
PageAddrLE(p) == << 0, (p % 16) * 16, (p \div 16) % 256, p \div 4096, 0, 0, 0, 0 >>
IntLE8(x) == LE(x, 8)
Zero8 == Zeros(8)
InitRegs(al) == [i \in 1..13 |->
                  IF i = 1 THEN PageAddrLE(TopPage - PagesPerZone)       \* phi0 = 2^32 - 2^16
                  ELSE IF i = 2 THEN PageAddrLE(StackEndPage)            \* phi1
                  ELSE IF i = 8 THEN PageAddrLE(ArgStartPage)            \* phi7
                  ELSE IF i = 9 THEN IntLE8(al)                          \* phi8
                  ELSE Zero8]

\* ---------------------------------------------------------------- design properties (MC_StdInit)
\* regions are ordered, pairwise separated by at least one inaccessible zone, and avoid the
\* first and the last zone
Ordered(rs) == \A i \in 1..(Len(rs) - 1) : REnd(rs[i]) + PagesPerZone <= rs[i + 1].start
InBounds(rs) == \A i \in 1..Len(rs) : rs[i].start >= PagesPerZone /\ REnd(rs[i]) <= TopPage - PagesPerZone
DataInside(rs) == \A i \in 1..Len(rs) : PagesOf(rs[i].dlen) <= rs[i].pages
ZoneAligned(rs) == rs[1].start % PagesPerZone = 0 /\ rs[2].start % PagesPerZone = 0
                   /\ REnd(rs[3]) % PagesPerZone = 0 /\ rs[4].start % PagesPerZone = 0
LayoutInv(ol, wl, z, s, al) ==
  Fits(ol, wl, z, s) /\ al <= ZIBytes =>
    LET rs == Regions(ol, wl, z, s, al) IN Ordered(rs) /\ InBounds(rs) /\ DataInside(rs) /\ ZoneAligned(rs)

\* with three-byte lengths and a two-byte z the layout always fits
MaxLayoutFits == Fits(16777215, 16777215, 65535, 16777215)
=============================================================================

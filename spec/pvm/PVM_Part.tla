------------------------------ MODULE PVM_Part ------------------------------
(* The DECODE PARTITION used by the G-step (PVM_Gen) and the design check (MC_PVM).  For every opcode (all 139 valid ones  *)
(* and representatives of the invalid bytes) TLC enumerates the fields that the     *)
(* opcode's operand format (A.5) actually reads -- register nibbles incl. values    *)
(* above 12, length selectors incl. the mod-8 wrap (8, 9, 15) and the clamp to 4,   *)
(* sign bytes -- times the distance to the next instruction start (skip 0..24 and   *)
(* beyond the clamp), times the position of the instruction in the code (first,     *)
(* after another instruction, last: operands then come from the zero extension).    *)
(* Representatives instead of the full 256 x 65536 x 25 x 3 product: the decoders   *)
(* depend on the first two operand bytes only through the fields listed per format. *)
EXTENDS PVM, SequencesExt
CONSTANTS Tier, OpsPick

Pattern == <<1, 128, 255, 127, 2, 0, 254, 16, 3, 64, 5, 250, 7, 8, 9, 10, 11, 12, 13, 14, 15, 17, 18, 19, 20, 21>>
Operand(b1, b2, l) == Sub(<<b1, b2>> \o Pattern, 1, l)

InvalidReps == {2, 9, 11, 19, 21, 34, 63, 74, 91, 112, 162, 176, 181, 189, 231, 255}
RegPairs == {0, 16, 7, 123, 193, 205, 220, 255, 143, 154, 33, 64, 83}      \* low/high nibbles 0..15 incl. > 12; high nibble = length selector 0..5,7,8,9,12,13,15
RegOnly == {0, 7, 28, 253, 139}
Sel8 == {0, 1, 2, 3, 4, 5, 7, 8, 9, 15, 227, 255}
ImmByte == {1, 128}
AllL == {0, 1, 2, 3, 4, 5, 6, 7, 8, 9, 10, 11, 24, 25, 26}
FewL == {0, 1, 2, 3, 24, 25}

\* the combinations <<b1, b2, l>> worth distinguishing for opcode op
Combos(op) ==
  IF op \notin ValidOps \/ op \in OpsNoArg THEN {<<1, 128, l>> : l \in {0, 1, 24}}
  ELSE IF op \in OpsReg3 THEN {<<b1, b2, l>> : b1 \in RegPairs, b2 \in {0, 5, 12, 13, 128, 255}, l \in FewL}
  ELSE IF op \in OpsReg2Imm \/ op \in OpsReg2Off \/ op \in OpsRegImm2 \/ op \in OpsRegImmOff
       THEN {<<b1, b2, l>> : b1 \in RegPairs, b2 \in ImmByte, l \in AllL}
  ELSE IF op \in OpsReg2 THEN {<<b1, 1, l>> : b1 \in RegPairs, l \in {0, 1, 2, 24}}
  ELSE IF op \in OpsRegImm THEN {<<b1, b2, l>> : b1 \in RegOnly, b2 \in ImmByte, l \in AllL}
  ELSE IF op \in OpsImm2 THEN {<<b1, b2, l>> : b1 \in Sel8, b2 \in ImmByte, l \in AllL}
  ELSE IF op \in OpsReg2Imm2 THEN {<<b1, b2, l>> : b1 \in RegPairs, b2 \in Sel8, l \in AllL}
  ELSE {<<b1, b2, l>> : b1 \in {0, 1, 127, 128, 255}, b2 \in ImmByte, l \in AllL}     \* imm, off, regext

Ops == IF Tier = "thorough" THEN ValidOps \cup InvalidReps ELSE OpsPick
Positions == {"first", "mid", "last"}

\* code: [fallthrough] instr [fallthrough trap]; a distance above 25 leaves the bytes beyond the clamp
\* inside the instruction (no further instruction start among them)
Prog(op, c, pos) ==
  LET instr == <<op>> \o Operand(c[1], c[2], c[3])
      pre == IF pos = "first" THEN <<>> ELSE <<1>>
      post == IF pos = "last" THEN <<>> ELSE <<1, 0>>
      im == <<1>> \o Rep(0, c[3])
  IN [code |-> pre \o instr \o post,
      mask |-> [i \in 1..Len(pre) |-> 1] \o im \o [i \in 1..Len(post) |-> 1],
      jt |-> <<Len(pre), 0, Len(pre) + 1 + c[3]>>, z |-> 2]

\* enumerate small keys first (cheap to normalise), then expand each key into its case record
Keys == UNION {{<<op, c, pos>> : c \in Combos(op), pos \in Positions} : op \in Ops}
CaseOf(k) == [op |-> k[1], b1 |-> k[2][1], b2 |-> k[2][2], l |-> k[2][3], pos |-> k[3], prog |-> Prog(k[1], k[2], k[3]),
              pc |-> IF k[3] = "first" THEN 0 ELSE 1]
\* ---- jump-target partition (A.17 / A.18): every kind of jump x every class of target ----
\* fixed target area:  0 fallthrough | 1 load_imm r0,7 (basic block) | 4 load_imm r1,9 (instruction, not a block start)
\* | 7 <invalid 2> | 8 load_imm r2,5 (follows an invalid opcode: not a block start) | 11 trap | 12 <invalid 2> (follows a
\* terminator but holds no valid opcode) | 13 fallthrough | 14 the jump under test (a block start: a self jump loops) | trap
JArea == <<1, 51, 0, 7, 51, 1, 9, 2, 51, 2, 5, 0, 2, 1>>
JAreaMask == <<1, 1, 0, 0, 1, 0, 0, 1, 1, 0, 0, 1, 1, 1>>
JTargets == <<1, 4, 8, 12, 2, 14, 0, 11>>       \* block, instr, after-invalid, invalid-at-block-position, mid-instruction, self, start, trap
JKinds == {"jump", "load_imm_jump", "branch_eq", "jump_ind", "load_imm_jump_ind", "beyond", "negative"}
Off1(t) == (t - 14 + 256) % 256                       \* one-byte offset relative to position 14
JInstr(kind, ti) ==
  CASE kind = "jump" -> <<40, Off1(JTargets[ti])>>
    [] kind = "load_imm_jump" -> <<80, 19, 77, Off1(JTargets[ti])>>          \* ra = 3, lX = 1, imm 77
    [] kind = "branch_eq" -> <<170, 68, Off1(JTargets[ti])>>                  \* ra = rb = 4: always taken
    [] kind = "jump_ind" -> <<50, 5, 2 * ti>>                                 \* r5 = 0, imm = 2*ti: jump-table entry ti
    [] kind = "load_imm_jump_ind" -> <<180, 86, 17, 66, 2 * ti>>              \* ra = 6, rb = 5, lX = 1 (imm 66), vY = 2*ti
    [] kind = "beyond" -> <<40, ti + 2>>                                      \* just past the jump, the end of the code and beyond
    [] kind = "negative" -> <<40, 200 + ti>>                                  \* before position 0 (wraps around 2^32)
JProg(kind, ti) == LET ins == JInstr(kind, ti) IN
  [code |-> JArea \o ins \o <<0>>, mask |-> JAreaMask \o <<1>> \o Rep(0, Len(ins) - 1) \o <<1>>,
   jt |-> JTargets, z |-> 1]
JKeys == {<<kind, ti>> : kind \in JKinds, ti \in 1..Len(JTargets)}
JCaseOf(k) == [op |-> JProg(k[1], k[2]).code[15], b1 |-> k[2], b2 |-> 0, l |-> 0, pos |-> k[1], prog |-> JProg(k[1], k[2]), pc |-> 14]

OwnCases == LET ks == SetToSeq(Keys)
                js == SetToSeq(JKeys)
            IN [i \in 1..Len(ks) |-> CaseOf(ks[i])] \o [i \in 1..Len(js) |-> JCaseOf(js[i])]
=============================================================================

----------------------------- MODULE StdInit_Gen -----------------------------
(* G-step for C06: TLC enumerates standard-program blobs as lazy segment lists.     *)
(*  valid  : the full product of the quantifier's size classes (|o|, |w|, z, s, |a|) *)
(*           with pattern contents whose seeds depend on the tuple and on Seed;     *)
(*  shaped : data with leading / trailing / page-filling zero bytes;                *)
(*  mal    : for a few base tuples — truncation at every field boundary -1/0/+1,    *)
(*           trailing bytes, every declared length -1/+1, |c| = 2^31, 2^32-1;       *)
(*  big    : (thorough) one-at-a-time large sizes: 2^24-1, z = 65535, |a| = Z_I ... *)
(*  heapmax: z = 65535 with one byte of RW data (heap of 2^16 pages) in every tier.  *)
(* In the quick tier `valid` is a Seed-chosen fifteenth of the product (Pick).       *)
EXTENDS StdInit, Json, TLC, SequencesExt
CONSTANTS OutFile, Tier, Seed
VARIABLE x

Sizes == {0, 1, 4095, 4096, 4097, 65535, 65536, 65537}
Zs == {0, 1, 15, 16, 17}
Ss == {0, 1, 4095, 4096, 65536}
As == {0, 1, 4095, 4096, 4097}

Sd(a, b, c) == (a * 7 + b * 3 + c + Seed * 13) % 255

Header(ol, wl, z, s) == Lit(LE3(ol) \o LE3(wl) \o LE2(z) \o LE3(s))
\* a well-formed blob with pattern contents
Blob(ol, wl, z, s, cl) == << Header(ol, wl, z, s), PatSeg(Sd(ol, wl, 1), ol), PatSeg(Sd(wl, z, 2), wl),
                             Lit(LE4(cl)), PatSeg(Sd(s, cl, 3), cl) >>
Arg(al, k) == << PatSeg(Sd(al, k, 4), al) >>

RECURSIVE Cut(_, _)
Cut(bs, k) == IF bs = <<>> \/ k <= 0 THEN <<>>
              ELSE LET h == Head(bs) IN
                   IF h.n <= k THEN <<h>> \o Cut(Tail(bs), k - h.n)
                   ELSE << IF h.k = "lit" THEN Lit(Sub(h.b, 1, k)) ELSE PatSeg(h.sd, k) >>

Case(tag, blob, arg) == [tag |-> tag, blob |-> blob, arg |-> arg]

\* quick: a Seed-dependent fifteenth of the product (every value of every dimension still occurs); thorough: all of it
Pick(t) == Tier = "thorough" \/ ((t[1] % 97) * 7 + (t[2] % 89) * 11 + t[3] * 13 + (t[4] % 83) * 17 + (t[5] % 79) * 19 + Seed * 23) % 15 = 0
Tuples == {t \in Sizes \X Sizes \X Zs \X Ss \X As : Pick(t)}
Valid == {Case("valid", Blob(t[1], t[2], t[3], t[4], (t[1] + t[3]) % 3), Arg(t[5], t[1] + t[2])) : t \in Tuples}

\* data with zero bytes in it: leading zeros, a zero tail that fills the last page, a whole zero page in the middle
ZLead(n) == <<Lit(<<0, 0, 0, 5>>), PatSeg(9, n - 4)>>
ZTail(n) == <<PatSeg(11, n - 3), Lit(<<0, 0, 0>>)>>
ZMid == <<PatSeg(12, 4096), Lit(Zeros(64)), PatSeg(13, 10)>>             \* 4170 bytes
ShapedData == {ZLead(8), ZLead(4097), ZTail(4096), ZTail(4099), ZTail(8192), ZMid, <<Lit(Zeros(40))>>, <<Lit(<<0>>)>>}
Shaped == {Case("shaped", <<Header(BLen(d1), BLen(d2), z, 4096)>> \o d1 \o d2 \o <<Lit(LE4(2)), Lit(<<1, 2>>)>>, d3)
             : d1 \in ShapedData, d2 \in ShapedData, z \in {0, 1}, d3 \in {ZLead(8), ZTail(4099), <<Lit(Zeros(40))>>}}

Bases == {<<0, 0, 0, 0, 0>>, <<1, 1, 1, 1, 1>>, <<5, 4, 16, 32, 7>>, <<4096, 4097, 2, 4096, 3>>, <<0, 65537, 0, 1, 0>>}
Boundaries(t) == {0, 3, 6, 8, 11, 11 + t[1], 11 + t[1] + t[2], 15 + t[1] + t[2], 15 + t[1] + t[2] + t[5]}
CutPoints(t) == {k \in UNION {{b - 1, b, b + 1} : b \in Boundaries(t)} : k >= 0 /\ k < 15 + t[1] + t[2] + t[5]}
MalCut == UNION {{Case("cut", Cut(Blob(t[1], t[2], t[3], t[4], t[5]), k), Arg(3, k)) : k \in CutPoints(t)} : t \in Bases}
MalTrail == UNION {{Case("trail", Blob(t[1], t[2], t[3], t[4], t[5]) \o <<Lit(x1)>>, Arg(3, 0)) : x1 \in {<<0>>, <<1>>, <<0, 0, 0, 0>>, Rep(3, 16)}} : t \in Bases}
\* declared lengths that disagree with the data present
DataOf(t) == <<PatSeg(21, t[1]), PatSeg(22, t[2])>>
MalField == UNION {
   {Case("field", <<Header(Max2(t[1] + d[1], 0), Max2(t[2] + d[2], 0), t[3], t[4])>> \o DataOf(t) \o <<Lit(LE4(Max2(t[5] + d[3], 0))), PatSeg(23, t[5])>>, Arg(3, 1))
      : d \in {<<1, 0, 0>>, <<-1, 0, 0>>, <<0, 1, 0>>, <<0, -1, 0>>, <<0, 0, 1>>, <<0, 0, -1>>, <<1, -1, 0>>, <<-1, 1, 0>>, <<1, 0, -1>>, <<0, 1, -1>>}}
   \cup {Case("field", <<Header(t[1], t[2], t[3], t[4])>> \o DataOf(t) \o <<Lit(c4), PatSeg(23, t[5])>>, Arg(3, 2))
      : c4 \in {<<255, 255, 255, 255>>, <<0, 0, 0, 128>>, <<255, 255, 255, 127>>, <<0, 0, 0, 1>>}}
   \cup {Case("field", <<Lit(LE3(16777215) \o LE3(t[2]) \o LE2(t[3]) \o LE3(t[4]))>> \o DataOf(t) \o <<Lit(LE4(t[5])), PatSeg(23, t[5])>>, Arg(3, 2)),
         Case("field", <<Lit(LE3(t[1]) \o LE3(16777215) \o LE2(t[3]) \o LE3(t[4]))>> \o DataOf(t) \o <<Lit(LE4(t[5])), PatSeg(23, t[5])>>, Arg(3, 2))}
   : t \in Bases}

\* one-at-a-time large sizes (each allocates up to ~270 MB in the code under test)
BigTuples == {<<16777215, 1, 0, 0, 1>>, <<1, 16777215, 1, 0, 1>>, <<1, 1, 65535, 1, 1>>, <<1, 1, 0, 16777215, 1>>,
              <<1, 1, 0, 0, 16777216>>, <<1, 1, 0, 0, 16777215>>, <<131073, 131071, 4096, 65537, 65537>>,
              <<8192, 8193, 31, 8192, 8192>>, <<8191, 131072, 33, 65535, 65535>>, <<1, 1, 1, 1, 8417281>>,
              <<2, 2, 2, 2, 8417280>>, <<65536, 65536, 65535, 16777215, 65536>>}
Big == IF Tier = "thorough" THEN {Case("big", Blob(t[1], t[2], t[3], t[4], 1), Arg(t[5], 5)) : t \in BigTuples} ELSE {}
\* argument sizes beyond the base product, small program
ArgSizes == {2, 8191, 8192, 8193, 12288, 65535, 65536, 65537, 131072}
Args == {Case("args", Blob(ol, 1, 1, 1, 1), Arg(al, 6)) : ol \in {0, 4097}, al \in ArgSizes}

\* the largest heap: P(|w|)/Z_P + z reaches 2^16 pages (a 16-bit page count would wrap).  One case in every
\* tier (it maps 268 MB in the code under test), the neighbours in the thorough tier
HeapMax == {Case("heapmax", Blob(0, 1, 65535, 0, 0), Arg(0, 7))}
           \cup (IF Tier = "thorough" THEN {Case("heapmax", Blob(0, 4097, 65534, 0, 0), Arg(0, 7)), Case("heapmax", Blob(1, 0, 65535, 1, 0), Arg(1, 7)),
                                            Case("heapmax", Blob(0, 4096, 65535, 0, 0), Arg(0, 7))} ELSE {})

\* the largest arguments of Y's domain (a is at most Z_I bytes): Z_I - 1 and Z_I, in every tier
\* (pattern head and tail, zeros in between: the projection stays small - two data pages, one zero run, two data pages)
EdgeArg(al) == <<PatSeg(Sd(al, 1, 8), 4101), ZeroSeg(al - 8202), PatSeg(Sd(al, 2, 8), 4101)>>
ArgMax == {Case("argmax", Blob(0, 0, 0, 0, 0), EdgeArg(al)) : al \in {16777215, 16777216}}
          \cup (IF Tier = "thorough" THEN {Case("argmax", Blob(1, 4097, 1, 1, 0), EdgeArg(al)) : al \in {16773120, 16777215, 16777216}} ELSE {})

Cases == HeapMax \cup ArgMax \cup Valid \cup Shaped \cup MalCut \cup MalTrail \cup MalField \cup Big \cup Args
ASSUME ndJsonSerialize(OutFile, SetToSeq(Cases))
ASSUME PrintT(<<"GEN", Cardinality(Cases), Cardinality(Valid)>>)
GenInit == x = 0
GenNext == FALSE /\ x' = x
=============================================================================

---------------------------- MODULE PVM_AluPart ----------------------------
(* Arithmetic boundary partition for C01/C02: every three-register opcode and every *)
(* two-register-plus-immediate ALU opcode on all pairs of boundary operand values    *)
(* (0, +-1, the 32- and 64-bit extremes and their neighbours, shift amounts around   *)
(* 32 and 64, values whose low and high halves disagree in sign).                   *)
EXTENDS PVM, SequencesExt
CONSTANTS Tier, OpsPick

B(b0, b1, b2, b3, b4, b5, b6, b7) == <<b0, b1, b2, b3, b4, b5, b6, b7>>
ValSeq == << U64Zero, U(1), U(2), UMax, B(254,255,255,255,255,255,255,255),
          B(0,0,0,128,255,255,255,255),        \* -2^31
          B(255,255,255,127,0,0,0,0),          \* 2^31-1
          B(0,0,0,128,0,0,0,0),                \* 2^31
          B(255,255,255,255,0,0,0,0),          \* 2^32-1
          B(0,0,0,0,1,0,0,0),                  \* 2^32
          B(0,0,0,128,1,0,0,0),                \* low half -2^31, high half 1
          B(255,255,255,255,254,255,255,127),  \* low half -1, high half large positive
          B(0,0,0,0,0,0,0,128),                \* -2^63
          B(255,255,255,255,255,255,255,127),  \* 2^63-1
          B(1,0,0,0,0,0,0,128),                \* -2^63+1
          U(31), U(32), U(33), U(63), U(64), U(65), U(255), B(26,0,0,0,0,0,0,0) >>
ImmSeq == << <<0,0,0,0>>, <<1,0,0,0>>, <<255,255,255,255>>, <<0,0,0,128>>, <<255,255,255,127>>, <<31,0,0,0>>, <<32,0,0,0>>,
             <<33,0,0,0>>, <<63,0,0,0>>, <<64,0,0,0>>, <<254,255,255,255>>, <<224,255,255,255>> >>
AluImmOps == (131..161)
Ops3 == OpsReg3
OpsI == AluImmOps

\* three registers: rd = 3, ra = 1, rb = 2 (byte 0x21, then 3); two registers + immediate: ra(dst) = 1, rb(src) = 2
Prog3(op) == [code |-> <<op, 33, 3, 0>>, mask |-> <<1, 0, 0, 1>>, jt |-> <<>>, z |-> 0]
ProgI(op, imm) == [code |-> <<op, 33>> \o imm \o <<0>>, mask |-> <<1, 0, 0, 0, 0, 0, 1>>, jt |-> <<>>, z |-> 0]
Regs3(a, b) == [i \in 1..13 |-> IF i = 2 THEN a ELSE IF i = 3 THEN b ELSE IF i = 4 THEN B(170,170,170,170,170,170,170,170) ELSE U(i)]
RegsI(b) == [i \in 1..13 |-> IF i = 3 THEN b ELSE IF i = 2 THEN B(170,170,170,170,170,170,170,170) ELSE U(i)]
StateA(regs) == [pc |-> 0, gas |-> 2, regs |-> regs, acc |-> <<>>, data |-> <<>>, hp |-> U(0), hl |-> U(0)]
\* keys hold indices into ValSeq / ImmSeq (small tuples are cheap to enumerate)
\* quick tier: every ALU opcode on all pairs of a core subset of the values (0, 1, -1, -2^31, 2^31, 2^32-1, -2^63)
CoreV == IF Tier = "thorough" THEN 1..Len(ValSeq) ELSE {1, 2, 4, 6, 8, 9, 13}
CoreI == IF Tier = "thorough" THEN 1..Len(ImmSeq) ELSE {1, 2, 3, 4, 7, 9}
Keys3 == {<<op, a, b>> : op \in Ops3, a \in CoreV, b \in CoreV}
KeysI == {<<op, imm, b>> : op \in OpsI, imm \in CoreI, b \in CoreV}
=============================================================================

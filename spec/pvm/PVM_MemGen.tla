----------------------------- MODULE PVM_MemGen -----------------------------
(* G-step for C05: the memory partition of PVM_MemPart as driver cases.             *)
EXTENDS PVM_MemPart, Json, TLC
CONSTANTS OutFile
VARIABLE x
AccList(f) == SetToSeq({<<pg, f[pg]>> : pg \in DOMAIN f})
DataList(f) == SetToSeq({<<k[1], k[2], f[k]>> : k \in DOMAIN f})
CaseOf(id, p, s) == [id |-> id, tag |-> id, prog |-> p, pc |-> s.pc, gas |-> s.gas, regs |-> s.regs, acc |-> AccList(s.acc),
                     data |-> DataList(s.data), hp |-> s.hp, hl |-> s.hl]
Out == LET mk == SetToSeq(MemKeys)
           sk == SetToSeq(SbrkKeys)
       IN [i \in 1..Len(mk) |-> CaseOf("mem", MemProg(mk[i][1], mk[i][2]), MemState(mk[i][2]))]
          \o [i \in 1..Len(sk) |-> CaseOf("sbrk", SbrkProg(sk[i]), SbrkState(sk[i]))]
ASSUME ndJsonSerialize(OutFile, Out)
GenInit == x = 0
GenNext == FALSE /\ x' = x
=============================================================================

----------------------------- MODULE MC_PVMGas -----------------------------
(* Design check for C04: for every program over a small instruction alphabet and    *)
(* every gas limit, running with limit g is the g-step prefix of running with ample *)
(* gas: the exit is out-of-gas exactly when the ample run needs more than g units,  *)
(* and the state at that exit is the state after exactly g paid instructions.       *)
EXTENDS PVM, TLC
CONSTANTS MaxLen, MaxGas
VARIABLES prog, g, phase, res
vars == <<prog, g, phase, res>>

\* instruction alphabet (bytes): load_imm r0,5 | add_64 r1,r0,r1 | branch_ne_imm r1,0 -> back to 0 | jump +2 | ecalli 1 | trap | fallthrough
Instr == << <<51, 0, 5>>, <<200, 16, 1>>, <<82, 17, 0, 0>>, <<40, 2>>, <<10, 1>>, <<0>>, <<1>> >>
RECURSIVE Flat(_)
Flat(seq) == IF seq = <<>> THEN <<>> ELSE Instr[Head(seq)] \o Flat(Tail(seq))
RECURSIVE Mask(_)
Mask(seq) == IF seq = <<>> THEN <<>> ELSE (<<1>> \o Rep(0, Len(Instr[Head(seq)]) - 1)) \o Mask(Tail(seq))
\* the branch_ne_imm offset is relative: patch it to point back to position 0 is not possible generically,
\* so its offset byte 0 means "to itself" (a self loop bounded by gas), which is what we want here
Prog(seq) == [code |-> Flat(seq), mask |-> Mask(seq), jt |-> <<>>]
Seqs == UNION {[1..n -> 1..Len(Instr)] : n \in 1..MaxLen}
Regs0 == [i \in 1..13 |-> IF i = 2 THEN U(3) ELSE U64Zero]
S0(gas) == [pc |-> 0, gas |-> gas, regs |-> Regs0, acc |-> <<>>, data |-> <<>>, hp |-> U(0), hl |-> U(0)]

\* state after at most k paid steps of the ample run (stops early at an exit)
RECURSIVE RunK(_, _, _)
RunK(p, s, k) == IF k = 0 THEN [exit |-> "cont", s |-> s]
                 ELSE LET r == Step(p, s) IN IF r.exit = "cont" THEN RunK(p, r.s, k - 1) ELSE r
BigGas == MaxGas + 50

Init == prog \in Seqs /\ g \in 0..MaxGas /\ phase = 0 /\ res = [exit |-> "none"]
Next == phase = 0 /\ phase' = 1 /\ res' = Run(Prog(prog), S0(g)) /\ UNCHANGED <<prog, g>>
Spec == Init /\ [][Next]_vars

\* strip the gas field for state comparison
NoGas(s) == [s EXCEPT !.gas = 0]
InvGasPrefix ==
  phase = 1 =>
    LET p == Prog(prog)
        ample == Run(p, S0(BigGas))
        need == BigGas - ample.s.gas            \* instructions the ample run pays for (it always ends: self-loops aside)
        pre == RunK(p, S0(BigGas), g)
    IN IF ample.exit # "oog" /\ need <= g
       THEN res.exit = ample.exit /\ res.s.gas = g - need /\ NoGas(res.s) = NoGas(ample.s)
       ELSE /\ res.exit = "oog" /\ res.s.gas = 0
            /\ pre.exit = "cont" /\ NoGas(res.s) = NoGas(pre.s)     \* exactly the g paid steps, nothing more
InvGasNonNegative == phase = 1 => res.s.gas >= 0 /\ res.s.gas <= g
=============================================================================

---------------------------- MODULE StdInit_Trace ----------------------------
(* V-step for C06.  One record per case (stateless; every line judged):            *)
(*  {id, blob:[seg..], arg:[seg..],                                                 *)
(*   res:{ok, panic, regs:[13 x 8 bytes], clen, chead:[<=8], ctail:[<=8],           *)
(*        pages:[{n, cnt, acc, vlen, nnz, nz:[[off,b]..], zs:[off..], smp:[b..],    *)
(*                fnz:[off,b], lnz:[off,b]}..]},                                    *)
(*        bsame, asame, re, reok, d1, d2, repanic (ownership: see OwnershipReasons)},*)
(*   dec:{ok, panic, ol, wl, z, s, cl}}                                             *)
(* `pages` is the driver's projection of Memory.Pages in ascending page order: runs *)
(* of all-zero pages with the same access may be merged (cnt > 1); for a page with  *)
(* non-zero bytes: their number, the sparse list of non-zero bytes when there are   *)
(* at most 80, the zero offsets when there are at most 80 zeros, the bytes at the   *)
(* SampleOffs, the first and the last non-zero byte.  acc: "R" / "W" / "N".         *)
(* The expected map comes from StdInit (Regions, views of the blob and argument).   *)
EXTENDS StdInit, Json, TLC, SequencesExt
CONSTANTS TraceFile, ResultFile, KnownDeviations
VARIABLES l, devs, bad

Trace == ndJsonDeserialize(TraceFile)
SampleOffs == <<0, 1, 2, 255, 256, 2047, 2048, 4093, 4094, 4095>>
SparseMax == 80

EmptyView == [bs |-> <<>>, at |-> 0, len |-> 0]

Ascending(s) == \A i \in 1..(Len(s) - 1) : s[i] < s[i + 1]

\* content of one observed entry against the data view of its region; base = byte offset of the
\* entry's first page inside the region
ContentOk(pg, dv, base) ==
  IF pg.cnt > 1 \/ pg.nnz = 0
  THEN pg.nnz = 0 /\ VNonZero(dv, base, base + pg.cnt * ZP) = 0
  ELSE /\ pg.nnz = VNonZero(dv, base, base + ZP)
       /\ Len(pg.smp) = Len(SampleOffs)
       /\ \A i \in 1..Len(SampleOffs) : pg.smp[i] = VByte(dv, base + SampleOffs[i])
       /\ Len(pg.fnz) = 2 /\ pg.fnz[2] # 0 /\ VByte(dv, base + pg.fnz[1]) = pg.fnz[2]
       /\ Len(pg.lnz) = 2 /\ pg.lnz[2] # 0 /\ VByte(dv, base + pg.lnz[1]) = pg.lnz[2]
       /\ pg.nnz <= SparseMax =>
            /\ Len(pg.nz) = pg.nnz
            /\ Ascending([i \in 1..Len(pg.nz) |-> pg.nz[i][1]])
            /\ \A i \in 1..Len(pg.nz) : pg.nz[i][2] # 0 /\ pg.nz[i][1] \in 0..(ZP - 1) /\ VByte(dv, base + pg.nz[i][1]) = pg.nz[i][2]
       /\ (pg.nnz > SparseMax /\ ZP - pg.nnz <= SparseMax) =>
            /\ Len(pg.zs) = ZP - pg.nnz
            /\ Ascending(pg.zs)
            /\ \A i \in 1..Len(pg.zs) : pg.zs[i] \in 0..(ZP - 1) /\ VByte(dv, base + pg.zs[i]) = 0

RegionOf(rs, pg) == {i \in 1..Len(rs) : pg.n >= rs[i].start /\ pg.n + pg.cnt <= REnd(rs[i])}

RECURSIVE SumCnt(_, _)
SumCnt(pgs, i) == IF i = 0 THEN 0 ELSE pgs[i].cnt + SumCnt(pgs, i - 1)

\* reasons why the observed map is not the specified one
MapReasons(pgs, rs, views) ==
  LET shape == /\ \A i \in 1..Len(pgs) : pgs[i].cnt >= 1 /\ pgs[i].vlen = ZP /\ RegionOf(rs, pgs[i]) # {}
               /\ \A i \in 1..(Len(pgs) - 1) : pgs[i].n + pgs[i].cnt <= pgs[i + 1].n
               /\ SumCnt(pgs, Len(pgs)) = rs[1].pages + rs[2].pages + rs[3].pages + rs[4].pages
  IN IF ~shape THEN {"page_set"}
     ELSE LET accBad == {i \in 1..Len(pgs) : pgs[i].acc # rs[CHOOSE r \in RegionOf(rs, pgs[i]) : TRUE].acc}
              conBad == {i \in 1..Len(pgs) :
                           LET r == CHOOSE r \in RegionOf(rs, pgs[i]) : TRUE
                           IN ~ContentOk(pgs[i], views[r], (pgs[i].n - rs[r].start) * ZP)}
          IN (IF accBad # {} THEN {"access"} ELSE {}) \cup (IF conBad # {} THEN {"content"} ELSE {})

CodeOk(res, cv) ==
  /\ res.clen = cv.len
  /\ res.chead = [i \in 1..Min2(8, cv.len) |-> VByte(cv, i - 1)]
  /\ res.ctail = [i \in 1..Min2(8, cv.len) |-> VByte(cv, cv.len - Min2(8, cv.len) + i - 1)]

\* Y is a FUNCTION of (p, a) and the machine owns the memory it returns: after the guest has stored into every
\* writable page (res.re: the driver did that through Memory.Write) the caller's blob and argument buffers are
\* unchanged, and initialising again from the same buffers gives the same memory (digest over page number,
\* access and all 4096 bytes of every page; the first memory is the one judged page by page above) and registers.
OwnershipReasons(res) ==
  IF ~res.re THEN {}
  ELSE IF res.repanic # "" THEN {"go_panic_reinit"}
  ELSE (IF ~res.bsame THEN {"guest_store_changed_program_blob"} ELSE {})
       \cup (IF ~res.asame THEN {"guest_store_changed_argument"} ELSE {})
       \cup (IF ~res.reok \/ res.d2 # res.d1 THEN {"second_initialisation_differs"} ELSE {})

Reasons(e) ==
  LET p == StdParse(e.blob)
      al == BLen(e.arg)
      valid == p.ok /\ Fits(p.ol, p.wl, p.z, p.s)
      q == StdParsePrefix(e.blob)
      decR == IF e.dec.panic # "" THEN {"dec_go_panic"}
              ELSE IF ~q.ok THEN (IF e.dec.ok THEN {"dec_accepts_short"} ELSE {})
              ELSE IF ~e.dec.ok THEN (IF p.ok THEN {"dec_rejects_valid"} ELSE {})     \* trailing bytes: either (reader's choice)
              ELSE IF <<e.dec.ol, e.dec.wl, e.dec.z, e.dec.s, e.dec.cl>> # <<q.ol, q.wl, q.z, q.s, q.cl>> THEN {"dec_fields"}
              ELSE {}
      iniR == IF e.res.panic # "" THEN {"go_panic"}
              ELSE IF ~valid THEN (IF e.res.ok THEN {"accepts_malformed_" \o (IF p.ok THEN "toolarge" ELSE p.why)} ELSE {})
              ELSE IF ~e.res.ok THEN {"rejects_valid"}
              ELSE LET rs == Regions(p.ol, p.wl, p.z, p.s, al)
                       views == <<OView(e.blob, p), WView(e.blob, p), EmptyView, View(e.arg, 0, al)>>
                   IN (IF e.res.regs # InitRegs(al) THEN {"registers"} ELSE {})
                      \cup (IF ~CodeOk(e.res, CView(e.blob, p)) THEN {"code"} ELSE {})
                      \cup MapReasons(e.res.pages, rs, views)
                      \cup OwnershipReasons(e.res)
  IN decR \cup iniR

Init == l = 1 /\ devs = {} /\ bad = {}
Next == /\ l <= Len(Trace)
        /\ bad' = bad \cup {[l |-> l, why |-> y] : y \in Reasons(Trace[l])}
        /\ devs' = devs
        /\ l' = l + 1
TraceSpec == Init /\ [][Next]_<<l, devs, bad>>

Report == (l = Len(Trace) + 1) =>
  JsonSerialize(ResultFile, [n |-> l - 1, devs |-> SetToSeq(devs), bad |-> SetToSeq(bad)])
=============================================================================

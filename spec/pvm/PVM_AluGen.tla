----------------------------- MODULE PVM_AluGen -----------------------------
(* G-step: the arithmetic boundary partition of PVM_AluPart as driver cases.        *)
EXTENDS PVM_AluPart, Json, TLC
CONSTANTS OutFile
VARIABLE x
CaseOf(id, p, s) == [id |-> id, tag |-> id, prog |-> p, pc |-> s.pc, gas |-> s.gas, regs |-> s.regs, acc |-> <<>>,
                     data |-> <<>>, hp |-> s.hp, hl |-> s.hl]
Out == LET k3 == SetToSeq(Keys3)
           ki == SetToSeq(KeysI)
           vs == ValSeq
           is == ImmSeq
       IN [i \in 1..Len(k3) |-> CaseOf("alu3", Prog3(k3[i][1]), StateA(Regs3(vs[k3[i][2]], vs[k3[i][3]])))]
          \o [i \in 1..Len(ki) |-> CaseOf("alui", ProgI(ki[i][1], is[ki[i][2]]), StateA(RegsI(vs[ki[i][3]])))]
ASSUME ndJsonSerialize(OutFile, Out)
GenInit == x = 0
GenNext == FALSE /\ x' = x
=============================================================================

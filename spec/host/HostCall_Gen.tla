---------------------------- MODULE HostCall_Gen ----------------------------
(* G-step for C07 / C08 / C09.  TLC writes driver cases (inputs only; every          *)
(* expectation is computed later by HostCall_Trace).                                *)
(*                                                                                 *)
(* Group "frame"  (C07): per invocation table and host call, per context variant:   *)
(*    one-factor-at-a-time cases (every candidate of every argument field of        *)
(*    HostScn!CallFields with the other fields good, every gas class) and NPer      *)
(*    seeded combinations of the argument partition; each step starts from the      *)
(*    scenario's initial memory and context ("fresh").                              *)
(* Group "disp"   (C07): identifiers through the real dispatch (Host.HostCall):     *)
(*    absent from the table (defined for another invocation, 27..99, 101..255,      *)
(*    > 255, sign-extended 2^64-k) x gas classes, and every defined identifier      *)
(*    with good arguments.                                                          *)
(* Group "tokens" (C08) / "foot" (C09): NPer behaviours of Len steps of the         *)
(*    specification itself: the next call's arguments are drawn relative to the     *)
(*    specified state reached so far (amounts around the caller's free balance,     *)
(*    2^32, 2^63, 2^64; code lengths around what the caller can afford; value       *)
(*    sizes and preimage lengths around the remaining headroom).                    *)
(* Group "thr"    (C09): the threshold function over boundary inputs, and the       *)
(*    derived footprint of explicit accounts.                                       *)
(* Pseudo-random choices: x' = (75 x + 74) mod 65537, seeded from (Seed, call, n).  *)
EXTENDS HostScn, Json, SequencesExt
CONSTANTS OutFile, Seed, NPer, SeqLen, Group
VARIABLE x

Lcg(v) == (v * 75 + 74) % 65537
RECURSIVE LcgN(_, _)
LcgN(v, n) == IF n = 0 THEN v ELSE LcgN(Lcg(v), n - 1)
Start(k, v, n) == Lcg(Lcg((Seed * 131 + k * 977 + v * 7919 + n * 31) % 65537))
\* index into a field's candidates: 70 % among the good ones
PickIdx(v, f) == LET r == v \div 8 IN IF (r % 10) < 7 THEN ((r \div 10) % f.g) + 1 ELSE ((r \div 10) % Len(f.c)) + 1
PickOf(v, seq) == seq[((v \div 8) % Len(seq)) + 1]

\* ---------------------------------------------------------------- frame
AllGood(fields) == [j \in 1..Len(fields) |-> 1]
Ofat(k) == LET fields == CallFields(k) IN
  <<Step(k, RegsOf(fields, AllGood(fields)), GasV[1])>>
  \o CatAll([j \in 1..Len(fields) |-> [i \in 1..Len(fields[j].c) |-> Step(k, RegsOf(fields, [AllGood(fields) EXCEPT ![j] = i]), GasV[1])]])
  \o [g \in 1..Len(GasV) |-> Step(k, RegsOf(fields, AllGood(fields)), GasV[g])]
Rand(k, v, n) == LET fields == CallFields(k)
                     s0 == Start(k, v, n)
                     pick == [j \in 1..Len(fields) |-> PickIdx(LcgN(s0, j), fields[j])]
                     gv == LcgN(s0, 9) \div 8
                 IN Step(k, RegsOf(fields, pick), IF gv % 8 # 0 THEN GasV[1] ELSE GasV[((gv \div 8) % Len(GasV)) + 1])
Scn(id, grp, tab, fresh, ctx, steps) ==
  [id |-> id, grp |-> grp, tab |-> tab, fresh |-> fresh, acc |-> AccMap, data |-> DataCells, ctx |-> ctx, steps |-> steps]
TabCalls(tab) == SetToSeq(TabIds(tab))
NVar(tab) == IF tab = "acc" THEN 4 ELSE IF tab = "ref" THEN 2 ELSE 1
CtxOf(tab, v) == IF tab = "acc" THEN AccCtx(v) ELSE RefCtx(v)
FrameScn(tab, k, v) ==
  Scn(1000 * k + 10 * v + (IF tab = "acc" THEN 0 ELSE IF tab = "ref" THEN 1 ELSE 2), "frame", tab, TRUE, CtxOf(tab, v),
      (IF v = 1 THEN Ofat(k) ELSE <<>>) \o [n \in 1..((NPer + NVar(tab) - 1) \div NVar(tab)) |-> Rand(k, v, n)])
FrameCases == CatAll([t \in 1..3 |-> LET tab == <<"acc", "ref", "auth">>[t] calls == TabCalls(tab) IN
                CatAll([i \in 1..Len(calls) |-> [v \in 1..NVar(tab) |-> FrameScn(tab, calls[i], v)]])])

\* ---------------------------------------------------------------- dispatch
Imm(n) == IF n >= 0 THEN U(n) ELSE Neg(U(-n))
UnknownIds(tab) == [i \in 1..Len(SetToSeq((0..26) \ TabIds(tab))) |-> U(SetToSeq((0..26) \ TabIds(tab))[i])]
                   \o <<U(27), U(50), U(99), U(101), U(127), U(128), U(255), U(256), U(300), U(356), U(65535), U(65536), U(16777215),
                        <<255, 255, 255, 127, 0, 0, 0, 0>>, Imm(-1), Imm(-2), Imm(-100), Imm(-128), Imm(-129), Imm(-156), Imm(-32768), Imm(-65436),
                        <<0, 0, 0, 128, 255, 255, 255, 255>> >>
DGas == <<U(1000), U(1), U(5), U(10), U(11), U(12), U(13)>>
DispScn(tab, v) ==
  LET ids == UnknownIds(tab)
      known == SetToSeq(TabIds(tab) \ {20})
      regs(n) == [i \in 1..13 |-> IF i = 8 THEN U(55 + n) ELSE Filler[i]]
  IN Scn(90000 + 10 * v + (IF tab = "acc" THEN 0 ELSE IF tab = "ref" THEN 1 ELSE 2), "disp", "d" \o tab, TRUE, CtxOf(tab, v),
         CatAll([i \in 1..Len(ids) |-> [g \in 1..Len(DGas) |-> [id |-> ids[i], regs |-> regs(i), gas |-> DGas[g]]]])
         \o [i \in 1..Len(known) |-> Step(known[i], RegsOf(CallFields(known[i]), AllGood(CallFields(known[i]))), U(1000))]
         \o [i \in 1..Len(known) |-> [Rand(known[i], v, 1000 + i) EXCEPT !.gas = U(1000)]])
DispCases == SubSeq(<<DispScn("acc", 1), DispScn("ref", 1), DispScn("auth", 1), DispScn("acc", 2)>>, 1, NPer)

\* ---------------------------------------------------------------- behaviours of the specification
Free(a) == LET t == AcctThresholdX(a) IN IF BelowThreshold(a.bal, t) THEN Z ELSE SubU(a.bal, Sub(t, 1, 8))
SatSub(a, b) == IF LtU(a, b) THEN Z ELSE SubU(a, b)
Around(v) == <<v, SatSub(v, U(1)), Add(v, U(1))>>
Bigs == <<Top32, Hi32, Add(Hi32, U(1)), Two63, UMax, Z, U(1)>>
LastId(c) == c.svcs[Len(c.svcs)].id
\* C08: transfer / new / eject / upgrade / checkpoint
TokenCall(c, v) ==
  LET a == Self(c)
      free == Free(a)
      r == (v \div 8) % 16
      v2 == Lcg(v) v3 == Lcg(v2) v4 == Lcg(v3)
      amts == Around(free) \o Around(a.bal) \o Bigs \o <<U(10), U(201)>>
      dests == <<U(6), U(7), Ext8(LastId(c)), U(6), U(99), Add(U(6), Hi32), U(5)>>
      lens == <<Z, U(5), SatSub(free, U(201)), SatSub(free, U(200)), SatSub(free, U(202)), Top32, SatSub(SatSub(free, U(201)), U(50)), Hi32>>
  IN CASE r \in 0..6 -> Step(20, Regs6(PickOf(v2, dests), PickOf(v3, amts), PickOf(v4, <<U(7), U(100), Z, U(6)>>), A(32, 1200), Z, Z), U(1000))
       [] r \in 7..11 -> Step(18, Regs6(PickOf(v2, <<HashAt(0), HashAt(7), HashAt(1)>>), PickOf(v3, lens), U(3), U(4), Z, Z), U(1000))
       [] r \in 12..13 -> Step(21, Regs6(PickOf(v2, <<U(7), U(7), U(8), Ext8(LastId(c)), U(6)>>), HashAt(3), Z, Z, Z, Z), U(1000))
       [] r = 14 -> Step(19, Regs6(HashAt(2), U(9), U(8), Z, Z, Z), U(1000))
       [] OTHER -> Step(17, Filler, U(1000))
TokenInit(v) ==
  LET r == (v \div 8) % 8
      sb == <<Add(SelfThr, U(1000)), Add(SelfThr, Hi32), Neg(U(100)), Two63, SelfThr, Add(SelfThr, U(201)), Add(SelfThr, U(5000)), Add(Add(SelfThr, Hi32), Hi32)>>[r + 1]
      eb == PickOf(Lcg(v), <<U(300), Hi32, UMax, Two63, U(300), U(1000)>>)
  IN Ctx(<<SelfBase(sb), Other, Eject7(eb), Eject8>>, Priv(5, 6, 5, 5, 5))

\* C09: write / solicit / forget / new / info
FootCall(c, v) ==
  LET a == Self(c)
      free == Free(a)
      r == (v \div 8) % 16
      v2 == Lcg(v) v3 == Lcg(v2)
      keys == << <<A(32, 1024), U(2)>>, <<A(32, 1040), U(3)>>, <<A(32, 1056), U(2)>>, <<A(32, 1024), Z>>, <<A(32, 1100), U(16)>> >>
      fit == SatSub(free, U(47))                             \* value size that exactly exhausts the headroom for a fresh 3-byte key
      vals == << <<A(32, 1100), U(16)>>, <<A(32, 1100), U(4)>>, <<A(32, 1100), Z>>, <<A(32, 1100), U(1)>>, <<A(32, 1100), Z>>,
                 <<A(32, 0), IF LtU(fit, U(4000)) THEN fit ELSE U(100)>>, <<A(32, 0), IF LtU(fit, U(4000)) THEN Add(fit, U(1)) ELSE U(101)>> >>
      zs == <<U(5), U(3), U(4), U(6), U(7), U(2), Z, Top32, SatSub(free, U(101)), SatSub(free, U(100)), SatSub(free, U(102))>>
      k == PickOf(v2, keys) w == PickOf(v3, vals)
  IN CASE r \in 0..6 -> Step(4, Regs6(k[1], k[2], w[1], w[2], Z, Z), U(1000))
       [] r \in 7..10 -> Step(23, Regs6(HashAt((v2 \div 8) % 8), Low4(PickOf(v3, zs)) \o Zeros(4), Z, Z, Z, Z), U(1000))
       [] r \in 11..13 -> Step(24, Regs6(HashAt((v2 \div 8) % 8), Low4(PickOf(v3, zs)) \o Zeros(4), Z, Z, Z, Z), U(1000))
       [] r = 14 -> Step(18, Regs6(HashAt(0), PickOf(v3, <<Z, U(5), SatSub(free, U(201))>>), U(3), U(4), Z, Z), U(1000))
       [] OTHER -> Step(5, Regs6(UMax, A(33, 200), Z, U(96), Z, Z), U(1000))
FootInit(v) ==
  LET r == (v \div 8) % 6
      sb == <<Add(SelfThr, U(1000)), Add(SelfThr, U(30)), SelfThr, Add(Add(SelfThr, Hi32), U(200)), Add(SelfThr, U(150)), Add(SelfThr, U(60))>>[r + 1]
  IN Ctx(<<SelfBase(sb), Other>>, Priv(5, 6, 5, 5, 5))

RECURSIVE Behave(_, _, _, _, _)
Behave(c, v, n, tokens, acc) ==
  IF n = 0 THEN acc
  ELSE LET call == IF tokens THEN TokenCall(c, v) ELSE FootCall(c, v)
           outs == Omega(IntOf(call.id), State(call.regs, call.gas, c))
       IN Behave(outs[1].ctx, LcgN(v, 5), n - 1, tokens, Append(acc, call))
SeqScn(n, tokens) ==
  LET v == Start(IF tokens THEN 208 ELSE 209, 0, n)
      c == IF tokens THEN TokenInit(v) ELSE FootInit(v)
  IN Scn(n, IF tokens THEN "tokens" ELSE "foot", "acc", FALSE, c, Behave(c, LcgN(v, 3), SeqLen, tokens, <<>>))
SeqCases(tokens) == [n \in 1..NPer |-> SeqScn(n, tokens)]

\* behaviours of the design models: words over their alphabets (all of length SeqLen when NPer = 0, else NPer seeded ones)
RECURSIVE Words(_, _)
Words(n, len) == IF len = 0 THEN {<<>>} ELSE {Append(w, i) : w \in Words(n, len - 1), i \in 1..n}
RECURSIVE RandWord(_, _, _)
RandWord(v, n, len) == IF len = 0 THEN <<>> ELSE <<((v \div 8) % n) + 1>> \o RandWord(Lcg(v), n, len - 1)
McCases(tokens) ==
  LET alpha == IF tokens THEN TokAlphabet ELSE FootAlphabet
      ws == IF NPer = 0 THEN SetToSeq(Words(Len(alpha), SeqLen)) ELSE [n \in 1..NPer |-> RandWord(Start(IF tokens THEN 308 ELSE 309, 0, n), Len(alpha), SeqLen)]
      init(i) == IF tokens THEN (IF i % 4 = 0 THEN TokInitBig ELSE TokInit) ELSE FootInitMC
  IN [i \in 1..Len(ws) |-> Scn(i, IF tokens THEN "tokmc" ELSE "footmc", "acc", FALSE, init(i), [j \in 1..Len(ws[i]) |-> alpha[ws[i][j]]])]

\* ---------------------------------------------------------------- threshold
B4(n) == LE(n, 4)
ItemsV == <<B4(0), B4(1), B4(2), B4(429496728), B4(429496729), B4(429496730), <<0, 0, 0, 128>>, <<255, 255, 255, 255>>, B4(858993459), B4(858993460)>>
Raw8(items) == Sub(RawThreshold(items, U64Zero), 1, 8)              \* 100 + 10 items  (< 2^36)
OctV(items) == <<Z, U(1), Top32, Hi32, Two63, UMax, SubU(Neg(Raw8(items)), U(1)), Neg(Raw8(items)), SubU(Neg(Raw8(items)), U(2)), Neg(U(101)), Neg(U(100))>>
GratisV(items, oct) ==
  LET rx == RawThreshold(items, oct) r8 == Sub(rx, 1, 8) IN
  <<Z, U(1), SubU(r8, U(1)), r8, Add(r8, U(1)), UMax, Two63, U(100), Hi32>>
ThrCases == CatAll([i \in 1..Len(ItemsV) |-> CatAll([o \in 1..Len(OctV(ItemsV[i])) |->
              LET oct == OctV(ItemsV[i])[o] gs == GratisV(ItemsV[i], oct) IN
              [g \in 1..Len(gs) |-> [id |-> 10000 * i + 100 * o + g, items |-> ItemsV[i], oct |-> oct, gratis |-> gs[g]]]])])
BigLk == Acct(11, U(5), H(1), 0, 0, U(77), << <<<<>>, <<>>>>, <<K1, V16>> >>, <<Lk(1, 0, <<>>), [h |-> H(2), z |-> <<255, 255, 255, 255>>, slots |-> <<>>],
              [h |-> H(3), z |-> <<255, 255, 255, 255>>, slots |-> <<LE(3, 4)>>], [h |-> H(3), z |-> <<0, 0, 0, 128>>, slots |-> <<>>]>>, <<>>)
DeriveCases == [i \in 1..6 |-> [id |-> i, acct |-> <<SelfBase(U(1)), Other, Eject7(U(9)), Eject9, Plain(3), BigLk>>[i]]]

Cases == CASE Group = "frame" -> FrameCases [] Group = "disp" -> DispCases [] Group = "tokens" -> SeqCases(TRUE)
           [] Group = "foot" -> SeqCases(FALSE) [] Group = "tokmc" -> McCases(TRUE) [] Group = "footmc" -> McCases(FALSE)
           [] OTHER -> ThrCases \o DeriveCases
ASSUME ndJsonSerialize(OutFile, Cases)
GenInit == x = 0
GenNext == FALSE /\ x' = x
=============================================================================

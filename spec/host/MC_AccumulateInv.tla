--------------------------- MODULE MC_AccumulateInv ---------------------------
(* Exhaustive model check for C10: every sequence of at most MaxCalls calls over    *)
(* {write x keys x values, transfer, new, yield x 2, provide x 2, checkpoint}, ended  *)
(* at any point by halt-0 / halt-32 / halt-5 / trap / out-of-gas (ending after k     *)
(* calls with "oog" is out-of-gas at step k).                                        *)
EXTENDS AccumulateInv
\* ---------------------------------------------------------------- the state machine (model checking)
CONSTANTS MaxCalls, Tier
Alphabet == AlphabetOf(Tier)
VARIABLES x, y, hist, done, result
vars == <<x, y, hist, done, result>>

Init == x = Ctx0 /\ y = Ctx0 /\ hist = <<>> /\ done = "no" /\ result = Ctx0
Call(c) == /\ done = "no" /\ Len(hist) < MaxCalls
           /\ x' = Act(x, c)
           /\ y' = IF c.op = "checkpoint" THEN x ELSE y
           /\ hist' = Append(hist, c) /\ UNCHANGED <<done, result>>
\* out-of-gas can strike after any number of calls: ending here with "oog" is "oog at step Len(hist)"
End(kind) == /\ done = "no"
             /\ done' = kind
             /\ result' = IF kind \in Fails THEN y ELSE [x EXCEPT !.y = CollapseYield(@, kind)]
             /\ UNCHANGED <<x, y, hist>>
Kinds == {"halt0", "halt32", "halt5", "halt33", "trap", "oog"}
Next == (\E c \in Alphabet : Call(c)) \/ (\E k \in Kinds : End(k))
Spec == Init /\ [][Next]_vars

\* the checkpoint copy changes only at a checkpoint
YFrozen == [][y' = y \/ (Len(hist') = Len(hist) + 1 /\ hist'[Len(hist')].op = "checkpoint")]_vars
\* the result is the history folded up to the last checkpoint (failure) or entirely (halt), computed
\* independently of the x / y bookkeeping
ResultIsSnapshot ==
  done # "no" =>
    LET k == CollapseIndex(hist, Len(hist), done)
        snap == Fold(Ctx0, hist, k)
    IN result = [snap EXCEPT !.y = CollapseYield(@, done)]
\* nothing done after the last checkpoint is visible after a failure
NoLeak == done \in Fails => result = Fold(Ctx0, hist, LastCheckpoint(hist, Len(hist)))
YIsCheckpointed == y = Fold(Ctx0, hist, LastCheckpoint(hist, Len(hist)))
=============================================================================

------------------------- MODULE AccumulateInv_Trace -------------------------
(* V-step for C10, stateless: one record per call sequence.                          *)
(*  {id, tag, calls, cost:[instructions of call i], states:[projection..],            *)
(*   snaps:[{s, y, used, gopanic}..]   snaps[k+1] = what Psi_A returned for the       *)
(*                                     program that HALTS after k calls (k = 0..n)     *)
(*   ends:[{kind, k, d, limit, res:{s, y, used, gopanic}}..]}                          *)
(* s is an index (0-based) into states: two runs have the same s exactly when their   *)
(* projected Psi_A_ReturnType (accounts incl. balances, footprints, storage, lookups; *)
(* deferred transfers; provided blobs; raw storage key-values; privileges) is equal.  *)
(* y is the returned hash ([] = none).                                                *)
(* Judged:                                                                            *)
(*  halt-latest   a program that halts after k calls returns the latest values: own   *)
(*                storage, transfers, created services, yield and provided blobs are  *)
(*                those of AccumulateInv!Fold over the first k calls, and the tokens   *)
(*                are conserved (own balance + transferred + endowments = initial);    *)
(*  collapse      every ending returns EXACTLY the snapshot the statement names:       *)
(*                trap / out-of-gas => the state at the most recent checkpoint among   *)
(*                the calls that were executed (the initial context if none), with    *)
(*                that snapshot's yield; halt => the state after all calls, a 32-byte  *)
(*                output overriding the yield;                                        *)
(*  gas           gas used never exceeds the limit;  no Go panic.                      *)
(* How many calls an out-of-gas run executed follows from the gas model of             *)
(* AccumulateInv (1 per instruction, 10 per host call; the transfers ask for no gas).  *)
EXTENDS AccumulateInv, U64, Json, SequencesExt
CONSTANTS TraceFile, ResultFile, KnownDeviations
VARIABLES l, devs, bad

Trace == ndJsonDeserialize(TraceFile)
RangeOf(seq) == {seq[i] : i \in 1..Len(seq)}

SelfId == <<42, 0, 0, 0>>
DestId == <<43, 0, 0, 0>>
\* 10^12 + 777 (the incoming deferred transfer is part of the initial context)
Funds0 == <<9, 19, 165, 212, 232, 0, 0, 0>>
CtxT0 == [Ctx0 EXCEPT !.st = (K1 :> <<9, 9>>)]

RECURSIVE SumU(_)
SumU(s) == IF s = <<>> THEN U64Zero ELSE Add(Head(s), SumU(Tail(s)))

\* reasons why projection p (with yield yv) is not the model context c
StateDiff(p, yv, c, wroteKA) ==
  LET self == CHOOSE a \in RangeOf(p.accts) : a.id = SelfId
      others == {a \in RangeOf(p.accts) : a.id \notin {SelfId, DestId}}
      dict == [key \in {t[1] : t \in RangeOf(self.st)} |-> (CHOOSE t \in RangeOf(self.st) : t[1] = key)[2]]
      amounts == [i \in 1..Len(p.tr) |-> p.tr[i][3]]
      endow == SetToSeq({<<a.id, a.bal>> : a \in others})
  IN (IF dict # c.st THEN {"storage"} ELSE {})
     \cup (IF Len(p.kv) # (IF wroteKA THEN 2 ELSE 3) THEN {"raw-storage"} ELSE {})
     \cup (IF Len(p.tr) # Len(c.tr)
              \/ \E i \in 1..Len(p.tr) : p.tr[i] # <<SelfId, DestId, U(c.tr[i]), <<222, 173, c.tr[i]>>, U64Zero>>
           THEN {"transfers"} ELSE {})
     \cup (IF Cardinality(others) # Len(c.nw) \/ {a.code : a \in others} # {Rep32(t) : t \in RangeOf(c.nw)} THEN {"created"} ELSE {})
     \cup (IF yv # c.y THEN {"yield"} ELSE {})
     \cup (IF RangeOf(p.pv) # {<<SelfId, b>> : b \in c.pv} \/ Len(p.pv) # Cardinality(c.pv) THEN {"provided"} ELSE {})
     \cup (IF Add(Add(self.bal, SumU(amounts)), SumU([i \in 1..Len(endow) |-> endow[i][2]])) # Funds0 THEN {"tokens"} ELSE {})

WroteKA(calls, k) == \E i \in 1..k : calls[i].op = "write" /\ calls[i].k = KA

Judge(e) ==
  LET n == Len(e.calls)
      st(run) == e.states[run.s + 1]
      panics == {"gopanic:halt" : k \in {k \in 1..Len(e.snaps) : e.snaps[k].gopanic # ""}}
                \cup {"gopanic:" \o e.ends[i].kind : i \in {i \in 1..Len(e.ends) : e.ends[i].res.gopanic # ""}}
  IN IF panics # {} THEN panics
     ELSE
       UNION {{"halt-latest:" \o y : y \in StateDiff(st(e.snaps[k + 1]), e.snaps[k + 1].y, Fold(CtxT0, e.calls, k), WroteKA(e.calls, k))} : k \in 0..n}
       \cup UNION {LET en == e.ends[i]
                       done == IF en.kind = "oog" THEN Paid(e.cost, en.limit, 1) ELSE n
                       snap == e.snaps[CollapseIndex(e.calls, done, en.kind) + 1]
                   IN (IF en.res.s # snap.s THEN {"collapse:" \o en.kind \o ":state"} ELSE {})
                      \cup (IF en.res.y # CollapseYield(snap.y, en.kind) THEN {"collapse:" \o en.kind \o ":yield"} ELSE {})
                      \cup (IF en.res.used > en.limit THEN {"gas:" \o en.kind} ELSE {})
                  : i \in 1..Len(e.ends)}

\* ---------------------------------------------------------------- named deviations: none at present
Deviations(e, why) == {}

Init == l = 1 /\ devs = {} /\ bad = {}
Next == /\ l <= Len(Trace)
        /\ LET j == Judge(Trace[l])
               dv == UNION {Deviations(Trace[l], y) : y \in j}
           IN IF j # {} /\ dv # {}
              THEN bad' = bad /\ devs' = devs \cup {[l |-> l, slug |-> s] : s \in dv}
              ELSE bad' = bad \cup {[l |-> l, why |-> y] : y \in j} /\ devs' = devs
        /\ l' = l + 1
TraceSpec == Init /\ [][Next]_<<l, devs, bad>>
Report == (l = Len(Trace) + 1) =>
  JsonSerialize(ResultFile, [n |-> l - 1, devs |-> SetToSeq(devs), bad |-> SetToSeq(bad)])
=============================================================================

--------------------------- MODULE InvocationsScn ---------------------------
(* Cases for X05 (shared by Invocations_Gen and MC_Invocations): scripts x endings x  *)
(* code availability x wrapper inputs.  The fixed list covers every clause of         *)
(* Invocations.tla at least once; Rand(n) adds seeded scripts.                        *)
EXTENDS Invocations, HostScn
CONSTANTS Seed

Lcg(v) == (v * 75 + 74) % 65537
RECURSIVE LcgN(_, _)
LcgN(v, n) == IF n = 0 THEN v ELSE LcgN(Lcg(v), n - 1)
PickOf(v, seq) == seq[((v \div 8) % Len(seq)) + 1]

F(sel, a, b, f, cap) == [op |-> "fetch", sel |-> sel, a |-> a, b |-> b, f |-> f, cap |-> cap]
Fs(sel, a, b) == F(U(sel), U(a), U(b), Z, 24)
CallOp(id, w7) == [op |-> "call", id |-> id, regs |-> <<w7, Z, Z, Z, Z, Z>>]
Hist(svc, h, f, cap) == [op |-> "hist", svc |-> svc, h |-> H(h), f |-> U(f), cap |-> cap]
Exp(d) == [op |-> "export", data |-> d]
Info == [op |-> "info"]

ItemI(s, h, g, e, ni, y) == [s |-> LE(s, 4), h |-> H(h), g |-> U(g), a |-> U(7), e |-> e, ni |-> ni, y |-> y]
PkgI(ni, g2) == [has |-> 1, host |-> LE(6, 4), u |-> H(12), t |-> LE(100, 4), j |-> <<4, 4, 4>>, f |-> <<5, 5>>,
                 items |-> <<ItemI(5, 13, 100000, 2, ni, <<6, 6, 6, 6>>), ItemI(6, 14, g2, 0, 2 * ni, <<>>), ItemI(70000, 15, 100000, 3, 0, [q \in 1..130 |-> q])>>]
XData == << <<<<9, 9>>, <<8>>>>, <<<<7, 7, 7>>>>, <<>> >>
Imps == << <<1>>, <<2, 3>>, <<>> >>
FxFor(p, r, i, n) == [n |-> n, r |-> [has |-> 1, v |-> r], i |-> [has |-> 1, v |-> i], x |-> XData, imp |-> Imps, p |-> p, o |-> 0]
Big70000 == [Plain(70000) EXCEPT !.bal = U(100000)]
Svcs == <<RefSelf, Other, Big70000>>

Case(kind, script, end, codecase, core, zeta, slots, p, i, inputs, self, t, gas) ==
  [kind |-> kind, script |-> script, end |-> end, codecase |-> codecase, core |-> core, zeta |-> zeta, slots |-> slots,
   svcs |-> Svcs, self |-> LE(self, 4), t |-> t, gas |-> gas, inputs |-> inputs,
   fx |-> FxFor(p, <<1, 2, 3>>, i, IF kind = "A" THEN Eta ELSE <<>>)]
S10 == <<LE(10, 4)>>
CI(script, end, cc, core, p) == Case("I", script, end, cc, core, 0, S10, p, 0, <<>>, 5, LE(100, 4), Z)
CR(script, end, cc, core, zeta, slots, p, i) == Case("R", script, end, cc, core, zeta, slots, p, i, <<>>, 5, LE(100, 4), Z)
Xf(a) == [k |-> "x", amt |-> a]
Opd == [k |-> "u", amt |-> Z]
CA(script, end, cc, inputs, self, t, gas) == Case("A", script, end, cc, 0, 0, S10, PkgI(0, 100000), 0, inputs, self, t, gas)

\* C08 at the level of the invocation: transfers and checkpoints followed by a regular or an exceptional end
XfOp(to, amt) == [op |-> "xfer", to |-> U(to), amt |-> U(amt), l |-> Z]
Ck == [op |-> "ckpt"]
TokenCases ==
  <<CA(<<XfOp(70000, 100), XfOp(6 + 69994, 200)>>, "trap", "ok", <<>>, 5, LE(100, 4), U(100000)),
    CA(<<XfOp(70000, 100), Ck, XfOp(70000, 200)>>, "trap", "ok", <<Xf(U(77))>>, 5, LE(100, 4), U(100000)),
    CA(<<XfOp(70000, 100), Ck, XfOp(70000, 200)>>, "halt", "ok", <<Xf(U(77))>>, 5, LE(100, 4), U(100000)),
    CA(<<XfOp(70000, 100), Ck, XfOp(70000, 200), Ck, XfOp(70000, 300)>>, "spin", "ok", <<>>, 5, LE(100, 4), U(5000)),
    CA(<<Ck, XfOp(70000, 100)>>, "trap", "ok", <<>>, 5, LE(100, 4), U(100000)),
    CA(<<XfOp(70000, 100), Info>>, "halt", "ok", <<Xf(U(77)), Opd>>, 5, LE(100, 4), U(100000)),
    CA(<<XfOp(70000, 300), XfOp(70000, 300), XfOp(70000, 300)>>, "spin", "ok", <<>>, 5, LE(100, 4), U(3000)),
    CA(<<XfOp(70000, 1), Ck, Info, XfOp(70000, 2)>>, "halt0", "ok", <<>>, 5, LE(100, 4), U(100000))>>
AllSel == [q \in 1..18 |-> Fs(q - 1, 0, 0)]
Indexed == <<Fs(12, 0, 0), Fs(12, 1, 0), Fs(12, 2, 0), Fs(12, 3, 0), F(U(12), Hi32, Z, Z, 24), Fs(13, 2, 0), F(U(13), U(2), Z, U(100), 24), F(U(13), U(2), Z, UMax, 8),
             Fs(3, 0, 0), Fs(3, 0, 1), Fs(3, 0, 2), Fs(3, 1, 0), Fs(3, 2, 0), Fs(3, 3, 0), Fs(4, 0, 0), Fs(4, 1, 0), Fs(4, 2, 0),
             Fs(5, 0, 0), Fs(5, 1, 1), Fs(5, 1, 2), Fs(6, 0, 0), Fs(6, 1, 0), F(U(5), U(1), Z, U(4100), 24), F(U(11), Z, Z, U(60), 40), F(U(12), Z, Z, U(40), 24), F(U(12), U(1), Z, U(40), 24)>>
\* identifiers the invocation's table does not offer, then gas and log (a defined call with junk arguments would just panic)
Unknowns(kind) == (IF kind = "A" THEN <<>> ELSE <<CallOp(U(2), U(9)), CallOp(U(17), U(9)), CallOp(U(4), U(9))>>)
                  \o (IF kind = "R" THEN <<>> ELSE <<CallOp(U(6), U(9)), CallOp(U(7), U(9)), CallOp(U(12), U(9))>>)
                  \o <<CallOp(U(27), U(9)), CallOp(U(99), U(9)), CallOp(U(300), U(9)), CallOp(U(65536), U(9)), CallOp(Z, U(9)), CallOp(U(100), U(3))>>

Fixed ==
  << \* ---- is-authorized
     CI(<<>>, "echo", "ok", 0, PkgI(0, 100000)), CI(<<>>, "echo", "ok", 1, PkgI(0, 100000)), CI(<<>>, "echo", "ok", 300, PkgI(0, 100000)),
     CI(<<>>, "halt0", "ok", 1, PkgI(0, 100000)), CI(<<>>, "trap", "ok", 1, PkgI(0, 100000)), CI(<<>>, "spin", "ok", 1, PkgI(0, 100000)),
     CI(<<>>, "badblob", "ok", 1, PkgI(0, 100000)), CI(<<>>, "echo", "nopre", 1, PkgI(0, 100000)), CI(<<>>, "echo", "big", 1, PkgI(0, 100000)),
     CI(AllSel, "halt", "ok", 1, PkgI(0, 100000)), CI(Indexed, "halt", "ok", 1, PkgI(0, 100000)), CI(Unknowns("I"), "halt", "ok", 1, PkgI(0, 100000)),
     CI(AllSel, "trap", "ok", 1, PkgI(0, 100000)), CI(<<Fs(7, 0, 0), Fs(11, 0, 0)>>, "halt", "ok", 1, PkgI(1, 100000)),
     \* ---- refine
     CR(<<>>, "echo", "ok", 0, 0, S10, PkgI(0, 100000), 0), CR(<<>>, "echo", "ok", 1, 0, S10, PkgI(0, 100000), 1), CR(<<>>, "echo", "ok", 300, 0, S10, PkgI(0, 100000), 2),
     CR(<<>>, "echo", "ok", 1, 0, S10, PkgI(1, 100000), 0),
     CR(<<>>, "halt0", "ok", 1, 0, S10, PkgI(0, 100000), 0), CR(<<>>, "trap", "ok", 1, 0, S10, PkgI(0, 100000), 0), CR(<<>>, "spin", "ok", 1, 0, S10, PkgI(0, 100000), 0),
     CR(<<>>, "badblob", "ok", 1, 0, S10, PkgI(0, 100000), 0),
     CR(<<>>, "echo", "noservice", 1, 0, S10, PkgI(0, 100000), 0), CR(<<>>, "echo", "nopre", 1, 0, S10, PkgI(0, 100000), 0),
     CR(<<>>, "echo", "wronglen", 1, 0, S10, PkgI(0, 100000), 0), CR(<<>>, "echo", "big", 1, 0, S10, PkgI(0, 100000), 0),
     CR(<<>>, "echo", "ok", 1, 0, <<>>, PkgI(0, 100000), 0), CR(<<>>, "echo", "ok", 1, 0, <<LE(200, 4)>>, PkgI(0, 100000), 0),
     CR(<<>>, "echo", "ok", 1, 0, <<LE(10, 4), LE(20, 4)>>, PkgI(0, 100000), 0), CR(<<>>, "echo", "ok", 1, 0, <<LE(10, 4), LE(200, 4)>>, PkgI(0, 100000), 0),
     CR(<<>>, "echo", "ok", 1, 0, <<LE(10, 4), LE(20, 4), LE(30, 4)>>, PkgI(0, 100000), 0), CR(<<>>, "echo", "ok", 1, 0, <<LE(10, 4), LE(20, 4), LE(200, 4)>>, PkgI(0, 100000), 0),
     CR(<<>>, "echo", "big", 1, 0, <<LE(200, 4)>>, PkgI(0, 100000), 0),
     CR(AllSel, "halt", "ok", 1, 0, S10, PkgI(0, 100000), 1), CR(Indexed, "halt", "ok", 1, 0, S10, PkgI(0, 100000), 1), CR(Indexed, "halt", "ok", 1, 0, S10, PkgI(0, 100000), 0),
     CR(Unknowns("R"), "halt", "ok", 1, 0, S10, PkgI(0, 100000), 0), CR(<<Fs(7, 0, 0), Fs(11, 0, 0), Fs(12, 1, 0)>>, "halt", "ok", 1, 0, S10, PkgI(1, 100000), 0),
     CR(<<Hist(UMax, 1, 0, 16), Hist(UMax, 2, 0, 16), Hist(UMax, 3, 1, 16), Hist(UMax, 5, 0, 4), Hist(UMax, 6, 0, 16), Hist(U(5), 2, 0, 16), Hist(U(6), 1, 0, 16),
          Hist(U(99), 2, 0, 16), Hist(Add(U(5), Hi32), 2, 0, 16), Hist(UMax, 0, 0, 16)>>, "halt", "ok", 1, 0, S10, PkgI(0, 100000), 0),
     CR(<<Exp(<<1, 2, 3>>), Exp(<<4>>), Exp([q \in 1..200 |-> q])>>, "halt", "ok", 1, 0, S10, PkgI(0, 100000), 0),
     CR(<<Exp(<<1, 2, 3>>), Exp(<<4>>)>>, "halt", "ok", 1, 5, S10, PkgI(0, 100000), 0),
     CR(<<Exp(<<1>>), Exp(<<2>>), Exp(<<3>>)>>, "halt", "ok", 1, 3070, S10, PkgI(0, 100000), 0),
     CR(<<Exp(<<1, 2, 3>>)>>, "trap", "ok", 1, 0, S10, PkgI(0, 100000), 0), CR(<<Exp(<<1, 2, 3>>)>>, "spin", "ok", 1, 0, S10, PkgI(0, 100000), 0),
     CR(<<Exp(<<1, 2, 3>>), Fs(0, 0, 0)>>, "halt", "ok", 1, 0, S10, PkgI(0, 30), 1), CR(<<Fs(0, 0, 0)>>, "halt", "ok", 1, 0, S10, PkgI(0, 21), 1),
     CR(<<Fs(0, 0, 0)>>, "halt", "ok", 1, 0, S10, PkgI(0, 20), 1),
     \* ---- accumulate
     CA(<<>>, "echo", "ok", <<>>, 5, LE(100, 4), U(100000)), CA(<<>>, "echo", "ok", <<Xf(U(77))>>, 5, LE(100, 4), U(100000)),
     CA(<<>>, "echo", "ok", <<Xf(U(77)), Opd, Xf(Hi32)>>, 70000, <<0, 0, 0, 128>>, U(100000)),
     CA(<<>>, "halt0", "ok", <<Opd>>, 5, LE(16383, 4), U(100000)), CA(<<>>, "echo", "ok", <<Xf(Two63), Xf(Two63)>>, 5, LE(16384, 4), U(100000)),
     CA(<<>>, "echo", "ok", <<Xf(SubU(Two63, U(60000))), Xf(Two63)>>, 5, LE(100, 4), U(100000)),
     CA(<<Fs(0, 0, 0), Fs(1, 0, 0), Fs(14, 0, 0), Fs(15, 0, 0), Fs(15, 1, 0), Fs(15, 2, 0), Fs(2, 0, 0), Fs(7, 0, 0), Info>>, "halt", "ok", <<Xf(U(77)), Opd>>, 5, LE(100, 4), U(100000)),
     CA(<<Info>> \o Unknowns("A"), "halt", "ok", <<Xf(U(1000))>>, 5, LE(100, 4), U(100000)),
     CA(<<Info>>, "trap", "ok", <<Xf(U(77))>>, 5, LE(100, 4), U(100000)), CA(<<>>, "spin", "ok", <<Xf(U(77))>>, 5, LE(100, 4), U(5000)),
     CA(<<>>, "echo", "nopre", <<Xf(U(77)), Xf(U(5))>>, 5, LE(100, 4), U(100000)), CA(<<>>, "badblob", "ok", <<Xf(U(77))>>, 5, LE(100, 4), U(100000)),
     CA(<<Info>>, "halt", "ok", <<>>, 5, LE(100, 4), U(46)), CA(<<Info>>, "halt", "ok", <<>>, 5, LE(100, 4), U(45)) >> \o TokenCases

\* seeded scripts: a few ops of every kind the table of the invocation offers
RandOp(kind, v) ==
  LET r == (v \div 8) % 10 v2 == Lcg(v) v3 == Lcg(v2) v4 == Lcg(v3) IN
  IF r < 6 THEN F(U((v2 \div 8) % 17), U((v3 \div 8) % 4), U((v4 \div 8) % 3), PickOf(v4, <<Z, U(1), U(3), U(40), UMax>>), PickOf(v3, <<8, 24, 40>>))
  ELSE IF r = 6 THEN CallOp(PickOf(v2, <<Z, U(27), U(100), U(255), U(13 + (IF kind = "R" THEN 5 ELSE 0))>>), U(5))
  ELSE IF kind = "R" /\ r = 7 THEN Exp(PickOf(v2, <<<<1>>, <<2, 3>>, <<9, 8, 7, 6>>>>))
  ELSE IF kind = "R" THEN Hist(PickOf(v2, <<UMax, U(5), U(6), U(99)>>), (v3 \div 8) % 7, (v4 \div 8) % 3, 16)
  ELSE IF kind = "A" THEN Info ELSE Fs(0, 0, 0)
RECURSIVE RandScript(_, _, _)
RandScript(kind, v, n) == IF n = 0 THEN <<>> ELSE <<RandOp(kind, v)>> \o RandScript(kind, LcgN(v, 5), n - 1)
Rand(n) ==
  LET v == Lcg(Lcg((Seed * 131 + n * 31 + 411) % 65537))
      kind == PickOf(v, <<"I", "R", "A">>)
      script == RandScript(kind, Lcg(v), PickOf(LcgN(v, 7), <<1, 2, 3, 4, 5, 6>>))
      end == PickOf(LcgN(v, 2), <<"halt", "halt", "halt", "trap", "echo", "halt0">>)
      ni == PickOf(LcgN(v, 6), <<0, 0, 0, 0, 1>>)
  IN CASE kind = "I" -> CI(script, end, "ok", PickOf(LcgN(v, 8), <<0, 1, 2>>), PkgI(ni, 100000))
       [] kind = "R" -> CR(script, end, "ok", PickOf(LcgN(v, 8), <<0, 1, 2>>), PickOf(LcgN(v, 3), <<0, 5, 3069>>), S10, PkgI(ni, 100000), PickOf(LcgN(v, 9), <<0, 1, 2>>))
       [] OTHER -> CA(script, end, "ok", PickOf(LcgN(v, 4), <<<<>>, <<Xf(U(5))>>, <<Opd, Xf(U(9)), Xf(Top32)>>>>), 5, LE(100, 4), U(100000))
=============================================================================

--------------------------- MODULE Invocations_Gen ---------------------------
(* G-step for X05: the fixed cases of InvocationsScn plus NRand seeded scripts.       *)
EXTENDS InvocationsScn, Json
CONSTANTS OutFile, NRand, Only      \* Only = "c08": just the transfer / checkpoint cases (used by checks/c08.py)
VARIABLE x
Cases == LET all == IF Only = "c08" THEN TokenCases ELSE Fixed \o [n \in 1..NRand |-> Rand(n)] IN
         [n \in 1..Len(all) |-> [fld \in DOMAIN all[n] \cup {"id"} |-> IF fld = "id" THEN n ELSE all[n][fld]]]
ASSUME ndJsonSerialize(OutFile, Cases)
GenInit == x = 0
GenNext == FALSE /\ x' = x
=============================================================================

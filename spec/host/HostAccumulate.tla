--------------------------- MODULE HostAccumulate ---------------------------
(* Functional definitions of the host calls behind C07 (exact results), C08 (token  *)
(* conservation) and C09 (storage footprint): gas, fetch, lookup, read, write, info,  *)
(* historical_lookup, export, bless, assign, designate, checkpoint, new, upgrade,    *)
(* transfer, eject, query, solicit, forget, yield, provide, log.                      *)
(* Gray Paper 0.7.x Appendix B, reconstructed; balances, thresholds and gas are      *)
(* exact integers on byte sequences (no value is ever reduced mod 2^64 silently).    *)
(*                                                                                 *)
(* Omega(k, s) is the SEQUENCE of acceptable outcomes of call k in state s (the      *)
(* first is the specified one; more exist only for the permissive clauses):          *)
(*   outcome = [exit, regs, gas, gasany, at, bytes, ctx, yx]                         *)
(*   at / bytes : guest bytes written at address `at` (bytes = <<>>: none)           *)
(*   gasany     : remaining gas not compared (out-of-gas exits)                      *)
(*   yx         : the call is checkpoint (checkpoint context := context)             *)
(*                                                                                 *)
(* Every call: gas < 10 => out-of-gas, nothing changed.  Otherwise 10 is charged;    *)
(* a required input range that cannot be read => panic, nothing changed (registers   *)
(* included).                                                                       *)
(*                                                                                 *)
(* Permissive clauses (DESIGN.md 4.1), each an extra outcome or a skipped judgement: *)
(*  P-order    when several error conditions of one call hold, any of their codes    *)
(*             is accepted (the order of the tests is not demanded);                 *)
(*  P-xgas     transfer: a result other than OK may or may not charge the gas-limit  *)
(*             argument l (then out-of-gas if it cannot be paid, nothing changed);   *)
(*             OK charges exactly 10 + l and is out-of-gas, nothing changed, when    *)
(*             gas - 10 < l;                                                         *)
(*  P-gratis   new: the created account's gratis offset is the argument f (my        *)
(*             reading) or 0 (the code); its threshold / initial balance follows     *)
(*             the offset chosen;                                                    *)
(*  P-manager  new: "f # 0 and caller is not the manager" reads the manager from     *)
(*             the context; if the checkpoint context names another manager either   *)
(*             answer is accepted;                                                   *)
(*  P-full     write that deletes / solicit that re-requests (footprint not raised)  *)
(*             while the balance is below the threshold: FULL or success;            *)
(*  P-wide     solicit / forget / query with a length argument >= 2^32: not judged   *)
(*             here (frame only);                                                    *)
(*  P-info     info answers |v| = 96 (0.7.x) or OK (earlier);                        *)
(*  P-bless    bless by a service that is not the manager: the privileges are set    *)
(*             (the code; my reading of 0.7.x, where accumulation merges privileges   *)
(*             afterwards) or HUH with nothing changed; duplicate service ids in the  *)
(*             always-accumulate list: not judged;                                   *)
(*  P-fetch8   fetch selector 8 yields p_f, or its length-prefixed form, or          *)
(*             p_u ++ length-prefixed p_f (0.6.x);                                    *)
(*  P-fetchblob fetch selectors 9 (p_j) and 13 (payload) yield the blob raw (my       *)
(*             reading) or length-prefixed (the code);                               *)
(*  P-consts   selector 0: the blob is taken from the code and checked structurally   *)
(*             (134 bytes, B_I, B_L, B_S, C, D, Q, V, W_T, W_X at their offsets);     *)
(*  P-eject    eject whose balance sum does not fit 64 bits (the Gray Paper has no   *)
(*             clause: total issuance is below 2^64): any error code or a panic,     *)
(*             with nothing changed.                                                 *)
EXTENDS HostFrame

R(s, i) == s.regs[i + 1]
RECURSIVE Cat(_)
Cat(ss) == IF ss = <<>> THEN <<>> ELSE Head(ss) \o Cat(Tail(ss))
Gas10(s) == SubU(s.gas, U(10))
Out(exit, regs, gas, gasany, at, bytes, ctx, yx) ==
  [exit |-> exit, regs |-> regs, gas |-> gas, gasany |-> gasany, at |-> at, bytes |-> bytes, ctx |-> ctx, yx |-> yx]
OOG(s) == Out("oog", s.regs, s.gas, TRUE, U64Zero, <<>>, s.ctx, FALSE)
Panic(s) == Out("panic", s.regs, Gas10(s), FALSE, U64Zero, <<>>, s.ctx, FALSE)
Ret(s, w7, ctx) == Out("cont", [s.regs EXCEPT ![8] = w7], Gas10(s), FALSE, U64Zero, <<>>, ctx, FALSE)
RetW(s, w7, at, bytes) == Out("cont", [s.regs EXCEPT ![8] = w7], Gas10(s), FALSE, at, bytes, s.ctx, FALSE)

HasSelf(c) == SvcIndex(c.svcs, c.self) # 0
Self(c) == c.svcs[SvcIndex(c.svcs, c.self)]
SetSelf(c, a) == [c EXCEPT !.svcs[SvcIndex(c.svcs, c.self)] = a]
\* account named by a 64-bit register: an identifier >= 2^32 names nothing
ByReg(c, v) == IF Small32(v) THEN SvcIndex(c.svcs, Low4(v)) ELSE 0

\* ---------------------------------------------------------------- general
OmGas(s) == <<Ret(s, Gas10(s), s.ctx)>>

\* copy v[f..f+l) to o; panic if the window is not writable
Window(s, v, o, freg, lreg) ==
  LET f == MinInt(freg, Len(v)) l == MinInt(lreg, Len(v) - f) IN
  IF ~Writable(s.acc, o, U(l)) THEN <<Panic(s)>> ELSE <<RetW(s, U(Len(v)), o, Sub(v, f + 1, f + l))>>

OmLookup(s) ==
  LET c == s.ctx
      i == IF R(s, 7) = UMax \/ R(s, 7) = Ext8(c.self) THEN SvcIndex(c.svcs, c.self) ELSE ByReg(c, R(s, 7))
  IN IF ~Readable(s.acc, R(s, 8), U(32)) THEN <<Panic(s)>>
     ELSE LET h == Read(s.data, R(s, 8), 32)
              p == IF i = 0 THEN 0 ELSE PreIndex(c.svcs[i], h)
          IN IF p = 0 THEN <<Ret(s, NONE, c)>> ELSE Window(s, c.svcs[i].pre[p].blob, R(s, 9), R(s, 10), R(s, 11))

OmRead(s) ==
  LET c == s.ctx
      i == IF R(s, 7) = UMax THEN SvcIndex(c.svcs, c.self) ELSE ByReg(c, R(s, 7))
  IN IF ~Readable(s.acc, R(s, 8), R(s, 9)) THEN <<Panic(s)>>
     ELSE LET k == Read(s.data, R(s, 8), IntOf(R(s, 9)))
              j == IF i = 0 THEN 0 ELSE StIndex(c.svcs[i], k)
          IN IF j = 0 THEN <<Ret(s, NONE, c)>> ELSE Window(s, c.svcs[i].st[j][2], R(s, 10), R(s, 11), R(s, 12))

InfoBytes(a) == a.code \o a.bal \o Threshold64(a.items, a.oct, a.gratis) \o a.g \o a.m \o a.oct \o a.items \o a.gratis
                \o a.created \o a.last \o a.parent
OmInfo(s) ==
  LET c == s.ctx
      i == IF R(s, 7) = UMax THEN SvcIndex(c.svcs, c.self) ELSE ByReg(c, R(s, 7))
  IN IF i = 0 THEN <<Ret(s, NONE, c)>>
     ELSE LET ws == Window(s, InfoBytes(c.svcs[i]), R(s, 8), R(s, 9), R(s, 10)) IN
          IF ws[1].exit = "cont" THEN ws \o <<[ws[1] EXCEPT !.regs[8] = OK]>> ELSE ws     \* P-info

\* write: own storage and footprint
OmWrite(s) ==
  LET c == s.ctx a == Self(c)
      ko == R(s, 7) kz == R(s, 8) vo == R(s, 9) vz == R(s, 10)
  IN IF ~Readable(s.acc, ko, kz) \/ ~Readable(s.acc, vo, vz) THEN <<Panic(s)>>
     ELSE LET k == Read(s.data, ko, IntOf(kz))
              j == StIndex(a, k)
              prev == IF j = 0 THEN NONE ELSE U(Len(a.st[j][2]))
              oldoct == IF j = 0 THEN U64Zero ELSE StOctets(a.st[j])
              olditems == IF j = 0 THEN 0 ELSE 1
              del == IsZero(vz)
              v == IF del THEN <<>> ELSE Read(s.data, vo, IntOf(vz))
              st1 == IF j = 0 THEN a.st ELSE DelAt(a.st, j)
              st2 == IF del THEN st1 ELSE InsertBy(st1, <<k, v>>, StLess)
              items == Low4(Add(SubU(Ext8(a.items), U(olditems)), U(IF del THEN 0 ELSE 1)))
              oct == Add(SubU(a.oct, oldoct), IF del THEN U64Zero ELSE StOctets(<<k, v>>))
              b == [a EXCEPT !.st = st2, !.items = items, !.oct = oct]
              full == BelowThreshold(a.bal, ThresholdX(items, oct, a.gratis))
              done == Ret(s, prev, SetSelf(c, b))
              refuse == Ret(s, FULL, c)
          IN IF ~full THEN <<done>> ELSE IF del THEN <<done, refuse>> ELSE <<refuse>>      \* P-full

\* ---------------------------------------------------------------- accumulate
OmCheckpoint(s) == <<[Ret(s, Gas10(s), s.ctx) EXCEPT !.yx = TRUE]>>

\* next free identifier: check(i) of B.14
SRange == <<0, 255, 254, 255>>                       \* 2^32 - 2^16 - 2^8
Bump(i, d) == LET y == Add(SubU(Ext8(i), U(SMin)), U(d)) IN
              Low4(Add(IF LtU(y, Ext8(SRange)) THEN y ELSE SubU(y, Ext8(SRange)), U(SMin)))
RECURSIVE Check(_, _)
Check(i, ids) == IF i \notin ids THEN i ELSE Check(Bump(i, 1), ids)

NewAcct(s, id, c32, l, gratis) ==
  LET oct == Add(U(81), l)
      bal == Threshold64(LE(2, 4), oct, gratis)
  IN [id |-> id, code |-> c32, bal |-> bal, g |-> R(s, 9), m |-> R(s, 10), oct |-> oct, gratis |-> gratis,
      items |-> LE(2, 4), created |-> s.ctx.t, last |-> Zeros(4), parent |-> s.ctx.self, st |-> <<>>,
      lk |-> <<[h |-> c32, z |-> Low4(l), slots |-> <<>>]>>, pre |-> <<>>]

\* outcomes of new when the created account gets gratis offset `gr`
NewWith(s, gr) ==
  LET c == s.ctx a == Self(c)
      l == R(s, 8) f == R(s, 11) i == R(s, 12)
      c32 == Read(s.data, R(s, 7), 32)
      registrar == c.self = c.priv.create /\ LtU(i, U(SMin))
      id == IF registrar THEN Low4(i) ELSE c.nextid
      n == NewAcct(s, id, c32, l, gr)
      cash == LtU(a.bal, n.bal) \/ BelowThreshold(SubU(a.bal, n.bal), AcctThresholdX(a))
      huhX == ~IsZero(f) /\ c.self # c.priv.bless
      huhY == ~IsZero(f) /\ c.self # s.ybless
      full == registrar /\ id \in Ids(c.svcs)
      errs == (IF huhX \/ huhY THEN <<Ret(s, HUH, c)>> ELSE <<>>) \o (IF cash THEN <<Ret(s, CASH, c)>> ELSE <<>>)
              \o (IF full THEN <<Ret(s, FULL, c)>> ELSE <<>>)
      next == IF registrar THEN c.nextid ELSE Check(Bump(c.nextid, 42), Ids(c.svcs))
      c2 == [SetSelf(c, [a EXCEPT !.bal = SubU(a.bal, n.bal)]) EXCEPT !.nextid = next]
      c3 == [c2 EXCEPT !.svcs = InsertBy(c2.svcs, n, IdLess)]
      good == Ret(s, Ext8(id), c3)
  IN IF huhX /\ huhY THEN errs                                    \* P-order
     ELSE IF cash \/ full THEN errs
     ELSE IF huhX \/ huhY THEN errs \o <<good>>                   \* P-manager
     ELSE <<good>>
OmNew(s) ==
  IF ~Readable(s.acc, R(s, 7), U(32)) \/ ~Small32(R(s, 8)) THEN <<Panic(s)>>
  ELSE IF IsZero(R(s, 11)) THEN NewWith(s, U64Zero) ELSE NewWith(s, R(s, 11)) \o NewWith(s, U64Zero)   \* P-gratis

OmUpgrade(s) ==
  IF ~Readable(s.acc, R(s, 7), U(32)) THEN <<Panic(s)>>
  ELSE <<Ret(s, OK, SetSelf(s.ctx, [Self(s.ctx) EXCEPT !.code = Read(s.data, R(s, 7), 32), !.g = R(s, 8), !.m = R(s, 9)]))>>

OmTransfer(s) ==
  LET c == s.ctx a == Self(c)
      d == R(s, 7) amt == R(s, 8) l == R(s, 9) o == R(s, 10)
      di == ByReg(c, d)
      g10 == Gas10(s)
      canpay == LeU(l, g10)
      paid == SubU(g10, l)
      who == di = 0
      low == di # 0 /\ LtU(l, c.svcs[di].m)
      cash == LtU(a.bal, amt) \/ BelowThreshold(SubU(a.bal, amt), AcctThresholdX(a))
      codes == (IF who THEN <<WHO>> ELSE <<>>) \o (IF low THEN <<LOW>> ELSE <<>>) \o (IF cash THEN <<CASH>> ELSE <<>>)
      err(code) == <<Ret(s, code, c)>> \o (IF canpay THEN <<[Ret(s, code, c) EXCEPT !.gas = paid]>> ELSE <<OOG(s)>>)   \* P-xgas
      errlists == [j \in 1..Len(codes) |-> err(codes[j])]
      t == [from |-> c.self, to |-> Low4(d), amt |-> amt, memo |-> Read(s.data, o, WT), gas |-> l]
      c2 == [SetSelf(c, [a EXCEPT !.bal = SubU(a.bal, amt)]) EXCEPT !.xfers = Append(c.xfers, t)]
  IN IF ~Readable(s.acc, o, U(WT)) THEN <<Panic(s)>>
     ELSE IF codes # <<>> THEN Cat(errlists)
     ELSE IF ~canpay THEN <<OOG(s)>>
     ELSE <<[Ret(s, OK, c2) EXCEPT !.gas = paid]>>

\* y < t - D on 4-byte timeslots
Expired(y, t) == ~LtU(Ext8(t), U(DExpunge)) /\ LtU(Ext8(y), SubU(Ext8(t), U(DExpunge)))

OmEject(s) ==
  LET c == s.ctx a == Self(c)
      d == R(s, 7) o == R(s, 8)
      di == ByReg(c, d)
  IN IF ~Readable(s.acc, o, U(32)) THEN <<Panic(s)>>
     ELSE IF di = 0 \/ Low4(d) = c.self THEN <<Ret(s, WHO, c)>>
     ELSE LET da == c.svcs[di]
              h == Read(s.data, o, 32)
              l == IF LtU(da.oct, U(81)) THEN U64Zero ELSE SubU(da.oct, U(81))
              li == IF Small32(l) THEN LkIndex(da, h, Low4(l)) ELSE 0
              sum == BAdd(a.bal, da.bal)
              rest == DelAt(c.svcs, di)
              moved(b) == [c EXCEPT !.svcs = [k \in 1..Len(rest) |-> IF rest[k].id = c.self THEN [rest[k] EXCEPT !.bal = b] ELSE rest[k]]]
          IN IF da.code # c.self \o Zeros(28) THEN <<Ret(s, WHO, c)>>
             ELSE IF da.items # LE(2, 4) \/ li = 0 THEN <<Ret(s, HUH, c)>>
             ELSE IF Len(da.lk[li].slots) = 2 /\ Expired(da.lk[li].slots[2], c.t) THEN
                    IF BFits(sum, 8) THEN <<Ret(s, OK, moved(BPad(sum, 8)))>>
                    ELSE <<Ret(s, HUH, c), Panic(s)>> \o [k \in 1..8 |-> Ret(s, Err(k), c)]     \* P-eject
             ELSE <<Ret(s, HUH, c)>>

Wide(s) == ~Small32(R(s, 8))                       \* P-wide: length argument of query / solicit / forget

OmQuery(s) ==
  LET c == s.ctx a == Self(c) IN
  IF ~Readable(s.acc, R(s, 7), U(32)) THEN <<Panic(s)>>
  ELSE LET li == LkIndex(a, Read(s.data, R(s, 7), 32), Low4(R(s, 8)))
           ss == a.lk[li].slots
           two(x, y) == x \o y
           res(w7, w8) == Out("cont", [s.regs EXCEPT ![8] = w7, ![9] = w8], Gas10(s), FALSE, U64Zero, <<>>, c, FALSE)
       IN IF li = 0 THEN <<res(NONE, U64Zero)>>
          ELSE CASE Len(ss) = 0 -> <<res(U64Zero, U64Zero)>>
                 [] Len(ss) = 1 -> <<res(two(LE(1, 4), ss[1]), U64Zero)>>
                 [] Len(ss) = 2 -> <<res(two(LE(2, 4), ss[1]), Ext8(ss[2]))>>
                 [] OTHER -> <<res(two(LE(3, 4), ss[1]), two(ss[2], ss[3]))>>

OmSolicit(s) ==
  LET c == s.ctx a == Self(c) IN
  IF ~Readable(s.acc, R(s, 7), U(32)) THEN <<Panic(s)>>
  ELSE LET h == Read(s.data, R(s, 7), 32)
           z == Low4(R(s, 8))
           li == LkIndex(a, h, z)
           e == [h |-> h, z |-> z, slots |-> <<>>]
           b == IF li = 0 THEN [a EXCEPT !.lk = InsertBy(a.lk, e, LkLess), !.items = Low4(Add(Ext8(a.items), U(2))),
                                          !.oct = Add(a.oct, LkOctets(e))]
                ELSE [a EXCEPT !.lk[li].slots = Append(a.lk[li].slots, c.t)]
           full == BelowThreshold(b.bal, AcctThresholdX(b))
       IN IF li # 0 /\ Len(a.lk[li].slots) # 2 THEN <<Ret(s, HUH, c)>>
          ELSE IF ~full THEN <<Ret(s, OK, SetSelf(c, b))>>
          ELSE IF li = 0 THEN <<Ret(s, FULL, c)>>
          ELSE <<Ret(s, OK, SetSelf(c, b)), Ret(s, FULL, c)>>                               \* P-full

OmForget(s) ==
  LET c == s.ctx a == Self(c) IN
  IF ~Readable(s.acc, R(s, 7), U(32)) THEN <<Panic(s)>>
  ELSE LET h == Read(s.data, R(s, 7), 32)
           z == Low4(R(s, 8))
           li == LkIndex(a, h, z)
           ss == a.lk[li].slots
           pi == PreIndex(a, h)
           drop == [a EXCEPT !.lk = DelAt(a.lk, li), !.pre = IF pi = 0 THEN a.pre ELSE DelAt(a.pre, pi),
                             !.items = Low4(SubU(Ext8(a.items), U(2))), !.oct = SubU(a.oct, LkOctets(a.lk[li]))]
       IN IF li = 0 THEN <<Ret(s, HUH, c)>>
          ELSE IF Len(ss) = 0 \/ (Len(ss) = 2 /\ Expired(ss[2], c.t)) THEN <<Ret(s, OK, SetSelf(c, drop))>>
          ELSE IF Len(ss) = 1 THEN <<Ret(s, OK, SetSelf(c, [a EXCEPT !.lk[li].slots = <<ss[1], c.t>>]))>>
          ELSE IF Len(ss) = 3 /\ Expired(ss[2], c.t) THEN <<Ret(s, OK, SetSelf(c, [a EXCEPT !.lk[li].slots = <<ss[3], c.t>>]))>>
          ELSE <<Ret(s, HUH, c)>>

OmYield(s) ==
  IF ~Readable(s.acc, R(s, 7), U(32)) THEN <<Panic(s)>>
  ELSE <<Ret(s, OK, [s.ctx EXCEPT !.yield = Read(s.data, R(s, 7), 32)])>>

\* export (refine): the segment's content is logged as a digest only, so the appended element is a placeholder
\* (<<>>) that CtxMatch lets stand for any one new digest
WX == 3072
OmExport(s) ==
  LET c == s.ctx
      z == IF LtU(R(s, 8), U(WG)) THEN R(s, 8) ELSE U(WG)
  IN IF ~Readable(s.acc, R(s, 7), z) THEN <<Panic(s)>>
     ELSE IF c.expoff + c.nexp >= WX THEN <<Ret(s, FULL, c)>>
     ELSE <<Ret(s, U(c.expoff + c.nexp), [c EXCEPT !.nexp = @ + 1, !.expd = Append(@, <<>>)])>>

\* ---------------------------------------------------------------- fetch
\* What fetch can see is the record s.fx (installed by the driver from the generator's description):
\*   n: entropy (<<>> = absent), r: [has, v] authorizer trace, i: [has, v] work-item index, x: extrinsic DATA per item,
\*   imp: import segments per item as pattern ids (byte q of a segment = (7 q + id) mod 251, q = 1..W_G),
\*   p: [has, host, u, t, j, f, items: <<[s, h, g, a, e, ni, y]>>] the work package, o: number of accumulate inputs;
\* s.aux carries the values whose layout is the codec's business (C11), encoded by the repository's codec outside fetch:
\*   consts (selector 0; its layout is checked by ConstsOK), encp = E(p) (<<>>: not encodable here), encx = E(p_x),
\*   oall = E(var-length inputs), oeach = E(input k).
\* A selector yields a value only when its source is present, so the accumulate (n, o), refine (r, i, x, imp, p) and
\* is-authorized (p) contexts differ only in what is installed.
Seg(pid) == [q \in 1..WG |-> (7 * q + pid) % 251]
VarLen(v) == IF Len(v) < 128 THEN <<Len(v)>> \o v ELSE <<128 + (Len(v) \div 256), Len(v) % 256>> \o v
\* |w_x| is a property of the package: taken from fx.nx when the extrinsic DATA is not part of the context (is-authorized)
SOf(fx, k) == LET w == fx.p.items[k]
                  nx == IF "nx" \in DOMAIN fx THEN (IF k <= Len(fx.nx) THEN fx.nx[k] ELSE 0) ELSE IF k <= Len(fx.x) THEN Len(fx.x[k]) ELSE 0 IN
              w.s \o w.h \o w.g \o w.a \o LE(w.e, 2) \o LE(w.ni, 2) \o LE(nx, 2) \o LE(Len(w.y), 4)
\* 1-based index named by a 64-bit register into a list of n elements, 0 if out of range
Idx(reg, n) == IF LtU(reg, U(n)) THEN IntOf(reg) + 1 ELSE 0
\* the set of values the selector may yield: Some(bytes), NoneV, or Skip (not judged here)
Some(v) == <<1, v>>
NoneV == <<0, <<>>>>
Skip == <<2, <<>>>>
FetchVals(s) ==
  LET fx == s.fx aux == s.aux
      k == IF IsSmallInt(R(s, 10)) /\ Small32(R(s, 10)) THEN IntOf(R(s, 10)) ELSE 99
      w11 == R(s, 11) w12 == R(s, 12)
      hasp == fx.p.has = 1
      item == Idx(w11, IF hasp THEN Len(fx.p.items) ELSE 0)
      own(list) == IF fx.i.has = 1 /\ fx.i.v < Len(list) THEN fx.i.v + 1 ELSE 0
  IN CASE k = 0 -> {Some(aux.consts)}
       [] k = 1 -> IF fx.n = <<>> THEN {NoneV} ELSE {Some(fx.n)}
       [] k = 2 -> IF fx.r.has = 1 THEN {Some(fx.r.v)} ELSE {NoneV}
       [] k = 3 -> LET i == Idx(w11, Len(fx.x)) j == IF i = 0 THEN 0 ELSE Idx(w12, Len(fx.x[i])) IN IF j = 0 THEN {NoneV} ELSE {Some(fx.x[i][j])}
       [] k = 4 -> LET i == own(fx.x) j == IF i = 0 THEN 0 ELSE Idx(w11, Len(fx.x[i])) IN IF j = 0 THEN {NoneV} ELSE {Some(fx.x[i][j])}
       [] k = 5 -> LET i == Idx(w11, Len(fx.imp)) j == IF i = 0 THEN 0 ELSE Idx(w12, Len(fx.imp[i])) IN IF j = 0 THEN {NoneV} ELSE {Some(Seg(fx.imp[i][j]))}
       [] k = 6 -> LET i == own(fx.imp) j == IF i = 0 THEN 0 ELSE Idx(w11, Len(fx.imp[i])) IN IF j = 0 THEN {NoneV} ELSE {Some(Seg(fx.imp[i][j]))}
       [] k = 7 -> IF ~hasp THEN {NoneV} ELSE IF aux.encp = <<>> THEN {Skip} ELSE {Some(aux.encp)}
       [] k = 8 -> IF ~hasp THEN {NoneV} ELSE {Some(fx.p.f), Some(VarLen(fx.p.f)), Some(fx.p.u \o VarLen(fx.p.f))}          \* P-fetch8
       [] k = 9 -> IF ~hasp THEN {NoneV} ELSE {Some(fx.p.j), Some(VarLen(fx.p.j))}                                     \* P-fetchblob
       [] k = 10 -> IF ~hasp THEN {NoneV} ELSE {Some(aux.encx)}
       [] k = 11 -> IF ~hasp THEN {NoneV} ELSE {Some(<<Len(fx.p.items)>> \o Cat([q \in 1..Len(fx.p.items) |-> SOf(fx, q)]))}
       [] k = 12 -> IF item = 0 THEN {NoneV} ELSE {Some(SOf(fx, item))}
       [] k = 13 -> IF item = 0 THEN {NoneV} ELSE {Some(fx.p.items[item].y), Some(VarLen(fx.p.items[item].y))}       \* P-fetchblob
       [] k = 14 -> IF fx.o = 0 THEN {NoneV} ELSE {Some(aux.oall)}
       [] k = 15 -> LET i == Idx(w11, fx.o) IN IF i = 0 THEN {NoneV} ELSE {Some(aux.oeach[i])}
       [] OTHER -> {NoneV}
RECURSIVE FetchOuts(_, _)
FetchOuts(s, vs) ==
  IF vs = {} THEN <<>>
  ELSE LET v == CHOOSE v \in vs : TRUE IN
       (IF v[1] = 1 THEN Window(s, v[2], R(s, 7), R(s, 8), R(s, 9)) ELSE <<Ret(s, NONE, s.ctx)>>) \o FetchOuts(s, vs \ {v})
OmFetch(s) == FetchOuts(s, FetchVals(s))
\* layout of the constants blob (Gray Paper 0.7.x fetch selector 0): 134 bytes; the fields this specification knows
ConstsOK(v) == /\ Len(v) = 134
               /\ Sub(v, 1, 8) = U(BI) /\ Sub(v, 9, 16) = U(1) /\ Sub(v, 17, 24) = U(BS)
               /\ Sub(v, 25, 26) = LE(NCores, 2) /\ Sub(v, 27, 30) = LE(DExpunge, 4)
               /\ Sub(v, 85, 86) = LE(QSize, 2) /\ Sub(v, 93, 94) = LE(NValidators, 2)
               /\ Sub(v, 123, 126) = LE(WT, 4) /\ Sub(v, 127, 130) = LE(3072, 4)

\* ---------------------------------------------------------------- historical_lookup (refine)
\* the availability rule I(l, t) is C31's (spec/service/Preimages.tla); P2 of that module: an available EMPTY preimage
\* may be answered as the empty blob or as nothing
PI == INSTANCE Preimages WITH Services <- {}, Blobs <- {}, MaxT <- 0, D <- 0, MaxEps <- 0, delta <- {}, tau <- 0, hist <- {}, last <- <<>>
OmHistLookup(s) ==
  LET c == s.ctx
      i == IF R(s, 7) = UMax THEN SvcIndex(c.svcs, c.self) ELSE ByReg(c, R(s, 7))
  IN IF ~Readable(s.acc, R(s, 8), U(32)) THEN <<Panic(s)>>
     ELSE LET h == Read(s.data, R(s, 8), 32)
              p == IF i = 0 THEN 0 ELSE PreIndex(c.svcs[i], h)
              blob == c.svcs[i].pre[p].blob
              li == IF p = 0 THEN 0 ELSE LkIndex(c.svcs[i], h, LE(Len(blob), 4))
              avail == li # 0 /\ Len(c.svcs[i].lk[li].slots) <= 3 /\ PI!Avail(c.svcs[i].lk[li].slots, c.t)
          IN IF ~avail THEN <<Ret(s, NONE, c)>>
             ELSE Window(s, blob, R(s, 9), R(s, 10), R(s, 11)) \o (IF blob = <<>> THEN <<Ret(s, NONE, c)>> ELSE <<>>)

\* ---------------------------------------------------------------- privileged calls
\* digest / hash of a guest range recorded by the driver before the call (s.probe / s.probed); <<>> if not recorded
Probed(s, a, n, kind) ==
  LET S == {i \in 1..Len(s.probe) : s.probe[i] = <<a, n, kind>>} IN IF S = {} THEN <<>> ELSE s.probed[CHOOSE i \in S : TRUE]

BlessPairs(s) == LET n == IntOf(R(s, 12)) raw == Read(s.data, R(s, 11), 12 * n) IN
                 [i \in 1..n |-> <<Sub(raw, 12 * i - 11, 12 * i - 8), Sub(raw, 12 * i - 7, 12 * i)>>]
BlessReadable(s) == Readable(s.acc, R(s, 8), U(4 * NCores)) /\ Readable(s.acc, R(s, 11), BNorm(MulFull(R(s, 12), <<12>>)))
BlessDup(s) == BlessReadable(s) /\ LET ps == BlessPairs(s) IN \E i, j \in 1..Len(ps) : i < j /\ ps[i][1] = ps[j][1]
PairLess(a, b) == LtU(a[1], b[1])
RECURSIVE SortPairs(_)
SortPairs(ps) == IF ps = <<>> THEN <<>> ELSE InsertBy(SortPairs(Tail(ps)), Head(ps), PairLess)
OmBless(s) ==
  LET c == s.ctx IN
  IF ~BlessReadable(s) THEN <<Panic(s)>>
  ELSE LET raw == Read(s.data, R(s, 8), 4 * NCores)
           assigners == [i \in 1..NCores |-> Sub(raw, 4 * i - 3, 4 * i)]
           who == ~Small32(R(s, 7)) \/ ~Small32(R(s, 9)) \/ ~Small32(R(s, 10))
           good == Ret(s, OK, [c EXCEPT !.priv = [bless |-> Low4(R(s, 7)), assign |-> assigners, designate |-> Low4(R(s, 9)),
                                                  create |-> Low4(R(s, 10)), always |-> SortPairs(BlessPairs(s))]])
           huh == IF c.self # c.priv.bless THEN <<Ret(s, HUH, c)>> ELSE <<>>                            \* P-bless
       IN IF who THEN <<Ret(s, WHO, c)>> \o huh ELSE <<good>> \o huh

QueueBytes == 32 * QSize
OmAssign(s) ==
  LET c == s.ctx core == R(s, 7) o == R(s, 8) a == R(s, 9) IN
  IF ~Readable(s.acc, o, U(QueueBytes)) THEN <<Panic(s)>>
  ELSE IF ~LtU(core, U(NCores)) THEN <<Ret(s, CORE, c)>>
  ELSE LET ci == IntOf(core) + 1
           huh == c.self # c.priv.assign[ci]
           who == ~Small32(a)
           good == Ret(s, OK, [c EXCEPT !.priv.assign[ci] = Low4(a), !.aq[ci] = Probed(s, o, QueueBytes, "fnv")])
       IN IF huh \/ who THEN (IF huh THEN <<Ret(s, HUH, c)>> ELSE <<>>) \o (IF who THEN <<Ret(s, WHO, c)>> ELSE <<>>)     \* P-order
          ELSE <<good>>

KeysBytes == 336 * NValidators
OmDesignate(s) ==
  LET c == s.ctx o == R(s, 7) IN
  IF ~Readable(s.acc, o, U(KeysBytes)) THEN <<Panic(s)>>
  ELSE IF c.self # c.priv.designate THEN <<Ret(s, HUH, c)>>
  ELSE <<Ret(s, OK, [c EXCEPT !.vk = Probed(s, o, KeysBytes, "fnv")])>>

ProvLess(a, b) == LtU(a[1], b[1]) \/ (a[1] = b[1] /\ CmpLex(a[2], b[2]) = -1)
OmProvide(s) ==
  LET c == s.ctx o == R(s, 8) z == R(s, 9)
      i == IF R(s, 7) = UMax THEN SvcIndex(c.svcs, c.self) ELSE ByReg(c, R(s, 7))
  IN IF ~Readable(s.acc, o, z) THEN <<Panic(s)>>
     ELSE IF i = 0 THEN <<Ret(s, WHO, c)>>
     ELSE LET blob == Read(s.data, o, IntOf(z))
              h == Probed(s, o, IntOf(z), "b2b")
              li == LkIndex(c.svcs[i], h, Low4(z))
              e == <<c.svcs[i].id, blob>>
          IN IF li = 0 \/ c.svcs[i].lk[li].slots # <<>> THEN <<Ret(s, HUH, c)>>
             ELSE IF \E q \in 1..Len(c.prov) : c.prov[q] = e THEN <<Ret(s, HUH, c)>>
             ELSE <<Ret(s, OK, [c EXCEPT !.prov = InsertBy(c.prov, e, ProvLess)])>>
\* the recorded inputs these definitions need are present
ProbeOK(k, s) ==
  CASE k = 15 -> ~Readable(s.acc, R(s, 8), U(QueueBytes)) \/ Probed(s, R(s, 8), QueueBytes, "fnv") # <<>>
    [] k = 16 -> ~Readable(s.acc, R(s, 7), U(KeysBytes)) \/ Probed(s, R(s, 7), KeysBytes, "fnv") # <<>>
    [] k = 26 -> ~Readable(s.acc, R(s, 8), R(s, 9)) \/ Probed(s, R(s, 8), IntOf(R(s, 9)), "b2b") # <<>>
    [] k = 14 -> ~BlessDup(s)
    [] k = 1 -> "fx" \in DOMAIN s /\ "aux" \in DOMAIN s /\ Skip \notin FetchVals(s)
    [] OTHER -> TRUE

OmLog(s) == <<Out("cont", s.regs, Gas10(s), FALSE, U64Zero, <<>>, s.ctx, FALSE)>>
OmUnknown(s) == <<Ret(s, WHAT, s.ctx)>>

\* calls with an exact definition here (given a context that contains the caller's account)
Functional == {0, 1, 2, 3, 4, 5, 6, 7, 14, 15, 16, 17, 18, 19, 20, 21, 22, 23, 24, 25, 26, 100}
NeedsSelf == Functional \ {0, 1, 7, 100}
HasOmega(k, s) == k \in Functional /\ (k \in NeedsSelf => HasSelf(s.ctx)) /\ ~(k \in {22, 23, 24} /\ Wide(s)) /\ ProbeOK(k, s)
Omega(k, s) ==
  IF ~GasOK(s.gas) THEN <<OOG(s)>>
  ELSE CASE k = 0 -> OmGas(s) [] k = 1 -> OmFetch(s) [] k = 6 -> OmHistLookup(s) [] k = 14 -> OmBless(s) [] k = 15 -> OmAssign(s)
         [] k = 16 -> OmDesignate(s) [] k = 26 -> OmProvide(s) [] k = 2 -> OmLookup(s) [] k = 3 -> OmRead(s) [] k = 4 -> OmWrite(s) [] k = 5 -> OmInfo(s) [] k = 7 -> OmExport(s)
         [] k = 17 -> OmCheckpoint(s) [] k = 18 -> OmNew(s) [] k = 19 -> OmUpgrade(s) [] k = 20 -> OmTransfer(s)
         [] k = 21 -> OmEject(s) [] k = 22 -> OmQuery(s) [] k = 23 -> OmSolicit(s) [] k = 24 -> OmForget(s)
         [] k = 25 -> OmYield(s) [] k = 100 -> OmLog(s) [] OTHER -> OmUnknown(s)

\* context equality up to the placeholder of a freshly exported segment
CtxMatch(want, got) ==
  \/ want = got
  \/ /\ want.expd # <<>> /\ want.expd[Len(want.expd)] = <<>> /\ Len(got.expd) = Len(want.expd)
     /\ got.expd[Len(got.expd)] # <<>>
     /\ [want EXCEPT !.expd = got.expd] = got
     /\ Sub(got.expd, 1, Len(got.expd) - 1) = Sub(want.expd, 1, Len(want.expd) - 1)
\* does the observed post state equal outcome e ?
Matches(e, pre, post) ==
  /\ post.exit = e.exit
  /\ post.regs = e.regs
  /\ (e.gasany \/ post.gas = e.gas)
  /\ CtxMatch(e.ctx, post.ctx)
  /\ post.acc = pre.acc
  /\ ~post.ychg \/ e.yx
  /\ (e.yx => post.yx)
  /\ IF e.bytes = <<>> THEN post.diff = <<>>
     ELSE DiffWithin(post.diff, e.at, U(Len(e.bytes))) /\ PostRead(pre.data, post.diff, e.at, Len(e.bytes)) = e.bytes
Accepted(k, pre, post) == \E i \in 1..Len(Omega(k, pre)) : Matches(Omega(k, pre)[i], pre, post)

\* ---------------------------------------------------------------- properties of one step (C08, C09)
\* exact integer: all balances plus all deferred-transfer amounts
Tokens(c) == BAdd(BSum([i \in 1..Len(c.svcs) |-> c.svcs[i].bal]), BSum([i \in 1..Len(c.xfers) |-> c.xfers[i].amt]))
Conserves(c1, c2) == BLe(Tokens(c2), Tokens(c1))
BalancesOf(c) == [i \in 1..Len(c.svcs) |-> <<c.svcs[i].id, c.svcs[i].bal>>]
AllCoherent(c) == \A i \in 1..Len(c.svcs) : FootprintCoherent(c.svcs[i])
=============================================================================

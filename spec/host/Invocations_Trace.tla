-------------------------- MODULE Invocations_Trace --------------------------
(* V-step for X05: every record {case, res, out, used, exports, bal, sta, sto, hasa,  *)
(* haso, ninstr, ncalls, aux, gopanic} of harness/hostcall TestInvocations is judged   *)
(* on its own by Invocations!Judge.                                                  *)
(* Deviation (open finding, only when listed in KnownDeviations):                     *)
(*   refine-package-hash-without-segment-map  RefineInvoke and fetch encode the work  *)
(*   package with an encoder that has no segment map; a package whose items import    *)
(*   segments cannot be encoded, the error is dropped: the argument carries           *)
(*   H(empty string) instead of H(p) and fetch selector 7 answers NONE.  Guard: the    *)
(*   package has an item with imports, and nothing but those two values differs.       *)
EXTENDS Invocations, Json, SequencesExt
CONSTANTS TraceFile, ResultFile, KnownDeviations
VARIABLES l, devs, bad

Trace == ndJsonDeserialize(TraceFile)
DevSlug == "refine-package-hash-without-segment-map"
TInit == l = 1 /\ devs = {} /\ bad = {}
TNext == /\ l <= Len(Trace)
         /\ LET e == Trace[l]
                strict == Judge(e, FALSE)
                loose == IF strict # {} /\ DevSlug \in KnownDeviations /\ HasImports(e.case) THEN Judge(e, TRUE) ELSE strict
            IN /\ bad' = bad \cup {[l |-> l, why |-> y] : y \in loose}
               /\ devs' = IF strict # {} /\ loose = {} THEN devs \cup {DevSlug} ELSE devs
         /\ l' = l + 1
TraceSpec == TInit /\ [][TNext]_<<l, devs, bad>>
Report == (l = Len(Trace) + 1) =>
  JsonSerialize(ResultFile, [n |-> l - 1, devs |-> SetToSeq(devs), bad |-> SetToSeq(bad)])
=============================================================================

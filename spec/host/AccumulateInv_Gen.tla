-------------------------- MODULE AccumulateInv_Gen --------------------------
(* G-step for C10: behaviours of the model = call sequences over AlphabetOf(Tier)    *)
(* with every ending: halt-0, halt-32, halt-5, trap, spin (out of gas in a final     *)
(* loop) and out-of-gas after exactly k calls, k = 0..n, with the smallest and the   *)
(* largest gas limit that pays for k calls and no more.                              *)
(*  quick:    every sequence of <= 3 calls + a seeded sample of sequences of 5;      *)
(*  thorough: every sequence of <= 4 calls + a seeded sample of sequences of 5.      *)
(*  both:     every sequence of <= 2 calls over Extra (upgrade, solicit of a fresh /  *)
(*            2-slot entry, forget of a 0/1/2/3-slot entry, checkpoint, write, yield) *)
(*            and of 3 calls over ExtraCore: calls whose effects lie outside the      *)
(*            abstract context (the 3-slot forget rewrites its slot list in place).   *)
(*  endings:  halts with 0 / 5 / 32 and LONGER outputs (33, 200; thorough + 48, 64).  *)
EXTENDS AccumulateInv, Json, SequencesExt
CONSTANTS OutFile, Tier, Seed
VARIABLE x

Alpha == AlphabetOf(Tier)
Seqs(n) == [1..n -> Alpha]
Pick(S, m) == LET q == SetToSeq(S) IN {q[i] : i \in {j \in 1..Len(q) : (j + Seed) % m = 0}}
LongHalts == IF Tier = "quick" THEN <<[kind |-> "halt33"], [kind |-> "halt200"]>>
             ELSE <<[kind |-> "halt33"], [kind |-> "halt48"], [kind |-> "halt64"], [kind |-> "halt200"]>>
Ends(n) == <<[kind |-> "halt0"], [kind |-> "halt32"], [kind |-> "halt5"], [kind |-> "trap"], [kind |-> "spin"]>> \o LongHalts
           \o [i \in 1..(2 * (n + 1)) |-> [kind |-> "oog", k |-> (i - 1) \div 2, d |-> IF i % 2 = 1 THEN "min" ELSE "max"]]
Short == UNION {Seqs(n) : n \in 0..(IF Tier = "quick" THEN 3 ELSE 4)}
Long == IF Tier = "quick" THEN {s \o t : s \in Pick(Seqs(3), 41), t \in Pick(Seqs(2), 5)}
        ELSE {s \o t : s \in Pick(Seqs(4), 29), t \in Seqs(1)}
Ext == UNION {[1..n -> Extra] : n \in 1..2} \cup [1..3 -> ExtraCore]
Cases == {[tag |-> "short", calls |-> s, ends |-> Ends(Len(s))] : s \in Short}
         \cup {[tag |-> "ext", calls |-> s, ends |-> Ends(Len(s))] : s \in Ext}
         \cup {[tag |-> "long", calls |-> s, ends |-> Ends(Len(s))] : s \in Long}
ASSUME ndJsonSerialize(OutFile, SetToSeq(Cases))
ASSUME PrintT(<<"GEN", Cardinality(Short), Cardinality(Long)>>)
GenInit == x = 0
GenNext == FALSE /\ x' = x
=============================================================================

---------------------------- MODULE AccumulateInv ----------------------------
(* C10: the accumulate invocation's two contexts (Gray Paper 0.7.x B.7 - B.13).     *)
(*   I   both contexts start as the initial context: x = y = I(e, s)                 *)
(*   host calls act on the regular context x;  checkpoint: y := x                   *)
(*   C   collapse at the end:  panic / out-of-gas => y                              *)
(*                             halt => x, a 32-byte output overriding the yield     *)
(*                             (an output of any other length, longer ones included, *)
(*                             leaves the yield alone)                              *)
(* A context is abstracted to the components the statement names:                   *)
(*   st   own storage (key -> value)          tr   deferred transfers (sequence)     *)
(*   nw   code hashes of the services created (sequence)                            *)
(*   y    yielded hash (<<>> = none)          pv   provided preimages (set)          *)
(* The calls are used only as state-changing actions (their own correctness is      *)
(* properties C08/C09): write / transfer / new / yield / provide with arguments that *)
(* succeed.  Gas: an instruction costs 1, a host call 10 more; a call whose cost is  *)
(* not covered does not happen and the invocation ends out of gas.                   *)
EXTENDS Integers, Sequences, FiniteSets, TLC

Rep32(tag) == [i \in 1..32 |-> tag]
Out32 == Rep32(77)

Ctx0 == [st |-> <<>>, tr |-> <<>>, nw |-> <<>>, y |-> <<>>, pv |-> {}]
PutIn(f, k, v) == [x \in (DOMAIN f) \cup {k} |-> IF x = k THEN v ELSE f[x]]
DelIn(f, k) == [x \in (DOMAIN f) \ {k} |-> f[x]]

\* effect of one call on the regular context (checkpoint does not change x)
Act(x, c) ==
  CASE c.op = "write" -> [x EXCEPT !.st = IF c.v = <<>> THEN DelIn(@, c.k) ELSE PutIn(@, c.k, c.v)]
    [] c.op = "transfer" -> [x EXCEPT !.tr = Append(@, c.amt)]
    [] c.op = "new" -> [x EXCEPT !.nw = Append(@, c.c)]
    [] c.op = "yield" -> [x EXCEPT !.y = Rep32(c.h)]
    [] c.op = "provide" -> [x EXCEPT !.pv = @ \cup {c.b}]
    [] c.op = "checkpoint" -> x
    [] c.op \in {"upgrade", "solicit", "forget"} -> x  \* change components outside this abstraction (code hash, lookups)

RECURSIVE Fold(_, _, _)
\* regular context after the first k calls
Fold(x, calls, k) == IF k = 0 THEN x ELSE Act(Fold(x, calls, k - 1), calls[k])
\* number of calls before and including the last checkpoint among the first k (0 = none)
RECURSIVE LastCheckpoint(_, _)
LastCheckpoint(calls, k) == IF k = 0 THEN 0 ELSE IF calls[k].op = "checkpoint" THEN k ELSE LastCheckpoint(calls, k - 1)

\* how many calls a gas limit pays for: cost[i] instructions + 10 for call i
RECURSIVE Paid(_, _, _)
Paid(cost, limit, i) == IF i > Len(cost) THEN Len(cost)
                        ELSE IF cost[i] + 10 > limit THEN i - 1 ELSE Paid(cost, limit - cost[i] - 10, i + 1)

Fails == {"trap", "oog", "spin"}
\* which snapshot the collapse returns: [k: number of calls whose effects are visible, y override]
\* done = number of calls that were executed before the end
CollapseIndex(calls, done, kind) == IF kind \in Fails THEN LastCheckpoint(calls, done) ELSE done
CollapseYield(snapYield, kind) == IF kind = "halt32" THEN Out32 ELSE snapYield

\* ---------------------------------------------------------------- the alphabet of calls (MC and G)
KA == <<107, 97>>           \* "ka": initially present only as a raw storage key-value of the service
K1 == <<107, 49>>           \* "k1": initially present in the service's storage dictionary
K2 == <<107, 50>>           \* "k2": initially absent
Writes(ks) == {[op |-> "write", k |-> k, v |-> v] : k \in ks, v \in {<<1, 2, 3>>, <<>>}}
Others == {[op |-> "transfer", amt |-> 100], [op |-> "new", c |-> 201], [op |-> "yield", h |-> 31], [op |-> "yield", h |-> 32],
           [op |-> "provide", b |-> <<5, 6, 7, 8>>], [op |-> "provide", b |-> <<9, 9>>], [op |-> "checkpoint"]}
\* further state-changing calls, judged through the exact snapshot comparison only
\* the service starts with lookup entries (32 x tag, 10) of 0 / 1 / 2 / 3 slots for tags 80 / 81 / 82 / 83, all older than t - D:
\* forget removes the first and third, appends to the second and REWRITES the fourth in place ([x, y, z] -> [z, t])
ExtraCore == {[op |-> "checkpoint"], [op |-> "forget", h |-> 83, z |-> 10], [op |-> "forget", h |-> 81, z |-> 10],
              [op |-> "solicit", h |-> 82, z |-> 10], [op |-> "upgrade", c |-> 55]}
Extra == ExtraCore \cup {[op |-> "solicit", h |-> 66, z |-> 10], [op |-> "forget", h |-> 80, z |-> 10], [op |-> "forget", h |-> 82, z |-> 10],
                         [op |-> "write", k |-> K2, v |-> <<1, 2, 3>>], [op |-> "yield", h |-> 31]}
AlphabetOf(tier) == Others \cup Writes(IF tier = "quick" THEN {KA, K2} ELSE {KA, K1, K2})

=============================================================================

--------------------------- MODULE HostRefine_Trace ---------------------------
(* V-step for C33, stateless: every record carries the complete projected state     *)
(* before and after ONE real host call on the case's RefineArgs (the calls of a     *)
(* case form one history: the state after a call is the state before the next), and *)
(* is judged against HostRefine!Apply.                                              *)
(*  {id, tag, seq, call, pre:{regs, gas, acc, data, m:[{n, blob, pc, acc, data}..]},*)
(*   post:{exit: continue|panic|oog|gopanic, gopanic, regs, gas, gasneg, acc, data, m}}*)
(* Memory lists: acc [[page, "R"|"W"|"N"]..] ("N": a page object that is present    *)
(* but inaccessible - the same as absent, its stale contents are unobservable),     *)
(* data [[page, off, byte]..] non-zero bytes.                                       *)
(* Also checked on every record: machine identifiers are unique; no Go panic; when  *)
(* the guest stored bytes before the call (pre0, set): exactly those outer bytes     *)
(* changed and no inner machine did.                                                *)
(*                                                                                 *)
(* Named deviations (enabled only when listed in KnownDeviations): none at present. *)
EXTENDS HostRefine, Json
CONSTANTS TraceFile, ResultFile, KnownDeviations
VARIABLES l, devs, bad

Trace == ndJsonDeserialize(TraceFile)

RangeOf(seq) == {seq[i] : i \in 1..Len(seq)}
AccOfL(list) == LET S == {t \in RangeOf(list) : t[2] \in {"R", "W"}}
                IN [pg \in {t[1] : t \in S} |-> (CHOOSE t \in S : t[1] = pg)[2]]
DataOfL(list) == LET S == {t \in RangeOf(list) : t[3] # 0}
                 IN [key \in {<<t[1], t[2]>> : t \in S} |-> (CHOOSE t \in S : <<t[1], t[2]>> = key)[3]]
MemOf(x) == [acc |-> AccOfL(x.acc), data |-> DataOfL(x.data)]
MOf(list) == LET S == RangeOf(list)
             IN [n \in {x.n : x \in S} |-> LET x == CHOOSE y \in S : y.n = n
                                           IN [blob |-> x.blob, mem |-> MemOf(x), pc |-> x.pc]]
FrameOf(st) == [regs |-> st.regs, gas |-> st.gas, acc |-> AccOfL(st.acc), data |-> DataOfL(st.data)]
UniqueIds(list) == Cardinality({x.n : x \in RangeOf(list)}) = Len(list) /\ \A x \in RangeOf(list) : x.n >= 0

\* page-fault address accepted anywhere from the start of the page of the access to its end (P-fault)
FaultOk(f, got) ==
  LET a == AddrOf(Low(f.arg, 4))
      g == AddrOf(Low(got, 4))
      e == AddrOf(Add(Low(f.arg, 4), LE(f.n - 1, 4)))
  IN /\ \A i \in 5..8 : got[i] = 0
     /\ g.page >= a.page
     /\ (g.page < e.page \/ (g.page = e.page /\ g.off <= e.off))

MachEq(a, b) == a.blob = b.blob /\ a.pc = b.pc /\ NormMem(a.mem) = NormMem(b.mem)
\* reasons why the observed post state differs from outcome w
Diff(w, post) ==
  LET pm == MOf(post.m)
      po == FrameOf(post)
  IN (IF post.exit # w.exit THEN {"exit"} ELSE {})
     \cup (IF w.exit \in {"continue", "panic"} /\ \E i \in 1..13 : post.regs[i] # w.o.regs[i] /\ ~(i = 9 /\ w.fault.on /\ FaultOk(w.fault, post.regs[9]))
           THEN {"regs"} ELSE {})                                                       \* P-oogreg, P-fault
     \cup (IF (w.o.gas < 0 /\ ~post.gasneg) \/ (w.o.gas >= 0 /\ (post.gasneg \/ post.gas # w.o.gas)) THEN {"gas"} ELSE {})
     \cup (IF po.acc # w.o.acc THEN {"outer-access"} ELSE {})
     \cup (IF NormMem(po).data # NormMem(w.o).data THEN {"outer-mem"} ELSE {})
     \cup (IF DOMAIN pm # DOMAIN w.m THEN {"machines"} ELSE {})
     \cup (IF DOMAIN pm = DOMAIN w.m /\ \E n \in DOMAIN pm : ~MachEq(pm[n], w.m[n]) THEN {"inner"} ELSE {})

Order == <<"exit", "regs", "gas", "outer-access", "outer-mem", "machines", "inner">>
RECURSIVE JoinFrom(_, _)
JoinFrom(S, i) == IF i > Len(Order) THEN "" ELSE (IF Order[i] \in S THEN Order[i] \o "+" ELSE "") \o JoinFrom(S, i + 1)

Outcomes(e) == Apply(e.call, FrameOf(e.pre), MOf(e.pre.m))
Summary(w) == [exit |-> w.exit, w7 |-> w.o.regs[8], w8 |-> w.o.regs[9], gas |-> w.o.gas, ids |-> SetToSeq(DOMAIN w.m),
               pcs |-> [i \in 1..Len(SetToSeq(DOMAIN w.m)) |-> w.m[SetToSeq(DOMAIN w.m)[i]].pc]]
NoWant == [exit |-> "-"]

\* ------------------------------------------------------------------ named deviations
\* none at present (every defect found so far was repaired).  A deviation is a predicate on (record, outcomes)
\* that accepts the observed post state for a narrowly guarded input class, enabled by its slug in KnownDeviations.
Deviations(e, ws) == {}

\* ------------------------------------------------------------------ end-to-end records (k = "e2e")
\* The same calls issued by a REAL outer program through Psi_M (ecalli dispatch, RefineOmegas, the context carried
\* from call to call): {k, log (address of the result log), ops:[{call, w, set:[[addr, bytes]..]}..], image:{acc, data} (memory after standard
\* initialisation), res:{kind: halt|panic|oog|gopanic, out: bytes, m, used}}.  The program stores omega7 and omega8
\* after every call into a log that it returns on halt.  The specification folds Apply over the script (every
\* permitted alternative is followed) and must reproduce the log, the way the invocation ends and the final machines.
LoadW(o, w) == [o EXCEPT !.regs = [i \in 1..13 |-> IF i >= 8 THEN w[i - 7] ELSE @[i]]]
RECURSIVE ApplySets(_, _, _)
ApplySets(o, sets, i) == IF i > Len(sets) THEN o ELSE ApplySets(PutBytes(o, LE(sets[i][1], 8), sets[i][2]), sets, i + 1)
\* after a call that continues the program stores omega7 and omega8 at logAt + 16 (i - 1): part of the outer memory
Logged(out, logAt, i) ==
  IF out.exit # "continue" THEN out.o
  ELSE PutBytes(PutBytes(out.o, LE(logAt + 16 * (i - 1), 8), out.o.regs[8]), LE(logAt + 16 * (i - 1) + 8, 8), out.o.regs[9])
RECURSIVE E2EFold(_, _, _, _)
E2EFold(ops, i, S, logAt) ==
  IF i > Len(ops) THEN S
  ELSE LET op == ops[i]
           step(s) == IF s.exit # "continue" THEN {s}
                      ELSE LET outs == Apply(op.call, LoadW(ApplySets(s.o, op.set, 1), op.w), s.m)
                           IN IF Len(outs) = 0 THEN {[s EXCEPT !.exit = "unjudged"]}
                              ELSE {[o |-> Logged(outs[j], logAt, i), m |-> outs[j].m, exit |-> outs[j].exit,
                                     log |-> Append(s.log, [w7 |-> outs[j].o.regs[8], w8 |-> outs[j].o.regs[9], fault |-> outs[j].fault])]
                                    : j \in 1..Len(outs)}
       IN E2EFold(ops, i + 1, UNION {step(s) : s \in S}, logAt)
LogMatches(log, out) ==
  /\ Len(out) = 16 * Len(log)
  /\ \A j \in 1..Len(log) :
       /\ Sub(out, 16 * j - 15, 16 * j - 8) = log[j].w7
       /\ \/ Sub(out, 16 * j - 7, 16 * j) = log[j].w8
          \/ log[j].fault.on /\ FaultOk(log[j].fault, Sub(out, 16 * j - 7, 16 * j))
MapEq(pm, wm) == DOMAIN pm = DOMAIN wm /\ \A n \in DOMAIN pm : MachEq(pm[n], wm[n])
JudgeE2E(e) ==
  IF e.res.kind = "gopanic" THEN {[why |-> "e2e:gopanic", want |-> NoWant]}
  ELSE
  LET o0 == [regs |-> [i \in 1..13 |-> U64Zero], gas |-> 1000000, acc |-> AccOfL(e.image.acc), data |-> DataOfL(e.image.data)]
      S == E2EFold(e.ops, 1, {[o |-> o0, m |-> <<>>, exit |-> "continue", log |-> <<>>]}, e.log)
      pm == MOf(e.res.m)
      ok(s) == \/ s.exit = "unjudged"
               \/ s.exit = "continue" /\ e.res.kind = "halt" /\ LogMatches(s.log, e.res.out) /\ MapEq(pm, s.m)
               \/ s.exit = "panic" /\ e.res.kind = "panic" /\ MapEq(pm, s.m)
      one == CHOOSE s \in S : TRUE
  IN IF ~UniqueIds(e.res.m) THEN {[why |-> "e2e:duplicate-machine-id", want |-> NoWant]}
     ELSE IF \E s \in S : ok(s) THEN {}
     ELSE {[why |-> "e2e:" \o one.exit \o "-vs-" \o e.res.kind,
            want |-> [exit |-> one.exit, log |-> [j \in 1..Len(one.log) |-> <<one.log[j].w7, one.log[j].w8>>], ids |-> SetToSeq(DOMAIN one.m)]]}

\* a record with `pre0` / `set`: the outer machine stored bytes between the previous call and this one; those stores
\* change exactly the outer bytes written - no inner machine sees them (memory is copied by poke / peek, never shared)
GuestStoresOk(e) ==
  LET o0 == FrameOf(e.pre0)
      o1 == ApplySets(o0, e.set, 1)
  IN /\ NormMem(FrameOf(e.pre)).data = NormMem(o1).data
     /\ FrameOf(e.pre).acc = o0.acc
     /\ MapEq(MOf(e.pre.m), MOf(e.pre0.m))

\* set of [why, want] labels; empty = the record conforms
Judge(e) ==
  IF "k" \in DOMAIN e THEN JudgeE2E(e) ELSE
  IF "pre0" \in DOMAIN e /\ ~GuestStoresOk(e) THEN {[why |-> "outer-store-leaks-into-machine", want |-> NoWant]} ELSE
  IF ~UniqueIds(e.pre.m) \/ ~UniqueIds(e.post.m) THEN {[why |-> "duplicate-machine-id", want |-> NoWant]}
  ELSE LET ws == Outcomes(e) IN
       IF e.post.exit = "gopanic" THEN {[why |-> "gopanic:" \o e.call, want |-> IF Len(ws) > 0 THEN Summary(ws[1]) ELSE NoWant]}
       ELSE IF Len(ws) = 0 THEN {}                                                      \* P-biggas: not judged
       ELSE IF \E i \in 1..Len(ws) : Diff(ws[i], e.post) = {} THEN {}
       ELSE {[why |-> e.call \o ":" \o JoinFrom(Diff(ws[1], e.post), 1), want |-> Summary(ws[1])]}

Init == l = 1 /\ devs = {} /\ bad = {}
Next == /\ l <= Len(Trace)
        /\ LET e == Trace[l]
               j == Judge(e)
               dv == IF j = {} \/ "k" \in DOMAIN e THEN {} ELSE Deviations(e, Outcomes(e))
           IN IF j # {} /\ dv # {}
              THEN bad' = bad /\ devs' = devs \cup {[l |-> l, slug |-> s] : s \in dv}
              ELSE bad' = bad \cup {[l |-> l, why |-> y.why, want |-> y.want] : y \in j} /\ devs' = devs
        /\ l' = l + 1
TraceSpec == Init /\ [][Next]_<<l, devs, bad>>
Report == (l = Len(Trace) + 1) =>
  JsonSerialize(ResultFile, [n |-> l - 1, devs |-> SetToSeq(devs), bad |-> SetToSeq(bad)])
=============================================================================

---------------------------- MODULE HostRefine_Gen ----------------------------
(* G-step for C33.  Cases are scripts of host calls [call, w = omega7..omega12]     *)
(* (optionally with `set`: outer bytes the guest stored before the call) over the   *)
(* outer memory of HostRefineOps; the driver replays each script on one RefineArgs  *)
(* and records every call; HostRefine_Trace judges every record.                    *)
(*  Beh   behaviours of the model: a setup prefix followed by every sequence of at   *)
(*        most two calls of the MC alphabet;                                        *)
(*  Part  argument partitions per call in a prepared state (two machines, inner     *)
(*        pages 16 W with data / 17 R / 18 absent): boundary and 64-bit arguments,  *)
(*        ranges that end at / cross a page edge, wrap 2^32, alias modulo 2^32;     *)
(*  Inv   invoke: program x initial counter x gas (0.., 2^63-1, 2^63, 2^64-1), twice *)
(*        (resume), then expunge;                                                   *)
(*  Must  four fixed scripts walking one / two machines through every call's main  *)
(*        branches (present in both tiers whatever the seed).                       *)
(* The generator consults the specification only to keep `pages` from allocating    *)
(* gigabytes in the node under test (requests the spec answers OK for > 8 pages).   *)
EXTENDS HostRefineOps, Json
CONSTANTS OutFile, Tier, Seed
VARIABLE x

N2 == {0, 1}
Alpha == AllOps(N2)
B(k) == Op("machine", A(BlobAt(k)), A(Len(BlobOf(k))), U64Zero, U64Zero)
Setups == << <<>>,
             <<B(4)>>,
             <<B(4), Op("pages", A(0), A(16), A(2), A(2))>>,
             <<B(3), B(4), Op("pages", A(1), A(16), A(2), A(2)), Op("poke", A(1), A(SrcAt), A(P16 + 512), A(8))>>,
             <<B(4), Op("pages", A(0), A(16), A(2), A(2)), Op("invoke", A(0), A(BufAt), U64Zero, U64Zero)>>,
             <<B(5), B(1), Op("expunge", A(0), U64Zero, U64Zero, U64Zero)>> >>
Tails2 == {<<>>} \cup {<<a>> : a \in Alpha} \cup {<<a, b>> : a \in Alpha, b \in Alpha}
Pick(S, n) == LET q == SetToSeq(S) IN {q[i] : i \in {j \in 1..Len(q) : (j + Seed) % n = 0}}
Beh == IF Tier = "thorough" THEN {[tag |-> "beh", ops |-> Setups[i] \o s] : i \in 1..Len(Setups), s \in Tails2}
       ELSE {[tag |-> "beh", ops |-> Setups[i] \o s] : i \in 1..Len(Setups), s \in Pick(Tails2, 47)}

\* ---- prepared state for the partitions
Prep == <<B(3), B(4), Op("pages", A(1), A(16), A(1), A(2)), Op("poke", A(1), A(SrcAt), A(P16 + 512), A(8)),
          Op("poke", A(1), A(SrcAt), A(P16 + 4092), A(4)), Op("pages", A(1), A(17), A(1), A(1))>>
T32(v) == <<v[1], v[2], v[3], v[4], 1, 0, 0, 0>>                  \* v + 2^32: must not alias v
NearTop == <<254, 255, 255, 255, 0, 0, 0, 0>>                     \* 2^32 - 2
Ids == {A(1), A(0), A(2), T32(A(1)), UMax}
Sizes == {A(0), A(1), A(4), A(8), Two32, T32(A(4)), UMax}
OuterDst == {A(DstAt), A(P17 + 4092), A(EdgeAt), A(P16 + 600), A(P18), A(0), NearTop, T32(A(DstAt))}
OuterSrc == {A(SrcAt), A(P17 + 4092), A(EdgeAt), A(P18), A(0), NearTop, T32(A(SrcAt))}
InnerAddr == {A(P16 + 512), A(P16 + 4092), A(P16 + 4094), A(P17 + 4094), A(P17), A(P18), A(100), NearTop, T32(A(P16 + 512))}
PartPeek == {Op("peek", n, d, s, z) : n \in Ids, d \in OuterDst, s \in InnerAddr, z \in Sizes}
PartPoke == {Op("poke", n, s, d, z) : n \in Ids, s \in OuterSrc, d \in InnerAddr, z \in Sizes}
PageNos == {A(0), A(15), A(16), A(17), A(18), A(1048574), A(1048575), A(1048576), T32(A(16)), UMax}
PageCounts == {A(0), A(1), A(2), A(3), A(1048559), T32(A(1)), UMax, <<240, 255, 255, 255, 255, 255, 255, 255>>}
Modes == {A(0), A(1), A(2), A(3), A(4), A(5), Two32, T32(A(2)), UMax}
PartPagesAll == {Op("pages", n, p, c, r) : n \in {A(1), A(2), T32(A(1)), UMax}, p \in PageNos, c \in PageCounts, r \in Modes}
\* keep the node from allocating a gigabyte: drop requests that are granted for more than 8 pages
Granted(op) == IsPageCount(op.w[2]) /\ IsPageCount(op.w[3]) /\ PageInt(op.w[2]) >= 16
               /\ PageInt(op.w[2]) + PageInt(op.w[3]) < 1048576 /\ IsSmallU(op.w[4]) /\ SmallOf(op.w[4]) <= 4
PartPages == {op \in PartPagesAll : ~(Granted(op) /\ PageInt(op.w[3]) > 8)}
InvAddr == {A(BufAt), A(P17 + 4096 - 112), A(P17 + 4096 - 111), A(P16), A(P18), A(0), <<206, 255, 255, 255, 0, 0, 0, 0>>, T32(A(BufAt))}
PartInvoke == {Op("invoke", n, a, U64Zero, U64Zero) : n \in Ids, a \in InvAddr}
PartExpunge == {Op("expunge", n, U64Zero, U64Zero, U64Zero) : n \in Ids \cup {Two32}}
Counters == {A(0), A(1), <<255, 255, 255, 255, 0, 0, 0, 0>>, Two32, T32(A(2)), UMax}
BlobLens(k) == {A(Len(BlobOf(k))), A(Len(BlobOf(k)) - 1), A(Len(BlobOf(k)) + 1), A(0), Two32, UMax}
PartMachine == UNION {{Op("machine", A(BlobAt(k)), z, i, U64Zero) : z \in BlobLens(k), i \in Counters} : k \in 1..Len(Progs)}
               \cup {Op("machine", a, A(4), U64Zero, U64Zero) : a \in {A(P18), A(P18 - 2), A(0), NearTop, T32(A(BlobAt(1)))}}
               \cup {Op("machine", A(BadShortAt), A(Len(BadShort)), U64Zero, U64Zero), Op("machine", A(BadLongAt), A(Len(BadLong)), U64Zero, U64Zero)}
LowGas == [i \in 1..6 |-> [call |-> "poke", w |-> <<A(1), A(SrcAt), A(P16 + 512), A(1), U64Zero, U64Zero>>, gas |-> 3 * i + 1]]
PartAllOps == PartPeek \cup PartPoke \cup PartPages \cup PartInvoke \cup PartExpunge \cup PartMachine
Part == {[tag |-> "part:" \o op.call, ops |-> Prep \o <<op>> \o <<Op("expunge", A(1), U64Zero, U64Zero, U64Zero)>>] :
           op \in (IF Tier = "thorough" THEN PartAllOps
                   ELSE Pick(PartPeek, 37) \cup Pick(PartPoke, 37) \cup Pick(PartPages, 37) \cup Pick(PartInvoke, 2)
                        \cup PartExpunge \cup Pick(PartMachine, 6))}
        \cup {[tag |-> "part:lowgas", ops |-> Prep \o <<LowGas[i]>>] : i \in 1..6}

\* ---- invoke: program x start counter x gas
Gases == {A(0), A(1), A(2), A(3), A(4), A(5), A(6), A(9)}
BigGases == {<<255, 255, 255, 255, 255, 255, 255, 127>>, <<0, 0, 0, 0, 0, 0, 0, 128>>, UMax, Two32}
InvOps(k, i, g) ==
  <<Op("machine", A(BlobAt(k)), A(Len(BlobOf(k))), i, U64Zero),
    Op("pages", A(0), A(16), A(2), A(2)),
    Op("poke", A(0), A(SrcAt), A(P16 + 512), A(8)),
    [call |-> "invoke", w |-> <<A(0), A(BufAt), U64Zero, U64Zero, U64Zero, U64Zero>>, set |-> << <<BufAt, g>> >>],
    [call |-> "invoke", w |-> <<A(0), A(BufAt), U64Zero, U64Zero, U64Zero, U64Zero>>, set |-> << <<BufAt, g>> >>],
    Op("invoke", A(0), A(BufAt), U64Zero, U64Zero),
    Op("expunge", A(0), U64Zero, U64Zero, U64Zero)>>
InvAll == UNION {{[tag |-> "inv", ops |-> InvOps(k, i, g)] : i \in {A(0), A(1), A(2), A(Len(BlobOf(k)))} \cup Counters,
                                                              g \in Gases \cup (IF k = 5 THEN {} ELSE BigGases)} : k \in 1..Len(Progs)}
Inv == IF Tier = "thorough" THEN InvAll ELSE Pick(InvAll, 9)

\* ---- fixed scripts present in every run: each call's main branches on one machine's life
Pg(n, p, c, r) == Op("pages", A(n), A(p), A(c), A(r))
Pk(n, s, d, z) == Op("poke", A(n), A(s), A(d), A(z))
Pe(n, d, s, z) == Op("peek", A(n), A(d), A(s), A(z))
Iv(n) == Op("invoke", A(n), A(BufAt), U64Zero, U64Zero)
Ex(n) == Op("expunge", A(n), U64Zero, U64Zero, U64Zero)
Must == {[tag |-> "must", ops |-> s] : s \in {
  \* read-only inner pages: poke refused (OOB), peek allowed; then writable keeping contents, poke, peek, run, resume, remove
  <<B(4), Pg(0, 16, 2, 1), Pk(0, SrcAt, P16 + 512, 4), Pe(0, DstAt, P16 + 512, 4), Pg(0, 16, 2, 4), Pk(0, SrcAt, P16 + 512, 8),
    Pe(0, DstAt, P16 + 514, 4), Iv(0), Iv(0), Iv(0), Pe(0, DstAt, P17, 4), Ex(0), Ex(0)>>,
  \* two machines: identifiers, isolation between them, reuse of the lowest identifier
  <<B(3), B(4), Pg(1, 16, 2, 2), Pk(1, SrcAt, P16 + 4094, 4), Pe(0, DstAt, P16 + 4094, 4), Pe(1, DstAt, P16 + 4094, 4), Iv(0), Iv(1), Iv(0),
    Ex(0), B(1), Iv(0), Pg(1, 16, 1, 0), Pe(1, DstAt, P16 + 4094, 4), Pe(1, DstAt, P17, 2), Pg(1, 17, 1, 3), Pg(1, 16, 1, 3), Ex(1), Ex(0)>>,
  \* whole aligned pages poked in (a copy, not a shared page): a later outer store must not reach the inner machine,
  \* a later inner store (PStore writes inner 17:1) must not reach outer memory; peek returns what was poked
  <<B(4), Pg(0, 16, 2, 2), Pk(0, P17, P16, 4096), Pk(0, P16, P17, 4096),
    [call |-> "peek", w |-> <<A(0), A(DstAt), A(P16 + 4), A(8), U64Zero, U64Zero>>, set |-> << <<P17 + 6, <<92, 93>> >> >>],
    [call |-> "invoke", w |-> <<A(0), A(BufAt), U64Zero, U64Zero, U64Zero, U64Zero>>, set |-> << <<BufAt, A(6)>> >>],
    Pe(0, DstAt, P17, 8), Pe(0, DstAt, P16 + 4, 8), Ex(0)>>,
  \* a trapping machine panics; a looping one runs out of gas and keeps its counter
  <<B(5), B(2), Iv(1), Iv(0), Iv(0), Ex(0), Ex(1)>>}}
Cases == Beh \cup Part \cup Inv \cup Must
ASSUME ndJsonSerialize(OutFile, <<[def |-> "std", outer |-> [acc |-> << <<16, "R">>, <<17, "W">> >>, data |-> OuterTriples(6)]]>>
                                 \o SetToSeq(Cases))
ASSUME PrintT(<<"GEN", Cardinality(Beh), Cardinality(Part), Cardinality(Inv)>>)

GenInit == x = 0
GenNext == FALSE /\ x' = x
=============================================================================

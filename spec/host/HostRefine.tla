----------------------------- MODULE HostRefine -----------------------------
(* C33: the inner PVM machines of the refine invocation (Gray Paper 0.7.x, Appendix *)
(* B.8: host functions machine = 8, peek = 9, poke = 10, pages = 11, invoke = 12,   *)
(* expunge = 13).  Each call is a FUNCTION from the outer frame and the machine map *)
(* to the sequence of acceptable outcomes (the first is the specified one, further  *)
(* ones exist only for the permissive clauses below).  The inner machine run by     *)
(* invoke is the coordinator's reference machine PVM!Run (the oracle of C01).       *)
(*                                                                                 *)
(*  outer frame  o = [regs: 13 x U64, gas: Int, acc: page -> "R"/"W", data]         *)
(*  machines     m = function  n (small natural) -> [blob, mem: [acc, data], pc: U64]*)
(*               blob is the program as supplied; Deblob(blob) is what invoke runs  *)
(*                                                                                 *)
(* Every call first pays 10 gas: with less than 10 the outcome is out-of-gas and    *)
(* nothing else changes.  An unreadable / unwritable OUTER range panics the outer   *)
(* call (machines and memory unchanged); an inaccessible INNER range is OOB.        *)
(*                                                                                 *)
(* Permissive clauses (DESIGN.md 4.1):                                             *)
(*  P-pages34   pages with mode 3 / 4 keeps the contents of the pages (my reading:  *)
(*              the modes exist to change access without wiping); zeroed contents   *)
(*              are accepted as well;                                              *)
(*  P-oogreg    the outer registers after an out-of-gas exit of a host call are not *)
(*              compared (the machine state is discarded); after a panic they must  *)
(*              be the registers the call was entered with;                         *)
(*  P-fault, P-jumpreg  inherited from PVM.tla for the inner run: page-fault        *)
(*              address anywhere in the faulting access' page span; destination     *)
(*              register of a panicking load_imm_jump(_ind) old or new;             *)
(*  P-either    a blob that ProgramBlob classifies "either" (non-minimal header     *)
(*              natural, odd z, mask padding bits) may be refused or accepted; an   *)
(*              invoke of a machine holding such a blob is not judged.              *)
(*  P-biggas    an invoke gas above 2^31-1 is judged only when the inner program    *)
(*              ends within BigCap steps: then g' = g - steps (64-bit).             *)
EXTENDS PVM, TLC, SequencesExt
PB == INSTANCE ProgramBlob
NC == INSTANCE NatCodec

\* ------------------------------------------------------------------ result codes
OK == U64Zero
RcHUH == <<247, 255, 255, 255, 255, 255, 255, 255>>
RcWHO == <<252, 255, 255, 255, 255, 255, 255, 255>>
RcOOB == <<253, 255, 255, 255, 255, 255, 255, 255>>
InnerHALT == U(0)
InnerPANIC == U(1)
InnerFAULT == U(2)
InnerHOST == U(3)
InnerOOG == U(4)
Two32 == <<0, 0, 0, 0, 1, 0, 0, 0>>
BigCap == 4000

\* ------------------------------------------------------------------ ranges of a memory [acc, data]
Hi4Zero(a) == a[5] = 0 /\ a[6] = 0 /\ a[7] = 0 /\ a[8] = 0
IsSmallU(a) == Hi4Zero(a) /\ a[4] < 128                    \* < 2^31: FromLE is safe
SmallOf(a) == FromLE(Low(a, 4))
PageNo(a) == a[4] * 4096 + a[3] * 16 + (a[2] \div 16)      \* page of a 32-bit address
\* [a, a+z) lies in 0..2^32-1
InRam(a, z) == Hi4Zero(a) /\ (Hi4Zero(z) \/ z = Two32) /\ LeU(Add(a, z), Two32)
\* every address of [a, a+z) is readable (write = FALSE) / writable (write = TRUE) in mem; the empty range always is
RangeOk(mem, a, z, write) ==
  IF IsZero(z) THEN TRUE
  ELSE IF ~InRam(a, z) THEN FALSE
  ELSE LET p0 == PageNo(a)
           p1 == PageNo(SubU(Add(a, z), U(1)))
       IN Cardinality({pg \in DOMAIN mem.acc : pg >= p0 /\ pg <= p1 /\ (write => mem.acc[pg] = "W")}) = p1 - p0 + 1
\* bytes of a range that lies in 0..2^32-1 (checked by RangeOk before): keys <<page, offset>> by integer arithmetic
OffNo(a) == a[1] + 256 * (a[2] % 16)
KeyAt(a, j) == LET o == OffNo(a) + j - 1 IN <<PageNo(a) + (o \div 4096), o % 4096>>
GetBytes(mem, a, n) == [j \in 1..n |-> LET key == KeyAt(a, j) IN IF key \in DOMAIN mem.data THEN mem.data[key] ELSE 0]
PutBytes(mem, a, bytes) ==
  LET pg == PageNo(a)
      off == OffNo(a)
      fresh == [key \in {KeyAt(a, j) : j \in 1..Len(bytes)} |-> bytes[(key[1] - pg) * 4096 + key[2] - off + 1]]
  IN [mem EXCEPT !.data = fresh @@ mem.data]
EmptyMem == [acc |-> <<>>, data |-> <<>>]
NormMem(mem) == [acc |-> mem.acc,
                 data |-> LET ks == {key \in DOMAIN mem.data : mem.data[key] # 0 /\ key[1] \in DOMAIN mem.acc}
                          IN [key \in ks |-> mem.data[key]]]

\* ------------------------------------------------------------------ deblob (A.2) of a stored blob
\* only called on blobs whose class is not "malformed"; a jump-table entry that does not fit 31 bits
\* can never be a basic-block start and is represented by a position past the code
Deblob(c) ==
  LET d1 == NC!DecNat(c)
      r1 == Drop(c, d1.used)
      z == r1[1]
      d2 == NC!DecNat(Drop(r1, 1))
      r3 == Drop(Drop(r1, 1), d2.used)
      jn == SmallOf(d1.val)
      cn == SmallOf(d2.val)
      entry(i) == LET b == Sub(r3, (i - 1) * z + 1, i * z)
                  IN IF \E k \in 4..Len(b) : b[k] # 0 THEN cn + 1 ELSE FromLE(Sub(b, 1, Min2(3, Len(b))))
      code == Sub(r3, jn * z + 1, jn * z + cn)
      mb == Sub(r3, jn * z + cn + 1, Len(r3))
  IN [code |-> code,
      mask |-> [i \in 1..cn |-> (mb[((i - 1) \div 8) + 1] \div Pow2((i - 1) % 8)) % 2],
      jt |-> [i \in 1..(IF z = 0 THEN 0 ELSE jn) |-> entry(i)]]
BlobClass(c) == PB!InnerParse(c).class

\* ------------------------------------------------------------------ outcomes
W7(o) == o.regs[8]
W8(o) == o.regs[9]
W9(o) == o.regs[10]
W10(o) == o.regs[11]
SetW7(o, v) == [o EXCEPT !.regs[8] = v]
NoFault == [on |-> FALSE, arg |-> U64Zero, n |-> 0]
Out(exit, o, m) == [exit |-> exit, o |-> o, m |-> m, fault |-> NoFault]
Continue(o, m) == Out("continue", o, m)
Panic(o, m) == Out("panic", o, m)
\* the 10 gas of every host call
Paid(o) == [o EXCEPT !.gas = o.gas - 10]
OutOfGas(o, m) == <<Out("oog", Paid(o), m)>>

HasM(m, n) == IsSmallU(n) /\ SmallOf(n) \in DOMAIN m
LowestFree(m) == CHOOSE n \in 0..Cardinality(DOMAIN m) : n \notin DOMAIN m /\ \A k \in 0..(n - 1) : k \in DOMAIN m
WithM(m, n, rec) == [k \in (DOMAIN m) \cup {n} |-> IF k = n THEN rec ELSE m[k]]
WithoutM(m, n) == [k \in (DOMAIN m) \ {n} |-> m[k]]

\* ------------------------------------------------------------------ machine = 8
Machine(o0, m) ==
  IF o0.gas < 10 THEN OutOfGas(o0, m) ELSE
  LET o == Paid(o0)
      po == W7(o)
      pz == W8(o)
      i == W9(o)
  IN IF ~RangeOk(o, po, pz, FALSE) THEN <<Panic(o, m)>>
     ELSE LET blob == GetBytes(o, po, SmallOf(pz))
              cls == BlobClass(blob)
              n == LowestFree(m)
              made == Continue(SetW7(o, U(n)), WithM(m, n, [blob |-> blob, mem |-> EmptyMem, pc |-> i]))
              refused == Continue(SetW7(o, RcHUH), m)
          IN IF cls = "malformed" THEN <<refused>>
             ELSE IF cls = "wellformed" THEN <<made>>
             ELSE <<made, refused>>                                         \* P-either

\* ------------------------------------------------------------------ peek = 9: outer[o..+z) := inner[s..+z)
Peek(o0, m) ==
  IF o0.gas < 10 THEN OutOfGas(o0, m) ELSE
  LET o == Paid(o0)
      n == W7(o)
      oo == W8(o)
      s == W9(o)
      z == W10(o)
  IN IF ~RangeOk(o, oo, z, TRUE) THEN <<Panic(o, m)>>
     ELSE IF ~HasM(m, n) THEN <<Continue(SetW7(o, RcWHO), m)>>
     ELSE IF ~RangeOk(m[SmallOf(n)].mem, s, z, FALSE) THEN <<Continue(SetW7(o, RcOOB), m)>>
     ELSE <<Continue(SetW7(PutBytes(o, oo, GetBytes(m[SmallOf(n)].mem, s, SmallOf(z))), OK), m)>>

\* ------------------------------------------------------------------ poke = 10: inner[o..+z) := outer[s..+z)
Poke(o0, m) ==
  IF o0.gas < 10 THEN OutOfGas(o0, m) ELSE
  LET o == Paid(o0)
      n == W7(o)
      s == W8(o)
      oo == W9(o)
      z == W10(o)
  IN IF ~RangeOk(o, s, z, FALSE) THEN <<Panic(o, m)>>
     ELSE IF ~HasM(m, n) THEN <<Continue(SetW7(o, RcWHO), m)>>
     ELSE IF ~RangeOk(m[SmallOf(n)].mem, oo, z, TRUE) THEN <<Continue(SetW7(o, RcOOB), m)>>
     ELSE LET k == SmallOf(n)
          IN <<Continue(SetW7(o, OK), [m EXCEPT ![k].mem = PutBytes(@, oo, GetBytes(o, s, SmallOf(z)))])>>

\* ------------------------------------------------------------------ pages = 11
IsPageCount(x) == Hi4Zero(x) /\ x[4] = 0 /\ x[3] < 16              \* x < 2^20 = 2^32 / Z_P
PageInt(x) == x[1] + 256 * x[2] + 65536 * x[3]
\* mode r on pages P of mem; keep = the contents survive
SetPages(mem, P, r, keep) ==
  LET acc2 == IF r = 0 THEN [pg \in (DOMAIN mem.acc) \ P |-> mem.acc[pg]]
              ELSE [pg \in (DOMAIN mem.acc) \cup P |-> IF pg \in P THEN (IF r \in {1, 3} THEN "R" ELSE "W") ELSE mem.acc[pg]]
      ks == IF keep THEN DOMAIN mem.data ELSE {key \in DOMAIN mem.data : key[1] \notin P}
  IN [acc |-> acc2, data |-> [key \in ks |-> mem.data[key]]]
Pages(o0, m) ==
  IF o0.gas < 10 THEN OutOfGas(o0, m) ELSE
  LET o == Paid(o0)
      n == W7(o)
      p == W8(o)
      c == W9(o)
      r == W10(o)
      huh == <<Continue(SetW7(o, RcHUH), m)>>
  IN IF ~HasM(m, n) THEN <<Continue(SetW7(o, RcWHO), m)>>
     ELSE IF ~(IsSmallU(r) /\ SmallOf(r) <= 4) THEN huh
     ELSE IF ~IsPageCount(p) \/ ~IsPageCount(c) THEN huh
     ELSE IF PageInt(p) < 16 \/ PageInt(p) + PageInt(c) >= 1048576 THEN huh
     ELSE LET k == SmallOf(n)
              rr == SmallOf(r)
              P == PageInt(p)..(PageInt(p) + PageInt(c) - 1)
              mem == m[k].mem
          IN IF rr > 2 /\ \E pg \in P : pg \notin DOMAIN mem.acc THEN huh
             ELSE IF rr <= 2 THEN <<Continue(SetW7(o, OK), [m EXCEPT ![k].mem = SetPages(mem, P, rr, FALSE)])>>
             ELSE <<Continue(SetW7(o, OK), [m EXCEPT ![k].mem = SetPages(mem, P, rr, TRUE)]),
                    Continue(SetW7(o, OK), [m EXCEPT ![k].mem = SetPages(mem, P, rr, FALSE)])>>     \* P-pages34

\* ------------------------------------------------------------------ invoke = 12
\* the stored counter as a position of PVM.tla: anything at or past the end of the code is the implicit trap
PcPos(pc, prog) == IF IsSmallU(pc) /\ SmallOf(pc) < Len(prog.code) THEN SmallOf(pc) ELSE Len(prog.code)
Flatten8(regs) == [j \in 1..104 |-> regs[((j - 1) \div 8) + 1][((j - 1) % 8) + 1]]
InvokeRun(mach, g, w) ==
  LET prog == Deblob(mach.blob)
      big == ~IsSmallU(g)
      g0 == IF big THEN BigCap ELSE SmallOf(g)
      pos == PcPos(mach.pc, prog)
      s0 == [pc |-> pos, gas |-> g0, regs |-> w, acc |-> mach.mem.acc, data |-> mach.mem.data, hp |-> U64Zero, hl |-> U64Zero]
      r == Run(prog, s0)
      g1 == IF big THEN SubU(g, U(g0 - r.s.gas)) ELSE U(r.s.gas)
      \* the counter did not move off a position past the code: it keeps its stored value
      pc1 == IF r.exit \in {"halt", "panic"} THEN U64Zero
             ELSE IF r.s.pc = pos /\ pos = Len(prog.code) THEN mach.pc ELSE U(r.s.pc)
  IN [r |-> r, g1 |-> g1, pc1 |-> pc1, judged |-> ~(big /\ r.exit = "oog")]
Invoke(o0, m) ==
  IF o0.gas < 10 THEN OutOfGas(o0, m) ELSE
  LET o == Paid(o0)
      n == W7(o)
      oo == W8(o)
  IN IF ~RangeOk(o, oo, U(112), TRUE) THEN <<Panic(o, m)>>
     ELSE IF ~HasM(m, n) THEN <<Continue(SetW7(o, RcWHO), m)>>
     ELSE IF BlobClass(m[SmallOf(n)].blob) # "wellformed" THEN <<>>          \* P-either: what such a blob decodes to is not fixed here
     ELSE LET k == SmallOf(n)
              buf == GetBytes(o, oo, 112)
              g == Sub(buf, 1, 8)
              w == [i \in 1..13 |-> Sub(buf, 8 * i + 1, 8 * i + 8)]
              x == InvokeRun(m[k], g, w)
              r == x.r
              m2 == [m EXCEPT ![k].mem = [acc |-> r.s.acc, data |-> r.s.data], ![k].pc = x.pc1]
              code == CASE r.exit = "halt" -> InnerHALT [] r.exit = "panic" -> InnerPANIC [] r.exit = "fault" -> InnerFAULT
                        [] r.exit = "host" -> InnerHOST [] OTHER -> InnerOOG
              res(regs) == LET o1 == PutBytes(o, oo, x.g1 \o Flatten8(regs))
                               o2 == [o1 EXCEPT !.regs[8] = code, !.regs[9] = IF r.exit \in {"fault", "host"} THEN r.arg ELSE @]
                           IN [exit |-> "continue", o |-> o2, m |-> m2,
                               fault |-> [on |-> r.exit = "fault", arg |-> r.arg, n |-> r.n]]
              \* P-jumpreg: a loose register holds its new or its old value
              olds == SetToSeq(r.loose)
              alt(i) == res([r.s.regs EXCEPT ![i + 1] = w[i + 1]])
          IN IF ~x.judged THEN <<>>                                          \* P-biggas: not judged
             ELSE <<res(r.s.regs)>> \o [j \in 1..Len(olds) |-> alt(olds[j])]

\* ------------------------------------------------------------------ expunge = 13
Expunge(o0, m) ==
  IF o0.gas < 10 THEN OutOfGas(o0, m) ELSE
  LET o == Paid(o0)
      n == W7(o)
  IN IF ~HasM(m, n) THEN <<Continue(SetW7(o, RcWHO), m)>>
     ELSE <<Continue(SetW7(o, m[SmallOf(n)].pc), WithoutM(m, SmallOf(n)))>>

Calls == {"machine", "peek", "poke", "pages", "invoke", "expunge"}
Apply(call, o, m) ==
  CASE call = "machine" -> Machine(o, m)
    [] call = "peek" -> Peek(o, m)
    [] call = "poke" -> Poke(o, m)
    [] call = "pages" -> Pages(o, m)
    [] call = "invoke" -> Invoke(o, m)
    [] call = "expunge" -> Expunge(o, m)

\* ------------------------------------------------------------------ the declared outer ranges of a call
\* the only outer bytes a call may write: peek [w8, w8+w10), invoke [w8, w8+112)
OuterWriteRange(call, o) ==
  IF call = "peek" THEN [a |-> W8(o), z |-> W10(o)]
  ELSE IF call = "invoke" THEN [a |-> W8(o), z |-> U(112)]
  ELSE [a |-> U64Zero, z |-> U64Zero]
\* the 32-bit address of a data key <<page, off>>
KeyAddr(key) == <<key[2] % 256, (key[2] \div 256) + (key[1] % 16) * 16, (key[1] \div 16) % 256, key[1] \div 4096, 0, 0, 0, 0>>
KeyInRange(key, rg) ==
  ~IsZero(rg.z) /\ InRam(rg.a, rg.z) /\ LeU(rg.a, KeyAddr(key)) /\ LtU(KeyAddr(key), Add(rg.a, rg.z))
=============================================================================

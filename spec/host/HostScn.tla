------------------------------ MODULE HostScn ------------------------------
(* Scenario material shared by the generator (HostCall_Gen) and the design models   *)
(* (MC_HostFrame, MC_Tokens, MC_Footprint): one guest memory layout with planted    *)
(* inputs, small service contexts, and the per-call argument partition.             *)
(*                                                                                 *)
(* Guest memory: pages 32 W, 33 W, 34 R, 35 absent, 36 present-but-inaccessible,    *)
(* 37 W, 2^20-1 (last page) W.  Nothing below 2^16 is ever mapped.                  *)
EXTENDS HostAccumulate

AccMap == << <<32, "W">>, <<33, "W">>, <<34, "R">>, <<36, "N">>, <<37, "W">>, <<1048575, "W">> >>
A(pg, off) == AddrBytes(pg, off)
Hi32 == <<0, 0, 0, 0, 1, 0, 0, 0>>                     \* 2^32
Two63 == <<0, 0, 0, 0, 0, 0, 0, 128>>
Top32 == <<255, 255, 255, 255, 0, 0, 0, 0>>            \* 2^32 - 1
H(i) == [j \in 1..32 |-> IF j = 1 THEN 16 * i + 1 ELSE IF j = 2 THEN i + 1 ELSE IF j = 32 THEN 255 - i ELSE 0]
Cells(pg, off, bytes) == [j \in 1..Len(bytes) |-> <<pg + ((off + j - 1) \div 4096), (off + j - 1) % 4096, bytes[j]>>]

K1 == <<107, 49>>
K2 == <<107, 50, 33>>
K3 == <<107, 51>>
V1 == <<1, 2, 3, 4>>
V16 == [j \in 1..16 |-> 30 + j]
Memo == [j \in 1..128 |-> IF j % 32 = 1 THEN j ELSE IF j = 128 THEN 77 ELSE 0]
Blob5 == <<1, 2, 3, 4, 5>>
Prog == <<0, 0, 1, 0, 1>>                              \* a one-instruction program blob (trap)

RECURSIVE CatAll(_)
CatAll(ss) == IF ss = <<>> THEN <<>> ELSE Head(ss) \o CatAll(Tail(ss))
Planted ==
  CatAll([i \in 1..8 |-> Cells(32, 64 * (i - 1), H(i - 1))])
  \o Cells(34, 0, H(1)) \o Cells(32, 4080, H(1)) \o Cells(33, 4080, H(1)) \o Cells(34, 4080, Sub(H(1), 1, 16))
  \o Cells(1048575, 4064, H(1)) \o Cells(37, 100, H(1))
  \o Cells(32, 1024, K1) \o Cells(32, 1040, K2) \o Cells(32, 1056, K3) \o Cells(34, 1024, K1)
  \o Cells(32, 1100, V16) \o Cells(32, 1200, Memo)
  \o Cells(32, 1400, <<5, 0, 0, 0, 6, 0, 0, 0>>)
  \o Cells(32, 1420, <<6, 0, 0, 0, 50, 0, 0, 0, 0, 0, 0, 0, 7, 0, 0, 0, 60, 0, 0, 0, 0, 0, 0, 0>>)
  \o Cells(32, 1500, Prog)
DataCells == SelectSeq(Planted, LAMBDA c : c[3] # 0)
HashAt(i) == A(32, 64 * i)

\* ---------------------------------------------------------------- accounts and contexts
Acct(id, bal, code, g, m, gratis, st, lk, pre) ==
  LET a0 == [id |-> LE(id, 4), code |-> code, bal |-> bal, g |-> U(g), m |-> U(m), oct |-> U64Zero, gratis |-> gratis,
             items |-> Zeros(4), created |-> LE(1, 4), last |-> LE(2, 4), parent |-> LE(0, 4), st |-> st, lk |-> lk, pre |-> pre]
  IN [a0 EXCEPT !.items = DerivedItems(a0), !.oct = DerivedOctets(a0)]
Lk(i, z, slots) == [h |-> H(i), z |-> LE(z, 4), slots |-> [j \in 1..Len(slots) |-> LE(slots[j], 4)]]
E32(id) == LE(id, 4) \o Zeros(28)
Thr8(a) == Sub(AcctThresholdX(a), 1, 8)

SelfBase(bal) == Acct(5, bal, H(9), 0, 0, U64Zero, << <<K1, V1>>, <<K3, <<>>>> >>,
                      <<Lk(1, 5, <<>>), Lk(2, 3, <<10>>), Lk(3, 4, <<10, 20>>), Lk(4, 6, <<10, 90>>), Lk(5, 7, <<10, 20, 30>>), Lk(6, 2, <<10, 90, 95>>)>>,
                      <<[h |-> H(1), blob |-> Blob5]>>)
SelfThr == Thr8(SelfBase(U64Zero))
Other == Acct(6, U(500), H(10), 0, 7, U64Zero, << <<K1, <<9>>>> >>, <<Lk(1, 3, <<10>>)>>, <<[h |-> H(1), blob |-> <<7, 7, 7>>]>>)
Eject7(bal) == Acct(7, bal, E32(5), 0, 0, U64Zero, <<>>, <<Lk(3, 4, <<10, 20>>)>>, <<>>)
Eject8 == Acct(8, U(300), E32(5), 0, 0, U64Zero, <<>>, <<Lk(3, 4, <<10, 90>>)>>, <<>>)
Eject9 == Acct(9, U(300), E32(5), 0, 0, U64Zero, << <<K1, V1>> >>, <<Lk(3, 4, <<10, 20>>)>>, <<>>)
Plain(id) == Acct(id, U(150), H(11), 0, 0, U64Zero, <<>>, <<>>, <<>>)

Priv(m, r, a1, a2, v) == [bless |-> LE(m, 4), assign |-> <<LE(a1, 4), LE(a2, 4)>>, designate |-> LE(v, 4), create |-> LE(r, 4), always |-> <<>>]
\* what fetch can see (HostAccumulate!FetchVals); the driver installs it from ctx.fx and logs it as pre.fx
NoPkg == [has |-> 0, host |-> Zeros(4), u |-> Zeros(32), t |-> Zeros(4), j |-> <<>>, f |-> <<>>, items |-> <<>>]
Fx(n, r, i, x, imp, p, o) == [n |-> n, r |-> r, i |-> i, x |-> x, imp |-> imp, p |-> p, o |-> o]
Eta == [j \in 1..32 |-> 224 + (j % 16)]
Item(s, h, g, a, e, ni, y) == [s |-> LE(s, 4), h |-> H(h), g |-> U(g), a |-> U(a), e |-> e, ni |-> ni, y |-> y]
Pkg(ni) == [has |-> 1, host |-> LE(6, 4), u |-> H(12), t |-> LE(100, 4), j |-> <<4, 4, 4>>, f |-> <<5, 5>>,
            items |-> <<Item(5, 13, 10, 11, 2, ni, <<6, 6, 6, 6>>), Item(6, 14, 12, 13, 0, 2 * ni, <<>>), Item(7, 15, 300, 70000, 3, 0, <<1>>)>>]
AccFx == Fx(Eta, [has |-> 0, v |-> <<>>], [has |-> 0, v |-> 0], <<>>, <<>>, NoPkg, 2)
\* refine: variant 1 has a package without imported segments (so the codec can encode it here), the work item is item 1
RefFx(v) == Fx(<<>>, [has |-> IF v = 1 THEN 1 ELSE 0, v |-> IF v = 1 THEN <<1, 2, 3, 4, 5>> ELSE <<>>], [has |-> 1, v |-> IF v = 1 THEN 1 ELSE 0],
               << <<<<9, 9>>, <<8>>>>, <<<<7, 7, 7>>>>, <<>> >>, << <<1>>, <<2, 3>>, <<>> >>, Pkg(IF v = 1 THEN 0 ELSE 1), 0)
AuthFx(v) == Fx(<<>>, [has |-> 0, v |-> <<>>], [has |-> 0, v |-> 0], <<>>, <<>>, IF v = 1 THEN Pkg(0) ELSE NoPkg, 0)
Ctx(svcs, priv) == [self |-> LE(5, 4), nextid |-> LE(70000, 4), t |-> LE(100, 4), svcs |-> svcs, xfers |-> <<>>, priv |-> priv,
                    yield |-> <<>>, prov |-> <<>>, vk |-> <<0>>, aq |-> <<>>, kv |-> <<>>, kvl |-> <<>>, machines |-> <<>>, nexp |-> 0, expd |-> <<>>, expoff |-> 0]
\* accumulate contexts: rich / exactly at threshold (and 70042 taken) / huge / below threshold
AccCtx(v) ==
  CASE v = 1 -> Ctx(<<SelfBase(Add(SelfThr, U(1000))), Other, Eject7(U(300)), Eject8, Eject9>>, Priv(5, 5, 5, 5, 5))
    [] v = 2 -> Ctx(<<SelfBase(SelfThr), Other, Eject7(U(300)), Plain(70042)>>, Priv(6, 6, 6, 5, 6))
    [] v = 3 -> Ctx(<<SelfBase(Neg(U(100))), Other, Eject7(U(300))>>, Priv(5, 6, 5, 6, 5))
    [] OTHER -> Ctx(<<SelfBase(SubU(SelfThr, U(10))), Other, Eject7(U(300))>>, Priv(6, 5, 6, 6, 6))
\* the driver creates machine k of the list through the calls machine and pages themselves (index k - 1, zero-filled pages)
Machine(n) == [n |-> U(n), code |-> Prog, pc |-> U64Zero, acc |-> << <<32, "W">>, <<33, "R">> >>]
\* refine: the item's service holds preimages with availability records of 0..3 slots (historical_lookup)
BlobN(n) == [j \in 1..n |-> 40 + j]
RefSelf == [SelfBase(Add(SelfThr, U(1000))) EXCEPT !.pre = <<[h |-> H(1), blob |-> Blob5], [h |-> H(2), blob |-> BlobN(3)], [h |-> H(3), blob |-> BlobN(4)],
                                                               [h |-> H(4), blob |-> BlobN(6)], [h |-> H(5), blob |-> BlobN(7)], [h |-> H(6), blob |-> BlobN(2)]>>]
RefCtx(v) == [Ctx(<<RefSelf, Other>>, Priv(0, 0, 0, 0, 0))
              EXCEPT !.t = IF v = 2 THEN LE(15, 4) ELSE LE(100, 4), !.machines = IF v = 2 THEN <<>> ELSE <<Machine(0), Machine(1)>>, !.nexp = 1, !.expoff = IF v = 2 THEN 3071 ELSE 0]

\* ---------------------------------------------------------------- argument partition
\* a field: registers it sets, candidate tuples (the first g are "good": they let the call proceed)
Fld(r, g, c) == [r |-> r, g |-> g, c |-> c]
One(r, g, vals) == Fld(<<r>>, g, [i \in 1..Len(vals) |-> <<vals[i]>>])

SvcV == <<UMax, U(5), U(6), U(7), U(99), Add(U(5), Hi32), Add(U(6), Hi32), Hi32, U(70042), U(70000)>>
HashV == <<HashAt(1), HashAt(2), HashAt(3), HashAt(4), HashAt(5), HashAt(6), HashAt(0), HashAt(7),
           A(34, 0), A(32, 4080), A(33, 4080), A(37, 100), A(1048575, 4064),
           A(34, 4080), A(35, 0), A(36, 0), U64Zero, A(15, 4090), A(1048575, 4065), Add(HashAt(1), Hi32), UMax, Two63>>
HashGood == 13
OutV == <<A(33, 200), A(37, 0), A(32, 2000), A(33, 4090), A(1048575, 4090),
          A(34, 10), A(35, 0), A(36, 0), U64Zero, Add(A(33, 200), Hi32), UMax>>
OutGood == 5
OffV == <<U64Zero, U(1), U(3), U(96), Hi32, UMax>>
LenV == <<U(200), U64Zero, U(1), U(6), U(7), U(4097), Hi32, UMax>>
ValV == <<U64Zero, U(1), U(7), Top32, Hi32, Two63, UMax>>
KeyP == << <<A(32, 1024), U(2)>>, <<A(32, 1040), U(3)>>, <<A(32, 1056), U(2)>>, <<A(32, 1024), U64Zero>>, <<A(34, 1024), U(2)>>,
           <<A(35, 0), U64Zero>>, <<A(32, 4095), U(2)>>,
           <<A(35, 0), U(2)>>, <<A(34, 4095), U(2)>>, <<A(36, 4), U(1)>>, <<A(32, 1024), Hi32>>, <<A(32, 1024), UMax>>,
           <<A(33, 0), U(8193)>>, <<Add(A(32, 1024), Hi32), U(2)>>, <<A(1048575, 4095), U(2)>>, <<UMax, U(1)>> >>
KeyGood == 7
ValP == << <<A(32, 1100), U(16)>>, <<A(32, 1100), U(4)>>, <<A(32, 1100), U64Zero>>, <<A(32, 1100), U(1)>>, <<A(34, 1024), U(2)>>,
           <<A(35, 0), U64Zero>>, <<A(35, 0), U(2)>>, <<A(34, 4095), U(2)>>, <<A(32, 1100), Hi32>>, <<A(32, 1100), UMax>>,
           <<Add(A(32, 1100), Hi32), U(4)>>, <<A(36, 0), U(1)>> >>
ValGood == 6
\* fixed-size inputs of n bytes
InV(good, n) == <<good, A(37, 0), A(33, 4096 - (n % 4096)), A(1048575, 4096 - (n % 4096)),
                  A(34, 4097 - (n % 4096)), A(35, 0), A(36, 0), U64Zero, Add(good, Hi32), A(1048575, 4097 - (n % 4096)), UMax>>
InGood == 4
MachV == <<U64Zero, U(1), U(2), Hi32, Add(U(1), Hi32), UMax>>
ZV == <<U(5), U(3), U(4), U(6), U(7), U(2), U64Zero, U(9), Hi32, Add(U(5), Hi32), UMax>>

CallFields(k) ==
  CASE k = 0 -> <<>>
    [] k = 1 -> <<One(7, OutGood, OutV), One(8, 4, OffV), One(9, 5, LenV),
                  One(10, 16, [q \in 1..16 |-> U(q - 1)] \o <<U(16), U(17), Hi32, Add(U(1), Hi32), UMax>>),
                  One(11, 2, <<U64Zero, U(1), U(2), U(3), Hi32, UMax>>), One(12, 2, <<U64Zero, U(1), U(2), Hi32, UMax>>)>>
    [] k \in {2, 6} -> <<One(7, 4, SvcV), One(8, HashGood, HashV), One(9, OutGood, OutV), One(10, 4, OffV), One(11, 5, LenV)>>
    [] k = 3 -> <<One(7, 4, SvcV), Fld(<<8, 9>>, KeyGood, KeyP), One(10, OutGood, OutV), One(11, 4, OffV), One(12, 5, LenV)>>
    [] k = 4 -> <<Fld(<<7, 8>>, KeyGood, KeyP), Fld(<<9, 10>>, ValGood, ValP)>>
    [] k = 5 -> <<One(7, 4, SvcV), One(8, OutGood, OutV), One(9, 4, OffV), One(10, 5, LenV)>>
    [] k = 7 -> <<Fld(<<7, 8>>, ValGood, ValP \o << <<A(32, 0), U(4104)>>, <<A(32, 0), U(5000)>>, <<A(33, 0), U(4104)>> >>)>>
    [] k = 8 -> <<Fld(<<7, 8>>, 2, << <<A(32, 1500), U(5)>>, <<A(32, 1100), U(4)>> >> \o ValP), One(9, 3, ValV)>>
    [] k = 9 -> <<One(7, 2, MachV), One(8, OutGood, OutV), One(9, 3, <<A(32, 0), A(33, 0), A(32, 4090), A(34, 0), U64Zero, Add(A(32, 0), Hi32), UMax>>), One(10, 4, <<U(4), U64Zero, U(1), U(6), U(4097), Hi32, UMax>>)>>
    [] k = 10 -> <<One(7, 2, MachV), Fld(<<8, 10>>, ValGood, ValP), One(9, 2, <<A(32, 100), A(32, 4090), A(33, 0), A(34, 0), U64Zero, Add(A(32, 0), Hi32), UMax>>)>>
    [] k = 11 -> <<One(7, 2, MachV), One(8, 3, <<U(32), U(40), U(16), U(15), U64Zero, U(1048575), U(1048576), Hi32, UMax>>),
                   One(9, 3, <<U(1), U(2), U64Zero, U(1048576), Hi32, UMax>>), One(10, 5, <<U64Zero, U(1), U(2), U(3), U(4), U(5), Hi32, UMax>>),
                   \* (page, count, mode) together: modes 3 / 4 over a range whose leading pages exist and a later one does not
                   Fld(<<8, 9, 10>>, 1, << <<U(32), U(1), U64Zero>>, <<U(32), U(3), U(3)>>, <<U(32), U(3), U(4)>>, <<U(32), U(2), U(3)>>, <<U(32), U(2), U(4)>>,
                                           <<U(33), U(2), U(3)>>, <<U(33), U(2), U(1)>>, <<U(31), U(2), U(4)>> >>)>>
    [] k = 12 -> <<One(7, 2, MachV), One(8, 4, <<A(33, 200), A(37, 0), A(32, 2000), A(33, 3984), A(33, 3988), A(33, 3985), A(33, 4090), A(34, 10), A(35, 0), U64Zero, Add(A(33, 200), Hi32), A(1048575, 4000), UMax>>)>>
    [] k = 13 -> <<One(7, 2, MachV)>>
    [] k = 14 -> <<One(7, 3, ValV), One(8, InGood, InV(A(32, 1400), 8)), One(9, 3, ValV), One(10, 3, ValV),
                   Fld(<<11, 12>>, 4, << <<A(32, 1420), U(2)>>, <<A(32, 1420), U64Zero>>, <<A(35, 0), U64Zero>>, <<A(32, 1420), U(1)>>,
                                         <<A(35, 0), U(1)>>, <<A(32, 1420), U(400)>>, <<A(34, 4090), U(1)>>, <<A(32, 1420), Hi32>>, <<A(32, 1420), UMax>>,
                                         <<A(32, 1420), <<86, 85, 85, 85, 85, 85, 85, 21>> >>, <<Add(A(32, 1420), Hi32), U(1)>> >>)>>
    [] k = 15 -> <<One(7, 2, <<U64Zero, U(1), U(2), Hi32, UMax>>), One(8, InGood, InV(A(37, 0), 2560)), One(9, 3, ValV)>>
    [] k = 16 -> <<One(7, InGood, InV(A(37, 0), 2016))>>
    [] k = 17 -> <<>>
    [] k = 18 -> <<One(7, HashGood, HashV), One(8, 4, <<U(5), U64Zero, U(300), Top32, Hi32, Two63, UMax>>), One(9, 3, ValV), One(10, 3, ValV),
                   One(11, 2, <<U64Zero, U64Zero, U(1), U(150), UMax>>), One(12, 4, <<U64Zero, U(77), U(6), U(65535), U(65536), Hi32, Add(U(6), Hi32), UMax>>)>>
    [] k = 19 -> <<One(7, HashGood, HashV), One(8, 3, ValV), One(9, 3, ValV)>>
    [] k = 20 -> <<One(7, 4, SvcV), One(8, 4, <<U(1), U64Zero, U(1000), U(999), U(1001), Top32, Hi32, Two63, UMax>>),
                   One(9, 3, <<U(7), U(100), U(990), U(6), U64Zero, U(991), U(989), Two63, UMax>>), One(10, InGood, InV(A(32, 1200), 128))>>
    [] k = 21 -> <<One(7, 5, <<U(7), U(8), U(9), U(6), U(5), U(99), Add(U(7), Hi32), UMax>>), One(8, HashGood, <<HashAt(3)>> \o HashV)>>
    [] k \in {22, 23, 24} -> <<One(7, HashGood, HashV), One(8, 8, ZV)>>
    [] k = 25 -> <<One(7, HashGood, HashV)>>
    [] k = 26 -> <<One(7, 4, SvcV), Fld(<<8, 9>>, ValGood, ValP)>>
    [] OTHER -> <<One(7, 3, <<U64Zero, U(4), U(5), UMax>>), Fld(<<8, 9>>, ValGood, ValP), Fld(<<10, 11>>, ValGood, ValP)>>
\* gas classes (a counter is a signed 64-bit number; values below -2^62 are outside any reachable run)
GasV == <<U(1000), U(10), U(11), U(9), U64Zero, Neg(U(1)), <<0, 0, 0, 0, 0, 0, 0, 64>>, Neg(U(1000))>>

Filler == [i \in 1..13 |-> U(7000 + i)]
\* registers of a call from one choice (index into c) per field
RegsOf(fields, pick) ==
  LET set(regs, j) == LET f == fields[j] t == f.c[pick[j]] IN
                      [i \in 1..13 |-> IF \E q \in 1..Len(f.r) : f.r[q] + 1 = i THEN t[CHOOSE q \in 1..Len(f.r) : f.r[q] + 1 = i] ELSE regs[i]]
      RECURSIVE go(_, _)
      go(regs, j) == IF j > Len(fields) THEN regs ELSE go(set(regs, j), j + 1)
  IN go(Filler, 1)
\* guest ranges whose digest / hash the driver records before the call (HostAccumulate!Probed)
ProbesOf(k, regs) ==
  CASE k = 15 -> << <<regs[9], 32 * QSize, "fnv">> >>
    [] k = 16 -> << <<regs[8], 336 * NValidators, "fnv">> >>
    [] k = 26 -> IF IsSmallInt(regs[10]) /\ Small32(regs[10]) /\ IntOf(regs[10]) <= 8192 THEN << <<regs[9], IntOf(regs[10]), "b2b">> >> ELSE <<>>
    [] OTHER -> <<>>
Step(k, regs, gas) == [id |-> U(k), regs |-> regs, gas |-> gas, probe |-> ProbesOf(k, regs)]

\* ---------------------------------------------------------------- alphabets of the design models
Regs6(w7, w8, w9, w10, w11, w12) == [i \in 1..13 |-> CASE i = 8 -> w7 [] i = 9 -> w8 [] i = 10 -> w9 [] i = 11 -> w10 [] i = 12 -> w11 [] i = 13 -> w12 [] OTHER -> Filler[i]]
Z == U64Zero
\* C08 (MC_Tokens): caller 5 with free balance 450, payee 6, ejectable 7 (balance 300) and 8 (not yet expired)
TokInit == Ctx(<<SelfBase(Add(SelfThr, U(450))), Other, Eject7(U(300)), Eject8>>, Priv(5, 6, 5, 5, 5))
TokInitBig == Ctx(<<SelfBase(Neg(U(200))), Other, Eject7(U(300)), Eject8>>, Priv(5, 6, 5, 5, 5))
Xfer(d, a, l) == Step(20, Regs6(d, a, l, A(32, 1200), Z, Z), U(1000))
NewC(h, l) == Step(18, Regs6(HashAt(h), l, U(3), U(4), Z, Z), U(1000))
\* creation with a gratis offset f (the caller of the token contexts is the manager, so f # 0 is allowed)
NewF(h, l, f) == Step(18, Regs6(HashAt(h), l, U(3), U(4), f, Z), U(1000))
TokAlphabet == <<Xfer(U(6), U(200), U(7)), Xfer(U(6), U(250), U(7)), Xfer(U(6), U(249), U(100)), Xfer(U(6), Z, U(7)), Xfer(U(6), U(1), U(6)),
                 Xfer(U(7), U(100), Z), Xfer(U(99), U(1), Z), Xfer(U(6), UMax, U(7)), Xfer(Ext8(LE(70000, 4)), U(50), Z),
                 NewC(0, Z), NewC(7, U(5)), NewC(0, U(48)), NewC(0, U(49)), NewC(0, Top32), NewF(7, Z, U(150)),
                 Step(21, Regs6(U(7), HashAt(3), Z, Z, Z, Z), U(1000)), Step(21, Regs6(U(8), HashAt(3), Z, Z, Z, Z), U(1000)),
                 Step(19, Regs6(HashAt(2), U(9), U(8), Z, Z, Z), U(1000)), Step(17, Filler, U(1000))>>
\* C09 (MC_Footprint): caller 5 with 60 tokens of headroom
FootInitMC == Ctx(<<SelfBase(Add(SelfThr, U(60))), Other>>, Priv(5, 6, 5, 5, 5))
Wr(ko, kz, vz) == Step(4, Regs6(A(32, ko), U(kz), A(32, 1100), U(vz), Z, Z), U(1000))
Sol(h, z) == Step(23, Regs6(HashAt(h), U(z), Z, Z, Z, Z), U(1000))
Fgt(h, z) == Step(24, Regs6(HashAt(h), U(z), Z, Z, Z, Z), U(1000))
FootAlphabet == <<Wr(1024, 2, 16), Wr(1024, 2, 4), Wr(1024, 2, 0), Wr(1040, 3, 16), Wr(1040, 3, 0), Wr(1040, 3, 1), Wr(1056, 2, 9), Wr(1024, 0, 2),
                  Sol(0, 3), Sol(3, 4), Sol(7, 0), Sol(1, 5), Fgt(1, 5), Fgt(2, 3), Fgt(0, 3), Fgt(5, 7), Fgt(3, 4), NewC(0, Z)>>

\* the caller's storage entry K1 lives only in the pool of raw (not yet attributed) state key-values: the footprint counts it,
\* the dictionary does not hold it (a state restored from key-values, as the importer / fuzz target builds it)
KvCtx(v) == LET c == AccCtx(v) IN
  [c EXCEPT !.svcs[1] = [@ EXCEPT !.st = << <<K3, <<>>>> >>], !.kv = << <<LE(5, 4), K1, V1>> >>]
\* the caller's request (H(1), 5) |-> [] lives only in the raw pool, and (H(7), 9) |-> [] sits in the dictionary as the NIL slice the
\* codec leaves for an empty list (the generator marks it nil = 1; the driver's projection shows both as plain empty lists)
KvlCtx(v) == LET c == AccCtx(v)
                 full == [c.svcs[1] EXCEPT !.lk = InsertBy(@, Lk(7, 9, <<>>), LkLess)]
                 counted == [full EXCEPT !.items = DerivedItems(full), !.oct = DerivedOctets(full), !.bal = Add(@, U(90))]
             IN [c EXCEPT !.svcs[1] = [counted EXCEPT !.lk = [q \in 1..(Len(counted.lk) - 1) |->
                                                              LET e == counted.lk[q + 1] IN IF e.h = H(7) THEN [h |-> e.h, z |-> e.z, slots |-> e.slots, nil |-> 1] ELSE e]],
                          !.kvl = << <<LE(5, 4), H(1), LE(5, 4), <<>>>> >>]
KvlSteps == <<Step(23, Regs6(HashAt(1), U(5), Z, Z, Z, Z), U(1000)), Step(23, Regs6(HashAt(7), U(9), Z, Z, Z, Z), U(1000)),
              Step(22, Regs6(HashAt(1), U(5), Z, Z, Z, Z), U(1000)), Step(22, Regs6(HashAt(7), U(9), Z, Z, Z, Z), U(1000)),
              Step(24, Regs6(HashAt(1), U(5), Z, Z, Z, Z), U(1000)), Step(24, Regs6(HashAt(7), U(9), Z, Z, Z, Z), U(1000)),
              Step(23, Regs6(HashAt(0), U(3), Z, Z, Z, Z), U(1000)), Step(23, Regs6(HashAt(1), U(6), Z, Z, Z, Z), U(1000))>>
KvSteps == <<Step(4, Regs6(A(32, 1024), U(2), A(32, 1100), U(16), Z, Z), U(1000)), Step(4, Regs6(A(32, 1024), U(2), A(35, 0), U(2), Z, Z), U(1000)),
             Step(4, Regs6(A(32, 1024), U(2), A(32, 1100), U(4), Z, Z), U(1000)), Step(4, Regs6(A(32, 1024), U(2), A(32, 1100), Z, Z, Z), U(1000)),
             Step(4, Regs6(A(32, 1024), U(2), A(32, 1100), U(5), Z, Z), U(1000)), Step(4, Regs6(A(32, 1024), U(2), A(32, 1100), Hi32, Z, Z), U(1000)),
             Step(4, Regs6(A(32, 1024), U(2), A(32, 1100), U(16), Z, Z), U(9)),
             Step(3, Regs6(UMax, A(32, 1024), U(2), A(33, 200), Z, U(200)), U(1000)), Step(3, Regs6(U(5), A(32, 1024), U(2), A(34, 10), Z, U(200)), U(1000)),
             Step(5, Regs6(UMax, A(33, 200), Z, U(96), Z, Z), U(1000))>>

\* the state record the functional definitions work on
\* (design models: recorded digests are a fixed dummy, encodings are placeholders)
DummyAux == [consts |-> Zeros(134), encp |-> <<>>, encx |-> Zeros(133), oall |-> <<2, 7, 7>>, oeach |-> <<<<7>>, <<7>>>>]
State(regs, gas, ctx) == [regs |-> regs, gas |-> gas, acc |-> AccMap, data |-> DataCells, ctx |-> ctx, ybless |-> ctx.priv.bless,
                          probe |-> <<>>, probed |-> <<>>, fx |-> AccFx, aux |-> DummyAux]
StateK(k, regs, gas, ctx) == [State(regs, gas, ctx) EXCEPT !.probe = ProbesOf(k, regs),
                                                           !.probed = [i \in 1..Len(ProbesOf(k, regs)) |-> IF ProbesOf(k, regs)[i][3] = "fnv" THEN U(77) ELSE H(1)]]
=============================================================================

----------------------------- MODULE MC_Tokens -----------------------------
(* Design check for C08: every behaviour of at most MaxSteps calls over             *)
(* HostScn!TokAlphabet (transfers around the caller's free balance, creations        *)
(* around what it can afford, ejections, upgrade, checkpoint) from the initial       *)
(* contexts TokInit / TokInitBig, following EVERY outcome Omega allows.              *)
(*   Conservation   exact sum of balances + deferred amounts never exceeds the start *)
(*   Exact          every stored balance equals the value kept in exact integers     *)
(*                  (ex: moved amounts applied without any modulus): no wrap          *)
(*   Covered        the caller never falls below its own threshold balance            *)
(*   CashNoChange   a CASH answer changes no balance (action property)                *)
EXTENDS HostScn
CONSTANTS MaxSteps, Inits
VARIABLES c, n, last, ex, tok0

vars == <<c, n, last, ex, tok0>>
Exact(ctx) == [i \in 1..Len(ctx.svcs) |-> <<ctx.svcs[i].id, BNorm(ctx.svcs[i].bal)>>]
ExOf(e, id) == LET S == {i \in 1..Len(e) : e[i][1] = id} IN IF S = {} THEN <<>> ELSE e[CHOOSE i \in S : TRUE][2]
\* exact bookkeeping of one successful call, from the statement of C08 (not from Omega's arithmetic)
ExStep(e, ctx, call, out) ==
  LET k == IntOf(call.id) self == ctx.self w7 == out.regs[8]
      set(f, id, v) == IF \E i \in 1..Len(f) : f[i][1] = id THEN [i \in 1..Len(f) |-> IF f[i][1] = id THEN <<id, v>> ELSE f[i]]
                       ELSE InsertBy(f, <<id, v>>, LAMBDA a, b : LtU(a[1], b[1]))
      del(f, id) == SelectSeq(f, LAMBDA p : p[1] # id)
  IN IF out.exit # "cont" THEN e
     ELSE CASE k = 20 /\ w7 = OK -> set(e, self, BSub(ExOf(e, self), call.regs[9]))
            [] k = 18 /\ w7 \notin ErrCodes ->
                 LET id == Low4(w7) at == BNorm(out.ctx.svcs[SvcIndex(out.ctx.svcs, id)].bal) IN
                 set(set(e, self, BSub(ExOf(e, self), at)), id, at)
            [] k = 21 /\ w7 = OK -> del(set(e, self, BAdd(ExOf(e, self), ExOf(e, Low4(call.regs[8])))), Low4(call.regs[8]))
            [] OTHER -> e
\* BSub is only meaningful when the minuend is not smaller: guard separately
ExOK(e, ctx, call, out) ==
  LET k == IntOf(call.id) IN
  out.exit = "cont" =>
    /\ (k = 20 /\ out.regs[8] = OK => BLe(call.regs[9], ExOf(e, ctx.self)))
    /\ (k = 18 /\ out.regs[8] \notin ErrCodes => BLe(out.ctx.svcs[SvcIndex(out.ctx.svcs, Low4(out.regs[8]))].bal, ExOf(e, ctx.self)))

InitCtx(i) == IF i = 1 THEN TokInit ELSE TokInitBig
Init == \E i \in Inits : c = InitCtx(i) /\ n = 0 /\ last = [id |-> 0, w7 |-> Z, exit |-> "none", ok |-> TRUE] /\ ex = Exact(InitCtx(i)) /\ tok0 = Tokens(InitCtx(i))
Next == /\ n < MaxSteps
        /\ \E a \in 1..Len(TokAlphabet) :
             LET call == TokAlphabet[a] outs == Omega(IntOf(call.id), State(call.regs, call.gas, c)) IN
             \E i \in 1..Len(outs) :
               /\ c' = outs[i].ctx
               /\ n' = n + 1
               /\ last' = [id |-> IntOf(call.id), w7 |-> outs[i].regs[8], exit |-> outs[i].exit, ok |-> ExOK(ex, c, call, outs[i])]
               /\ ex' = IF ExOK(ex, c, call, outs[i]) THEN ExStep(ex, c, call, outs[i]) ELSE ex
               /\ tok0' = tok0
Spec == Init /\ [][Next]_vars

Conservation == BLe(Tokens(c), tok0)
Exactness == last.ok /\ Exact(c) = ex
Covered == ~BelowThreshold(Self(c).bal, AcctThresholdX(Self(c)))
CashNoChange == [][(last'.exit = "cont" /\ last'.w7 = CASH) => BalancesOf(c') = BalancesOf(c)]_vars
AbortNoChange == [][last'.exit # "cont" => c' = c]_vars
View == <<c, n, last, ex>>
=============================================================================

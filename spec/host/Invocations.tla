----------------------------- MODULE Invocations -----------------------------
(* X05: the invocation wrappers around the host calls (Gray Paper 0.7.x Appendix B): *)
(*   Psi_I (B.1-B.2)  is-authorized:  (package p, core c, authorizer code)            *)
(*                    -> (blob | panic | out-of-gas | BAD | BIG, gas used)            *)
(*   Psi_R (B.3-B.6)  refine: (core c, item index i, package p, authorizer trace r,   *)
(*                    imports, export offset, service state)                          *)
(*                    -> (blob | error, exported segments, gas used)                  *)
(*   Psi_A (B.8-B.13) accumulate: argument encoding, credit of incoming transfers,    *)
(*                    what fetch sees (the collapse of the two contexts is C10)       *)
(* as functions of a CASE: the wrapper's inputs plus a script that the driver         *)
(* assembles into a real program (harness/hostcall TestInvocations).  Each script op  *)
(* leaves a slot in the program's output:                                            *)
(*   fetch  [sel, a, b, f, cap]   E_8(w7') ++ cap bytes of the fetched window          *)
(*   call   [id, regs]            E_8(w7')        (gas, unknown identifiers)           *)
(*   hist   [svc, h, f, cap]      E_8(w7') ++ cap bytes        (refine)                *)
(*   export [data]                E_8(w7')                      (refine)                *)
(*   info   []                    E_8(w7') ++ 96 bytes          (accumulate, caller)   *)
(* endings: halt (output = the slots), halt0 (empty output), echo (halt at once: the  *)
(* output is the invocation's ARGUMENT), trap, spin (out of gas), badblob (Y(p)       *)
(* undefined).  Accumulate programs store the argument under key "a" first and the     *)
(* slots under key "o" last.                                                         *)
(*                                                                                 *)
(* Transcribed clauses:                                                              *)
(*  I1 no code -> BAD, |code| > W_A -> BIG, both with 0 gas; otherwise                 *)
(*     Psi_M(code, 0, G_I, E_2(c)) with host calls gas, fetch, log only (others WHAT)  *)
(*  I2 fetch in Psi_I sees the constants and the package p (selectors 0, 7..13)        *)
(*  I3 halt -> the output blob (an empty blob is a result, not a panic)                *)
(*  R1 service absent or Lambda(delta[w_s], (p_x)_t, w_c) empty -> BAD; longer than    *)
(*     W_C -> BIG; 0 gas, no exports                                                  *)
(*  R2 argument E(c, i, w_s, y-part, H(p)) with naturals in the general encoding       *)
(*  R3 fetch sees r, the item index, extrinsic data, imports, p; historical_lookup      *)
(*     uses the item's service state at the lookup-anchor slot; export numbers from    *)
(*     the offset                                                                    *)
(*  R4 result ok -> (blob, exports, u); panic / out-of-gas (incl. Y(p) undefined) ->   *)
(*     (error, no exports, u)                                                        *)
(*  A1 argument E(t, s, |inputs|) in the general natural encoding                      *)
(*  A2 the caller's balance is credited with the sum of incoming transfer amounts,     *)
(*     whether or not its code can run                                               *)
(*  A3 fetch sees the entropy and the inputs (selectors 0, 1, 14, 15)                  *)
(*  G  gas used = instructions executed + 10 per host call; any out-of-gas exit        *)
(*     reports the whole limit as used                                               *)
(* Permissive clauses: P-ypart (R2: the payload enters the argument length-prefixed    *)
(* [0.7.0] or only as its length [0.7.1+]); P-badblobgas (gas reported when Y(p) is    *)
(* undefined is not judged); the fetch clauses of HostAccumulate (P-fetch8,            *)
(* P-fetchblob, P-consts); P-credit (a credit that does not fit 64 bits is not judged).*)
EXTENDS HostAccumulate
NC == INSTANCE NatCodec

GI == 50000000
WA == 64000
WC == 4000000
ENat(n) == NC!EncNat(U(n))
ENat4(v) == NC!EncNat(Ext8(v))

\* ---------------------------------------------------------------- the assembled program (cost table of the driver)
OpInstr(op) == CASE op.op = "xfer" -> 6 [] op.op = "ckpt" -> 2 [] op.op = "fetch" -> 8 [] op.op = "call" -> Len(op.regs) + 2 [] op.op = "hist" -> 7 [] op.op = "export" -> 4 [] OTHER -> 6
SlotLen(op) == CASE op.op \in {"fetch", "hist"} -> 8 + op.cap [] op.op = "info" -> 104 [] OTHER -> 8
EndInstr(e) == CASE e \in {"halt", "halt0"} -> 3 [] e = "spin" -> 2 [] OTHER -> 1
InstrUpTo(script, k) == LET RECURSIVE go(_) go(j) == IF j = 0 THEN 0 ELSE go(j - 1) + OpInstr(script[j]) IN go(k)
SlotsLen(script) == LET RECURSIVE go(_) go(j) == IF j = 0 THEN 0 ELSE go(j - 1) + SlotLen(script[j]) IN go(Len(script))
StoresSlots(c) == c.kind = "A" /\ c.end \in {"halt", "halt0", "echo"}
NInstr(c) == (IF c.kind = "A" THEN 5 ELSE 0) + InstrUpTo(c.script, Len(c.script)) + (IF StoresSlots(c) THEN 5 ELSE 0) + EndInstr(c.end)
NCalls(c) == Len(c.script) + (IF c.kind = "A" THEN 1 ELSE 0) + (IF StoresSlots(c) THEN 1 ELSE 0)
Limit(c) == CASE c.kind = "I" -> U(GI) [] c.kind = "R" -> c.fx.p.items[c.fx.i.v + 1].g [] OTHER -> c.gas
Cost(c) == NInstr(c) + 10 * NCalls(c)
Ample(c) == c.end # "spin" /\ LeU(U(Cost(c)), Limit(c))

\* ---------------------------------------------------------------- what each invocation installs for fetch
NoneR == [has |-> 0, v |-> <<>>]
NoneI == [has |-> 0, v |-> 0]
NoPkgI == [has |-> 0, host |-> Zeros(4), u |-> Zeros(32), t |-> Zeros(4), j |-> <<>>, f |-> <<>>, items |-> <<>>]
FxOf(c) == CASE c.kind = "I" -> [n |-> <<>>, r |-> NoneR, i |-> NoneI, x |-> <<>>, imp |-> <<>>, p |-> c.fx.p, o |-> 0,
                                  nx |-> [q \in 1..Len(c.fx.x) |-> Len(c.fx.x[q])]]
             [] c.kind = "R" -> [n |-> <<>>, r |-> [has |-> 1, v |-> c.fx.r.v], i |-> [has |-> 1, v |-> c.fx.i.v], x |-> c.fx.x, imp |-> c.fx.imp, p |-> c.fx.p, o |-> 0]
             [] OTHER -> [n |-> c.fx.n, r |-> NoneR, i |-> NoneI, x |-> <<>>, imp |-> <<>>, p |-> NoPkgI, o |-> Len(c.inputs)]
Table(c) == CASE c.kind = "I" -> TabIds("auth") [] c.kind = "R" -> TabIds("ref") [] OTHER -> TabIds("acc")
HasImports(c) == c.kind # "A" /\ \E q \in 1..Len(c.fx.p.items) : c.fx.p.items[q].ni > 0

\* ---------------------------------------------------------------- arguments
ArgAlts(c, aux) ==
  CASE c.kind = "I" -> {LE(c.core, 2)}
    [] c.kind = "R" -> LET w == c.fx.p.items[c.fx.i.v + 1] pre == ENat(c.core) \o ENat(c.fx.i.v) \o ENat4(w.s) IN
                       {pre \o VarLen(w.y) \o aux.hp, pre \o ENat(Len(w.y)) \o aux.hp}                          \* P-ypart
    [] OTHER -> {ENat4(c.t) \o ENat4(c.self) \o ENat(Len(c.inputs))}

\* ---------------------------------------------------------------- slots
AnySlot == [any |-> TRUE, alts |-> {}]
Alts(S) == [any |-> FALSE, alts |-> S]
E8(v) == v
Win(v, f, cap) == LET f2 == MinInt(f, Len(v)) l2 == Min2(cap, Len(v) - f2) IN Sub(v, f2 + 1, f2 + l2) \o Zeros(cap - l2)
FetchSlot(c, aux, op) ==
  LET regs == [q \in 1..13 |-> CASE q = 11 -> op.sel [] q = 12 -> op.a [] q = 13 -> op.b [] OTHER -> U64Zero]
      vs == FetchVals([regs |-> regs, fx |-> FxOf(c), aux |-> aux])
  IN IF Skip \in vs THEN AnySlot
     ELSE Alts({IF v[1] = 1 THEN U(Len(v[2])) \o Win(v[2], op.f, op.cap) ELSE NONE \o Zeros(op.cap) : v \in vs})
\* accounts as the invocation sees them (the driver adds the running service's code preimage; hist never asks for that hash)
HistSlot(c, op) ==
  LET w == c.fx.p.items[c.fx.i.v + 1]
      sid == IF op.svc = UMax THEN w.s ELSE IF Small32(op.svc) THEN Low4(op.svc) ELSE <<>>
      i == IF sid = <<>> THEN 0 ELSE SvcIndex(c.svcs, sid)
      p == IF i = 0 THEN 0 ELSE PreIndex(c.svcs[i], op.h)
      blob == c.svcs[i].pre[p].blob
      li == IF p = 0 THEN 0 ELSE LkIndex(c.svcs[i], op.h, LE(Len(blob), 4))
      avail == li # 0 /\ PI!Avail(c.svcs[i].lk[li].slots, c.fx.p.t)
  IN IF avail THEN Alts({U(Len(blob)) \o Win(blob, op.f, op.cap)}) ELSE Alts({NONE \o Zeros(op.cap)})
\* k-th op of the script: gas left after a `gas` call = limit - everything executed up to and including that call
GasAfter(c, k) == SubU(Limit(c), U((IF c.kind = "A" THEN 15 ELSE 0) + InstrUpTo(c.script, k) - 1 + 10 * k))
ExportsBefore(c, k) == Cardinality({j \in 1..(k - 1) : c.script[j].op = "export"})
CallSlot(c, k) ==
  LET op == c.script[k] IN
  IF ~(Small32(op.id) /\ IsSmallInt(op.id) /\ IntOf(op.id) \in Table(c)) THEN Alts({WHAT})
  ELSE IF op.id = U64Zero THEN Alts({GasAfter(c, k)})
  ELSE IF op.id = U(100) THEN Alts({op.regs[1]})
  ELSE AnySlot
CreditX(c) == BSum([q \in 1..Len(c.inputs) |-> IF c.inputs[q].k = "x" THEN c.inputs[q].amt ELSE <<>>])
SelfAfterArg(c, arg) ==
  LET a == c.svcs[SvcIndex(c.svcs, c.self)] IN
  [a EXCEPT !.bal = BPad(BAdd(a.bal, CreditX(c)), 8), !.items = Low4(Add(Ext8(a.items), U(1))), !.oct = Add(a.oct, U(35 + Len(arg)))]
SlotOf(c, aux, k, arg, dev) ==
  LET op == c.script[k] IN
  CASE op.op = "fetch" -> (LET fs == FetchSlot(c, aux, op) IN
                             IF dev /\ op.sel = U(7) /\ ~fs.any THEN Alts(fs.alts \cup {NONE \o Zeros(op.cap)}) ELSE fs)
    [] op.op = "hist" -> HistSlot(c, op)
    [] op.op = "call" -> CallSlot(c, k)
    [] op.op = "export" -> LET n == c.zeta + ExportsBefore(c, k) IN Alts({IF n >= WX THEN FULL ELSE U(n)})
    [] op.op = "xfer" -> Alts({OK})                      \* the generated transfers are all payable (XferOK is checked by MC_Invocations)
    [] op.op = "ckpt" -> AnySlot
    [] OTHER -> LET spent == BSum([q \in 1..(k - 1) |-> IF c.script[q].op = "xfer" THEN c.script[q].amt ELSE <<>>]) IN
                Alts({U(96) \o InfoBytes([SelfAfterArg(c, arg) EXCEPT !.bal = BPad(BSub(@, spent), 8)])})
\* does `out` consist of acceptable slots ?
SlotsOK(c, aux, out, arg, dev) ==
  /\ Len(out) = SlotsLen(c.script)
  /\ \A k \in 1..Len(c.script) :
       LET from == (LET RECURSIVE go(_) go(j) == IF j = 0 THEN 0 ELSE go(j - 1) + SlotLen(c.script[j]) IN go(k - 1))
           s == SlotOf(c, aux, k, arg, dev)
       IN s.any \/ Sub(out, from + 1, from + SlotLen(c.script[k])) \in s.alts
ExportsOf(c) == LET idx == {k \in 1..Len(c.script) : c.script[k].op = "export" /\ c.zeta + ExportsBefore(c, k) < WX}
                    RECURSIVE go(_) go(k) == IF k > Len(c.script) THEN <<>> ELSE (IF k \in idx THEN <<c.script[k].data>> ELSE <<>>) \o go(k + 1)
                IN go(1)

\* ---------------------------------------------------------------- accumulate: transfers and checkpoints (B.8-B.13)
\* Both contexts start equal; a payable transfer moves its amount from the caller's balance of x into x's deferred transfers;
\* checkpoint copies x to y; a regular halt returns x, panic / out-of-gas return y.  View = [bal, xf].
XView(c) == LET a0 == c.svcs[SvcIndex(c.svcs, c.self)]
                RECURSIVE go(_, _, _) 
                go(j, x, y) == IF j > Len(c.script) THEN [x |-> x, y |-> y]
                               ELSE LET op == c.script[j] IN
                                    IF op.op = "xfer" THEN go(j + 1, [bal |-> BSub(x.bal, op.amt), xf |-> Append(x.xf, <<c.self, Low4(op.to), op.amt>>)], y)
                                    ELSE IF op.op = "ckpt" THEN go(j + 1, x, x)
                                    ELSE go(j + 1, x, y)
                st == [bal |-> BAdd(a0.bal, CreditX(c)), xf |-> <<>>]
            IN go(1, st, st)
HasOp(c, name) == \E j \in 1..Len(c.script) : c.script[j].op = name
\* every generated transfer is payable: known payee that asks for no gas, amount within the caller's free balance, l = 0
XferOK(c, arg) ==
  \A j \in 1..Len(c.script) : c.script[j].op = "xfer" =>
      LET op == c.script[j] di == IF Small32(op.to) THEN SvcIndex(c.svcs, Low4(op.to)) ELSE 0
          spent == BSum([q \in 1..j |-> IF c.script[q].op = "xfer" THEN c.script[q].amt ELSE <<>>])
          a == SelfAfterArg(c, arg)
      IN /\ di # 0 /\ IsZero(c.svcs[di].m) /\ IsZero(op.l)
         /\ BLe(BAdd(spent, Sub(AcctThresholdX(a), 1, 8)), a.bal) /\ Fits64(AcctThresholdX(a))

\* ---------------------------------------------------------------- results
\* code availability (R1 / I1): the case says how the driver installed the code
CodeRes(c) ==
  CASE c.kind = "I" -> (IF c.codecase = "nopre" THEN "bad" ELSE IF c.codecase = "big" THEN "big" ELSE "run")
    [] c.kind = "R" -> (IF c.codecase \in {"noservice", "nopre", "wronglen"} \/ ~PI!Avail(c.slots, c.fx.p.t) THEN "bad"
                        ELSE IF c.codecase = "big" THEN "big" ELSE "run")
    [] OTHER -> (IF c.codecase = "nopre" THEN "norun" ELSE "run")
\* the expected kind of result: "bad", "big", "norun", "oog", "panic", "ok"
ResKind(c) == LET cr == CodeRes(c) IN
  IF cr # "run" THEN cr ELSE IF c.end = "badblob" THEN "panic" ELSE IF ~Ample(c) THEN "oog" ELSE IF c.end = "trap" THEN "panic" ELSE "ok"
UsedOK(c, used) == LET k == ResKind(c) IN
  CASE k \in {"bad", "big", "norun"} -> IsZero(used)
    [] c.end = "badblob" -> TRUE                                                               \* P-badblobgas
    [] k = "oog" -> used = Limit(c)
    [] OTHER -> used = U(Cost(c))

\* names of the clauses an observed run breaks (e = the trace record, DevHash = the open finding about H(p) is enabled)
Judge(e, DevHash) ==
  LET c == e.case aux == e.aux k == ResKind(c)
      args == ArgAlts(c, aux)
      hashdev == DevHash /\ HasImports(c)                \* the package cannot be encoded by the code: see Invocations_Trace
      argok(a) == a \in args \/ (hashdev /\ c.kind = "R" /\ \E x \in args : Len(a) = Len(x) /\ Sub(a, 1, Len(a) - 32) = Sub(x, 1, Len(x) - 32)
                                                                          /\ Sub(a, Len(a) - 31, Len(a)) = aux.hnil)
  IN IF e.gopanic # "" THEN {"Go panic"}
     ELSE IF e.ninstr # NInstr(c) \/ e.ncalls # NCalls(c) THEN {"driver:cost table out of date"}
     ELSE IF c.kind \in {"I", "R"} THEN
       (IF e.res # k THEN {"result kind: want " \o k \o ", got " \o e.res} ELSE {})
       \cup (IF ~UsedOK(c, e.used) THEN {"gas used"} ELSE {})
       \cup (IF k # "ok" /\ (e.out # <<>> \/ e.exports # <<>>) THEN {"error result carries output or exports"} ELSE {})
       \cup (IF k = "ok" /\ e.res = "ok" THEN
               (IF c.end = "echo" THEN (IF c.script # <<>> \/ argok(e.out) THEN {} ELSE {"argument encoding"})   \* after host calls w7 / w8 no longer name the argument
                ELSE IF c.end = "halt0" THEN (IF e.out = <<>> THEN {} ELSE {"empty output"})
                ELSE IF SlotsOK(c, aux, e.out, <<>>, hashdev) THEN {} ELSE {"host-call view (slots)"})
               \cup (IF c.kind = "R" /\ e.exports # ExportsOf(c) THEN {"exports"} ELSE {})
             ELSE {})
     ELSE \* accumulate
       LET a0 == c.svcs[SvcIndex(c.svcs, c.self)]
           bal == BAdd(a0.bal, CreditX(c))
           arg == CHOOSE x \in args : TRUE
           view == IF k = "ok" THEN XView(c).x ELSE XView(c).y
           start == BAdd(BSum([q \in 1..Len(c.svcs) |-> c.svcs[q].bal]), CreditX(c))
           final == BAdd(BSum([q \in 1..Len(e.bals) |-> e.bals[q][2]]), BSum([q \in 1..Len(e.xfers) |-> e.xfers[q][3]]))
       IN (IF BFits(bal, 8) /\ e.bal # BPad(view.bal, 8) THEN {IF HasOp(c, "xfer") THEN "caller balance after transfers / collapse" ELSE "incoming transfers not credited exactly"} ELSE {})     \* P-credit
          \cup (IF BFits(bal, 8) /\ e.xfers # view.xf THEN {"deferred transfers of the result"} ELSE {})
          \cup (IF BFits(bal, 8) /\ ~BLe(final, start) THEN {"Conservation: balances + deferred transfers of the result exceed the start"} ELSE {})
          \cup (IF ~UsedOK(c, e.used) THEN {"gas used"} ELSE {})
          \cup (IF k = "ok" THEN
                  (IF ~e.hasa \/ e.sta # arg THEN {"argument encoding"} ELSE {})
                  \cup (IF SlotsLen(c.script) = 0 THEN (IF e.haso THEN {"host-call view (slots)"} ELSE {})      \* a zero-length write stores nothing
                        ELSE IF ~e.haso \/ ~SlotsOK(c, aux, e.sto, arg, FALSE) THEN {"host-call view (slots)"} ELSE {})
                ELSE IF e.haso \/ (e.hasa /\ ~HasOp(c, "ckpt")) THEN {"effects of a run that did not complete"} ELSE {})
=============================================================================

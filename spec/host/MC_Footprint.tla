---------------------------- MODULE MC_Footprint ----------------------------
(* Design check for C09: every behaviour of at most MaxSteps calls over             *)
(* HostScn!FootAlphabet (writes of three keys with value sizes 0/1/4/9/16, an empty  *)
(* key, solicits and forgets of entries with 0..3 slots, a creation) from a caller   *)
(* with 60 tokens of headroom, following every outcome Omega allows.                 *)
(*   Coherent      recorded (items, octets) = derived from the dictionaries          *)
(*   Covered       the caller's balance never falls below its threshold              *)
(*   FullNoChange  FULL changes nothing (action property)                            *)
(*   Sorted        the dictionaries stay canonical (sorted, no duplicate keys)       *)
EXTENDS HostScn
CONSTANTS MaxSteps
VARIABLES c, n, last

vars == <<c, n, last>>
Init == c = FootInitMC /\ n = 0 /\ last = [id |-> 0, w7 |-> Z, exit |-> "none"]
Next == /\ n < MaxSteps
        /\ \E a \in 1..Len(FootAlphabet) :
             LET call == FootAlphabet[a] outs == Omega(IntOf(call.id), State(call.regs, call.gas, c)) IN
             \E i \in 1..Len(outs) :
               /\ c' = outs[i].ctx
               /\ n' = n + 1
               /\ last' = [id |-> IntOf(call.id), w7 |-> outs[i].regs[8], exit |-> outs[i].exit]
Spec == Init /\ [][Next]_vars

Coherent == AllCoherent(c)
Covered == ~BelowThreshold(Self(c).bal, AcctThresholdX(Self(c)))
Canonical == \A i \in 1..Len(c.svcs) : WellFormedAcct(c.svcs[i])
FullNoChange == [][(last'.exit = "cont" /\ last'.w7 = FULL) => c' = c]_vars
SawFull == ~(last.w7 = FULL)          \* expected to be violated (vacuity guard, run separately)
=============================================================================

--------------------------- MODULE MC_Invocations ---------------------------
(* Design check for X05: the result function of Invocations.tla is well-formed on     *)
(* every fixed case and NRand seeded ones (each case an initial state):               *)
(*   Kinds     the result kind is one of bad / big / norun / oog / panic / ok          *)
(*   Bounded   a completed run costs no more than its limit; a costlier one is oog     *)
(*   Slots     every slot has at least one acceptable value and each has the slot's    *)
(*             length (so SlotsOK can be satisfied), arguments are non-empty           *)
(*   Exports   exported segments = the export ops below W_X, in order; none unless ok  *)
(*   Credit    the credited balance is the exact sum (checked against a second,        *)
(*             independent summation)                                                  *)
EXTENDS InvocationsScn
CONSTANTS NRand
VARIABLE c

DummyAuxI == [consts |-> Zeros(134), encp |-> Zeros(50), encx |-> Zeros(133), hp |-> Zeros(32), hnil |-> Zeros(32), oall |-> <<3, 7, 7, 7>>,
              oeach |-> <<<<7>>, <<7>>, <<7>>>>]
All == Fixed \o [n \in 1..NRand |-> Rand(n)]
Init == c \in {All[n] : n \in 1..Len(All)}
Next == FALSE /\ c' = c
Spec == Init /\ [][Next]_c

Kinds == ResKind(c) \in {"bad", "big", "norun", "oog", "panic", "ok"}
Bounded == (ResKind(c) = "ok" => LeU(U(Cost(c)), Limit(c))) /\ (CodeRes(c) = "run" /\ c.end # "badblob" /\ ~LeU(U(Cost(c)), Limit(c)) => ResKind(c) = "oog")
ArgOf == CHOOSE a \in ArgAlts(c, DummyAuxI) : TRUE
Slots == /\ ArgAlts(c, DummyAuxI) # {} /\ \A a \in ArgAlts(c, DummyAuxI) : Len(a) >= 2
         /\ \A k \in 1..Len(c.script) : LET s == SlotOf(c, DummyAuxI, k, ArgOf, FALSE) IN
              s.any \/ (s.alts # {} /\ \A v \in s.alts : Len(v) = SlotLen(c.script[k]))
Exports == Len(ExportsOf(c)) <= Cardinality({k \in 1..Len(c.script) : c.script[k].op = "export"})
RECURSIVE SumAmts(_)
SumAmts(ins) == IF ins = <<>> THEN <<>> ELSE BAdd(IF Head(ins).k = "x" THEN Head(ins).amt ELSE <<>>, SumAmts(Tail(ins)))
Credit == BEq(CreditX(c), SumAmts(c.inputs))
\* the transfer / checkpoint cases only contain payable transfers, and the collapse never returns more than it started with
Payable == c.kind = "A" => XferOK(c, ArgOf)
Collapse == c.kind = "A" => LET v == XView(c) tot(w) == BAdd(w.bal, BSum([q \in 1..Len(w.xf) |-> w.xf[q][3]])) IN
              BEq(tot(v.x), tot(v.y)) /\ Len(v.y.xf) <= Len(v.x.xf)
=============================================================================

---------------------------- MODULE MC_HostRefine ----------------------------
(* Exhaustive model check for C33: every sequence of at most MaxCalls host calls    *)
(* from the alphabet of HostRefineOps (1-2 machines, five inner programs, a 3-page  *)
(* inner window, valid and invalid blobs, ranges and modes), the outer invocation    *)
(* ending at the first panic / out-of-gas.  Checked: the isolation and identity     *)
(* properties of the statement hold in the SPECIFIED behaviour.                      *)
EXTENDS HostRefineOps
CONSTANTS MaxCalls, NMach, InnerGas, OuterGas
VARIABLES o, m, exit, calls, lastop
vars == <<o, m, exit, calls, lastop>>

N == 0..(NMach - 1)
O0 == Outer0(InnerGas, OuterGas)
OpsN == AllOps(N)
NoOp == [call |-> "none", w |-> <<U64Zero, U64Zero, U64Zero, U64Zero, U64Zero, U64Zero>>]
Init == o = O0 /\ m = <<>> /\ exit = "continue" /\ calls = 0 /\ lastop = NoOp
Do(op) == LET r == Apply(op.call, LoadArgs(o, op), m)[1]
          IN o' = r.o /\ m' = r.m /\ exit' = r.exit /\ calls' = calls + 1 /\ lastop' = op
Next == exit = "continue" /\ calls < MaxCalls /\ \E op \in OpsN : Do(op)
Spec == Init /\ [][Next]_vars

\* ---- invariants of the specified behaviour
TypeOK == /\ DOMAIN m \subseteq 0..MaxCalls
          /\ exit \in {"continue", "panic", "oog"}
          /\ o.acc = (16 :> "R" @@ 17 :> "W")                       \* the outer access map never changes
          /\ \A n \in DOMAIN m : IsSmallU(m[n].pc) /\ BlobClass(m[n].blob) = "wellformed"
\* inner memory holds data only on pages the machine was given, all of them at or above page 16
InnerWithinPages == \A n \in DOMAIN m : /\ \A pg \in DOMAIN m[n].mem.acc : pg >= 16
                                        /\ \A key \in DOMAIN NormMem(m[n].mem).data : key[1] \in DOMAIN m[n].mem.acc
\* the read-only outer page is never written
OuterReadOnlyKept == \A key \in DOMAIN o.data : key[1] = 16 => o.data[key] = O0.data[key]

\* ---- action properties
ByteOf(d, key) == IF key \in DOMAIN d THEN d[key] ELSE 0
\* a new machine gets the lowest free identifier, and only `machine` creates one
IdsLowest == [][(DOMAIN m' \ DOMAIN m) # {} => /\ lastop'.call = "machine"
                                              /\ DOMAIN m' \ DOMAIN m = {LowestFree(m)}
                                              /\ DOMAIN m \subseteq DOMAIN m']_vars
\* outer bytes change only inside the range the call declares (peek: [w8, w8+w10); invoke: [w8, w8+112))
OuterIsolation == [][\A key \in (DOMAIN o.data) \cup (DOMAIN o'.data) :
                       ByteOf(o'.data, key) # ByteOf(o.data, key)
                       => KeyInRange(key, OuterWriteRange(lastop'.call, LoadArgs(o, lastop')))]_vars
\* a machine changes only through poke / pages / invoke naming it, disappears only through expunge naming it
InnerIsolation == [][\A k \in DOMAIN m :
                       /\ (k \in DOMAIN m' /\ m'[k] # m[k]) => lastop'.call \in {"poke", "pages", "invoke"} /\ lastop'.w[1] = U(k)
                       /\ k \notin DOMAIN m' => lastop'.call = "expunge" /\ lastop'.w[1] = U(k)]_vars
\* a panicking or gas-exhausted call changes neither memory nor machines
FailedCallChangesNothing == [][exit' # "continue" => m' = m /\ o'.data = o.data]_vars
\* the stored program never changes
BlobFrozen == [][\A k \in DOMAIN m \cap DOMAIN m' : lastop'.call # "expunge" => m'[k].blob = m[k].blob]_vars
=============================================================================

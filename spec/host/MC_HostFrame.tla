---------------------------- MODULE MC_HostFrame ----------------------------
(* Design check for C07: every outcome that HostAccumulate allows (the specified    *)
(* one and the permissive alternatives) obeys the frame of HostFrame, for every     *)
(* argument class of HostScn!CallFields (one-factor-at-a-time and NRand seeded       *)
(* combinations), every gas class and every context variant.  A job is one           *)
(* (call, variant, case number); TLC treats each as an initial state.                *)
EXTENDS HostScn
CONSTANTS NRand, Seed
VARIABLE job

Lcg(v) == (v * 75 + 74) % 65537
RECURSIVE LcgN(_, _)
LcgN(v, n) == IF n = 0 THEN v ELSE LcgN(Lcg(v), n - 1)
PickIdx(v, f) == LET r == v \div 8 IN IF (r % 10) < 7 THEN ((r \div 10) % f.g) + 1 ELSE ((r \div 10) % Len(f.c)) + 1
NOfat(k) == LET f == CallFields(k) IN 1 + Len(GasV) + Len(CatAll([j \in 1..Len(f) |-> [i \in 1..Len(f[j].c) |-> 0]]))
\* the n-th case of call k: first the one-factor-at-a-time cases, then gas classes, then seeded combinations
CaseOf(k, v, n) ==
  LET fields == CallFields(k)
      good == [j \in 1..Len(fields) |-> 1]
      flat == CatAll([j \in 1..Len(fields) |-> [i \in 1..Len(fields[j].c) |-> <<j, i>>]])
  IN IF n = 1 THEN [regs |-> RegsOf(fields, good), gas |-> GasV[1]]
     ELSE IF n <= 1 + Len(flat) THEN [regs |-> RegsOf(fields, [good EXCEPT ![flat[n - 1][1]] = flat[n - 1][2]]), gas |-> GasV[1]]
     ELSE IF n <= 1 + Len(flat) + Len(GasV) THEN [regs |-> RegsOf(fields, good), gas |-> GasV[n - 1 - Len(flat)]]
     ELSE LET s0 == Lcg(Lcg((Seed * 131 + k * 977 + v * 7919 + n * 31) % 65537)) IN
          [regs |-> RegsOf(fields, [j \in 1..Len(fields) |-> PickIdx(LcgN(s0, j), fields[j])]), gas |-> GasV[1]]
Jobs == {<<k, v, n>> : k \in Functional, v \in 1..4, n \in 1..220}
JobOK(j) == j[3] <= NOfat(j[1]) + NRand

DiffOf(e, pre) ==
  IF e.bytes = <<>> THEN <<>>
  ELSE LET old == Read(pre.data, e.at, Len(e.bytes))
           cell(j) == LET a == Add(e.at, U(j - 1)) IN <<PageNo(a), OffOf(a), e.bytes[j]>>
       IN SelectSeq([j \in 1..Len(e.bytes) |-> IF old[j] = e.bytes[j] THEN <<0, 0, -1>> ELSE cell(j)], LAMBDA c : c[3] >= 0)
PostOf(e, pre) == [exit |-> e.exit, regs |-> e.regs, gas |-> e.gas, acc |-> pre.acc, diff |-> DiffOf(e, pre), ctx |-> e.ctx,
                   ychg |-> e.yx /\ FALSE, yx |-> e.yx]
Holds(j) ==
  LET k == j[1] cs == CaseOf(k, j[2], j[3])
      pre == StateK(k, cs.regs, cs.gas, AccCtx(j[2]))
      outs == Omega(k, pre)
  IN HasOmega(k, pre) => \A i \in 1..Len(outs) : FrameBad(k, pre, PostOf(outs[i], pre), "") = {}
\* P-xgas alternatives of transfer charge l as well: F-gas is not applied to transfer by FrameBad

Init == job \in {j \in Jobs : JobOK(j)}
Next == FALSE /\ job' = job
Spec == Init /\ [][Next]_job
FrameHolds == Holds(job)
\* quick tier: the one-factor-at-a-time and gas cases of one context variant
QuickJobs == job[2] = 1 /\ (job[1] \notin {1, 6, 14, 15, 16, 26} \/ job[3] % 2 = 1)
\* vacuity guard: the cases reach every kind of outcome
Kinds(j) == LET k == j[1] cs == CaseOf(k, j[2], j[3]) IN Omega(k, StateK(k, cs.regs, cs.gas, AccCtx(j[2])))[1].exit
=============================================================================

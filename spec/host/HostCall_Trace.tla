--------------------------- MODULE HostCall_Trace ---------------------------
(* V-step for C07 / C08 / C09.  Every record is judged on its own (records carry    *)
(* the complete state before and after one host call, so call sequences are         *)
(* validated step by step and no state is kept between records).                     *)
(*                                                                                 *)
(*  Call   {tab, id, pre, post, gopanic}   one host call (harness/hostcall)          *)
(*         Mode "c07": frame of HostFrame (every call) + exact outcome where          *)
(*                      HostAccumulate defines one + unknown identifiers              *)
(*         Mode "c08": token conservation, no wrap, CASH changes no balance, exact    *)
(*                      outcome of new / transfer / eject / upgrade / checkpoint      *)
(*         Mode "c09": footprint coherence after write / solicit / forget / new,      *)
(*                      FULL leaves the account unchanged, exact outcome of those     *)
(*                      calls and of info (reported threshold)                        *)
(*  Thr    {items, oct, gratis, res}       CalcThresholdBalance as a function         *)
(*  Derive {acct, items, oct, thr}         GetServiceAccountDerivatives               *)
(*                                                                                 *)
(* Dispatch records (tab "d..."): the driver ran `ecalli id; trap` through            *)
(* Host.HostCall.  Norm() removes the two instruction charges (1 each, property C04   *)
(* / PVM.tla) and recovers the host call's own exit: panic with 12 charged = the      *)
(* call continued and the trap ended the run.                                        *)
EXTENDS HostAccumulate, Json, SequencesExt
CONSTANTS TraceFile, ResultFile, KnownDeviations, Mode
VARIABLES l, devs, bad

Trace == ndJsonDeserialize(TraceFile)

IsDispatch(e) == e.tab \in {"dacc", "dref", "dauth"}
TabOf(e) == IF IsDispatch(e) THEN SubSeq(e.tab, 2, Len(e.tab)) ELSE e.tab
\* Storage entries that sit in the pool of raw state key-values (ctx.kv: <<service, storage key, value>>, attributed by the
\* driver that installed them) belong to the service's storage: both snapshots are judged on the merged view, so moving an
\* entry between pool and dictionary is invisible and losing it is not.
RECURSIVE MergeKv(_, _, _)
MergeKv(st, id, es) == IF es = <<>> THEN st
                       ELSE LET e == Head(es) IN
                            MergeKv(IF e[1] = id /\ ~(\E q \in 1..Len(st) : st[q][1] = e[2]) THEN InsertBy(st, <<e[2], e[3]>>, StLess) ELSE st, id, Tail(es))
\* raw lookup entries <<service, hash, length, E(var-length sequence of E_4(slot))>> likewise
DecSlots(val) == [i \in 1..val[1] |-> Sub(val, 4 * i - 2, 4 * i + 1)]
RECURSIVE MergeKvl(_, _, _)
MergeKvl(lk, id, es) == IF es = <<>> THEN lk
                        ELSE LET e == Head(es) IN
                             MergeKvl(IF e[1] = id /\ ~(\E q \in 1..Len(lk) : lk[q].h = e[2] /\ lk[q].z = e[3])
                                      THEN InsertBy(lk, [h |-> e[2], z |-> e[3], slots |-> DecSlots(e[4])], LkLess) ELSE lk, id, Tail(es))
NormCtx(c) == IF "kv" \notin DOMAIN c \/ (c.kv = <<>> /\ ("kvl" \notin DOMAIN c \/ c.kvl = <<>>)) THEN c
              ELSE LET kvl == IF "kvl" \in DOMAIN c THEN c.kvl ELSE <<>> IN
                   [c EXCEPT !.svcs = [q \in 1..Len(c.svcs) |-> [c.svcs[q] EXCEPT !.st = MergeKv(@, c.svcs[q].id, c.kv), !.lk = MergeKvl(@, c.svcs[q].id, kvl)]],
                             !.kv = SelectSeq(c.kv, LAMBDA e : e[1] \notin Ids(c.svcs)),
                             !.kvl = SelectSeq(kvl, LAMBDA e : e[1] \notin Ids(c.svcs))]
NormPre(e) == [e.pre EXCEPT !.gas = IF IsDispatch(e) THEN SubU(e.pre.gas, U(1)) ELSE e.pre.gas, !.ctx = NormCtx(e.pre.ctx)]
NormPost(e) ==
  LET po == [e.post EXCEPT !.ctx = NormCtx(e.post.ctx)] IN
  IF ~IsDispatch(e) THEN po
  ELSE LET g1 == SubU(e.pre.gas, U(1)) IN
       IF po.exit = "panic" /\ po.gas = SubU(g1, U(11)) THEN [po EXCEPT !.exit = "cont", !.gas = SubU(g1, U(10))]
       ELSE IF po.exit = "oog" /\ IsZero(po.gas) /\ g1 = U(10) THEN [po EXCEPT !.exit = "cont"]
       ELSE po

\* Deviation (open finding, enabled only when listed in KnownDeviations): the inner-machine calls machine, peek,
\* poke and invoke store OOB in register 7 before they panic; nothing else differs from a clean panic.
DevInner == "inner-machine-panic-sets-w7"
IdKnown(e) == Small32(e.id) /\ IsSmallInt(e.id) /\ IntOf(e.id) \in TabIds(TabOf(e))
BalanceCalls == {17, 18, 19, 20, 21}
FootCalls == {4, 18, 23, 24}

JudgeCall(e) ==
  LET pre == NormPre(e) post == NormPost(e)
      tag(S, p) == {p \o x : x \in S}
  IN IF IsDispatch(e) /\ (IsNegS(e.pre.gas) \/ IsZero(e.pre.gas) \/ (e.id = U(20) /\ IdKnown(e))) THEN {"driver:dispatch needs gas >= 1 and is not used for transfer"}
     ELSE IF ~IdKnown(e) THEN UnknownBad(pre, post, e.gopanic)
     ELSE LET k == IntOf(e.id)
              fb == FrameBad(k, pre, post, e.gopanic)
              exact == HasOmega(k, pre) /\ e.gopanic = ""
              ok == Accepted(k, pre, post)
          IN CASE Mode = "c07" ->
                    IF fb = {"F-panic"} /\ k \in {8, 9, 10, 12} /\ DevInner \in KnownDeviations /\ post.regs = [pre.regs EXCEPT ![8] = OOB]
                       /\ post.diff = <<>> /\ post.ctx = pre.ctx /\ ~post.ychg THEN {"DEV:" \o DevInner}
                    ELSE fb \cup (IF exact /\ fb = {} /\ ~ok THEN {"X-outcome:" \o ToString(k)} ELSE {})
                            \cup (IF k = 1 /\ "aux" \in DOMAIN pre /\ ~ConstsOK(pre.aux.consts) THEN {"X-consts"} ELSE {})
               [] Mode = "c08" ->
                    (IF e.gopanic # "" THEN {"F-exit"} ELSE {})
                    \cup (IF ~Conserves(pre.ctx, post.ctx) THEN {"Conservation"} ELSE {})
                    \cup (IF post.exit = "cont" /\ post.regs[8] = CASH /\ BalancesOf(post.ctx) # BalancesOf(pre.ctx) THEN {"CashNoChange"} ELSE {})
                    \cup (IF post.exit # "cont" /\ (BalancesOf(post.ctx) # BalancesOf(pre.ctx) \/ post.ctx.xfers # pre.ctx.xfers) THEN {"NoEffectOnAbort"} ELSE {})
                    \cup (IF exact /\ k \in BalanceCalls /\ ~ok THEN {"X-outcome:" \o ToString(k)} ELSE {})
               [] OTHER ->
                    (IF e.gopanic # "" THEN {"F-exit"} ELSE {})
                    \cup (IF AllCoherent(pre.ctx) /\ ~AllCoherent(post.ctx) THEN {"FootprintCoherent"} ELSE {})
                    \cup (IF post.exit = "cont" /\ post.regs[8] = FULL /\ k \in FootCalls /\ post.ctx # pre.ctx THEN {"FullNoChange"} ELSE {})
                    \cup (IF exact /\ k \in (FootCalls \cup {5}) /\ ~ok THEN {"X-outcome:" \o ToString(k)} ELSE {})

JudgeThr(e) ==
  IF e.gopanic # "" THEN {"gopanic"}
  ELSE IF e.res = Threshold64(e.items, e.oct, e.gratis) THEN {}
  ELSE IF ~Fits64(ThresholdX(e.items, e.oct, e.gratis)) THEN {"threshold:exact value needs more than 64 bits, answer is not 2^64-1"}
  ELSE IF e.res = Threshold64(Low4(Sub(MulFull(e.items, <<BI>>), 1, 4)) , e.oct, e.gratis) /\ FALSE THEN {"threshold:32-bit product"}
  ELSE {"threshold"}

JudgeDerive(e) ==
  IF e.gopanic # "" THEN {"gopanic"}
  ELSE (IF e.items # DerivedItems(e.acct) THEN {"derive:items"} ELSE {})
       \cup (IF e.oct # DerivedOctets(e.acct) THEN {"derive:octets"} ELSE {})
       \cup (IF e.thr # Threshold64(DerivedItems(e.acct), DerivedOctets(e.acct), e.acct.gratis) THEN {"derive:threshold"} ELSE {})

Judge(e) == CASE e.ev = "Call" -> JudgeCall(e) [] e.ev = "Thr" -> JudgeThr(e) [] OTHER -> JudgeDerive(e)

TInit == l = 1 /\ devs = {} /\ bad = {}
TNext == /\ l <= Len(Trace)
         /\ LET j == Judge(Trace[l]) dv == {y \in j : Len(y) > 4 /\ SubSeq(y, 1, 4) = "DEV:"} IN
            /\ bad' = bad \cup {[l |-> l, why |-> y] : y \in j \ dv}
            /\ devs' = devs \cup {SubSeq(y, 5, Len(y)) : y \in dv}
         /\ l' = l + 1
TraceSpec == TInit /\ [][TNext]_<<l, devs, bad>>

Report == (l = Len(Trace) + 1) =>
  JsonSerialize(ResultFile, [n |-> l - 1, devs |-> SetToSeq(devs), bad |-> SetToSeq(bad)])
=============================================================================

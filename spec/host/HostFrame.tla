----------------------------- MODULE HostFrame -----------------------------
(* C07: the register / memory / error frame of every host call (Gray Paper 0.7.x    *)
(* Appendix B; DESIGN.md Appendix A is the table transcribed here).                 *)
(*                                                                                 *)
(* A call is judged on two snapshots:                                              *)
(*   pre  = [regs: 13 x 8 bytes, gas: 8 bytes (signed), acc: <<<<page, "R"|"W"|"N">>..>>,*)
(*           data: <<<<page, off, byte>>..>> (non-zero bytes), ctx]                 *)
(*   post = [exit, regs, gas, acc, diff: <<<<page, off, byte>>..>> (changed bytes), *)
(*           ctx, ychg (checkpoint context changed), yx (checkpoint context = ctx)] *)
(* ctx   = [self, nextid, t, svcs, xfers, priv, yield, prov, vk, aq, kv,            *)
(*          machines, nexp, expd, expoff]   (see harness/hostcall)                  *)
(*                                                                                 *)
(* Frame rules (FrameBad returns the names of the broken ones):                     *)
(*  F-exit    the call ends with continue, panic or out-of-gas, never a Go panic    *)
(*  F-oog     gas < 10  =>  out-of-gas and NOTHING changed (registers, memory,      *)
(*            context, checkpoint context)                                          *)
(*  F-gas     otherwise exactly 10 is charged (transfer: see HostAccumulate)        *)
(*  F-acc     the guest page map never changes                                      *)
(*  F-regs    only the registers of the table change (w7; w7,w8 for query, invoke)  *)
(*  F-in      a required input range that is not readable (or, for peek / invoke,   *)
(*            a required output range that is not writable; for new, l >= 2^32)     *)
(*            => panic                                                              *)
(*  F-panic   a panic changes nothing: no register (w7 included), no byte, no       *)
(*            context component                                                     *)
(*  F-out     bytes change only inside the table's output range [o, o+l), only on   *)
(*            writable pages, and when the call returns a length the whole window   *)
(*            [o, o + min(l, len - min(f, len))) is writable                        *)
(*  F-err     w7' in {NONE..HUH} (for write: FULL only, NONE is its "no previous    *)
(*            value" answer) => context and memory unchanged                        *)
(*  F-ctx     only the context components of the table change; accounts other than  *)
(*            the caller's change only by creation (new) or removal (eject)         *)
(*  F-y       the checkpoint context changes only by checkpoint, which makes it     *)
(*            equal to the context                                                  *)
(* A range [a, a+n) is readable iff n = 0 or a + n <= 2^32 and every page it        *)
(* touches is mapped R or W (writable: W).  Addresses are never taken mod 2^32.     *)
(* Unknown identifiers (absent from the invocation's table): 10 gas, w7 = WHAT,     *)
(* nothing else (UnknownBad).                                                      *)
EXTENDS ServiceAccount, TLC
CONSTANTS NCores, NValidators, DExpunge        \* C, V, D of the build under test

QSize == 80
WT == 128
WG == 4104
SMin == 65536                                   \* S: first ordinary service index

NONE == UMax
Err(k) == Neg(U(k))
WHAT == Err(2)
OOB == Err(3)
WHO == Err(4)
FULL == Err(5)
CORE == Err(6)
CASH == Err(7)
LOW == Err(8)
HUH == Err(9)
OK == U64Zero
ErrCodes == {Err(k) : k \in 1..9}

KnownIds == (0..26) \cup {100}
\* the tables of host_call_invocation.go (which identifiers an invocation offers)
TabIds(tab) == CASE tab = "acc" -> {0, 1, 2, 3, 4, 5, 100} \cup (14..26)
                 [] tab = "ref" -> {0, 1, 100} \cup (6..13)
                 [] OTHER -> {0, 1, 100}

\* ---------------------------------------------------------------- numbers
Small32(v) == \A i \in 5..Len(v) : v[i] = 0
Low4(v) == Sub(v, 1, 4)
Ext8(v) == v \o Zeros(8 - Len(v))
Two32 == <<0, 0, 0, 0, 1>>
\* value of a byte sequence known to be < 2^31
IntOf(v) == FromLE(BNorm(v))
IsSmallInt(v) == Len(BNorm(v)) <= 3 \/ (Len(BNorm(v)) = 4 /\ v[4] < 128)
GasOK(g) == ~IsNegS(g) /\ LeU(U(10), g)
\* min(reg, n) as an integer, n < 2^31
MinInt(reg, n) == IF LtU(reg, U(n)) THEN IntOf(reg) ELSE n

\* ---------------------------------------------------------------- memory
PageNo(a) == a[4] * 4096 + a[3] * 16 + (a[2] \div 16)
OffOf(a) == (a[2] % 16) * 256 + a[1]
AddrBytes(pg, off) == <<off % 256, (off \div 256) + (pg % 16) * 16, (pg \div 16) % 256, pg \div 4096, 0, 0, 0, 0>>
RangeOK(a, n) == BLe(BAdd(a, n), Two32)
LastAddr(a, n) == Sub(BPad(BSub(BAdd(a, n), <<1>>), 8), 1, 8)
Pages(acc, a, n, ok) ==
  LET p0 == PageNo(a) p1 == PageNo(LastAddr(a, n)) IN
  Cardinality({i \in 1..Len(acc) : acc[i][1] >= p0 /\ acc[i][1] <= p1 /\ acc[i][2] \in ok}) = p1 - p0 + 1
Readable(acc, a, n) == IsZero(n) \/ (RangeOK(a, n) /\ Pages(acc, a, n, {"R", "W"}))
Writable(acc, a, n) == IsZero(n) \/ (RangeOK(a, n) /\ Pages(acc, a, n, {"W"}))
\* index of byte <<pg, off>> relative to address a; meaningful when the page distance is small
Rel(a, pg, off) == (pg - PageNo(a)) * 4096 + off - OffOf(a)
NearPage(a, pg) == pg >= PageNo(a) /\ pg - PageNo(a) < 1024
\* n bytes at a (n a small integer; the range is known to be readable)
Overlay(base, a, n, cells) ==
  LET p0 == PageNo(a) o0 == OffOf(a)
      rel(c) == (c[1] - p0) * 4096 + c[2] - o0
      hits == {i \in 1..Len(cells) : cells[i][1] >= p0 /\ cells[i][1] - p0 < 1024 /\ rel(cells[i]) >= 0 /\ rel(cells[i]) < n}
  IN FoldSet(LAMBDA i, f : [f EXCEPT ![rel(cells[i]) + 1] = cells[i][3]], base, hits)
Read(data, a, n) == Overlay(Zeros(n), a, n, data)
PostRead(data, diff, a, n) == Overlay(Read(data, a, n), a, n, diff)
\* every changed byte lies in [a, a+n)  (n any width)
DiffWithin(diff, a, n) ==
  \A i \in 1..Len(diff) : LET x == AddrBytes(diff[i][1], diff[i][2]) IN LeU(a, x) /\ BLt(x, BAdd(a, n))
AccOf(acc, pg) == LET S == {i \in 1..Len(acc) : acc[i][1] = pg} IN IF S = {} THEN "-" ELSE acc[CHOOSE i \in S : TRUE][2]

\* ---------------------------------------------------------------- the table
NoRange == <<>>
Frame(k, r) ==
  LET w(i) == r[i + 1]
      F(in, inw, out, regs, ctx) == [in |-> in, inw |-> inw, out |-> out, regs |-> regs, ctx |-> ctx]
      one32(a) == <<<<a, U(32)>>>>
  IN CASE k = 0 -> F(<<>>, <<>>, NoRange, {7}, {})
       [] k = 1 -> F(<<>>, <<>>, <<w(7), w(9)>>, {7}, {})
       [] k = 2 -> F(one32(w(8)), <<>>, <<w(9), w(11)>>, {7}, {})
       [] k = 3 -> F(<<<<w(8), w(9)>>>>, <<>>, <<w(10), w(12)>>, {7}, {})
       [] k = 4 -> F(<<<<w(7), w(8)>>, <<w(9), w(10)>>>>, <<>>, NoRange, {7}, {"svcs"})
       [] k = 5 -> F(<<>>, <<>>, <<w(8), w(10)>>, {7}, {})
       [] k = 6 -> F(one32(w(8)), <<>>, <<w(9), w(11)>>, {7}, {})
       [] k = 7 -> F(<<<<w(7), IF LtU(w(8), U(WG)) THEN w(8) ELSE U(WG)>>>>, <<>>, NoRange, {7}, {"nexp", "expd"})
       [] k = 8 -> F(<<<<w(7), w(8)>>>>, <<>>, NoRange, {7}, {"machines"})
       [] k = 9 -> F(<<>>, <<<<w(8), w(10)>>>>, <<w(8), w(10)>>, {7}, {})
       [] k = 10 -> F(<<<<w(8), w(10)>>>>, <<>>, NoRange, {7}, {"machines"})
       [] k = 11 -> F(<<>>, <<>>, NoRange, {7}, {"machines"})
       [] k = 12 -> F(<<>>, <<<<w(8), U(112)>>>>, <<w(8), U(112)>>, {7, 8}, {"machines"})
       [] k = 13 -> F(<<>>, <<>>, NoRange, {7}, {"machines"})
       [] k = 14 -> F(<<<<w(8), U(4 * NCores)>>, <<w(11), BNorm(MulFull(w(12), <<12>>))>>>>, <<>>, NoRange, {7}, {"priv"})
       [] k = 15 -> F(<<<<w(8), U(32 * QSize)>>>>, <<>>, NoRange, {7}, {"priv", "aq"})
       [] k = 16 -> F(<<<<w(7), U(336 * NValidators)>>>>, <<>>, NoRange, {7}, {"vk"})
       [] k = 17 -> F(<<>>, <<>>, NoRange, {7}, {})
       [] k = 18 -> F(one32(w(7)), <<>>, NoRange, {7}, {"svcs", "nextid"})
       [] k = 19 -> F(one32(w(7)), <<>>, NoRange, {7}, {"svcs"})
       [] k = 20 -> F(<<<<w(10), U(WT)>>>>, <<>>, NoRange, {7}, {"svcs", "xfers"})
       [] k = 21 -> F(one32(w(8)), <<>>, NoRange, {7}, {"svcs"})
       [] k = 22 -> F(one32(w(7)), <<>>, NoRange, {7, 8}, {})
       [] k = 23 -> F(one32(w(7)), <<>>, NoRange, {7}, {"svcs"})
       [] k = 24 -> F(one32(w(7)), <<>>, NoRange, {7}, {"svcs"})
       [] k = 25 -> F(one32(w(7)), <<>>, NoRange, {7}, {"yield"})
       [] k = 26 -> F(<<<<w(8), w(9)>>>>, <<>>, NoRange, {7}, {"prov"})
       [] OTHER -> F(<<>>, <<>>, NoRange, {}, {})            \* 100: log

\* calls whose w7 is a byte length of a value copied through an (offset, length) window
LenCalls == {1, 2, 3, 5, 6}
OffsetReg(k) == CASE k = 1 -> 8 [] k = 2 -> 10 [] k = 3 -> 11 [] k = 5 -> 9 [] OTHER -> 10
\* calls for which a result in ErrCodes is an error (gas / checkpoint return a gas counter; expunge a 64-bit
\* instruction counter, so only WHO is its error; write answers NONE for "no previous value")
ErrSet(k) == CASE k \in {0, 17} -> {} [] k = 4 -> {FULL} [] k = 13 -> {WHO} [] OTHER -> ErrCodes
CtxFields == {"self", "nextid", "t", "svcs", "xfers", "priv", "yield", "prov", "vk", "aq", "kv", "kvl", "machines", "nexp", "expd", "expoff"}
SelfMayChange == {4, 18, 19, 20, 21, 23, 24}

InputsOK(k, pre) ==
  LET fr == Frame(k, pre.regs) IN
  /\ \A i \in 1..Len(fr.in) : Readable(pre.acc, fr.in[i][1], fr.in[i][2])
  /\ \A i \in 1..Len(fr.inw) : Writable(pre.acc, fr.inw[i][1], fr.inw[i][2])
  /\ (k = 18 => Small32(pre.regs[9]))

Ids(svcs) == {svcs[i].id : i \in 1..Len(svcs)}
SvcsBad(k, pre, post) ==
  LET a == pre.ctx.svcs b == post.ctx.svcs self == pre.ctx.self
      gone == {i \in 1..Len(a) : a[i].id \notin Ids(b)}
      fresh == {i \in 1..Len(b) : b[i].id \notin Ids(a)}
      changed == {i \in 1..Len(a) : a[i].id \in Ids(b) /\ b[SvcIndex(b, a[i].id)] # a[i]}
  IN (IF \E i \in changed : a[i].id # self THEN {"F-ctx:foreign account changed"} ELSE {})
     \cup (IF changed # {} /\ k \notin SelfMayChange THEN {"F-ctx:own account changed"} ELSE {})
     \cup (IF fresh # {} /\ (k # 18 \/ Cardinality(fresh) > 1) THEN {"F-ctx:account appeared"} ELSE {})
     \cup (IF gone # {} /\ (k # 21 \/ Cardinality(gone) > 1 \/ \E i \in gone : Ext8(a[i].id) # pre.regs[8] \/ a[i].id = self)
           THEN {"F-ctx:account vanished"} ELSE {})

\* names of the frame rules broken by one observed call of a KNOWN identifier k
FrameBad(k, pre, post, gopanic) ==
  LET fr == Frame(k, pre.regs)
      unchanged == post.regs = pre.regs /\ post.diff = <<>> /\ post.ctx = pre.ctx /\ ~post.ychg
      w7 == post.regs[8]
      iserr == w7 \in ErrSet(k)
  IN
  IF gopanic # "" \/ post.exit \notin {"cont", "panic", "oog"} THEN {"F-exit"}
  ELSE IF ~GasOK(pre.gas) THEN (IF post.exit = "oog" /\ unchanged /\ post.acc = pre.acc THEN {} ELSE {"F-oog"})
  ELSE
    (IF post.acc # pre.acc THEN {"F-acc"} ELSE {})
    \cup (IF post.exit = "oog" /\ k # 20 THEN {"F-gas:out of gas with enough gas"} ELSE {})
    \cup (IF post.exit # "oog" /\ k # 20 /\ post.gas # SubU(pre.gas, U(10)) THEN {"F-gas"} ELSE {})
    \cup (IF \E i \in 1..13 : (i - 1) \notin fr.regs /\ post.regs[i] # pre.regs[i] THEN {"F-regs"} ELSE {})
    \cup (IF ~InputsOK(k, pre) /\ post.exit # "panic" THEN {"F-in"} ELSE {})
    \cup (IF post.exit = "panic" /\ ~unchanged THEN {"F-panic"} ELSE {})
    \cup (IF post.exit = "oog" /\ ~unchanged THEN {"F-oog:state changed"} ELSE {})
    \cup (IF post.diff # <<>> /\ (fr.out = NoRange \/ ~DiffWithin(post.diff, fr.out[1], fr.out[2])) THEN {"F-out:outside the output range"} ELSE {})
    \cup (IF \E i \in 1..Len(post.diff) : AccOf(pre.acc, post.diff[i][1]) # "W" THEN {"F-out:non-writable page written"} ELSE {})
    \cup (IF post.exit = "cont" /\ k \in LenCalls /\ ~iserr /\ IsSmallInt(w7) THEN
            LET n == IntOf(w7) f == MinInt(pre.regs[OffsetReg(k) + 1], n) l == MinInt(fr.out[2], n - f) IN
            IF ~Writable(pre.acc, fr.out[1], U(l)) THEN {"F-out:window not writable"} ELSE {}
          ELSE {})
    \cup (IF post.exit = "cont" /\ iserr /\ (post.ctx # pre.ctx \/ post.diff # <<>>) THEN {"F-err"} ELSE {})
    \cup (IF \E f \in CtxFields \ fr.ctx : post.ctx[f] # pre.ctx[f] THEN {"F-ctx"} ELSE {})
    \cup (IF post.ctx.svcs # pre.ctx.svcs THEN SvcsBad(k, pre, post) ELSE {})
    \cup (IF k = 17 THEN (IF post.exit = "cont" /\ ~post.yx THEN {"F-y:checkpoint differs from context"} ELSE {})
          ELSE IF post.ychg THEN {"F-y"} ELSE {})

\* an identifier that the invocation's table does not define
UnknownBad(pre, post, gopanic) ==
  LET unchanged == post.diff = <<>> /\ post.ctx = pre.ctx /\ ~post.ychg /\ post.acc = pre.acc IN
  IF gopanic # "" THEN {"U-exit"}
  ELSE IF ~GasOK(pre.gas) THEN (IF post.exit = "oog" /\ unchanged /\ post.regs = pre.regs THEN {} ELSE {"U-oog"})
  ELSE IF post.exit = "cont" /\ post.gas = SubU(pre.gas, U(10)) /\ post.regs = [pre.regs EXCEPT ![8] = WHAT] /\ unchanged THEN {}
  ELSE {"U-what"}
=============================================================================

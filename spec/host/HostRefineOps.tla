---------------------------- MODULE HostRefineOps ----------------------------
(* The small world shared by MC_HostRefine (exhaustive model check) and             *)
(* HostRefine_Gen (cases for the driver): an outer memory of two pages holding      *)
(* program blobs, poke sources and an invoke buffer, five inner programs, and the   *)
(* alphabet of concrete host calls (call name + omega7..omega12).                   *)
EXTENDS HostRefine

\* ---- addresses
P16 == 65536                       \* outer page 16: read-only (blobs, poke source)
P17 == 69632                       \* outer page 17: writable (invoke buffer, peek destination)
P18 == 73728                       \* outer page 18: absent
A(x) == LE(x, 8)
HaltAddr == <<0, 0, 255, 255, 0, 0, 0, 0>>

\* ---- inner programs (instruction lists; PB is the assembler of ProgramBlob)
A4(x) == LE(x, 4)
PHalt == <<PB!JumpInd(0, 0)>>
PTrap == <<PB!Trap>>
PHost == <<PB!Ecalli(5), PB!Ecalli(6), PB!JumpInd(0, 0)>>
\* store 9 to inner 17:1, host call 7, load inner 16:512 into r2, halt
PStore == <<PB!StoreImmU8(A4(P17 + 1), 9), PB!Ecalli(7), PB!LoadU8(2, A4(P16 + 512)), PB!JumpInd(0, 0)>>
PLoop == <<PB!Jump4(0, 0)>>
Progs == <<PHalt, PTrap, PHost, PStore, PLoop>>
BlobOf(k) == PB!InnerProg(<<>>, 0, Progs[k])
BlobAt(k) == P16 + 64 * (k - 1)
\* a truncated blob (last mask byte missing) and a blob with a trailing byte
BadShort == LET b == BlobOf(4) IN Sub(b, 1, Len(b) - 1)
BadLong == BlobOf(1) \o <<0>>
BadShortAt == P16 + 64 * 5
BadLongAt == P16 + 64 * 6
SrcAt == P16 + 512                 \* poke source: bytes 11, 12, 13, 14, 15, 16, 17, 18
BufAt == P17                       \* invoke buffer: gas, then 13 registers
DstAt == P17 + 256                 \* peek destination
EdgeAt == P17 + 4094               \* 4 bytes from here cross into page 18

PlaceBytes(addr, bytes) == [i \in 1..Len(bytes) |-> <<addr \div 4096, (addr % 4096) + i - 1, bytes[i]>>]
RECURSIVE FlatT(_)
FlatT(ss) == IF ss = <<>> THEN <<>> ELSE Head(ss) \o FlatT(Tail(ss))
InitRegs == [i \in 1..13 |-> IF i = 1 THEN HaltAddr ELSE IF i = 2 THEN A(P17) ELSE U64Zero]
InitBuf(g) == A(g) \o Flatten8(InitRegs)
\* initial outer memory as a list of <<page, off, byte>> (the form cases and traces use)
OuterTriples(g) ==
  FlatT([k \in 1..Len(Progs) |-> PlaceBytes(BlobAt(k), BlobOf(k))])
  \o PlaceBytes(BadShortAt, BadShort) \o PlaceBytes(BadLongAt, BadLong)
  \o PlaceBytes(SrcAt, <<11, 12, 13, 14, 15, 16, 17, 18>>)
  \o PlaceBytes(BufAt, InitBuf(g))
  \o PlaceBytes(DstAt, <<201, 202, 203, 204, 205, 206>>)
  \o PlaceBytes(EdgeAt, <<207, 208>>)
TriplesToData(ts) == LET S == {ts[i] : i \in 1..Len(ts)} IN
  [key \in {<<t[1], t[2]>> : t \in {u \in S : u[3] # 0}} |-> (CHOOSE t \in S : <<t[1], t[2]>> = key)[3]]
Outer0(g, gas) == [regs |-> [i \in 1..13 |-> U64Zero], gas |-> gas,
                   acc |-> (16 :> "R" @@ 17 :> "W"), data |-> TriplesToData(OuterTriples(g))]

\* ---- the alphabet: an op is [call, w] with w = <<omega7, .., omega12>>
Op(call, a, b, c, d) == [call |-> call, w |-> <<a, b, c, d, U64Zero, U64Zero>>]
MachineOps == {Op("machine", A(BlobAt(k)), A(Len(BlobOf(k))), U64Zero, U64Zero) : k \in 1..Len(Progs)}
              \cup {Op("machine", A(BadShortAt), A(Len(BadShort)), U64Zero, U64Zero),
                    Op("machine", A(BadLongAt), A(Len(BadLong)), U64Zero, U64Zero),
                    Op("machine", A(P18 - 2), A(4), U64Zero, U64Zero),                   \* blob range runs into the absent page
                    Op("machine", A(BlobAt(3)), A(Len(BlobOf(3))), A(2), U64Zero)}       \* start at the second ecalli
PagesOps(N) == {Op("pages", A(n), A(pc[1]), A(pc[2]), A(r)) : n \in N, pc \in {<<16, 2>>, <<17, 1>>}, r \in {0, 1, 2, 4}}
               \cup {Op("pages", A(0), A(16), A(1), A(3)), Op("pages", A(0), A(15), A(1), A(2)), Op("pages", A(0), A(16), A(1), A(5))}
PokeOps(N) == {Op("poke", A(n), A(SrcAt), A(d), A(4)) : n \in N, d \in {P16 + 512, P17 + 4094}}
              \cup {Op("poke", A(0), A(P18 - 2), A(P16), A(4)), Op("poke", A(0), A(SrcAt), A(P17), A(0))}
PeekOps(N) == {Op("peek", A(n), A(DstAt), A(s), A(4)) : n \in N, s \in {P16 + 512, P17 + 4094}}
              \cup {Op("peek", A(0), A(P16 + 600), A(P16 + 512), A(4)),                  \* destination read-only
                    Op("peek", A(0), A(EdgeAt), A(P16 + 512), A(4)),                     \* destination runs into the absent page
                    Op("peek", A(7), A(DstAt), A(P16), A(0))}                            \* nothing to copy, no such machine
InvokeOps(N) == {Op("invoke", A(n), A(BufAt), U64Zero, U64Zero) : n \in N}
                \cup {Op("invoke", A(0), A(P16), U64Zero, U64Zero), Op("invoke", A(0), A(P17 + 4000), U64Zero, U64Zero)}
ExpungeOps(N) == {Op("expunge", A(n), U64Zero, U64Zero, U64Zero) : n \in N}
AllOps(N) == MachineOps \cup PagesOps(N) \cup PokeOps(N) \cup PeekOps(N) \cup InvokeOps(N) \cup ExpungeOps(N)

\* apply an op to (o, m): the argument registers are loaded, the specified (first) outcome is taken
LoadArgs(o, op) == [o EXCEPT !.regs = [i \in 1..13 |-> IF i >= 8 THEN op.w[i - 7] ELSE @[i]]]
=============================================================================

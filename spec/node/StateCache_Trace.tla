-------------------------- MODULE StateCache_Trace --------------------------
(* V-step for C16.  Events:  Reset (fresh node) | Clear | Compute entries -> cached, *)
(* uncached.  The model follows the cache; the observation the property talks about  *)
(* is that the root computed through the cache equals the root computed from scratch *)
(* for the same entries (the from-scratch root is tied to the Gray Paper by C15).    *)
EXTENDS Bytes, Json, TLC
CONSTANTS TraceFile, ResultFile, KnownDeviations, Cap
VARIABLES cache, lastLeaves, l

Keys == {}
Vals == {}
KeyLess(a, b) == CmpLex(a, b) < 0
INSTANCE StateCache

Trace == ndJsonDeserialize(TraceFile)
e == Trace[l]
Is(name) == l <= Len(Trace) /\ e.ev = name /\ l' = l + 1
EntryMap(es) == [k \in {es[i].k : i \in 1..Len(es)} |-> (CHOOSE i \in 1..Len(es) : es[i].k = k) ]
MapOf(es) == LET idx == EntryMap(es) IN [k \in DOMAIN idx |-> es[idx[k]].v]

TReset   == Is("Reset") /\ cache' = <<>> /\ lastLeaves' = <<>>
TClear   == Is("Clear") /\ Clear
TCompute == Is("Compute") /\ ComputeRoot(MapOf(e.entries)) /\ e.cached = e.uncached /\ Len(e.cached) = 32

TraceInit == l = 1 /\ cache = <<>> /\ lastLeaves = <<>>
TraceNext == TReset \/ TClear \/ TCompute
TraceSpec == TraceInit /\ [][TraceNext]_<<cache, lastLeaves, l>>
Report == (l = Len(Trace) + 1) => JsonSerialize(ResultFile, [n |-> l - 1, devs |-> <<>>, bad |-> <<>>])
=============================================================================

---------------------------- MODULE MC_FuzzSession ----------------------------
(* Exhaustive check of FuzzSession for short sessions (X10); configurations are  *)
(* written by checks/x10.py.                                                      *)
EXTENDS FuzzSession
=============================================================================

----------------------------- MODULE FuzzSession -----------------------------
(* X10 - the fuzz-protocol session as a protocol state machine                      *)
(* (internal/fuzz/server.go: FuzzServer.serve / serveOneRequest, messages.go).      *)
(*                                                                                  *)
(* A client and the target exchange frames (4-byte LE length, type octet, payload)  *)
(* over a reliable stream.  The client is free: it may send any frame at any time - *)
(* well-formed requests (PeerInfo with a feature set, SetState with or without an   *)
(* ancestry list, ImportBlock, GetState), frames the target must not accept (bad:   *)
(* malformed payload, unknown type octet, a response type, length field 0 ...) - or *)
(* close, possibly in the middle of a frame.  The target serves one frame at a time.*)
(*                                                                                  *)
(* Target states: fresh (nothing received), shaken (handshake done), failed (the    *)
(* last ImportBlock was answered with Error; the session goes on as in shaken),     *)
(* closed.  Design = "spec":                                                        *)
(*   - the first frame must be PeerInfo; it is answered with the target's PeerInfo  *)
(*     and fixes the negotiated features = client features /\ target features      *)
(*   - in shaken/failed every well-formed request gets exactly one response of the  *)
(*     matching kind (SetState -> StateRoot, ImportBlock -> StateRoot | Error,      *)
(*     GetState -> State); a second PeerInfo is answered again or refused           *)
(*   - anything else (request before the handshake, bad frame, close) ends the      *)
(*     session: the target sends nothing (or one Error) and closes, and the node    *)
(*     state is untouched                                                           *)
(*   - SetState keeps the ancestry list only if "ancestry" was negotiated           *)
(* Design = "code" is the server as found: no session state at all (every request   *)
(* is executed whenever it arrives, features are not looked at).                    *)
(*                                                                                  *)
(* The node is abstract: ver counts executed state-changing requests, anc says      *)
(* whether the ancestry bookkeeping is on.  It outlives sessions.                   *)
EXTENDS Integers, Sequences, FiniteSets, TLC

CONSTANTS MaxFrames, MaxSessions, ServerFeatures, Design
\* features are subsets of {"ancestry", "forks"}
FeatureSets == SUBSET {"ancestry", "forks"}

VARIABLES phase,        \* target: "fresh" | "shaken" | "failed" | "closed"
          nego,         \* negotiated features (meaningful once shaken)
          node,         \* [ver, anc]
          c2s,          \* frames sent by the client, not yet served
          log,          \* the frame served last with what the target did: <<[f, resp, exec, nodeBefore, nodeAfter,
                        \* phaseBefore, phaseAfter, cfs]>> (cfs = features the client offered in this session)
          cfs,
          sent, sessions, cstate   \* client: frames sent in this session, sessions so far, "open" | "closed"

vars == <<phase, nego, node, c2s, log, cfs, sent, sessions, cstate>>

Frames == {[k |-> "peer", fs |-> fs] : fs \in FeatureSets}
          \cup {[k |-> "set", anc |-> a] : a \in BOOLEAN}
          \cup {[k |-> "import"], [k |-> "get"], [k |-> "bad"], [k |-> "eof"]}   \* eof: the client closed (maybe mid-frame)

Init == /\ phase = "fresh" /\ nego = {} /\ node = [ver |-> 0, anc |-> FALSE]
        /\ c2s = <<>> /\ log = <<>> /\ cfs = {} /\ sent = 0 /\ sessions = 1 /\ cstate = "open"

ClientSend(f) ==
    /\ cstate = "open" /\ sent < MaxFrames
    /\ c2s' = Append(c2s, f) /\ sent' = sent + 1
    /\ cstate' = IF f.k = "eof" THEN "closed" ELSE "open"
    /\ UNCHANGED <<phase, nego, node, log, cfs, sessions>>

\* a new connection to the same process: the node is what it was
Reconnect ==
    /\ sessions < MaxSessions /\ c2s = <<>> /\ (cstate = "closed" \/ phase = "closed")
    /\ phase' = "fresh" /\ nego' = {} /\ cfs' = {} /\ cstate' = "open" /\ sent' = 0 /\ sessions' = sessions + 1
    /\ log' = <<>>
    /\ UNCHANGED <<node, c2s>>

Live == phase \in {"shaken", "failed"}
Entry(f, resp, ex, nd, ph) == [f |-> f, resp |-> resp, exec |-> ex, nodeBefore |-> node, nodeAfter |-> nd, phaseBefore |-> phase, phaseAfter |-> ph,
                               cfs |-> IF f.k = "peer" /\ phase = "fresh" THEN f.fs ELSE cfs]

\* the target serves the next frame
Serve ==
    /\ c2s # <<>> /\ phase # "closed"
    /\ LET f == Head(c2s)
           allowed == Design = "code" \/ Live          \* "code": no handshake needed
       IN /\ c2s' = Tail(c2s)
          /\ CASE f.k = "peer" /\ (phase = "fresh" \/ Design = "code") ->
                    /\ phase' = (IF phase = "fresh" THEN "shaken" ELSE phase)
                    /\ nego' = IF Design = "spec" THEN f.fs \cap ServerFeatures ELSE nego
                    /\ node' = node
                    /\ log' = <<Entry(f, "peer", FALSE, node, phase')>>
               [] f.k = "peer" /\ phase # "fresh" /\ Design = "spec" ->       \* a second PeerInfo: answered again, or refused
                    \/ /\ phase' = phase /\ nego' = nego /\ node' = node
                       /\ log' = <<Entry(f, "peer", FALSE, node, phase)>>
                    \/ /\ phase' = "closed" /\ nego' = nego /\ node' = node
                       /\ log' = <<Entry(f, "none", FALSE, node, "closed")>>
               [] f.k = "set" /\ allowed ->
                    LET nd == [ver |-> node.ver + 1,
                               anc |-> IF Design = "spec" THEN f.anc /\ "ancestry" \in nego ELSE f.anc]
                    IN /\ node' = nd /\ phase' = (IF phase = "fresh" THEN phase ELSE "shaken") /\ nego' = nego
                       /\ log' = <<Entry(f, "root", TRUE, nd, phase')>>
               [] f.k = "import" /\ allowed ->
                    \/ LET nd == [node EXCEPT !.ver = @ + 1]                    \* accepted
                       IN /\ node' = nd /\ phase' = (IF phase = "fresh" THEN phase ELSE "shaken") /\ nego' = nego
                          /\ log' = <<Entry(f, "root", TRUE, nd, phase')>>
                    \/ /\ node' = node /\ phase' = (IF phase = "fresh" THEN phase ELSE "failed") /\ nego' = nego   \* rejected: Error, node untouched
                       /\ log' = <<Entry(f, "error", FALSE, node, phase')>>
               [] f.k = "get" /\ allowed ->
                    /\ node' = node /\ phase' = phase /\ nego' = nego
                    /\ log' = <<Entry(f, "state", FALSE, node, phase)>>
               [] OTHER ->                                                       \* not acceptable here: end of session
                    /\ node' = node /\ phase' = "closed" /\ nego' = nego
                    /\ \E r \in {"none", "error"} : log' = <<Entry(f, r, FALSE, node, "closed")>>
    /\ cfs' = (IF Head(c2s).k = "peer" /\ phase = "fresh" THEN Head(c2s).fs ELSE cfs)
    /\ UNCHANGED <<sent, sessions, cstate>>

Next == (\E f \in Frames : ClientSend(f)) \/ Serve \/ Reconnect
Spec == Init /\ [][Next]_vars

\* ---- safety
Kind(f) == CASE f.k = "peer" -> {"peer"} [] f.k = "set" -> {"root"} [] f.k = "import" -> {"root", "error"}
             [] f.k = "get" -> {"state"} [] OTHER -> {}
\* (the invariants speak about the frame served last, so they hold for every served frame)
\* one response per request, of the matching kind, in order (frames are served in arrival order);
\* a frame that is not served as a request gets at most an Error and ends the session
OneResponse == \A i \in 1..Len(log) :
    LET e == log[i] IN \/ e.resp \in Kind(e.f) /\ e.phaseAfter # "closed"
                       \/ e.resp \in {"none", "error"} /\ e.phaseAfter = "closed" /\ ~e.exec
\* nothing that changes the node is executed before the handshake
NoExecBeforeHandshake == \A i \in 1..Len(log) : log[i].exec => log[i].phaseBefore \in {"shaken", "failed"}
\* only executed SetState / accepted ImportBlock change the node; bad frames, refused or rejected requests never do
OnlyRequestsChangeNode == \A i \in 1..Len(log) :
    LET e == log[i] IN (e.nodeAfter # e.nodeBefore) => (e.exec /\ e.f.k \in {"set", "import"} /\ e.resp = "root")
\* the ancestry bookkeeping is on only if both sides offered it
AncestryNegotiated == \A i \in 1..Len(log) :
    LET e == log[i] IN (e.f.k = "set" /\ e.exec /\ e.nodeAfter.anc) => (e.f.anc /\ "ancestry" \in ServerFeatures /\ "ancestry" \in e.cfs)
\* after the target closed nothing is served or sent in that session
SilentAfterClose == \A i \in 1..Len(log) : log[i].phaseBefore # "closed"
=============================================================================

----------------------------- MODULE ChainStore -----------------------------
(* X07 - persistence of blocks and states (internal/blockchain ChainState over      *)
(* internal/store over internal/database).                                          *)
(*                                                                                  *)
(* What is stored, per repository (the in-memory one `mem`, the persistent one      *)
(* `disk`; the fuzz target runs with both being the same in-memory database):       *)
(*   blk   header hashes whose block (header, extrinsic, hash -> slot) is stored    *)
(*   root  header hashes with a stored state root ("sr:" hash -> root)              *)
(*   data  state roots with stored key-values ("sd:" root -> state)                 *)
(* and, in the ChainState object: the block list, the working prior state, the      *)
(* list of committed entries that drives pruning (fuzz mode keeps Retain of them).  *)
(* A block x has state x and state root x (distinct blocks never share a root: the  *)
(* recent history in every state names the block).                                  *)
(*                                                                                  *)
(* Actions (the X-step calls exactly these on a real ChainState):                   *)
(*   Commit(x, f)  AddBlock(x); install x's state as posterior; StateCommit... ;    *)
(*                 PruneOldData in fuzz mode.  f = 0, or the number of the database *)
(*                 write of this commit that fails (injected).                      *)
(*   Add(x)        AddBlock(x) alone                                                *)
(*   Restore(h)    RestoreBlockAndState(h)                                          *)
(*   Restart       a new ChainState over the same persistent database               *)
(* Reads (evaluated in every state): GetState(h), GetBlock(h).                      *)
(*                                                                                  *)
(* Design selects the behaviour:                                                    *)
(*   "spec"  commits are all-or-nothing and reported; the state root of a header is *)
(*           persisted wherever its key-values are; pruning never deletes an entry  *)
(*           that was committed again inside the retained window                    *)
(*   "code"  the tree as found: every write on its own, errors only logged; the     *)
(*           hash -> root entry goes to the in-memory repository only; pruning      *)
(*           deletes by position                                                    *)
(* The invariants hold for "spec"; TLC refutes them for "code" (three ways, see     *)
(* the refutation configurations in checks/x07.py).                                 *)
EXTENDS Integers, Sequences, FiniteSets, TLC

CONSTANTS N, Retain, Fuzz, Design, MaxOps, MaxFail
VARIABLES mem, disk,         \* repositories
          list, prior,       \* ChainState: block list, whose state the working prior state is (-1: none)
          entries,           \* committed entries, oldest first (pruning)
          ok,                \* headers whose commit was reported successful and that the policy retains
          ever,              \* headers ever handed to Commit
          last,              \* what the last action reported: [op, x, done]
          ops, fails

vars == <<mem, disk, list, prior, entries, ok, ever, last, ops, fails>>
Blocks == 1..N
Empty == [blk |-> {}, root |-> {}, data |-> {}]
Range(s) == {s[i] : i \in 1..Len(s)}

\* ---- reads (chain_state.go GetStateByBlockHash / GetBlockByHash: memory first, then persistent)
StateIn(r, h) == h \in r.root /\ h \in r.data
GetState(h) == IF StateIn(mem, h) \/ (~Fuzz /\ StateIn(disk, h)) THEN h ELSE -1
GetBlock(h) == IF h \in mem.blk \/ (~Fuzz /\ h \in disk.blk) THEN h ELSE -1

\* ---- the writes of one commit, in the order the code issues them
\* 1 block mapping (AddBlock)  2 hash->root  3 root->data (memory)  4 root->data (persistent, not fuzz)
\* 5 block (SaveBlock into the memory repository)  [6 hash->root (persistent, not fuzz): "spec" only]
Writes == IF Fuzz THEN <<1, 2, 3, 5>> ELSE IF Design = "spec" THEN <<1, 2, 3, 4, 6, 5>> ELSE <<1, 2, 3, 4, 5>>
Apply(w, x, st) ==   \* st = [m, d]
    CASE w = 1 -> IF Fuzz THEN [st EXCEPT !.m.blk = @ \cup {x}] ELSE [st EXCEPT !.d.blk = @ \cup {x}]
      [] w = 2 -> [st EXCEPT !.m.root = @ \cup {x}]
      [] w = 3 -> [st EXCEPT !.m.data = @ \cup {x}]
      [] w = 4 -> [st EXCEPT !.d.data = @ \cup {x}]
      [] w = 5 -> [st EXCEPT !.m.blk = @ \cup {x}]
      [] w = 6 -> [st EXCEPT !.d.root = @ \cup {x}]
RECURSIVE ApplyAll(_, _, _, _, _)
ApplyAll(ws, i, x, st, skip) ==
    IF i > Len(ws) THEN st
    ELSE ApplyAll(ws, i + 1, x, IF i = skip THEN st ELSE Apply(ws[i], x, st), skip)

\* pruning (PruneOldData): keep the newest Retain entries
Pruned(es) == IF Len(es) <= Retain THEN <<>> ELSE SubSeq(es, 1, Len(es) - Retain)
Kept(es)   == IF Len(es) <= Retain THEN es ELSE SubSeq(es, Len(es) - Retain + 1, Len(es))
Victims(es) == IF Design = "spec" THEN Range(Pruned(es)) \ Range(Kept(es)) ELSE Range(Pruned(es))

\* x = 0 is the genesis, committed by SetState through StateCommit (never pruned); x >= 1 goes the
\* ImportBlock way (StateCommitWithPreComputedState + PruneOldData in fuzz mode)
Commit(x, f) ==
    /\ ops < MaxOps /\ (f > 0 => fails < MaxFail) /\ f \in 0..Len(Writes)
    /\ LET st0 == [m |-> mem, d |-> disk]
           nothing == Design = "spec" /\ f > 0         \* all-or-nothing, and reported
           st1 == IF nothing THEN st0 ELSE ApplyAll(Writes, 1, x, st0, f)
           done == ~nothing                             \* the code reports nothing, i.e. success
           es  == IF Fuzz /\ x > 0 /\ ~nothing THEN Append(entries, x) ELSE entries
           vic == IF Fuzz THEN Victims(es) ELSE {}
           new == IF done THEN {x} ELSE {}
       IN /\ mem' = [st1.m EXCEPT !.data = @ \ vic, !.blk = @ \ vic]
          /\ disk' = st1.d
          /\ entries' = Kept(es)
          /\ list' = IF nothing THEN list ELSE Append(list, x)
          /\ prior' = IF nothing THEN prior ELSE x
          /\ ok' = IF Fuzz THEN (ok \cup new) \cap (Range(Kept(es)) \cup {0}) ELSE ok \cup new
          /\ last' = [op |-> "commit", x |-> x, done |-> done]
    /\ ever' = ever \cup {x}
    /\ ops' = ops + 1 /\ fails' = fails + (IF f > 0 THEN 1 ELSE 0)

\* AddBlock alone (ImportBlock before the STF; the block of a rejected import stays stored like this)
Add(x) ==
    /\ ops < MaxOps
    /\ LET st1 == Apply(1, x, [m |-> mem, d |-> disk])
       IN mem' = st1.m /\ disk' = st1.d
    /\ list' = Append(list, x) /\ ever' = ever \cup {x}
    /\ last' = [op |-> "add", x |-> x, done |-> TRUE]
    /\ ops' = ops + 1
    /\ UNCHANGED <<prior, entries, ok, fails>>

Restore(h) ==
    /\ ops < MaxOps
    /\ LET can == GetBlock(h) = h /\ GetState(h) = h
       IN /\ prior' = IF can THEN h ELSE prior
          /\ list' = IF can THEN <<h>> ELSE list
          /\ last' = [op |-> "restore", x |-> h, done |-> can]
    /\ ops' = ops + 1
    /\ UNCHANGED <<mem, disk, entries, ok, ever, fails>>

\* a new process: the in-memory repository is gone; in fuzz mode that is everything
Restart ==
    /\ ops < MaxOps
    /\ mem' = Empty /\ disk' = IF Fuzz THEN Empty ELSE disk
    /\ list' = <<>> /\ prior' = -1 /\ entries' = <<>>
    /\ ok' = IF Fuzz THEN {} ELSE ok
    /\ last' = [op |-> "restart", x |-> 0, done |-> TRUE]
    /\ ops' = ops + 1
    /\ UNCHANGED <<ever, fails>>

Init == /\ mem = Empty /\ disk = Empty /\ list = <<>> /\ prior = -1 /\ entries = <<>>
        /\ ok = {} /\ ever = {} /\ last = [op |-> "init", x |-> 0, done |-> TRUE]
        /\ ops = 0 /\ fails = 0
Next == (\E x \in 0..N, f \in 0..6 : Commit(x, f)) \/ (\E x \in Blocks : Add(x)) \/ (\E h \in 0..N : Restore(h)) \/ Restart
Spec == Init /\ [][Next]_vars

\* ---- invariants
\* a commit that was reported successful (and that the retention policy keeps) is read back unchanged,
\* whatever was committed, restored or restarted in between
ReadYourCommit == \A h \in ok : GetState(h) = h /\ GetBlock(h) = h
\* nothing is readable that was never committed
NoPhantom == \A h \in 0..N : (GetState(h) = h \/ GetBlock(h) = h) => h \in ever
\* a state is never visible without its block
StateHasBlock == \A h \in 0..N : GetState(h) = h => GetBlock(h) = h
\* Restore(h) succeeds exactly for readable headers and makes h's state the working state
RestoreExact == last.op = "restore" => ((last.done <=> (GetState(last.x) = last.x /\ GetBlock(last.x) = last.x))
                                       /\ (last.done => prior = last.x))
\* the working state is one that can be read back (the head is never ahead of the store)
HeadPersisted == prior # -1 => GetState(prior) = prior
=============================================================================

----------------------------- MODULE StateCache -----------------------------
(* C16: the per-key leaf-hash cache used when computing the state root.            *)
(* Leaves and value fingerprints are abstract terms: Leaf(k, v) is the trie leaf   *)
(* of (k, v) and VTag(v) the fingerprint the cache compares (BLAKE2b of the value  *)
(* in the code).  One action per public entry point of the cache owner.            *)
EXTENDS Integers, Sequences, FiniteSets, SequencesExt, TLC

CONSTANTS Keys, Vals, Cap,     \* Cap = capacity at which a miss clears the whole cache first
          KeyLess(_, _)       \* trie order on keys (ascending bytewise in the code)

VARIABLES cache,      \* DOMAIN = cached keys; cache[k] = [vtag, leaf]
          lastLeaves  \* leaves used by the most recent root computation (function key -> leaf), for RootAgrees
vars == <<cache, lastLeaves>>

Leaf(k, v) == <<"leaf", k, v>>
VTag(v) == <<"h", v>>

KeySeq(S) == SetToSortSeq(S, KeyLess)

\* one leaf lookup (the callback merklization calls per leaf): returns <<cache', leaf>>
Lookup(c, k, v) ==
  IF k \in DOMAIN c /\ c[k].vtag = VTag(v) THEN <<c, c[k].leaf>>                      \* hit
  ELSE LET c0 == IF Cardinality(DOMAIN c) >= Cap THEN <<>> ELSE c                      \* miss at capacity: clear
           lf == Leaf(k, v)
       IN <<[x \in DOMAIN c0 \cup {k} |-> IF x = k THEN [vtag |-> VTag(v), leaf |-> lf] ELSE c0[x]], lf>>

\* fold Lookup over the entries in key order
RECURSIVE Fold(_, _, _, _)
Fold(c, e, ks, acc) ==
  IF ks = <<>> THEN <<c, acc>>
  ELSE LET k == Head(ks)
           r == Lookup(c, k, e[k])
       IN Fold(r[1], e, Tail(ks), [x \in DOMAIN acc \cup {k} |-> IF x = k THEN r[2] ELSE acc[x]])

\* ComputeRoot(e): e is the full entry map handed to the root computation
ComputeWith(e, ks) == LET r == Fold(cache, e, ks, <<>>) IN cache' = r[1] /\ lastLeaves' = r[2]
ComputeRoot(e) == ComputeWith(e, KeySeq(DOMAIN e))
Clear == cache' = <<>> /\ UNCHANGED lastLeaves

Init == cache = <<>> /\ lastLeaves = <<>>
EntryMaps == UNION {[S -> Vals] : S \in SUBSET Keys}
Next == (\E e \in EntryMaps : ComputeRoot(e)) \/ Clear
Spec == Init /\ [][Next]_vars

\* ---- design properties ----
\* every cached leaf is the leaf of the value whose fingerprint is stored with it
CacheSound == \A k \in DOMAIN cache : \E v \in Vals : cache[k].vtag = VTag(v) /\ cache[k].leaf = Leaf(k, v)
Bounded == Cardinality(DOMAIN cache) <= Cap
\* the leaves a root computation uses are exactly the leaves of the entries it was given
RootAgrees == [][\A e \in EntryMaps : ComputeRoot(e) => lastLeaves' = [k \in DOMAIN e |-> Leaf(k, e[k])]]_vars
=============================================================================

---------------------------- MODULE MC_NodeImport ----------------------------
(* Exhaustive check of NodeImport for small worlds (C26).  Configurations are      *)
(* written by checks/c26.py: N, MaxInvalid, MaxOps, MaxRuns, Mode.                  *)
EXTENDS NodeImport
=============================================================================

--------------------------- MODULE NodeImport_Gen ---------------------------
(* G-step for C26.  TLC enumerates scenarios of the NodeImport model: a world (tree  *)
(* of N blocks below genesis, which of them are intrinsically invalid and whether    *)
(* they fail in the first STF stage or later) and a sequence of ImportBlock calls.   *)
(* Every sequence over the blocks of the world is a scenario: retries of rejected    *)
(* blocks, children and siblings of accepted and of rejected blocks, orphans that    *)
(* become importable later, second imports of committed blocks (refused when the     *)
(* block is the head, a re-organisation otherwise - either way the answer must not   *)
(* depend on rejected blocks seen before).                                           *)
(* `expect` is the verdict sequence of the model node with rollback; the check uses  *)
(* it for coverage accounting only, never as a verdict on the code.                  *)
(* checks/c26.py turns the failure class of each invalid block into a concrete block *)
(* recipe (bad slot, bad parent state root, bad extrinsic hash/order, bad seal, ...).*)
EXTENDS NodeImport, Json, SequencesExt
CONSTANTS OutFile, MaxLen, Seed, Keep,  \* keep 1 scenario in Keep (Keep = 1: all)
          Core,                        \* also emit the core families for every world
          LongN, LongK                 \* the long history: LongN accepted blocks, LongK refused ones (0, 0: none)

RECURSIVE Verdicts(_, _, _, _)
Verdicts(w, nd, s, i) ==
    IF i > Len(s) THEN <<>>
    ELSE LET r == ImportIn(w, "rollback_head", nd, s[i]) IN <<r.ok>> \o Verdicts(w, r.node, s, i + 1)

SeqsOfLen(k) == [1..k -> Blocks]
Seqs == UNION {SeqsOfLen(k) : k \in 1..MaxLen}
\* every block of the world takes part, so that smaller worlds are not repeated inside larger ones
UsesAll(s) == \A x \in Blocks : \E i \in 1..Len(s) : s[i] = x

Scen == {[w |-> w, s |-> s] : w \in Worlds, s \in {t \in Seqs : UsesAll(t)}}
AllS == SetToSeq(Scen)
Kept == SelectSeq([i \in 1..Len(AllS) |-> [c |-> AllS[i], i |-> i]],
                  LAMBDA e : (e.i + Seed) % Keep = 0)
Out(c) == [n |-> N, parent |-> c.w.parent, kind |-> c.w.kind, seq |-> c.s,
           anc |-> IF c.w.anc THEN 1 ELSE 0,
           expect |-> Verdicts(c.w, FreshIn(c.w), c.s, 1)]
\* core family, one scenario per world: the blocks in index order (parents before children), every
\* intrinsically invalid block sent twice in a row.  It holds, for every tree shape and every
\* placement of <= MaxInvalid invalid blocks, the retry, the child and the sibling of a rejected
\* block and the valid child / sibling imported right after a rejection.
RECURSIVE CoreSeq(_, _, _)
CoreSeq(w, order, i) == IF i > Len(order) THEN <<>>
                        ELSE (IF w.kind[order[i]] = "ok" THEN <<order[i]>> ELSE <<order[i], order[i]>>)
                             \o CoreSeq(w, order, i + 1)
InOrder == [i \in 1..N |-> i]
\* with the ancestry list in use also block 1 last: the later blocks are committed (or rejected on a
\* fork) first and the oldest block arrives as a late fork block, which the node refuses or not
\* according to the newest entry of its ancestry list
Rotated == [i \in 1..N |-> IF i = N THEN 1 ELSE i + 1]
\* every intrinsically valid block sent twice in a row (the second time it is the head and is refused
\* as "not a child of itself"): whatever a refusal cleans up must not be what the accepted block needs
\* later, when the node has to reload it (a rejected block after it, a switch to another fork and back)
RECURSIVE DupSeq(_, _)
DupSeq(w, x) == IF x > N THEN <<>>
                ELSE (IF w.kind[x] = "ok" THEN <<x, x>> ELSE <<x>>) \o DupSeq(w, x + 1)
CoreS == IF ~Core THEN <<>>
         ELSE SetToSeq({[w |-> w, s |-> CoreSeq(w, InOrder, 1)] : w \in Worlds})
              \o (IF N = 1 THEN <<>>
                  ELSE SetToSeq({[w |-> w, s |-> CoreSeq(w, Rotated, 1)] : w \in {v \in Worlds : v.anc}}))
              \o SetToSeq({[w |-> w, s |-> DupSeq(w, 1)] :
                             w \in {v \in Worlds : ~v.anc /\ Cardinality({x \in Blocks : v.kind[x] # "ok"}) <= 1}})

\* the long history (one scenario, its own world): a chain of LongN valid blocks, then LongK invalid
\* children of the middle block - LongN + LongK passes the node's retention window of 24 entries while
\* LongN alone does not - then a valid child of block 2 (a fork back to an old block).  Refused imports
\* must leave every answer unchanged: GetState of the old blocks, and the fork back.
LongM == LongN + LongK + 1
LongMid == (LongN + 1) \div 2
LongW == [parent |-> [x \in 1..LongM |-> IF x <= LongN THEN x - 1 ELSE IF x < LongM THEN LongMid ELSE 2],
          kind |-> [x \in 1..LongM |-> IF x > LongN /\ x < LongM THEN (IF x % 3 = 0 THEN "s1" ELSE "s2") ELSE "ok"],
          anc |-> FALSE]
LongSeq == [i \in 1..LongM |-> i]
LongCase == [n |-> LongM, parent |-> LongW.parent, kind |-> LongW.kind, seq |-> LongSeq, anc |-> 0,
             expect |-> Verdicts(LongW, FreshIn(LongW), LongSeq, 1)]
Cases == [i \in 1..Len(CoreS) |-> Out(CoreS[i])] \o [i \in 1..Len(Kept) |-> Out(Kept[i].c)]
         \o (IF LongN > 0 THEN <<LongCase>> ELSE <<>>)

ASSUME ndJsonSerialize(OutFile, Cases)

GenInit == /\ parent = [x \in Blocks |-> 0] /\ kind = [x \in Blocks |-> "ok"] /\ ancOn = FALSE
           /\ node = FreshIn([anc |-> FALSE]) /\ acc = <<>> /\ obs = <<>> /\ bad = FALSE /\ ops = 0 /\ runs = 1
GenNext == FALSE /\ UNCHANGED vars
=============================================================================

----------------------------- MODULE NodeImport -----------------------------
(* C26 - block import is atomic and repeatable.                                     *)
(*                                                                                  *)
(* A node as the fuzz target sees it (internal/fuzz/service.go ImportBlock on top   *)
(* of internal/blockchain ChainState and internal/stf RunSTF):                      *)
(*   db     persisted posterior states, one per committed header (GetState reads    *)
(*          only this)                                                              *)
(*   list   in-memory block list; its last element is what ImportBlock compares     *)
(*          the incoming parent with                                                *)
(*   prior  working prior state: which block's posterior it is, and whether an      *)
(*          aborted STF run has already written into it (the STF components work    *)
(*          on shallow copies of the singleton, so their first writes land in the   *)
(*          prior state itself)                                                     *)
(*   post   how many STF stages have written to the working posterior state         *)
(*   anc    the ancestry list (AncestryCache): empty unless SetState was given one; *)
(*          when in use every commit appends to it, every restore cuts it back to   *)
(*          the restored header (or empties it if that header is not in it), and a  *)
(*          fork block older than its newest entry is refused outright              *)
(*                                                                                  *)
(* The world is a tree of blocks 1..N below genesis 0; block x has time slot x, so   *)
(* "older" is "smaller".  kind[x] says whether block                                *)
(* x is intrinsically valid ("ok") or fails in STF stage 1 ("s1": header checks     *)
(* H_x, H_r, ... before anything is written) or in a later stage ("s2": disputes,   *)
(* safrole/slot, seal, entropy, extrinsic order, assurances, reports - after the    *)
(* first in-place writes).  A block's claimed parent state root is the root of      *)
(* Base(x), the nearest ancestor that can be committed (a rejected parent has no    *)
(* state of its own, so whoever builds on it can only quote its parent's).          *)
(*                                                                                  *)
(* Mode selects what a protocol-error rejection leaves behind:                      *)
(*   "norollback"      the code as found: block stays in the list, prior stays      *)
(*                     written-to, posterior stays partly written                   *)
(*   "rollback_parent" rewind to the rejected block's parent                        *)
(*   "rollback_state"  rewind state and block list to the head the node had when    *)
(*                     the import started, ancestry as the restore leaves it        *)
(*   "rollback_head"   the same and the ancestry list put back as it was            *)
(*                     (what ImportBlock does after the C26 repair)                 *)
(*                                                                                  *)
(* The property is stated over OBSERVATIONS.  acc is the sequence of imports the    *)
(* node has accepted since it was set up.  Rejection is the identity on observable  *)
(* state, and two fresh nodes agree, exactly when everything a user can observe -   *)
(* the verdict and state root of ImportBlock(x), and GetState of every committed    *)
(* header - is a function of (acc, request): two nodes (or one node at two times)   *)
(* that accepted the same imports in the same order answer alike, whatever rejected *)
(* blocks either of them has seen in between.  obs records the first answer seen    *)
(* for each (acc, request); Functional says no later answer ever differs.  The      *)
(* trace specification NodeImport_Trace checks the same invariant on what the real  *)
(* FuzzServiceStub answered.                                                        *)
EXTENDS Integers, Sequences, FiniteSets, TLC

CONSTANTS N,           \* blocks 1..N; 0 is the genesis set up by SetState
          MaxInvalid,  \* intrinsically invalid blocks in the world
          MaxOps,      \* ImportBlock calls in one behaviour (all nodes together)
          MaxRuns,     \* fresh nodes in one behaviour
          Mode

VARIABLES parent, kind, ancOn,  \* the world (chosen initially, then fixed)
          node, acc,          \* the running node and its accepted imports
          obs, bad,           \* first answers per (acc, request); a differing answer was seen
          ops, runs

vars == <<parent, kind, ancOn, node, acc, obs, bad, ops, runs>>

Blocks == 1..N
Kinds  == {"ok", "s1", "s2"}
Last(s) == s[Len(s)]
Range(s) == {s[i] : i \in 1..Len(s)}

\* a block can ever be committed only if it and all its ancestors are intrinsically valid
RECURSIVE GoodIn(_, _, _)
GoodIn(par, knd, x) == x = 0 \/ (knd[x] = "ok" /\ GoodIn(par, knd, par[x]))
RECURSIVE BaseIn(_, _, _)
BaseIn(par, knd, x) == LET p == par[x] IN IF GoodIn(par, knd, p) THEN p ELSE BaseIn(par, knd, p)

\* ---- the node, as pure operators over a world w = [parent, kind]
FreshIn(w) == [db |-> {0}, list |-> <<0>>, prior |-> [of |-> 0, dirty |-> FALSE], post |-> 0,
               anc |-> IF w.anc THEN <<-1, 0>> ELSE <<>>]

\* chain_state.go RestoreBlockAndState / restoreWithState: state from db, list cut back to p
\* (KeepBlocksUpTo; if p is not in the list the list is emptied and p re-added)
Restore(nd, p) ==
    LET idx == {i \in 1..Len(nd.list) : nd.list[i] = p}
        cut == IF idx = {} THEN <<p>> ELSE SubSeq(nd.list, 1, CHOOSE i \in idx : \A j \in idx : j <= i)
        aidx == {i \in 1..Len(nd.anc) : nd.anc[i] = p}
        acut == IF aidx = {} THEN <<>> ELSE SubSeq(nd.anc, 1, CHOOSE i \in aidx : \A j \in aidx : j <= i)
    IN [nd EXCEPT !.prior = [of |-> p, dirty |-> FALSE], !.list = cut, !.anc = acut]

\* stage at which RunSTF fails on the working state, 0 = passes.  Stage 1 compares H_r with
\* the root of the working prior state as it is now.
FailStage(w, nd, x) ==
    IF nd.prior.of # BaseIn(w.parent, w.kind, x) \/ nd.prior.dirty THEN 1
    ELSE IF w.kind[x] = "s1" THEN 1 ELSE IF w.kind[x] = "s2" THEN 2 ELSE 0

\* service.go ImportBlock
ImportIn(w, mode, nd, x) ==
    LET h == Last(nd.list)
        mismatch == h # w.parent[x] /\ h # x
        tooOld == mismatch /\ Len(nd.anc) > 0 /\ Last(nd.anc) > x
    IN IF tooOld \/ (mismatch /\ w.parent[x] \notin nd.db)
       THEN [node |-> nd, ok |-> FALSE]   \* "not part of the finalized block" / "failed to restore block and state"
       ELSE LET n1 == IF mismatch THEN Restore(nd, w.parent[x]) ELSE nd
                n2 == [n1 EXCEPT !.list = Append(@, x)]
                f  == FailStage(w, n2, x)
                left == [n2 EXCEPT !.prior.dirty = (@ \/ f >= 2), !.post = f]
            IN IF f = 0
               THEN [node |-> [n2 EXCEPT !.db = @ \cup {x}, !.prior = [of |-> x, dirty |-> FALSE], !.post = 0,
                                         !.anc = IF Len(@) > 0 /\ Last(@) # x THEN Append(@, x) ELSE @],
                     ok |-> TRUE]
               ELSE [node |-> CASE mode = "norollback"      -> left
                                [] mode = "rollback_parent" -> [Restore(left, Last(n1.list)) EXCEPT !.post = 0]
                                [] mode = "rollback_state"  -> [Restore(left, h) EXCEPT !.post = 0]
                                [] mode = "rollback_head"   -> [Restore(left, h) EXCEPT !.post = 0, !.anc = nd.anc],
                     ok |-> FALSE]

World == [parent |-> parent, kind |-> kind, anc |-> ancOn]
FreshNode == FreshIn(World)
ImportStep(nd, x) == ImportIn(World, Mode, nd, x)

\* what a user can observe
ImportAnswer(r, x) == [ok |-> r.ok, root |-> IF r.ok THEN x ELSE -1]
GetAnswer(nd, a) == [b \in Range(a) \cup {0} |-> IF b \in nd.db THEN b ELSE -1]

Note(table, key, ans) == IF key \in DOMAIN table THEN table ELSE table @@ (key :> ans)
Clash(table, key, ans) == key \in DOMAIN table /\ table[key] # ans

Worlds == {w \in [parent : [Blocks -> 0..N - 1], kind : [Blocks -> Kinds], anc : BOOLEAN] :
             /\ \A x \in Blocks : w.parent[x] < x
             /\ Cardinality({x \in Blocks : w.kind[x] # "ok"}) <= MaxInvalid}

Init == /\ \E w \in Worlds : parent = w.parent /\ kind = w.kind /\ ancOn = w.anc /\ node = FreshIn(w)
        /\ acc = <<>>
        /\ obs = (<<<<>>, 0>> :> [b \in {0} |-> 0])
        /\ bad = FALSE /\ ops = 0 /\ runs = 1

Import(x) ==
    /\ ops < MaxOps
    /\ LET r == ImportStep(node, x)
           a2 == IF r.ok THEN Append(acc, x) ELSE acc
           k1 == <<acc, x>>
           v1 == ImportAnswer(r, x)
           k2 == <<a2, 0>>                     \* request 0 = GetState of every committed header
           v2 == GetAnswer(r.node, a2)
           o1 == Note(obs, k1, v1)
       IN /\ node' = r.node /\ acc' = a2
          /\ obs' = Note(o1, k2, v2)
          /\ bad' = (bad \/ Clash(obs, k1, v1) \/ Clash(o1, k2, v2))
    /\ ops' = ops + 1
    /\ UNCHANGED <<parent, kind, ancOn, runs>>

\* SetState on a fresh process: everything but the observer's notebook starts again
Fresh ==
    /\ runs < MaxRuns /\ acc # <<>>
    /\ node' = FreshNode /\ acc' = <<>> /\ runs' = runs + 1
    /\ UNCHANGED <<parent, kind, ancOn, obs, bad, ops>>

Next == (\E x \in Blocks : Import(x)) \/ Fresh
Spec == Init /\ [][Next]_vars

\* ---- properties
Functional == ~bad
RejectIsIdentity   == Functional   \* runs that differ only in rejected imports pass through the same keys
TwoFreshNodesAgree == Functional   \* runs with the same imports pass through the same keys
\* a committed state is never lost or replaced, and the working state is clean between imports
DbSound == /\ Range(acc) \cup {0} \subseteq node.db
           /\ (Mode = "rollback_head" => (~node.prior.dirty /\ node.post = 0 /\ node.prior.of = Last(node.list)))
TypeOK == /\ node.db \subseteq 0..N /\ node.prior.of \in 0..N /\ node.post \in 0..2
          /\ ops \in 0..MaxOps /\ runs \in 1..MaxRuns
=============================================================================

----------------------------- MODULE CEHandlers -----------------------------
(* Protocol logic of the JAMNP-S "CE" handlers that is worth stating (check X09).    *)
(*                                                                                  *)
(* CE128 block request (ce128.go).  A store is a finite set of blocks               *)
(* [id, parent, slot]; ids are positive integers, id 0 is "a hash no block has".    *)
(*   direction 1 (descending, inclusive): the block h itself, then its ancestors,   *)
(*     stopping after `max` blocks, after the genesis block, or at the first hash   *)
(*     the store does not know.  Deterministic: Desc(h, max).                       *)
(*   direction 0 (ascending, exclusive): a chain of descendants of h - each block's *)
(*     parent is the previous one (the first one's parent is h) - of at most `max`  *)
(*     blocks, which may only stop early where the store knows no child of the last *)
(*     block.  With forks any child may be chosen (the JAMNP-S text is not          *)
(*     available offline; the code comments say "ascending exclusive", nothing      *)
(*     about forks), so AscOk is a predicate on the response.                       *)
(*   any other direction: the request is refused, nothing is sent.                  *)
(* `max` is a 4-byte little-endian tuple (it may be 2^32-1).                        *)
(*                                                                                  *)
(* CE144 / CE145 announcement streams: two framed messages; the handler accepts     *)
(* iff each message is EXACTLY the encoding of its part (Codec!Dec, whole message)  *)
(* and what it stores is the concatenation of the two messages (= the encoding of   *)
(* the announcement): specified in CE_Trace with the CE types of Schema.tla.        *)
(*                                                                                  *)
(* Frames: a handler that is sent a frame whose length header exceeds the bytes     *)
(* that follow must fail without allocating the announced length (CE_Trace).        *)
EXTENDS Schema

Known(S, h) == \E b \in S : b.id = h
BlockOf(S, h) == CHOOSE b \in S : b.id = h
Children(S, h) == {b.id : b \in {b \in S : b.parent = h /\ b.id # h}}

\* little-endian 4-byte count as a number capped at cap (enough to compare with store sizes)
Capped(max4, cap) == IF max4[3] # 0 \/ max4[4] # 0 THEN cap ELSE Min2(cap, max4[1] + 256 * max4[2])

RECURSIVE Desc(_, _, _, _)
Desc(S, g, h, n) ==
  IF n = 0 \/ ~Known(S, h) THEN <<>>
  ELSE IF h = g THEN <<h>>
  ELSE <<h>> \o Desc(S, g, BlockOf(S, h).parent, n - 1)

\* r is an acceptable ascending response for (h, n)
AscOk(S, h, n, r) ==
  /\ Len(r) <= n
  /\ \A i \in 1..Len(r) : Known(S, r[i]) /\ r[i] # (IF i = 1 THEN h ELSE r[i - 1])
                          /\ BlockOf(S, r[i]).parent = (IF i = 1 THEN h ELSE r[i - 1])
  /\ (Len(r) < n => Children(S, IF Len(r) = 0 THEN h ELSE r[Len(r)]) = {})

\* stores used by the generator: a linear chain that reaches beyond slot 10, a fork, slots with gaps
Blk(i, p, s) == [id |-> i, parent |-> p, slot |-> s]
Linear == {Blk(i, i - 1, i - 1) : i \in 1..14}
Fork == {Blk(1, 0, 0), Blk(2, 1, 1), Blk(3, 2, 2), Blk(4, 3, 3), Blk(5, 2, 2), Blk(6, 5, 3)}
Gaps == {Blk(1, 0, 0), Blk(2, 1, 5), Blk(3, 2, 20), Blk(4, 3, 21)}
Stores == {Linear, Fork, Gaps}
=============================================================================

----------------------------- MODULE MC_StateKV -----------------------------
(* Design check for C17: every well-formed state over 2 services (ids 1 and 511,    *)
(* the second with a first id octet 0xFF), <= 2 storage items, <= 2 preimages and    *)
(* <= 4 lookup items each (matching an own preimage, wrong length, matching only the *)
(* OTHER service's preimage, orphan hash) round-trips through Export / Import, the   *)
(* classification recovers exactly the non-invertible part as raw, and the two-phase *)
(* sequential import returns the same raw set for every permutation of the snapshot. *)
(* The hash is an injective toy function whose outputs carry a code >= 256 in their   *)
(* first entry (injectivity on the inputs actually used is itself an invariant).     *)
EXTENDS Bytes, SequencesExt, FiniteSetsExt, TLC
CONSTANT Lim2             \* the second service has at most Lim2 storage and Lim2 lookup items (2 / 4 = all)
CONSTANT MaxPerm          \* permutations are enumerated for snapshots with at most MaxPerm service entries
VARIABLE st

RECURSIVE CodeR(_, _, _)
CodeR(x, i, acc) == IF i > Len(x) THEN acc ELSE CodeR(x, i + 1, (acc * 131 + x[i] + 1) % 1000003)
ToyH(x) == <<256 + CodeR(x, 1, Len(x))>> \o Rep(7, 31)

INSTANCE StateKV WITH H <- ToyH

S1 == <<1, 0, 0, 0>>
S2 == <<255, 1, 0, 0>>
PA == <<10>>
PB == <<11, 12>>
T1 == <<7, 0, 0, 0>>
T2 == <<9, 1, 0, 0>>
StorageU == {[k |-> <<1>>, v |-> <<>>], [k |-> <<2, 2>>, v |-> <<5, 6>>]}
LookU == {[h |-> ToyH(PA), l |-> LE(1, 4), t |-> <<>>],            \* matches PA
          [h |-> ToyH(PA), l |-> LE(2, 4), t |-> <<T1>>],          \* right hash, wrong length
          [h |-> ToyH(PB), l |-> LE(2, 4), t |-> <<T1, T2>>],      \* matches PB
          [h |-> ToyH(<<99>>), l |-> LE(1, 4), t |-> <<T2>>]}      \* no such preimage anywhere
InfoOfId(s) == <<0>> \o Rep(s[1], 88)                              \* opaque 89-octet value, differs per service
Accounts(s, lim) == {[id |-> s, info |-> InfoOfId(s), storage |-> ss, pre |-> ps, look |-> ls] :
                       ss \in {x \in SUBSET StorageU : Cardinality(x) <= lim}, ps \in SUBSET {PA, PB},
                       ls \in {x \in SUBSET LookU : Cardinality(x) <= lim}}
Lim(s) == IF s = S1 THEN 4 ELSE Lim2

\* the state graph: services are added one at a time (so that TLC's workers share the states)
Init == st = [comp |-> [i \in 1..16 |-> <<i, i>>], svc |-> {}]
Next == \E s \in {S1, S2} :
          /\ \A a \in st.svc : a.id # s
          /\ \E a \in Accounts(s, Lim(s)) : st' = [st EXCEPT !.svc = @ \cup {a}]
Spec == Init /\ [][Next]_st

\* hash inputs that occur in st (two levels) have pairwise different toy hashes
HashInputs(svckvs) ==
  LET l0 == UNION {{PfxStorage \o e.k : e \in a.storage} \cup a.pre \cup {e.l \o e.h : e \in a.look} : a \in st.svc}
              \cup {e.v : e \in svckvs}
      l1 == {PfxPreimage \o ToyH(x) : x \in l0} \cup {LE(Len(x), 4) \o ToyH(x) : x \in l0}
  IN l0 \cup l1

\* what the classification must recover, computed from the abstract state directly
Matched(a) == {e \in a.look : \E p \in a.pre : e.h = ToyH(p) /\ e.l = LE(Len(p), 4)}
ExpectRaw == UNION {{[k |-> StorageKey(a.id, e.k), v |-> e.v] : e \in a.storage}
                    \cup {[k |-> LookupKey(a.id, e.h, e.l), v |-> LookupVal(e.t)] : e \in a.look \ Matched(a)} : a \in st.svc}
ExpectParsed == [comp |-> st.comp, svc |-> {[a EXCEPT !.storage = {}, !.look = Matched(a)] : a \in st.svc}]

\* all invariants share one evaluation of Export and of the classification
Verdict ==
  LET E == Export(st)
      c == Classify(E)
      svckvs == TLCEval(E \ c.comp)
      hin == TLCEval(HashInputs(svckvs))
      parsed == TLCEval(ImportC(c))
  IN [inj    |-> Cardinality({ToyH(x) : x \in hin}) = Cardinality(hin),
      wf     |-> WellFormedKVs(E) /\ Cardinality(E) = 16 + Cardinality(svckvs) /\ Cardinality(c.comp) = 16,
      rt     |-> ExportParsed(parsed) \cup c.raw = E /\ ExportParsed(parsed) \cap c.raw = {},
      cls    |-> c.raw = ExpectRaw /\ parsed = ExpectParsed,
      \* the two-phase list import gives the same raw set whatever the order of the snapshot
      order  |-> Cardinality(svckvs) <= MaxPerm => \A p \in SetToSeqs(svckvs) : ImportSeqRaw(p) = c.raw]
ToyInjective  == Verdict.inj
InvWellFormed == Verdict.wf
InvRoundTrip  == Verdict.rt
InvClassify   == Verdict.cls
InvOrder      == Verdict.order
InvAll == Verdict = [inj |-> TRUE, wf |-> TRUE, rt |-> TRUE, cls |-> TRUE, order |-> TRUE]

\* the property is not vacuous: deciding lookups in one pass depends on the order
WitnessAcc == [id |-> S1, info |-> InfoOfId(S1), storage |-> {}, pre |-> {PA}, look |-> {CHOOSE x \in LookU : x.l = LE(1, 4) /\ x.h = ToyH(PA)}]
WitnessE == ExportSvc(WitnessAcc)
ASSUME \E p \in SetToSeqs(WitnessE) : OnePassRaw(p, {}, {}) # Raw(WitnessE)
ASSUME \A p \in SetToSeqs(WitnessE) : ImportSeqRaw(p) = Raw(WitnessE) /\ Raw(WitnessE) = {}
=============================================================================

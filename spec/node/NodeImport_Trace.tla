-------------------------- MODULE NodeImport_Trace --------------------------
(* V-step for C26: what the real FuzzServiceStub answered must satisfy the same     *)
(* invariant NodeImport states for the model - every observable answer is a         *)
(* function of (imports accepted so far, request).                                  *)
(*                                                                                  *)
(* Events (harness/nodeimport), one scenario after another:                         *)
(*   Scenario id n parent ckind seq built ...  a new world; the notebook starts empty*)
(*   Fresh run ok root gets   ResetInstance + SetState(genesis) on a fresh node      *)
(*   Import run i x ok root err panic gets   ImportBlock(block x); root = 0 when      *)
(*          rejected; panic = the call died with a Go runtime panic (recovered by     *)
(*          the driver as internal/fuzz/server.go does): an answer like any other     *)
(*   gets = <<[b, found, kv], ...>>: GetState(header hash of block b; 0 = genesis)   *)
(*          called right after the SetState / ImportBlock of the event               *)
(* Roots and key-value sets arrive as small integers, equal integers meaning equal   *)
(* digests within the scenario.  The driver runs the call sequence on a fresh node   *)
(* (run A), then again and again on fresh nodes, each time without the first call    *)
(* the previous run rejected (runs B1, B2, ...: the nodes that never saw that        *)
(* rejected block), and once more in full (run C: a second fresh node).  Which runs  *)
(* are made is test selection only: the invariant must hold over any set of runs.    *)
(* The runs pass through the same keys (acc, request), so                            *)
(*   - a rejection that changed what GetState returns for a committed header,        *)
(*   - a later import (the same block again, a sibling, a child, an orphan) whose    *)
(*     verdict or state root differs from the node that never saw the rejected block,*)
(*   - two fresh nodes that disagree                                                 *)
(* all show up as a second, different answer for a key already in the notebook, and  *)
(* the trace gets stuck there.  Verdicts are NOT predicted here: whether the node    *)
(* ought to accept a block is not part of C26.  GetState is judged only for headers  *)
(* the node has committed in this run (and genesis); what it says about a rejected   *)
(* or unknown header is recorded but not constrained by the property statement.      *)
EXTENDS Integers, Sequences, TLC, Json
CONSTANTS TraceFile, ResultFile, KnownDeviations
VARIABLES acc, obs, l

Trace == ndJsonDeserialize(TraceFile)
e == Trace[l]
Is(name) == l <= Len(Trace) /\ e.ev = name /\ l' = l + 1
Range(s) == {s[i] : i \in 1..Len(s)}

\* request codes: ImportBlock(x) -> x >= 1;  SetState -> 0;  GetState(b) -> -(b + 1)
Agrees(key, ans) == key \in DOMAIN obs => obs[key] = ans
Note(key, ans)   == IF key \in DOMAIN obs THEN obs ELSE obs @@ (key :> ans)

\* the GetState answers that came with an event, judged for committed headers (a = acc after it)
Judged(a)   == {i \in 1..Len(e.gets) : e.gets[i].b \in Range(a) \cup {0}}
GKey(a, i)  == <<a, -(e.gets[i].b + 1)>>
GAns(i)     == <<e.gets[i].found, e.gets[i].kv>>
GetsAgree(o, a) == \A i \in Judged(a) : GKey(a, i) \in DOMAIN o => o[GKey(a, i)] = GAns(i)
GetsNote(o, a)  == LET new == {i \in Judged(a) : GKey(a, i) \notin DOMAIN o}
                   IN IF new = {} THEN o
                      ELSE o @@ [k \in {GKey(a, i) : i \in new} |-> GAns(CHOOSE i \in new : GKey(a, i) = k)]

TScenario == Is("Scenario") /\ acc' = <<>> /\ obs' = <<>>
TFresh    == /\ Is("Fresh") /\ e.ok
             /\ LET key == <<<<>>, 0>> ans == <<TRUE, e.root>>
                    o1 == Note(key, ans)
                IN Agrees(key, ans) /\ GetsAgree(o1, <<>>) /\ obs' = GetsNote(o1, <<>>)
             /\ acc' = <<>>
TImport   == /\ Is("Import")
             /\ (e.ok <=> e.root # 0)
             /\ LET key == <<acc, e.x>> ans == <<e.ok, e.root, e.panic>>
                    a2 == IF e.ok THEN Append(acc, e.x) ELSE acc
                    o1 == Note(key, ans)
                IN Agrees(key, ans) /\ GetsAgree(o1, a2) /\ obs' = GetsNote(o1, a2) /\ acc' = a2

TraceInit == l = 1 /\ acc = <<>> /\ obs = <<>>
TraceNext == TScenario \/ TFresh \/ TImport
TraceSpec == TraceInit /\ [][TraceNext]_<<acc, obs, l>>

Report == (l = Len(Trace) + 1) => JsonSerialize(ResultFile, [n |-> l - 1, devs |-> <<>>, bad |-> <<>>])
=============================================================================

--------------------------- MODULE StateCache_Gen ---------------------------
(* G-step for C16.  The cache is the only state and every cache state with at most *)
(* Cap entries is reached by computing a root over exactly those entries from an   *)
(* empty cache, so every (state, ComputeRoot argument) pair of MC_StateCache is     *)
(* covered by the two-step scripts  Clear; Compute(E1); Compute(E2)  over all E1,  *)
(* E2 (E1 with more than Cap entries also exercises the clear-in-the-middle path). *)
EXTENDS Bytes, Json, TLC, SequencesExt, FiniteSets
CONSTANTS OutFile, Tier, Seed
VARIABLE x

\* keys 1 and 2 share a 6-bit prefix; key 3 is in the other half of the trie
KeyBytes(k) == IF k = 1 THEN <<0>> \o Zeros(30) ELSE IF k = 2 THEN <<2>> \o Zeros(30) ELSE <<128>> \o Zeros(30)
\* empty, two short values of equal length, exactly 32 bytes, two long values (hashed leaf),
\* the 32-byte value being a prefix of a long one
ValBytes(v) == CASE v = "z" -> <<>> [] v = "a" -> <<1, 2, 3>> [] v = "b" -> <<1, 2, 4>>
                 [] v = "e" -> Rep(17, 32) [] v = "c" -> Rep(17, 33) [] v = "d" -> Rep(34, 33)
GKeys == {1, 2, 3}
GVals == {"z", "a", "b", "e", "c", "d"}
EntryMaps == UNION {[S -> GVals] : S \in SUBSET GKeys}
AsList(e) == LET ks == SetToSortSeq(DOMAIN e, LAMBDA a, b : a < b)
             IN [i \in 1..Len(ks) |-> [k |-> KeyBytes(ks[i]), v |-> ValBytes(e[ks[i]])]]
Script(e1, e2) == <<[ev |-> "Clear"], [ev |-> "Compute", entries |-> AsList(e1)], [ev |-> "Compute", entries |-> AsList(e2)]>>
All == {Script(e1, e2) : e1 \in EntryMaps, e2 \in EntryMaps}
Pick(S, n) == LET q == SetToSeq(S) IN {q[i] : i \in {j \in 1..Len(q) : (j + Seed) % n = 0}}
Cases == IF Tier = "thorough" THEN All ELSE Pick(All, 12)
ASSUME ndJsonSerialize(OutFile, SetToSeq({[script |-> c] : c \in Cases}))
GenInit == x = 0
GenNext == FALSE /\ x' = x
=============================================================================

------------------------------ MODULE CE_Trace ------------------------------
(* V-step for the handler part of X09 (the message-codec part is judged by          *)
(* Codec_Trace over the CE types).  Stateless; the trace is judged in one ASSUME.   *)
(*                                                                                  *)
(*  ce128 {blocks, genesis, h, dir, max, ok, resp, wellframed}                      *)
(*        dir 1: ok and resp = Desc; dir 0: ok and AscOk(resp); other: refused and  *)
(*        nothing sent.  Every response message must be the encoding of a stored    *)
(*        block (the driver reports -1 otherwise).                                  *)
(*  ce2   {ty, frames, ok, stored}  accepted iff message 1 and message 2 are        *)
(*        exactly the encodings of the announcement's parts; if accepted, what was  *)
(*        stored is message 1 ++ message 2.                                         *)
(*  frame {ty, hdr, body, ok, alloc, inlen}  a frame announcing more than follows   *)
(*        is refused; in every case alloc <= FrameK + 4096 * inlen.                 *)
(*  ce129 {kvs, bns, ok, resp}  the two response messages are the encodings of the   *)
(*        store's boundary nodes and key/value pairs.                               *)
(*  lookup {ty, known, stored|report, ok, resp}  CE136 / CE143 / CE147.             *)
(*  every record: no Go panic, no process death ("crash").                          *)
EXTENDS CEHandlers, Json, SequencesExt
CONSTANTS TraceFile, ResultFile, KnownDeviations, FrameK
VARIABLES l, devs, bad

HasField(e, f) == f \in DOMAIN e
StoreOf(e) == {[id |-> t[1], parent |-> t[2], slot |-> t[3]] : t \in {e.blocks[i] : i \in 1..Len(e.blocks)}}

Judge128(e) ==
  LET S == StoreOf(e)
      n == Capped(e.max, Cardinality(S) + 1) IN
  IF e.dir \notin {0, 1} THEN (IF e.ok \/ Len(e.resp) > 0 THEN {"ce128_bad_direction_served"} ELSE {})
  ELSE IF ~e.ok THEN {"ce128_refused"}
  ELSE IF ~e.wellframed \/ \E i \in 1..Len(e.resp) : e.resp[i] < 0 THEN {"ce128_response_not_blocks"}
  ELSE IF e.dir = 1 THEN (IF e.resp = Desc(S, e.genesis, e.h, n) THEN {} ELSE {"ce128_descending"})
  ELSE (IF AscOk(S, e.h, n, e.resp) THEN {} ELSE {"ce128_ascending"})

ExactOk(ty, m) == LET d == Dec(ty, m) IN d.ok /\ d.used = Len(m)
Want2(e) ==
  IF e.ty = "CE144" THEN
    LET d1 == Dec(CE144Msg1T, e.frames[1]) IN
    Len(e.frames) = 2 /\ d1.ok /\ d1.used = Len(e.frames[1]) /\ ExactOk(DepType(CE144T, d1.v), e.frames[2])
  ELSE
    LET d1 == Dec(Struct(CE145HeadFields), e.frames[1]) IN
    d1.ok /\ d1.used = Len(e.frames[1])
    /\ (IF d1.v[3] = <<0>> THEN Len(e.frames) = 2 /\ ExactOk(CE145GuaranteeT, e.frames[2]) ELSE Len(e.frames) = 1)
Judge2(e) ==
  (IF e.ok # Want2(e) THEN {IF e.ok THEN "announcement_accepts_invalid" ELSE "announcement_rejects_valid"} ELSE {})
  \cup (IF e.ok /\ Want2(e) /\ e.stored # FlattenSeq(e.frames) THEN {"announcement_stored_differs"} ELSE {})

Announced(hdr) == hdr[1] + 256 * hdr[2] + 65536 * hdr[3]          \* low 24 bits
JudgeFrame(e) ==
  (IF (e.hdr[4] # 0 \/ Announced(e.hdr) > Len(e.body)) /\ e.ok THEN {"short_frame_accepted"} ELSE {})
  \cup (IF CmpNumLE(e.alloc, LE(FrameK + 4096 * e.inlen, 8)) > 0 THEN {"frame_allocation_unbounded"} ELSE {})

\* CE129: message 1 = the boundary nodes, message 2 = the key/value pairs, each the concatenation of the items' encodings
Judge129(e) ==
  IF ~e.ok \/ Len(e.resp) # 2 THEN {"ce129_no_answer"}
  ELSE (IF e.resp[2] # FlattenSeq([i \in 1..Len(e.kvs) |-> EncC(StateKeyValT, <<e.kvs[i].k, e.kvs[i].v>>)]) THEN {"ce129_key_values"} ELSE {})
       \cup (IF e.resp[1] # FlattenSeq([i \in 1..Len(e.bns) |-> Enc(BoundaryNodeT, e.bns[i])]) THEN {"ce129_boundary_nodes"} ELSE {})
\* lookups: a known hash is answered with exactly the stored item in one message, an unknown one is refused with nothing sent
JudgeLookup(e) ==
  IF e.ok # e.known THEN {"lookup_verdict"}
  ELSE IF ~e.known THEN (IF Len(e.resp) > 0 THEN {"lookup_answered_unknown"} ELSE {})
  ELSE IF e.resp # <<(IF e.ty = "CE136Req" THEN Enc(WorkReportT, e.report) ELSE e.stored)>> THEN {"lookup_answer"} ELSE {}

Judge(e) ==
  IF HasField(e, "crash") THEN {"process_died"}
  ELSE IF e.panic # "" THEN {"panic"}
  ELSE IF e.op = "ce128" THEN Judge128(e)
  ELSE IF e.op = "ce2" THEN Judge2(e)
  ELSE IF e.op = "frame" THEN JudgeFrame(e)
  ELSE IF e.op = "ce129" THEN Judge129(e)
  ELSE IF e.op = "lookup" THEN JudgeLookup(e)
  ELSE {}

Slug(e, y) == y \o ":" \o (IF HasField(e, "ty") THEN e.ty ELSE "CE128")
BadOf(T, i) == {[l |-> i, why |-> Slug(T[i], y)] : y \in Judge(T[i])}
Result(T) == [n |-> Len(T), devs |-> <<>>, bad |-> SetToSeq(UNION {BadOf(T, i) : i \in 1..Len(T)})]
ASSUME \A T \in {ndJsonDeserialize(TraceFile)} : JsonSerialize(ResultFile, Result(T))

Init == l = 0 /\ devs = {} /\ bad = {}
Next == FALSE /\ UNCHANGED <<l, devs, bad>>
TraceSpec == Init /\ [][Next]_<<l, devs, bad>>
Report == TRUE
=============================================================================

-------------------------- MODULE ChainStore_Trace --------------------------
(* V-step for X07: what a real ChainState (internal/blockchain over internal/store  *)
(* over a memory or Pebble database) answered must be what the "spec" design of     *)
(* ChainStore allows.                                                               *)
(*                                                                                  *)
(* Events (harness/chainstore), one scenario after another:                         *)
(*   Scenario n parent slots fuzz provider ...                                      *)
(*   Open | add x | commit x f failed | restore x ok | restart      each with       *)
(*     gets[x+1] = [sfound kv rfound root bfound blk parent slot] for x = 0..n and   *)
(*                 for x = n+1, a header hash nobody ever stored                     *)
(*     prior = the block whose posterior state the working prior state equals       *)
(*             (-1 / -2: none of them),  tip = last block of the block list (-1 none)*)
(* kv = x means: exactly the key-values the builder knows as block x's posterior     *)
(* state; root and blk likewise.                                                    *)
(*                                                                                  *)
(* Model state: must  = headers whose state and block have to be readable (committed *)
(*                      successfully, inside the retention window, survived restarts)*)
(*              ever  = headers ever handed to a commit on this database             *)
(*              ents  = committed entries (fuzz-mode pruning keeps the last Retain)  *)
(*              head  = the block the working state belongs to (-1 none)             *)
(*              tipv  = last block of the block list (-1 none)                       *)
(*              addo  = headers stored by AddBlock only (as ImportBlock does before  *)
(*                      the STF runs): their block must be readable, a state must    *)
(*                      not appear, and RestoreBlockAndState of them must fail       *)
(* Judgement after every event:                                                      *)
(*   - x in must: state, state root and block are found and are x's; block carries   *)
(*     x's parent and slot (ReadYourCommit, parent relation)                         *)
(*   - anything found is the right thing and belongs to `ever` (NoPhantom); the      *)
(*     unknown hash is never found                                                   *)
(*   - a visible state has a visible block (StateHasBlock)                           *)
(*   - restore x succeeds iff x is readable, then prior = tip = x; a failed restore  *)
(*     changes neither (RestoreExact)                                                *)
(*   - after a commit the working state is x and x is readable (HeadPersisted)       *)
(*   - a commit during which a database write failed is all-or-nothing: either it    *)
(*     looks exactly like a successful commit, or nothing but the block mapping of x *)
(*     changed and the working state did not move.  The scenario ends there.         *)
(* Pruned entries (beyond the last Retain commits in fuzz mode) may or may not be    *)
(* readable; the genesis (committed through StateCommit) is never pruned.            *)
(* Deviation_commit_swallows_write_error (only if that slug is a known open finding):*)
(* after a commit with a failed write, header x itself may be in any state and the   *)
(* working state may have moved to x; everything else is judged as usual.            *)
EXTENDS Integers, Sequences, SequencesExt, FiniteSets, TLC, Json
CONSTANTS TraceFile, ResultFile, KnownDeviations, Retain
VARIABLES must, ever, ents, head, tipv, addo, w, dead, devs, l

Trace == ndJsonDeserialize(TraceFile)
e == Trace[l]
Is(name) == l <= Len(Trace) /\ e.ev = name /\ l' = l + 1
vars == <<must, ever, ents, head, tipv, addo, w, dead, devs, l>>

Pruned(es) == IF Len(es) <= Retain THEN <<>> ELSE SubSeq(es, 1, Len(es) - Retain)
Kept(es)   == IF Len(es) <= Retain THEN es ELSE SubSeq(es, Len(es) - Retain + 1, Len(es))

Par(x) == IF x = 0 THEN -1 ELSE w.parent[x]
G(x) == e.gets[x + 1]
\* everything a read may return must be the truth about that header
Truthful(x, ev) ==
    LET g == G(x) IN
    /\ (g.sfound => (x \in ev /\ g.kv = x))
    /\ (g.rfound => (x \in ev /\ g.root = x))
    /\ (g.bfound => (x \in ev /\ g.blk = x /\ g.parent = Par(x) /\ g.slot = w.slots[x + 1]))
    /\ (g.sfound => g.bfound /\ g.rfound)
Readable(x) == LET g == G(x) IN g.sfound /\ g.rfound /\ g.bfound
Unknown == LET g == G(w.n + 1) IN ~g.sfound /\ ~g.rfound /\ ~g.bfound
\* the whole observation, with header `free` (or -9 for none) exempt
Obs4(mu, ev, free, ad) ==
    /\ Unknown
    /\ \A x \in 0..w.n : x = free \/ (Truthful(x, ev) /\ (x \in mu => Readable(x)))
    /\ \A x \in ad \ mu : x = free \/ (G(x).bfound /\ ~G(x).sfound)
Obs(mu, ev, free) == Obs4(mu, ev, free, addo)

TScenario == /\ Is("Scenario") /\ e.built
             /\ w' = [n |-> e.n, parent |-> e.parent, slots |-> e.slots, fuzz |-> e.fuzz = 1]
             /\ must' = {} /\ ever' = {} /\ ents' = <<>> /\ head' = -1 /\ tipv' = -1 /\ addo' = {} /\ dead' = FALSE /\ UNCHANGED devs
TOpen == /\ Is("Open") /\ ~dead /\ Obs({}, {}, -9) /\ e.tip = -1 /\ e.prior < 0
         /\ UNCHANGED <<must, ever, ents, head, tipv, addo, w, dead, devs>>
\* AddBlock alone: the block is stored and becomes the tip; no state, working state untouched
TAdd == /\ Is("add") /\ ~dead /\ ~e.panic
        /\ addo' = IF e.x \in must THEN addo ELSE addo \cup {e.x}
        /\ ever' = ever \cup {e.x}
        /\ Unknown /\ \A x \in 0..w.n : Truthful(x, ever') /\ (x \in must => Readable(x))
        /\ \A x \in addo' \ must : G(x).bfound /\ ~G(x).sfound
        /\ e.tip = e.x /\ tipv' = e.x
        /\ (head # -1 => e.prior = head) /\ (head = -1 => e.prior < 0)
        /\ UNCHANGED <<must, ents, head, w, dead, devs>>

\* what a successful commit of x leads to
AfterMust(x) == LET es == IF w.fuzz /\ x > 0 THEN Append(ents, x) ELSE ents
                IN IF w.fuzz THEN (must \cup {x}) \cap (Range(Kept(es)) \cup {0}) ELSE must \cup {x}
AfterEnts(x) == IF w.fuzz /\ x > 0 THEN Kept(Append(ents, x)) ELSE ents
Success(x) == Obs4(AfterMust(x), ever \cup {x}, -9, addo \ {x}) /\ e.prior = x /\ e.tip = x

TCommit == /\ Is("commit") /\ ~dead /\ ~e.panic /\ ~e.failed
           /\ Success(e.x)
           /\ must' = AfterMust(e.x) /\ ents' = AfterEnts(e.x) /\ ever' = ever \cup {e.x} /\ head' = e.x
           /\ tipv' = e.x /\ addo' = addo \ {e.x}
           /\ UNCHANGED <<w, dead, devs>>
\* a write failed: all or nothing
AllOrNothing ==
    \/ Success(e.x)
    \/ /\ Obs(must \ {e.x}, ever \cup {e.x}, -9)            \* at most x's block mapping is new
       /\ (e.x \notin must => ~G(e.x).sfound)
       /\ (head # -1 => e.prior = head) /\ (head = -1 => e.prior < 0)
TCommitFailed ==
    /\ Is("commit") /\ ~dead /\ ~e.panic /\ e.failed /\ AllOrNothing
    /\ dead' = TRUE /\ UNCHANGED <<must, ever, ents, head, tipv, addo, w, devs>>
Deviation_commit_swallows_write_error ==
    /\ "commit-swallows-write-error" \in KnownDeviations
    /\ Is("commit") /\ ~dead /\ ~e.panic /\ e.failed /\ ~AllOrNothing
    /\ Obs(must \ {e.x}, ever \cup {e.x}, e.x)
    /\ e.prior \in {e.x, head} \cup {-1, -2}
    /\ dead' = TRUE /\ devs' = devs \cup {"commit-swallows-write-error"}
    /\ UNCHANGED <<must, ever, ents, head, tipv, addo, w>>

TRestore == /\ Is("restore") /\ ~dead /\ ~e.panic
            /\ Obs(must, ever, -9)
            /\ IF e.x <= w.n /\ Readable(e.x)
               THEN e.ok /\ e.prior = e.x /\ e.tip = e.x /\ head' = e.x /\ tipv' = e.x
               ELSE ~e.ok /\ (head # -1 => e.prior = head) /\ e.tip = tipv /\ head' = head /\ tipv' = tipv
            /\ UNCHANGED <<must, ever, ents, addo, w, dead, devs>>

TRestart == /\ Is("restart") /\ ~dead /\ ~e.panic
            /\ LET mu == IF w.fuzz THEN {} ELSE must
                   ev == IF w.fuzz THEN {} ELSE ever
               IN Obs4(mu, ev, -9, IF w.fuzz THEN {} ELSE addo) /\ must' = mu /\ ever' = ev
            /\ e.tip = -1 /\ e.prior < 0
            /\ ents' = <<>> /\ head' = -1 /\ tipv' = -1
            /\ addo' = IF w.fuzz THEN {} ELSE addo
            /\ UNCHANGED <<w, dead, devs>>

TraceInit == /\ l = 1 /\ must = {} /\ ever = {} /\ ents = <<>> /\ head = -1 /\ tipv = -1 /\ addo = {} /\ dead = FALSE /\ devs = {}
             /\ w = [n |-> 0, parent |-> <<>>, slots |-> <<0>>, fuzz |-> TRUE]
TraceNext == TScenario \/ TOpen \/ TAdd \/ TCommit \/ TCommitFailed \/ Deviation_commit_swallows_write_error \/ TRestore \/ TRestart
TraceSpec == TraceInit /\ [][TraceNext]_vars

Report == (l = Len(Trace) + 1) =>
            JsonSerialize(ResultFile, [n |-> l - 1, devs |-> SetToSeq(devs), bad |-> <<>>])
=============================================================================

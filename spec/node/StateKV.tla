------------------------------- MODULE StateKV -------------------------------
(* State export / import (Gray Paper D.1, D.2 and the node's import of a key-value   *)
(* snapshot).  Property C17.                                                         *)
(*                                                                                   *)
(* Export  T(sigma): the 16 components under C(i); for every service s its info under *)
(*   C(255,s), every storage item under C(s, E4(2^32-1) ++ k), every preimage p under *)
(*   C(s, E4(2^32-2) ++ H(p)), every lookup item ((h,l) -> t) under C(s, E4(l) ++ h). *)
(* Import  classifies every key-value of a snapshot:                                 *)
(*   component    key = C(i), i in 1..16                                             *)
(*   service info key has the C(255,s) pattern                                       *)
(*   preimage     key = C(s, E4(2^32-2) ++ H(v)) with s read from the key            *)
(*   lookup       key = C(s, E4(|p|) ++ H(p)) for a PARSED preimage p of the same s  *)
(*   raw          everything else (storage items - their keys cannot be inverted -   *)
(*                and lookup items without a matching preimage)                      *)
(* The classification is a function of the SET of key-values (the order in which a   *)
(* snapshot lists them cannot matter); ImportSeq is the two-phase sequential shape   *)
(* the node uses and is shown equal to it for every permutation (MC_StateKV).        *)
(*                                                                                   *)
(* The hash is a parameter H(_): BLAKE2b-256 through an oracle table in the trace    *)
(* module (DESIGN.md 3.3), an injective toy function in the model check.             *)
(* Component values and the fields of a service info are opaque byte strings here    *)
(* (their codecs are property C11); only the delta_1 field layout                    *)
(*   E1(0) ++ c ++ E8(b,g,m,o,f) ++ E4(i,r,a,p)      (89 octets)                     *)
(* and the lookup value  E(|t|) ++ E4(t_1) ++ ...  are spelled out.                  *)
EXTENDS Bytes, SequencesExt, TLC

CONSTANT H(_)

\* ---- D.1 key constructors (1-based positions; a key has 31 entries) ----
KeyC1(i)    == <<i>> \o Zeros(30)
KeyC2(i, s) == <<i, s[1], 0, s[2], 0, s[3], 0, s[4]>> \o Zeros(23)
Weave(s, a) == <<s[1], a[1], s[2], a[2], s[3], a[3], s[4], a[4]>> \o Sub(a, 5, 27)
\* TLCEval: TLC evaluates lazily and would recompute the hash for every entry of the key
KeyC3(s, h) == LET a == TLCEval(H(h)) IN Weave(s, a)

PfxStorage  == <<255, 255, 255, 255>>      \* E4(2^32-1)
PfxPreimage == <<254, 255, 255, 255>>      \* E4(2^32-2)
StorageKey(s, k)    == KeyC3(s, PfxStorage \o k)
PreimageKey(s, ph)  == KeyC3(s, PfxPreimage \o ph)
LookupKey(s, ph, l) == KeyC3(s, l \o ph)    \* l = E4(length)

\* ---- value encodings ----
InfoFields == <<"c", "b", "g", "m", "o", "f", "i", "r", "a", "p">>
InfoVal(x) == <<0>> \o x.c \o x.b \o x.g \o x.m \o x.o \o x.f \o x.i \o x.r \o x.a \o x.p
InfoOf(v) == [c |-> Sub(v, 2, 33), b |-> Sub(v, 34, 41), g |-> Sub(v, 42, 49), m |-> Sub(v, 50, 57), o |-> Sub(v, 58, 65),
              f |-> Sub(v, 66, 73), i |-> Sub(v, 74, 77), r |-> Sub(v, 78, 81), a |-> Sub(v, 82, 85), p |-> Sub(v, 86, 89)]
\* a sequence of at most 127 time slots (4 octets each)
LookupVal(t) == <<Len(t)>> \o FlattenSeq(t)
SlotsOf(v) == [j \in 1..((Len(v) - 1) \div 4) |-> Sub(v, 4 * j - 2, 4 * j + 1)]
LookupValOk(v) == Len(v) >= 1 /\ v[1] < 128 /\ Len(v) = 1 + 4 * v[1]

\* ---- export ----
\* st = [comp : 1..16 -> value, svc : set of [id, info (value), storage {[k,v]}, pre {p}, look {[h,l,t]}]]
ExportSvc(a) == TLCEval(
    {[k |-> KeyC2(255, a.id), v |-> a.info]}
    \cup {[k |-> StorageKey(a.id, e.k), v |-> e.v] : e \in a.storage}
    \cup {[k |-> PreimageKey(a.id, H(p)), v |-> p] : p \in a.pre}
    \cup {[k |-> LookupKey(a.id, e.h, e.l), v |-> LookupVal(e.t)] : e \in a.look})
Export(st) == TLCEval({[k |-> KeyC1(i), v |-> st.comp[i]] : i \in 1..16} \cup UNION {ExportSvc(a) : a \in st.svc})

\* ---- import classification of a set E of key-values with pairwise distinct keys ----
IsCompKey(k) == k[1] \in 1..16 /\ \A j \in 2..31 : k[j] = 0         \* k = KeyC1(k[1])
CompIdx(k)   == k[1]
IsInfoKey(k) == k[1] = 255 /\ \A j \in 2..31 : (j \notin {2, 4, 6, 8}) => k[j] = 0
Sid2(k) == <<k[2], k[4], k[6], k[8]>>
Sid3(k) == <<k[1], k[3], k[5], k[7]>>
IsSvcKey(k) == ~IsCompKey(k) /\ ~IsInfoKey(k)

IsPreimageKV(e) == IsSvcKey(e.k) /\ e.k = PreimageKey(Sid3(e.k), H(e.v))
LookupKeyFor(p) == LookupKey(Sid3(p.k), H(p.v), LE(Len(p.v), 4))     \* p: a preimage key-value
\* one evaluation of the whole classification (TLC evaluates a LET definition once)
Classify(E) ==
  LET svc == TLCEval({e \in E : IsSvcKey(e.k)})
      pre == TLCEval({e \in svc : IsPreimageKV(e)})
      lks == TLCEval({LookupKeyFor(p) : p \in pre})
  IN [comp |-> TLCEval({e \in E : IsCompKey(e.k)}),
      info |-> TLCEval({e \in E : ~IsCompKey(e.k) /\ IsInfoKey(e.k)}),
      pre  |-> pre,
      look |-> TLCEval({e \in svc \ pre : e.k \in lks}),
      raw  |-> TLCEval({e \in svc \ pre : e.k \notin lks})]
PreimageKVs(E) == Classify(E).pre
LookupKVs(E)   == Classify(E).look
Raw(E)         == Classify(E).raw

\* the lookup item (h, l, t) that a lookup key-value stands for, given the parsed preimages
LookupOf(e, pre) == LET p == CHOOSE q \in pre : e.k = LookupKeyFor(q)
                    IN [h |-> H(p.v), l |-> LE(Len(p.v), 4), t |-> SlotsOf(e.v)]

ImportC(c) ==
  [comp |-> [i \in {CompIdx(e.k) : e \in c.comp} |-> (CHOOSE e \in c.comp : e.k = KeyC1(i)).v],
   svc  |-> TLCEval({[id |-> Sid2(e.k), info |-> e.v,
              storage |-> {},
              pre  |-> {p.v : p \in {q \in c.pre : Sid3(q.k) = Sid2(e.k)}},
              look |-> {LookupOf(x, c.pre) : x \in {y \in c.look : Sid3(y.k) = Sid2(e.k)}}]
             : e \in c.info})]
Import(E) == ImportC(Classify(E))

\* re-export of what was parsed (the parsed state has exactly the components that were present)
ExportParsed(ps) == TLCEval({[k |-> KeyC1(i), v |-> ps.comp[i]] : i \in DOMAIN ps.comp} \cup UNION {ExportSvc(a) : a \in ps.svc})

\* every attributed service entry belongs to a service whose info is present, lookup values are canonical
WellFormedKVs(E) ==
  LET c == Classify(E)
  IN /\ Cardinality({e.k : e \in E}) = Cardinality(E)               \* pairwise distinct keys
     /\ \A e \in c.pre \cup c.look : \E x \in c.info : x.k = KeyC2(255, Sid3(e.k))
     /\ \A e \in c.look : LookupValOk(e.v)

\* ---- the property ----
RoundTrip(E) == LET c == Classify(E) IN ExportParsed(ImportC(c)) \cup c.raw = E
RawDisjoint(E) == LET c == Classify(E) IN ExportParsed(ImportC(c)) \cap c.raw = {}

\* ---- sequential, two-phase shape of the import (what the node does with a LIST) ----
\* phase 1 walks the list: components, infos and preimages are attributed, the rest is parked;
\* phase 2 walks the parsed preimages and pulls their lookup items out of the parked entries.
RECURSIVE Phase1(_, _, _)
Phase1(seq, attributed, parked) ==
  IF seq = <<>> THEN [att |-> attributed, parked |-> parked]
  ELSE LET e == Head(seq)
       IN IF IsCompKey(e.k) \/ IsInfoKey(e.k) \/ IsPreimageKV(e)
          THEN Phase1(Tail(seq), attributed \cup {e}, parked)
          ELSE Phase1(Tail(seq), attributed, parked \cup {e})
ImportSeqRaw(seq) ==
  LET r == Phase1(seq, {}, {})
      pre == {e \in r.att : ~IsCompKey(e.k) /\ ~IsInfoKey(e.k)}
      lks == TLCEval({LookupKeyFor(p) : p \in pre})
  IN {e \in r.parked : e.k \notin lks}
\* one-pass variant that decides a lookup item when it meets it (wrong: depends on the order)
RECURSIVE OnePassRaw(_, _, _)
OnePassRaw(seq, pre, raw) ==
  IF seq = <<>> THEN raw
  ELSE LET e == Head(seq)
       IN IF IsCompKey(e.k) \/ IsInfoKey(e.k) THEN OnePassRaw(Tail(seq), pre, raw)
          ELSE IF IsPreimageKV(e) THEN OnePassRaw(Tail(seq), pre \cup {e}, raw)
          ELSE IF e.k \in {LookupKeyFor(p) : p \in pre} THEN OnePassRaw(Tail(seq), pre, raw)
          ELSE OnePassRaw(Tail(seq), pre, raw \cup {e})
=============================================================================

--------------------------- MODULE ChainStore_Gen ---------------------------
(* G-step for X07: scripts over the actions of ChainStore - commit of block x (0 =   *)
(* genesis), AddBlock of x alone (what ImportBlock does before the STF), restore of header x (N+1 = a hash nobody stored), restart - of up to    *)
(* MaxLen steps after the genesis commit, sampled 1-in-Keep; and the same scripts     *)
(* followed by one commit during which the f-th database write fails (sampled         *)
(* 1-in-KeepF).  checks/x07.py adds the block tree, the block recipes, the provider   *)
(* and the mode, and the long scripts that cross the retention window of 24 commits.  *)
EXTENDS Integers, Sequences, SequencesExt, FiniteSets, TLC, Json
CONSTANTS N, MaxLen, Seed, Keep, KeepF, MaxWrite, OutFile
VARIABLE x

Op(o, b, f) == [op |-> o, x |-> b, f |-> f]
Alphabet == {Op("commit", b, 0) : b \in 0..N} \cup {Op("add", b, 0) : b \in 1..N} \cup {Op("restore", b, 0) : b \in 0..N + 1} \cup {Op("restart", 0, 0)}
Seqs == UNION {[1..k -> Alphabet] : k \in 0..MaxLen}
All == SetToSeq(Seqs)
Idx == [i \in 1..Len(All) |-> [s |-> All[i], i |-> i]]
Plain == SelectSeq(Idx, LAMBDA e : (e.i + Seed) % Keep = 0)
Failing == SelectSeq(Idx, LAMBDA e : Len(e.s) < MaxLen /\ (e.i + Seed) % KeepF = 0)
C0 == <<Op("commit", 0, 0)>>
Cases == [i \in 1..Len(Plain) |-> [ops |-> C0 \o Plain[i].s]]
         \o [i \in 1..Len(Failing) |->
               [ops |-> C0 \o Failing[i].s \o <<Op("commit", (Failing[i].i + i) % (N + 1), 1 + ((Failing[i].i + 3 * i) % MaxWrite))>>]]
ASSUME ndJsonSerialize(OutFile, Cases)
GenInit == x = 0
GenNext == FALSE /\ x' = x
=============================================================================

------------------------------- MODULE CE_Gen -------------------------------
(* G-step for the handler part of X09: CE128 requests on the stores of CEHandlers,  *)
(* CE144 / CE145 two-message streams (valid announcements from the bounded value    *)
(* generator, and the same with one byte appended to / removed from either          *)
(* message), frames whose length header is chosen by the peer, CE129 state answers  *)
(* to be framed and CE136 / CE143 / CE147 lookups of known and unknown hashes.       *)
EXTENDS CEHandlers, CodecMut, Json, SequencesExt
CONSTANTS OutFile
VARIABLE x

Maxes == {<<0, 0, 0, 0>>, <<1, 0, 0, 0>>, <<2, 0, 0, 0>>, <<3, 0, 0, 0>>, <<5, 0, 0, 0>>, <<100, 0, 0, 0>>, <<255, 255, 255, 255>>}
CE128Cases ==
  UNION {{[op |-> "ce128", blocks |-> SetToSeq({<<b.id, b.parent, b.slot>> : b \in S}), genesis |-> 1, h |-> h, dir |-> d, max |-> m]
          : h \in {b.id : b \in S} \cup {0, 99}, d \in {0, 1, 2}, m \in Maxes} : S \in Stores}

\* split the encoding of an announcement value into its two messages
Msg1Of144(v) == EncC(CE144Msg1T, SubSeq(v, 1, 3))
Msg2Of144(v) == EncC(DepType(CE144T, v), v[4])
Msg1Of145(v) == EncFieldsRange(CE145HeadFields, v, 1, 5)
Msg2Of145(v) == EncC(DepType(CE145T, v), v[6])
Variants(m1, m2) == {<<"valid", m1, m2>>, <<"m1_trail", m1 \o <<0>>, m2>>, <<"m2_trail", m1, m2 \o <<0>>>>,
                     <<"m1_short", SubSeq(m1, 1, Len(m1) - 1), m2>>}
                    \cup (IF Len(m2) > 0 THEN {<<"m2_short", m1, SubSeq(m2, 1, Len(m2) - 1)>>} ELSE {})
CE2Cases ==
  UNION {{[op |-> "ce2", ty |-> "CE144", cls |-> t[1], frames |-> <<t[2], t[3]>>] : t \in Variants(Msg1Of144(v), Msg2Of144(v))} : v \in Vals(CE144T)}
  \cup UNION {{[op |-> "ce2", ty |-> "CE145", cls |-> t[1], frames |-> (IF v[3] = <<0>> \/ t[1] \in {"m2_trail"} THEN <<t[2], t[3]>> ELSE <<t[2]>>)]
               : t \in Variants(Msg1Of145(v), Msg2Of145(v))} : v \in Vals(CE145T)}

Framed == {"CE128Req", "CE129Req", "CE131Req", "CE133Msg1", "CE138Req", "CE139Req", "CE144", "CE145", "CE147Req"}
Hdrs == {<<0, 0, 0, 0>>, <<0, 0, 16, 0>>, <<0, 0, 0, 1>>, <<0, 0, 0, 16>>, <<255, 255, 255, 15>>, <<255, 255, 255, 255>>}   \* 0, 1 MiB, 16 MiB, 256 MiB, 256 MiB - 1, 2^32 - 1
FrameCases == {[op |-> "frame", ty |-> n, hdr |-> h, body |-> b] : n \in Framed, h \in Hdrs, b \in {<<>>, <<1, 2, 3>>}}

\* CE129: the handler frames the store's answer (boundary nodes, then key/value pairs); CE136 / CE143 / CE147: lookups
KV(a, v) == [k |-> Pat(31, a), v |-> v]
CE129Cases == {[op |-> "ce129", kvs |-> s] : s \in {<<>>, <<KV(1, <<>>)>>, <<KV(1, <<1, 2, 3>>), KV(9, Pat(130, 2)), KV(11, <<0>>)>>}}
LookupCases == {[op |-> "lookup", ty |-> t, known |-> b] : t \in {"CE136Req", "CE143Req", "CE147Req"}, b \in BOOLEAN}

ASSUME ndJsonSerialize(OutFile, SetToSeq(CE128Cases \cup CE2Cases \cup FrameCases \cup CE129Cases \cup LookupCases))
GenInit == x = 0
GenNext == FALSE /\ x' = x
=============================================================================

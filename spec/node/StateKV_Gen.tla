---------------------------- MODULE StateKV_Gen ----------------------------
(* G-step for C17: the partition of abstract states the driver must build.  TLC     *)
(* enumerates SHAPES (which entries a service has and how they relate); the driver   *)
(* fills in seeded bytes and a full random 16-component state around them.           *)
(*                                                                                   *)
(* service shape = [idc, st, pre, look]                                              *)
(*   idc   service-id class: zero | one | ff (255) | ff00 | max (2^32-1) |           *)
(*         max1 (2^32-2) | rand | randff (random, first id octet 0xFF)               *)
(*   st    storage items [kc, vc]: key class 0 empty, 1 one octet, 2 32 octets,      *)
(*         3 random 1..40; value class 0 empty, 1 one octet, 2 32, 3 33,             *)
(*         4 random <= 100, 6 260 octets, 7 copy of the service's first preimage    *)
(*   pre   preimage blobs by length class: 0 empty, 1 one octet, 2 32, 3 33,         *)
(*         4 random <= 200, 5 300 octets                                             *)
(*   look  lookup items [tgt, dl, nt]: tgt j >= 1 the service's j-th preimage        *)
(*         (orphan if there is none), 0 an unrelated hash, -1 the first preimage of  *)
(*         the PREVIOUS service (so it has no preimage in its own service);          *)
(*         dl added to the length (1 = wrong length => no match); nt time slots      *)
(* case = [svcs (sequence of shapes), comp (0 random / 1 minimal / 2 rich), core]    *)
EXTENDS Integers, Sequences, FiniteSets, Json, TLC, SequencesExt
CONSTANTS OutFile, Tier
VARIABLE x

IdClasses == <<"one", "ff", "max", "zero", "randff", "max1", "ff00", "rand">>

StShapes == << <<>>,
               <<[kc |-> 1, vc |-> 1]>>,
               <<[kc |-> 0, vc |-> 0], [kc |-> 2, vc |-> 3]>>,
               <<[kc |-> 3, vc |-> 4], [kc |-> 3, vc |-> 7], [kc |-> 1, vc |-> 2]>>,
               <<[kc |-> 3, vc |-> 6]>> >>
PreShapes == << <<>>, <<1>>, <<0>>, <<4, 3>>, <<2, 4, 4>>, <<5>> >>
LookOne == [tgt : {0 - 1, 0, 1, 2}, dl : {0, 1}, nt : 0..3]
\* every single lookup item; matched + its wrong-length twin; two matched; matched + orphan + cross
LookShapes == {<<>>} \cup {<<a>> : a \in LookOne}
              \cup {<<[tgt |-> 1, dl |-> 0, nt |-> n], [tgt |-> 1, dl |-> 1, nt |-> m]>> : n \in {0, 2}, m \in {1, 3}}
              \cup {<<[tgt |-> 1, dl |-> 0, nt |-> 1], [tgt |-> 2, dl |-> 0, nt |-> 3]>>,
                    <<[tgt |-> 2, dl |-> 0, nt |-> 0], [tgt |-> 0, dl |-> 0, nt |-> 2], [tgt |-> 0 - 1, dl |-> 0, nt |-> 1]>>}

Shape(i, s, p, k) == [idc |-> IdClasses[i], st |-> s, pre |-> p, look |-> k]

\* single-service cases: every combination of storage / preimage / lookup shape
Singles == {[svcs |-> <<Shape(((Len(s) + Len(p) + Len(k)) % 8) + 1, s, p, k)>>, comp |-> (Len(s) + Len(k)) % 3, core |-> Len(k) <= 1 /\ Len(s) <= 1]
              : s \in Range(StShapes), p \in Range(PreShapes), k \in LookShapes}

\* multi-service cases: n services, shapes picked with a stride through the shape lists
LookSeq == SetToSeq(LookShapes)
Svc(n, r, i) == Shape(((i + r) % 8) + 1, StShapes[((i * r + n) % Len(StShapes)) + 1], PreShapes[((i + r * n) % Len(PreShapes)) + 1],
                      LookSeq[((i * 7 + r * 3 + n) % Len(LookSeq)) + 1])
Multis == {[svcs |-> [i \in 1..n |-> Svc(n, r, i)], comp |-> r % 3, core |-> r <= 2]
             : n \in 2..8, r \in 1..(IF Tier = "thorough" THEN 40 ELSE 8)}
Empty == {[svcs |-> <<>>, comp |-> c, core |-> TRUE] : c \in 0..2}

Cases == Empty \cup Singles \cup Multis
ASSUME ndJsonSerialize(OutFile, SetToSeq(Cases))
GenInit == x = 0
GenNext == FALSE /\ x' = x
=============================================================================

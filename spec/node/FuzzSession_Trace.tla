-------------------------- MODULE FuzzSession_Trace --------------------------
(* V-step for X10: a recorded conversation between a scripted client and the real   *)
(* FuzzServer.serve loop (over net.Pipe) must be a behaviour of FuzzSession's "spec" *)
(* design.                                                                           *)
(*                                                                                   *)
(* Events (harness/fuzzsession):                                                     *)
(*   Scenario n parent sfeat ...      a fresh process (no node state)                *)
(*   Connect s | End s exited         a connection is opened / is over               *)
(*   Frame s f resp werr              the client sent frame f (see the driver) and   *)
(*                                    read resp: peer feat | root root | state kv n |*)
(*                                    error | closed | none (nothing within the wait)*)
(* Roots / key-value sets are named by the block they truly belong to (0 genesis,    *)
(* -1 empty, -2 something else).                                                     *)
(*                                                                                   *)
(* Model state: phase (fresh/shaken/failed/closed), nego (negotiated feature bits),  *)
(* node = [set, acc, anc]: SetState done?, blocks committed since, ancestry on?      *)
(* (the node outlives connections), obs = notebook (set count, acc, header) -> what  *)
(* GetState answered first.                                                          *)
(* Judgement:                                                                        *)
(*  - fresh: only PeerInfo is served: answered with the target's own features;       *)
(*    nego = client /\ target.  Any other frame: no response (or one Error), the      *)
(*    connection is closed, nothing is executed                                      *)
(*  - shaken/failed: SetState -> StateRoot of the genesis; ImportBlock -> StateRoot   *)
(*    of that block (then it is committed) or Error (node untouched); GetState ->     *)
(*    State with exactly the committed key-values for a committed header, empty State *)
(*    or Error for any other; a second PeerInfo -> PeerInfo again, or closed          *)
(*  - bad frames and client close: closed, nothing executed; after closed: silence    *)
(*  - GetState answers are a function of (set count, acc, header): unchanged across   *)
(*    refused, rejected and malformed requests and across connections                 *)
(*  - ancestry: an ImportBlock marked probe = "old" (a valid fork block older than    *)
(*    the newest committed block) is refused exactly when SetState carried an         *)
(*    ancestry list AND "ancestry" (bit 0) was negotiated                             *)
(*  - when a connection is over the serve loop has returned                           *)
(* Verdicts of other imports are not predicted.  ImportBlock before any SetState is   *)
(* not constrained (Error or closed; the node stays without state).                   *)
EXTENDS Integers, Sequences, SequencesExt, FiniteSets, TLC, Json, Bitwise
CONSTANTS TraceFile, ResultFile, KnownDeviations
VARIABLES phase, nego, node, nset, obs, w, open, devs, l

Trace == ndJsonDeserialize(TraceFile)
e == Trace[l]
Is(name) == l <= Len(Trace) /\ e.ev = name /\ l' = l + 1
vars == <<phase, nego, node, nset, obs, w, open, devs, l>>
NoNode == [set |-> FALSE, acc |-> <<>>, anc |-> FALSE]
Committed == IF node.set THEN {0} \cup ToSet(node.acc) ELSE {}
Live == phase \in {"shaken", "failed"}
AncBit(x) == (x % 2) = 1
Refused == e.resp.k \in {"closed", "error", "none"}      \* nothing that looks like a served request

TScenario == /\ Is("Scenario") /\ e.built
             /\ w' = [n |-> e.n, sfeat |-> e.sfeat]
             /\ node' = NoNode /\ nset' = 0 /\ obs' = <<>> /\ phase' = "closed" /\ nego' = 0 /\ open' = FALSE
             /\ UNCHANGED devs
TConnect == /\ Is("Connect") /\ ~open /\ open' = TRUE /\ phase' = "fresh" /\ nego' = 0
            /\ UNCHANGED <<node, nset, obs, w, devs>>
TEnd == /\ Is("End") /\ open /\ e.exited /\ open' = FALSE /\ phase' = "closed"
        /\ UNCHANGED <<nego, node, nset, obs, w, devs>>

Same == UNCHANGED <<nego, node, nset, obs, w, open, devs>>
\* the target ends the session without executing anything
Ends == Refused /\ phase' = "closed" /\ Same

FPeer == /\ e.f.k = "peer"
         /\ \/ /\ phase = "fresh" /\ e.resp.k = "peer" /\ e.resp.feat = w.sfeat
               /\ phase' = "shaken" /\ nego' = (e.f.feat & w.sfeat)
               /\ UNCHANGED <<node, nset, obs, w, open, devs>>
            \/ /\ Live /\ e.resp.k = "peer" /\ e.resp.feat = w.sfeat /\ phase' = phase /\ Same
            \/ /\ Live /\ Ends
FSet == /\ e.f.k = "set" /\ Live
        /\ e.resp.k = "root" /\ e.resp.root = 0
        /\ node' = [set |-> TRUE, acc |-> <<>>, anc |-> (e.f.anc = 1 /\ AncBit(nego))]
        /\ nset' = nset + 1 /\ phase' = "shaken"
        /\ UNCHANGED <<nego, obs, w, open, devs>>
FImport == /\ e.f.k = "import" /\ Live
           /\ IF ~node.set
              THEN /\ e.resp.k \in {"error", "closed", "none"}
                   /\ phase' = (IF e.resp.k = "error" THEN "failed" ELSE "closed") /\ Same
              ELSE /\ e.resp.k \in {"root", "error"}
                   /\ (e.f.probe = "old" => (e.resp.k = "error" <=> node.anc))
                   /\ IF e.resp.k = "root"
                      THEN /\ e.resp.root = e.f.x
                           /\ node' = [node EXCEPT !.acc = Append(@, e.f.x)] /\ phase' = "shaken"
                      ELSE /\ node' = node /\ phase' = "failed"
                   /\ UNCHANGED <<nego, nset, obs, w, open, devs>>
FGet == /\ e.f.k = "get" /\ Live
        /\ LET key == <<nset, node.acc, e.f.x>>
               ans == IF e.resp.k = "state" THEN e.resp.kv ELSE -9
           IN /\ IF e.f.x \in Committed
                 THEN e.resp.k = "state" /\ e.resp.kv = e.f.x
                 ELSE (e.resp.k = "state" /\ e.resp.n = 0) \/ e.resp.k = "error"
              /\ (key \in DOMAIN obs => obs[key] = ans)
              /\ obs' = IF key \in DOMAIN obs THEN obs ELSE obs @@ (key :> ans)
        /\ phase' = phase /\ UNCHANGED <<nego, node, nset, w, open, devs>>
\* requests before the handshake, bad frames, the client's close
FRefuse == /\ \/ (phase = "fresh" /\ e.f.k \in {"set", "import", "get"})
              \/ (phase # "closed" /\ e.f.k \in {"bad", "eof"})
           /\ Ends
\* the target has closed: whatever the client still sends, nothing comes back
FSilent == phase = "closed" /\ e.resp.k \in {"closed", "none"} /\ phase' = "closed" /\ Same

TFrame == Is("Frame") /\ open /\ (FPeer \/ FSet \/ FImport \/ FGet \/ FRefuse \/ FSilent)

TraceInit == /\ l = 1 /\ phase = "closed" /\ nego = 0 /\ node = NoNode /\ nset = 0 /\ obs = <<>>
             /\ w = [n |-> 0, sfeat |-> 0] /\ open = FALSE /\ devs = {}
TraceNext == TScenario \/ TConnect \/ TEnd \/ TFrame
TraceSpec == TraceInit /\ [][TraceNext]_vars

Report == (l = Len(Trace) + 1) => JsonSerialize(ResultFile, [n |-> l - 1, devs |-> SetToSeq(devs), bad |-> <<>>])
=============================================================================

---------------------------- MODULE StateKV_Root ----------------------------
(* Second G-step for C17: the Gray Paper trie root (spec/crypto/Trie.tla) of a       *)
(* serialised state, as a hash TERM, for the snapshots the driver wrote to InFile.   *)
EXTENDS Trie, Json, TLC, SequencesExt
CONSTANTS InFile, OutFile
VARIABLE x

In == ndJsonDeserialize(InFile)
SetOf(es) == {[k |-> es[i].k, v |-> es[i].v] : i \in 1..Len(es)}
Out == [i \in 1..Len(In) |-> [id |-> In[i].n, want |-> Root(SetOf(In[i].entries))]]

ASSUME \A i \in 1..Len(In) : DistinctKeys(SetOf(In[i].entries))
ASSUME ndJsonSerialize(OutFile, Out)

GenInit == x = 0
GenNext == FALSE /\ x' = x
=============================================================================

--------------------------- MODULE StateKV_Trace ---------------------------
(* V-step for C17.  One record per generated state (harness/statekv):               *)
(*   abs   the abstract state that was built (services with info fields, storage,    *)
(*         preimage blobs, lookup items; the 16 components as opaque tokens)         *)
(*   exp   what StateEncoder returned for it                                         *)
(*   runs  for several orderings of that snapshot: what StateKeyValsToState parsed   *)
(*         (services, raw entries), what StateEncoder returned for the parsed state, *)
(*         and the root of (re-export + raw)                                         *)
(*   kh    the BLAKE2b oracle table {in, out} (DESIGN.md 3.3); a miss is an          *)
(*         infrastructure error, never a verdict                                     *)
(*   want_root  (some records) the root TERM of spec/crypto/Trie.tla over the        *)
(*         snapshot, evaluated with real BLAKE2b                                     *)
(* Every record is judged independently; `bad` collects [l, why].                    *)
(* Demanded (statement of C17): the snapshot is the D.2 serialisation of the state;  *)
(* for every ordering the import succeeds, leaves exactly the entries that cannot be *)
(* attributed (StateKV!Classify) as raw, parses the attributable ones, and           *)
(* re-export + raw = snapshot as sets without duplicates, with the same root.        *)
EXTENDS Bytes, SequencesExt, FiniteSetsExt, Json, TLC
CONSTANTS TraceFile, ResultFile, KnownDeviations
VARIABLES l, devs, bad
Trace == ndJsonDeserialize(TraceFile)

Ran(s) == {s[i] : i \in 1..Len(s)}
Miss == Rep(0 - 1, 32)
Lookup(tab, x) == LET hit == {i \in 1..Len(tab) : tab[i].in = x}
                  IN IF hit = {} THEN Miss ELSE tab[CHOOSE i \in hit : TRUE].out
SK(tab) == INSTANCE StateKV WITH H <- LAMBDA x : Lookup(tab, x)

KVSet(kvs) == TLCEval({[k |-> x.k, v |-> x.v] : x \in Ran(kvs)})

AbsState(e) ==
  [comp |-> [i \in 1..16 |-> e.abs.comp[i]],
   svc  |-> {[id |-> a.id, info |-> SK(e.kh)!InfoVal(a.info),
              storage |-> {[k |-> s.k, v |-> s.v] : s \in Ran(a.storage)},
              pre  |-> {p.v : p \in Ran(a.pre)},
              look |-> {[h |-> x.h, l |-> x.l, t |-> x.t] : x \in Ran(a.look)}] : a \in Ran(e.abs.svc)}]

\* hash inputs the specification needs for this record (two levels)
Queries(e, E) ==
  LET vals == {x.v : x \in {y \in E : SK(e.kh)!IsSvcKey(y.k)}} \cup UNION {{p.v : p \in Ran(a.pre)} : a \in Ran(e.abs.svc)}
      l0 == vals \cup UNION {{SK(e.kh)!PfxStorage \o s.k : s \in Ran(a.storage)} \cup {x.l \o x.h : x \in Ran(a.look)} : a \in Ran(e.abs.svc)}
      l1 == {SK(e.kh)!PfxPreimage \o Lookup(e.kh, v) : v \in vals} \cup {LE(Len(v), 4) \o Lookup(e.kh, v) : v \in vals}
  IN l0 \cup l1

\* what the node parsed, in the specification's terms
ParsedSvc(e, r) ==
  {[id |-> a.id, info |-> SK(e.kh)!InfoVal(a.info), storage |-> {},
    pre |-> {p.v : p \in Ran(a.pre)},
    look |-> {[h |-> x.h, l |-> x.l, t |-> x.t] : x \in Ran(a.look)}] : a \in Ran(r.svc)}
ParsedOk(e, r) == \A a \in Ran(r.svc) : a.nst = 0 /\ \A p \in Ran(a.pre) : p.h = Lookup(e.kh, p.v)

RunWhy(e, r, E, c, want) ==
  IF r.err # "" \/ r.panic # "" \/ r.err2 # "" THEN {"import_failed"}
  ELSE LET raw == KVSet(r.raw)
           re  == KVSet(r.kvs2)
       IN (IF raw # c.raw THEN {"raw_set_differs"} ELSE {})
          \cup (IF ~ParsedOk(e, r) \/ ParsedSvc(e, r) # want.svc THEN {"parsed_services_differ"} ELSE {})
          \cup (IF re \cup raw # E THEN {"round_trip_set_differs"} ELSE {})
          \cup (IF Len(r.kvs2) + Len(r.raw) # Cardinality(E) THEN {"round_trip_duplicates"} ELSE {})
          \cup (IF r.root2 # e.root0 THEN {"root_changes"} ELSE {})

Why(e) ==
  IF e.exp.err # "" \/ e.exp.panic # "" THEN {"export_failed"}
  ELSE
  LET E == KVSet(e.exp.kvs)
  IN IF \E q \in Queries(e, E) : Lookup(e.kh, q) = Miss THEN {"oracle_miss"}
     ELSE
     LET E0 == SK(e.kh)!Export(AbsState(e))
         c == SK(e.kh)!Classify(E)
         want == TLCEval(SK(e.kh)!ImportC(c))
     IN IF ~SK(e.kh)!WellFormedKVs(E0) THEN {"generated_state_not_wellformed"}
        ELSE (IF E # E0 THEN {"export_differs_from_D2"} ELSE {})
             \cup (IF Len(e.exp.kvs) # Cardinality(E) THEN {"export_duplicate_keys"} ELSE {})
             \cup (IF e.root0 # e.rootS THEN {"root_of_state_vs_root_of_serialisation"} ELSE {})
             \cup (IF Len(e.want_root) > 0 /\ e.want_root # e.root0 THEN {"root_differs_from_trie_term"} ELSE {})
             \cup UNION {RunWhy(e, e.runs[i], E, c, want) : i \in 1..Len(e.runs)}

Init == l = 1 /\ devs = {} /\ bad = {}
Next == /\ l <= Len(Trace)
        /\ bad' = bad \cup {[l |-> l, why |-> w] : w \in Why(Trace[l])}
        /\ devs' = devs
        /\ l' = l + 1
TraceSpec == Init /\ [][Next]_<<l, devs, bad>>
Report == (l = Len(Trace) + 1) =>
  JsonSerialize(ResultFile, [n |-> l - 1, devs |-> SetToSeq(devs), bad |-> SetToSeq(bad)])
=============================================================================

---------------------------- MODULE MC_ChainStore ----------------------------
(* Exhaustive check of ChainStore for small bounds (X07); configurations are    *)
(* written by checks/x07.py.                                                     *)
EXTENDS ChainStore
=============================================================================

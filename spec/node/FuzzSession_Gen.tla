-------------------------- MODULE FuzzSession_Gen --------------------------
(* G-step for X10: client scripts over the frame alphabet of FuzzSession - PeerInfo  *)
(* with each of the four feature sets (p0..p3), SetState without / with ancestry     *)
(* (s0, s1), ImportBlock (i), GetState (g), a frame the target must not accept (b),  *)
(* client close (e) and "open a new connection" (n) - all sequences of up to MaxLen  *)
(* symbols, sampled 1-in-Keep.  checks/x10.py picks blocks, headers and the mutation *)
(* class of every b, and adds the feature-negotiation family.                        *)
EXTENDS Integers, Sequences, SequencesExt, FiniteSets, TLC, Json
CONSTANTS MaxLen, Seed, Keep, OutFile
VARIABLE x
Alphabet == {"p0", "p1", "p2", "p3", "s0", "s1", "i", "g", "b", "e", "n"}
Seqs == UNION {[1..k -> Alphabet] : k \in 1..MaxLen}
\* no empty connections: a script does not start or end with n and has no "n n"; nothing after e but n
Ok(s) == /\ s[1] # "n" /\ s[Len(s)] # "n"
         /\ \A j \in 1..(Len(s) - 1) : ~(s[j] = "n" /\ s[j + 1] = "n") /\ (s[j] = "e" => s[j + 1] = "n")
All == SetToSeq({s \in Seqs : Ok(s)})
Kept == SelectSeq([j \in 1..Len(All) |-> [s |-> All[j], j |-> j]], LAMBDA r : (r.j + Seed) % Keep = 0)
ASSUME ndJsonSerialize(OutFile, [j \in 1..Len(Kept) |-> [script |-> Kept[j].s]])
GenInit == x = 0
GenNext == FALSE /\ x' = x
=============================================================================

-------------------------- MODULE MerkleTree_Trace --------------------------
(* V-step for C18.  record = {kind, n, idx, x, h, cmp: [{f, want, got}], verify}     *)
(* want = specification term evaluated with the real hash, got = what the code       *)
(* returned for the same input; verify = result of folding the code's own J_0 with   *)
(* VerifyMerkleProof against the code's M(v) (must hold), -1 when not applicable.     *)
EXTENDS Bytes, Json, TLC, SequencesExt
CONSTANTS TraceFile, ResultFile, KnownDeviations
VARIABLES l, devs, bad
Trace == ndJsonDeserialize(TraceFile)

Mismatch(e) == {e.cmp[i].f : i \in {j \in 1..Len(e.cmp) : e.cmp[j].want # e.cmp[j].got}}
               \cup (IF e.verify = 0 THEN {"VerifyMerkleProof"} ELSE {})

Init == l = 1 /\ devs = {} /\ bad = {}
Next == /\ l <= Len(Trace)
        /\ bad' = bad \cup {[l |-> l, why |-> f] : f \in Mismatch(Trace[l])}
        /\ devs' = devs
        /\ l' = l + 1
TraceSpec == Init /\ [][Next]_<<l, devs, bad>>
Report == (l = Len(Trace) + 1) =>
  JsonSerialize(ResultFile, [n |-> l - 1, devs |-> SetToSeq(devs), bad |-> SetToSeq(bad)])
=============================================================================

----------------------------- MODULE Trie_Term -----------------------------
(* G-step for C15: for each entry set in InFile (seeded keys with long shared bit  *)
(* prefixes, values around the 32-byte boundary) TLC computes the Gray Paper root  *)
(* as a hash term and writes entries + term for the driver.                        *)
EXTENDS Trie, Json, TLC, SequencesExt
CONSTANTS InFile, OutFile
VARIABLE x

In == ndJsonDeserialize(InFile)
SetOf(es) == {[k |-> es[i].k, v |-> es[i].v] : i \in 1..Len(es)}
Out == [i \in 1..Len(In) |-> [id |-> i, entries |-> In[i].entries, want |-> Root(SetOf(In[i].entries))]]

ASSUME \A i \in 1..Len(In) : DistinctKeys(SetOf(In[i].entries))
ASSUME ndJsonSerialize(OutFile, Out)

GenInit == x = 0
GenNext == FALSE /\ x' = x
=============================================================================

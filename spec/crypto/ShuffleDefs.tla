----------------------------- MODULE ShuffleDefs -----------------------------
(* C20 — Gray Paper appendix F.  Pure definitions shared by Shuffle (MC),           *)
(* GuarantorAssign (MC), Shuffle_Gen and Shuffle_Trace.                              *)
(*                                                                                  *)
(*  F.1  F([], r) = [];  F(s, r) = [s_{r_0 mod l}] ++ F(s'[..l-1], r[1..]),          *)
(*       l = |s|, s' = s except s'_{r_0 mod l} = s_{l-1}                             *)
(*  F.2  Q_l(h)_i = LE32( H(h ++ E_4(floor(i/8)))[4i mod 32 .. +4) ),  i < l          *)
(*  F.3  F(s, h) = F(s, Q_{|s|}(h))                                                  *)
(*  11.19-11.20  R(c, n) = [(x + n) mod C | x <- c]                                  *)
(*               P(e, t) = R(F([floor(C i / V) | i < V], e), floor((t mod E) / R))    *)
(*                                                                                  *)
(* Numbers drawn from hashes are 32-bit and do not fit TLC's integers: every         *)
(* element of r is a little-endian BYTE SEQUENCE (any length) and `r mod l` is       *)
(* computed by long division from the most significant byte.  BLAKE2b is not         *)
(* evaluated here: HashQueries lists the inputs F.2 needs, the driver obtains the    *)
(* outputs with the real primitive (oracle table, DESIGN 3.3), and Q reads the       *)
(* table; a missing entry is an infrastructure error (Assert), never a verdict.      *)
EXTENDS Bytes, TLC

\* ---------------------------------------------------------------- numbers as LE byte sequences
RECURSIVE ModAcc(_, _, _, _)
ModAcc(b, i, m, rem) == IF i = 0 THEN rem ELSE ModAcc(b, i - 1, m, (rem * 256 + b[i]) % m)
\* (little-endian number b) mod m, for 0 < m < 2^23
ModLE(b, m) == ModAcc(b, Len(b), m, 0)

\* ---------------------------------------------------------------- F.1
RECURSIVE FAt(_, _, _)
FAt(s, r, k) ==
  IF s = <<>> THEN <<>>
  ELSE LET l  == Len(s)
           j  == ModLE(r[k], l) + 1
           s1 == [s EXCEPT ![j] = s[l]]
       IN <<s[j]>> \o FAt(SubSeq(s1, 1, l - 1), r, k + 1)
\* r must have at least Len(s) elements
F(s, r) == FAt(s, r, 1)

\* ---------------------------------------------------------------- F.2 with the oracle table
E4(k) == LE(k, 4)
HashInput(h, k) == h \o E4(k)
NBlocks(l) == (l + 7) \div 8
HashQueries(h, l) == [k \in 1..NBlocks(l) |-> HashInput(h, k - 1)]

\* tab is a sequence of <<input bytes, output bytes>> pairs filled by the driver
Lookup(tab, q) ==
  LET hits == {i \in 1..Len(tab) : tab[i][1] = q}
  IN IF hits = {} \/ \E i \in hits : Len(tab[i][2]) # 32
     THEN Assert(FALSE, <<"oracle table miss", q>>)
     ELSE tab[CHOOSE i \in hits : TRUE][2]
Blocks(h, l, tab) == [k \in 1..NBlocks(l) |-> Lookup(tab, HashInput(h, k - 1))]
QFrom(blocks, l) == [i \in 1..l |-> LET z == i - 1
                                        off == (4 * z) % 32
                                    IN SubSeq(blocks[(z \div 8) + 1], off + 1, off + 4)]
Q(h, l, tab) == QFrom(Blocks(h, l, tab), l)

\* ---------------------------------------------------------------- F.3
ShuffleH(s, h, tab) == F(s, Q(h, Len(s), tab))

\* ---------------------------------------------------------------- guarantor assignment
Base(V, C) == [i \in 1..V |-> (C * (i - 1)) \div V]
Rot(c, n, C) == [i \in 1..Len(c) |-> (c[i] + n) % C]
\* tE = t mod E
Assign(sh, tE, C, R) == Rot(sh, tE \div R, C)

\* ---------------------------------------------------------------- helpers for properties
CountOf(s, x) == Cardinality({i \in 1..Len(s) : s[i] = x})
SameMultiset(a, b) == Len(a) = Len(b) /\ \A i \in 1..Len(a) : CountOf(a, a[i]) = CountOf(b, a[i])
=============================================================================
